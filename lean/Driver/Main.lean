import Driver.C01
open Lean

/-- Generic stateful line loop: one JSON value in, one JSON value out, flushed. -/
partial def loop {σ : Type} (h out : IO.FS.Stream) (handle : σ → Json → σ × Json) (st : σ) : IO Unit := do
  let line ← h.getLine
  if line.isEmpty then return ()
  let (st', resp) :=
    match Json.parse line with
    | .ok j => handle st j
    | .error e => (st, Json.mkObj [("k", "bad-json"), ("why", e)])
  out.putStrLn resp.compress
  out.flush
  loop h out handle st'

def main (args : List String) : IO UInt32 := do
  let stdin ← IO.getStdin
  let stdout ← IO.getStdout
  match args with
  | ["storage"] => loop stdin stdout Driver.C01.handle OptunaVerif.Storage.init; return 0
  | _ => IO.eprintln "usage: driver <storage|...>"; return 2
