import Driver.Util
import OptunaVerif.Model.Best
/-! Sub-driver `best`: the C12 models behind the line protocol.

  {"op":"reset","dirs":[1,2,..]}                      start a study (1 = minimize, 2 = maximize)
  {"op":"ev","k":"create","state":s,"values":[..]|null,"cons":"absent"|"null"|[..]}
  {"op":"ev","k":"setState","i":n,"state":s,"values":[..]|null}
  {"op":"ev","k":"setCons","i":n,"cons":...}
  {"op":"query"}                                      everything the models say about the current history
  {"op":"fallback","b":n}                             Study.best_trial given that the storage answered trial n
  {"op":"front","rows":[[..],..]}                     _is_pareto_front on an array of loss rows (stateless)
-/
open Lean
namespace Driver.Sub.Best
open OptunaVerif OptunaVerif.Best Driver

structure St where
  dirs : List Dir
  mem : Mem
deriving Inhabited

def parseEVal (j : Json) : P EVal := do
  match EVal.ofX? (← parseXVal j) with
  | some v => pure v
  | none => throw "nan is not a value of a COMPLETE trial"

def showEVal (v : EVal) : String := showXVal v.toX

def parseValues (j : Json) (k : String) : P (Option (List EVal)) :=
  match optF j k with
  | none => pure none
  | some v => do return some (← mapM' parseEVal (← v.getArr?).toList)

def parseCons (j : Json) : P Cons := do
  match fieldD j "cons" (Json.str "absent") with
  | Json.str "absent" => pure .absent
  | Json.str "null" => pure .null
  | v => do return .vals (← mapM' parseXVal (← v.getArr?).toList)

def parseDir (j : Json) : P Dir := do
  match ← j.getNat? with
  | 1 => pure .minimize
  | 2 => pure .maximize
  | _ => throw "bad direction"

def parseEv (j : Json) : P Ev := do
  match ← strF j "k" with
  | "create" => return .create (← parseState (← field j "state")) (← parseValues j "values") (← parseCons j)
  | "setState" => return .setState (← natF j "i") (← parseState (← field j "state")) (← parseValues j "values")
  | "setCons" => return .setCons (← natF j "i") (← parseCons j)
  | k => throw s!"unknown event {k}"

def optNat : Option Nat → Json
  | none => Json.null
  | some n => (n : Json)

def natsJson (l : List Nat) : Json := Json.arr (l.map (fun (n : Nat) => (n : Json))).toArray

def resJson : Except Err Nat → Json
  | .ok i => Json.mkObj [("ok", (i : Json))]
  | .error .valueError => Json.mkObj [("err", "ValueError")]
  | .error .runtimeError => Json.mkObj [("err", "RuntimeError")]

def trialJson (t : BTrial) : Json :=
  Json.mkObj [("state", t.state.code),
    ("values", optJson (fun l => Json.arr (l.map (fun v => Json.str (showEVal v))).toArray) t.values),
    ("cons", match t.cons with
      | .absent => Json.str "absent"
      | .null => Json.str "null"
      | .vals l => Json.arr (l.map (fun v => Json.str (showXVal v))).toArray)]

def boolsJson (l : List Bool) : Json := Json.arr (l.map (fun (b : Bool) => (b : Json))).toArray

def query (s : St) : Json :=
  let ts := s.mem.trials
  let base : List (String × Json) := [("n", ts.length), ("trials", Json.arr (ts.map trialJson).toArray),
    ("front", match bestTrials s.dirs ts with
      | some l => natsJson l
      | none => Json.str "ValueError"),
    ("constrained", ts.any (fun t => t.cons.hasKey))]
  match s.dirs with
  | [d] =>
    let mem := s.mem.best
    let scan := scanBest d ts
    let rdb := rdbBest d ts
    Json.mkObj (base ++ [
      ("mem", optNat mem), ("scan", optNat scan), ("rdb", optNat rdb),
      ("opt", natsJson (optSet d (fun _ => true) ts)),
      ("feasOpt", natsJson (optSet d feasible ts)),
      ("studyMem", resJson (studyBestTrial (fun _ _ => mem) s.dirs ts)),
      ("studyScan", resJson (studyBestTrial scanBest s.dirs ts)),
      ("studyRdb", resJson (studyBestTrial rdbBest s.dirs ts))])
  | _ =>
    Json.mkObj (base ++ [("study", resJson (studyBestTrial scanBest s.dirs ts))])

def pathOf (rows : List Point) : String :=
  match uniqueLexsort rows with
  | [] => "empty"
  | r :: _ => if r.length == 1 then "1d" else if r.length == 2 then "2d" else "nd"

def handle (s : St) (j : Json) : St × Json :=
  match j.getObjVal? "op" with
  | .ok (Json.str "reset") =>
    match (do mapM' parseDir (← arrF j "dirs") : P (List Dir)) with
    | .ok dirs => ({ dirs := dirs, mem := Mem.init }, Json.mkObj [("k", "reset")])
    | .error e => (s, Json.mkObj [("k", "bad-op"), ("why", e)])
  | .ok (Json.str "ev") =>
    match parseEv j with
    | .ok ev =>
      let m := Mem.step s.dirs s.mem ev
      ({ s with mem := m }, Json.mkObj [("k", "ev"), ("n", m.trials.length), ("best", optNat m.best)])
    | .error e => (s, Json.mkObj [("k", "bad-op"), ("why", e)])
  | .ok (Json.str "query") => (s, query s)
  | .ok (Json.str "fallback") =>
    match natF j "b", s.dirs with
    | .ok b, [d] => (s, resJson (fallback d s.mem.trials b))
    | _, _ => (s, Json.mkObj [("k", "bad-op"), ("why", "fallback needs b and a single-objective study")])
  | .ok (Json.str "front") =>
    match (do mapM' (fun r => do mapM' parseEVal (← r.getArr?).toList) (← arrF j "rows") : P (List Point)) with
    | .ok rows =>
      (s, Json.mkObj [("front", boolsJson (isParetoFront rows)), ("path", pathOf rows),
        ("unique", Json.arr ((uniqueLexsort rows).map (fun r => Json.arr (r.map (fun v => Json.str (showEVal v))).toArray)).toArray),
        ("sorted_front", boolsJson (frontSorted (uniqueLexsort rows)))])
    | .error e => (s, Json.mkObj [("k", "bad-op"), ("why", e)])
  | _ => (s, Json.mkObj [("k", "bad-op"), ("why", "unknown op")])

/-- entry point: `driver best` -/
def main : IO Unit := Driver.lineLoop handle { dirs := [], mem := Mem.init }

end Driver.Sub.Best
