import Driver.Sub.Best
import OptunaVerif.Generated.BestMethods
/-! Sub-driver `bestgen`: the protocol of `best` (C12), with the interpreters of the IR GENERATED from the source
(`Generated/BestMethods.lean`, `Model/BestIR.lean`) run side by side with the hand model.  Answers carry `"gen"`:
`null` when every generated interpreter agrees with the hand model on this input, else the list of the methods that
differ with both answers:

  ev        `_update_cache` (the generated bookkeeping replays the same history in a second `Mem`)
  query     `BaseStorage.get_best_trial`, `InMemoryStorage.get_best_trial`, `RDBStorage.get_best_trial` (+ the two queries),
            `Study.best_trial` on each storage answer (per-thread cache = an EMPTY snapshot, so a fallback that reads the cache shows),
            `Study.best_trials`
  fallback  `Study.best_trial` given the storage's answer
  front     `_is_pareto_front` with and without `assume_unique_lexsorted`
-/
open Lean
namespace Driver.Sub.BestGen
open OptunaVerif OptunaVerif.Best OptunaVerif.BestIR Driver Driver.Sub.Best
open OptunaVerif.Generated.BestMethods (prog)

structure St where
  s : Driver.Sub.Best.St
  g : Mem
deriving Inhabited

def gresJson : GRes → Json
  | .ok i => Json.mkObj [("ok", (i : Json))]
  | .raise .valueError => Json.mkObj [("err", "ValueError")]
  | .raise .runtimeError => Json.mkObj [("err", "RuntimeError")]
  | .crash => Json.mkObj [("err", "crash")]

def ofExcept : Except Err Nat → GRes
  | .ok i => .ok i
  | .error e => .raise e

def nvJson : NV → Json
  | .mask b => boolsJson b
  | .err => Json.str "err"
  | _ => Json.str "other"

def optNatsJson : Option (List Nat) → Json
  | some l => natsJson l
  | none => Json.str "ValueError"

def diffs (l : List (String × Bool × Json × Json)) : Json :=
  match l.filter (fun x => !x.2.1) with
  | [] => Json.null
  | bad => Json.arr (bad.map (fun x => Json.mkObj [("method", x.1), ("generated", x.2.2.1), ("hand", x.2.2.2)])).toArray

def cmpG (name : String) (g h : GRes) : String × Bool × Json × Json := (name, g == h, gresJson g, gresJson h)

def queryGen (st : St) : Json :=
  let dirs := st.s.dirs
  let ts := st.s.mem.trials
  let fr := interpBestTrials prog dirs ts
  let frH := bestTrials dirs ts
  let common := [("Study.best_trials", fr == frH, optNatsJson fr, optNatsJson frH),
    ("_update_cache (history)", st.g == st.s.mem, Json.mkObj [("best", optNat st.g.best)], Json.mkObj [("best", optNat st.s.mem.best)])]
  match dirs with
  | [d] =>
    let rows := ts.map toRow
    let algs : List (String × Option Nat) := [("mem", st.s.mem.best), ("scan", scanBest d ts), ("rdb", rdbBest d ts)]
    diffs (common ++ [
      cmpG "BaseStorage.get_best_trial" (interpBaseBest prog dirs ts) (GRes.ofOpt (scanBest d ts)),
      cmpG "InMemoryStorage.get_best_trial" (interpMemBest prog dirs st.g.best) (GRes.ofOpt st.s.mem.best),
      cmpG "RDBStorage.get_best_trial" (interpRdbBest prog dirs rows) (GRes.ofOpt (rdbBest d ts))] ++
      algs.map (fun a => cmpG s!"Study.best_trial ({a.1})" (interpStudyBest prog (GRes.ofOpt a.2) dirs ts [])
        (ofExcept (studyBestTrial (fun _ _ => a.2) dirs ts))))
  | _ =>
    diffs (common ++ [cmpG "Study.best_trial" (interpStudyBest prog .crash dirs ts []) (ofExcept (studyBestTrial scanBest dirs ts))])

def withGen (out : Json) (d : Json) : Json := out.setObjVal! "gen" d

def handle (st : St) (j : Json) : St × Json :=
  let (s', out) := Driver.Sub.Best.handle st.s j
  match j.getObjVal? "op" with
  | .ok (Json.str "reset") => ({ s := s', g := Mem.init }, out)
  | .ok (Json.str "ev") =>
    match parseEv j with
    | .ok ev =>
      let g' := stepWith (interpUpdateCache prog.updateCache) st.s.dirs st.g ev
      let same := g' == s'.mem
      ({ s := s', g := g' }, withGen out (if same then Json.null else
        Json.arr #[Json.mkObj [("method", "_update_cache"), ("generated", Json.mkObj [("best", optNat g'.best)]),
          ("hand", Json.mkObj [("best", optNat s'.mem.best)])]]))
    | .error _ => ({ st with s := s' }, out)
  | .ok (Json.str "query") => ({ st with s := s' }, withGen out (queryGen { st with s := s' }))
  | .ok (Json.str "fallback") =>
    match natF j "b", s'.dirs with
    | .ok b, [d] =>
      ({ st with s := s' }, withGen out (diffs [cmpG "Study.best_trial" (interpStudyBest prog (.ok b) [d] s'.mem.trials [])
        (ofExcept (fallback d s'.mem.trials b))]))
    | _, _ => ({ st with s := s' }, out)
  | .ok (Json.str "front") =>
    match (do mapM' (fun r => do mapM' parseEVal (← r.getArr?).toList) (← arrF j "rows") : P (List Point)) with
    | .ok rows =>
      let g1 := interpFront prog rows false
      let g2 := interpFront prog (uniqueLexsort rows) true
      ({ st with s := s' }, withGen out (diffs [
        ("_is_pareto_front", g1 == .mask (isParetoFront rows), nvJson g1, boolsJson (isParetoFront rows)),
        ("_is_pareto_front(assume_unique_lexsorted=True)", g2 == .mask (frontSorted (uniqueLexsort rows)), nvJson g2,
          boolsJson (frontSorted (uniqueLexsort rows)))]))
    | .error _ => ({ st with s := s' }, out)
  | _ => ({ st with s := s' }, out)

/-- entry point: `driver bestgen` -/
def main : IO Unit := Driver.lineLoop handle { s := { dirs := [], mem := Mem.init }, g := Mem.init }

end Driver.Sub.BestGen
