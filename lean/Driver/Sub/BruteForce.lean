import Driver.Util
import OptunaVerif.Model.BruteForce
import OptunaVerif.Generated.BruteForceMethods
/-! Sub-driver `bruteforce`: the brute-force sampler model behind the line protocol (C14).

request  {"op":"run","prog":P,"avoid":bool,"ks":[k..],"cuts":[[trial,"mid",j]|[trial,"end"]..],
          "choices":["n/d"..],"stale":[[[name,D,"n/d"]..]..]}
   P = {"leaf":"complete"|"pruned"|"fail"|"raise"} | {"name":s,"dist":D,"kids":[["n/d",P]..]}
   D = {"k":"int","low":i,"high":i,"step":i} | {"k":"float","low":"n/d","high":"n/d","step":"n/d"} | {"k":"cat","n":i}
response {"trials":[{"steps":[[name,"n/d"]..],"finished":b}..],"stop":b,"crashed":b,"ncalls":n,
          "calls":[{"trial":i,"name":s,"cands":["n/d"..],"weights":[w..]|null}..],"gen":null|{..}}
          "gen": the same run with `sample_independent` / `after_trial` taken from the interpreter of the methods
          GENERATED from the source (`Generated/BruteForceMethods.lean`, `Model/SamplerIR.lean`; finished trials
          stored as COMPLETE / PRUNED / FAIL in turn) — `null` when it agrees with the hand model on every
          trial, the stop flag, the crash flag and the number of RNG calls, else the first difference.
request  {"op":"enum","dist":D}  ->  {"cands":["n/d"..],"single":b,"gen":null|{..}}   (generated `_enumerate_candidates`)
-/
open Lean
namespace Driver.Sub.BruteForce
open OptunaVerif OptunaVerif.BruteForce OptunaVerif.SamplerIR Driver
open OptunaVerif.Generated

def ratF (j : Json) (k : String) : P Rat := do parseRat (← strF j k)

def parseDist (j : Json) : P Dist := do
  match (← strF j "k") with
  | "int" => return .int (← intF j "low") (← intF j "high") (← intF j "step")
  | "float" => return .float (← ratF j "low") (← ratF j "high") (← ratF j "step")
  | "cat" => return .cat (← natF j "n")
  | k => throw s!"unknown dist kind {k}"

def parseOutcome (s : String) : P Outcome :=
  match s with
  | "complete" => pure .complete
  | "pruned" => pure .pruned
  | "fail" => pure (.fail false)
  | "raise" => pure (.fail true)
  | _ => throw s!"unknown outcome {s}"

partial def parseProg (j : Json) : P Prog := do
  match optF j "leaf" with
  | some l => return .leaf (← parseOutcome (← l.getStr?))
  | none =>
    let name ← strF j "name"
    let d ← parseDist (← field j "dist")
    let kids ← mapM' (fun kj => do
      match (← kj.getArr?).toList with
      | [v, p] => return (← parseRat (← v.getStr?), ← parseProg p)
      | _ => throw "kid pair expected") (← arrF j "kids")
    return .node name d.single d.enumerate
      (fun v => match kids.find? (fun kv => kv.1 == v) with
        | some kv => kv.2
        | none => .leaf .complete)

def parseStep (j : Json) : P Step := do
  match (← j.getArr?).toList with
  | [n, d, v] => return ⟨← n.getStr?, (← parseDist d).enumerate, ← parseRat (← v.getStr?)⟩
  | _ => throw "step triple expected"

def parseCut (j : Json) : P (Nat × Cut) := do
  match (← j.getArr?).toList with
  | [t, k, n] =>
    if (← k.getStr?) == "mid" then return (← t.getNat?, .mid (← n.getNat?)) else throw "bad cut"
  | [t, k] =>
    if (← k.getStr?) == "end" then return (← t.getNat?, .atEnd) else throw "bad cut"
  | _ => throw "bad cut"

def ratsJson (l : List Rat) : Json := Json.arr (l.map (fun q => Json.str (showRat q))).toArray

/-- the sampler calls of one trial (program `p`, history `others`), recomputed for the log -/
def callsOf (avoid : Bool) (others : List Trial) (ti : Nat) : Prog → List Step → List Step → List Json
  | .leaf _, _, _ => []
  | .node _ _ _ _, _, [] => []
  | .node name single cands child, pre, s :: rest =>
    let here :=
      if single then []
      else
        match buildTree others pre name cands with
        | none => [Json.mkObj [("trial", ti), ("name", name), ("cands", ratsJson cands), ("error", true)]]
        | some tree =>
          let w : Json := if tree.count (!avoid) = 0 then Json.null
            else Json.arr ((tree.weights (!avoid)).map (fun (n : Nat) => (n : Json))).toArray
          [Json.mkObj [("trial", ti), ("name", name), ("cands", ratsJson tree.keys), ("weights", w)]]
    here ++ callsOf avoid others ti (child s.value) (pre ++ [s]) rest

def trialJson (t : Trial) : Json :=
  Json.mkObj [("steps", Json.arr (t.steps.map (fun s => Json.arr #[Json.str s.name, Json.str (showRat s.value)])).toArray),
    ("finished", t.finished)]

def allCalls (avoid : Bool) (p : Prog) (trials : List Trial) (nStale : Nat) : List Json :=
  (List.range trials.length).flatMap (fun i =>
    if i < nStale then []
    else match trials[i]? with
      | some t => callsOf avoid (trials.take i) i p [] t.steps
      | none => [])

/-- the finished states the generated run stores: COMPLETE, PRUNED, FAIL in turn -/
def sigma (i : Nat) : FState :=
  match i % 3 with
  | 0 => .complete
  | 1 => .pruned
  | _ => .fail

def genRun (cx : Ctx) (p : Prog) (ks : List Nat) (st : St) : St :=
  sessionW (genImpl BruteForceMethods.treeProg BruteForceMethods.populateTree BruteForceMethods.sampleIndependent
    BruteForceMethods.afterTrial sigma) cx p ks st

def genDiff (h g : St) : Json :=
  if h.trials.length != g.trials.length then
    Json.mkObj [("what", "number of trials"), ("hand", h.trials.length), ("generated", g.trials.length)]
  else
    match (List.range h.trials.length).find? (fun i => h.trials[i]? != g.trials[i]?) with
    | some i => Json.mkObj [("what", "trial"), ("index", i),
        ("hand", (h.trials[i]?.map trialJson).getD Json.null), ("generated", (g.trials[i]?.map trialJson).getD Json.null)]
    | none =>
      if h.stop != g.stop then Json.mkObj [("what", "stop flag"), ("hand", h.stop), ("generated", g.stop)]
      else if h.crashed != g.crashed then Json.mkObj [("what", "sampler error"), ("hand", h.crashed), ("generated", g.crashed)]
      else if h.calls != g.calls then Json.mkObj [("what", "RNG calls"), ("hand", h.calls), ("generated", g.calls)]
      else Json.null

def run (j : Json) : P Json := do
  let p ← parseProg (← field j "prog")
  let avoid ← boolF j "avoid"
  let ks ← mapM' (fun k => k.getNat?) (← arrF j "ks")
  let cuts ← mapM' parseCut (← arrF j "cuts")
  let choices ← mapM' (fun c => do parseRat (← c.getStr?)) (← arrF j "choices")
  let stale ← mapM' (fun t => do
    return (⟨← mapM' parseStep (← t.getArr?).toList, false⟩ : Trial)) (← arrF j "stale")
  let cx : Ctx := {
    avoid := avoid,
    ω := fun c => choices.getD c 0,
    cuts := fun n => match cuts.find? (fun tc => tc.1 == n) with
      | some tc => tc.2
      | none => .none }
  let st := session cx p ks { trials := stale }
  -- the generated hooks may never set the stop flag: bound every budget by what the hand model needed
  let cap := st.trials.length + 3
  let stG := genRun cx p (ks.map (fun k => min k cap)) { trials := stale }
  return Json.mkObj [
    ("gen", genDiff st stG),
    ("trials", Json.arr (st.trials.map trialJson).toArray),
    ("stop", st.stop), ("crashed", st.crashed), ("ncalls", st.calls),
    ("calls", Json.arr (allCalls avoid p st.trials stale.length).toArray)]

def handle (j : Json) : Json :=
  match j.getObjVal? "op" with
  | .ok (Json.str "run") =>
    match run j with
    | .ok r => r
    | .error e => Json.mkObj [("k", "bad-op"), ("why", e)]
  | .ok (Json.str "enum") =>
    match (do let d ← parseDist (← field j "dist"); pure d : P Dist) with
    | .ok d =>
      let g : Json := match interpEnumerate BruteForceMethods.enumerateCandidates id d with
        | .ok l => if l == d.enumerate then Json.null else Json.mkObj [("what", "candidates"), ("generated", ratsJson l)]
        | .error _ => Json.mkObj [("what", "generated _enumerate_candidates raised")]
      Json.mkObj [("cands", ratsJson d.enumerate), ("single", d.single), ("gen", g)]
    | .error e => Json.mkObj [("k", "bad-op"), ("why", e)]
  | _ => Json.mkObj [("k", "bad-op"), ("why", "unknown op")]

/-- entry point: `driver bruteforce` -/
def main : IO Unit := Driver.lineMap handle

end Driver.Sub.BruteForce
