import Driver.Sub.Storage
import OptunaVerif.Model.Cache
/-! Sub-driver `cache`: several clients (raw / `_CachedStorage` / gRPC proxy with its servicer on the
storage or on one of the cached clients) on one backend (C08). -/
open Lean
namespace Driver.Sub.Cache
open OptunaVerif OptunaVerif.Storage OptunaVerif.Cache Driver Driver.Sub.Storage

def parseNode (j : Json) : P Node := do
  match ← strF j "kind" with
  | "raw" => return .raw
  | "cached" => return .cached Client.init
  | "proxy" =>
    let srv := match optF j "server" with
      | none => none
      | some v => v.getNat?.toOption
    return .proxy srv Proxy.init
  | k => throw s!"unknown node kind {k}"

def natsJson (l : List Nat) : Json := Json.arr (l.map (fun (n : Nat) => (n : Json))).toArray

def sortNat (l : List Nat) : List Nat := l.mergeSort (fun a b => a ≤ b)

def entryJson (sid : Nat) (e : Entry) : Json :=
  Json.mkObj [("sid", sid), ("U", natsJson (sortNat e.unfinished)), ("W", Json.num (JsonNumber.fromInt e.watermark)),
    ("numbers", natsJson (e.trials.map (·.1))),
    ("ids", natsJson (e.trials.map (·.2.1))),
    ("name", optJson Json.str e.name),
    ("dirs", optJson natsJson e.directions)]

def nodeJson : Node → Json
  | .raw => Json.mkObj [("kind", "raw")]
  | .cached c => Json.mkObj [("kind", "cached"),
      ("studies", Json.arr (c.studies.map (fun p => entryJson p.1 p.2)).toArray),
      ("id2sn", Json.arr (c.id2sn.map (fun p => natsJson [p.1, p.2.1, p.2.2])).toArray),
      ("sn2id", Json.arr (c.sn2id.map (fun p => natsJson [p.1.1, p.1.2, p.2])).toArray)]
  | .proxy _ p => Json.mkObj [("kind", "proxy"),
      ("studies", Json.arr (p.studies.map (fun q => entryJson q.1 q.2)).toArray)]

def idsJson (r : Except Err (List (Nat × TrialS))) : Json :=
  match r with
  | .ok l => Json.mkObj [("k", "ids"), ("l", natsJson (l.map (·.1)))]
  | .error e => Json.mkObj [("k", "err"), ("e", errName e)]

def handle (y : Sys) (j : Json) : Sys × Json :=
  match strF j "cmd" with
  | .error e => (y, Json.mkObj [("k", "bad-op"), ("why", e)])
  | .ok "reset" =>
    match (do mapM' parseNode (← arrF j "nodes") : P (List Node)) with
    | .error e => (y, Json.mkObj [("k", "bad-op"), ("why", e)])
    | .ok nodes => ({ backend := Storage.init, nodes := nodes }, Json.mkObj [("k", "reset")])
  | .ok "call" =>
    match (do return (← natF j "node", ← parseOp (← field j "op")) : P (Nat × Op)) with
    | .error e => (y, Json.mkObj [("k", "bad-op"), ("why", e)])
    | .ok (i, op) =>
      let direct := (step y.backend op).2
      let (y', out) := y.call i op
      (y', Json.mkObj [("out", outJson out), ("direct", outJson direct)])
  | .ok "dump" =>
    match natF j "node" with
    | .error e => (y, Json.mkObj [("k", "bad-op"), ("why", e)])
    | .ok i =>
      match y.nodes[i]? with
      | some n => (y, nodeJson n)
      | none => (y, Json.mkObj [("k", "bad-op"), ("why", "no such node")])
  | .ok "filter" =>
    -- the two fetch filters applied to the backend's list of a study
    match (do return (← strF j "which", ← natF j "sid", ← mapM' (fun c => c.getNat?) (← arrF j "inc"), ← intF j "w") :
        P (String × Nat × List Nat × Int)) with
    | .error e => (y, Json.mkObj [("k", "bad-op"), ("why", e)])
    | .ok (which, sid, inc, w) =>
      if which == "rdb" then (y, idsJson (fetchRdb y.backend sid inc w))
      else
        match y.backend.study? sid with
        | none => (y, idsJson (.error .keyError))
        | some _ => (y, idsJson (.ok (servicerFilter inc w (y.backend.trialsOf sid))))
  | .ok "state" => (y, Json.mkObj [("state", stateJson y.backend)])
  | .ok c => (y, Json.mkObj [("k", "bad-op"), ("why", s!"unknown cmd {c}")])

def main : IO Unit := Driver.lineLoop handle { backend := Storage.init, nodes := [] }

end Driver.Sub.Cache
