import Driver.Sub.Cache
import OptunaVerif.Generated.CacheMethods
/-! Sub-driver `cachegen`: the protocol of `cache` (C08), with the interpreter of the method bodies GENERATED from the
source (`Generated/CacheMethods.lean`, `Model/CacheIR.lean`) run side by side with the hand model on every `call`
(the calling node's own step: `_CachedStorage` method / proxy method incl. the servicer and its backend) and every
`filter` probe.  Those answers carry `"gen"`: `null` when both agree on the whole result (backend, cache fields,
answer), else a description of both.  Optional field `tooMany` (bool): the database refuses long `IN (…)` lists. -/
open Lean
namespace Driver.Sub.CacheGen
open OptunaVerif OptunaVerif.Storage OptunaVerif.Cache OptunaVerif.CacheIR Driver Driver.Sub.Storage Driver.Sub.Cache
open OptunaVerif.Generated.CacheMethods (program)

def flag (j : Json) (k : String) : Bool := (fieldD j k (Json.bool false)).getBool?.toOption.getD false

def clientJson (c : Client) : Json := nodeJson (.cached c)
def proxyJson (p : Proxy) : Json := nodeJson (.proxy none p)

def describe (what : String) (gen hand : Json) : Json :=
  Json.mkObj [("what", what), ("generated", gen), ("hand", hand)]

/-- the calling node's step, generated vs hand -/
def genCall (tooMany : Bool) (y : Sys) (i : Nat) (op : Op) : Json :=
  match y.nodes[i]? with
  | some (.cached c) =>
    let h := callCached y.backend c op
    match program.callCached tooMany y.backend c op with
    | none => describe "_CachedStorage call" (Json.str "unrepresentable") (outJson h.2.2)
    | some g =>
      if g.2.1 == h.2.1 && outJson g.2.2 == outJson h.2.2 && stateJson g.1 == stateJson h.1 then Json.null
      else describe "_CachedStorage call" (Json.mkObj [("out", outJson g.2.2), ("cache", clientJson g.2.1)])
        (Json.mkObj [("out", outJson h.2.2), ("cache", clientJson h.2.1)])
  | some (.proxy srv p) =>
    let sc := srv.bind (fun j => match y.nodes[j]? with | some (.cached c) => some c | _ => none)
    let h := callProxy y.backend sc p op
    match program.callProxy tooMany y.backend sc p op with
    | none => describe "GrpcStorageProxy call" (Json.str "unrepresentable") (outJson h.2.2.2)
    | some g =>
      if g.2.2.1 == h.2.2.1 && g.2.1 == h.2.1 && outJson g.2.2.2 == outJson h.2.2.2 && stateJson g.1 == stateJson h.1 then Json.null
      else describe "GrpcStorageProxy call" (Json.mkObj [("out", outJson g.2.2.2), ("cache", proxyJson g.2.2.1)])
        (Json.mkObj [("out", outJson h.2.2.2), ("cache", proxyJson h.2.2.1)])
  | _ => Json.null

def genFilter (tooMany : Bool) (y : Sys) (which : String) (sid : Nat) (inc : List Nat) (w : Int) : Json :=
  if which == "rdb" then
    let h := fetchRdb y.backend sid inc w
    let g := rdbFetch program.rdbGetTrials tooMany y.backend sid none inc w
    if g.map idsJson == some (idsJson h) then Json.null
    else describe "RDBStorage._get_trials" ((g.map idsJson).getD (Json.str "unrepresentable")) (idsJson h)
  else
    let answer := (step y.backend (.getAllTrials sid none)).2
    let h : Except Err (List (Nat × TrialS)) := match answer with
      | .trials l => .ok (servicerFilter inc w l)
      | .err e => .error e
      | _ => .error .runtimeError
    let g := interpGetTrials program.servicerGetTrials answer inc w
    if g.map idsJson == some (idsJson h) then Json.null
    else describe "servicer GetTrials" ((g.map idsJson).getD (Json.str "unrepresentable")) (idsJson h)

def handle (y : Sys) (j : Json) : Sys × Json :=
  let (y', out) := Driver.Sub.Cache.handle y j
  let tooMany := flag j "tooMany"
  match strF j "cmd" with
  | .ok "call" =>
    match (do return (← natF j "node", ← parseOp (← field j "op")) : P (Nat × Op)) with
    | .ok (i, op) => (y', out.setObjVal! "gen" (genCall tooMany y i op))
    | .error _ => (y', out)
  | .ok "filter" =>
    match (do return (← strF j "which", ← natF j "sid", ← mapM' (fun c => c.getNat?) (← arrF j "inc"), ← intF j "w") :
        P (String × Nat × List Nat × Int)) with
    | .ok (which, sid, inc, w) => (y', out.setObjVal! "gen" (genFilter tooMany y which sid inc w))
    | .error _ => (y', out)
  | _ => (y', out)

def main : IO Unit := Driver.lineLoop handle { backend := Storage.init, nodes := [] }

end Driver.Sub.CacheGen
