import Driver.Util
import OptunaVerif.Model.InMemoryCursor
/-! Sub-driver `cursor`: the WAITING-cursor model of InMemoryStorage (C04).
{"op":"reset"} | {"op":"create","st":code} | {"op":"set","n":k,"st":code} | {"op":"get"} -/
open Lean
namespace Driver.Sub.Cursor
open OptunaVerif OptunaVerif.InMemoryCursor Driver

def handle (s : St) (j : Json) : St × Json :=
  match strF j "op" with
  | .ok "reset" => (⟨[], 0⟩, Json.mkObj [("k", "reset")])
  | .ok "create" =>
    match (do parseState (← field j "st") : P TState) with
    | .ok st => let r := step s (.create st); (r.1, Json.mkObj [("cursor", r.1.cursor)])
    | .error e => (s, Json.mkObj [("k", "bad-op"), ("why", e)])
  | .ok "set" =>
    match (do return (← natF j "n", ← parseState (← field j "st")) : P (Nat × TState)) with
    | .ok (n, st) => let r := step s (.setState n st); (r.1, Json.mkObj [("cursor", r.1.cursor)])
    | .error e => (s, Json.mkObj [("k", "bad-op"), ("why", e)])
  | .ok "get" =>
    let r := step s .getWaiting
    (r.1, Json.mkObj [("cursor", r.1.cursor),
      ("waiting", Json.arr ((r.2.getD []).map (fun (n : Nat) => (n : Json))).toArray),
      ("all", Json.arr ((allWaiting s).map (fun (n : Nat) => (n : Json))).toArray)])
  | _ => (s, Json.mkObj [("k", "bad-op")])

def main : IO Unit := Driver.lineLoop handle ⟨[], 0⟩

end Driver.Sub.Cursor
