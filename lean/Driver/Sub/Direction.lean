import Driver.Util
import OptunaVerif.Model.Direction
/-! Sub-driver `direction`: the decision sites of `Model/Direction.lean` behind the line protocol (C13).
One JSON object per line: `{"site": <name>, ...}` → `{"r": ...}`.  Exact rationals as `"n/d"`, NaN as `"nan"`. -/
open Lean
namespace Driver.Sub.Direction
open OptunaVerif OptunaVerif.Direction Driver

def parseDir (j : Json) : P Dir := do
  match ← j.getStr? with
  | "min" => pure .minimize
  | "max" => pure .maximize
  | s => throw s!"bad direction {s}"

def parseV (j : Json) : P V := do
  let s ← j.getStr?
  if s == "nan" then pure none else return some (← parseRat s)

def parseR (j : Json) : P Rat := do parseRat (← j.getStr?)

def parseOptR (j : Json) (k : String) : P (Option Rat) :=
  match optF j k with
  | none => pure none
  | some v => do return some (← parseR v)

def listF {β} (f : Json → P β) (j : Json) (k : String) : P (List β) := do mapM' f (← arrF j k)

def parsePairIR (j : Json) : P (Int × Rat) := do
  match (← j.getArr?).toList with
  | [s, v] => return (← s.getInt?, ← parseR v)
  | _ => throw "pair expected"

def parsePairIV (j : Json) : P (Int × V) := do
  match (← j.getArr?).toList with
  | [s, v] => return (← s.getInt?, ← parseV v)
  | _ => throw "pair expected"

def parseTV (j : Json) : P TV := do
  match (← j.getArr?).toList with
  | [n, v] => return (← n.getNat?, ← parseR v)
  | _ => throw "pair expected"

def parsePruned (j : Json) : P (Nat × List (Int × V)) := do
  match (← j.getArr?).toList with
  | [n, iv] => return (← n.getNat?, ← mapM' parsePairIV (← iv.getArr?).toList)
  | _ => throw "pair expected"

def parseInd (j : Json) : P Ind := do
  match (← j.getArr?).toList with
  | [n, vs] => return ⟨← n.getNat?, ← mapM' parseR (← vs.getArr?).toList⟩
  | _ => throw "pair expected"

def vJson : V → Json
  | none => Json.str "nan"
  | some q => Json.str (showRat q)

def extJson : Ext → Json
  | .pinf => Json.str "inf"
  | .fin q => Json.str (showRat q)

def natsJson (l : List Nat) : Json := Json.arr (l.map (fun (n : Nat) => (n : Json))).toArray
def ratsJson (l : List Rat) : Json := Json.arr (l.map (fun q => Json.str (showRat q))).toArray

def ok (j : Json) : Json := Json.mkObj [("r", j)]

def run (j : Json) : P Json := do
  let site ← strF j "site"
  match site with
  | "best" =>
    return ok (vJson (bestIntermediate (← parseDir (← field j "d")) (← listF parseV j "vs")))
  | "perc" =>
    return ok (vJson (percentileOverTrials (← parseDir (← field j "d")) (← listF parseV j "vals")
      (← parseR (← field j "q")) (← natF j "nMin")))
  | "percPrune" =>
    return ok (Json.bool (percentilePrune (← parseDir (← field j "d")) (← parseR (← field j "q")) (← natF j "nMin")
      (← listF parseV j "cur") (← listF parseV j "others")))
  | "promotable" =>
    return ok (Json.bool (promotable (← parseDir (← field j "d")) (← parseR (← field j "value"))
      (← listF parseR j "competing") (← natF j "rf")))
  | "patient" =>
    return ok (Json.bool (patientMaybePrune (← parseDir (← field j "d")) (← listF parseV j "before")
      (← listF parseV j "after") (← parseR (← field j "delta"))))
  | "threshold" =>
    return ok (Json.bool (thresholdPrune (← parseOptR j "lower") (← parseOptR j "upper") (← parseV (← field j "v"))))
  | "wilcoxon" =>
    let d ← parseDir (← field j "d")
    let cur ← listF parsePairIR j "cur"
    let best ← listF parsePairIR j "best"
    let p ← parseR (← field j "p")
    let df := diffs cur best
    return ok (Json.mkObj [
      ("rPlus", Json.str (showRat (rPlus df))), ("rMinus", Json.str (showRat (rMinus df))), ("n", df.length),
      ("alt", match wilcoxonAlt d with | .less => "less" | .greater => "greater"),
      ("avgIsBest", avgIsBest d (best.map (·.2)) (cur.map (·.2))),
      ("prune", wilcoxonPrune (fun _ _ _ _ => p) d (← parseR (← field j "pThr")) cur best)])
  | "splitSingle" =>
    let r := splitCompleteSingle (← parseDir (← field j "d")) (← listF parseTV j "ts") (← natF j "nBelow")
    return ok (Json.arr #[natsJson (r.1.map (·.1)), natsJson (r.2.map (·.1))])
  | "prunedScore" =>
    let r := prunedScore (← parseDir (← field j "d")) (← listF parsePairIV j "iv")
    return ok (Json.arr #[Json.num (JsonNumber.fromInt r.1), extJson r.2])
  | "splitPruned" =>
    let r := splitPruned (← parseDir (← field j "d")) (← listF parsePruned j "ts") (← natF j "nBelow")
    return ok (Json.arr #[natsJson r.1, natsJson r.2])
  | "dominates" =>
    return ok (Json.bool (dominates (← listF parseDir j "dirs") (← listF parseR j "v0") (← listF parseR j "v1")))
  | "lossRow" =>
    return ok (ratsJson (lossRow (← listF parseDir j "dirs") (← listF parseR j "vals")))
  | "gpScore" =>
    return ok (Json.str (showRat (gpScore (← parseDir (← field j "d")) (← parseR (← field j "v")))))
  | "bestTrial" =>
    match bestTrial (← parseDir (← field j "d")) (← listF parseTV j "ts") with
    | none => return ok Json.null
    | some t => return ok (t.1 : Json)
  | "crowdingSort" =>
    return ok (natsJson ((crowdingSort (← listF parseInd j "pop") (← natF j "nObj")).map (·.number)))
  | "crowdingSortOld" =>
    return ok (natsJson ((crowdingSortOld (← listF parseInd j "pop") (← natF j "nObj")).map (·.number)))
  | "nsga3Shift" =>
    let rows ← mapM' (fun r => do mapM' parseR (← r.getArr?).toList) (← arrF j "rows")
    return ok (Json.arr ((nsga3Shift (← listF parseDir j "dirs") rows).map ratsJson).toArray)
  | s => throw s!"unknown site {s}"

def handle (j : Json) : Json :=
  match run j with
  | .ok r => r
  | .error e => Json.mkObj [("k", "bad-op"), ("why", e)]

/-- entry point: `driver direction` -/
def main : IO Unit := Driver.lineMap handle

end Driver.Sub.Direction
