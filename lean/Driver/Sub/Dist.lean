import Driver.Util
import OptunaVerif.Model.Dist
/-! Sub-driver `dist`: the distribution / transform model behind the line protocol (C11, C10). -/
open Lean
namespace Driver.Sub.Dist
open OptunaVerif OptunaVerif.Dist Driver

def ratJ (q : Rat) : Json := Json.str (showRat q)
def intJ (i : Int) : Json := Json.str (toString i)

def parseIntS (j : Json) : P Int := do
  let s ← j.getStr?
  match s.toInt? with
  | some i => pure i
  | none => throw s!"bad int {s}"

def parseRatJ (j : Json) : P Rat := do parseRat (← j.getStr?)

def parseTok (j : Json) : P Tok :=
  match j with
  | Json.null => pure .none
  | Json.str "nan" => pure .nan
  | Json.str "inf" => pure .pinf
  | Json.str "-inf" => pure .ninf
  | _ =>
    match optF j "b", optF j "i", optF j "f", optF j "s" with
    | some b, _, _, _ => do return .bool (← b.getBool?)
    | _, some i, _, _ => do return .int (← parseIntS i)
    | _, _, some f, _ => do return .flt (← parseRatJ f)
    | _, _, _, some s => do return .str (← s.getStr?)
    | _, _, _, _ => throw "bad token"

def tokJ : Tok → Json
  | .none => Json.null
  | .nan => Json.str "nan" | .pinf => Json.str "inf" | .ninf => Json.str "-inf"
  | .bool b => Json.mkObj [("b", b)]
  | .int i => Json.mkObj [("i", intJ i)]
  | .flt q => Json.mkObj [("f", ratJ q)]
  | .str s => Json.mkObj [("s", s)]

def parseFCls (s : String) : P FCls :=
  match s with
  | "float" => pure .float | "uniform" => pure .uniform | "logUniform" => pure .logUniform
  | "discreteUniform" => pure .discreteUniform | _ => throw s!"bad float class {s}"

def parseICls (s : String) : P ICls :=
  match s with
  | "int" => pure .int | "intUniform" => pure .intUniform | "intLogUniform" => pure .intLogUniform
  | _ => throw s!"bad int class {s}"

def fclsS : FCls → String
  | .float => "float" | .uniform => "uniform" | .logUniform => "logUniform" | .discreteUniform => "discreteUniform"
def iclsS : ICls → String
  | .int => "int" | .intUniform => "intUniform" | .intLogUniform => "intLogUniform"

def parseOptRat (j : Json) (k : String) : P (Option Rat) :=
  match optF j k with
  | none => pure none
  | some v => do return some (← parseRatJ v)

def parseDist (j : Json) : P Dist := do
  match (← strF j "k") with
  | "flt" =>
    return .flt (← parseFCls (← strF j "c")) (← parseRatJ (← field j "low")) (← parseRatJ (← field j "high"))
      (← boolF j "log") (← parseOptRat j "step")
  | "int" =>
    return .int (← parseICls (← strF j "c")) (← parseIntS (← field j "low")) (← parseIntS (← field j "high"))
      (← boolF j "log") (← parseIntS (← field j "step"))
  | "cat" => return .cat (← mapM' parseTok (← arrF j "choices"))
  | k => throw s!"bad dist kind {k}"

def distJ : Dist → Json
  | .flt c low high log step => Json.mkObj [("k", "flt"), ("c", fclsS c), ("low", ratJ low), ("high", ratJ high),
      ("log", log), ("step", optJson ratJ step)]
  | .int c low high log step => Json.mkObj [("k", "int"), ("c", iclsS c), ("low", intJ low), ("high", intJ high),
      ("log", log), ("step", intJ step)]
  | .cat cs => Json.mkObj [("k", "cat"), ("choices", Json.arr (cs.map tokJ).toArray)]

def errS : Err → String
  | .valueError => "ValueError" | .typeError => "TypeError" | .keyError => "KeyError"

def resJ {α} (f : α → Json) : R α → Json
  | .ok a => Json.mkObj [("ok", f a)]
  | .error e => Json.mkObj [("err", errS e)]

def jv1J : JV1 → Json
  | .atom a => Json.mkObj [("atom", tokJ a)]
  | .arr l => Json.mkObj [("arr", Json.arr (l.map tokJ).toArray)]

def parseJV1 (j : Json) : P JV1 :=
  match j.getObjVal? "arr" with
  | .ok a => do return .arr (← mapM' parseTok (← a.getArr?).toList)
  | .error _ => do return .atom (← parseTok (← field j "atom"))

def pairsJ {β} (f : β → Json) (l : List (String × β)) : Json :=
  Json.arr (l.map (fun p => Json.arr #[Json.str p.1, f p.2])).toArray

def jvJ : JV → Json
  | .v x => jv1J x
  | .obj o => Json.mkObj [("obj", pairsJ jv1J o)]

def parseJV (j : Json) : P JV :=
  match j.getObjVal? "obj" with
  | .ok o => do return .obj (← parsePairs parseJV1 o)
  | .error _ => do return .v (← parseJV1 j)

def parseTable (j : Json) (k : String) : P (List (Rat × Rat)) :=
  match optF j k with
  | none => pure []
  | some t => do
    mapM' (fun p => do
      match (← p.getArr?).toList with
      | [a, b] => return (← parseRatJ a, ← parseRatJ b)
      | _ => throw "table pair expected") (← t.getArr?).toList

def lookup (t : List (Rat × Rat)) (dflt : Rat → Rat) (x : Rat) : Rat :=
  match t.find? (fun p => p.1 == x) with
  | some p => p.2
  | none => dflt x

/-- The environment is given by finite tables (the harness evaluates `math.log`, `math.exp`,
`np.nextafter` at exactly the points where the model will ask); a miss is made visible. -/
def parseEnv (j : Json) : P Env := do
  let e := fieldD j "env" (Json.mkObj [])
  let lg ← parseTable e "lg"
  let ex ← parseTable e "ex"
  let bl ← parseTable e "below"
  return { lg := lookup lg (fun _ => -987654321), ex := lookup ex (fun _ => -987654321),
           below := lookup bl (fun h => h - 987654321) }

def parseCfg (j : Json) : P TCfg := do
  let c ← field j "cfg"
  return { tlog := ← boolF c "tlog", tstep := ← boolF c "tstep", t01 := ← boolF c "t01" }

def ratsJ (l : List Rat) : Json := Json.arr (l.map ratJ).toArray

def optTokJ : Option Tok → Json
  | some t => Json.mkObj [("ok", tokJ t)]
  | none => Json.mkObj [("err", "none")]

def run (j : Json) : P Json := do
  match (← strF j "op") with
  | "adjustInt" =>
    return intJ (Generated.DistInt.adjustIntUniformHigh (← parseIntS (← field j "low")) (← parseIntS (← field j "high"))
      (← parseIntS (← field j "step")))
  | "adjustDiscrete" =>
    return ratJ (adjustDiscreteHigh (← parseRatJ (← field j "low")) (← parseRatJ (← field j "high")) (← parseRatJ (← field j "step")))
  | "mkFlt" =>
    return resJ distJ (mkFlt (← parseFCls (← strF j "c")) (← parseRatJ (← field j "low")) (← parseRatJ (← field j "high"))
      (← boolF j "log") (← parseOptRat j "step"))
  | "mkInt" =>
    return resJ distJ (mkInt (← parseICls (← strF j "c")) (← parseIntS (← field j "low")) (← parseIntS (← field j "high"))
      (← boolF j "log") (← parseIntS (← field j "step")))
  | "mkCat" => return resJ distJ (mkCat (← mapM' parseTok (← arrF j "choices")))
  | "single" => return Json.bool (← parseDist (← field j "d")).single
  | "contains" => return Json.bool ((← parseDist (← field j "d")).contains (← parseRatJ (← field j "v")))
  | "containsInfo" =>
    -- for stepped floats also the exact distance |k - round k| so that the harness can recognise borderline cases
    let d ← parseDist (← field j "d")
    let v ← parseRatJ (← field j "v")
    let dist : Rat := match d with
      | .flt _ low _ _ (some s) => let k := (v - low) / s; Rat.abs (k - (roundHE k : Rat))
      | _ => 0
    return Json.mkObj [("c", Json.bool (d.contains v)), ("dist", ratJ dist)]
  | "toInternal" => return resJ ratJ ((← parseDist (← field j "d")).toInternal (← parseTok (← field j "v")))
  | "toExternal" => return optTokJ ((← parseDist (← field j "d")).toExternal (← parseRatJ (← field j "v")))
  | "compat" => return Json.bool (compat (← parseDist (← field j "o")) (← parseDist (← field j "n")))
  | "pyEq" => return Json.bool ((← parseDist (← field j "o")).pyEq (← parseDist (← field j "n")))
  | "convertOld" => return distJ (convertOld (← parseDist (← field j "d")))
  | "print" => return pairsJ jvJ (print (← parseDist (← field j "d")))
  | "parse" => return resJ distJ (parse (← parsePairs parseJV (← field j "doc")))
  | "roundHE" => return intJ (roundHE (← parseRatJ (← field j "v")))
  | "bounds" =>
    let b := bounds (← parseEnv j) (← parseCfg j) (← mapM' parseDist (← arrF j "space"))
    return Json.arr (b.map (fun p => Json.arr #[ratJ p.1, ratJ p.2])).toArray
  | "rawBounds" =>
    let E ← parseEnv j
    let c ← parseCfg j
    let b := (← mapM' parseDist (← arrF j "space")).flatMap (boundsOf E c)
    return Json.arr (b.map (fun p => Json.arr #[ratJ p.1, ratJ p.2])).toArray
  | "transform" =>
    return resJ ratsJ (transform (← parseEnv j) (← parseCfg j) (← mapM' parseDist (← arrF j "space"))
      (← mapM' parseTok (← arrF j "params")))
  | "untransform" =>
    match untransform (← parseEnv j) (← parseCfg j) (← mapM' parseDist (← arrF j "space")) (← mapM' parseRatJ (← arrF j "xs")) with
    | some l => return Json.mkObj [("ok", Json.arr (l.map tokJ).toArray)]
    | none => return Json.mkObj [("err", "none")]
  | op => throw s!"unknown op {op}"

def handle (j : Json) : Json :=
  match run j with
  | .ok r => Json.mkObj [("r", r)]
  | .error e => Json.mkObj [("k", "bad-op"), ("why", e)]

/-- entry point: `driver dist` -/
def main : IO Unit := Driver.lineMap handle

end Driver.Sub.Dist
