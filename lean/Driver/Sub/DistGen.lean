import Driver.Sub.Dist
import OptunaVerif.Generated.TransformGen
/-! Sub-driver `distgen`: the protocol of `dist` (C11, C10), with the interpreters of the IR GENERATED from
`optuna/_transform.py` (`Generated/TransformGen.lean`, `Model/TransformIR.lean`) run side by side with the hand
model on every `rawBounds` / `bounds` / `transform` / `untransform`.  Those answers carry `"gen"`: `null` when the
generated interpreter and the hand model give the same result, else both results; `rawBounds` also carries the
generated column bookkeeping (`"c2e"`, `"e2c"`) for the harness to compare with the real object's. -/
open Lean
namespace Driver.Sub.DistGen
open OptunaVerif OptunaVerif.Dist OptunaVerif.TransformIR Driver Driver.Sub.Dist
open OptunaVerif.Generated.TransformGen (prog)

def rowsJ (b : List (Rat × Rat)) : Json := Json.arr (b.map (fun p => Json.arr #[ratJ p.1, ratJ p.2])).toArray

def optRowsJ : Option (List (Rat × Rat)) → Json
  | some b => rowsJ b
  | none => Json.mkObj [("err", "none")]

def toksJ : Option (List Tok) → Json
  | some l => Json.mkObj [("ok", Json.arr (l.map tokJ).toArray)]
  | none => Json.mkObj [("err", "none")]

def natsJ (l : List Nat) : Json := Json.arr (l.map (fun (n : Nat) => (n : Json))).toArray

def diff (same : Bool) (g h : Json) : Json :=
  if same then Json.null else Json.mkObj [("generated", g), ("hand", h)]

def extra (j : Json) : P (List (String × Json)) := do
  match (← strF j "op") with
  | "rawBounds" =>
    let E ← parseEnv j
    let c ← parseCfg j
    let sp ← mapM' parseDist (← arrF j "space")
    let h := sp.flatMap (boundsOf E c)
    match runSS prog E c sp with
    | some (rows, c2e, e2c) =>
      return [("gen", diff (rows == h) (rowsJ rows) (rowsJ h)), ("c2e", Json.arr (c2e.map natsJ).toArray), ("e2c", natsJ e2c)]
    | none => return [("gen", diff false (Json.mkObj [("err", "none")]) (rowsJ h))]
  | "bounds" =>
    let E ← parseEnv j
    let c ← parseCfg j
    let sp ← mapM' parseDist (← arrF j "space")
    let g := boundsGen prog E c sp
    let h := bounds E c sp
    return [("gen", diff (g == some h) (optRowsJ g) (rowsJ h))]
  | "transform" =>
    let E ← parseEnv j
    let c ← parseCfg j
    let sp ← mapM' parseDist (← arrF j "space")
    let ps ← mapM' parseTok (← arrF j "params")
    let g := transformGen prog E c sp ps
    let h := transform E c sp ps
    let same := match g, h with
      | .ok a, .ok b => a == b
      | .error a, .error b => a == b
      | _, _ => false
    return [("gen", diff same (resJ ratsJ g) (resJ ratsJ h))]
  | "untransform" =>
    let E ← parseEnv j
    let c ← parseCfg j
    let sp ← mapM' parseDist (← arrF j "space")
    let xs ← mapM' parseRatJ (← arrF j "xs")
    let g := untransformGen prog E c sp xs
    let h := untransform E c sp xs
    return [("gen", diff (g == h) (toksJ g) (toksJ h))]
  | _ => return []

def handle (j : Json) : Json :=
  let out := Driver.Sub.Dist.handle j
  match extra j with
  | .ok kvs => kvs.foldl (fun o kv => o.setObjVal! kv.1 kv.2) out
  | .error _ => out

/-- entry point: `driver distgen` -/
def main : IO Unit := Driver.lineMap handle

end Driver.Sub.DistGen
