import Driver.Sub.DistGen
import OptunaVerif.Generated.DistMethods
/-! Sub-driver `distirgen`: the protocol of `distgen` (hence of `dist`), with the interpreter of the method bodies GENERATED
from `optuna/distributions.py` (`Generated/DistMethods.lean`, `Model/DistIR.lean`) run side by side with the hand model
(`Model/Dist.lean`) on `adjustInt`, `adjustDiscrete`, `mkFlt`, `mkInt`, `mkCat`, `single`, `contains`, `containsInfo`, `toInternal`,
`toExternal`, `compat`, `convertOld`, `print`, `parse`.  Those answers carry `"gen"`: `null` when both agree, else both results;
`"genWarns"`: the warnings the interpreter logged; `"genSkipped"`: why the comparison was not made (input outside what the
representation covers: ±inf, step = 0, a class / argument combination its own constructor cannot produce, …). -/
open Lean
namespace Driver.Sub.DistIRGen
open OptunaVerif OptunaVerif.Dist OptunaVerif.DistIR Driver Driver.Sub.Dist
open OptunaVerif.Generated.DistMethods (program)

def exnS : Exn → String
  | .err e => errS e | .indexError => "IndexError" | .assertion => "AssertionError" | .unrep => "unrepresentable"

def warnS : Warn → String
  | .highAdjusted => "highAdjusted" | .unsupportedChoice => "unsupportedChoice" | .converted => "converted" | .other => "other"

def outJ {α : Type} (f : α → Json) (o : Out α) : Json :=
  match o.res with
  | .ok a => Json.mkObj [("ok", f a)]
  | .error e => Json.mkObj [("err", exnS e)]

def rJ {α : Type} (f : α → Json) : R α → Json := resJ f

def isUnrep {α : Type} (o : Out α) : Bool := match o.res with | .error .unrep => true | _ => false

/-- interpreter answer vs hand answer of type `R α` -/
def cmpR {α : Type} [DecidableEq α] (f : α → Json) (g : Out α) (h : R α) (skipUnrep : Bool := false) : List (String × Json) :=
  let same : Bool := match g.res, h with
    | .ok a, .ok b => decide (a = b)
    | .error (.err a), .error b => decide (a = b)
    | _, _ => false
  let ws := Json.arr (g.warns.map (fun w => Json.str (warnS w))).toArray
  if skipUnrep && isUnrep g then [("gen", Json.null), ("genSkipped", "unrepresentable input"), ("genWarns", ws)]
  else [("gen", if same then Json.null else Json.mkObj [("generated", outJ f g), ("hand", rJ f h)]), ("genWarns", ws)]

def skipped (why : String) : List (String × Json) := [("gen", Json.null), ("genSkipped", why)]

def boolR (b : Bool) : R Bool := .ok b

def finiteTok : Tok → Bool | .pinf => false | .ninf => false | _ => true

def extra (j : Json) : P (List (String × Json)) := do
  match (← strF j "op") with
  | "adjustInt" =>
    let low ← parseIntS (← field j "low"); let high ← parseIntS (← field j "high"); let step ← parseIntS (← field j "step")
    if step = 0 then return skipped "step = 0"
    let g : Out Int := interpCall program .adjustIntHigh [.tok (.int low), .tok (.int high), .tok (.int step)]
      (fun v => match v with | .tok (.int i) => some i | _ => none)
    return cmpR intJ g (.ok (Generated.DistInt.adjustIntUniformHigh low high step))
  | "adjustDiscrete" =>
    let low ← parseRatJ (← field j "low"); let high ← parseRatJ (← field j "high"); let step ← parseRatJ (← field j "step")
    if step ≤ 0 || high < low then return skipped "step <= 0 or high < low (rejected by __init__ before the adjustment)"
    let g : Out Rat := interpCall program .adjustDiscreteHigh [fltV low, fltV high, fltV step] asRat
    return cmpR ratJ g (.ok (adjustDiscreteHigh low high step))
  | "mkFlt" =>
    let c ← parseFCls (← strF j "c"); let low ← parseRatJ (← field j "low"); let high ← parseRatJ (← field j "high")
    let log ← boolF j "log"; let step ← parseOptRat j "step"
    let args : Option (List (String × Val)) := match c, log, step with
      | .float, _, _ => some [("low", fltV low), ("high", fltV high), ("log", boolV log), ("step", optFltV step)]
      | .uniform, false, none => some [("low", fltV low), ("high", fltV high)]
      | .logUniform, true, none => some [("low", fltV low), ("high", fltV high)]
      | .discreteUniform, false, some q => some [("low", fltV low), ("high", fltV high), ("q", fltV q)]
      | _, _, _ => none
    match args with
    | none => return skipped "not a combination the class's own constructor takes"
    | some a => return cmpR distJ (interpMkFloat program c a) (mkFlt c low high log step)
  | "mkInt" =>
    let c ← parseICls (← strF j "c"); let low ← parseIntS (← field j "low"); let high ← parseIntS (← field j "high")
    let log ← boolF j "log"; let step ← parseIntS (← field j "step")
    let iv (i : Int) : Val := .tok (.int i)
    let args : Option (List (String × Val)) := match c, log with
      | .int, _ => some [("low", iv low), ("high", iv high), ("log", boolV log), ("step", iv step)]
      | .intUniform, false => some [("low", iv low), ("high", iv high), ("step", iv step)]
      | .intLogUniform, true => some [("low", iv low), ("high", iv high), ("step", iv step)]
      | _, _ => none
    match args with
    | none => return skipped "not a combination the class's own constructor takes"
    | some a => return cmpR distJ (interpMkInt program c a) (mkInt c low high log step)
  | "mkCat" =>
    let cs ← mapM' parseTok (← arrF j "choices")
    return cmpR distJ (interpMkCat program cs) (mkCat cs)
  | "single" =>
    let d ← parseDist (← field j "d")
    return cmpR (fun (b : Bool) => Json.bool b) (interpCall program .single [instV d] asBool) (boolR d.single) true
  | "contains" =>
    let d ← parseDist (← field j "d"); let v ← parseRatJ (← field j "v")
    return cmpR (fun (b : Bool) => Json.bool b) (interpCall program .contains [instV d, fltV v] asBool) (boolR (d.contains v)) true
  | "containsInfo" =>
    let d ← parseDist (← field j "d"); let v ← parseRatJ (← field j "v")
    return cmpR (fun (b : Bool) => Json.bool b) (interpCall program .contains [instV d, fltV v] asBool) (boolR (d.contains v)) true
  | "toInternal" =>
    let d ← parseDist (← field j "d"); let v ← parseTok (← field j "v")
    if !finiteTok v then return skipped "±inf: internal values are rationals"
    return cmpR ratJ (interpCall program .toInternal [instV d, .tok v] asRat) (d.toInternal v) true
  | "toExternal" =>
    let d ← parseDist (← field j "d"); let q ← parseRatJ (← field j "v")
    let g : Out Tok := interpCall program .toExternal [instV d, fltV q] asTok
    let h := d.toExternal q
    let same : Bool := match g.res, h with
      | .ok a, some b => decide (a = b)
      | .error .indexError, none => true
      | .error .unrep, none => true      -- a negative index: Python's wrap-around is not modelled by either
      | _, _ => false
    return [("gen", if same then Json.null else Json.mkObj [("generated", outJ tokJ g), ("hand", optTokJ h)])]
  | "compat" =>
    let o ← parseDist (← field j "o"); let n ← parseDist (← field j "n")
    let g : Out Unit := interpCall program .checkCompat [instV o, instV n] asUnit
    let same : Bool := match g.res, compat o n with
      | .ok _, true => true
      | .error (.err .valueError), false => true
      | _, _ => false
    return [("gen", if same then Json.null else Json.mkObj [("generated", outJ (fun _ => Json.str "ok") g), ("hand", Json.bool (compat o n))])]
  | "convertOld" =>
    let d ← parseDist (← field j "d")
    return cmpR distJ (interpCall program .convertOld [instV d, boolV true] ofInst) (.ok (convertOld d)) true
  | "print" =>
    let d ← parseDist (← field j "d")
    let g := interpPrint program d
    let h := print d
    let same : Bool := match g.res with | .ok a => decide (a = h) | _ => false
    return [("gen", if same then Json.null else Json.mkObj [("generated", outJ (pairsJ jvJ) g), ("hand", pairsJ jvJ h)])]
  | "parse" =>
    let doc ← parsePairs parseJV (← field j "doc")
    return cmpR distJ (interpParse program doc) (parse doc) true
  | _ => return []

def handle (j : Json) : Json :=
  let out := Driver.Sub.DistGen.handle j
  match extra j with
  | .ok kvs => kvs.foldl (fun o kv => o.setObjVal! kv.1 kv.2) out
  | .error _ => out

/-- entry point: `driver distirgen` -/
def main : IO Unit := Driver.lineMap handle

end Driver.Sub.DistIRGen
