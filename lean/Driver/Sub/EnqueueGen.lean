import Driver.Util
import Driver.Sub.Dist
import Driver.Sub.Storage
import Driver.Sub.Suggest
import OptunaVerif.Model.Queue
import OptunaVerif.Model.QueueIR
import OptunaVerif.Model.EnqueueIR
import OptunaVerif.Model.SuggestApi
import OptunaVerif.Generated.EnqueueMethods
import OptunaVerif.Generated.TellMethods
import OptunaVerif.Generated.SuggestMethods
/-! Sub-driver `enqueuegen` (C04, translator tie T-enqueue): `Study.enqueue_trial` / `_should_skip_enqueue` / `add_trial` /
the queue part of `ask` / `Trial.__init__` — the hand models of `Model/Queue.lean` side by side with the interpreters
(`Model/EnqueueIR.lean`) of the data regenerated from the source (`Generated/EnqueueMethods.lean`); the pop inside `ask` is
the hand loop of `Model/Queue.lean` next to the generated loop (`Generated/TellMethods.lean`, `Model/QueueIR.lean`), the
suggest after it the hand model `SuggestApi.suggestFull` next to the generated `Trial._suggest`.

Stateful: the state is a storage-contract state (one study, id 0) and the table payload -> parameter dict of the dicts
stored so far (attribute payloads are opaque texts in the contract; the harness sends the stored text with the dict).
Every answer is `{"r": <hand model>, "gen": null | {"generated": …, "hand": …}}`.

* `{"op":"reset","dirs":[1]}`
* `{"op":"skip","views":[{"sys":[[key,[[name,tok]…]]…],"params":[[name,tok]…]}…],"params":[[name,tok]…]}`
* `{"op":"enqueue","isDict":b,"params":[[name,tok]…],"payload":text,"ua":[[k,text]…],"skip":b,"views":[…],"valid":b}`
* `{"op":"addTrial","tmpl":<template as in `storage`>,"valid":b,["fixed":[[name,tok]…]]}`
* `{"op":"ask"}` — pop (one worker, run to its end), then the queue part of `ask`, then `Trial.__init__`
* `{"op":"suggest","tid":n,"name":…,"d":…,"indep":tok}` — `_suggest` of a trial whose `_fixed_params` are those `ask` read
* `{"op":"ext","call":<storage op>}` — any other storage call (tell, attribute writes, …)
* `{"op":"static"}` -/
open Lean
namespace Driver.Sub.EnqueueGen
open OptunaVerif OptunaVerif.Storage OptunaVerif.Queue OptunaVerif.EnqueueIR Driver Driver.Sub.Dist
open OptunaVerif.Generated

structure S where
  spec : Spec
  table : List (String × AList Dist.Tok)
  /-- `_fixed_params` of the trials handed out by `ask` -/
  fixedOf : List (Nat × AList Dist.Tok)

def S.dec (s : S) (payload : String) : Option (AList Dist.Tok) := s.table.lookup payload

def parseParams (j : Json) : P (AList Dist.Tok) := parsePairs parseTok j

def parseView (j : Json) : P TrialView := do
  return { sys := ← parsePairs parseParams (← field j "sys"), params := ← parseParams (← field j "params") }

def flag (j : Json) (k : String) (d : Bool) : Bool := (fieldD j k (Json.bool d)).getBool?.toOption.getD d

def recJ (s : Spec) (tid : Nat) : Json :=
  match s.trials[tid]? with
  | some t => Driver.Sub.Storage.trialJson tid t
  | none => Json.null

def resJ (s : Spec) : Option (Spec × Out) → Json
  | none => Json.mkObj [("kind", "TypeError")]
  | some (s', .unit) => Json.mkObj [("kind", "skipped"), ("same", decide (s' = s))]
  | some (s', .newId n) => Json.mkObj [("kind", "created"), ("tid", n), ("rec", recJ s' n), ("nTrials", s'.trials.length)]
  | some (s', .err e) => Json.mkObj [("kind", "err"), ("e", Driver.Sub.Storage.errName e), ("same", decide (s' = s))]
  | some (_, o) => Json.mkObj [("kind", "other"), ("out", Driver.Sub.Storage.outJson o)]

def side {α} [DecidableEq α] (hand gen : α) (show_ : α → Json) : List (String × Json) :=
  [("r", show_ hand), ("gen", if hand = gen then Json.null else Json.mkObj [("generated", show_ gen), ("hand", show_ hand)])]

/-- one worker popping from study `sid` until it holds a trial / found the queue empty / raised -/
def popOne (stepf : Queue.Sys → Queue.Act → Queue.Sys) (spec : Spec) (sid : Nat) : Spec × Option Nat × Option String :=
  let rec go (fuel : Nat) (sys : Queue.Sys) : Spec × Option Nat × Option String :=
    match sys.workers[0]? with
    | some (WState.got t) => (sys.spec, some t, none)
    | some WState.empty => (sys.spec, none, none)
    | some (WState.raised e) => (sys.spec, none, some (Driver.Sub.Storage.errName e))
    | some (WState.scanning _) =>
      match fuel with
      | 0 => (sys.spec, none, some "fuel")
      | f + 1 => go f (stepf sys (.tryNext 0))
    | _ => (sys.spec, none, some "worker state")
  go (spec.trials.length + 2) (stepf { spec := spec, workers := [.idle], claims := [] } (.beginPop 0 sid))

def evJ : AskEv → Json
  | .popped t => Json.mkObj [("ev", "popped"), ("tid", optJson (fun (n : Nat) => (n : Json)) t)]
  | .created t => Json.mkObj [("ev", "created"), ("tid", t)]
  | .constructed t => Json.mkObj [("ev", "constructed"), ("tid", t)]
  | .relativeSampled => Json.mkObj [("ev", "relativeSampled")]
  | .suggestedFixed => Json.mkObj [("ev", "suggestedFixed")]
  | .returned t => Json.mkObj [("ev", "returned"), ("tid", t)]

def handEvs (popped : Option Nat) (out : Out) : List AskEv :=
  match popped, out with
  | some t, _ => [.popped (some t), .constructed t, .suggestedFixed, .returned t]
  | none, .newId n => [.popped none, .created n, .constructed n, .suggestedFixed, .returned n]
  | none, _ => [.popped none]

def exnS : SuggestIR.Exn → String
  | .err e => Driver.Sub.Dist.errS e
  | .overflow => "OverflowError" | .indexError => "IndexError" | .assertion => "AssertionError"
  | .storage => "StorageError" | .unrep => "unrepresentable"

def soutJ (o : SuggestIR.SOut) : Json :=
  Json.mkObj [("stored", pairsJ (fun (p : Rat × Dist.Dist) => ratJ p.1) o.st.stored),
    ("warns", (o.warns.length : Json)), ("sampled", o.sampled),
    ("res", match o.res with
      | .ok (v, br) => Json.mkObj [("v", tokJ v), ("br", Driver.Sub.Suggest.branchS br)]
      | .error e => Json.mkObj [("err", exnS e)])]

def run (s : S) (j : Json) : P (S × Json) := do
  match (← strF j "op") with
  | "reset" =>
    let dirs ← mapM' (fun d => d.getNat?) (← arrF j "dirs")
    return ({ spec := (Storage.step Storage.init (.createStudy "s" dirs)).1, table := [], fixedOf := [] }, Json.mkObj [("r", "ok")])
  | "static" =>
    return (s, Json.mkObj [("r", Json.mkObj [("askFailsTrialOnException", EnqueueMethods.ask.failsTrialOnException),
      ("addTrialsViaAddTrial", EnqueueMethods.addMany.eachViaAddTrial),
      ("initFromStorageGetTrial", EnqueueMethods.init.fromStorageGetTrial), ("initDeepcopy", EnqueueMethods.init.deepcopy),
      ("key", EnqueueMethods.init.key), ("askBody", (reprStr EnqueueMethods.ask.body))])])
  | "skip" =>
    let views ← mapM' parseView (← arrF j "views")
    let params ← parseParams (← field j "params")
    return (s, Json.mkObj (side (shouldSkip views params) (EnqueueMethods.skip.eval views params) (fun (b : Bool) => (b : Json))))
  | "enqueue" =>
    let views ← mapM' parseView (← arrF j "views")
    let params ← parseParams (← field j "params")
    let payload ← strF j "payload"
    let ua ← parsePairs (fun v => v.getStr?) (← field j "ua")
    let enc : AList Dist.Tok → String := fun _ => payload
    let (isDict, sk, valid) := (flag j "isDict" true, flag j "skip" false, flag j "valid" true)
    let hand := Queue.enqueue enc s.spec 0 isDict params ua sk views valid false
    let gen := EnqueueMethods.enqueue.eval EnqueueMethods.skip EnqueueMethods.add enc s.spec 0 isDict params ua sk views valid false
    let s' : S := match hand with
      | some (sp, .newId _) => { s with spec := sp, table := (payload, params) :: s.table }
      | _ => s
    return (s', Json.mkObj (side hand gen (resJ s.spec) ++ [("shouldSkip", (shouldSkip views params : Json))]))
  | "addTrial" =>
    let tmpl ← Driver.Sub.Storage.parseTemplate (← field j "tmpl")
    let valid := flag j "valid" true
    let hand := addTrial s.spec 0 tmpl valid false
    let gen := EnqueueMethods.add.eval s.spec 0 tmpl valid false
    let table ← match optF j "fixed", tmpl.systemAttrs.get? fixedKey with
      | some f, some payload => do pure ((payload, ← parseParams f) :: s.table)
      | _, _ => pure s.table
    let s' : S := match hand.2 with
      | .newId _ => { s with spec := hand.1, table := table }
      | _ => s
    return (s', Json.mkObj (side (some hand) (some gen) (resJ s.spec)))
  | "ask" =>
    let (sp1, popped, perr) := popOne Queue.step s.spec 0
    let (sp1g, poppedG, perrG) := popOne (QueueIR.step TellMethods.popWaitingTrialId) s.spec 0
    let hand := askQueue sp1 0 popped
    let g := runAsk EnqueueMethods.ask.body 0 poppedG sp1g
    let handTid : Option Nat := match hand.2 with | .newId n => some n | _ => none
    let fx (sp : Spec) (tid : Option Nat) (f : TrialS → Option (AList Dist.Tok)) : Option (AList Dist.Tok) :=
      match tid with
      | some t => match sp.trials[t]? with
        | some tr => f tr
        | none => none
      | none => none
    let handFixed := fx hand.1 handTid (initFixed s.dec)
    let genFixed := fx g.spec g.tid (EnqueueMethods.init.eval s.dec)
    let show_ (x : Spec × Option Nat × Option String × List AskEv × Option (AList Dist.Tok)) : Json :=
      Json.mkObj [("tid", optJson (fun (n : Nat) => (n : Json)) x.2.1), ("popError", optJson Json.str x.2.2.1),
        ("rec", match x.2.1 with | some t => recJ x.1 t | none => Json.null),
        ("evs", Json.arr (x.2.2.2.1.map evJ).toArray), ("fixed", optJson (pairsJ tokJ) x.2.2.2.2),
        ("nTrials", x.1.trials.length)]
    let s' : S := { s with spec := hand.1, fixedOf := match handTid, handFixed with
      | some t, some f => (t, f) :: s.fixedOf
      | _, _ => s.fixedOf }
    let hv := (hand.1, handTid, perr, handEvs popped hand.2, handFixed)
    let gv := (g.spec, g.tid, perrG, g.evs, genFixed)
    let same : Bool := decide (hand.1 = g.spec) && decide (handTid = g.tid) && decide (perr = perrG) &&
      decide (handEvs popped hand.2 = g.evs) && decide (handFixed = genFixed)
    return (s', Json.mkObj [("r", show_ hv), ("gen", if same then Json.null else Json.mkObj [("generated", show_ gv), ("hand", show_ hv)])])
  | "suggest" =>
    let tid ← natF j "tid"
    let name ← strF j "name"
    let d ← parseDist (← field j "d")
    let indep ← parseTok (fieldD j "indep" Json.null)
    match s.fixedOf.lookup tid with
    | none => throw "suggest: this trial was not handed out by ask"
    | some fixed =>
      let E : SuggestIR.SEnv := { cx := { fixed := fixed, relSpace := [], relParams := [] }, single := Dist.Dist.single,
                                  indep := fun _ _ => indep, writeFails := false }
      let hand := SuggestApi.suggestFull E Suggest.St.empty name d
      let gen := SuggestIR.interpSuggest SuggestMethods.program E Suggest.St.empty name d
      let g : Json := match gen with
        | some o => if decide (o.st.stored = hand.st.stored) && decide (o.res = hand.res) && decide (o.warns = hand.warns) && o.sampled == hand.sampled
                    then Json.null else Json.mkObj [("generated", soutJ o), ("hand", soutJ hand)]
        | none => Json.mkObj [("generated", "unrepresentable"), ("hand", soutJ hand)]
      return (s, Json.mkObj [("r", soutJ hand), ("gen", g)])
  | "ext" =>
    let op ← Driver.Sub.Storage.parseOp (← field j "call")
    let r := Storage.step s.spec op
    return ({ s with spec := r.1 }, Json.mkObj [("r", Driver.Sub.Storage.outJson r.2), ("gen", Json.null)])
  | op => throw s!"unknown op {op}"

def handle (s : S) (j : Json) : S × Json :=
  match run s j with
  | .ok r => r
  | .error e => (s, Json.mkObj [("error", e)])

def main : IO Unit :=
  Driver.lineLoop handle { spec := (Storage.step Storage.init (.createStudy "s" [1])).1, table := [], fixedOf := [] }

end Driver.Sub.EnqueueGen
