import Driver.Util
import Driver.Sub.JournalFile
import Driver.Sub.FileLock
import OptunaVerif.Generated.JournalFileMethods
/-! Sub-driver `filegen` (C07 / C05 translator tie): runs the interpreters of `Model/FileIR.lean` on the data
generated from `optuna/storages/journal/_file.py` side by side with the hand models and answers with the field
`"gen"`: `null` when both agree, otherwise what differs (the concrete input is the request).
  {"cmd":"read", "bytes":[…], "size":n, "from":k, "cache":[[k,o],…], "valid":[…]}        reader (protocol of `journalfile`)
  {"cmd":"append", "file":[…], "record":[…]}                                                appender: file, effects, every prefix
  {"cmd":"lock", "kind":…, "grace":…, "n":…, "events":[…]}                                  lock classes (protocol of `filelock`) -/
open Lean
namespace Driver.Sub.FileGen
open OptunaVerif OptunaVerif.JournalFile OptunaVerif.FileIR OptunaVerif.FileLock Driver
open OptunaVerif.Generated.JournalFileMethods

def natsJ (l : List Nat) : Json := Json.arr (l.map (fun (n : Nat) => (n : Json))).toArray

def resJson : Res → Json
  | .ok lines c => Json.mkObj [("raise", false), ("lines", natsJ lines), ("cache", Driver.Sub.JournalFile.cacheJson c)]
  | .raised c => Json.mkObj [("raise", true), ("cache", Driver.Sub.JournalFile.cacheJson c)]
  | .keyError c => Json.mkObj [("raise", true), ("keyError", true), ("cache", Driver.Sub.JournalFile.cacheJson c)]

def effJson : Eff → Json
  | .lock => "lock" | .unlock => "unlock"
  | .truncateTo n => Json.mkObj [("truncateTo", (n : Nat))]
  | .append d => Json.mkObj [("append", natsJ d)]
  | .writeAt p d => Json.mkObj [("writeAt", (p : Nat)), ("data", natsJ d)]
  | .sync c => Json.mkObj [("fsync", Json.bool c)]

def handleRead (j : Json) : Json :=
  match (do
      let bytes ← mapM' (fun b => b.getNat?) (← arrF j "bytes")
      let valid ← mapM' (fun b => b.getBool?) (← arrF j "valid")
      let cache ← mapM' (fun p => do
        match (← p.getArr?).toList with
        | [k, o] => return (← k.getNat?, ← o.getNat?)
        | _ => throw "pair expected") (← arrF j "cache")
      return (bytes, valid, cache, ← natF j "size", ← natF j "from") : P _) with
  | .error e => Json.mkObj [("k", "bad-op"), ("why", e)]
  | .ok (bytes, valid, cache, size, from_) =>
    let lf := Driver.Sub.JournalFile.linesFrom bytes valid
    let hand := readLogs size cache from_ lf
    let gen := interpRead readLogsProg size cache from_ lf
    let out := resJson hand
    out.setObjVal! "gen" (if hand == gen then Json.null else Json.mkObj [("generated", resJson gen), ("hand", resJson hand)])

def handleAppend (j : Json) : Json :=
  match (do
      let f ← mapM' (fun b => b.getNat?) (← arrF j "file")
      let r ← mapM' (fun b => b.getNat?) (← arrF j "record")
      return (f, r) : P _) with
  | .error e => Json.mkObj [("k", "bad-op"), ("why", e)]
  | .ok (f, r) =>
    let s := aRun r appendLogsSteps (aInit f)
    let handFile := JournalAppend.repair f ++ (r ++ [nl])
    let handEffs := modelEffects f r
    -- every prefix (death after step k): the hand model's file after the acts these steps stand for
    let w := 0
    let st0 : JournalAppend.St := { file := f, lock := none, ws := [{ stage := none, record := [], dead := false }], acked := [] }
    let badPrefix := (List.range (appendLogsSteps.length + 1)).find? (fun k =>
      let g := aRun r (appendLogsSteps.take k) (aInit f)
      let h := JournalAppend.run st0 (actsOfRun w r (appendLogsSteps.take k) (aInit f))
      !(g.file == h.file && g.locked == h.lock.isSome))
    let agree := s.file == handFile && s.effs.reverse == handEffs && s.ok && !s.locked && s.h.isNone && badPrefix.isNone
    let out := Json.mkObj [("file", natsJ handFile), ("effects", Json.arr (handEffs.map effJson).toArray)]
    out.setObjVal! "gen" (if agree then Json.null else
      Json.mkObj [("generated_file", natsJ s.file), ("generated_effects", Json.arr (s.effs.reverse.map effJson).toArray),
        ("generated_ok", s.ok), ("generated_lock_released", !s.locked),
        ("first_prefix_that_differs", optJson (fun (k : Nat) => (k : Json)) badPrefix),
        ("steps", Json.arr (appendLogsSteps.map (fun a => Json.str (reprStr a))).toArray)])

def labelStr (cfg : Cfg) (l : Label) : Json := Json.mkObj (Driver.Sub.FileLock.labelJson cfg l)

def handleLock (j : Json) : Json :=
  match (do
      let kind ← match ← strF j "kind" with
        | "symlink" => pure Kind.symlink
        | "open" => pure Kind.openExcl
        | o => throw s!"unknown kind {o}"
      let grace ← match optF j "grace" with
        | none => pure none
        | some v => do pure (some (← v.getNat?))
      let evs ← mapM' Driver.Sub.FileLock.parseEv (← arrF j "events")
      return ({ kind := kind, grace := grace }, ← natF j "n", evs) : P (Cfg × Nat × List Ev)) with
  | .error e => Json.mkObj [("k", "bad-op"), ("why", e)]
  | .ok (cfg, n, evs) =>
    let p := lockOf cfg.kind
    let gt := gtrace p cfg (gInit p cfg n) evs
    let ht := htrace cfg (init n) evs
    let gfin := (grun p cfg (gInit p cfg n) evs).toSt
    let hfin := run cfg (init n) evs
    let firstBad := (List.range evs.length).find? (fun i => gt[i]? != ht[i]?)
    let agree := firstBad.isNone && gfin == hfin
    (Json.mkObj [("events", (evs.length : Nat))]).setObjVal! "gen" (if agree then Json.null else
      Json.mkObj [("first_event_that_differs", optJson (fun (k : Nat) => (k : Json)) firstBad),
        ("generated", optJson (labelStr cfg) (firstBad.bind (fun i => gt[i]?))),
        ("hand", optJson (labelStr cfg) (firstBad.bind (fun i => ht[i]?))),
        ("final_states_equal", gfin == hfin)])
where
  htrace (cfg : Cfg) (st : St) : List Ev → List Label
    | [] => []
    | e :: es => (step cfg st e).2 :: htrace cfg (step cfg st e).1 es

def handle (j : Json) : Json :=
  match strF j "cmd" with
  | .ok "read" => handleRead j
  | .ok "append" => handleAppend j
  | .ok "lock" => handleLock j
  | .ok c => Json.mkObj [("k", "bad-op"), ("why", s!"unknown cmd {c}")]
  | .error e => Json.mkObj [("k", "bad-op"), ("why", e)]

def main : IO Unit := Driver.lineMap handle

end Driver.Sub.FileGen
