import Driver.Util
import OptunaVerif.Model.FileLock
/-! Sub-driver `filelock`: replays a schedule on the small-step lock model (C07 / C05).
Request : {"kind":"symlink"|"open", "grace":g|null, "n":workers, "events":[["s",w] | ["t"] | ["c",w], …]}
Response: {"steps":[{"call":…, "res":…, "val":…, "lock":[owner,stamp]|null, "tmps":[[by,owner],…],
                     "holders":[…], "now":t, "liveTakeover":bool}, …],
           "safe":bool, "failed":[per worker number of RuntimeErrors of release()], "pcs":[…]} -/
open Lean
namespace Driver.Sub.FileLock
open OptunaVerif OptunaVerif.FileLock Driver

def parseEv (j : Json) : P Ev := do
  match (← j.getArr?).toList with
  | [k, w] =>
    match ← k.getStr? with
    | "s" => return .step (← w.getNat?)
    | "c" => return .crash (← w.getNat?)
    | o => throw s!"unknown event {o}"
  | [k] =>
    match ← k.getStr? with
    | "t" => return .tick
    | o => throw s!"unknown event {o}"
  | _ => throw "event expected"

def natJ (n : Nat) : Json := (n : Json)

def labelJson (cfg : Cfg) : Label → List (String × Json)
  | .noop => [("call", "noop"), ("res", "")]
  | .ticked => [("call", "tick"), ("res", "")]
  | .crashed => [("call", "crash"), ("res", "")]
  | .monotonic t => [("call", "monotonic"), ("res", "ok"), ("val", natJ t)]
  | .createOk => [("call", match cfg.kind with | .symlink => "symlink" | .openExcl => "open"), ("res", "ok")]
  | .createExists => [("call", match cfg.kind with | .symlink => "symlink" | .openExcl => "open"), ("res", "EEXIST")]
  | .closed => [("call", "close"), ("res", "ok")]
  | .statOk m => [("call", match cfg.kind with | .symlink => "lstat" | .openExcl => "stat"), ("res", "ok"), ("val", natJ m)]
  | .statGone => [("call", match cfg.kind with | .symlink => "lstat" | .openExcl => "stat"), ("res", "ENOENT")]
  | .renameOk o => [("call", "rename"), ("res", "ok"), ("val", natJ o)]
  | .renameGone => [("call", "rename"), ("res", "ENOENT")]
  | .unlinkOk => [("call", "unlink"), ("res", "ok")]
  | .unlinkGone => [("call", "unlink"), ("res", "ENOENT")]
  | .slept => [("call", "sleep"), ("res", "ok")]
  | .touched => [("call", "touch"), ("res", "ok")]

def pcName : PC → String
  | .idle => "idle" | .create => "create" | .closing => "closing" | .stat => "stat"
  | .resetTimer => "resetTimer" | .check => "check" | .tkRename => "tkRename" | .tkUnlink => "tkUnlink" | .tkRestart => "tkRestart"
  | .sleep => "sleep" | .crit => "crit" | .relRename => "relRename" | .relUnlink => "relUnlink"

def stateJson (st : St) : List (String × Json) :=
  [("lock", match st.sh.lock with
            | some (o, s) => Json.arr #[natJ o, natJ s]
            | none => Json.null),
   ("tmps", Json.arr (st.sh.tmps.map (fun t => Json.arr #[natJ t.by_, natJ t.owner])).toArray),
   ("holders", Json.arr ((liveHolders st).map natJ).toArray),
   ("now", natJ st.sh.now)]

def replay (cfg : Cfg) : St → List Ev → List Json → List Json × St
  | st, [], acc => (acc.reverse, st)
  | st, e :: es, acc =>
    let bad := liveTakeoverAt st e
    let r := step cfg st e
    replay cfg r.1 es (Json.mkObj (labelJson cfg r.2 ++ stateJson r.1 ++ [("liveTakeover", Json.bool bad)]) :: acc)

def evJson : Ev → Json
  | .step w => Json.arr #["s", natJ w]
  | .tick => Json.arr #["t"]
  | .crash w => Json.arr #["c", natJ w]

def scenarioJson (s : Scenario) : Json :=
  Json.mkObj [("kind", match s.cfg.kind with | .symlink => "symlink" | .openExcl => "open"),
    ("grace", optJson natJ s.cfg.grace), ("n", natJ s.n), ("events", Json.arr (s.evs.map evJson).toArray),
    ("holders", Json.arr ((liveHolders s.final).map natJ).toArray), ("safe", Json.bool s.safe)]

def scenarios : List (String × Scenario) :=
  [("f13Open", f13Open), ("f13Symlink", f13Symlink), ("f13SymlinkSequential", f13SymlinkSequential),
   ("symlinkAfterTakeover", symlinkAfterTakeover), ("symlinkHandover", symlinkHandover),
   ("stalledWaiter", stalledWaiter), ("stalledWaiterSymlink", stalledWaiterSymlink), ("soloTakeoverOpen", soloTakeoverOpen),
   ("soloTakeoverSymlink", soloTakeoverSymlink)]

def handle (j : Json) : Json :=
  if (strF j "cmd").toOption == some "scenarios" then
    Json.mkObj (scenarios.map (fun p => (p.1, scenarioJson p.2)))
  else
  match (do
      let kind ← match ← strF j "kind" with
        | "symlink" => pure Kind.symlink
        | "open" => pure Kind.openExcl
        | o => throw s!"unknown kind {o}"
      let grace ← match optF j "grace" with
        | none => pure none
        | some v => do pure (some (← v.getNat?))
      let evs ← mapM' parseEv (← arrF j "events")
      return ({ kind := kind, grace := grace }, ← natF j "n", evs) : P (Cfg × Nat × List Ev)) with
  | .error e => Json.mkObj [("k", "bad-op"), ("why", e)]
  | .ok (cfg, n, evs) =>
    let (steps, st) := replay cfg (init n) evs []
    Json.mkObj [("steps", Json.arr steps.toArray), ("safe", safeSched cfg (init n) evs),
      ("punctual", match cfg.grace with
                   | some g => Json.bool (punctualSched cfg g (init n) evs)
                   | none => Json.null),
      ("failed", Json.arr (st.ws.map (fun w => natJ w.failed)).toArray),
      ("pcs", Json.arr (st.ws.map (fun w => Json.str (pcName w.pc))).toArray),
      ("dead", Json.arr (st.ws.map (fun w => Json.bool w.dead)).toArray)]

def main : IO Unit := Driver.lineMap handle

end Driver.Sub.FileLock
