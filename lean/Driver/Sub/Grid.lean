import Driver.Util
import OptunaVerif.Model.Grid
/-! Sub-driver `grid`: the grid sampler model behind the line protocol (C14).

request  {"op":"run","n":n,"ks":[k..],"pre":[[gridId|null,"running"|"finished"|"waiting"]..],
          "choices":[g..],"raises":[trial..]}
response {"trials":[[gridId|null,state]..],"stop":b,"ncalls":n}
request  {"op":"unvisited","n":n,"trials":[[gridId|null,state]..]} -> {"ids":[g..]}
-/
open Lean
namespace Driver.Sub.Grid
open OptunaVerif OptunaVerif.Grid Driver

def parseTS (s : String) : P TS :=
  match s with
  | "running" => pure .running
  | "finished" => pure .finished
  | "waiting" => pure .waiting
  | _ => throw s!"unknown state {s}"

def tsName : TS → String
  | .running => "running" | .finished => "finished" | .waiting => "waiting"

def parseTrial (j : Json) : P GTrial := do
  match (← j.getArr?).toList with
  | [g, s] =>
    let gid ← if g.isNull then pure none else do pure (some (← g.getNat?))
    return ⟨gid, ← parseTS (← s.getStr?)⟩
  | _ => throw "trial pair expected"

def trialJson (t : GTrial) : Json :=
  Json.arr #[optJson (fun (n : Nat) => (n : Json)) t.gridId, Json.str (tsName t.state)]

def run (j : Json) : P Json := do
  let n ← natF j "n"
  let ks ← mapM' (fun k => k.getNat?) (← arrF j "ks")
  let pre ← mapM' parseTrial (← arrF j "pre")
  let choices ← mapM' (fun c => c.getNat?) (← arrF j "choices")
  let raises ← mapM' (fun c => c.getNat?) (← arrF j "raises")
  let cx : Ctx := { ω := fun c => choices.getD c 0, raises := fun i => raises.contains i }
  let st := session cx n ks { trials := pre }
  return Json.mkObj [("trials", Json.arr (st.trials.map trialJson).toArray),
    ("stop", st.stop), ("ncalls", st.calls)]

def handle (j : Json) : Json :=
  match j.getObjVal? "op" with
  | .ok (Json.str "run") =>
    match run j with
    | .ok r => r
    | .error e => Json.mkObj [("k", "bad-op"), ("why", e)]
  | .ok (Json.str "unvisited") =>
    match (do
      let n ← natF j "n"
      let ts ← mapM' parseTrial (← arrF j "trials")
      pure (unvisited n ts) : P (List Nat)) with
    | .ok l => Json.mkObj [("ids", Json.arr (l.map (fun (n : Nat) => (n : Json))).toArray)]
    | .error e => Json.mkObj [("k", "bad-op"), ("why", e)]
  | _ => Json.mkObj [("k", "bad-op"), ("why", "unknown op")]

/-- entry point: `driver grid` -/
def main : IO Unit := Driver.lineMap handle

end Driver.Sub.Grid
