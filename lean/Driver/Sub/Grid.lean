import Driver.Util
import OptunaVerif.Model.Grid
import OptunaVerif.Generated.GridMethods
/-! Sub-driver `grid`: the grid sampler model behind the line protocol (C14).

request  {"op":"run","n":n,"ks":[k..],"pre":[[gridId|null,"running"|"finished"|"waiting"]..],
          "choices":[g..],"raises":[trial..]}
          optional "space":S  (the sampler's search space)
response {"trials":[[gridId|null,state]..],"stop":b,"ncalls":n,"gen":null|{..}}
          "gen": the same run with `before_trial` / `after_trial` taken from the interpreter of the methods GENERATED
          from the source (`Generated/GridMethods.lean`) on the stored form of the study — `null` when it agrees
          with the hand model, else the first difference.
request  {"op":"unvisited","n":n,"trials":[[gridId|null,state]..]} -> {"ids":[g..]}
request  {"op":"gen_unvisited","space":S,"n":n,"trials":[{"gid":g|null,"space":S|null,"fixed":b,"state":s}..]}
          -> {"ids":[g..]} | {"error":"keyError"|..}     (generated `_get_unvisited_grid_ids` on real attributes)
request  {"op":"gen_veq","a":V,"b":V} -> {"eq":b,"hand":b}        (generated `_grid_value_equal`)
request  {"op":"gen_samespace","mine":S,"theirs":S} -> {"same":b,"hand":b}
   S = [[name,[V..]]..]   V = null | true | false | int | {"f":"n/d"} | {"inf":neg} | {"nan":objectId} | "str"
-/
open Lean
namespace Driver.Sub.Grid
open OptunaVerif OptunaVerif.Grid OptunaVerif.SamplerIR Driver
open OptunaVerif.Generated

def parseTS (s : String) : P TS :=
  match s with
  | "running" => pure .running
  | "finished" => pure .finished
  | "waiting" => pure .waiting
  | _ => throw s!"unknown state {s}"

def tsName : TS → String
  | .running => "running" | .finished => "finished" | .waiting => "waiting"

def parseTrial (j : Json) : P GTrial := do
  match (← j.getArr?).toList with
  | [g, s] =>
    let gid ← if g.isNull then pure none else do pure (some (← g.getNat?))
    return ⟨gid, ← parseTS (← s.getStr?)⟩
  | _ => throw "trial pair expected"

def trialJson (t : GTrial) : Json :=
  Json.arr #[optJson (fun (n : Nat) => (n : Json)) t.gridId, Json.str (tsName t.state)]

def parseGVal (j : Json) : P GVal :=
  match j with
  | .null => pure .none
  | .bool b => pure (.bool b)
  | .str s => pure (.str s)
  | .num _ => do return .int (← j.getInt?)
  | _ =>
    match optF j "f", optF j "inf", optF j "nan" with
    | some f, _, _ => do return .float (← parseRat (← f.getStr?))
    | _, some b, _ => do return .inf (← b.getBool?)
    | _, _, some n => do return .nan (← n.getNat?)
    | _, _, _ => throw "grid value expected"

def parseSpace (j : Json) : P Space := do
  mapM' (fun kv => do
    match (← kv.getArr?).toList with
    | [k, vs] => return (← k.getStr?, ← mapM' parseGVal (← vs.getArr?).toList)
    | _ => throw "space entry expected") (← j.getArr?).toList

def parseRTrial (j : Json) : P RTrial := do
  let g := fieldD j "gid" Json.null
  let gid ← if g.isNull then pure none else do pure (some (← g.getNat?))
  let sp := fieldD j "space" Json.null
  let space ← if sp.isNull then pure none else do pure (some (← parseSpace sp))
  return ⟨gid, space, ← boolF j "fixed", ← parseTS (← strF j "state")⟩

def errName : Err → String
  | .valueError => "valueError" | .assertion => "assertion" | .keyError => "keyError"
  | .typeError => "typeError" | .unrepresentable => "unrepresentable"

def natsJson (l : List Nat) : Json := Json.arr (l.map (fun (n : Nat) => (n : Json))).toArray

def genDiff (h g : St) : Json :=
  if h.trials != g.trials then
    Json.mkObj [("what", "trials"), ("hand", Json.arr (h.trials.map trialJson).toArray),
      ("generated", Json.arr (g.trials.map trialJson).toArray)]
  else if h.stop != g.stop then Json.mkObj [("what", "stop flag"), ("hand", h.stop), ("generated", g.stop)]
  else if h.calls != g.calls then Json.mkObj [("what", "RNG calls"), ("hand", h.calls), ("generated", g.calls)]
  else Json.null

def run (j : Json) : P Json := do
  let n ← natF j "n"
  let ks ← mapM' (fun k => k.getNat?) (← arrF j "ks")
  let pre ← mapM' parseTrial (← arrF j "pre")
  let choices ← mapM' (fun c => c.getNat?) (← arrF j "choices")
  let raises ← mapM' (fun c => c.getNat?) (← arrF j "raises")
  let cx : Ctx := { ω := fun c => choices.getD c 0, raises := fun i => raises.contains i }
  let st := session cx n ks { trials := pre }
  let mine ← match optF j "space" with
    | some sp => parseSpace sp
    | none => pure [("p", [GVal.nan 0, GVal.int 1])]
  -- the generated hooks may never set the stop flag: bound every budget by what the hand model needed
  let cap := st.trials.length + 3
  let stG := gsessionW (genGImpl GridMethods.gridProg mine) cx n (ks.map (fun k => min k cap)) { trials := pre }
  return Json.mkObj [("gen", genDiff st stG), ("trials", Json.arr (st.trials.map trialJson).toArray),
    ("stop", st.stop), ("ncalls", st.calls)]

def handle (j : Json) : Json :=
  match j.getObjVal? "op" with
  | .ok (Json.str "run") =>
    match run j with
    | .ok r => r
    | .error e => Json.mkObj [("k", "bad-op"), ("why", e)]
  | .ok (Json.str "unvisited") =>
    match (do
      let n ← natF j "n"
      let ts ← mapM' parseTrial (← arrF j "trials")
      pure (unvisited n ts) : P (List Nat)) with
    | .ok l => Json.mkObj [("ids", Json.arr (l.map (fun (n : Nat) => (n : Json))).toArray)]
    | .error e => Json.mkObj [("k", "bad-op"), ("why", e)]
  | .ok (Json.str "gen_unvisited") =>
    match (do
      let mine ← parseSpace (← field j "space")
      let n ← natF j "n"
      let ts ← mapM' parseRTrial (← arrF j "trials")
      pure (interpUnvisited GridMethods.gridProg mine n ts, unvisitedR mine n ts) : P (Except Err (List Nat) × Option (List Nat))) with
    | .ok (.ok l, h) => Json.mkObj [("ids", natsJson l), ("hand", optJson natsJson h)]
    | .ok (.error e, h) => Json.mkObj [("error", errName e), ("hand", optJson natsJson h)]
    | .error e => Json.mkObj [("k", "bad-op"), ("why", e)]
  | .ok (Json.str "gen_veq") =>
    match (do
      let a ← parseGVal (← field j "a")
      let b ← parseGVal (← field j "b")
      pure (interpValueEqual GridMethods.gridValueEqual a b, gridValueEqual a b) : P (Except Err Bool × Bool)) with
    | .ok (.ok r, h) => Json.mkObj [("eq", r), ("hand", h)]
    | .ok (.error e, h) => Json.mkObj [("error", errName e), ("hand", h)]
    | .error e => Json.mkObj [("k", "bad-op"), ("why", e)]
  | .ok (Json.str "gen_samespace") =>
    match (do
      let mine ← parseSpace (← field j "mine")
      let theirs ← parseSpace (← field j "theirs")
      pure (interpSameSpace GridMethods.gridValueEqual GridMethods.sameSearchSpace mine theirs,
            sameSearchSpace mine theirs) : P (Except Err Bool × Bool)) with
    | .ok (.ok r, h) => Json.mkObj [("same", r), ("hand", h)]
    | .ok (.error e, h) => Json.mkObj [("error", errName e), ("hand", h)]
    | .error e => Json.mkObj [("k", "bad-op"), ("why", e)]
  | _ => Json.mkObj [("k", "bad-op"), ("why", "unknown op")]

/-- entry point: `driver grid` -/
def main : IO Unit := Driver.lineMap handle

end Driver.Sub.Grid
