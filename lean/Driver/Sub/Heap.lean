import Driver.Util
import OptunaVerif.Model.Heap
import OptunaVerif.Generated.HeapMethods
/-! Sub-driver `heap` (C20): runs the *generated* primitive lists of the storages' methods on the
heap model, so that the harness can compare the alias structure the model predicts (which objects
are replaced, which are shared with the previous version, what a getter hands out) with what the
real storage objects show (`is`-identity of `FrozenTrial`s and of their dicts).

Requests
* `{"cmd":"reset"}`
* `{"cmd":"methods"}` — every generated method with `disciplined` / `returnsOnlyDeep` evaluated
* `{"cmd":"eval","method":M,"segs":[args..],"probe":[slots..]}` — run every path `M#i` on the
  current world without committing; answer per path: handles returned, probe of the slots, the
  objects reachable from both
* `{"cmd":"commit","method":M,"path":i,"segs":[..]}` — make path `i` the new world
A body is cut into segments after each `publish`/`unpublish`/`ret`/`retDeep`; segment `i` runs with
`segs[i]` (the last one is reused), which lets one call address several slots (`create_new_study`
fills three, `get_all_studies` reads two per study).
-/
open Lean
namespace Driver.Sub.Heap
open OptunaVerif.Heap OptunaVerif.Generated Driver

def primName : Prim → String
  | .load => "load" | .loadAll => "loadAll" | .collect => "collect" | .allocNew => "allocNew"
  | .allocCopy => "allocCopy" | .loadField f => s!"loadField {f}" | .copyField f => s!"copyField {f}"
  | .newField f => s!"newField {f}" | .mutField f => s!"mutField {f}" | .mutCur => "mutCur"
  | .setScalar f => s!"setScalar {f}" | .publish => "publish" | .unpublish => "unpublish"
  | .ret => "ret" | .retDeep => "retDeep"

def parseArgs (j : Json) : P Args := do
  let srcs ← match optF j "srcs" with
    | some a => mapM' (fun x => x.getNat?) (← a.getArr?).toList
    | none => pure []
  return { src := (← natF j "src"), dst := (← natF j "dst"), srcs := srcs,
           key := (fieldD j "key" (0 : Nat)).getNat?.toOption.getD 0,
           val := (fieldD j "val" (0 : Nat)).getNat?.toOption.getD 0 }

def isCut : Prim → Bool
  | .publish | .unpublish | .ret | .retDeep => true
  | _ => false

/-- cut a body after every slot-addressing / returning primitive -/
def segments : List Prim → List Prim → List (List Prim)
  | [], acc => if acc.isEmpty then [] else [acc.reverse]
  | p :: ps, acc => if isCut p then (p :: acc).reverse :: segments ps [] else segments ps (p :: acc)

def runSegs (fr : Frame) : List (List Prim) → List Args → Args → Frame
  | [], _, _ => fr
  | s :: ss, [], last => runSegs (run last fr s) ss [] last
  | s :: ss, a :: as, _ => runSegs (run a fr s) ss as a

def callSegs (body : List Prim) (segs : List Args) (w : World) : World × List Ret :=
  let dflt : Args := { src := 0, dst := 0, srcs := [], key := 0, val := 0 }
  let fr := runSegs (enter w) (segments body []) segs dflt
  (fr.world, fr.rets)

/-- visible cells of an object: first binding per key -/
def visible (o : Obj) : List (Nat × Cell) :=
  o.foldl (fun acc p => if acc.any (fun q => q.1 == p.1) then acc else acc ++ [p]) []

def cellJson : Cell → Json
  | .sc v => Json.mkObj [("s", v)]
  | .ref d => Json.num d

def objJson (o : Obj) : Json :=
  Json.arr ((visible o).map (fun p => Json.arr #[Json.num p.1, cellJson p.2])).toArray

/-- addresses reachable from `roots` (depth-bounded breadth first; storage graphs have depth ≤ 2) -/
def reach (h : Heap) : Nat → List Nat → List Nat → List Nat
  | 0, _, seen => seen
  | fuel + 1, frontier, seen =>
    let new := frontier.filter (fun a => !seen.contains a)
    let seen' := seen ++ new.eraseDups
    let next := new.flatMap (fun a => ((h[a]?).getD []).filterMap (fun p => match p.2 with | .ref d => some d | .sc _ => none))
    if next.isEmpty then seen' else reach h fuel next seen'

def retJson : Ret → Json
  | .addr a => Json.mkObj [("k", "addr"), ("a", a)]
  | .copy a => Json.mkObj [("k", "copy"), ("a", a)]
  | .view ss => Json.mkObj [("k", "view"), ("ss", Json.arr (ss.map (fun (n : Nat) => (n : Json))).toArray)]

def resultJson (w : World) (rets : List Ret) (probe : List Nat) : Json :=
  let slotAddrs := probe.filterMap (fun s => w.slots.lookup s)
  let retAddrs := rets.filterMap (fun r => match r with | .addr a => some a | .copy a => some a | .view _ => none)
  let rs := reach w.heap 6 (slotAddrs ++ retAddrs) []
  Json.mkObj [
    ("rets", Json.arr (rets.map retJson).toArray),
    ("slots", Json.arr (probe.map (fun (s : Nat) => Json.arr #[Json.num s, optJson (fun (a : Nat) => Json.num a) (w.slots.lookup s)])).toArray),
    ("objs", Json.arr (rs.map (fun (a : Nat) => Json.arr #[Json.num a, objJson ((w.heap[a]?).getD []),
        Json.bool (w.uo.contains a)])).toArray),
    ("heap", w.heap.length)]

def pathsOf (name : String) : List (Nat × Method) :=
  (HeapMethods.methods.filter (fun m => (m.name.splitOn "#").head! == name)).zipIdx.map (fun p => (p.2, p.1))

def methodJson (m : Method) : Json :=
  Json.mkObj [("name", m.name), ("disciplined", Json.bool (disciplined m.body)),
    ("deepOnly", Json.bool (returnsOnlyDeep m.body)),
    ("body", Json.arr (m.body.map (fun p => Json.str (primName p))).toArray)]

def handle (w : World) (j : Json) : World × Json :=
  match j.getObjVal? "cmd" with
  | .ok (Json.str "reset") => (World.init, Json.mkObj [("k", "ok")])
  | .ok (Json.str "methods") =>
    (w, Json.mkObj [("methods", Json.arr (HeapMethods.methods.map methodJson).toArray),
                    ("deepApi", Json.arr (HeapMethods.deepApi.map methodJson).toArray)])
  | .ok (Json.str cmd) =>
    let r : P (World × Json) := do
      let name ← strF j "method"
      let segs ← mapM' parseArgs (← arrF j "segs")
      let paths := pathsOf name
      if cmd == "eval" then
        let probe ← mapM' (fun x => x.getNat?) (← arrF j "probe")
        let outs := paths.map (fun p =>
          let r := callSegs p.2.body segs w
          Json.mkObj [("path", p.1), ("res", resultJson r.1 r.2 probe)])
        return (w, Json.mkObj [("k", "paths"), ("paths", Json.arr outs.toArray)])
      else if cmd == "commit" then
        let i ← natF j "path"
        match paths.find? (fun p => p.1 == i) with
        | some p => return ((callSegs p.2.body segs w).1, Json.mkObj [("k", "ok")])
        | none => throw s!"no path {i} of {name}"
      else throw s!"unknown cmd {cmd}"
    match r with
    | .ok x => x
    | .error e => (w, Json.mkObj [("k", "bad"), ("why", e)])
  | _ => (w, Json.mkObj [("k", "bad"), ("why", "cmd")])

/-- entry point: `driver heap` -/
def main : IO Unit := Driver.lineLoop handle World.init

end Driver.Sub.Heap
