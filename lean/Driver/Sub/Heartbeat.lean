import Driver.Util
import OptunaVerif.Model.Heartbeat
/-! Sub-driver `heartbeat`: the stale-trial sweep model behind the line protocol (C19). -/
open Lean
namespace Driver.Sub.Heartbeat
open OptunaVerif OptunaVerif.Heartbeat Driver

structure St where
  P : Params
  c : Cfg

def natsJson (l : List Nat) : Json := Json.arr (l.map (fun (n : Nat) => (n : Json))).toArray

def pairsJson (l : AList String) : Json :=
  Json.arr (l.map (fun p => Json.arr #[Json.str p.1, Json.str p.2])).toArray

def recJson (r : Rec) : Json :=
  Json.mkObj [("state", (r.state.code : Nat)), ("params", pairsJson r.params), ("user", pairsJson r.userAttrs),
    ("failedTrial", optJson (fun (n : Nat) => (n : Json)) r.failedTrial),
    ("retryHistory", optJson natsJson r.retryHistory), ("other", pairsJson r.otherSys)]

def trialJson (x : HTrial) : Json :=
  (recJson x.core).setObjVal! "hb" (optJson (fun (n : Nat) => (n : Json)) x.hb)

def phaseJson : Phase → Json
  | .idle => Json.mkObj [("p", "idle")]
  | .failing todo won => Json.mkObj [("p", "failing"), ("todo", natsJson todo), ("won", natsJson won)]
  | .calling todo => Json.mkObj [("p", "calling"), ("todo", natsJson todo)]
  | .enqueue t snap todo => Json.mkObj [("p", "enqueue"), ("t", (t : Nat)), ("snap", recJson snap), ("todo", natsJson todo)]
  | .dead => Json.mkObj [("p", "dead")]

def eventJson : Event → Json
  | .read w ids => Json.mkObj [("e", "read"), ("w", (w : Nat)), ("ids", natsJson ids)]
  | .won w t => Json.mkObj [("e", "won"), ("w", (w : Nat)), ("t", (t : Nat))]
  | .lost w t => Json.mkObj [("e", "lost"), ("w", (w : Nat)), ("t", (t : Nat))]
  | .callback w t b => Json.mkObj [("e", "callback"), ("w", (w : Nat)), ("t", (t : Nat)), ("retry", b)]
  | .enqueued w t n r => Json.mkObj [("e", "enqueued"), ("w", (w : Nat)), ("t", (t : Nat)), ("n", (n : Nat)), ("rec", recJson r)]

def outJson : EnvOut → Json
  | .unit => Json.mkObj [("o", "unit")]
  | .bool b => Json.mkObj [("o", "bool"), ("b", b)]
  | .updateFinished => Json.mkObj [("o", "err"), ("e", "UpdateFinished")]
  | .keyError => Json.mkObj [("o", "err"), ("e", "KeyError")]
  | .newNumber n => Json.mkObj [("o", "new"), ("n", (n : Nat))]

def parseNats (j : Json) (k : String) : P (List Nat) := do
  mapM' (fun d => d.getNat?) (← arrF j k)

def parseEnv (j : Json) : P EnvOp := do
  match ← strF j "op" with
  | "create" => return .create
  | "enqueue" => return .enqueue (← parsePairs (fun v => v.getStr?) (← field j "user")) (← parsePairs (fun v => v.getStr?) (← field j "other"))
  | "claim" => return .claim (← natF j "t")
  | "beat" => return .beat (← natF j "t")
  | "finish" => return .finish (← natF j "t") (← parseState (← field j "st"))
  | "setParam" => return .setParam (← natF j "t") (← strF j "k") (← strF j "v")
  | "setUserAttr" => return .setUserAttr (← natF j "t") (← strF j "k") (← strF j "v")
  | "setSysAttr" => return .setSysAttr (← natF j "t") (← strF j "k") (← strF j "v")
  | "tick" => return .tick (← natF j "d")
  | o => throw s!"unknown env op {o}"

def bad (s : St) (e : String) : St × Json := (s, Json.mkObj [("k", "bad-op"), ("why", e)])

def handle (s : St) (j : Json) : St × Json :=
  match strF j "cmd" with
  | .error e => bad s e
  | .ok "reset" =>
    match (do
      let mr ← match optF j "maxRetry" with
        | none => pure none
        | some v => do pure (some (← v.getNat?))
      return ({ grace := ← natF j "grace", hasCb := ← boolF j "hasCb", maxRetry := mr }, ← natF j "workers") : P (Params × Nat)) with
    | .error e => bad s e
    | .ok (P, n) => ({ P := P, c := init n }, Json.mkObj [("k", "reset")])
  | .ok "sweep" =>
    match (do return (← natF j "w", ← parseNats j "ord") : P (Nat × List Nat)) with
    | .error e => bad s e
    | .ok (w, ord) =>
      let c' := step s.P s.c (.sweep w ord)
      let ev := if c'.events.length > s.c.events.length then optJson eventJson c'.events.head? else Json.null
      ({ s with c := c' }, Json.mkObj [("k", "sweep"), ("event", ev),
        ("phase", optJson phaseJson c'.workers[w]?)])
  | .ok "die" =>
    match natF j "w" with
    | .error e => bad s e
    | .ok w => ({ s with c := step s.P s.c (.die w) }, Json.mkObj [("k", "die")])
  | .ok "env" =>
    match (do parseEnv (← field j "op") : P EnvOp) with
    | .error e => bad s e
    | .ok op =>
      ({ s with c := step s.P s.c (.env op) }, Json.mkObj [("k", "env"), ("out", outJson (envStep s.c.trials op).2)])
  | .ok "stale" => (s, Json.mkObj [("k", "stale"), ("ids", natsJson (staleIds s.P.grace s.c.trials))])
  | .ok "dump" =>
    (s, Json.mkObj [("k", "dump"), ("trials", Json.arr (s.c.trials.map trialJson).toArray),
      ("workers", Json.arr (s.c.workers.map phaseJson).toArray),
      ("events", Json.arr (s.c.events.reverse.map eventJson).toArray)])
  | .ok c => bad s s!"unknown cmd {c}"

def main : IO Unit :=
  Driver.lineLoop handle { P := { grace := 0, hasCb := false, maxRetry := none }, c := init 0 }

end Driver.Sub.Heartbeat
