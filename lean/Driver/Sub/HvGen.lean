import Driver.Sub.Hypervolume
import OptunaVerif.Generated.HvMethods
import OptunaVerif.Generated.HsspMethods
import OptunaVerif.Generated.RankMethods
/-! Sub-driver `hvgen`: the protocol of `hypervolume` (C15), with the interpreters of the IR GENERATED from `optuna/_hypervolume/wfg.py`
(`Generated/HvMethods.lean`, `Model/HvIR.lean`) run side by side with the hand model.  Answers of `hv` and `hvfin` carry `"gen"`:
`null` when the generated `compute_hypervolume` (hence `_compute_2d` / `_compute_hv` / `_compute_exclusive_hv`) agrees with the hand model
on this input, else both answers.  `rank` / `calcrank`: the interpreters of the generated `_fast_non_domination_rank` (calling the generated
`_calculate_nondomination_rank`, `_is_pareto_front(·, True)` = the hand model's `frontSorted`, loop bound `n_unique`) / of the generated
`_calculate_nondomination_rank` against `Rank.fastRank` / `Rank.calcRank`.  (`front` is passed through.) -/
open Lean
namespace Driver.Sub.HvGen
open OptunaVerif OptunaVerif.Hypervolume OptunaVerif.HvIR Driver Driver.Sub.Hypervolume
open OptunaVerif.Generated.HvMethods (prog)
open OptunaVerif.HsspIR OptunaVerif.Hssp

def frontH : Nat → List Pt → List Pt := fun d l => frontSorted id d l

def calcCallee : Nat → List Pt → RankIR.RV → RankIR.RV :=
  fun d m nb => RankIR.calcGen Generated.RankMethods.prog frontH (uniqueLex m).length d m nb

def rvJson : RankIR.RV → Json
  | .ints l => Json.arr (l.map (fun (x : Int) => (x : Json))).toArray
  | .valueError => Json.str "ValueError"
  | .assertionError => Json.str "AssertionError"
  | _ => Json.str "err"

def coutJson : COut → Json
  | .out o => Json.mkObj (hvOutJson o)
  | .nonFiniteAsIs => Json.mkObj [("k", "nan-or-inf")]
  | .stuck => Json.mkObj [("k", "stuck")]

def liftRow (p : Pt) : List EInt := p.map EInt.fin

def diff (name : String) (g : COut) (h : HvOut) : Option Json :=
  if g == .out h then none
  else some (Json.mkObj [("method", name), ("generated", coutJson g), ("hand", Json.mkObj (hvOutJson h))])

def extra (j : Json) : P (Option Json) := do
  match (← strF j "op") with
  | "hv" =>
    let pts ← mapM' parseERow (← arrF j "pts")
    let r ← parseERow (← field j "ref")
    let ap ← boolF j "ap"
    return some (match diff "compute_hypervolume" (chvGen prog pts r ap) (computeHypervolume pts r ap) with
      | some d => Json.arr #[d] | none => Json.null)
  | "hvfin" =>
    let pts ← parseRows j "pts"
    let r ← parseRow (← field j "ref")
    let ok := pts.all (fun p => allLe p r)
    if !ok then return some Json.null else
    let ds := [false, true].filterMap (fun ap =>
      diff s!"compute_hypervolume(assume_pareto={ap})" (chvGen prog (pts.map liftRow) (liftRow r) ap)
        (computeHypervolume (pts.map liftRow) (liftRow r) ap))
    return some (if ds.isEmpty then Json.null else Json.arr ds.toArray)
  | "hssp" =>
    -- `_solve_hssp` + `_solve_hssp_on_unique_loss_vals` as generated (lazy update / 2-d solver = the hand model's) vs the hand model
    let pts ← parseRows j "pts"
    let r ← parseRow (← field j "ref")
    let k ← natF j "k"
    let fin ← boolF j "finite"
    let g := topGen Generated.HsspMethods.prog.top
      (fun U l k => uniqueGen Generated.HsspMethods.prog.greedy (fun cs vs s => lazyUpdate r cs vs s)
        (fun U labels k => hssp2dLoop k ((U.zip labels).map (fun e => { pt := e.1, label := e.2, dx := x0 r, dy := y1 r }))) U l k r fin)
      pts (List.range pts.length) k
    let h := Hssp.solveHssp pts k r fin
    return some (if g == SV.idx h then Json.null else
      Json.arr #[Json.mkObj [("method", "_solve_hssp"), ("generated", match g with | .idx l => jNats l | _ => Json.str "err"), ("hand", jNats h)]])
  | "rank" =>
    let pts ← parseRows j "pts"
    let d ← natF j "d"
    let nb ← match optF j "nb" with
      | none => pure none
      | some v => do pure (some (← v.getNat?))
    let pen ← match optF j "pen" with
      | none => pure none
      | some v => do
        let l ← mapM' (fun x => if x.isNull then pure none else do pure (some (← x.getInt?))) (← v.getArr?).toList
        pure (some l)
    let g := RankIR.fastGen Generated.RankMethods.prog calcCallee d pts
      (match pen with | none => .none_ | some p => .pen p) (match nb with | none => .none_ | some n => .int n)
    let h : RankIR.RV := match Rank.fastRank d pts pen nb with
      | some l => .ints (l.map Int.ofNat)
      | none => .valueError
    return some (if g == h then Json.null else
      Json.arr #[Json.mkObj [("method", "_fast_non_domination_rank"), ("generated", rvJson g), ("hand", rvJson h)]])
  | "calcrank" =>
    let pts ← parseRows j "pts"
    let d ← natF j "d"
    let nb ← match optF j "nb" with
      | none => pure none
      | some v => do pure (some (← v.getInt?))
    let g := RankIR.calcGen Generated.RankMethods.prog frontH (uniqueLex pts).length d pts (match nb with | none => .none_ | some n => .int n)
    let h : RankIR.RV := .ints ((Rank.calcRank d pts nb).map Int.ofNat)
    return some (if g == h then Json.null else
      Json.arr #[Json.mkObj [("method", "_calculate_nondomination_rank"), ("generated", rvJson g), ("hand", rvJson h)]])
  | _ => return none

def main : IO Unit :=
  Driver.lineMap (fun j =>
    match Driver.Sub.Hypervolume.handle j with
    | .ok r =>
      (match extra j with
       | .ok (some g) => r.setObjVal! "gen" g
       | _ => r)
    | .error e => Json.mkObj [("k", "bad-op"), ("why", e)])

end Driver.Sub.HvGen
