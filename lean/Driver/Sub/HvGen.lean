import Driver.Sub.Hypervolume
import OptunaVerif.Generated.HvMethods
import OptunaVerif.Generated.HsspMethods
/-! Sub-driver `hvgen`: the protocol of `hypervolume` (C15), with the interpreters of the IR GENERATED from `optuna/_hypervolume/wfg.py`
(`Generated/HvMethods.lean`, `Model/HvIR.lean`) run side by side with the hand model.  Answers of `hv` and `hvfin` carry `"gen"`:
`null` when the generated `compute_hypervolume` (hence `_compute_2d` / `_compute_hv` / `_compute_exclusive_hv`) agrees with the hand model
on this input, else both answers.  (`front`, `rank`, `hssp` are passed through: no interpreter for them.) -/
open Lean
namespace Driver.Sub.HvGen
open OptunaVerif OptunaVerif.Hypervolume OptunaVerif.HvIR Driver Driver.Sub.Hypervolume
open OptunaVerif.Generated.HvMethods (prog)
open OptunaVerif.HsspIR OptunaVerif.Hssp

def coutJson : COut → Json
  | .out o => Json.mkObj (hvOutJson o)
  | .nonFiniteAsIs => Json.mkObj [("k", "nan-or-inf")]
  | .stuck => Json.mkObj [("k", "stuck")]

def liftRow (p : Pt) : List EInt := p.map EInt.fin

def diff (name : String) (g : COut) (h : HvOut) : Option Json :=
  if g == .out h then none
  else some (Json.mkObj [("method", name), ("generated", coutJson g), ("hand", Json.mkObj (hvOutJson h))])

def extra (j : Json) : P (Option Json) := do
  match (← strF j "op") with
  | "hv" =>
    let pts ← mapM' parseERow (← arrF j "pts")
    let r ← parseERow (← field j "ref")
    let ap ← boolF j "ap"
    return some (match diff "compute_hypervolume" (chvGen prog pts r ap) (computeHypervolume pts r ap) with
      | some d => Json.arr #[d] | none => Json.null)
  | "hvfin" =>
    let pts ← parseRows j "pts"
    let r ← parseRow (← field j "ref")
    let ok := pts.all (fun p => allLe p r)
    if !ok then return some Json.null else
    let ds := [false, true].filterMap (fun ap =>
      diff s!"compute_hypervolume(assume_pareto={ap})" (chvGen prog (pts.map liftRow) (liftRow r) ap)
        (computeHypervolume (pts.map liftRow) (liftRow r) ap))
    return some (if ds.isEmpty then Json.null else Json.arr ds.toArray)
  | "hssp" =>
    -- `_solve_hssp` + `_solve_hssp_on_unique_loss_vals` as generated (lazy update / 2-d solver = the hand model's) vs the hand model
    let pts ← parseRows j "pts"
    let r ← parseRow (← field j "ref")
    let k ← natF j "k"
    let fin ← boolF j "finite"
    let g := topGen Generated.HsspMethods.prog.top
      (fun U l k => uniqueGen Generated.HsspMethods.prog.greedy (fun cs vs s => lazyUpdate r cs vs s)
        (fun U labels k => hssp2dLoop k ((U.zip labels).map (fun e => { pt := e.1, label := e.2, dx := x0 r, dy := y1 r }))) U l k r fin)
      pts (List.range pts.length) k
    let h := Hssp.solveHssp pts k r fin
    return some (if g == SV.idx h then Json.null else
      Json.arr #[Json.mkObj [("method", "_solve_hssp"), ("generated", match g with | .idx l => jNats l | _ => Json.str "err"), ("hand", jNats h)]])
  | _ => return none

def main : IO Unit :=
  Driver.lineMap (fun j =>
    match Driver.Sub.Hypervolume.handle j with
    | .ok r =>
      (match extra j with
       | .ok (some g) => r.setObjVal! "gen" g
       | _ => r)
    | .error e => Json.mkObj [("k", "bad-op"), ("why", e)])

end Driver.Sub.HvGen
