import Driver.Util
import OptunaVerif.Model.Hypervolume
import OptunaVerif.Model.Rank
import OptunaVerif.Model.Hssp
/-! Sub-driver `hypervolume` (C15): hypervolume, Pareto-front masks, non-domination rank and HSSP models
behind the line protocol.  Integers cross as JSON numbers (arbitrary precision), the special values as
the strings "inf", "-inf", "nan". -/
open Lean
namespace Driver.Sub.Hypervolume
open OptunaVerif OptunaVerif.Hypervolume Driver

def parseE (j : Json) : P EInt :=
  match j with
  | .str "inf" => pure .pinf
  | .str "-inf" => pure .ninf
  | .str "nan" => pure .nan
  | _ => do return .fin (← j.getInt?)

def parseERow (j : Json) : P (List EInt) := do mapM' parseE (← j.getArr?).toList
def parseRow (j : Json) : P Pt := do mapM' (fun x => x.getInt?) (← j.getArr?).toList
def parseRows (j : Json) (k : String) : P (List Pt) := do mapM' parseRow (← arrF j k)

def jInt (v : Int) : Json := Json.num (JsonNumber.fromInt v)
def jNat (v : Nat) : Json := Json.num (JsonNumber.fromNat v)
def jInts (l : List Int) : Json := Json.arr (l.map jInt).toArray
def jNats (l : List Nat) : Json := Json.arr (l.map jNat).toArray

def hvOutJson : HvOut → List (String × Json)
  | .error => [("k", "error")]
  | .inf => [("k", "inf")]
  | .fin v => [("k", "fin"), ("v", jInt v)]

/-- mask of `_is_pareto_front(rows, assume_unique_lexsorted=True)` -/
def frontMask (d : Nat) (rows : List Pt) : List Bool :=
  let idx := (List.range rows.length).zip rows
  let kept := (frontSorted (fun e : Nat × Pt => e.2) d idx).map (·.1)
  (List.range rows.length).map (fun i => kept.contains i)

def handle (j : Json) : P Json := do
  let op ← strF j "op"
  match op with
  | "hv" =>
    let pts ← mapM' parseERow (← arrF j "pts")
    let r ← parseERow (← field j "ref")
    let ap ← boolF j "ap"
    return Json.mkObj (hvOutJson (computeHypervolume pts r ap))
  | "hvfin" =>
    -- finite data: model result for both flags, optionally the brute-force cell count
    let pts ← parseRows j "pts"
    let r ← parseRow (← field j "ref")
    let brute := (fieldD j "brute" (Json.bool false)).getBool?.toOption.getD false
    let base := [("default", jInt (computeHypervolumeFin pts r false)),
                 ("ap", jInt (computeHypervolumeFin pts r true))]
    return Json.mkObj (if brute then base ++ [("brute", jNat (hvBrute pts r))] else base)
  | "front" =>
    let pts ← parseRows j "pts"
    let d ← natF j "d"
    return Json.mkObj [("mask", Json.arr ((frontMask d pts).map Json.bool).toArray),
                       ("unique", Json.arr ((uniqueLex pts).map jInts).toArray)]
  | "rank" =>
    let pts ← parseRows j "pts"
    let d ← natF j "d"
    let nb ← match optF j "nb" with
      | none => pure none
      | some v => do pure (some (← v.getNat?))
    let pen ← match optF j "pen" with
      | none => pure none
      | some v => do
        let l ← mapM' (fun x => if x.isNull then pure none else do pure (some (← x.getInt?))) (← v.getArr?).toList
        pure (some l)
    let res := Rank.fastRank d pts pen nb
    return Json.mkObj [("ranks", optJson jNats res), ("naive", jNats (Rank.naiveRanks pts))]
  | "calcrank" =>
    let pts ← parseRows j "pts"
    let d ← natF j "d"
    let nb ← match optF j "nb" with
      | none => pure none
      | some v => do pure (some (← v.getInt?))
    return Json.mkObj [("ranks", jNats (Rank.calcRank d pts nb))]
  | "hssp" =>
    let pts ← parseRows j "pts"
    let r ← parseRow (← field j "ref")
    let k ← natF j "k"
    let fin ← boolF j "finite"
    return Json.mkObj [("sel", jNats (Hssp.solveHssp pts k r fin))]
  | _ => throw s!"unknown op {op}"

def main : IO Unit :=
  Driver.lineMap (fun j =>
    match handle j with
    | .ok r => r
    | .error e => Json.mkObj [("k", "bad-op"), ("why", e)])

end Driver.Sub.Hypervolume
