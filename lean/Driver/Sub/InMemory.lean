import Driver.Util
import Driver.Sub.Storage
import OptunaVerif.Model.InMemory
/-! Sub-driver `inmemory`: the implementation-shaped model of `InMemoryStorage` behind the line
protocol (C01, `verif/props/c01_inmem.py`).  Requests are those of the `storage` sub-driver (ids are
the *real* ids of the in-memory storage); the answer carries the call's output and, unless
`"nodump":true`, the Python view of every private field. -/
open Lean
namespace Driver.Sub.InMemory
open OptunaVerif OptunaVerif.Storage OptunaVerif.InMemory Driver

def natArr (l : List Nat) : Json := Json.arr (l.map (fun (n : Nat) => (n : Json))).toArray

def studyInfoJson (sid : Nat) (si : StudyInfo) : Json :=
  Json.mkObj [
    ("id", sid), ("name", si.name), ("dirs", natArr si.directions),
    ("user", objOfAList Json.str si.userAttrs), ("system", objOfAList Json.str si.systemAttrs),
    ("trial_ids", natArr (si.trials.map (·.1))),
    ("trials", Json.arr (si.trials.map (fun p => Driver.Sub.Storage.trialJson p.1 p.2)).toArray),
    ("best", optJson (fun (n : Nat) => (n : Json)) si.bestTrialId),
    ("param_distribution", Json.arr (si.paramDist.map (fun p => Json.arr #[Json.str p.1, Json.str p.2.body])).toArray)]

def stateJson (m : State) : Json :=
  Json.mkObj [
    ("max_study_id", ((m.nextStudyId : Int) - 1 : Int)),
    ("max_trial_id", ((m.nextTrialId : Int) - 1 : Int)),
    ("tid_map", Json.arr (m.tidMap.map (fun p => natArr [p.1, p.2.1, p.2.2])).toArray),
    ("name_to_id", Json.arr (m.nameToId.map (fun p => Json.arr #[Json.str p.1, (p.2 : Json)])).toArray),
    ("prev_waiting", Json.arr (m.prevWaiting.map (fun p => natArr [p.1, p.2])).toArray),
    ("studies", Json.arr (m.studies.map (fun p => studyInfoJson p.1 p.2)).toArray)]

def handle (m : State) (j : Json) : State × Json :=
  match j.getObjVal? "op" with
  | .ok (Json.str "reset") => (InMemory.init, Json.mkObj [("k", "reset")])
  | _ =>
    match Driver.Sub.Storage.parseOp j with
    | .error e => (m, Json.mkObj [("k", "bad-op"), ("why", e)])
    | .ok op =>
      let (m', out) := step m op
      let base := [("out", Driver.Sub.Storage.outJson out)]
      let all := if (fieldD j "nodump" (Json.bool false)).getBool?.toOption.getD false
        then base else base ++ [("state", stateJson m')]
      (m', Json.mkObj all)

/-- entry point: `driver inmemory` -/
def main : IO Unit := Driver.lineLoop handle InMemory.init

end Driver.Sub.InMemory
