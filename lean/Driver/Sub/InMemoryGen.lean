import Driver.Sub.InMemory
import OptunaVerif.Generated.InMemoryMethods
/-! Sub-driver `inmemorygen`: the protocol of `inmemory` (C01, `verif/props/c01_inmem.py`), with the
interpreter of the methods GENERATED from `_in_memory.py` (`Generated/InMemoryMethods.lean`,
`Model/InMemoryIR.lean`) run side by side with the hand model on every call.  Every answer carries
`"gen"`: `null` when both agree on the output and on the whole state after the call, else both results. -/
open Lean
namespace Driver.Sub.InMemoryGen
open OptunaVerif OptunaVerif.Storage OptunaVerif.InMemory OptunaVerif.InMemoryIR Driver
open OptunaVerif.Generated.InMemoryMethods (program)

def resJson (x : State × Out) : Json :=
  Json.mkObj [("out", Driver.Sub.Storage.outJson x.2), ("state", Driver.Sub.InMemory.stateJson x.1)]

def handle (m : State) (j : Json) : State × Json :=
  let (m', out) := Driver.Sub.InMemory.handle m j
  match j.getObjVal? "op" with
  | .ok (Json.str "reset") => (m', out)
  | _ =>
    match Driver.Sub.Storage.parseOp j with
    | .error _ => (m', out)
    | .ok op =>
      let g := interpOp program m op
      let h := InMemory.step m op
      let d : Json := if g == h then Json.null else
        Json.mkObj [("method", methodOf op), ("generated", resJson g), ("hand", resJson h)]
      (m', out.setObjVal! "gen" d)

def main : IO Unit := Driver.lineLoop handle InMemory.init

end Driver.Sub.InMemoryGen
