import Driver.Sub.Storage
import OptunaVerif.Model.Journal
/-! Sub-driver `journal`: replicas of several workers replaying one log (C06; also used by C01/C05). -/
open Lean
namespace Driver.Sub.Journal
open OptunaVerif OptunaVerif.Storage OptunaVerif.Journal Driver Driver.Sub.Storage

structure St where
  log : List Rec
  reps : List (String × JState)

def St.rep (s : St) (w : String) : JState :=
  match s.reps.find? (fun p => p.1 == w) with
  | some p => p.2
  | none => JState.init

def St.setRep (s : St) (w : String) (j : JState) : St :=
  { s with reps := (w, j) :: s.reps.filter (fun p => p.1 != w) }

/-- A journal record as re-encoded by the harness from the dict read from the real log
(op codes of `JournalOperation`; floats as exact tokens; attribute payloads as canonical JSON text). -/
def parseRec (j : Json) : P Rec := do
  let w ← strF j "worker"
  match ← natF j "op" with
  | 0 => return .createStudy w (← strF j "name") (← mapM' (fun d => d.getNat?) (← arrF j "dirs"))
  | 1 => return .deleteStudy w (← natF j "sid")
  | 2 => return .setStudyUserAttr w (← natF j "sid") (← strF j "k") (← strF j "v")
  | 3 => return .setStudySystemAttr w (← natF j "sid") (← strF j "k") (← strF j "v")
  | 4 =>
    let t ← match optF j "tmpl" with
      | none => pure none
      | some t => do pure (some (← parseTemplate t))
    return .createTrial w (← natF j "sid") t
  | 5 => return .setTrialParam w (← natF j "tid") (← strF j "name") (← parseParam (← field j "param"))
  | 6 => return .setTrialStateValues w (← natF j "tid") (← parseState (← field j "state")) (← parseValues j "values")
  | 7 => return .setTrialInter w (← natF j "tid") (← intF j "step") (← parseXVal (← field j "v"))
  | 8 => return .setTrialUserAttr w (← natF j "tid") (← strF j "k") (← strF j "v")
  | 9 => return .setTrialSystemAttr w (← natF j "tid") (← strF j "k") (← strF j "v")
  | n => throw s!"unknown op code {n}"

def errJson : Option Err → Json
  | none => Json.null
  | some e => Json.str (errName e)

def repJson (j : JState) : Json :=
  Json.mkObj [("state", stateJson j.spec), ("cursor", j.cursor),
    ("lastCreated", optJson (fun (n : Nat) => (n : Json)) j.lastCreated),
    ("owned", objOfAList (fun (n : Nat) => (n : Json)) j.owned)]

/-- sync repeatedly (an error aborts one sync; the next resumes) until the cursor reaches `upto`. -/
def syncAll (w : String) (log : List Rec) (upto : Nat) : Nat → JState → Nat → JState × Nat
  | 0, st, errs => (st, errs)
  | fuel + 1, st, errs =>
    if st.cursor ≥ min upto log.length then (st, errs)
    else
      match sync w st log upto with
      | (st', some _) => syncAll w log upto fuel st' (errs + 1)
      | (st', none) => (st', errs)

def handle (s : St) (j : Json) : St × Json :=
  match strF j "cmd" with
  | .error e => (s, Json.mkObj [("k", "bad-op"), ("why", e)])
  | .ok "reset" => ({ log := [], reps := [] }, Json.mkObj [("k", "reset")])
  | .ok "append" =>
    match (do parseRec (← field j "rec") : P Rec) with
    | .error e => (s, Json.mkObj [("k", "bad-op"), ("why", e)])
    | .ok r => ({ s with log := s.log ++ [r] }, Json.mkObj [("k", "ok"), ("n", (s.log.length + 1 : Nat))])
  | .ok "sync" =>
    match strF j "worker" with
    | .error e => (s, Json.mkObj [("k", "bad-op"), ("why", e)])
    | .ok w =>
      let (st', err) := sync w (s.rep w) s.log s.log.length
      (s.setRep w st', Json.mkObj [("k", "sync"), ("err", errJson err), ("cursor", st'.cursor),
        ("lastCreated", optJson (fun (n : Nat) => (n : Json)) st'.lastCreated),
        ("ownedByMe", optJson (fun (n : Nat) => (n : Json)) (st'.owned.get? w))])
  | .ok "dump" =>
    match strF j "worker" with
    | .error e => (s, Json.mkObj [("k", "bad-op"), ("why", e)])
    | .ok w => (s, repJson (s.rep w))
  | .ok "replay" =>
    -- a fresh replica run by worker id `worker`, synced up to each cut point in turn
    match (do return (← strF j "worker", ← mapM' (fun c => c.getNat?) (← arrF j "cuts")) : P (String × List Nat)) with
    | .error e => (s, Json.mkObj [("k", "bad-op"), ("why", e)])
    | .ok (w, cuts) =>
      let (st, errs) := cuts.foldl (fun (acc : JState × Nat) c =>
        syncAll w s.log c (s.log.length + 1) acc.1 acc.2) (JState.init, 0)
      (s, Json.mkObj [("k", "replay"), ("rep", repJson st), ("errors", errs)])
  | .ok "snapshot" =>
    -- snapshot taken by `by` after `at` records, restored by a fresh worker `worker`, tail replayed
    match (do return (← strF j "worker", ← strF j "by", ← natF j "at") : P (String × String × Nat)) with
    | .error e => (s, Json.mkObj [("k", "bad-op"), ("why", e)])
    | .ok (w, by_, at_) =>
      let snap := applyAll by_ JState.init (s.log.take at_)
      let (st, errs) := syncAll w s.log s.log.length (s.log.length + 1) (restore snap) 0
      (s, Json.mkObj [("k", "snapshot"), ("rep", repJson st), ("errors", errs)])
  | .ok c => (s, Json.mkObj [("k", "bad-op"), ("why", s!"unknown cmd {c}")])

def main : IO Unit := Driver.lineLoop handle { log := [], reps := [] }

end Driver.Sub.Journal
