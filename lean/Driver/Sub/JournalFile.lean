import Driver.Util
import OptunaVerif.Model.JournalFile
/-! Sub-driver `journalfile`: the byte-level reader model (C07/C05).
Request: {"bytes":[…], "size":n, "from":k, "cache":[[k,o],…], "valid":[bool per line of the whole file]} -/
open Lean
namespace Driver.Sub.JournalFile
open OptunaVerif OptunaVerif.JournalFile Driver

/-- lines of `bytes` from byte offset `off`, with the validity flags of the *whole-file* line numbering
(the harness only supplies caches whose offsets are true line starts, so the numbering is found by
counting the newlines before `off`). -/
def linesFrom (bytes : List Nat) (valid : List Bool) (off : Nat) : List Line :=
  let before := (bytes.take off).filter (· == nl) |>.length
  let lens := splitLens (bytes.drop off) 0
  lens.zipIdx.map (fun p => { len := p.1.1, terminated := p.1.2, valid := p.1.2 && (valid[before + p.2]?).getD false })

def cacheJson (c : Cache) : Json :=
  let sorted := c.toArray.qsort (fun a b => a.1 < b.1)
  Json.arr (sorted.map (fun p => Json.arr #[(p.1 : Json), (p.2 : Json)]))

def handle (j : Json) : Json :=
  match (do
      let bytes ← mapM' (fun b => b.getNat?) (← arrF j "bytes")
      let valid ← mapM' (fun b => b.getBool?) (← arrF j "valid")
      let cache ← mapM' (fun p => do
        match (← p.getArr?).toList with
        | [k, o] => return (← k.getNat?, ← o.getNat?)
        | _ => throw "pair expected") (← arrF j "cache")
      return (bytes, valid, cache, ← natF j "size", ← natF j "from") : P _) with
  | .error e => Json.mkObj [("k", "bad-op"), ("why", e)]
  | .ok (bytes, valid, cache, size, from_) =>
    match readLogs size cache from_ (linesFrom bytes valid) with
    | .ok lines c => Json.mkObj [("raise", false), ("lines", Json.arr (lines.map (fun (n : Nat) => (n : Json))).toArray), ("cache", cacheJson c)]
    | .raised c => Json.mkObj [("raise", true), ("cache", cacheJson c)]
    | .keyError c => Json.mkObj [("raise", true), ("keyError", true), ("cache", cacheJson c)]

def main : IO Unit := Driver.lineMap handle

end Driver.Sub.JournalFile
