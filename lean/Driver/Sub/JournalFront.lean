import Driver.Sub.JournalGen
import OptunaVerif.Generated.JournalFront
/-! Sub-driver `journalfront`: the protocol of `journalgen` (C06) plus the command `front`: for a call
`op` (contract op with the REAL ids) just made by worker `worker` whose record read back from the log is
`rec` (`null` for a getter), compare the record the GENERATED front end (`Generated/JournalFront.lean`,
`Model/JournalFrontIR.lean`) builds with it, and evaluate the generated return expression on the replica
of that worker (after its sync). -/
open Lean
namespace Driver.Sub.JournalFront
open OptunaVerif OptunaVerif.Storage OptunaVerif.Journal OptunaVerif.JournalFrontIR Driver
open Driver.Sub.Journal

abbrev opCodes := OptunaVerif.Generated.JournalHandlers.program.opCodes
abbrev front := OptunaVerif.Generated.JournalFront.program

def handle (s : St) (j : Json) : St × Json :=
  match strF j "cmd" with
  | .ok "front" =>
    match (do return (← strF j "worker", ← Driver.Sub.Storage.parseOp (← field j "op")) : P (String × Op)) with
    | .error e => (s, Json.mkObj [("k", "bad-op"), ("why", e)])
    | .ok (w, op) =>
      let built := frontRecOf front opCodes w op
      let real : P (Option Rec) := match optF j "rec" with
        | none => pure none
        | some r => do pure (some (← parseRec r))
      match real with
      | .error e => (s, Json.mkObj [("k", "bad-op"), ("why", e)])
      | .ok real =>
        let m := ((writerOf op).bind front.method?).orElse (fun _ => (getterOf op).bind front.method?)
        let ans : Json := match m with
          | some m => Driver.Sub.Storage.outJson (m.answer w (s.rep w) op)
          | none => Json.null
        (s, Json.mkObj [("k", "front"), ("rec_ok", built == real), ("built_some", built.isSome),
          ("built_code", optJson (fun (r : Rec) => (JournalIR.recOpCode r : Json)) built), ("answer", ans)])
  | _ => Driver.Sub.JournalGen.handle s j

def main : IO Unit := Driver.lineLoop handle { log := [], reps := [] }

end Driver.Sub.JournalFront
