import Driver.Sub.Journal
import OptunaVerif.Generated.JournalHandlers
/-! Sub-driver `journalgen`: the protocol of `journal` (C06), with the interpreter of the handlers
GENERATED from the source (`Generated/JournalHandlers.lean`, `Model/JournalIR.lean`) run side by side
with the hand model on every `sync` / `replay` / `snapshot`.  Every answer of those commands carries
`"gen"`: `null` when both agree on the whole result (state, cursor, owned map, last created id, error),
else the first record (index in the log, op code, both answers) on which they differ. -/
open Lean
namespace Driver.Sub.JournalGen
open OptunaVerif OptunaVerif.Storage OptunaVerif.Journal OptunaVerif.JournalIR Driver Driver.Sub.Storage
open Driver.Sub.Journal
open OptunaVerif.Generated.JournalHandlers (program)

def resJson (x : JState × Option Err) : Json :=
  Json.mkObj [("rep", repJson x.1), ("err", errJson x.2)]

/-- first record of `rs` (replayed by `w` from `st` along the hand model's path, errors swallowed) on
which one loop iteration of the generated `apply_logs` and `Journal.apply` differ -/
def firstDiff (w : String) : JState → List Rec → Nat → Option Json
  | _, [], _ => none
  | st, r :: rest, i =>
    let st1 := { st with cursor := st.cursor + 1 }
    let h := Journal.apply w st1 r
    let g := interpLog program w st1 r
    if g == h then firstDiff w h.1 rest (i + 1)
    else some (Json.mkObj [("record", (i : Nat)), ("op", (recOpCode r : Nat)), ("issuer", r.worker), ("worker", w),
      ("generated", resJson g), ("hand", resJson h)])

/-- the same check for the cursor / abort behaviour of a whole `apply_logs` call -/
def syncDiff (w : String) (st : JState) (log : List Rec) (upto : Nat) : Option Json :=
  match firstDiff w st ((log.take upto).drop st.cursor) st.cursor with
  | some d => some d
  | none =>
    let g := syncLogs program w st log upto
    let h := sync w st log upto
    if g == h then none
    else some (Json.mkObj [("record", Json.null), ("what", "apply_logs (cursor / abort)"), ("worker", w),
      ("generated", resJson g), ("hand", resJson h)])

def withGen (out : Json) (d : Option Json) : Json := out.setObjVal! "gen" (d.getD Json.null)

def handle (s : St) (j : Json) : St × Json :=
  let (s', out) := Driver.Sub.Journal.handle s j
  match strF j "cmd" with
  | .ok "sync" =>
    match strF j "worker" with
    | .ok w => (s', withGen out (syncDiff w (s.rep w) s.log s.log.length))
    | .error _ => (s', out)
  | .ok "replay" =>
    -- every record, replayed from scratch under this worker's identity
    match strF j "worker" with
    | .ok w => (s', withGen out (firstDiff w JState.init s.log 0))
    | .error _ => (s', out)
  | .ok "snapshot" =>
    match (do return (← strF j "worker", ← strF j "by", ← natF j "at") : P (String × String × Nat)) with
    | .ok (w, by_, at_) =>
      let d := match firstDiff by_ JState.init (s.log.take at_) 0 with
        | some d => some d
        | none =>
          let snapG := interpAll program by_ JState.init (s.log.take at_)
          let snapH := applyAll by_ JState.init (s.log.take at_)
          if snapG == snapH then firstDiff w (restore snapH) (s.log.drop at_) at_
          else some (Json.mkObj [("record", Json.null), ("what", "snapshot"), ("worker", by_)])
      (s', withGen out d)
    | .error _ => (s', out)
  | _ => (s', out)

def main : IO Unit := Driver.lineLoop handle { log := [], reps := [] }

end Driver.Sub.JournalGen
