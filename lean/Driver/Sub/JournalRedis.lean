import Driver.Util
import OptunaVerif.Model.JournalRedis
/-! Sub-driver `journalredis`: replays a schedule on the small-step model of `JournalRedisBackend` (C06 / C03 / C01).
Request : {"cluster":bool, "n":workers,
           "events":[["call",w,{"op":"append","recs":[id,…]} | {"op":"read","k":k} | {"op":"save","s":tok} | {"op":"load"}]
                     | ["s",w] | ["c",w], …]}            (a record is its id, snapshot bytes are a token)
Response: {"steps":[{"call":…, …, "ret":null|[kind,…], "counter":c|null, "logs":[[n,id],…], "snap":tok|null}, …],
           "pcs":[…], "dead":[…], "stuck":[live readers polling a key that no live worker is about to SET],
           "official":[ids of the gap-free prefix of the log]}
          {"cmd":"scenarios"} -> the named schedules of Model/JournalRedis.lean -/
open Lean
namespace Driver.Sub.JournalRedis
open OptunaVerif OptunaVerif.JournalRedis Driver

def natJ (n : Nat) : Json := (n : Json)
def intJ (n : Int) : Json := (n : Json)

def parseOp (j : Json) : P (Op Nat) := do
  match ← strF j "op" with
  | "append" => return .append (← mapM' (fun x => x.getNat?) (← arrF j "recs"))
  | "read" => return .read (← natF j "k")
  | "save" => return .saveSnapshot (← natF j "s")
  | "load" => return .loadSnapshot
  | o => throw s!"unknown op {o}"

def parseEv (j : Json) : P (Ev Nat) := do
  match (← j.getArr?).toList with
  | [k, w, op] =>
    match ← k.getStr? with
    | "call" => return .call (← w.getNat?) (← parseOp op)
    | o => throw s!"unknown event {o}"
  | [k, w] =>
    match ← k.getStr? with
    | "s" => return .step (← w.getNat?)
    | "c" => return .crash (← w.getNat?)
    | o => throw s!"unknown event {o}"
  | _ => throw "event expected"

def pairsJ (l : List (Int × Nat)) : Json := Json.arr (l.map (fun p => Json.arr #[intJ p.1, natJ p.2])).toArray

def labelJson : Label Nat → List (String × Json)
  | .noop => [("call", "noop")]
  | .called => [("call", "call")]
  | .crashed => [("call", "crash")]
  | .setnx b => [("call", "setnx"), ("res", Json.bool b)]
  | .eval n r => [("call", "eval"), ("n", intJ n), ("rec", natJ r)]
  | .incr n => [("call", "incr"), ("res", intJ n)]
  | .set n r => [("call", "set"), ("n", intJ n), ("rec", natJ r)]
  | .getCounter v => [("call", "get_counter"), ("res", optJson intJ v)]
  | .getLog n v => [("call", "get_log"), ("n", intJ n), ("res", optJson natJ v)]
  | .setSnap s => [("call", "set_snapshot"), ("val", natJ s)]
  | .getSnap v => [("call", "get_snapshot"), ("res", optJson natJ v)]

def retJson : Option (Ret Nat) → Json
  | none => Json.null
  | some (.appended d) => Json.arr #["appended", pairsJ d]
  | some (.read l) => Json.arr #["read", Json.arr (l.map natJ).toArray]
  | some .snapSaved => Json.arr #["saved"]
  | some (.snapLoaded v) => Json.arr #["loaded", optJson natJ v]

/-- insertion into a sorted list of distinct keys -/
def insKey (n : Int) : List Int → List Int
  | [] => [n]
  | a :: t => if n < a then n :: a :: t else if n = a then a :: t else a :: insKey n t

def keysAfter (keys : List Int) : Label Nat → List Int
  | .eval n _ | .set n _ => insKey n keys
  | _ => keys

def dbJson (db : Redis Nat) (keys : List Int) : List (String × Json) :=
  [("counter", optJson intJ db.counter),
   ("logs", pairsJ (keys.filterMap (fun n => (db.log n).map (fun r => (n, r))))),
   ("snap", optJson natJ db.snap)]

def replay (cfg : Cfg) : St Nat → List Int → List (Ev Nat) → List Json → List Json × St Nat × List Int
  | st, keys, [], acc => (acc.reverse, st, keys)
  | st, keys, e :: es, acc =>
    let r := step cfg st e
    let keys' := keysAfter keys r.2.label
    replay cfg r.1 keys' es (Json.mkObj (labelJson r.2.label ++ [("ret", retJson r.2.ret)] ++ dbJson r.1.db keys') :: acc)

def pcJson : PC Nat → Json
  | .idle => Json.arr #["idle"]
  | .appSetnx recs => Json.arr #["appSetnx", Json.arr (recs.map natJ).toArray]
  | .appEval d r rest => Json.arr #["appEval", pairsJ d, natJ r, Json.arr (rest.map natJ).toArray]
  | .appIncr d r rest => Json.arr #["appIncr", pairsJ d, natJ r, Json.arr (rest.map natJ).toArray]
  | .appSet d n r rest => Json.arr #["appSet", pairsJ d, intJ n, natJ r, Json.arr (rest.map natJ).toArray]
  | .rdCounter k => Json.arr #["rdCounter", natJ k]
  | .rdGet k cur mx acc => Json.arr #["rdGet", natJ k, intJ cur, intJ mx, Json.arr (acc.map natJ).toArray]
  | .snapSet s => Json.arr #["snapSet", natJ s]
  | .snapGet => Json.arr #["snapGet"]

/-- a live worker is about to `SET log:n` -/
def liveSetter (st : St Nat) (n : Int) : Bool :=
  st.ws.any (fun wk => !wk.dead && (match wk.pc with | .appSet _ m _ _ => m == n | _ => false))

/-- live readers polling a key that is absent and that no live worker is about to SET -/
def stuck (st : St Nat) : List Nat :=
  (List.range st.ws.length).filter (fun w =>
    match st.ws[w]? with
    | some wk =>
      !wk.dead && (match wk.pc with
                   | .rdGet _ cur _ _ => (st.db.log cur).isNone && !liveSetter st cur
                   | _ => false)
    | none => false)

def evJson : Ev Nat → Json
  | .call w (.append recs) => Json.arr #["call", natJ w, Json.mkObj [("op", "append"), ("recs", Json.arr (recs.map natJ).toArray)]]
  | .call w (.read k) => Json.arr #["call", natJ w, Json.mkObj [("op", "read"), ("k", natJ k)]]
  | .call w (.saveSnapshot s) => Json.arr #["call", natJ w, Json.mkObj [("op", "save"), ("s", natJ s)]]
  | .call w .loadSnapshot => Json.arr #["call", natJ w, Json.mkObj [("op", "load")]]
  | .step w => Json.arr #["s", natJ w]
  | .crash w => Json.arr #["c", natJ w]

def scenarioJson (s : Scenario) : Json :=
  Json.mkObj [("cluster", Json.bool s.cfg.cluster), ("n", natJ s.n), ("events", Json.arr (s.evs.map evJson).toArray),
    ("stuck", Json.arr ((stuck s.final).map natJ).toArray),
    ("official", Json.arr ((officialLog s.final.db).map natJ).toArray),
    ("rets", Json.arr (s.obs.map (fun o => retJson o.ret)).toArray)]

def scenarios : List (String × Scenario) :=
  [("clusterCrashGap", clusterCrashGap 6), ("nonClusterCrash", nonClusterCrash), ("clusterSlowWriter", clusterSlowWriter)]

def handle (j : Json) : Json :=
  if (strF j "cmd").toOption == some "scenarios" then
    Json.mkObj (scenarios.map (fun p => (p.1, scenarioJson p.2)))
  else
  match (do
      let evs ← mapM' parseEv (← arrF j "events")
      return ({ cluster := ← boolF j "cluster" }, ← natF j "n", evs) : P (Cfg × Nat × List (Ev Nat))) with
  | .error e => Json.mkObj [("k", "bad-op"), ("why", e)]
  | .ok (cfg, n, evs) =>
    let (steps, st, _) := replay cfg (init n) [] evs []
    Json.mkObj [("steps", Json.arr steps.toArray),
      ("pcs", Json.arr (st.ws.map (fun w => pcJson w.pc)).toArray),
      ("dead", Json.arr (st.ws.map (fun w => Json.bool w.dead)).toArray),
      ("stuck", Json.arr ((stuck st).map natJ).toArray),
      ("official", Json.arr ((officialLog st.db).map natJ).toArray)]

def main : IO Unit := Driver.lineMap handle

end Driver.Sub.JournalRedis
