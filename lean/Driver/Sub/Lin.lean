import Driver.Sub.Storage
/-!
Sub-driver `lin`: Wing–Gong linearizability search with the storage contract model as the
sequential specification (C03, C04).  One JSON case per line:

  {"setup": [op…], "calls": [{"thread": n, "inv": n, "ret": n, "op": op, "obs": out}…], "final": state}

* `op` is a storage op as for sub-driver `storage`, except that `sid` / `tid` may be `{"ref": j}` =
  "the id returned by call j" (always an earlier call of the same thread).
* outputs and states are compared with ids erased (trial numbers stay): ids created during the
  concurrent phase are assigned in linearization order by the model.
Answer: `{"ok": true, "order": […]}` or `{"ok": false, "explored": n}`.
-/
open Lean
namespace Driver.Sub.Lin
open OptunaVerif OptunaVerif.Storage Driver Driver.Sub.Storage

structure CallJ where
  thread : Nat
  inv : Nat
  ret : Nat
  op : Json
  obs : Json
deriving Inhabited

partial def eraseIds : Json → Json
  | Json.arr a => Json.arr (a.map eraseIds)
  | Json.obj kvs =>
    let isEntity := (kvs.contains "number") || (kvs.contains "name")
    Json.mkObj ((kvs.toList.filter (fun p => !(isEntity && (p.1 == "id" || p.1 == "study")))).map
      (fun p => (p.1, eraseIds p.2)))
  | j => j

def resolveId (env : List (Nat × Nat)) (j : Json) : P Json :=
  match j.getObjVal? "ref" with
  | .ok r => do
    let k ← r.getNat?
    match env.lookup k with
    | some id => pure (id : Json)
    | none => throw s!"unresolved ref {k}"
  | .error _ => pure j

def resolve (env : List (Nat × Nat)) (op : Json) : P Json := do
  let mut o := op
  for key in ["sid", "tid"] do
    match op.getObjVal? key with
    | .ok v => o := o.setObjVal! key (← resolveId env v)
    | .error _ => pure ()
  return o

def studyNameKey (j : Json) : String :=
  ((j.getObjVal? "study").bind (fun s => s.getObjVal? "name")).bind (fun n => n.getStr?) |>.toOption |>.getD ""

def sortByName (j : Json) : Json :=
  match j with
  | Json.arr a => Json.arr (a.qsort (fun x y => studyNameKey x < studyNameKey y))
  | j => j

/-- model output in the id-erased observation shape -/
def obsOfOut (s' : Spec) (op : Op) (out : Out) : Json :=
  match op, out with
  | .createTrial .., .newId n =>
    match s'.trials[n]? with
    | some t => Json.mkObj [("k", "id"), ("number", t.number)]
    | none => Json.mkObj [("k", "id")]
  | _, .newId _ => Json.mkObj [("k", "id")]
  | .getStudyIdFromName .., .nat _ => Json.mkObj [("k", "nat")]
  | .getTrialIdFromNumber .., .nat _ => Json.mkObj [("k", "nat")]
  | _, o => eraseIds (outJson o)

def outMatches (s' : Spec) (op : Op) (out : Out) (obs : Json) : Bool :=
  match out with
  | .oneOf l =>
    l.any (fun p => eraseIds (Json.mkObj [("k", "trial"), ("t", trialJson p.1 p.2)]) == obs)
  | _ => obsOfOut s' op out == obs

def newIdOf : Out → Option Nat
  | .newId n => some n
  | _ => none

partial def search (calls : Array CallJ) (final : Json) (n : Nat) (done : List Nat) (s : Spec)
    (env : List (Nat × Nat)) (explored : IO.Ref Nat) : IO (Option (List Nat)) := do
  if done.length == n then
    if eraseIds (sortByName (stateJson s)) == final then return some done.reverse else return none
  let cnt ← explored.get
  if cnt > 200000 then return none
  for i in [0:n] do
    if !done.contains i then
      let c := calls[i]!
      -- real-time order: every call that returned before c was invoked must already be linearized
      let ok := (List.range n).all (fun j => j == i || done.contains j || !(calls[j]!.ret < c.inv))
      if ok then
        match (do parseOp (← resolve env c.op) : P Op) with
        | .error _ => pure ()
        | .ok op =>
          explored.modify (· + 1)
          let (s', out) := step s op
          if outMatches s' op out c.obs then
            let env' := match newIdOf out with
              | some id => (i, id) :: env
              | none => env
            match ← search calls final n (i :: done) s' env' explored with
            | some r => return some r
            | none => pure ()
  return none

def parseCall (j : Json) : P CallJ := do
  return { thread := ← natF j "thread", inv := ← natF j "inv", ret := ← natF j "ret",
           op := ← field j "op", obs := ← field j "obs" }

def runCase (j : Json) : IO Json := do
  match (do
      let setup ← mapM' parseOp (← arrF j "setup")
      let calls ← mapM' parseCall (← arrF j "calls")
      return (setup, calls, ← field j "final") : P (List Op × List CallJ × Json)) with
  | .error e => return Json.mkObj [("k", "bad-op"), ("why", e)]
  | .ok (setup, calls, final) =>
    let s0 := setup.foldl (fun s op => (step s op).1) Storage.init
    let explored ← IO.mkRef 0
    let r ← search calls.toArray (eraseIds (sortByName final)) calls.length [] s0 [] explored
    let cnt ← explored.get
    match r with
    | some order => return Json.mkObj [("ok", true), ("order", Json.arr (order.map (fun (n : Nat) => (n : Json))).toArray), ("explored", cnt)]
    | none => return Json.mkObj [("ok", false), ("explored", cnt)]

partial def loop (h out : IO.FS.Stream) : IO Unit := do
  let line ← h.getLine
  if line.isEmpty then return ()
  let resp ← match Json.parse line with
    | .ok j => runCase j
    | .error e => pure (Json.mkObj [("k", "bad-json"), ("why", e)])
  out.putStrLn resp.compress
  out.flush
  loop h out

def main : IO Unit := do loop (← IO.getStdin) (← IO.getStdout)

end Driver.Sub.Lin
