import Driver.Util
import Driver.Sub.Dist
import OptunaVerif.Model.Nsga2
/-! Sub-driver `nsga2`: NSGA-II elite selection / crowding distance / domination / child generation
(`Model/Nsga2.lean`) behind the line protocol.  One JSON object per line: `{"op": <name>, ...}`.

Numbers: exact values as `"n/d"`, `"inf"`, `"-inf"`, `"nan"`; the same objective values additionally as the bit
patterns of the IEEE doubles (decimal strings of the 64-bit word, key `"b"`), on which the SAME generic definitions
are run at the `Float` instance. -/
open Lean
namespace Driver.Sub.Nsga2
open OptunaVerif OptunaVerif.Nsga2 OptunaVerif.Dist Driver Driver.Sub.Dist

/-- IEEE doubles as Python's `float` -/
def fnum : Num Float :=
  { ninf := -((1.0 : Float) / 0.0), pinf := (1.0 : Float) / 0.0, zero := 0.0, one := 1.0,
    lt := fun a b => decide (a < b), le := fun a b => decide (a ≤ b), eq := fun a b => a == b,
    sub := fun a b => a - b, add := fun a b => a + b, div := fun a b => a / b, neg := fun a => -a }

def parseBits (j : Json) : P Float := do
  let s ← j.getStr?
  match s.toNat? with
  | some n => pure (Float.ofBits n.toUInt64)
  | none => throw s!"bad bits {s}"

def bitsJ (x : Float) : Json := Json.str (toString x.toBits.toNat)

def xvalJ (v : XVal) : Json := Json.str (showXVal v)

def natsJ (l : List Nat) : Json := Json.arr (l.map (fun (n : Nat) => (n : Json))).toArray

def parsePairsTok (j : Json) : P (List (String × Tok)) := parsePairs parseTok j

def parseIndX (j : Json) : P (Ind XVal) := do
  let vs ← mapM' parseXVal (← arrF j "v")
  let cons ← match optF j "c" with
    | none => pure none
    | some c => do pure (some (← mapM' parseXVal (← c.getArr?).toList))
  let params ← match optF j "p" with
    | none => pure []
    | some p => parsePairsTok p
  let complete := match optF j "complete" with
    | some (Json.bool b) => b
    | _ => true
  return { number := ← natF j "n", values := vs, cons := cons, complete := complete, params := params }

def parseIndF (j : Json) : P (Ind Float) := do
  let vs ← mapM' parseBits (← arrF j "b")
  return { number := ← natF j "n", values := vs }

def distsXJ (d : Dists XVal) : Json :=
  Json.arr (d.map (fun p => Json.arr #[(p.1 : Json), xvalJ p.2])).toArray

def distsFJ (d : Dists Float) : Json :=
  Json.arr (d.map (fun p => Json.arr #[(p.1 : Json), bitsJ p.2])).toArray

def stopS : Stop → String
  | .valueError => "ValueError" | .keyError => "KeyError" | .assertion => "AssertionError"
  | .exhausted => "exhausted" | .desync => "desync"

def pairsTokJ (l : List (String × Tok)) : Json :=
  Json.arr (l.map (fun p => Json.arr #[Json.str p.1, tokJ p.2])).toArray

def parseDraw (j : Json) : P Draw := do
  match optF j "rand", optF j "vec", optF j "choice", optF j "op" with
  | some r, _, _, _ => do return .rand (← parseRatJ r)
  | _, some v, _, _ => do return .randVec (← mapM' parseRatJ (← v.getArr?).toList)
  | _, _, some c, _ => do return .choice (← c.getNat?)
  | _, _, _, some o => do return .op (← mapM' parseXVal (← o.getArr?).toList)
  | _, _, _, _ => throw "bad draw"

def parseDirs (j : Json) (k : String) : P (List Bool) := do
  mapM' (fun d => do
    match ← d.getStr? with
    | "max" => pure true
    | "min" => pure false
    | s => throw s!"bad direction {s}") (← arrF j k)

def parseCfgN (j : Json) : P Cfg := do
  let c ← field j "cfg"
  return { crossoverProb := ← parseRatJ (← field c "crossoverProb"),
           swappingProb := ← parseRatJ (← field c "swappingProb"),
           mutationProb := ← parseOptRat c "mutationProb",
           nParents := ← natF c "nParents",
           constrained := ← boolF c "constrained",
           dirs := ← parseDirs c "dirs" }

def parseSpace (j : Json) : P Space := do
  mapM' (fun p => do
    match (← p.getArr?).toList with
    | [k, d] => return (← k.getStr?, ← parseDist d)
    | _ => throw "space pair expected") (← arrF j "space")

def parseEnc (j : Json) : P Enc := do
  let e ← field j "enc"
  return { den := ← natF e "den", big := ← parseIntS (← field e "big") }

def attemptJ (a : Attempt) : Json :=
  Json.mkObj [("parents", natsJ a.parents), ("rows", Json.arr (a.rows.map ratsJ).toArray)]

def mJ {β} (f : β → Json) : M β → Json
  | .ok b => Json.mkObj [("ok", f b)]
  | .error e => Json.mkObj [("stop", stopS e)]

def optBoolJ : Option Bool → Json
  | some b => Json.mkObj [("ok", Json.bool b)]
  | none => Json.mkObj [("err", "ValueError")]

def run (j : Json) : P Json := do
  match (← strF j "op") with
  | "crowd" =>
    -- `_calc_crowding_distance` and `_crowding_distance_sort` on one list, at both number instances
    let popJ ← arrF j "pop"
    let popX ← mapM' parseIndX popJ
    let rX := calcCrowding xnum popX
    let sX := crowdingSort xnum popX
    let exact := Json.mkObj [("after", natsJ (rX.1.map (·.number))), ("dists", distsXJ rX.2),
      ("sorted", natsJ (sX.map (·.number))), ("sortedOld", natsJ ((crowdingSortOld xnum popX).map (·.number))),
      ("sortedDists", Json.arr (sX.map (fun x => xvalJ (lookupD xnum x.number rX.2))).toArray)]
    let withBits := popJ.all (fun p => (optF p "b").isSome)
    if withBits then
      let popF ← mapM' parseIndF popJ
      let rF := calcCrowding fnum popF
      let sF := crowdingSort fnum popF
      return Json.mkObj [("x", exact), ("f", Json.mkObj [("after", natsJ (rF.1.map (·.number))), ("dists", distsFJ rF.2),
        ("sorted", natsJ (sF.map (·.number))), ("sortedOld", natsJ ((crowdingSortOld fnum popF).map (·.number)))])]
    else return Json.mkObj [("x", exact)]
  | "elite" =>
    let popJ ← arrF j "pop"
    let popX ← mapM' parseIndX popJ
    let enc ← parseEnc j
    let dirs ← parseDirs j "dirs"
    let constrained ← boolF j "constrained"
    let popSize ← natF j "popSize"
    if constrained && !validateConstraints popX then return Json.mkObj [("err", "ValueError")]
    match ranksOf enc dirs constrained popX with
    | none => return Json.mkObj [("err", "ValueError")]
    | some ranks =>
      let el := eliteWith xnum popSize ranks popX
      let base := [("ranks", natsJ ranks), ("elite", natsJ (el.map (·.number))),
        ("viaElite", match elite enc popSize dirs constrained popX with
          | some l => natsJ (l.map (·.number))
          | none => Json.null)]
      let withBits := popJ.all (fun p => (optF p "b").isSome)
      if withBits then
        let popF ← mapM' parseIndF popJ
        return Json.mkObj (base ++ [("eliteF", natsJ ((eliteWith fnum popSize ranks popF).map (·.number)))])
      else return Json.mkObj base
  | "dom" =>
    let dirs ← parseDirs j "dirs"
    let t0 ← parseIndX (← field j "t0")
    let t1 ← parseIndX (← field j "t1")
    return Json.mkObj [("plain", optBoolJ (dominates dirs t0 t1)), ("constrained", optBoolJ (constrainedDominates dirs t0 t1))]
  | "crossover" =>
    let E ← parseEnv j
    let cfg ← parseCfgN j
    let space ← parseSpace j
    let pop ← mapM' parseIndX (← arrF j "pop")
    let script ← mapM' parseDraw (← arrF j "script")
    return mJ (fun (r : List (String × Tok) × List Attempt × List Draw) =>
      Json.mkObj [("child", pairsTokJ r.1), ("attempts", Json.arr (r.2.1.map attemptJ).toArray), ("rest", r.2.2.length)])
      (performCrossover E cfg space pop script)
  | "child" =>
    let E ← parseEnv j
    let cfg ← parseCfgN j
    let space ← parseSpace j
    let pop ← mapM' parseIndX (← arrF j "pop")
    let script ← mapM' parseDraw (← arrF j "script")
    return mJ (fun (r : ChildOut) =>
      Json.mkObj [("child", pairsTokJ r.child), ("params", pairsTokJ r.params),
        ("attempts", Json.arr (r.attempts.map attemptJ).toArray), ("rest", r.rest.length)])
      (childGen E cfg space pop script)
  | op => throw s!"unknown op {op}"

def handle (j : Json) : Json :=
  match run j with
  | .ok r => r
  | .error e => Json.mkObj [("k", "bad-op"), ("why", e)]

/-- entry point: `driver nsga2` -/
def main : IO Unit := Driver.lineMap handle

end Driver.Sub.Nsga2
