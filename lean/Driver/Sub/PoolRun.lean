import Driver.Util
import Driver.Sub.Tell
import OptunaVerif.Model.PoolRun
/-! Sub-driver `poolrun` (C02): replays the recorded trace of one real
`study.optimize(objective, n_trials, n_jobs = k, timeout, callbacks)` run through `PoolRun.step`
(`Model/PoolRun.lean`) and compares, event by event, what the run observed with what the model says.

One JSON object per line:

    {"cfg": {nObj, catch}, "k", "n", "timeout", "joins",
     "jobs":   [{"plan": <TrialPlan as for `tell`/`seq`>, "elapsed": Nat}, …]      -- per future index
     "events": [{"e":"submit"} | {"e":"begin","i","t": trial number | null, "stopRead": Bool}
                | {"e":"stop","i"} | {"e":"finish","i","r": class | null,"state","values","cbs":[j…]}
                | {"e":"waitFirst","c":[i…]} | {"e":"timeout"} | {"e":"waitAll"} | {"e":"interrupt","c"} | {"e":"exit","r"}],
     "final":  {"trials": [{"state","values"}…] (by real trial number), "cbLog": [[t,j]…], "submitted": Nat}}

Answer: `{"ok": true, …}` or `{"ok": false, "at": index, "kind": "rejected" | "field", "field", "model", "run", …}`
for the first event the model rejects / the first observed field that differs.

Trial numbers: the model numbers rows in `begin` order; the real number is allocated by the later
`create_new_trial` call, so two racing workers may get them in the other order.  Nothing in the model
depends on a row's number except identity, so the replay pairs the model row created by `begin i` with
the real number recorded for future `i` and checks at the end that the pairing is a bijection onto the
study's trials. -/
open Lean
namespace Driver.Sub.PoolRun
open OptunaVerif OptunaVerif.Tell OptunaVerif.PoolRun Driver Driver.Sub.Tell

/-- class ids of the exceptions as the harness numbers them (`verif/props/c02_poolrun.py::CLS`) -/
def clsOf : Exc → Nat
  | .user c => c | .kbd => 1000 | .valueError => 1001 | .typeError => 1002 | .assertionError => 1003
  | .unboundLocalError => 1004 | .updateFinished => 1005 | .cast _ => 1006

def parseEv (j : Json) : P Event := do
  let e ← strF j "e"
  if e == "submit" then return .submit
  else if e == "begin" then return .begin (← natF j "i")
  else if e == "stop" then return .stopCalled (← natF j "i")
  else if e == "finish" then return .finish (← natF j "i")
  else if e == "waitFirst" then return .waitFirst (← mapM' (fun x => x.getNat?) (← arrF j "c"))
  else if e == "timeout" then return .timeout
  else if e == "waitAll" then return .waitAll
  else if e == "interrupt" then return .interrupt (← natF j "c")
  else if e == "exit" then return .exit (← parseRes (fieldD j "r" Json.null))
  else throw s!"bad event {e}"

def parseJob (j : Json) : P Job := do
  return { plan := ← parsePlan (← field j "plan"), elapsed := ← natF j "elapsed" }

def resJson : Pool.Res → Json
  | .ok => Json.null
  | .raised c => (c : Json)

def optResJson : Option Pool.Res → Json
  | none => Json.str "unfinished"
  | some r => resJson r

def rowJson : Option Cell → Json
  | none => Json.null
  | some c => Json.mkObj [("state", c.row.state.code), ("values", optJson xvalsJson c.row.values)]

def natsJson (l : List Nat) : Json := Json.arr (l.map (fun (x : Nat) => (x : Json))).toArray

/-- what the run saw of a row: `(state code, values)` -/
def parseObsRow (j : Json) : P (Option (Nat × Option (List XVal))) :=
  match optF j "state" with
  | none => pure none
  | some st => do return some (← st.getNat?, ← parseOptXVals j "values")

def rowMatches (c : Option Cell) (o : Option (Nat × Option (List XVal))) : Bool :=
  match c, o with
  | none, none => true
  | some c, some (st, vals) => c.row.state.code == st && c.row.values == vals
  | _, _ => false

def mismatch (at_ : Nat) (ev : Json) (fld : String) (model run : Json) : Json :=
  Json.mkObj [("ok", false), ("at", at_), ("kind", "field"), ("field", fld), ("model", model), ("run", run),
    ("event", ev)]

/-- why the model does not accept the event (for the harness's message) -/
def whyRejected (pr : Params) (s : State) : Event → String
  | .exit r =>
    let unfinished := (List.range s.pool.submitted).filter (fun i => (s.pool.ended i).isNone)
    let rs := match r with | .ok => "return" | .raised c => s!"raise class {c}"
    s!"exit ({rs}) with futures {unfinished} unfinished, exceptions met by f.result() {s.pool.cands}, " ++
      s!"phase {phaseStr s.pool.phase}, interrupted {s.interrupted}"
  | .begin i => s!"begin {i}: submitted {s.pool.submitted}, already begun {s.pool.begun i}"
  | .finish i => s!"finish {i}: begun {s.pool.begun i}, already ended {(s.pool.ended i).isSome}"
  | .stopCalled i => s!"stop by future {i}: begun {s.pool.begun i}, ended {(s.pool.ended i).isSome}, or its job never calls stop"
  | .submit => s!"submit: phase {phaseStr s.pool.phase}, submitted {s.pool.submitted}, in flight {s.pool.futures}, interrupted {s.interrupted}"
  | .waitFirst c => s!"wait(FIRST_COMPLETED) returned {c}: in flight {s.pool.futures}, phase {phaseStr s.pool.phase}"
  | .timeout => s!"main thread saw the timeout elapse: timeout given {pr.timeout.isSome}, phase {phaseStr s.pool.phase}, interrupted {s.interrupted}"
  | .waitAll => s!"final wait: stop flag {s.pool.stop}, timed out {s.pool.timedOut}, submitted {s.pool.submitted}, in flight {s.pool.futures}"
  | .interrupt _ => s!"interrupt: already interrupted {s.interrupted}"

/-- observations attached to the event just taken (`s` before, `s'` after) -/
def checkEvent (pr : Params) (idx : Nat) (s s' : State) (ev : Event) (j : Json)
    (pairs : List (Nat × Nat)) : P (Except Json (List (Nat × Nat))) := do
  match ev with
  | .begin i =>
    let t ← optNat j "t"
    match optF j "stopRead" with
    | some b =>
      let b ← b.getBool?
      if b != s.pool.stop then
        return .error (mismatch idx j "begin.stopFlag" (s.pool.stop : Bool) b)
    | none => pure ()
    match s'.trialOf i, t with
    | some m, some t => return .ok ((m, t) :: pairs)
    | none, none => return .ok pairs
    | m, t =>
      return .error (mismatch idx j "begin.trialCreated" (optJson (fun (x : Nat) => (x : Json)) m)
        (optJson (fun (x : Nat) => (x : Json)) t))
  | .finish i =>
    let r ← parseRes (fieldD j "r" Json.null)
    if s'.pool.ended i != some r then
      return .error (mismatch idx j "finish.result" (optResJson (s'.pool.ended i)) (resJson r))
    let obs ← parseObsRow j
    let cell := match s'.trialOf i with | some m => s'.store m | none => none
    if !rowMatches cell obs then
      return .error (mismatch idx j "finish.row" (rowJson cell) (Json.mkObj [("state", fieldD j "state" Json.null),
        ("values", fieldD j "values" Json.null)]))
    let cbs ← mapM' (fun x => x.getNat?) (← arrF j "cbs")
    let mcbs := (jobOut pr (s.stop0 i) i).cbLog.map (·.2)
    if mcbs != cbs then
      return .error (mismatch idx j "finish.callbacks" (natsJson mcbs) (natsJson cbs))
    return .ok pairs
  | _ => return .ok pairs

def replay (pr : Params) : Nat → State → List (Nat × Nat) → List (Event × Json) →
    P (Except Json (State × List (Nat × Nat)))
  | _, s, pairs, [] => pure (.ok (s, pairs))
  | idx, s, pairs, (ev, j) :: rest => do
    match PoolRun.step pr s ev with
    | none =>
      return .error (Json.mkObj [("ok", false), ("at", idx), ("kind", "rejected"), ("event", j),
        ("why", whyRejected pr s ev)])
    | some s' =>
      match ← checkEvent pr idx s s' ev j pairs with
      | .error m => return .error m
      | .ok pairs' => replay pr (idx + 1) s' pairs' rest

def checkFinal (s : State) (pairs : List (Nat × Nat)) (nEv : Nat) (fin : Json) : P Json := do
  let trials ← arrF fin "trials"
  let cbLog ← mapM' (fun p => do
    match (← p.getArr?).toList with
    | [t, j] => return (← t.getNat?, ← j.getNat?)
    | _ => throw "cbLog pair expected") (← arrF fin "cbLog")
  let submitted ← natF fin "submitted"
  let bad (fld : String) (model run : Json) : Json := mismatch nEv Json.null fld model run
  if s.done.isNone then return bad "final.exit" "no exit" "trace ended"
  if s.pool.submitted != submitted then return bad "final.submitted" s.pool.submitted submitted
  if s.nTrials != trials.length then return bad "final.trialCount" s.nTrials trials.length
  let ts := pairs.map (·.2)
  if !(List.range trials.length).all (fun t => ts.count t == 1) then
    return bad "final.trialNumbers" (natsJson ts) trials.length
  for (m, t) in pairs do
    let obs ← parseObsRow (trials.getD t Json.null)
    if !rowMatches (s.store m) obs then
      return bad s!"final.row[{t}]" (rowJson (s.store m)) (trials.getD t Json.null)
    let mj := (s.cbLog.filter (fun x => x.1 == m)).map (·.2)
    let rj := (cbLog.filter (fun x => x.1 == t)).map (·.2)
    if mj != rj then return bad s!"final.callbacks[{t}]" (natsJson mj) (natsJson rj)
  if !cbLog.all (fun x => ts.contains x.1) then
    return bad "final.callbacks" "only for trials" (Json.arr (cbLog.map (fun x => natsJson [x.1, x.2])).toArray)
  return Json.mkObj [("ok", true), ("nTrials", s.nTrials), ("submitted", s.pool.submitted),
    ("done", optResJson s.done), ("interrupted", s.interrupted.isSome), ("stop", s.pool.stop), ("timedOut", s.pool.timedOut),
    ("running", natsJson ((List.range s.nTrials).filter (fun m =>
      match s.store m with | some c => c.row.state == .running | none => false)))]

def handleCmd (j : Json) : P Json := do
  let cfg ← parseCfg (← field j "cfg")
  let jobs ← mapM' parseJob (← arrF j "jobs")
  let k ← natF j "k"
  let n ← optNat j "n"
  let timeout ← optNat j "timeout"
  let joins ← boolF j "joins"
  let jobsF : Nat → Job := fun i => jobs.getD i {}
  let pr : Params := ⟨cfg, k, n, timeout, jobsF, clsOf, joins⟩
  let evJ ← arrF j "events"
  let evs ← mapM' (fun e => do return (← parseEv e, e)) evJ
  match ← replay pr 0 PoolRun.init [] evs with
  | .error m => return m
  | .ok (s, pairs) => checkFinal s pairs evs.length (← field j "final")

def handle (j : Json) : Json :=
  match handleCmd j with
  | .ok r => r
  | .error e => Json.mkObj [("ok", false), ("kind", "bad-op"), ("why", e)]

/-- entry point: `driver poolrun` -/
def main : IO Unit := Driver.lineMap handle

end Driver.Sub.PoolRun
