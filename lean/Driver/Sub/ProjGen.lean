import Driver.Util
import Driver.Sub.Dist
import OptunaVerif.Model.Suggest
import OptunaVerif.Generated.ProjGen
/-! Sub-driver `projgen`: the sampler projections of C10 — hand model (`Model/Suggest.lean`, GP normalisation of
`Model/ProjIR.lean`) side by side with the evaluator of the formulas regenerated from the source (`Generated/ProjGen.lean`).
Every answer is `{"r": <hand model>, "gen": null | {"generated": …, "hand": …}}`. -/
open Lean
namespace Driver.Sub.ProjGen
open OptunaVerif OptunaVerif.Dist OptunaVerif.Suggest OptunaVerif.ProjIR Driver Driver.Sub.Dist
open OptunaVerif.Generated.ProjGen

def side (hand gen : Rat) : Json :=
  Json.mkObj [("r", ratJ hand), ("gen", if hand = gen then Json.null else Json.mkObj [("generated", ratJ gen), ("hand", ratJ hand)])]

def parseST (j : Json) : P ST := do
  match ← j.getStr? with
  | "linear" => pure .linear | "log" => pure .log | "cat" => pure .cat
  | s => throw s!"bad scale type {s}"

def rf (j : Json) (k : String) : P Rat := do parseRatJ (← field j k)

def run (j : Json) : P Json := do
  let E ← parseEnv j
  match (← strF j "op") with
  | "tpeDisc" =>
    let (lo, hi, st, s) := (← rf j "low", ← rf j "high", ← rf j "step", ← rf j "s")
    return side (tpeDisc lo hi st s) (mixDisc.eval E noCall (ctxM lo hi st 0 1 s))
  | "tpeCont" =>
    let (lo, hi, s) := (← rf j "low", ← rf j "high", ← rf j "s")
    return side (tpeCont lo hi s) (mixCont.eval E noCall (ctxM lo hi 0 0 1 s))
  | "tpeInt" =>
    -- `s` = res[param] (after np.exp for a log int: the harness sends a non-log distribution and the value after exp)
    let d ← parseDist (← field j "d")
    let s ← rf j "s"
    match d with
    | .int _ lo hi _ st => return side (tpeInt lo hi st s) (truncI (tpeUntransform.eval E noCall (ctxD d s)))
    | _ => throw "tpeInt: int distribution expected"
  | "tpeTransform" =>
    let d ← parseDist (← field j "d")
    let s ← rf j "s"
    return side (Dist.tnum E ⟨true, true, false⟩ d s) (tpeTransform.eval E noCall (ctxD d s))
  | "catCum" =>
    let cum ← mapM' parseRatJ (← arrF j "cum")
    let q ← rf j "q"
    let h := catCum (setLast cum 1) q
    let g := mixCat.eval cum q
    return Json.mkObj [("r", (h : Json)), ("gen", if h = g then Json.null else Json.mkObj [("generated", (g : Json)), ("hand", (h : Json))])]
  | "catFloor" =>
    let n ← natF j "n"
    let q ← rf j "q"
    return side (catFloor n q) (gpSampleCat.eval E noCall (ctxG .cat 0 (n : Rat) 1 q))
  | "gpUnnorm" =>
    let (st, b0, b1, step, x) := (← parseST (← field j "st"), ← rf j "b0", ← rf j "b1", ← rf j "step", ← rf j "x")
    return side (gpUnnorm E st b0 b1 step x) (gpUnnormalize.eval E noCall (ctxG st b0 b1 step x))
  | "gpNorm" =>
    let (st, b0, b1, step, x) := (← parseST (← field j "st"), ← rf j "b0", ← rf j "b1", ← rf j "step", ← rf j "x")
    return side (gpNorm E st b0 b1 step x) (gpNormalize.eval E noCall (ctxG st b0 b1 step x))
  | "gpRound" =>
    let (st, b0, b1, step, x) := (← parseST (← field j "st"), ← rf j "b0", ← rf j "b1", ← rf j "step", ← rf j "x")
    return side (gpRoundNorm E st b0 b1 step x) (gpRound.eval E (gp.callf E) (ctxG st b0 b1 step x))
  | "gpGet" =>
    let d ← parseDist (← field j "d")
    let x ← rf j "x"
    let hand : Rat := match d with
      | .int _ lo hi _ st => (gpInt lo hi (gpUnnorm E (stOf d) lo hi st x) : Rat)
      | .flt _ lo hi _ st => gpNum lo hi (gpUnnorm E (stOf d) lo hi (st.getD 0) x)
      | .cat _ => x
    return side hand (gpGet.eval E (gp.callf E) (ctxD d x))
  | op => throw s!"unknown op {op}"

def handle (j : Json) : Json :=
  match run j with
  | .ok r => r
  | .error e => Json.mkObj [("k", "bad-op"), ("why", e)]

/-- entry point: `driver projgen` -/
def main : IO Unit := Driver.lineMap handle

end Driver.Sub.ProjGen
