import Driver.Util
import Driver.Sub.Storage
import OptunaVerif.Model.Proto
/-! Sub-driver `proto`: the wire model of the gRPC proxy behind the line protocol (C01, verif/props/c01_grpc.py).

  {"op":"trial","frozen":F}            → {"wire":PTrial|null,"decoded":F'|{"err":E}}   `_to_proto_trial` then `_from_proto_trial`
  {"op":"study","study":S}             → {"wire":PStudy,"decoded":S'}
  {"op":"state","code":n}              → {"to":n|null,"from":n|null}
  {"op":"dir","d":n}                   → {"to":n,"back":n,"from":n}
  {"op":"values","values":[..]|null}   → {"wire":[..],"setStateValues":[..]|null,"trial":[..]|null}
  {"op":"transport","rpc":R,"err":E}   → {"status":S,"caller":…}
  {"op":"tables"}                      → the generated tables as the model reads them
  {"op":"reset"} / a storage op (as for `driver storage`, plus "uuid") → one `proxyStep` on the kept state
-/
open Lean
namespace Driver.Sub.Proto
open OptunaVerif OptunaVerif.Storage OptunaVerif.Proto OptunaVerif.Generated Driver
open OptunaVerif.Generated.GrpcTables (Exc Status Rpc ValuesDecode)

def xvalsJson (l : List XVal) : Json := Json.arr (l.map (fun v => Json.str (showXVal v))).toArray

def pairsJson {β} (f : β → Json) (l : List (String × β)) : Json :=
  Json.arr (l.map (fun p => Json.arr #[Json.str p.1, f p.2])).toArray

def interJson (l : List (Int × XVal)) : Json :=
  Json.arr (l.map (fun p => Json.arr #[Json.num (JsonNumber.fromInt p.1), Json.str (showXVal p.2)])).toArray

def ptrialJson (p : PTrial) : Json :=
  Json.mkObj [
    ("trial_id", Json.num (JsonNumber.fromInt p.trialId)), ("number", Json.num (JsonNumber.fromInt p.number)),
    ("state", p.state), ("values", xvalsJson p.values),
    ("datetime_start", p.datetimeStart), ("datetime_complete", p.datetimeComplete),
    ("params", pairsJson Json.str p.params),
    ("distributions", pairsJson (fun (d : Dist) => Json.str d.body) p.distributions),
    ("user", pairsJson Json.str p.userAttributes), ("system", pairsJson Json.str p.systemAttributes),
    ("inter", interJson p.intermediateValues)]

def frozenJson (f : Frozen) : Json :=
  Json.mkObj [
    ("id", Json.num (JsonNumber.fromInt f.id)), ("number", Json.num (JsonNumber.fromInt f.number)),
    ("state", f.body.state.code),
    ("values", optJson xvalsJson f.body.values),
    ("params", pairsJson (fun (p : Param) => Json.mkObj [("internal", p.internal), ("body", p.dist.body)]) f.body.params),
    ("user", pairsJson Json.str f.body.userAttrs), ("system", pairsJson Json.str f.body.systemAttrs),
    ("inter", interJson f.body.inter),
    ("start", f.body.hasStart), ("complete", f.body.hasComplete)]

def errName : Err → String := Driver.Sub.Storage.errName

def parseFrozen (j : Json) : P Frozen := do
  return { id := ← intF j "id", number := ← intF j "number", body := ← Driver.Sub.Storage.parseTemplate j }

def pstudyJson (p : PStudy) : Json :=
  Json.mkObj [("study_id", p.studyId), ("study_name", p.studyName),
    ("directions", Json.arr (p.directions.map (fun (n : Nat) => (n : Json))).toArray),
    ("user", pairsJson Json.str p.userAttributes), ("system", pairsJson Json.str p.systemAttributes)]

def studyOutJson (p : Nat × StudyS) : Json :=
  Json.mkObj [("id", p.1), ("name", p.2.name),
    ("dirs", Json.arr (p.2.directions.map (fun (n : Nat) => (n : Json))).toArray),
    ("user", pairsJson Json.str p.2.userAttrs), ("system", pairsJson Json.str p.2.systemAttrs)]

def parseStudy (j : Json) : P (Nat × StudyS) := do
  return (← natF j "id",
    { name := ← strF j "name", directions := ← mapM' (fun d => d.getNat?) (← arrF j "dirs"),
      userAttrs := ← parsePairs (fun v => v.getStr?) (← field j "user"),
      systemAttrs := ← parsePairs (fun v => v.getStr?) (← field j "system"), paramDist := [] })

def rpcNames : List (String × Rpc) := [
  ("CreateNewStudy", .createNewStudy), ("DeleteStudy", .deleteStudy), ("SetStudyUserAttribute", .setStudyUserAttribute),
  ("SetStudySystemAttribute", .setStudySystemAttribute), ("GetStudyIdFromName", .getStudyIdFromName),
  ("GetStudyNameFromId", .getStudyNameFromId), ("GetStudyDirections", .getStudyDirections),
  ("GetStudyUserAttributes", .getStudyUserAttributes), ("GetStudySystemAttributes", .getStudySystemAttributes),
  ("GetAllStudies", .getAllStudies), ("CreateNewTrial", .createNewTrial), ("SetTrialParameter", .setTrialParameter),
  ("GetTrialIdFromStudyIdTrialNumber", .getTrialIdFromStudyIdTrialNumber), ("SetTrialStateValues", .setTrialStateValues),
  ("SetTrialIntermediateValue", .setTrialIntermediateValue), ("SetTrialUserAttribute", .setTrialUserAttribute),
  ("SetTrialSystemAttribute", .setTrialSystemAttribute), ("GetTrial", .getTrial), ("GetTrials", .getTrials)]

def errNames : List (String × Err) := [
  ("KeyError", .keyError), ("DuplicatedStudyError", .duplicated), ("UpdateFinishedTrialError", .updateFinished),
  ("ValueError", .valueError), ("RuntimeError", .runtimeError)]

def statusName : Status → String
  | .ok => "OK" | .cancelled => "CANCELLED" | .unknown => "UNKNOWN" | .invalidArgument => "INVALID_ARGUMENT"
  | .deadlineExceeded => "DEADLINE_EXCEEDED" | .notFound => "NOT_FOUND" | .alreadyExists => "ALREADY_EXISTS"
  | .permissionDenied => "PERMISSION_DENIED" | .resourceExhausted => "RESOURCE_EXHAUSTED"
  | .failedPrecondition => "FAILED_PRECONDITION" | .aborted => "ABORTED" | .outOfRange => "OUT_OF_RANGE"
  | .unimplemented => "UNIMPLEMENTED" | .internal => "INTERNAL" | .unavailable => "UNAVAILABLE"
  | .dataLoss => "DATA_LOSS" | .unauthenticated => "UNAUTHENTICATED"

def excName : Exc → String
  | .keyError => "KeyError" | .duplicatedStudyError => "DuplicatedStudyError"
  | .updateFinishedTrialError => "UpdateFinishedTrialError" | .valueError => "ValueError"
  | .runtimeError => "RuntimeError" | .optunaError => "OptunaError" | .lookupError => "LookupError"
  | .exception => "Exception" | .baseException => "BaseException"

def poutJson : POut → Json
  | .ok o => Driver.Sub.Storage.outJson o
  | .rpcError c => Json.mkObj [("k", "rpcError"), ("code", statusName c)]
  | .raised c => Json.mkObj [("k", "raised"), ("e", excName c)]

def optNat : Option Nat → Json
  | none => Json.null
  | some n => (n : Json)

def handle (s : Spec) (j : Json) : Spec × Json :=
  let bad (e : String) : Spec × Json := (s, Json.mkObj [("k", "bad-op"), ("why", e)])
  match j.getObjVal? "op" with
  | .ok (Json.str "reset") => (Storage.init, Json.mkObj [("k", "reset")])
  | .ok (Json.str "trial") =>
    match (field j "frozen") >>= parseFrozen with
    | .error e => bad e
    | .ok f =>
      match toProtoTrial f with
      | none => (s, Json.mkObj [("wire", Json.null), ("decoded", Json.mkObj [("err", "ValueError")])])
      | some p =>
        let d := match fromProtoTrial p with
          | .ok f' => frozenJson f'
          | .error e => Json.mkObj [("err", errName e)]
        (s, Json.mkObj [("wire", ptrialJson p), ("decoded", d)])
  | .ok (Json.str "study") =>
    match (field j "study") >>= parseStudy with
    | .error e => bad e
    | .ok st =>
      let w := toProtoStudy st
      (s, Json.mkObj [("wire", pstudyJson w), ("decoded", studyOutJson (fromProtoStudy w))])
  | .ok (Json.str "state") =>
    match natF j "code" with
    | .error e => bad e
    | .ok n =>
      (s, Json.mkObj [("to", optNat ((TState.ofCode? n).bind stateToProto)),
                      ("from", optNat ((stateFromProto n).map TState.code))])
  | .ok (Json.str "dir") =>
    match natF j "d" with
    | .error e => bad e
    | .ok d => (s, Json.mkObj [("to", dirToProto d), ("back", normDir d), ("from", dirFromProto d)])
  | .ok (Json.str "values") =>
    match Driver.Sub.Storage.parseValues j "values" with
    | .error e => bad e
    | .ok v =>
      let w := encodeValues v
      (s, Json.mkObj [("wire", xvalsJson w),
        ("setStateValues", optJson xvalsJson (decodeValues GrpcTables.setStateValuesDecode w)),
        ("trial", optJson xvalsJson (decodeValues GrpcTables.trialValuesDecode w))])
  | .ok (Json.str "transport") =>
    match strF j "rpc", strF j "err" with
    | .ok r, .ok e =>
      match lookup rpcNames r, lookup errNames e with
      | some rpc, some err =>
        (s, Json.mkObj [("status", statusName (abortStatus rpc err)), ("caller", poutJson (transport rpc err))])
      | _, _ => bad "unknown rpc / error name"
    | _, _ => bad "rpc, err expected"
  | .ok (Json.str "tables") =>
    (s, Json.mkObj [
      ("servicerCatches", Json.mkObj (rpcNames.map (fun p => (p.1, Json.arr ((GrpcTables.servicerCatches p.2).map
        (fun q => Json.arr #[Json.str (excName q.1), Json.str (statusName q.2)])).toArray)))),
      ("clientRaises", Json.mkObj (rpcNames.map (fun p => (p.1, Json.arr ((GrpcTables.clientRaises p.2).map
        (fun q => Json.arr #[Json.str (statusName q.1), Json.str (excName q.2)])).toArray))))])
  | _ =>
    match Driver.Sub.Storage.parseOp j with
    | .error e => bad e
    | .ok op =>
      let uuid := (fieldD j "uuid" (Json.str "uuid")).getStr?.toOption.getD "uuid"
      let r := proxyStep s uuid op
      let base := [("out", poutJson r.2)]
      let withState := if (fieldD j "dump" (Json.bool false)).getBool?.toOption.getD false
        then base ++ [("state", Driver.Sub.Storage.stateJson r.1)] else base
      (r.1, Json.mkObj withState)

/-- entry point: `driver proto` -/
def main : IO Unit := Driver.lineLoop handle Storage.init

end Driver.Sub.Proto
