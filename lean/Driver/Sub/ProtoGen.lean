import Driver.Sub.Proto
import OptunaVerif.Generated.GrpcMethods
/-! Sub-driver `protogen`: the protocol of `proto` (C01, gRPC wire model), with the interpreter of the bodies GENERATED from
servicer.py / client.py (`Generated/GrpcMethods.lean`, `Model/GrpcIR.lean`) run side by side with the hand model:

  a storage op           → generated client method over the generated servicer method over the generated converters
                           (`GrpcIR.proxyStepGen`) vs `Proto.proxyStep`: answer and whole backend state
  {"op":"trial",…}       → generated `_to_proto_trial` / `_from_proto_trial` vs `Proto.toProtoTrial` / `fromProtoTrial`
  {"op":"state",…}       → generated `_to_proto_trial_state` / `_from_proto_trial_state` vs the table functions
  {"op":"servicer","rpc":R,"err":E} (a probe: the rpc's servicer ladder and client chain on a backend exception class,
                           on the generated bodies) → {"status":…,"caller":…}; compared by the harness with `transport`

Those answers carry `"gen"`: `null` when generated and hand agree, else a description of both. -/
open Lean
namespace Driver.Sub.ProtoGen
open OptunaVerif OptunaVerif.Storage OptunaVerif.Proto OptunaVerif.GrpcIR OptunaVerif.Generated Driver Driver.Sub.Proto
open OptunaVerif.Generated.GrpcTables (Exc Status Rpc)
open OptunaVerif.Generated.GrpcMethods (program)

def describe (what : String) (gen hand : Json) : Json :=
  Json.mkObj [("what", what), ("generated", gen), ("hand", hand)]

def genStep (s : Spec) (uuid : String) (op : Op) : Json :=
  let h := proxyStep s uuid op
  match proxyStepGen program s uuid op with
  | none => describe "proxied call" (Json.str "unrepresentable") (poutJson h.2)
  | some g =>
    if poutJson g.2 == poutJson h.2 && Driver.Sub.Storage.stateJson g.1 == Driver.Sub.Storage.stateJson h.1 then Json.null
    else describe "proxied call" (Json.mkObj [("out", poutJson g.2), ("state", Driver.Sub.Storage.stateJson g.1)])
      (Json.mkObj [("out", poutJson h.2), ("state", Driver.Sub.Storage.stateJson h.1)])

def genTrial (f : Frozen) : Json :=
  let hw := toProtoTrial f
  let gw := program.toProtoTrialG f
  let dec (w : Option PTrial) (d : PTrial → Except Err Frozen) : Json :=
    match w with
    | none => Json.null
    | some p => match d p with | .ok f' => frozenJson f' | .error e => Json.mkObj [("err", errName e)]
  let hj := Json.mkObj [("wire", (hw.map ptrialJson).getD Json.null), ("decoded", dec hw fromProtoTrial)]
  let gj := Json.mkObj [("wire", (gw.map ptrialJson).getD Json.null), ("decoded", dec gw program.fromProtoTrialG)]
  if hj == gj then Json.null else describe "_to_proto_trial / _from_proto_trial" gj hj

def genState (n : Nat) : Json :=
  let hj := Json.mkObj [("to", optNat ((TState.ofCode? n).bind stateToProto)), ("from", optNat ((stateFromProto n).map TState.code))]
  let gj := Json.mkObj [("to", optNat ((TState.ofCode? n).bind program.toProtoStateG)),
    ("from", optNat ((program.fromProtoStateG n).map TState.code))]
  if hj == gj then Json.null else describe "_to_proto_trial_state / _from_proto_trial_state" gj hj

/-- the servicer ladder of `rpc` and the client chain of the same rpc, read off the GENERATED bodies: run the rpc's handlers on
the exception class, then the client's `except grpc.RpcError` clause on the status code -/
def ladderStatus (rpc : Rpc) (e : Err) : Option Status :=
  let rec find : Stmt → Option Stmt
    | .tryExcept _ h => some h
    | .seq a b => match find a with | some h => some h | none => find b
    | _ => none
  match find (program.servicer rpc) with
  | none => some .unknown
  | some hs =>
    match exec (Ctx.hand false "") hs { s := Storage.init, env := [], cur := some (excOf e) } with
    | (_, .aborted c) => some c
    | (_, .unrep) => none
    | _ => some .unknown

def handle (s : Spec) (j : Json) : Spec × Json :=
  let (s', out) := Driver.Sub.Proto.handle s j
  match j.getObjVal? "op" with
  | .ok (Json.str "reset") => (s', out)
  | .ok (Json.str "trial") =>
    match (field j "frozen") >>= parseFrozen with
    | .ok f => (s', out.setObjVal! "gen" (genTrial f))
    | .error _ => (s', out)
  | .ok (Json.str "state") =>
    match natF j "code" with
    | .ok n => (s', out.setObjVal! "gen" (genState n))
    | .error _ => (s', out)
  | .ok (Json.str "ladder") =>
    match strF j "rpc", strF j "err" with
    | .ok r, .ok e =>
      match lookup rpcNames r, lookup errNames e with
      | some rpc, some err =>
        (s, Json.mkObj [("status", ((ladderStatus rpc err).map (fun c => Json.str (statusName c))).getD Json.null),
                        ("hand", statusName (abortStatus rpc err))])
      | _, _ => (s, Json.mkObj [("k", "bad-op")])
    | _, _ => (s, Json.mkObj [("k", "bad-op")])
  | .ok (Json.str "study") | .ok (Json.str "dir") | .ok (Json.str "values") | .ok (Json.str "transport") | .ok (Json.str "tables") => (s', out)
  | _ =>
    match Driver.Sub.Storage.parseOp j with
    | .error _ => (s', out)
    | .ok op =>
      let uuid := (fieldD j "uuid" (Json.str "uuid")).getStr?.toOption.getD "uuid"
      (s', out.setObjVal! "gen" (genStep s uuid op))

/-- entry point: `driver protogen` -/
def main : IO Unit := Driver.lineLoop handle Storage.init

end Driver.Sub.ProtoGen
