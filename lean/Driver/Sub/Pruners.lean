import Driver.Util
import OptunaVerif.Model.Pruners
import OptunaVerif.Generated.ReportMethods
/-! Sub-driver `pruners`: the pruner models behind the line protocol (C16).

Stateful ops (one in-memory study): `reset {dir}`, `ask`, `report {n, step, v}`, `tell {n, state}`,
`shouldPrune {n, pruner, crc}` (→ decision + what the model computed on the way), `dump`.
Every stateful answer carries `"gen"`: the same call through `ReportIR.stepG` (the interpreter of `Trial.report` / `Trial.should_prune`
GENERATED from the source, `Generated/ReportMethods.lean`) — `null` when it agrees with the hand model on the answer and on the trial list.
`reportglue {ndirs, inter:[[step, v]..], state, value|null, step|null, storageOk}` evaluates `Trial.report` on one trial object (hand model
+ generated interpreter): `{inter, writes, warned, err, gen}`;
`pruneglue {ndirs, inter, state, answer, rebind}` evaluates `Trial.should_prune` on one trial object with a recording pruner that answers
`answer` and (when `rebind`) rebinds attributes of the trial it is handed: `{out, inter, state, handed, gen}`.
Stateless function ties: `fn {f: isFirst | promIdx | promStep | budgets | bracket | percentile | promotable | currentRung}`. -/
open Lean
namespace Driver.Sub.Pruners
open OptunaVerif OptunaVerif.Pruners Driver

def parseDir (j : Json) : P Dir := do
  match (← j.getStr?) with
  | "min" => return .minimize
  | "max" => return .maximize
  | s => throw s!"bad direction {s}"

def ratF (j : Json) (k : String) : P Rat := do parseRat (← strF j k)
def xvalF (j : Json) (k : String) : P XVal := do parseXVal (← field j k)

def optNatF (j : Json) (k : String) : P (Option Nat) :=
  match optF j k with
  | none => pure none
  | some v => do return some (← v.getNat?)

partial def parsePruner (j : Json) : P Pruner := do
  match (← strF j "k") with
  | "nop" => return .nop
  | "percentile" =>
    return .percentile { q := ← ratF j "q", nStartup := ← natF j "startup", nWarmup := ← natF j "warmup",
                         interval := ← natF j "interval", nMin := ← natF j "nmin" }
  | "threshold" =>
    return .threshold { lower := ← xvalF j "lower", upper := ← xvalF j "upper", nWarmup := ← natF j "warmup",
                        interval := ← natF j "interval" }
  | "sh" =>
    return .sh { minResource := ← optNatF j "minres", eta := ← natF j "eta", rate := ← natF j "rate",
                 bootstrap := ← natF j "bootstrap" }
  | "hyperband" =>
    return .hyperband { minResource := ← natF j "minres", eta := ← natF j "eta", bootstrap := ← natF j "bootstrap",
                        nBrackets := ← optNatF j "nb" }
  | "patient" =>
    let patience ← natF j "patience"
    let delta ← ratF j "delta"
    match optF j "wrapped" with
    | none => return .patientNone patience delta
    | some w => return .patient (← parsePruner w) patience delta
  | s => throw s!"unknown pruner {s}"

def xj (v : XVal) : Json := Json.str (showXVal v)
def natsJ (l : List Nat) : Json := Json.arr (l.map (fun (n : Nat) => (n : Json))).toArray
def optNatJ : Option Nat → Json
  | none => Json.null
  | some n => (n : Json)
def optBoolJ : Option Bool → Json
  | none => Json.null
  | some b => Json.bool b

def br (s : String) : String × Json := ("branch", Json.str s)
def kv (k : String) (v : Json) : String × Json := (k, v)
def kn (k : String) (n : Nat) : String × Json := (k, (n : Json))

/-- what the model computed on the way to the decision (for tolerant comparison and for branch tags) -/
def explain (crc : Nat → Nat) (s : Study) (n : Nat) (t : PTrial) : Pruner → List (String × Json)
  | .nop => [br "nop"]
  | .percentile c =>
    let completed := completedTrials s.trials
    let base : List (String × Json) := [kn "ncomplete" completed.length]
    if completed.length = 0 || completed.length < c.nStartup then base ++ [br "startup"]
    else match lastStep t.inter with
      | none => base ++ [br "no-step"]
      | some step =>
        if step < (c.nWarmup : Int) then base ++ [br "warmup"]
        else if !isFirstInIntervalStep step (interSteps t) c.nWarmup c.interval then base ++ [br "off-interval"]
        else
          let best := bestOverSteps t s.dir
          if xisNan best then base ++ [br "best-nan"]
          else
            let p := percentileOverTrials completed s.dir step c.q c.nMin
            base ++ [br (if xisNan p then "p-nan" else "compare"), kv "best" (xj best), kv "p" (xj p),
                     kn "nvals" (valuesAtStep completed step).length]
  | .threshold c =>
    match thresholdChecked c t with
    | none => [br "not-checked"]
    | some v => [br "checked", kv "v" (xj v)]
  | .sh c =>
    [br "sh", kn "rung" (currentRung t.rungs), kv "minres" (optNatJ (resolveMinResource c s.trials))]
  | .hyperband c =>
    match c.nBrackets with
    | none => [br "hb-uninit"]
    | some nb =>
      [br "hb", kv "budgets" (natsJ (budgets nb c.eta)), kv "bracket" (optNatJ (bracketId nb c.eta (crc n))),
       kn "rung" (currentRung t.rungs)]
  | .patient w patience delta =>
    let m := patientMaybe patience delta s.dir t
    [kv "maybe" (Json.bool m)] ++ (if m then explain crc s n t w else [br "patient-hold"])
  | .patientNone patience delta =>
    [kv "maybe" (Json.bool (patientMaybe patience delta s.dir t)), br "patient-none"]

def trialJson (t : PTrial) : Json :=
  Json.mkObj [("state", t.state.code),
    ("inter", Json.arr (t.inter.map (fun p => Json.arr #[(p.1 : Json), xj p.2])).toArray),
    ("rungs", Json.arr (t.rungs.map (fun p => Json.arr #[(p.1 : Json), xj p.2])).toArray)]

def intsF (j : Json) (k : String) : P (List Int) := do mapM' (fun v => v.getInt?) (← arrF j k)
def natsF (j : Json) (k : String) : P (List Nat) := do mapM' (fun v => v.getNat?) (← arrF j k)
def xvalsF (j : Json) (k : String) : P (List XVal) := do mapM' parseXVal (← arrF j k)

def fnCall (j : Json) : P Json := do
  match (← strF j "f") with
  | "isFirst" =>
    return Json.bool (isFirstInIntervalStep (← intF j "step") (← intsF j "steps") (← intF j "warmup") (← intF j "interval"))
  | "promIdx" => return (promotableIdx (← natF j "n") (← natF j "eta") : Nat)
  | "promStep" => return (promotionStep (← natF j "m") (← natF j "eta") (← natF j "rate") (← natF j "rung") : Nat)
  | "budgets" => return natsJ (budgets (← natF j "nb") (← natF j "eta"))
  | "bracket" => return optNatJ (bracketId (← natF j "nb") (← natF j "eta") (← natF j "h"))
  | "percentile" => return xj (npPercentile (← xvalsF j "vals") (← ratF j "q"))
  | "promotable" =>
    return optBoolJ (isPromotable? (← xvalF j "value") (← xvalsF j "competing") (← natF j "eta") (← parseDir (← field j "dir")))
  | "currentRung" =>
    return (currentRung ((← natsF j "keys").map (fun k => (k, XVal.fin 0))) : Nat)
  | "nanmin" => return xj (nanMin (← xvalsF j "vals"))
  | "nanmax" => return xj (nanMax (← xvalsF j "vals"))
  | f => throw s!"unknown fn {f}"

def parseOp (j : Json) : P (Op × (Nat → Nat)) := do
  match (← strF j "op") with
  | "ask" => return (.ask, fun _ => 0)
  | "report" => return (.report (← natF j "n") (← intF j "step") (← xvalF j "v"), fun _ => 0)
  | "tell" => return (.tell (← natF j "n") (← parseState (← field j "state")), fun _ => 0)
  | "shouldPrune" =>
    let crcs ← match optF j "crc" with
      | none => pure []
      | some v => mapM' (fun x => x.getNat?) (← v.getArr?).toList
    return (.shouldPrune (← natF j "n") (← parsePruner (← field j "pruner")), fun i => crcs.getD i 0)
  | s => throw s!"unknown op {s}"

def errName : Option ReportErr → Json
  | none => Json.null
  | some .notImplemented => "NotImplementedError"
  | some .typeError => "TypeError"
  | some .valueError => "ValueError"
  | some .storageError => "StorageError"

def reportGlue (j : Json) : P Json := do
  let nd ← natF j "ndirs"
  let inter ← mapM' (fun p => do
    match (← p.getArr?).toList with
    | [a, b] => return ((← a.getInt?), (← parseXVal b))
    | _ => throw "pair expected") (← arrF j "inter")
  let st ← parseState (← field j "state")
  let value ← match optF j "value" with
    | none => pure none
    | some v => if v.isNull then pure none else do pure (some (← parseXVal v))
  let stp ← match optF j "step" with
    | none => pure none
    | some v => if v.isNull then pure none else do pure (some (← v.getInt?))
  let ok ← boolF j "storageOk"
  let o : TrialObj := ⟨nd, ⟨st, inter, []⟩⟩
  let h := reportTrial o value stp ok
  let g := OptunaVerif.ReportIR.interpReport OptunaVerif.Generated.ReportMethods.report o value stp ok
  let pairs := fun (l : List (Int × XVal)) => Json.arr (l.map (fun p => Json.arr #[(p.1 : Json), xj p.2])).toArray
  let gen : Json := match g with
    | .ok r => if r == h then Json.null else Json.mkObj [("inter", pairs r.obj.cached.inter), ("writes", pairs r.writes), ("warned", r.warned), ("err", errName r.err)]
    | .error _ => Json.mkObj [("raised", "interpreter error")]
  return Json.mkObj [("inter", pairs h.obj.cached.inter), ("writes", pairs h.writes), ("warned", h.warned), ("err", errName h.err), ("gen", gen)]

/-- `Trial.should_prune` on one trial object with a recording pruner: it answers `answer` and, when `rebind`, rebinds attributes of the
trial it was handed (`trial.intermediate_values = {}; trial.state = PRUNED`). -/
def pruneGlue (j : Json) : P Json := do
  let nd ← natF j "ndirs"
  let inter ← mapM' (fun p => do
    match (← p.getArr?).toList with
    | [a, b] => return ((← a.getInt?), (← parseXVal b))
    | _ => throw "pair expected") (← arrF j "inter")
  let st ← parseState (← field j "state")
  let answer ← boolF j "answer"
  let rebind ← boolF j "rebind"
  let o : TrialObj := ⟨nd, ⟨st, inter, []⟩⟩
  let prunerF : PTrial → Bool × PTrial := fun t => (answer, if rebind then { t with inter := [], state := .pruned } else t)
  let h := shouldPruneTrial o prunerF
  let g := OptunaVerif.ReportIR.interpShouldPrune OptunaVerif.Generated.ReportMethods.shouldPrune
    OptunaVerif.Generated.ReportMethods.reportProg.latestIsCopy o prunerF
  let pairs := fun (l : List (Int × XVal)) => Json.arr (l.map (fun p => Json.arr #[(p.1 : Json), xj p.2])).toArray
  let show1 := fun (r : TrialObj × Option Bool) =>
    [("out", optBoolJ r.2), ("inter", pairs r.1.cached.inter), ("state", (r.1.cached.state.code : Json))]
  let gen : Json := match g with
    | .ok r => if r == h then Json.null else Json.mkObj (show1 r)
    | .error _ => Json.mkObj [("raised", "interpreter error")]
  return Json.mkObj (show1 h ++ [("handed", pairs o.cached.inter), ("gen", gen)])

def handle (s : Study) (j : Json) : Study × Json :=
  match j.getObjVal? "op" with
  | .ok (Json.str "reset") =>
    match (field j "dir" >>= parseDir) with
    | .ok d => (Study.init d, Json.mkObj [("k", "reset")])
    | .error e => (s, Json.mkObj [("k", "bad-op"), ("why", e)])
  | .ok (Json.str "dump") => (s, Json.mkObj [("trials", Json.arr (s.trials.map trialJson).toArray)])
  | .ok (Json.str "fn") =>
    match fnCall j with
    | .ok r => (s, Json.mkObj [("r", r)])
    | .error e => (s, Json.mkObj [("k", "bad-op"), ("why", e)])
  | .ok (Json.str "reportglue") =>
    match reportGlue j with
    | .ok r => (s, r)
    | .error e => (s, Json.mkObj [("k", "bad-op"), ("why", e)])
  | .ok (Json.str "pruneglue") =>
    match pruneGlue j with
    | .ok r => (s, r)
    | .error e => (s, Json.mkObj [("k", "bad-op"), ("why", e)])
  | _ =>
    match parseOp j with
    | .error e => (s, Json.mkObj [("k", "bad-op"), ("why", e)])
    | .ok (op, crc) =>
      let (s', out) := step crc s op
      let (sg, outg) := OptunaVerif.ReportIR.stepG OptunaVerif.Generated.ReportMethods.reportProg crc s op
      let gen : Json := if sg.trials == s'.trials && outg == out then Json.null
        else Json.mkObj [("hand", Json.mkObj [("out", optBoolJ out), ("trials", Json.arr (s'.trials.map trialJson).toArray)]),
                         ("generated", Json.mkObj [("out", optBoolJ outg), ("trials", Json.arr (sg.trials.map trialJson).toArray)])]
      let extra : List (String × Json) :=
        match op with
        | .shouldPrune n p =>
          match s.trials[n]? with
          | some t => [("why", Json.mkObj (explain crc s n t p))]
          | none => []
        | _ => []
      (s', Json.mkObj ([("out", optBoolJ out), ("gen", gen)] ++ extra))

/-- entry point: `driver pruners` -/
def main : IO Unit := Driver.lineLoop handle (Study.init .minimize)

end Driver.Sub.Pruners
