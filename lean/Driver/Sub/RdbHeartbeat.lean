import Driver.Util
import Driver.Sub.Storage
import Driver.Sub.RdbLogic
import OptunaVerif.Model.RdbHeartbeat
/-! Sub-driver `rdbheartbeat`: the relational model of the heartbeat side of `RDBStorage`
(`Model/RdbHeartbeat.lean`) behind the line protocol (C19, tie of verif/props/c19_rdb.py).

Requests (`"cmd"`): `reset` (parameters of the storage / callback, number of workers, study id),
`call` (a `BaseStorage` call, op encoding of the `storage` sub-driver), `beat`, `tick`, `setNow`,
`poke` (harness-side `UPDATE trial_heartbeats SET heartbeat = … WHERE trial_id = …`), `stale` (the stale query
alone), `sweep` (one storage call of a worker's `fail_stale_trials`), `sweepCall` (one whole call), `sweepCallPreview` (the same without changing the state), `die`.
With `"dump":true` the answer carries every table; `trial_heartbeats` rows are `[id, trial_id, heartbeat µs]`.
Timestamps are integers (µs on the harness's virtual database clock). -/
open Lean
namespace Driver.Sub.RdbHeartbeat
open OptunaVerif OptunaVerif.Storage OptunaVerif.Rdb OptunaVerif.RdbHb Driver

structure St where
  P : Params
  c : Cfg

def natJ (n : Nat) : Json := (n : Json)
def intJ (n : Int) : Json := Json.num (JsonNumber.fromInt n)
def natsJson (l : List Nat) : Json := Json.arr (l.map natJ).toArray

def tablesJson (s : HState) : Json :=
  (Driver.Sub.RdbLogic.tablesJson s.db).setObjVal! "trial_heartbeats"
    (Json.arr (s.db.beats.map (fun r => Json.arr #[natJ r.id, natJ r.owner, optJson intJ (stampOf s.stamps r.id)])).toArray)

def tmplJson (t : Template) : Json :=
  Json.mkObj [
    ("state", t.state.code),
    ("values", optJson (fun l => Json.arr (l.map (fun v => Json.str (showXVal v))).toArray) t.values),
    ("params", Json.arr (t.params.map (fun p => Json.arr #[Json.str p.1, Json.mkObj [("internal", p.2.internal), ("body", p.2.dist.body)]])).toArray),
    ("user", Json.arr (t.userAttrs.map (fun p => Json.arr #[Json.str p.1, Json.str p.2])).toArray),
    ("system", Json.arr (t.systemAttrs.map (fun p => Json.arr #[Json.str p.1, Json.str p.2])).toArray),
    ("inter", Json.arr (t.inter.map (fun p => Json.arr #[intJ p.1, Json.str (showXVal p.2)])).toArray),
    ("start", t.hasStart), ("complete", t.hasComplete)]

def phaseJson : Phase → Json
  | .idle => Json.mkObj [("p", "idle")]
  | .failing todo won => Json.mkObj [("p", "failing"), ("todo", natsJson todo), ("won", natsJson won)]
  | .calling todo => Json.mkObj [("p", "calling"), ("todo", natsJson todo)]
  | .enqueue t snap todo => Json.mkObj [("p", "enqueue"), ("t", natJ t), ("snap", Driver.Sub.Storage.trialJson t snap), ("todo", natsJson todo)]
  | .dead => Json.mkObj [("p", "dead")]

def eventJson : Event → Json
  | .read w ids => Json.mkObj [("e", "read"), ("w", natJ w), ("ids", natsJson ids)]
  | .won w t => Json.mkObj [("e", "won"), ("w", natJ w), ("t", natJ t)]
  | .lost w t => Json.mkObj [("e", "lost"), ("w", natJ w), ("t", natJ t)]
  | .callback w t b => Json.mkObj [("e", "callback"), ("w", natJ w), ("t", natJ t), ("retry", b)]
  | .enqueued w t n tmpl => Json.mkObj [("e", "enqueued"), ("w", natJ w), ("t", natJ t), ("n", natJ n), ("tmpl", tmplJson tmpl)]
  | .raised w what => Json.mkObj [("e", "raised"), ("w", natJ w), ("what", what)]

def wantDump (j : Json) : Bool := (fieldD j "dump" (Json.bool false)).getBool?.toOption.getD false

def optInt (j : Json) (k : String) : P (Option Int) :=
  match optF j k with
  | none => pure none
  | some v => do pure (some (← v.getInt?))

def bad (s : St) (e : String) : St × Json := (s, Json.mkObj [("k", "bad-op"), ("why", e)])

/-- the events logged by the step from `c` to `c'`, oldest first -/
def newEvents (c c' : Cfg) : List Event := (c'.events.take (c'.events.length - c.events.length)).reverse

def reply (j : Json) (s : St) (c' : Cfg) (fields : List (String × Json)) : St × Json :=
  ({ s with c := c' }, Json.mkObj (if wantDump j then fields ++ [("tables", tablesJson c'.hs)] else fields))

def staleJson (P : Params) (c : Cfg) : Json :=
  match getStaleTrialIds c.hs c.now P.hbInterval P.gracePeriod P.sid with
  | .ok ids => Json.mkObj [("ok", natsJson ids)]
  | .error f => Json.mkObj [("crash", RdbHb.failName f)]

def handle (s : St) (j : Json) : St × Json :=
  match strF j "cmd" with
  | .error e => bad s e
  | .ok "reset" =>
    match (do
      let P : Params := { sid := ← natF j "sid", hbInterval := ← intF j "hbInterval", gracePeriod := ← optInt j "grace",
                          hasCb := ← boolF j "hasCb", cb := { maxRetry := ← optInt j "maxRetry", inherit := ← boolF j "inherit" },
                          codec := jsonCodec }
      return (P, ← natF j "workers", ← intF j "now") : P (Params × Nat × Int)) with
    | .error e => bad s e
    | .ok (P, n, now) =>
      ({ P := P, c := { RdbHb.init n with now := now } },
        Json.mkObj [("k", "reset"),
          ("rejected", Json.bool (Generated.StaleGen.heartbeatIntervalRejected (some P.hbInterval) || Generated.StaleGen.gracePeriodRejected P.gracePeriod)),
          ("grace", intJ (Generated.StaleGen.effectiveGrace P.hbInterval P.gracePeriod))])
  | .ok "call" =>
    match (do Driver.Sub.Storage.parseOp (← field j "op") : P Op) with
    | .error e => bad s e
    | .ok op =>
      reply j s (step s.P s.c (.call op)) [("k", "call"), ("out", Driver.Sub.RdbLogic.resJson (Rdb.step s.c.hs.db op).2)]
  | .ok "beat" =>
    match natF j "tid" with
    | .error e => bad s e
    | .ok tid =>
      reply j s (step s.P s.c (.beat tid)) [("k", "beat"), ("out", Driver.Sub.RdbLogic.resJson (recordHeartbeat s.c.hs s.c.now tid).2)]
  | .ok "tick" =>
    match natF j "d" with
    | .error e => bad s e
    | .ok d => reply j s (step s.P s.c (.tick d)) [("k", "tick"), ("now", intJ (s.c.now + d))]
  | .ok "setNow" =>
    match intF j "now" with
    | .error e => bad s e
    | .ok t => reply j s { s.c with now := t } [("k", "setNow")]
  | .ok "poke" =>
    -- harness-side SQL: UPDATE trial_heartbeats SET heartbeat = ts WHERE trial_id = tid
    match (do return (← natF j "tid", ← intF j "ts") : P (Nat × Int)) with
    | .error e => bad s e
    | .ok (tid, ts) =>
      let st' := (Tbl.ofOwner s.c.hs.db.beats tid).foldl (fun st b => setStamp st b.id ts) s.c.hs.stamps
      reply j s { s.c with hs := { s.c.hs with stamps := st' } }
        [("k", "poke"), ("rows", natJ (Tbl.ofOwner s.c.hs.db.beats tid).length)]
  | .ok "stale" => reply j s s.c [("k", "stale"), ("ids", staleJson s.P s.c)]
  | .ok "sweep" =>
    match natF j "w" with
    | .error e => bad s e
    | .ok w =>
      let c' := step s.P s.c (.sweep w)
      reply j s c' [("k", "sweep"), ("events", Json.arr ((newEvents s.c c').map eventJson).toArray),
        ("phase", optJson phaseJson c'.workers[w]?)]
  | .ok "sweepCall" =>
    match natF j "w" with
    | .error e => bad s e
    | .ok w =>
      let c' := failStaleTrials s.P s.c w
      reply j s c' [("k", "sweepCall"), ("events", Json.arr ((newEvents s.c c').map eventJson).toArray),
        ("phase", optJson phaseJson c'.workers[w]?)]
  | .ok "sweepCallPreview" =>
    -- what one whole `fail_stale_trials` of worker `w` would log from here (the state is not changed)
    match natF j "w" with
    | .error e => bad s e
    | .ok w =>
      let c' := failStaleTrials s.P s.c w
      (s, Json.mkObj [("k", "sweepCallPreview"), ("events", Json.arr ((newEvents s.c c').map eventJson).toArray),
        ("phase", optJson phaseJson c'.workers[w]?)])
  | .ok "die" =>
    match natF j "w" with
    | .error e => bad s e
    | .ok w => reply j s (step s.P s.c (.die w)) [("k", "die")]
  | .ok "dump" => reply (j.setObjVal! "dump" (Json.bool true)) s s.c [("k", "dump"), ("now", intJ s.c.now),
      ("workers", Json.arr (s.c.workers.map phaseJson).toArray)]
  | .ok c => bad s s!"unknown cmd {c}"

def main : IO Unit :=
  Driver.lineLoop handle
    { P := { sid := 0, hbInterval := 1, gracePeriod := none, hasCb := false, cb := { maxRetry := none, inherit := false }, codec := jsonCodec },
      c := RdbHb.init 0 }

end Driver.Sub.RdbHeartbeat
