import Driver.Util
import Driver.Sub.Storage
import OptunaVerif.Model.RdbLogic
/-! Sub-driver `rdblogic`: the relational model of `RDBStorage` behind the line protocol (C01).
Requests are the ones of the `storage` sub-driver (same op encoding; the `implRaised` hints are ignored),
plus `{"op":"recordHeartbeat","tid":…}` and `{"op":"getTrials",…}`; with `"dump":true` the answer carries
every table (rows as arrays in column order, primary-key order). -/
open Lean
namespace Driver.Sub.RdbLogic
open OptunaVerif OptunaVerif.Storage OptunaVerif.Rdb Driver

def failName : Fail → String
  | .api e => Driver.Sub.Storage.errName e
  | .multipleRows => "MultipleResultsFound"
  | .assertion => "AssertionError"
  | .indexError => "IndexError"

def resJson : Res → Json
  | .out o => Driver.Sub.Storage.outJson o
  | .crash f => Json.mkObj [("k", "crash"), ("f", failName f)]

def natJ (n : Nat) : Json := (n : Json)
def optX (v : Option XVal) : Json := optJson (fun x => Json.str (showXVal x)) v

def krows {κ ν : Type} (t : List (KRow κ ν)) (f : KRow κ ν → List Json) : Json :=
  Json.arr (t.map (fun r => Json.arr ([natJ r.id, natJ r.owner] ++ f r).toArray)).toArray

def tablesJson (s : State) : Json :=
  Json.mkObj [
    ("studies", Json.arr (s.studies.map (fun r => Json.arr #[natJ r.id, Json.str r.name])).toArray),
    ("study_directions", krows s.dirs (fun r => [natJ r.key, natJ r.val])),
    ("study_user_attributes", krows s.sUser (fun r => [Json.str r.key, Json.str r.val])),
    ("study_system_attributes", krows s.sSys (fun r => [Json.str r.key, Json.str r.val])),
    ("trials", Json.arr (s.trials.map (fun r => Json.arr #[natJ r.id, natJ r.number, natJ r.study,
        natJ r.state.code, Json.bool r.hasStart, Json.bool r.hasComplete])).toArray),
    ("trial_params", krows s.params (fun r => [Json.str r.key, Json.str r.val.internal, Json.str r.val.dist.body])),
    ("trial_values", krows s.values (fun r => [natJ r.key, optX r.val.1, Json.str r.val.2.pyName])),
    ("trial_intermediate_values", krows s.inters (fun r => [Json.num (JsonNumber.fromInt r.key), optX r.val.1, Json.str r.val.2.pyName])),
    ("trial_user_attributes", krows s.tUser (fun r => [Json.str r.key, Json.str r.val])),
    ("trial_system_attributes", krows s.tSys (fun r => [Json.str r.key, Json.str r.val])),
    ("trial_heartbeats", krows s.beats (fun _ => []))]

def wantDump (j : Json) : Bool := (fieldD j "dump" (Json.bool false)).getBool?.toOption.getD false

def answer (j : Json) (s' : State) (r : Res) : State × Json :=
  let base := [("out", resJson r)]
  (s', Json.mkObj (if wantDump j then base ++ [("tables", tablesJson s')] else base))

def handle (s : State) (j : Json) : State × Json :=
  match j.getObjVal? "op" with
  | .ok (Json.str "reset") => (Rdb.init, Json.mkObj [("k", "reset")])
  | .ok (Json.str "recordHeartbeat") =>
    match natF j "tid" with
    | .error e => (s, Json.mkObj [("k", "bad-op"), ("why", e)])
    | .ok tid => let (s', r) := recordHeartbeat s tid; answer j s' r
  | .ok (Json.str "getTrials") =>
    -- `_get_trials(study_id, states, included_trial_ids, trial_id_greater_than)` (used by `_CachedStorage`)
    match (do
      let sid ← natF j "sid"
      let states ← Driver.Sub.Storage.parseStates j
      let inc ← mapM' (fun d => d.getNat?) (← arrF j "included")
      let gt ← intF j "greaterThan"
      pure (sid, states, inc, gt) : P _) with
    | .error e => (s, Json.mkObj [("k", "bad-op"), ("why", e)])
    | .ok (sid, states, inc, gt) =>
      let (s', r) := commit s (ro s ((getTrials s sid states inc gt).map .trials))
      answer j s' r
  | _ =>
    match Driver.Sub.Storage.parseOp j with
    | .error e => (s, Json.mkObj [("k", "bad-op"), ("why", e)])
    | .ok op => let (s', r) := step s op; answer j s' r

/-- entry point: `driver rdblogic` -/
def main : IO Unit := Driver.lineLoop handle Rdb.init

end Driver.Sub.RdbLogic
