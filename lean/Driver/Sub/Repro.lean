import Driver.Util
import OptunaVerif.Model.Repro
import OptunaVerif.Model.GACache
import OptunaVerif.Generated.GaMethods
/-! Sub-driver `repro` (C09): runs the Lean optimisation-loop model on an objective program with a
*replay* sampler/pruner (the values the real sampler produced and the answers the real pruner gave,
as observed on the implementation), on the storage contract model with a requested id offset and on
the canonical id-free storage; and evaluates the GA parent-cache model. -/
open Lean
namespace Driver.Sub.Repro
open OptunaVerif OptunaVerif.Storage OptunaVerif.Repro Driver

/-! ### objective programs as data (decoded from the harness' JSON) -/

inductive Expr where
  | lit (v : XVal) | param (name : String) | scale (e : Expr) (k : Int) | neg (e : Expr)
deriving Inhabited

inductive Cond where
  | lt (name : String) (thr : XVal) | eq (name : String) (thr : XVal) | numLt (n : Nat)
deriving Inhabited

inductive Stmt where
  | suggest (name : String) (d : Dist)
  | ite (c : Cond) (t e : List Stmt)
  | report (step : Int) (e : Expr)
  | reportCheck (step : Int) (e : Expr)
  | attr (key : String) (e : Expr)
  | raise | prune
  | ret (es : List Expr)
deriving Inhabited

def pow2 (k : Int) : Rat := if k ≥ 0 then ((2 : Rat) ^ k.toNat) else 1 / ((2 : Rat) ^ (-k).toNat)

def envVal (env : AList String) (name : String) : XVal :=
  match env.get? name with
  | some t => match parseXVal (Json.str t) with
    | .ok v => v
    | .error _ => .fin 0
  | none => .fin 0

def evalExpr (env : AList String) : Expr → XVal
  | .lit v => v
  | .param n => envVal env n
  | .scale e k => match evalExpr env e with
    | .fin q => .fin (q * pow2 k)
    | v => v
  | .neg e => match evalExpr env e with
    | .fin q => .fin (-q)
    | .pinf => .ninf
    | .ninf => .pinf
    | .nan => .nan

def xlt : XVal → XVal → Bool
  | .nan, _ => false | _, .nan => false
  | .fin a, .fin b => a < b
  | .ninf, .ninf => false | .ninf, _ => true
  | _, .ninf => false
  | .pinf, _ => false
  | .fin _, .pinf => true

def evalCond (env : AList String) (number : Nat) : Cond → Bool
  | .lt n thr => xlt (envVal env n) thr
  | .eq n thr => envVal env n == thr && thr != .nan
  | .numLt k => number < k

/-- Sequential statements with early return, in continuation-passing style. -/
partial def compile (number : Nat) : List Stmt → (AList String → Prog) → AList String → Prog
  | [], k, env => k env
  | .suggest name d :: rest, k, env => .suggest name d (fun v => compile number rest k (env.set name v))
  | .ite c t e :: rest, k, env =>
    compile number (if evalCond env number c then t else e) (fun env' => compile number rest k env') env
  | .report s e :: rest, k, env => .report s (evalExpr env e) (compile number rest k env)
  | .reportCheck s e :: rest, k, env =>
    .report s (evalExpr env e) (.shouldPrune (fun b => if b then .prune else compile number rest k env))
  | .attr key e :: rest, k, env => .setUserAttr key (showXVal (evalExpr env e)) (compile number rest k env)
  | .raise :: _, _, _ => .fail
  | .prune :: _, _, _ => .prune
  | .ret es :: _, _, env => .ret (es.map (evalExpr env))

/-! ### JSON decoding -/

def parseDist (j : Json) : P Dist := do
  return { kind := ← natF j "kind", log := ← boolF j "log", body := ← strF j "body" }

partial def parseExpr (j : Json) : P Expr := do
  match (← j.getArr?).toList with
  | [Json.str "lit", v] => return .lit (← parseXVal v)
  | [Json.str "p", n] => return .param (← n.getStr?)
  | [Json.str "scale", e, k] => return .scale (← parseExpr e) (← k.getInt?)
  | [Json.str "neg", e] => return .neg (← parseExpr e)
  | _ => throw s!"bad expr {j.compress}"

def parseCond (j : Json) : P Cond := do
  match (← j.getArr?).toList with
  | [Json.str "lt", n, t] => return .lt (← n.getStr?) (← parseXVal t)
  | [Json.str "eq", n, t] => return .eq (← n.getStr?) (← parseXVal t)
  | [Json.str "numlt", k] => return .numLt (← k.getNat?)
  | _ => throw s!"bad cond {j.compress}"

partial def parseStmt (j : Json) : P Stmt := do
  match (← j.getArr?).toList with
  | [Json.str "suggest", n, d] => return .suggest (← n.getStr?) (← parseDist d)
  | [Json.str "if", c, t, e] =>
    return .ite (← parseCond c) (← mapM' parseStmt (← t.getArr?).toList) (← mapM' parseStmt (← e.getArr?).toList)
  | [Json.str "report", s, e] => return .report (← s.getInt?) (← parseExpr e)
  | [Json.str "reportcheck", s, e] => return .reportCheck (← s.getInt?) (← parseExpr e)
  | [Json.str "attr", k, e] => return .attr (← k.getStr?) (← parseExpr e)
  | [Json.str "raise"] => return .raise
  | [Json.str "prune"] => return .prune
  | [Json.str "ret", es] => return .ret (← mapM' parseExpr (← es.getArr?).toList)
  | _ => throw s!"bad stmt {j.compress}"

/-! ### the replay sampler/pruner -/

structure Replay where
  oracle : List (AList String × List Bool)
  pidx : Nat

def replayAlgo : Algo Replay where
  beforeTrial := fun r _ _ => ({ r with pidx := 0 }, [])
  sample := fun r _ cur name _ =>
    (r, [], ((r.oracle[cur.number]?).bind (fun o => o.1.get? name)).getD "0/1")
  prune := fun r _ cur =>
    ({ r with pidx := r.pidx + 1 }, [], ((r.oracle[cur.number]?).bind (fun o => o.2[r.pidx]?)).getD false)
  afterTrial := fun r _ _ _ _ => (r, [])
  reseed := fun r => r

def parseOracle (j : Json) : P (AList String × List Bool) := do
  let ps ← parsePairs (fun v => v.getStr?) (← field j "params")
  let bs ← mapM' (fun b => b.getBool?) (← arrF j "prunes")
  return (ps, bs)

/-! ### output -/

def trialJson (t : TrialS) : Json :=
  Json.mkObj [
    ("number", t.number), ("state", t.state.code),
    ("values", optJson (fun l => Json.arr (l.map (fun v => Json.str (showXVal v))).toArray) t.values),
    ("params", objOfAList (fun (p : Param) => Json.str p.internal) t.params),
    ("dists", objOfAList (fun (p : Param) => Json.str p.dist.body) t.params),
    ("inter", Json.mkObj (t.inter.map (fun p => (toString p.1, Json.str (showXVal p.2))))),
    ("user", objOfAList Json.str t.userAttrs)]

def viewJson (v : View) : Json := Json.arr (v.trials.map trialJson).toArray

/-- a trial queued with `Study.enqueue_trial` -/
def waitingTmpl : Template :=
  { state := .waiting, values := none, params := [], userAttrs := [], systemAttrs := [("fixed_params", "*")],
    inter := [], hasStart := false, hasComplete := false }

/-- `k` other studies with `j` trials each, then the study under test with `w` queued trials. -/
def prepare (k j w : Nat) (name : String) (dirs : List Nat) : Spec :=
  let s := (List.range k).foldl (fun s i =>
    let s1 := (step s (.createStudy s!"pre_{i}" [1])).1
    (List.range j).foldl (fun s _ => (step s (.createTrial i none false)).1) s1) Storage.init
  let s := (step s (.createStudy name dirs)).1
  (List.range w).foldl (fun s _ => (step s (.createTrial k (some waitingTmpl) false)).1) s

def runOp (j : Json) : P Json := do
  let name ← strF j "name"
  let dirs ← mapM' (fun d => d.getNat?) (← arrF j "dirs")
  let stmts ← mapM' parseStmt (← arrF j "prog")
  let calls ← mapM' (fun d => d.getNat?) (← arrF j "calls")
  let ir ← boolF j "ir"
  let k ← natF j "pre_studies"
  let jj ← natF j "pre_trials"
  let oracle ← mapM' parseOracle (← arrF j "oracle")
  let obj : Nat → Prog := fun number => compile number stmts (fun _ => .ret [.fin 0]) []
  let r0 : Replay := { oracle := oracle, pidx := 0 }
  let w := (fieldD j "pre_waiting" (0 : Nat)).getNat?.toOption.getD 0
  let s0 := prepare k jj w name dirs
  let sid := k
  let v0 : View := ⟨⟨name, dirs, [], [], []⟩, (List.range w).map (fun i => mkTrial 0 i (some waitingTmpl))⟩
  let sp : Spec := (runCalls (specStore sid ir) replayAlgo obj false calls s0 r0).1
  let vw : View := (runCalls (viewStore ir) replayAlgo obj false calls v0 r0).1
  let one : View := (runTrials (viewStore ir) replayAlgo obj (calls.foldl (· + ·) 0) v0 r0).1
  let spv := specView sid sp
  return Json.mkObj [
    ("view", viewJson vw),
    ("spec_equals_view", spv == some vw),
    ("split_equals_single", one == vw),
    ("ids", Json.arr ((sp.trialsOf sid).map (fun p => (p.1 : Json))).toArray)]

def gaOp (j : Json) : P Json := do
  let ids ← mapM' (fun d => d.getNat?) (← arrF j "ids")
  let parents ← mapM' (fun d => d.getNat?) (← arrF j "parents")
  let mode ← strF j "mode"
  let trials : List GACache.T := ids.zipIdx.map (fun p => ⟨p.1, p.2⟩)
  let ps := parents.filterMap (fun n => trials[n]?)
  let w := if mode == "numbers" then GACache.writeNumbers ps else GACache.writeIds ps
  let rd := GACache.read trials w
  return Json.mkObj [
    ("write", Json.arr (w.map (fun (n : Nat) => (n : Json))).toArray),
    ("read", optJson (fun l => Json.arr (l.map (fun (t : GACache.T) => (t.number : Json))).toArray) rd)]

/-- `gamethods`: the generated `get_trial_generation` / `get_population` / `get_parent_population` (interpreter of
`Generated/GaMethods.lean`) beside the hand model on one concrete study:
request  {"op":"gamethods","trials":[[id,number,gen|null,state]..],"cur":index,"pop":n,"g":g,"parents":[number..]}
answer   {"generation":g,"writes":[[id,g]..],"population":[number..],"first":[number..],"stored":[int..],
          "second":[number..]|null (IndexError),"gen":null|{..first difference between interpreter and hand model..}} -/
def gaMethodsOp (j : Json) : P Json := do
  let trials ← mapM' (fun t => do
    match (← t.getArr?).toList with
    | [i, n, g, st] =>
      let gen ← if g.isNull then pure none else do pure (some (← g.getNat?))
      return (⟨← i.getNat?, ← n.getNat?, gen, ← parseState st⟩ : GACache.GT)
    | _ => throw "trial = [id, number, gen|null, state] expected") (← arrF j "trials")
  let curIdx ← natF j "cur"
  let pop ← natF j "pop"
  let g ← natF j "g"
  let parents ← mapM' (fun d => d.getNat?) (← arrF j "parents")
  let cur := trials.getD curIdx default
  let ps := parents.filterMap (fun n => trials[n]?)
  let nums := fun (l : List GACache.GT) => Json.arr (l.map (fun t => (t.number : Json))).toArray
  let natsJ := fun (l : List Nat) => Json.arr (l.map (fun (n : Nat) => (n : Json))).toArray
  -- hand model
  let hg := GACache.trialGeneration pop trials cur
  let hpop := GACache.population trials g
  let h1 := GACache.parentPopulation (fun _ s => (ps, s)) trials [] g
  let h2 := GACache.parentPopulation (fun _ s => (ps, s)) trials h1.2 g
  -- interpreter of the generated methods
  let P := OptunaVerif.Generated.GaMethods.gaProg
  let ig := OptunaVerif.GaIR.interpTrialGeneration P.getTrialGeneration (some pop) trials cur
  let ipop := OptunaVerif.GaIR.interpPopulation P.getPopulation trials g
  let i1 := OptunaVerif.GaIR.interpParentPopulation P.getParentPopulation (fun _ s => .ok (ps, s)) trials [] g
  let i2 := match i1 with
    | .ok (_, st1) => OptunaVerif.GaIR.interpParentPopulation P.getParentPopulation (fun _ s => .ok (ps, s)) trials st1 g
    | .error e => .error e
  let okG := match ig with
    | .ok (gv, ws) => gv == hg.1 && ws == hg.2.toList
    | .error _ => false
  let okP := match ipop with
    | .ok l => l == hpop
    | .error _ => false
  let ok1 := match i1 with
    | .ok (l, st) => some l == h1.1 && st == h1.2
    | .error _ => h1.1.isNone
  let ok2 := match i2 with
    | .ok (l, st) => some l == h2.1 && st == h2.2
    | .error _ => h2.1.isNone
  let gen : Json := if okG && okP && ok1 && ok2 then Json.null
    else Json.mkObj [("generation_agrees", okG), ("population_agrees", okP), ("first_call_agrees", ok1), ("second_call_agrees", ok2)]
  return Json.mkObj [
    ("generation", (hg.1 : Json)),
    ("writes", Json.arr (hg.2.toList.map (fun w => Json.arr #[(w.1 : Json), (w.2 : Json)])).toArray),
    ("population", nums hpop),
    ("first", optJson nums h1.1),
    ("stored", natsJ ((GACache.Store.get? h1.2 g).getD [])),
    ("second", optJson nums h2.1),
    ("gen", gen)]

def handle (j : Json) : Json :=
  let r : P Json := do
    match ← strF j "op" with
    | "run" => runOp j
    | "gacache" => gaOp j
    | "gamethods" => gaMethodsOp j
    | o => throw s!"unknown op {o}"
  match r with
  | .ok v => v
  | .error e => Json.mkObj [("k", "bad-op"), ("why", e)]

/-- entry point: `driver repro` -/
def main : IO Unit := Driver.lineMap handle

end Driver.Sub.Repro
