import Driver.Util
import OptunaVerif.Model.SearchSpace
import OptunaVerif.Generated.SearchSpaceMethods
/-! Sub-driver `searchspace`: the search-space models behind the line protocol (C17).

Stateful ops drive one `Sys` (trials of one study + one intersection calculator + one group calculator):
`reset`, `create`, `setParam`, `setState`, `callI`, `callForeign`, `callG` (any of them with `"dump":true`
also returns the model's trial list).  Stateless ops evaluate the pure functions on given arguments:
`scratch` (`intersection_search_space`), `calcRaw` (`_calculate`), `add` (`add_distributions`).

Every answer carries `"gen"`: the same step / function evaluated by the interpreter of the methods GENERATED from the
source (`Generated/SearchSpaceMethods.lean`, `Model/SpaceIR.lean`; a second `Sys` is stepped through
`SpaceIR.stepW (genImpl …)`) — `null` when it agrees with the hand model on the answer and on the whole state (trials,
calculator attributes, groups), else both sides.  `reset` and the stateless ops accept `"single":[tok..]`, the tokens whose
distribution answers `single() == True`. -/
open Lean
namespace Driver.Sub.SearchSpace
open OptunaVerif OptunaVerif.SearchSpace OptunaVerif.SpaceIR Driver
open OptunaVerif.Generated

structure St where
  sid : Nat
  sys : Sys
  /-- the same history through the interpreter of the generated calculators -/
  gsys : Sys
  singles : List Nat

def genImplOf (singles : List Nat) : Impl :=
  genImpl SearchSpaceMethods.interProg SearchSpaceMethods.groupProg (fun tok => singles.contains tok)

def singlesOf (j : Json) : List Nat :=
  match optF j "single" with
  | some v => match v.getArr? with
    | .ok a => a.toList.filterMap (fun x => x.getNat?.toOption)
    | .error _ => []
  | none => []

def parseDists (j : Json) : P Dists := do
  mapM' (fun p => do
    match (← p.getArr?).toList with
    | [k, v] => return (← k.getStr?, ← v.getNat?)
    | _ => throw "pair expected") (← j.getArr?).toList

def parseTrial (j : Json) : P Trial := do
  match (← j.getArr?).toList with
  | [n, st, d] => return { number := ← n.getNat?, state := ← parseState st, dists := ← parseDists d }
  | _ => throw "trial = [number, state, dists] expected"

def parseTrials (j : Json) : P (List Trial) := do mapM' parseTrial (← j.getArr?).toList

def distsJson (d : Dists) : Json :=
  Json.arr (d.map (fun p => Json.arr #[Json.str p.1, (p.2 : Json)])).toArray

def optDistsJson : Option Dists → Json
  | none => Json.null
  | some d => distsJson d

def trialJson (t : Trial) : Json := Json.arr #[(t.number : Json), (t.state.code : Json), distsJson t.dists]

def groupsJson (g : List Dists) : Json := Json.arr (g.map distsJson).toArray

def outJson : Out → Json
  | .ok => Json.mkObj [("k", "ok")]
  | .rejected => Json.mkObj [("k", "rejected")]
  | .valueError => Json.mkObj [("k", "valueError")]
  | .result d => Json.mkObj [("k", "result"), ("d", distsJson d)]
  | .groups g => Json.mkObj [("k", "groups"), ("g", groupsJson g)]

def parseStep (j : Json) : P Step := do
  let op ← strF j "op"
  match op with
  | "create" => return .create (← parseState (← field j "state")) (← parseDists (← field j "params"))
  | "setParam" => return .setParam (← natF j "i") (← strF j "name") (← natF j "tok")
  | "setState" => return .setState (← natF j "i") (← parseState (← field j "state"))
  | "callI" => return .callI
  | "callForeign" => return .callForeign (← natF j "sid") (← parseTrials (← field j "trials"))
  | "callG" => return .callG
  | _ => throw s!"unknown op {op}"

def optSpace (j : Json) (k : String) : P (Option Dists) :=
  match optF j k with
  | none => pure none
  | some v => do return some (← parseDists v)

def errName : SpaceIR.Err → String
  | .valueError => "valueError" | .keyError => "keyError" | .typeError => "typeError" | .unrepresentable => "unrepresentable"

def genOf {α : Type} [BEq α] (show_ : α → Json) (hand : α) : Except SpaceIR.Err α → Json
  | .ok g => if g == hand then Json.null else Json.mkObj [("hand", show_ hand), ("generated", show_ g)]
  | .error e => Json.mkObj [("hand", show_ hand), ("generated", Json.mkObj [("raised", errName e)])]

def stateless (j : Json) (op : String) : P Json := do
  match op with
  | "scratch" =>
    let ts ← parseTrials (← field j "trials")
    let ip ← boolF j "ip"
    let h := intersectionSearchSpace ts ip
    return Json.mkObj [("d", distsJson h), ("gen", genOf distsJson h (interpFunctional SearchSpaceMethods.interProg ts ip))]
  | "calcRaw" =>
    let ts ← parseTrials (← field j "trials")
    let ip ← boolF j "ip"
    let sp ← optSpace j "space"
    let c ← intF j "cached"
    let r := calcRaw ts ip sp c
    let pj := fun (x : Option Dists × Int) => Json.mkObj [("space", optDistsJson x.1), ("next", (x.2 : Json))]
    return Json.mkObj [("space", optDistsJson r.1), ("next", (r.2 : Json)),
      ("gen", genOf pj r (interpCalculate SearchSpaceMethods.calculate ts ip sp c))]
  | "add" =>
    let gs ← mapM' parseDists (← arrF j "groups")
    let d ← parseDists (← field j "d")
    let singles := singlesOf j
    let h := addDistributions gs d
    return Json.mkObj [("g", groupsJson h),
      ("gen", genOf groupsJson h (interpAdd SearchSpaceMethods.addDistributions (fun tok => singles.contains tok) gs d))]
  | _ => throw s!"unknown op {op}"

def handle (s : St) (j : Json) : St × Json :=
  match j.getObjVal? "op" with
  | .ok (Json.str "reset") =>
    match natF j "sid", boolF j "ipI", boolF j "ipG" with
    | .ok sid, .ok a, .ok b =>
      let singles := singlesOf j
      ({ sid := sid, sys := Sys.init a b, gsys := initW (genImplOf singles) a b, singles := singles }, Json.mkObj [("k", "reset")])
    | _, _, _ => (s, Json.mkObj [("k", "bad-op"), ("why", "reset needs sid, ipI, ipG")])
  | .ok (Json.str op) =>
    if op == "scratch" || op == "calcRaw" || op == "add" then
      match stateless j op with
      | .ok r => (s, r)
      | .error e => (s, Json.mkObj [("k", "bad-op"), ("why", e)])
    else
      match parseStep j with
      | .error e => (s, Json.mkObj [("k", "bad-op"), ("why", e)])
      | .ok st =>
        let r := step s.sid s.sys st
        let rg := stepW (genImplOf s.singles) s.sid s.gsys st
        let sysJson := fun (x : Sys) => Json.mkObj [("cursor", (x.isp.cursor : Json)), ("space", optDistsJson x.isp.space),
          ("studyId", optJson (fun (n : Nat) => (n : Json)) x.isp.studyId), ("groups", groupsJson x.gsp.groups),
          ("trials", (x.trials.length : Nat))]
        let gen : Json := if rg.2 == r.2 && rg.1 == r.1 then Json.null
          else Json.mkObj [("hand", Json.mkObj [("out", outJson r.2), ("state", sysJson r.1)]),
                           ("generated", Json.mkObj [("out", outJson rg.2), ("state", sysJson rg.1)])]
        let base := [("gen", gen), ("out", outJson r.2), ("cursor", (r.1.isp.cursor : Json)), ("space", optDistsJson r.1.isp.space),
          ("groups", groupsJson r.1.gsp.groups)]
        let withDump := if (fieldD j "dump" (Json.bool false)).getBool?.toOption.getD false
          then base ++ [("trials", Json.arr (r.1.trials.map trialJson).toArray)] else base
        ({ s with sys := r.1, gsys := rg.1 }, Json.mkObj withDump)
  | _ => (s, Json.mkObj [("k", "bad-op"), ("why", "no op")])

/-- entry point: `driver searchspace` -/
def main : IO Unit := Driver.lineLoop handle { sid := 0, sys := Sys.init false false, gsys := Sys.init false false, singles := [] }

end Driver.Sub.SearchSpace
