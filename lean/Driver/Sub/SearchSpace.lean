import Driver.Util
import OptunaVerif.Model.SearchSpace
/-! Sub-driver `searchspace`: the search-space models behind the line protocol (C17).

Stateful ops drive one `Sys` (trials of one study + one intersection calculator + one group calculator):
`reset`, `create`, `setParam`, `setState`, `callI`, `callForeign`, `callG` (any of them with `"dump":true`
also returns the model's trial list).  Stateless ops evaluate the pure functions on given arguments:
`scratch` (`intersection_search_space`), `calcRaw` (`_calculate`), `add` (`add_distributions`). -/
open Lean
namespace Driver.Sub.SearchSpace
open OptunaVerif OptunaVerif.SearchSpace Driver

structure St where
  sid : Nat
  sys : Sys

def parseDists (j : Json) : P Dists := do
  mapM' (fun p => do
    match (← p.getArr?).toList with
    | [k, v] => return (← k.getStr?, ← v.getNat?)
    | _ => throw "pair expected") (← j.getArr?).toList

def parseTrial (j : Json) : P Trial := do
  match (← j.getArr?).toList with
  | [n, st, d] => return { number := ← n.getNat?, state := ← parseState st, dists := ← parseDists d }
  | _ => throw "trial = [number, state, dists] expected"

def parseTrials (j : Json) : P (List Trial) := do mapM' parseTrial (← j.getArr?).toList

def distsJson (d : Dists) : Json :=
  Json.arr (d.map (fun p => Json.arr #[Json.str p.1, (p.2 : Json)])).toArray

def optDistsJson : Option Dists → Json
  | none => Json.null
  | some d => distsJson d

def trialJson (t : Trial) : Json := Json.arr #[(t.number : Json), (t.state.code : Json), distsJson t.dists]

def groupsJson (g : List Dists) : Json := Json.arr (g.map distsJson).toArray

def outJson : Out → Json
  | .ok => Json.mkObj [("k", "ok")]
  | .rejected => Json.mkObj [("k", "rejected")]
  | .valueError => Json.mkObj [("k", "valueError")]
  | .result d => Json.mkObj [("k", "result"), ("d", distsJson d)]
  | .groups g => Json.mkObj [("k", "groups"), ("g", groupsJson g)]

def parseStep (j : Json) : P Step := do
  let op ← strF j "op"
  match op with
  | "create" => return .create (← parseState (← field j "state")) (← parseDists (← field j "params"))
  | "setParam" => return .setParam (← natF j "i") (← strF j "name") (← natF j "tok")
  | "setState" => return .setState (← natF j "i") (← parseState (← field j "state"))
  | "callI" => return .callI
  | "callForeign" => return .callForeign (← natF j "sid") (← parseTrials (← field j "trials"))
  | "callG" => return .callG
  | _ => throw s!"unknown op {op}"

def optSpace (j : Json) (k : String) : P (Option Dists) :=
  match optF j k with
  | none => pure none
  | some v => do return some (← parseDists v)

def stateless (j : Json) (op : String) : P Json := do
  match op with
  | "scratch" =>
    return Json.mkObj [("d", distsJson (intersectionSearchSpace (← parseTrials (← field j "trials")) (← boolF j "ip")))]
  | "calcRaw" =>
    let r := calcRaw (← parseTrials (← field j "trials")) (← boolF j "ip") (← optSpace j "space") (← intF j "cached")
    return Json.mkObj [("space", optDistsJson r.1), ("next", (r.2 : Json))]
  | "add" =>
    let gs ← mapM' parseDists (← arrF j "groups")
    return Json.mkObj [("g", groupsJson (addDistributions gs (← parseDists (← field j "d"))))]
  | _ => throw s!"unknown op {op}"

def handle (s : St) (j : Json) : St × Json :=
  match j.getObjVal? "op" with
  | .ok (Json.str "reset") =>
    match natF j "sid", boolF j "ipI", boolF j "ipG" with
    | .ok sid, .ok a, .ok b => ({ sid := sid, sys := Sys.init a b }, Json.mkObj [("k", "reset")])
    | _, _, _ => (s, Json.mkObj [("k", "bad-op"), ("why", "reset needs sid, ipI, ipG")])
  | .ok (Json.str op) =>
    if op == "scratch" || op == "calcRaw" || op == "add" then
      match stateless j op with
      | .ok r => (s, r)
      | .error e => (s, Json.mkObj [("k", "bad-op"), ("why", e)])
    else
      match parseStep j with
      | .error e => (s, Json.mkObj [("k", "bad-op"), ("why", e)])
      | .ok st =>
        let r := step s.sid s.sys st
        let base := [("out", outJson r.2), ("cursor", (r.1.isp.cursor : Json)), ("space", optDistsJson r.1.isp.space),
          ("groups", groupsJson r.1.gsp.groups)]
        let withDump := if (fieldD j "dump" (Json.bool false)).getBool?.toOption.getD false
          then base ++ [("trials", Json.arr (r.1.trials.map trialJson).toArray)] else base
        ({ s with sys := r.1 }, Json.mkObj withDump)
  | _ => (s, Json.mkObj [("k", "bad-op"), ("why", "no op")])

/-- entry point: `driver searchspace` -/
def main : IO Unit := Driver.lineLoop handle { sid := 0, sys := Sys.init false false }

end Driver.Sub.SearchSpace
