import Driver.Util
import OptunaVerif.Model.Storage
/-! Sub-driver `storage`: the storage contract model behind the line protocol (C01 and friends). -/
open Lean
namespace Driver.Sub.Storage
open OptunaVerif OptunaVerif.Storage Driver

def parseDist (j : Json) : P Dist := do
  return { kind := ← natF j "kind", log := ← boolF j "log", body := ← strF j "body" }

def parseParam (j : Json) : P Param := do
  return { internal := ← strF j "internal", dist := ← parseDist j }

def parseValues (j : Json) (k : String) : P (Option (List XVal)) :=
  match optF j k with
  | none => pure none
  | some v => do return some (← mapM' parseXVal (← v.getArr?).toList)

def parseInter (j : Json) : P (List (Int × XVal)) := do
  mapM' (fun p => do
    match (← p.getArr?).toList with
    | [s, v] => return (← s.getInt?, ← parseXVal v)
    | _ => throw "inter pair expected") (← j.getArr?).toList

def parseTemplate (j : Json) : P Template := do
  return {
    state := ← parseState (← field j "state"),
    values := ← parseValues j "values",
    params := ← parsePairs parseParam (← field j "params"),
    userAttrs := ← parsePairs (fun v => v.getStr?) (← field j "user"),
    systemAttrs := ← parsePairs (fun v => v.getStr?) (← field j "system"),
    inter := ← parseInter (← field j "inter"),
    hasStart := ← boolF j "start",
    hasComplete := ← boolF j "complete" }

def parseStates (j : Json) : P (Option (List TState)) :=
  match optF j "states" with
  | none => pure none
  | some v => do return some (← mapM' parseState (← v.getArr?).toList)

def parseOp (j : Json) : P Op := do
  let op ← strF j "op"
  match op with
  | "createStudy" => return .createStudy (← strF j "name") (← mapM' (fun d => d.getNat?) (← arrF j "dirs"))
  | "deleteStudy" => return .deleteStudy (← natF j "sid")
  | "setStudyUserAttr" => return .setStudyUserAttr (← natF j "sid") (← strF j "k") (← strF j "v")
  | "setStudySystemAttr" => return .setStudySystemAttr (← natF j "sid") (← strF j "k") (← strF j "v")
  | "createTrial" =>
    let t ← match optF j "tmpl" with
      | none => pure none
      | some t => do pure (some (← parseTemplate t))
    return .createTrial (← natF j "sid") t
      ((fieldD j "implRaised" (Json.bool false)).getBool?.toOption.getD false)
  | "setTrialParam" =>
    return .setTrialParam (← natF j "tid") (← strF j "name") (← parseParam (← field j "param"))
      ((fieldD j "implRaised" (Json.bool false)).getBool?.toOption.getD false)
  | "setTrialStateValues" =>
    return .setTrialStateValues (← natF j "tid") (← parseState (← field j "state")) (← parseValues j "values")
  | "setTrialInter" => return .setTrialInter (← natF j "tid") (← intF j "step") (← parseXVal (← field j "v"))
  | "setTrialUserAttr" => return .setTrialUserAttr (← natF j "tid") (← strF j "k") (← strF j "v")
  | "setTrialSystemAttr" => return .setTrialSystemAttr (← natF j "tid") (← strF j "k") (← strF j "v")
  | "getStudyIdFromName" => return .getStudyIdFromName (← strF j "name")
  | "getStudyNameFromId" => return .getStudyNameFromId (← natF j "sid")
  | "getStudyDirections" => return .getStudyDirections (← natF j "sid")
  | "getStudyUserAttrs" => return .getStudyUserAttrs (← natF j "sid")
  | "getStudySystemAttrs" => return .getStudySystemAttrs (← natF j "sid")
  | "getAllStudies" => return .getAllStudies
  | "getTrialIdFromNumber" => return .getTrialIdFromNumber (← natF j "sid") (← natF j "number")
  | "getTrialNumberFromId" => return .getTrialNumberFromId (← natF j "tid")
  | "getTrialParam" => return .getTrialParam (← natF j "tid") (← strF j "name")
  | "getTrial" => return .getTrial (← natF j "tid")
  | "getAllTrials" => return .getAllTrials (← natF j "sid") (← parseStates j)
  | "getNTrials" => return .getNTrials (← natF j "sid") (← parseStates j)
  | "getBestTrial" => return .getBestTrial (← natF j "sid")
  | _ => throw s!"unknown op {op}"

def errName : Err → String
  | .keyError => "KeyError" | .duplicated => "DuplicatedStudyError"
  | .updateFinished => "UpdateFinishedTrialError" | .valueError => "ValueError"
  | .runtimeError => "RuntimeError"

def trialJson (id : Nat) (t : TrialS) : Json :=
  Json.mkObj [
    ("id", id), ("study", t.study), ("number", t.number), ("state", t.state.code),
    ("values", optJson (fun l => Json.arr (l.map (fun v => Json.str (showXVal v))).toArray) t.values),
    ("params", objOfAList (fun (p : Param) => Json.mkObj [("internal", p.internal), ("body", p.dist.body)]) t.params),
    ("user", objOfAList Json.str t.userAttrs),
    ("system", objOfAList Json.str t.systemAttrs),
    ("inter", Json.mkObj (t.inter.map (fun p => (toString p.1, Json.str (showXVal p.2))))),
    ("start", t.hasStart), ("complete", t.hasComplete)]

def studyJson (id : Nat) (s : StudyS) : Json :=
  Json.mkObj [("id", id), ("name", s.name), ("dirs", Json.arr (s.directions.map (fun (n : Nat) => (n : Json))).toArray),
    ("user", objOfAList Json.str s.userAttrs), ("system", objOfAList Json.str s.systemAttrs)]

def outJson : Out → Json
  | .unit => Json.mkObj [("k", "unit")]
  | .err e => Json.mkObj [("k", "err"), ("e", errName e)]
  | .newId n => Json.mkObj [("k", "id"), ("n", n)]
  | .bool b => Json.mkObj [("k", "bool"), ("b", b)]
  | .nat n => Json.mkObj [("k", "nat"), ("n", n)]
  | .str s => Json.mkObj [("k", "str"), ("s", s)]
  | .nats l => Json.mkObj [("k", "nats"), ("l", Json.arr (l.map (fun (n : Nat) => (n : Json))).toArray)]
  | .attrs l => Json.mkObj [("k", "attrs"), ("v", objOfAList Json.str l)]
  | .studies l => Json.mkObj [("k", "studies"), ("l", Json.arr (l.map (fun p => studyJson p.1 p.2)).toArray)]
  | .trial id t => Json.mkObj [("k", "trial"), ("t", trialJson id t)]
  | .trials l => Json.mkObj [("k", "trials"), ("l", Json.arr (l.map (fun p => trialJson p.1 p.2)).toArray)]
  | .oneOf l => Json.mkObj [("k", "oneOf"), ("l", Json.arr (l.map (fun p => trialJson p.1 p.2)).toArray)]

/-- The whole readable state: live studies, and for each its trials. -/
def stateJson (s : Spec) : Json :=
  let studies := s.studies.zipIdx.filterMap (fun p => p.1.map (fun st => (p.2, st)))
  Json.arr (studies.map (fun p => Json.mkObj [("study", studyJson p.1 p.2),
    ("trials", Json.arr ((s.trialsOf p.1).map (fun q => trialJson q.1 q.2)).toArray)])).toArray

def handle (s : Spec) (j : Json) : Spec × Json :=
  match j.getObjVal? "op" with
  | .ok (Json.str "reset") => (Storage.init, Json.mkObj [("k", "reset")])
  | _ =>
    match parseOp j with
    | .error e => (s, Json.mkObj [("k", "bad-op"), ("why", e)])
    | .ok op =>
      let (s', out) := step s op
      let base := [("out", outJson out)]
      let withState := if (fieldD j "dump" (Json.bool false)).getBool?.toOption.getD false
        then base ++ [("state", stateJson s')] else base
      (s', Json.mkObj withState)

/-- entry point: `driver storage` -/
def main : IO Unit := Driver.lineLoop handle Storage.init

end Driver.Sub.Storage
