import Driver.Util
import Driver.Sub.Dist
import OptunaVerif.Model.Suggest
/-! Sub-driver `suggest`: `Trial._suggest` model (stateful per trial) and the sampler projections (C10). -/
open Lean
namespace Driver.Sub.Suggest
open OptunaVerif OptunaVerif.Dist OptunaVerif.Suggest Driver Driver.Sub.Dist

structure S where
  cx : Ctx
  st : St

def branchS : Branch → String
  | .reused => "reused" | .fixed => "fixed" | .single => "single" | .relative => "relative"
  | .independent => "independent"

def run (s : S) (j : Json) : P (S × Json) := do
  match (← strF j "op") with
  | "begin" =>
    let cx : Ctx := { fixed := ← parsePairs parseTok (← field j "fixed"),
                      relSpace := ← parsePairs parseDist (← field j "relSpace"),
                      relParams := ← parsePairs parseTok (← field j "relParams") }
    return ({ cx := cx, st := St.empty }, Json.mkObj [("ok", true)])
  | "suggest" =>
    let name ← strF j "name"
    let d ← parseDist (← field j "d")
    let indep ← parseTok (← field j "indep")
    -- `single()` is evaluated on the decimal view of the distribution when the harness supplies one
    let sg : Bool := match optF j "ddec" with
      | some dj => match parseDist dj with
        | .ok dd => dd.single
        | .error _ => d.single
      | none => d.single
    match suggestS sg s.cx s.st name d indep with
    | .error e => return (s, Json.mkObj [("err", errS e)])
    | .ok (st', v, br) =>
      let q : Json := match st'.stored.get? name with
        | some (q, _) => ratJ q
        | none => Json.null
      let rb : Json := match readBack st' name with
        | some t => Json.mkObj [("ok", tokJ t)]
        | none => Json.null
      return ({ s with st := st' }, Json.mkObj [("v", tokJ v), ("br", branchS br), ("q", q), ("readBack", rb),
        ("cached", optJson tokJ (st'.params.get? name))])
  | "tpeDisc" =>
    return (s, ratJ (tpeDisc (← parseRatJ (← field j "low")) (← parseRatJ (← field j "high")) (← parseRatJ (← field j "step"))
      (← parseRatJ (← field j "s"))))
  | "tpeCont" =>
    return (s, ratJ (tpeCont (← parseRatJ (← field j "low")) (← parseRatJ (← field j "high")) (← parseRatJ (← field j "s"))))
  | "tpeInt" =>
    return (s, intJ (tpeInt (← parseIntS (← field j "low")) (← parseIntS (← field j "high")) (← parseIntS (← field j "step"))
      (← parseRatJ (← field j "s"))))
  | "gpNum" =>
    return (s, ratJ (gpNum (← parseRatJ (← field j "low")) (← parseRatJ (← field j "high")) (← parseRatJ (← field j "s"))))
  | "gpInt" =>
    return (s, intJ (gpInt (← parseIntS (← field j "low")) (← parseIntS (← field j "high")) (← parseRatJ (← field j "s"))))
  | "catCum" =>
    return (s, Json.num (catCum (← mapM' parseRatJ (← arrF j "cum")) (← parseRatJ (← field j "q"))))
  | "catFloor" =>
    return (s, intJ (catFloor (← natF j "n") (← parseRatJ (← field j "q"))))
  | "decode" =>
    return (s, optTokJ (decode (← parseEnv j) (← parseCfg j) (← parseDist (← field j "d")) [← parseRatJ (← field j "x")]))
  | _ => return (s, ← Driver.Sub.Dist.run j)   -- every op of the `dist` sub-driver

def handle (s : S) (j : Json) : S × Json :=
  match run s j with
  | .ok (s', r) => (s', Json.mkObj [("r", r)])
  | .error e => (s, Json.mkObj [("k", "bad-op"), ("why", e)])

/-- entry point: `driver suggest` -/
def main : IO Unit := Driver.lineLoop handle { cx := ⟨[], [], []⟩, st := St.empty }

end Driver.Sub.Suggest
