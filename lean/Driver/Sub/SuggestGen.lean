import Driver.Sub.Suggest
import OptunaVerif.Model.SuggestApi
import OptunaVerif.Generated.SuggestMethods
/-! Sub-driver `suggestgen`: the protocol of `suggest` (C10), with the interpreter of the method bodies GENERATED
from the source (`Generated/SuggestMethods.lean`, `Model/SuggestIR.lean`) run side by side with the hand model.

* `{"op":"suggest", …}` — as in `suggest`; the answer additionally carries `"warns"`, `"sampled"` (hand model
  `SuggestApi.suggestFull`) and `"gen"`: `null` when the interpreter of the generated `Trial._suggest` (with the generated
  `_is_fixed_param`, `_is_relative_param`, `_get_single_value`, `check_distribution_compatibility` as its callees) and the
  hand model agree on the WHOLE outcome (new cache + storage rows, value, branch, exception, warnings, sampler calls),
  else both outcomes.  Optional `"wf": true`: `storage.set_trial_param` raises.
* `{"op":"api","fn":"float"|"int"|"cat"|"uniform"|"loguniform"|"discrete", "name":…, "low","high","step","log","q","choices",
   "indep":…, ["sg": bool], ["wf": bool]}` — the public wrappers (hand: `SuggestApi.suggest*H`).
* `{"op":"given","cls":"fixed"|"frozen","name":…,"d":…}` — `FixedTrial._suggest` / `FrozenTrial._suggest`; the
  parameters given at construction are the `fixed` of the last `begin`.
* `{"op":"begin2","fixed":…,["relSpace","relParams","params","dists","stored"]}` — `begin` with a trial state to start from.
* `{"op":"static"}` — the pinned source texts and keyword defaults of the generated file.
Everything else is delegated to `suggest`. -/
open Lean
namespace Driver.Sub.SuggestGen
open OptunaVerif OptunaVerif.Dist OptunaVerif.Suggest OptunaVerif.SuggestIR OptunaVerif.SuggestApi
open Driver Driver.Sub.Dist Driver.Sub.Suggest
open OptunaVerif.Generated.SuggestMethods (program)

def exnS : Exn → String
  | .err e => errS e
  | .overflow => "OverflowError"
  | .indexError => "IndexError"
  | .assertion => "AssertionError"
  | .storage => "StorageError"
  | .unrep => "unrepresentable"

def warnS : Warn → String
  | .fixedOutOfRange => "fixedOutOfRange" | .inconsistent => "inconsistent" | .outOfRange => "outOfRange"
  | .deprecated => "deprecated" | .other => "other"

def stJ (st : St) : Json :=
  Json.mkObj [("params", pairsJ tokJ st.params), ("dists", pairsJ distJ st.dists),
    ("stored", pairsJ (fun (p : Rat × Dist) => Json.arr #[ratJ p.1, distJ p.2]) st.stored)]

def warnsJ (w : List Warn) : Json := Json.arr (w.map (fun x => Json.str (warnS x))).toArray

def soutJ (o : SOut) : Json :=
  Json.mkObj [("st", stJ o.st), ("warns", warnsJ o.warns), ("sampled", o.sampled),
    ("res", match o.res with
      | .ok (v, br) => Json.mkObj [("v", tokJ v), ("br", branchS br)]
      | .error e => Json.mkObj [("err", exnS e)])]

def aoutJ (o : AOut) : Json :=
  Json.mkObj [("st", stJ o.st), ("warns", warnsJ o.warns), ("sampled", o.sampled),
    ("res", match o.res with
      | .ok v => Json.mkObj [("v", tokJ v)]
      | .error e => Json.mkObj [("err", exnS e)])]

def diff {α : Type} [DecidableEq α] (gen : Option α) (hand : α) (show_ : α → Json) : Json :=
  if gen = some hand then Json.null
  else Json.mkObj [("generated", match gen with | some g => show_ g | none => Json.str "unrepresentable"),
                   ("hand", show_ hand)]

def flag (j : Json) (k : String) : Bool := (fieldD j k (Json.bool false)).getBool?.toOption.getD false

def optBool (j : Json) (k : String) : Option Bool :=
  match optF j k with
  | some v => v.getBool?.toOption
  | none => none

def sgOf (j : Json) (d : Dist) : Bool :=
  match optF j "ddec" with
  | some dj => match parseDist dj with
    | .ok dd => dd.single
    | .error _ => d.single
  | none => d.single

def envOf (s : S) (j : Json) (single : Dist → Bool) : P SEnv := do
  let indep ← parseTok (fieldD j "indep" Json.null)
  return { cx := s.cx, single := single, indep := fun _ _ => indep, writeFails := flag j "wf" }

def apiFields (o : AOut) (name : String) : List (String × Json) :=
  (match o.res with
    | .ok v => [("v", tokJ v)]
    | .error e => [("err", Json.str (exnS e))]) ++
  [("warns", warnsJ o.warns), ("sampled", (o.sampled : Json)),
   ("cached", optJson tokJ (o.st.params.get? name)),
   ("q", match o.st.stored.get? name with | some (q, _) => ratJ q | none => Json.null),
   ("dist", optJson distJ (o.st.dists.get? name)),
   ("readBack", match readBack o.st name with | some t => Json.mkObj [("ok", tokJ t)] | none => Json.null)]

def run (s : S) (j : Json) : P (S × Json) := do
  match (← strF j "op") with
  | "suggest" =>
    let name ← strF j "name"
    let d ← parseDist (← field j "d")
    let sg := sgOf j d
    let E ← envOf s j (fun _ => sg)
    let hand := suggestFull E s.st name d
    let g := diff (interpSuggest program E s.st name d) hand soutJ
    let extra : List (String × Json) := [("warns", warnsJ hand.warns), ("sampled", (hand.sampled : Json)), ("gen", g)]
    if E.writeFails then
      -- the hand model `suggestS` has no failing write: answer from `suggestFull`
      let r : Json := match hand.res with
        | .ok (v, br) => Json.mkObj ([("v", tokJ v), ("br", branchS br)] ++ extra)
        | .error e => Json.mkObj ([("err", Json.str (exnS e))] ++ extra)
      return ({ s with st := hand.st }, Json.mkObj [("r", r)])
    else
      let (s', out) := Driver.Sub.Suggest.handle s j
      match out.getObjVal? "r" with
      | .ok r =>
        let r' := extra.foldl (fun acc p => acc.setObjVal! p.1 p.2) r
        -- the two hand models must agree as well (`suggestFull` projects to `suggestS`; proved, and checked here)
        let same : Bool := decide (s'.st = hand.st)
        return (s', Json.mkObj [("r", r'.setObjVal! "handsAgree" same)])
      | .error _ => return (s', out)
  | "api" =>
    let name ← strF j "name"
    let fn ← strF j "fn"
    let single : Dist → Bool := match optBool j "sg" with
      | some b => fun _ => b
      | none => Dist.single
    let E ← envOf s j single
    let ratOf (k : String) : P Rat := do parseRatJ (← field j k)
    let (hand, gen) ← match fn with
      | "float" => do
        let low ← ratOf "low"; let high ← ratOf "high"; let step ← parseOptRat j "step"; let log := flag j "log"
        pure (suggestFloatH E s.st name low high step log, interpSuggestFloat program E s.st name low high step log)
      | "int" => do
        let low ← parseIntS (← field j "low"); let high ← parseIntS (← field j "high")
        let step ← parseIntS (← field j "step"); let log := flag j "log"
        pure (suggestIntH E s.st name low high step log, interpSuggestInt program E s.st name low high step log)
      | "cat" => do
        let ch ← mapM' parseTok (← arrF j "choices")
        pure (suggestCategoricalH E s.st name ch, interpSuggestCategorical program E s.st name ch)
      | "uniform" => do
        let low ← ratOf "low"; let high ← ratOf "high"
        pure (suggestUniformH E s.st name low high, interpForward program E program.suggestUniform s.st name low high)
      | "loguniform" => do
        let low ← ratOf "low"; let high ← ratOf "high"
        pure (suggestLogUniformH E s.st name low high, interpForward program E program.suggestLogUniform s.st name low high)
      | "discrete" => do
        let low ← ratOf "low"; let high ← ratOf "high"; let q ← ratOf "q"
        pure (suggestDiscreteUniformH E s.st name low high q,
              interpForwardQ program E program.suggestDiscreteUniform s.st name low high q)
      | f => throw s!"bad fn {f}"
    return ({ s with st := hand.st },
      Json.mkObj [("r", Json.mkObj (apiFields hand name ++ [("gen", diff gen hand aoutJ)]))])
  | "given" =>
    let name ← strF j "name"
    let d ← parseDist (← field j "d")
    let E ← envOf s j (fun _ => sgOf j d)
    let (hand, gen) ← match (← strF j "cls") with
      | "fixed" => pure (givenSuggestH true E s.st name d, interpGivenSuggest program E program.fixedSuggest s.st name d)
      | "frozen" => pure (givenSuggestH false E s.st name d, interpGivenSuggest program E program.frozenSuggest s.st name d)
      | c => throw s!"bad cls {c}"
    return ({ s with st := hand.st },
      Json.mkObj [("r", Json.mkObj (apiFields hand name ++ [("gen", diff gen hand aoutJ)]))])
  | "begin2" =>
    -- like `begin`, with a trial state to start from (FrozenTrial: its params / distributions)
    let cx : Ctx := { fixed := ← parsePairs parseTok (← field j "fixed"),
                      relSpace := ← parsePairs parseDist (fieldD j "relSpace" (Json.arr #[])),
                      relParams := ← parsePairs parseTok (fieldD j "relParams" (Json.arr #[])) }
    let st : St := { params := ← parsePairs parseTok (fieldD j "params" (Json.arr #[])),
                     dists := ← parsePairs parseDist (fieldD j "dists" (Json.arr #[])),
                     stored := ← parsePairs (fun p => do
                        match (← p.getArr?).toList with
                        | [q, d] => return (← parseRatJ q, ← parseDist d)
                        | _ => throw "stored pair expected") (fieldD j "stored" (Json.arr #[])) }
    return ({ cx := cx, st := st }, Json.mkObj [("r", Json.mkObj [("ok", true)])])
  | "static" =>
    let pins := OptunaVerif.Generated.SuggestMethods.pins
    let dfl := OptunaVerif.Generated.SuggestMethods.defaults
    return (s, Json.mkObj [("r", Json.mkObj [
      ("pins", Json.arr (pins.map (fun p => Json.arr #[Json.str p.1, Json.str p.2])).toArray),
      ("defaults", Json.arr (dfl.map (fun p => Json.arr #[Json.str p.1, Json.str p.2.1, Json.str (reprStr p.2.2)])).toArray)])])
  | _ =>
    let (s', out) := Driver.Sub.Suggest.handle s j
    return (s', out)

def handle (s : S) (j : Json) : S × Json :=
  match run s j with
  | .ok r => r
  | .error e => (s, Json.mkObj [("k", "bad-op"), ("why", e)])

/-- entry point: `driver suggestgen` -/
def main : IO Unit := Driver.lineLoop handle { cx := ⟨[], [], []⟩, st := St.empty }

end Driver.Sub.SuggestGen
