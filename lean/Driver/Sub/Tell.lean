import Driver.Util
import OptunaVerif.Model.Tell
import OptunaVerif.Model.Pool
/-! Sub-driver `tell` (C02): `_tell_with_warning` / `_run_trial` / `_optimize_sequential` models and the
thread-pool trace validator behind the line protocol.  One JSON object per line, field `cmd` ∈
{`tell`, `trial`, `seq`, `pool`}. -/
open Lean
namespace Driver.Sub.Tell
open OptunaVerif OptunaVerif.Tell Driver

def parseCastExc (s : String) : P CastExc :=
  match s.splitOn ":" with
  | ["value"] => pure .valueError
  | ["type"] => pure .typeError
  | ["overflow"] => pure .overflowError
  | ["other", c] =>
    match c.toNat? with
    | some c => pure (.other c)
    | none => throw s!"bad cast exc {s}"
  | _ => throw s!"bad cast exc {s}"

def showCastExc : CastExc → String
  | .valueError => "value" | .typeError => "type" | .overflowError => "overflow"
  | .other c => s!"other:{c}"

def parseExc (s : String) : P Exc :=
  match s.splitOn ":" with
  | ["kbd"] => pure .kbd
  | ["ValueError"] => pure .valueError
  | ["TypeError"] => pure .typeError
  | ["AssertionError"] => pure .assertionError
  | ["UnboundLocalError"] => pure .unboundLocalError
  | ["UpdateFinishedTrialError"] => pure .updateFinished
  | ["user", c] =>
    match c.toNat? with
    | some c => pure (.user c)
    | none => throw s!"bad exc {s}"
  | "cast" :: rest => do return .cast (← parseCastExc (":".intercalate rest))
  | _ => throw s!"bad exc {s}"

def showExc : Exc → String
  | .user c => s!"user:{c}" | .kbd => "kbd" | .cast e => "cast:" ++ showCastExc e
  | .valueError => "ValueError" | .typeError => "TypeError" | .assertionError => "AssertionError"
  | .unboundLocalError => "UnboundLocalError" | .updateFinished => "UpdateFinishedTrialError"

def parseElem (j : Json) : P Elem :=
  match optF j "ok" with
  | some x => do return .ok (← parseXVal x)
  | none => do return .bad (← parseCastExc (← strF j "bad"))

def parsePyVal (j : Json) : P PyVal :=
  if j.isNull then pure .none
  else match optF j "scalar" with
    | some e => do return .scalar (← parseElem e)
    | none => do return .seq (← mapM' parseElem (← arrF j "seq"))

def parseXVals (j : Json) : P (List XVal) := do mapM' parseXVal (← j.getArr?).toList

def parseOptXVals (j : Json) (k : String) : P (Option (List XVal)) :=
  match optF j k with
  | none => pure none
  | some v => do return some (← parseXVals v)

def parseFin (n : Nat) : P FinState :=
  match n with
  | 1 => pure .complete | 2 => pure .pruned | 3 => pure .fail
  | _ => throw "finished state code expected"

def parseOptState (j : Json) (k : String) : P (Option TState) :=
  match optF j k with
  | none => pure none
  | some v => do return some (← parseState v)

def parseFinVals (j : Json) (k : String) : P (Option (FinState × Option (List XVal))) :=
  match optF j k with
  | none => pure none
  | some v => do return some (← parseFin (← natF v "state"), ← parseOptXVals v "values")

def parseAfter (j : Json) : P After := do
  match optF j "after" with
  | none => pure .ok
  | some v =>
    let s ← v.getStr?
    match s.splitOn ":" with
    | ["ok"] => pure .ok
    | ["kbd"] => pure .raisesKbd
    | ["raises", c] =>
      match c.toNat? with
      | some c => pure (.raises c)
      | none => throw "bad after"
    | _ => throw "bad after"

def parseEnv (j : Json) : P Env := do
  return { after := ← parseAfter j, interfere := ← parseFinVals j "interfere" }

def parseInter (j : Json) : P (List (Nat × XVal)) := do
  mapM' (fun p => do
    match (← p.getArr?).toList with
    | [s, v] => return (← s.getNat?, ← parseXVal v)
    | _ => throw "inter pair expected") (← j.getArr?).toList

def parseRec (j : Json) : P Rec := do
  return { state := ← parseState (← field j "state"), values := ← parseOptXVals j "values",
           inter := ← parseInter (← field j "inter") }

def parseArgs (j : Json) : P TellArgs := do
  return { v := ← parsePyVal (fieldD j "v" Json.null), state := ← parseOptState j "state",
           skip := ← boolF j "skip", suppress := (fieldD j "suppress" (Json.bool false)).getBool?.toOption.getD false }

def parseLookup (s : String) : P Lookup :=
  if s == "found" then pure .found
  else if s == "unknown" then pure .unknownNumber
  else if s == "badType" then pure .badType
  else throw "bad lookup"

def parseOutcome (j : Json) : P Outcome := do
  let k ← strF j "k"
  if k == "ret" then return .ret (← parsePyVal (fieldD j "v" Json.null))
  else if k == "pruned" then return .pruned
  else if k == "exc" then return .exc (← parseExc (← strF j "e"))
  else throw "bad outcome"

def parseScript (j : Json) : P Script := do
  return { reports := ← parseInter (← field j "reports"), out := ← parseOutcome (← field j "out"),
           pre := ← parseFinVals j "pre", env := ← parseEnv (fieldD j "env" (Json.mkObj [])) }

def parseCfg (j : Json) : P Cfg := do
  let cs ← mapM' (fun x => do parseExc (← x.getStr?)) (← arrF j "catch")
  return { nObj := ← natF j "nObj", catches := fun e => cs.contains e }

def optNat (j : Json) (k : String) : P (Option Nat) :=
  match optF j k with
  | none => pure none
  | some v => do return some (← v.getNat?)

def parseCb (j : Json) : P CbAct := do
  return { stop := ← boolF j "stop",
           raises := match optF j "raises" with | none => none | some v => v.getNat?.toOption }

def parsePlan (j : Json) : P TrialPlan := do
  return { askRaises := ← optNat j "askRaises", script := ← parseScript (← field j "script"), sleep := ← natF j "sleep",
           stopInObj := ← boolF j "stopInObj", cbs := ← mapM' parseCb (← arrF j "cbs") }

/-! output -/

def xvalsJson (l : List XVal) : Json := Json.arr (l.map (fun v => Json.str (showXVal v))).toArray

def recJson (r : Rec) : Json :=
  Json.mkObj [("state", r.state.code), ("values", optJson xvalsJson r.values),
    ("inter", Json.arr (r.inter.map (fun p => Json.arr #[(p.1 : Json), Json.str (showXVal p.2)])).toArray)]

def whyStr : Why → String
  | .cast => "cast" | .nan => "nan" | .count => "count" | .none => "none"

def tellOutJson : TellOut → Json
  | .ok st vals wk wd => Json.mkObj [("k", "ok"), ("state", st.code), ("values", optJson xvalsJson vals),
      ("warnKey", wk), ("warned", optJson (fun w => Json.str (whyStr w)) wd)]
  | .skipped st vals => Json.mkObj [("k", "skipped"), ("state", st.code), ("values", optJson xvalsJson vals)]
  | .raised e => Json.mkObj [("k", "raised"), ("e", showExc e)]

def runOutJson (o : RunOut) : Json :=
  Json.mkObj [("final", recJson o.final), ("raised", optJson (fun e => Json.str (showExc e)) o.raised)]

/-! pool -/

def parseRes (j : Json) : P Pool.Res :=
  if j.isNull then pure .ok else do return .raised (← j.getNat?)

def parseEvent (j : Json) : P Pool.Event := do
  let e ← strF j "e"
  if e == "submit" then return .submit
  else if e == "begin" then return .begin (← natF j "i")
  else if e == "stop" then return .stopCalled (← natF j "i")
  else if e == "finish" then return .finish (← natF j "i") (← parseRes (fieldD j "r" Json.null))
  else if e == "waitFirst" then return .waitFirst (← mapM' (fun x => x.getNat?) (← arrF j "c"))
  else if e == "timeout" then return .timeout
  else if e == "waitAll" then return .waitAll
  else if e == "exit" then return .exit (← parseRes (fieldD j "r" Json.null))
  else throw s!"bad event {e}"

def phaseStr : Pool.Phase → String
  | .loop => "loop" | .drained => "drained" | .exited .ok => "exited:ok" | .exited (.raised c) => s!"exited:{c}"

def handleCmd (j : Json) : P Json := do
  let cmd ← strF j "cmd"
  if cmd == "tell" then
    let (r, o) := studyTell (← natF j "nObj") (← parseEnv (fieldD j "env" (Json.mkObj [])))
      (← parseLookup (← strF j "lookup")) (← parseRec (← field j "rec")) (← parseArgs (← field j "args"))
    return Json.mkObj [("rec", recJson r), ("out", tellOutJson o)]
  else if cmd == "trial" then
    return runOutJson (runTrial (← parseCfg (← field j "cfg")) (← parseScript (← field j "script")))
  else if cmd == "seq" then
    let plans ← mapM' parsePlan (← arrF j "plans")
    let o := optimizeSeq (← parseCfg (← field j "cfg")) (← optNat j "nTrials") (← optNat j "timeout") plans 0 0 false
    return Json.mkObj [("trials", Json.arr (o.trials.map runOutJson).toArray),
      ("cbLog", Json.arr (o.cbLog.map (fun p => Json.arr #[(p.1 : Json), (p.2 : Json)])).toArray),
      ("raised", optJson (fun e => Json.str (showExc e)) o.raised),
      ("stopFlag", o.stopFlag), ("exhausted", o.exhausted)]
  else if cmd == "pool" then
    let k ← natF j "k"
    let n ← optNat j "n"
    let evs ← mapM' parseEvent (← arrF j "events")
    match Pool.run k n Pool.init evs with
    | some s =>
      return Json.mkObj [("ok", true), ("phase", phaseStr s.phase), ("submitted", s.submitted),
        ("stop", s.stop), ("futures", Json.arr (s.futures.map (fun (x : Nat) => (x : Json))).toArray)]
    | none =>
      return Json.mkObj [("ok", false),
        ("rejectedAt", optJson (fun (x : Nat) => (x : Json)) (Pool.firstRejected k n Pool.init evs 0))]
  else throw s!"unknown cmd {cmd}"

def handle (j : Json) : Json :=
  match handleCmd j with
  | .ok r => r
  | .error e => Json.mkObj [("k", "bad-op"), ("why", e)]

/-- entry point: `driver tell` -/
def main : IO Unit := Driver.lineMap handle

end Driver.Sub.Tell
