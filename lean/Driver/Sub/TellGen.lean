import Driver.Sub.Tell
import OptunaVerif.Generated.TellMethods
/-! Sub-driver `tellgen`: the protocol of `tell` (C02), with the interpreter of the function bodies
GENERATED from the source (`Generated/TellMethods.lean`, `Model/TellIR.lean`) run side by side with the
hand model on every `tell` / `trial` / `seq` command.  Every answer of those commands carries `"gen"`:
`null` when both agree on the whole result, else both answers.  Optional fields of the commands choose
the flags the hand model does not have: `hb` (heartbeat enabled), `popFound` (ask pops a queued trial),
`gc`, `pb` (progress bar given) — they must not matter — and `cbNone` (`callbacks=None`: the hand model then runs
the plans without their callbacks). -/
open Lean
namespace Driver.Sub.TellGen
open OptunaVerif OptunaVerif.Tell OptunaVerif.TellIR Driver Driver.Sub.Tell
open OptunaVerif.Generated.TellMethods (program)

def flag (j : Json) (k : String) : Bool := (fieldD j k (Json.bool false)).getBool?.toOption.getD false

def flagsOf (j : Json) : SeqFlags :=
  { hb := flag j "hb", popFound := flag j "popFound", gc := flag j "gc", pbGiven := flag j "pb",
    cbGiven := !flag j "cbNone" }

def seqJson (o : SeqOut) : Json :=
  Json.mkObj [("trials", Json.arr (o.trials.map runOutJson).toArray),
    ("cbLog", Json.arr (o.cbLog.map (fun p => Json.arr #[(p.1 : Json), (p.2 : Json)])).toArray),
    ("raised", optJson (fun e => Json.str (showExc e)) o.raised),
    ("stopFlag", o.stopFlag), ("exhausted", o.exhausted)]

def diff {α : Type} [DecidableEq α] (gen : Option α) (hand : α) (show_ : α → Json) : Json :=
  if gen = some hand then Json.null
  else Json.mkObj [("generated", match gen with | some g => show_ g | none => Json.str "unrepresentable"),
                   ("hand", show_ hand)]

def genOf (j : Json) : P Json := do
  let cmd ← strF j "cmd"
  if cmd == "tell" then
    let nObj ← natF j "nObj"
    let env ← parseEnv (fieldD j "env" (Json.mkObj []))
    let lk ← parseLookup (← strF j "lookup")
    let r ← parseRec (← field j "rec")
    let a ← parseArgs (← field j "args")
    -- how the trial is named: field `how` ("obj" = a Trial object) refines `lookup`
    let how : How := match lk with
      | .found => if (strF j "how").toOption == some "obj" then .trialObject else .knownNumber
      | .unknownNumber => .unknownNumber
      | .badType => .badType
    return diff (program.publicTell nObj env how r a) (studyTell nObj env lk r a)
      (fun x => Json.mkObj [("rec", recJson x.1), ("out", tellOutJson x.2)])
  else if cmd == "trial" then
    let cfg ← parseCfg (← field j "cfg")
    let s ← parseScript (← field j "script")
    let fl := flagsOf j
    return diff (program.runPlan cfg fl.hb fl.popFound { script := s }) (runTrial cfg s) runOutJson
  else if cmd == "seq" then
    let plans ← mapM' parsePlan (← arrF j "plans")
    let cfg ← parseCfg (← field j "cfg")
    let nT ← optNat j "nTrials"
    let to ← optNat j "timeout"
    let fl := flagsOf j
    return diff (program.optimizeSeq cfg fl nT to plans 0 0 0 false)
      (optimizeSeq cfg nT to (plans.map (stripCbs fl.cbGiven)) 0 0 false) seqJson
  else return Json.null

def handle (j : Json) : Json :=
  let out := Driver.Sub.Tell.handle j
  match strF j "cmd" with
  | .ok "pool" => out
  | _ =>
    match genOf j with
    | .ok d => out.setObjVal! "gen" d
    | .error _ => out

def main : IO Unit := Driver.lineMap handle

end Driver.Sub.TellGen
