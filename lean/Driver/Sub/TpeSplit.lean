import Driver.Util
import OptunaVerif.Model.TpeSplit
/-! Sub-driver `tpesplit`: `Model/TpeSplit.lean` behind the line protocol (C13 / C09).
Trials: `{"n":number,"s":state code (0 running,1 complete,2 pruned,3 fail,4 waiting),"v":[xval…],"iv":[[step,xval]…],"c":null|[xval…]}`.
`{"op":"split","dirs":[…],"ce":b,"nBelow":k,"trials":[…],"ranks":null|[…],"hssp":null|[…]}`: the two kernels are
the constant functions returning what the real `_fast_non_domination_rank` / `_solve_hssp` returned inside the real call. -/
open Lean
namespace Driver.Sub.TpeSplit
open OptunaVerif OptunaVerif.Direction OptunaVerif.TpeSplit Driver

def parseDir (j : Json) : P Dir := do
  match ← j.getStr? with
  | "min" => pure .minimize
  | "max" => pure .maximize
  | s => throw s!"bad direction {s}"

def parseSt (j : Json) : P St := do
  match ← j.getNat? with
  | 0 => pure .running | 1 => pure .complete | 2 => pure .pruned | 3 => pure .fail | 4 => pure .waiting
  | n => throw s!"bad state {n}"

def parsePairX (j : Json) : P (Int × XVal) := do
  match (← j.getArr?).toList with
  | [s, v] => return (← s.getInt?, ← parseXVal v)
  | _ => throw "pair expected"

def parseTrial (j : Json) : P Trial := do
  let cons ← match optF j "c" with
    | none => pure none
    | some c => do pure (some (← mapM' parseXVal (← c.getArr?).toList))
  return ⟨← natF j "n", ← parseSt (← field j "s"), ← mapM' parseXVal (← arrF j "v"),
    ← mapM' parsePairX (← arrF j "iv"), cons⟩

def natsOpt (j : Json) (k : String) : P (List Nat) :=
  match optF j k with
  | none => pure []
  | some a => do mapM' (fun x => x.getNat?) (← a.getArr?).toList

def natsJson (l : List Nat) : Json := Json.arr (l.map (fun (n : Nat) => (n : Json))).toArray
def ratsJson (l : List Rat) : Json := Json.arr (l.map (fun q => Json.str (showRat q))).toArray
def xJson (v : XVal) : Json := Json.str (showXVal v)
def numbers (l : List Trial) : Json := natsJson (l.map (·.number))

def errJson : Option Err → Json
  | none => Json.null
  | some .assertFalse => "assertFalse"
  | some .runtimeError => "runtimeError"

def traceJson (t : MoTrace) : Json :=
  Json.mkObj [("ranks", natsJson t.ranks), ("last", Json.num (JsonNumber.fromInt t.last)), ("idxBelow", natsJson t.idxBelow),
    ("call", match t.call with
      | none => Json.null
      | some c => Json.mkObj [("indices", natsJson c.indices), ("size", c.size),
          ("rows", Json.arr (c.rows.map (fun r => Json.arr (r.map xJson).toArray)).toArray)]),
    ("selected", natsJson t.selected)]

def kernels (j : Json) : P Kernels := do
  let ranks ← natsOpt j "ranks"
  let hssp ← natsOpt j "hssp"
  return ⟨fun _ _ => ranks, fun _ _ _ => hssp⟩

def splitJson (K : Kernels) (dirs : List Dir) (ce : Bool) (ts : List Trial) (nBelow : Nat) : Json :=
  let r := splitTrials K dirs ce ts nBelow
  let comp := ofClass ce .complete ts
  let n := min nBelow comp.length
  let mo : Json := if decide (1 < dirs.length) && decide (0 < n) && decide (n < comp.length) then traceJson (moSelect K dirs comp n) else Json.null
  Json.mkObj [("below", numbers r.1), ("above", numbers r.2), ("err", errJson (err dirs ce ts)), ("mo", mo),
    ("classes", Json.arr (ts.map (fun t => Json.str (match classify ce t with
      | .running => "running" | .infeasible => "infeasible" | .complete => "complete" | .pruned => "pruned" | .bad => "bad"))).toArray)]

def run (j : Json) : P Json := do
  match ← strF j "op" with
  | "split" =>
    let dirs ← mapM' parseDir (← arrF j "dirs")
    let ts ← mapM' parseTrial (← arrF j "trials")
    return splitJson (← kernels j) dirs (← boolF j "ce") ts (← natF j "nBelow")
  | "sample" =>
    let dirs ← mapM' parseDir (← arrF j "dirs")
    let all ← mapM' parseTrial (← arrF j "trials")
    let cl ← boolF j "cl"
    let g : Nat → Nat := if (← strF j "gamma") == "hyperopt" then hyperoptGamma else defaultGamma
    let ts := considered cl all
    let r := splitJson (← kernels j) dirs (← boolF j "ce") ts (g (nFinished ts))
    return (r.setObjVal! "considered" (numbers ts)).setObjVal! "nBelow" (g (nFinished ts) : Nat)
  | "scores" =>
    let d ← parseDir (← field j "d")
    let ts ← mapM' parseTrial (← arrF j "trials")
    return Json.mkObj [
      ("pruned", Json.arr (ts.map (fun t => let s := TpeSplit.prunedScore d t; Json.arr #[Json.num (JsonNumber.fromInt s.1), xJson s.2])).toArray),
      ("infeasible", Json.arr (ts.map (fun t => xJson (infeasibleScore t))).toArray)]
  | "gamma" =>
    let x ← natF j "x"
    return Json.mkObj [("default", (defaultGamma x : Nat)), ("hyperopt", (hyperoptGamma x : Nat))]
  | "weights" => return ratsJson (defaultWeights (← natF j "x"))
  | "moWeights" =>
    let feas ← mapM' (fun b => b.getBool?) (← arrF j "feasible")
    let cs ← match optF j "contribs" with
      | none => pure none
      | some a => do pure (some (← mapM' (fun x => do parseRat (← x.getStr?)) (← a.getArr?).toList))
    return ratsJson (moWeights feas cs)
  | s => throw s!"unknown op {s}"

def handle (j : Json) : Json :=
  match run j with
  | .ok r => r
  | .error e => Json.mkObj [("k", "bad-op"), ("why", e)]

/-- entry point: `driver tpesplit` -/
def main : IO Unit := Driver.lineMap handle

end Driver.Sub.TpeSplit
