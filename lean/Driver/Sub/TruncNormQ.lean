import Driver.Util
import OptunaVerif.Model.TruncNormQ
/-! Sub-driver `truncnormq`: branch selection, rational `erf` arms and `_bisect` of the C18 model. -/
open Lean
namespace Driver.Sub.TruncNormQ
open OptunaVerif OptunaVerif.TruncNormQ OptunaVerif.Generated.TruncNorm Driver

def xvalF (j : Json) (k : String) : P XVal := do parseXVal (← field j k)
def ratF (j : Json) (k : String) : P Rat := do parseRat (← strF j k)

def massName : MassCase → String
  | .left => "left" | .right => "right" | .central => "central"

def ppfName : PpfCase → String
  | .nan => "nan" | .hi => "hi" | .lo => "lo" | .left => "left" | .right => "right"

def ratsJson (l : List Rat) : Json := Json.arr (l.map (fun q => Json.str (showRat q))).toArray

def parseTable (j : Json) : P (List (Rat × Rat)) := do
  mapM' (fun p => do
    match (← p.getArr?).toList with
    | [x, y] => return (← parseRat (← x.getStr?), ← parseRat (← y.getStr?))
    | _ => throw "knot expected") (← j.getArr?).toList

def parseAnswers (j : Json) : P (List (Rat × Bool)) := do
  mapM' (fun p => do
    match (← p.getArr?).toList with
    | [x, y] => return (← parseRat (← x.getStr?), ← y.getBool?)
    | _ => throw "answer expected") (← j.getArr?).toList

def run (j : Json) : P Json := do
  let op ← strF j "op"
  match op with
  | "massCase" => return Json.mkObj [("case", massName (massCase (← xvalF j "a") (← xvalF j "b")))]
  | "ppfCase" => return Json.mkObj [("case", ppfName (ppfCase (← ratF j "q") (← xvalF j "a") (← xvalF j "b")))]
  | "logNdtrCase" => return Json.mkObj [("case", logNdtrCase (← xvalF j "a"))]
  | "ndtrSingleCase" => return Json.mkObj [("case", ndtrSingleCase (← ratF j "a"))]
  | "erfCase" =>
    let c := erfCase (← xvalF j "x")
    let name := match c with
      | .nan => "nan"
      | .idx i => erfCaseNames.getD i "none"
    return Json.mkObj [("case", name)]
  | "erfRat" =>
    let x ← ratF j "x"
    return Json.mkObj [("val", optJson (fun q => Json.str (showRat q)) (erfRat x))]
  | "bisect" =>
    -- the real loop on a table function: exact result and the midpoints visited
    let tbl ← parseTable (← field j "tbl")
    let a ← ratF j "a"
    let b ← ratF j "b"
    let c ← ratF j "c"
    let iters := match optF j "iters" with
      | some v => v.getNat?.toOption.getD bisectIters
      | none => bisectIters
    let above := fun x => c < interp tbl x
    let below := fun x => interp tbl x < c
    let (a', b') := if above a then (b, a) else (a, b)
    return Json.mkObj [("res", showRat (bisect above below iters a b)),
      ("mids", ratsJson (bisectMids below iters a' b')), ("iters", iters)]
  | "bisectReplay" =>
    -- the loop with the oracle answers recorded from a run of the real code (float run of `_ndtri_exp_single`)
    let ans ← parseAnswers (← field j "answers")
    let aboveA ← boolF j "aboveA"
    let n ← natF j "n"
    let below := replayOracle ans
    let (a', b') := if aboveA then (bracketHi, bracketLo) else (bracketLo, bracketHi)
    let br := bracket below n a' b'
    return Json.mkObj [("mids", ratsJson (bisectMids below n a' b')), ("lo", showRat br.1), ("hi", showRat br.2),
      ("iters", bisectIters)]
  | "consts" =>
    return Json.mkObj [("bisectIters", bisectIters), ("bracketLo", showRat bracketLo), ("bracketHi", showRat bracketHi),
      ("mixtureGuard", mixtureGuard), ("erfCaseNames", Json.arr (erfCaseNames.map Json.str).toArray)]
  | _ => throw s!"unknown op {op}"

def handle (j : Json) : Json :=
  match run j with
  | .ok r => r
  | .error e => Json.mkObj [("k", "bad-op"), ("why", e)]

/-- entry point: `driver truncnormq` -/
def main : IO Unit := Driver.lineMap handle

end Driver.Sub.TruncNormQ
