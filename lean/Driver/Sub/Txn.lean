import Driver.Util
import OptunaVerif.Model.Txn
import OptunaVerif.Generated.RdbSessions
/-! Sub-driver `txn`: the transaction model of one RDBStorage call (C05, SQLite part).
{"op":"ctx"}                              -> {"ok":bool}
{"op":"table"}                            -> {"methods":[{"name","public","hasWrites","oneTxn","perItem","external","blocks":[..]}], "composites":[..]}
{"op":"run","method":name,"insts":[{"blk":n,"body":["w"|"f"|"c"|"r"|"b",..],"committed":bool},..]}
   -> {"found","conforms","safe","effective","views":["pre"|"post"|"mid",.. one per crash point 0..len],"len"}
The writes of a run are numbered consecutively and the database is the log of the writes applied, so any two
different sets of applied writes are different states. -/
open Lean
namespace Driver.Sub.Txn
open OptunaVerif OptunaVerif.Txn OptunaVerif.Generated Driver

def repName : Rep → String
  | .once => "once" | .retry => "retry" | .perItem => "perItem"

def blockJson (b : Block) : Json :=
  Json.mkObj [("writes", b.writes), ("flushes", b.flushes), ("commits", b.commits), ("rollbacks", b.rollbacks),
    ("nested", b.nested), ("guards", b.guards), ("guards_safe", b.guardsSafe), ("plain", b.plain),
    ("rep", repName b.rep), ("ignore_integrity", b.ignoreIntegrity)]

def methodJson (m : Method) : Json :=
  Json.mkObj [("name", m.name), ("public", m.isPublic), ("hasWrites", m.hasWrites), ("oneTxn", m.oneTxn),
    ("perItem", perItemShape m.blocks), ("external", m.external), ("blocks", Json.arr (m.blocks.map blockJson).toArray)]

def findMethod (name : String) : Option Method :=
  match RdbSessions.methods.find? (fun m => m.name == name) with
  | some m => some m
  | none => RdbSessions.composites.find? (fun m => m.name == name)

/-- number the writes of a run consecutively, starting at `n` -/
def parseBody : List Json → Nat → P (List (Step Nat) × Nat)
  | [], n => pure ([], n)
  | j :: r, n => do
    let s ← j.getStr?
    let (st, n') ← (match s with
      | "w" => pure (Step.write n, n + 1)
      | "f" => pure (Step.flush, n)
      | "c" => pure (Step.commit, n)
      | "r" => pure (Step.rollback, n)
      | "b" => pure (Step.begin, n)
      | _ => throw s!"bad step {s}" : P (Step Nat × Nat))
    let (rest, n'') ← parseBody r n'
    return (st :: rest, n'')

def parseInsts : List Json → Nat → P (List (Inst Nat))
  | [], _ => pure []
  | j :: r, n => do
    let (body, n') ← parseBody (← arrF j "body") n
    let i : Inst Nat := { blk := ← natF j "blk", body := body, committed := ← boolF j "committed" }
    return i :: (← parseInsts r n')

def apLog (l : List Nat) (w : Nat) : List Nat := l ++ [w]

def handle (j : Json) : Json :=
  match strF j "op" with
  | .ok "ctx" => Json.mkObj [("ok", RdbSessions.ctx.ok)]
  | .ok "table" =>
    Json.mkObj [("methods", Json.arr (RdbSessions.methods.map methodJson).toArray),
      ("composites", Json.arr (RdbSessions.composites.map methodJson).toArray),
      ("helpers_never_commit", RdbSessions.helpers.all (fun h => h.commits == 0 && h.rollbacks == 0 && h.nested == 0))]
  | .ok "run" =>
    match (do return (← strF j "method", ← parseInsts (← arrF j "insts") 1) : P (String × List (Inst Nat))) with
    | .error e => Json.mkObj [("k", "bad-op"), ("why", e)]
    | .ok (name, is) =>
      match findMethod name with
      | none => Json.mkObj [("found", false)]
      | some m =>
        let steps := trace is
        let post := postState apLog [] steps
        let views := (List.range (steps.length + 1)).map (fun k =>
          let v := crashView apLog [] steps k
          if v == [] then "pre" else if v == post then "post" else "mid")
        Json.mkObj [("found", true), ("conforms", conforms m.blocks is), ("safe", is.all Inst.safe),
          ("effective", (is.filter Inst.effective).length), ("oneTxn", m.oneTxn), ("len", steps.length),
          ("views", Json.arr (views.map (fun (s : String) => (s : Json))).toArray),
          ("boundaries", (boundaries apLog [] is).eraseDups.length)]
  | _ => Json.mkObj [("k", "bad-op")]

def main : IO Unit := Driver.lineMap handle

end Driver.Sub.Txn
