import Driver.Util
import OptunaVerif.Model.Wilcoxon
/-! Sub-driver `wilcoxon`: `Model/Wilcoxon.lean` behind the line protocol (C16 / C13).
`{"op":"prune","d":"min"|"max","pThr":"n/d","nStartup":k,"cur":[[step,xval],…],"best":null|[[step,xval],…],"p":"nan"|"n/d"}`
→ `{"prune":b,"warns":[…],"exit":…,"alt":…,"diffs":[…],"avgIsBest":b}`;
`{"op":"study",…,"done":[[number,"n/d",[[step,xval],…]],…]}` → the same plus `"best"` (number or null).
The p-value is an input (the real scipy value): the model's `pv` is the constant function. -/
open Lean
namespace Driver.Sub.Wilcoxon
open OptunaVerif OptunaVerif.Direction OptunaVerif.Wilcoxon Driver

def parseDir (j : Json) : P Dir := do
  match ← j.getStr? with
  | "min" => pure .minimize
  | "max" => pure .maximize
  | s => throw s!"bad direction {s}"

def parseV (j : Json) : P V := do
  let s ← j.getStr?
  if s == "nan" then pure none else return some (← parseRat s)

def parsePairX (j : Json) : P (Int × XVal) := do
  match (← j.getArr?).toList with
  | [s, v] => return (← s.getInt?, ← parseXVal v)
  | _ => throw "pair expected"

def parseIV (j : Json) : P IV := do mapM' parsePairX (← j.getArr?).toList

def parseDone (j : Json) : P Done := do
  match (← j.getArr?).toList with
  | [n, v, iv] => return ⟨← n.getNat?, ← parseRat (← v.getStr?), ← parseIV iv⟩
  | _ => throw "triple expected"

def warnStr : Warn → String
  | .curNotFinite => "curNotFinite" | .bestNoReports => "bestNoReports"
  | .bestNotFinite => "bestNotFinite" | .missingSteps => "missingSteps"

def exitStr : Exit → String
  | .noReports => "noReports" | .curNotFinite => "curNotFinite" | .noBestTrial => "noBestTrial"
  | .bestNoReports => "bestNoReports" | .bestNotFinite => "bestNotFinite" | .fewCommon => "fewCommon"
  | .safety => "safety" | .final => "final"

def resJson (r : Res) (d : Dir) (best : Option IV) (cur : IV) : Json :=
  let extra : List (String × Json) :=
    match best with
    | some b =>
      if allFinite cur && allFinite b then
        [("diffs", Json.arr ((diffValues (finPart cur) (finPart b)).map (fun q => Json.str (showRat q))).toArray),
         ("avgIsBest", Json.bool (avgIsBest d ((finPart b).map (·.2)) ((finPart cur).map (·.2))))]
      else []
    | none => []
  Json.mkObj ([("prune", Json.bool r.prune), ("warns", Json.arr (r.warns.map (fun w => Json.str (warnStr w))).toArray),
    ("exit", Json.str (exitStr r.exit)),
    ("alt", Json.str (match wilcoxonAlt d with | .less => "less" | .greater => "greater"))] ++ extra)

def run (j : Json) : P Json := do
  let op ← strF j "op"
  let d ← parseDir (← field j "d")
  let c : Cfg := ⟨← parseRat (← strF j "pThr"), ← natF j "nStartup"⟩
  let cur ← parseIV (← field j "cur")
  let p ← parseV (← field j "p")
  let pv : Alt → List Rat → V := fun _ _ => p
  match op with
  | "prune" =>
    let best ← match optF j "best" with
      | none => pure none
      | some b => do pure (some (← parseIV b))
    return resJson (prune pv c d best cur) d best cur
  | "study" =>
    let done ← mapM' parseDone (← arrF j "done")
    let b := bestOf d done
    let r := resJson (pruneInStudy pv c d done cur) d (b.map (·.iv)) cur
    return r.setObjVal! "best" (match b with | none => Json.null | some t => (t.number : Json))
  | s => throw s!"unknown op {s}"

def handle (j : Json) : Json :=
  match run j with
  | .ok r => r
  | .error e => Json.mkObj [("k", "bad-op"), ("why", e)]

/-- entry point: `driver wilcoxon` -/
def main : IO Unit := Driver.lineMap handle

end Driver.Sub.Wilcoxon
