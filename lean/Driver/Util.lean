import Lean.Data.Json
import OptunaVerif.Model.Basic
/-! JSON helpers shared by the sub-drivers (line protocol; see verif/core.py `Driver`). -/
open Lean
namespace Driver
open OptunaVerif

abbrev P := Except String

def field (j : Json) (k : String) : P Json := j.getObjVal? k
def fieldD (j : Json) (k : String) (d : Json) : Json := (j.getObjVal? k).toOption.getD d
def strF (j : Json) (k : String) : P String := do (← field j k).getStr?
def natF (j : Json) (k : String) : P Nat := do (← field j k).getNat?
def intF (j : Json) (k : String) : P Int := do (← field j k).getInt?
def boolF (j : Json) (k : String) : P Bool := do (← field j k).getBool?
def arrF (j : Json) (k : String) : P (List Json) := do return (← (← field j k).getArr?).toList
def optF (j : Json) (k : String) : Option Json :=
  match j.getObjVal? k with
  | .ok v => if v.isNull then none else some v
  | .error _ => none

/-- `"n/d"` (d > 0), or an integer literal. -/
def parseRat (s : String) : P Rat :=
  match s.splitOn "/" with
  | [n, d] =>
    match n.toInt?, d.toNat? with
    | some n, some d => if d = 0 then throw s!"bad rational {s}" else pure (mkRat n d)
    | _, _ => throw s!"bad rational {s}"
  | [n] =>
    match n.toInt? with
    | some n => pure (n : Rat)
    | none => throw s!"bad rational {s}"
  | _ => throw s!"bad rational {s}"

def showRat (q : Rat) : String := s!"{q.num}/{q.den}"

def parseXVal (j : Json) : P XVal := do
  let s ← j.getStr?
  if s == "inf" then return .pinf
  else if s == "-inf" then return .ninf
  else if s == "nan" then return .nan
  else return .fin (← parseRat s)

def showXVal : XVal → String
  | .pinf => "inf" | .ninf => "-inf" | .nan => "nan" | .fin q => showRat q

def parseState (j : Json) : P TState := do
  match TState.ofCode? (← j.getNat?) with
  | some s => pure s
  | none => throw "bad state code"

def mapM' {α β} (f : α → P β) : List α → P (List β)
  | [] => pure []
  | a :: t => do return (← f a) :: (← mapM' f t)

/-- dict encoded as an array of `[key, value]` pairs -/
def parsePairs {β} (f : Json → P β) (j : Json) : P (List (String × β)) := do
  mapM' (fun p => do
    let a ← p.getArr?
    match a.toList with
    | [k, v] => return (← k.getStr?, ← f v)
    | _ => throw "pair expected") (← j.getArr?).toList

def objOfAList {β} (f : β → Json) (l : List (String × β)) : Json := Json.mkObj (l.map (fun p => (p.1, f p.2)))

def optJson {β} (f : β → Json) : Option β → Json
  | none => Json.null
  | some b => f b

/-- Generic stateful line loop: one JSON value in, one JSON value out, flushed after every line. -/
partial def lineLoopAux {σ : Type} (h out : IO.FS.Stream) (handle : σ → Json → σ × Json) (st : σ) : IO Unit := do
  let line ← h.getLine
  if line.isEmpty then return ()
  let (st', resp) :=
    match Json.parse line with
    | .ok j => handle st j
    | .error e => (st, Json.mkObj [("k", "bad-json"), ("why", e)])
  out.putStrLn resp.compress
  out.flush
  lineLoopAux h out handle st'

def lineLoop {σ : Type} (handle : σ → Json → σ × Json) (init : σ) : IO Unit := do
  lineLoopAux (← IO.getStdin) (← IO.getStdout) handle init

/-- Stateless variant. -/
def lineMap (f : Json → Json) : IO Unit :=
  lineLoop (fun (_ : Unit) j => ((), f j)) ()

end Driver
