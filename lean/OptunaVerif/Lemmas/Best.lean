import OptunaVerif.Model.Best
/-! Helper lemmas for Props/C12: `EVal` is a linear order (so that `grind` decides order goals), Python
`min`/`max`, the COMPLETE-trial listing, `np.unique(axis=0)`, the three Pareto paths. Core Lean only. -/
namespace OptunaVerif.Best
open OptunaVerif

/-- equality of `Study.best_trial` results is decidable (only used by the `decide`d examples) -/
instance : DecidableEq (Except Err Nat)
  | .ok a, .ok b => if h : a = b then isTrue (by rw [h]) else isFalse (by intro h'; cases h'; exact h rfl)
  | .error a, .error b => if h : a = b then isTrue (by rw [h]) else isFalse (by intro h'; cases h'; exact h rfl)
  | .ok _, .error _ => isFalse (by intro h; cases h)
  | .error _, .ok _ => isFalse (by intro h; cases h)

/-! ## the order on values -/

theorem EVal.le_refl' (a : EVal) : a ≤ a := by
  cases a <;> simp [LE.le, EVal.le, EVal.toX, XVal.le]
  exact Rat.le_refl
theorem EVal.le_trans' {a b c : EVal} : a ≤ b → b ≤ c → a ≤ c := by
  cases a <;> cases b <;> cases c <;> simp [LE.le, EVal.le, EVal.toX, XVal.le]
  exact Rat.le_trans
theorem EVal.le_antisymm' {a b : EVal} : a ≤ b → b ≤ a → a = b := by
  cases a <;> cases b <;> simp [LE.le, EVal.le, EVal.toX, XVal.le]
  exact Rat.le_antisymm
theorem EVal.le_total' (a b : EVal) : a ≤ b ∨ b ≤ a := by
  cases a <;> cases b <;> simp [LE.le, EVal.le, EVal.toX, XVal.le]
  exact Rat.le_total

instance : Std.IsPreorder EVal where
  le_refl := EVal.le_refl'
  le_trans _ _ _ := EVal.le_trans'
instance : Std.IsPartialOrder EVal where
  le_antisymm _ _ := EVal.le_antisymm'
instance : Std.IsLinearOrder EVal where
  le_total := EVal.le_total'
instance : Std.LawfulOrderLT EVal where
  lt_iff a b := by
    show EVal.le b a = false ↔ (EVal.le a b = true ∧ ¬ EVal.le b a = true)
    have := EVal.le_total' a b
    simp only [LE.le] at this
    cases h : EVal.le b a <;> simp_all

@[simp] theorem EVal.le_iff (a b : EVal) : EVal.le a b = true ↔ a ≤ b := Iff.rfl
@[simp] theorem EVal.le_false_iff (a b : EVal) : EVal.le a b = false ↔ b < a := Iff.rfl
@[simp] theorem EVal.lt_iff (a b : EVal) : EVal.lt a b = true ↔ a < b := by
  show (!EVal.le b a) = true ↔ EVal.le b a = false
  cases EVal.le b a <;> decide
@[simp] theorem EVal.lt_false_iff (a b : EVal) : EVal.lt a b = false ↔ b ≤ a := by
  show (!EVal.le b a) = false ↔ EVal.le b a = true
  cases EVal.le b a <;> decide

theorem betterEq_min (a b : EVal) : betterEq .minimize a b = true ↔ a ≤ b := Iff.rfl
theorem betterEq_max (a b : EVal) : betterEq .maximize a b = true ↔ b ≤ a := Iff.rfl
theorem better_min (a b : EVal) : better .minimize a b = true ↔ a < b := by
  simp [better, betterEq]
theorem better_max (a b : EVal) : better .maximize a b = true ↔ b < a := by
  simp [better, betterEq]

theorem betterEq_refl (d : Dir) (a : EVal) : betterEq d a a = true := by
  cases d <;> simp [betterEq] <;> grind
theorem betterEq_trans (d : Dir) {a b c : EVal} (h1 : betterEq d a b = true) (h2 : betterEq d b c = true) :
    betterEq d a c = true := by
  cases d <;> simp [betterEq] at * <;> grind
theorem betterEq_total (d : Dir) (a b : EVal) : betterEq d a b = true ∨ betterEq d b a = true := by
  cases d <;> simp [betterEq] <;> grind
theorem betterEq_antisymm (d : Dir) {a b : EVal} (h1 : betterEq d a b = true) (h2 : betterEq d b a = true) : a = b := by
  cases d <;> simp [betterEq] at * <;> grind
theorem better_iff_not (d : Dir) (a b : EVal) : better d a b = true ↔ betterEq d b a = false := by
  simp [better]
theorem not_better_iff (d : Dir) (a b : EVal) : better d a b = false ↔ betterEq d b a = true := by
  simp [better]


/-! ## Python `min` / `max` -/

theorem foldl_pick_spec {α : Type} (beats : α → α → Bool)
    (hirr : ∀ a, beats a a = false)
    (htr : ∀ y c z, beats y c = true → beats z c = false → beats z y = false)
    (xs : List α) (x : α) (seen : List α) (hs : ∀ z ∈ seen, beats z x = false) :
    let r := xs.foldl (fun cur y => if beats y cur then y else cur) x
    (r = x ∨ r ∈ xs) ∧ (∀ z ∈ seen, beats z r = false) ∧ beats x r = false ∧ (∀ z ∈ xs, beats z r = false) := by
  induction xs generalizing x seen with
  | nil => simp [hirr]; exact hs
  | cons y ys ih =>
    simp only [List.foldl_cons]
    by_cases hb : beats y x = true
    · simp only [hb, if_true]
      have := ih y (x :: seen) (by
        intro z hz
        rcases List.mem_cons.mp hz with rfl | hz
        · exact htr _ _ _ hb (hirr _)
        · exact htr _ _ _ hb (hs z hz))
      obtain ⟨h1, h2, h3, h4⟩ := this
      refine ⟨?_, ?_, ?_, ?_⟩
      · rcases h1 with h1 | h1
        · right; simp [h1]
        · right; simp [h1]
      · intro z hz; exact h2 z (List.mem_cons_of_mem _ hz)
      · exact h2 x (List.mem_cons_self)
      · intro z hz
        rcases List.mem_cons.mp hz with rfl | hz
        · exact h3
        · exact h4 z hz
    · have hb' : beats y x = false := by simpa using hb
      simp only [hb', Bool.false_eq_true, if_false]
      have := ih x (y :: seen) (by
        intro z hz
        rcases List.mem_cons.mp hz with rfl | hz
        · exact hb'
        · exact hs z hz)
      obtain ⟨h1, h2, h3, h4⟩ := this
      refine ⟨?_, ?_, h3, ?_⟩
      · rcases h1 with h1 | h1
        · left; exact h1
        · right; simp [h1]
      · intro z hz; exact h2 z (List.mem_cons_of_mem _ hz)
      · intro z hz
        rcases List.mem_cons.mp hz with rfl | hz
        · exact h2 _ List.mem_cons_self
        · exact h4 z hz

theorem firstBest_none {α : Type} (beats : α → α → Bool) (l : List α) :
    firstBest beats l = none ↔ l = [] := by
  cases l <;> simp [firstBest]

theorem firstBest_some {α : Type} (beats : α → α → Bool)
    (hirr : ∀ a, beats a a = false)
    (htr : ∀ y c z, beats y c = true → beats z c = false → beats z y = false)
    (l : List α) (r : α) (h : firstBest beats l = some r) :
    r ∈ l ∧ ∀ z ∈ l, beats z r = false := by
  cases l with
  | nil => simp [firstBest] at h
  | cons x xs =>
    simp only [firstBest, Option.some.injEq] at h
    have := foldl_pick_spec beats hirr htr xs x [] (by simp)
    simp only [h] at this
    obtain ⟨h1, _, h3, h4⟩ := this
    refine ⟨?_, ?_⟩
    · rcases h1 with h1 | h1
      · simp [h1]
      · exact List.mem_cons_of_mem _ h1
    · intro z hz
      rcases List.mem_cons.mp hz with rfl | hz
      · exact h3
      · exact h4 z hz

theorem pyPick_none {α : Type} (useMax : Bool) (key : α → EVal) (l : List α) :
    pyPick useMax key l = none ↔ l = [] := firstBest_none _ l

/-- `max(xs, key)` returns an element whose key is ≥ every key; `min` one whose key is ≤ every key. -/
theorem pyPick_some {α : Type} (useMax : Bool) (key : α → EVal) (l : List α) (r : α)
    (h : pyPick useMax key l = some r) :
    r ∈ l ∧ ∀ z ∈ l, betterEq (if useMax then .maximize else .minimize) (key r) (key z) = true := by
  have := firstBest_some _ (by intro a; cases useMax <;> simp <;> grind)
    (by intro y c z; cases useMax <;> simp <;> grind) l r h
  refine ⟨this.1, ?_⟩
  intro z hz
  have h2 := this.2 z hz
  cases useMax <;> simp [betterEq] at * <;> exact h2

/-! ## listing the eligible COMPLETE trials -/

theorem complete_code (s : TState) : ([1] : List Nat).contains s.code = true ↔ s = .complete := by
  cases s <;> simp [TState.code]

theorem mem_valuedIn (states : List Nat) (p : BTrial → Bool) (ts : List BTrial) (i : Nat) (v : EVal) :
    (i, v) ∈ valuedIn states p ts ↔
      ∃ t, ts[i]? = some t ∧ states.contains t.state.code = true ∧ p t = true ∧ t.value? = some v := by
  unfold valuedIn
  rw [List.mem_filterMap]
  constructor
  · rintro ⟨⟨t, j⟩, hmem, hf⟩
    rw [List.mem_zipIdx_iff_getElem?] at hmem
    simp only at hmem hf
    split at hf
    · rename_i hc
      simp only [Bool.and_eq_true] at hc
      cases hv : t.value? with
      | none => simp [hv] at hf
      | some w =>
        simp only [hv, Option.map_some, Option.some.injEq, Prod.mk.injEq] at hf
        obtain ⟨rfl, rfl⟩ := hf
        exact ⟨t, hmem, hc.1, hc.2, hv⟩
    · simp at hf
  · rintro ⟨t, ht, hs, hp, hv⟩
    refine ⟨(t, i), ?_, ?_⟩
    · rw [List.mem_zipIdx_iff_getElem?]; exact ht
    · simp only [hs, hp, hv, Bool.and_self, if_true, Option.map_some]

/-! ## specification vocabulary -/

/-- Trial number `i` exists, is COMPLETE, satisfies the eligibility predicate `p` and has the single value `v`. -/
def CompleteAt (p : BTrial → Bool) (ts : List BTrial) (i : Nat) (v : EVal) : Prop :=
  ∃ t, ts[i]? = some t ∧ t.state = .complete ∧ p t = true ∧ t.value? = some v

/-- Trial `i` is an eligible COMPLETE trial whose value no eligible COMPLETE trial beats. -/
def IsBest (d : Dir) (p : BTrial → Bool) (ts : List BTrial) (i : Nat) : Prop :=
  ∃ v, CompleteAt p ts i v ∧ ∀ j w, CompleteAt p ts j w → betterEq d v w = true

/-- The answer of a best-trial algorithm is right: `none` (ValueError) exactly when there is no eligible COMPLETE
trial, `some i` only for an optimum. -/
def OptResult (d : Dir) (p : BTrial → Bool) (ts : List BTrial) : Option Nat → Prop
  | none => ∀ j w, ¬ CompleteAt p ts j w
  | some i => IsBest d p ts i

def anyTrial : BTrial → Bool := fun _ => true

theorem mem_valuedIn_complete (p : BTrial → Bool) (ts : List BTrial) (i : Nat) (v : EVal) :
    (i, v) ∈ valuedIn [1] p ts ↔ CompleteAt p ts i v := by
  rw [mem_valuedIn]
  simp only [complete_code, CompleteAt]

/-- Python `min`/`max` by value over the eligible COMPLETE trials is an optimum. -/
theorem pick_valuedIn_opt (d : Dir) (p : BTrial → Bool) (ts : List BTrial) :
    OptResult d p ts ((pyPick d.isMax (fun x => x.2) (valuedIn [1] p ts)).map (fun x => x.1)) := by
  cases h : pyPick d.isMax (fun x => x.2) (valuedIn [1] p ts) with
  | none =>
    rw [pyPick_none] at h
    simp only [Option.map_none, OptResult]
    intro j w hc
    rw [← mem_valuedIn_complete, h] at hc
    simp at hc
  | some r =>
    obtain ⟨i, v⟩ := r
    obtain ⟨hm, hall⟩ := pyPick_some _ _ _ _ h
    simp only [Option.map_some, OptResult, IsBest]
    refine ⟨v, (mem_valuedIn_complete _ _ _ _).mp hm, ?_⟩
    intro j w hc
    have := hall (j, w) ((mem_valuedIn_complete _ _ _ _).mpr hc)
    cases d <;> simpa [Dir.isMax] using this

/-- Two optima have the same value. -/
theorem isBest_value_unique (d : Dir) (p : BTrial → Bool) (ts : List BTrial) (i j : Nat) (v w : EVal)
    (hi : IsBest d p ts i) (hj : IsBest d p ts j) (hv : CompleteAt p ts i v) (hw : CompleteAt p ts j w) : v = w := by
  obtain ⟨v', hv', hbi⟩ := hi
  obtain ⟨w', hw', hbj⟩ := hj
  have e1 : v' = v := by
    obtain ⟨t, h1, _, _, h2⟩ := hv'; obtain ⟨t', h1', _, _, h2'⟩ := hv
    rw [h1] at h1'; cases h1'; rw [h2] at h2'; cases h2'; rfl
  have e2 : w' = w := by
    obtain ⟨t, h1, _, _, h2⟩ := hw'; obtain ⟨t', h1', _, _, h2'⟩ := hw
    rw [h1] at h1'; cases h1'; rw [h2] at h2'; cases h2'; rfl
  subst e1; subst e2
  exact betterEq_antisymm d (hbi _ _ hw) (hbj _ _ hv)

/-! ## the in-memory cache -/

/-- Every COMPLETE trial carries exactly `n` values (what `tell` / `add_trial` enforce). -/
def WF (n : Nat) (ts : List BTrial) : Prop :=
  ∀ (i : Nat) (t : BTrial), ts[i]? = some t → t.state = .complete → ∃ l, t.values = some l ∧ l.length = n

theorem value?_of_len1 (t : BTrial) (l : List EVal) (h : t.values = some l) (hl : l.length = 1) :
    ∃ v, t.value? = some v := by
  match l, hl with
  | [v], _ => exact ⟨v, by simp [BTrial.value?, h]⟩

theorem better_imp_betterEq (d : Dir) (a b : EVal) (h : better d a b = true) : betterEq d a b = true := by
  cases d <;> simp [better, betterEq] at * <;> grind

/-- The comparison of `_update_cache`, with the operators and branches read from the source, is
"the new value is strictly better than the cached one". -/
theorem memReplace_eq (d : Dir) (bv nv : EVal) : memReplace d bv nv = better d nv bv := by
  cases d <;> cases bv <;> cases nv <;>
    simp [memReplace, Dir.isMax, cmpE, cmpX, xlt, better, betterEq, EVal.le, EVal.toX, XVal.le,
      Generated.Best.memFirstBranchIsMaximize, Generated.Best.memFirstCmp, Generated.Best.memElseCmp]
  all_goals (intro h; exact (Rat.le_total).resolve_left h)

theorem completeAt_congr (p : BTrial → Bool) (ts ts' : List BTrial) (j : Nat) (h : ts'[j]? = ts[j]?) (w : EVal) :
    CompleteAt p ts' j w ↔ CompleteAt p ts j w := by
  simp only [CompleteAt, h]

/-- "`best` is right if trial `i` is ignored" — the state of the cache between the write of trial `i` and
the call of `_update_cache(i)`. -/
def OptExcept (d : Dir) (ts : List BTrial) (i : Nat) : Option Nat → Prop
  | none => ∀ j w, j ≠ i → ¬ CompleteAt anyTrial ts j w
  | some b => b ≠ i ∧ ∃ v, CompleteAt anyTrial ts b v ∧ ∀ j w, j ≠ i → CompleteAt anyTrial ts j w → betterEq d v w = true

theorem updateCache_trials (dirs : List Dir) (m : Mem) (i : Nat) : (Mem.updateCache dirs m i).trials = m.trials := by
  unfold Mem.updateCache
  repeat' split
  all_goals rfl

theorem updateCache_spec (d : Dir) (m : Mem) (i : Nat) (hwf : WF 1 m.trials) (hex : OptExcept d m.trials i m.best) :
    OptResult d anyTrial m.trials (Mem.updateCache [d] m i).best := by
  unfold Mem.updateCache
  cases hti : m.trials[i]? with
  | none =>
    -- nothing at `i`
    simp only
    cases hb : m.best with
    | none =>
      rw [hb] at hex
      intro j w hc
      by_cases hj : j = i
      · subst hj; obtain ⟨t, ht, _⟩ := hc; rw [hti] at ht; cases ht
      · exact hex j w hj hc
    | some b =>
      rw [hb] at hex
      obtain ⟨_, v, hv, hall⟩ := hex
      refine ⟨v, hv, ?_⟩
      intro j w hc
      by_cases hj : j = i
      · subst hj; obtain ⟨t, ht, _⟩ := hc; rw [hti] at ht; cases ht
      · exact hall j w hj hc
  | some t =>
    simp only [Generated.Best.memSkipsNonComplete, Bool.true_and]
    by_cases hst : t.state = .complete
    · -- the new trial is COMPLETE
      obtain ⟨l, hl, hlen⟩ := hwf i t hti hst
      obtain ⟨nv, hnv⟩ := value?_of_len1 t l hl hlen
      have hci : CompleteAt anyTrial m.trials i nv := ⟨t, hti, hst, rfl, hnv⟩
      have hci_unique : ∀ w, CompleteAt anyTrial m.trials i w → w = nv := by
        intro w ⟨t', ht', _, _, hw⟩
        rw [hti] at ht'; cases ht'; rw [hnv] at hw; cases hw; rfl
      simp only [hst, bne_self_eq_false, Bool.false_eq_true, if_false]
      cases hb : m.best with
      | none =>
        rw [hb] at hex
        refine ⟨nv, hci, ?_⟩
        intro j w hc
        by_cases hj : j = i
        · subst hj; rw [hci_unique w hc]; exact betterEq_refl d nv
        · exact absurd hc (hex j w hj)
      | some b =>
        rw [hb] at hex
        obtain ⟨hbi, v, hv, hall⟩ := hex
        obtain ⟨tb, htb, _, _, hvb⟩ := hv
        simp only [htb, Option.bind_some, hvb, hnv, memReplace_eq]
        by_cases hbt : better d nv v = true
        · simp only [hbt, if_true]
          refine ⟨nv, hci, ?_⟩
          intro j w hc
          by_cases hj : j = i
          · subst hj; rw [hci_unique w hc]; exact betterEq_refl d nv
          · exact betterEq_trans d (better_imp_betterEq d _ _ hbt) (hall j w hj hc)
        · have hbf : better d nv v = false := by simpa using hbt
          simp only [hbf, Bool.false_eq_true, if_false]
          rw [hb]
          refine ⟨v, ⟨tb, htb, by assumption, rfl, hvb⟩, ?_⟩
          intro j w hc
          by_cases hj : j = i
          · subst hj; rw [hci_unique w hc]; exact (not_better_iff d nv v).mp hbf
          · exact hall j w hj hc
    · -- not COMPLETE: the cache is left alone
      have hne : (t.state != TState.complete) = true := by simpa using hst
      simp only [hne, if_true]
      cases hb : m.best with
      | none =>
        rw [hb] at hex
        intro j w hc
        by_cases hj : j = i
        · subst hj; obtain ⟨t', ht', hs', _⟩ := hc; rw [hti] at ht'; cases ht'; exact hst hs'
        · exact hex j w hj hc
      | some b =>
        rw [hb] at hex
        obtain ⟨_, v, hv, hall⟩ := hex
        refine ⟨v, hv, ?_⟩
        intro j w hc
        by_cases hj : j = i
        · subst hj; obtain ⟨t', ht', hs', _⟩ := hc; rw [hti] at ht'; cases ht'; exact absurd hs' hst
        · exact hall j w hj hc


theorem optExcept_of_frame (d : Dir) (ts ts' : List BTrial) (i : Nat) (best : Option Nat)
    (hframe : ∀ j, j ≠ i → ts'[j]? = ts[j]?) (hopt : OptResult d anyTrial ts best)
    (hnot : ∀ w, ¬ CompleteAt anyTrial ts i w) : OptExcept d ts' i best := by
  cases best with
  | none =>
    intro j w hj hc
    exact hopt j w ((completeAt_congr _ _ _ j (hframe j hj) w).mp hc)
  | some b =>
    obtain ⟨v, hv, hall⟩ := hopt
    have hbi : b ≠ i := by
      intro h; subst h; exact hnot v hv
    refine ⟨hbi, v, (completeAt_congr _ _ _ b (hframe b hbi) v).mpr hv, ?_⟩
    intro j w hj hc
    exact hall j w ((completeAt_congr _ _ _ j (hframe j hj) w).mp hc)

theorem optResult_of_same (d : Dir) (ts ts' : List BTrial) (best : Option Nat)
    (hsame : ∀ j w, CompleteAt anyTrial ts' j w ↔ CompleteAt anyTrial ts j w)
    (hopt : OptResult d anyTrial ts best) : OptResult d anyTrial ts' best := by
  cases best with
  | none => intro j w hc; exact hopt j w ((hsame j w).mp hc)
  | some b =>
    obtain ⟨v, hv, hall⟩ := hopt
    exact ⟨v, (hsame b v).mpr hv, fun j w hc => hall j w ((hsame j w).mp hc)⟩

/-- The invariant of the in-memory storage of a single-objective study. -/
def MemInv (d : Dir) (m : Mem) : Prop := WF 1 m.trials ∧ OptResult d anyTrial m.trials m.best

theorem valuesOK_complete (n : Nat) (vals : Option (List EVal)) (h : valuesOK n .complete vals = true) :
    ∃ l, vals = some l ∧ l.length = n := by
  cases vals with
  | none => simp [valuesOK] at h
  | some l => exact ⟨l, rfl, by simpa [valuesOK] using h⟩

theorem not_finished_not_complete (s : TState) (h : s.isFinished = false) : s ≠ .complete := by
  intro hs; subst hs; simp [TState.isFinished] at h

theorem memStep_inv (d : Dir) (m : Mem) (ev : Ev) (h : MemInv d m) : MemInv d (Mem.step [d] m ev) := by
  obtain ⟨hwf, hopt⟩ := h
  cases ev with
  | create st vals c =>
    simp only [Mem.step, List.length_cons, List.length_nil, Nat.zero_add]
    by_cases hok : valuesOK 1 st vals = true
    · simp only [hok, Bool.not_true, Bool.false_eq_true, if_false]
      -- the list after the append
      have hframe : ∀ j, j ≠ m.trials.length →
          (m.trials ++ [({ state := st, values := vals, cons := c } : BTrial)])[j]? = m.trials[j]? := by
        intro j hj
        rcases Nat.lt_or_ge j m.trials.length with hlt | hge
        · exact List.getElem?_append_left hlt
        · have : m.trials.length < j := by omega
          rw [List.getElem?_eq_none (by simp; omega), List.getElem?_eq_none (by omega)]
      have hwf' : WF 1 (m.trials ++ [({ state := st, values := vals, cons := c } : BTrial)]) := by
        intro j t ht hs
        by_cases hj : j = m.trials.length
        · subst hj
          simp at ht
          subst ht
          simp only at hs
          subst hs
          exact valuesOK_complete 1 vals hok
        · rw [hframe j hj] at ht; exact hwf j t ht hs
      have hnot : ∀ w, ¬ CompleteAt anyTrial m.trials m.trials.length w := by
        intro w ⟨t, ht, _⟩; simp at ht
      have hex := optExcept_of_frame d m.trials _ m.trials.length m.best hframe hopt hnot
      refine ⟨?_, ?_⟩
      · rw [updateCache_trials]; exact hwf'
      · rw [updateCache_trials]
        exact updateCache_spec d { m with trials := m.trials ++ [{ state := st, values := vals, cons := c }] }
          m.trials.length hwf' hex
    · have : valuesOK 1 st vals = false := by simpa using hok
      simp only [this, Bool.not_false, if_true]
      exact ⟨hwf, hopt⟩
  | setState i st vals =>
    simp only [Mem.step, List.length_cons, List.length_nil, Nat.zero_add]
    cases hti : m.trials[i]? with
    | none => exact ⟨hwf, hopt⟩
    | some t =>
      simp only
      by_cases hfin : t.state.isFinished = true
      · simp only [hfin, if_true]; exact ⟨hwf, hopt⟩
      have hfin' : t.state.isFinished = false := by simpa using hfin
      simp only [hfin', Bool.false_eq_true, if_false]
      split
      · exact ⟨hwf, hopt⟩
      by_cases hok : valuesOK 1 st (vals.or t.values) = true
      · simp only [hok, Bool.not_true, Bool.false_eq_true, if_false]
        have hframe : ∀ j, j ≠ i →
            (updAt m.trials i (fun t1 => { t1 with state := st, values := vals.or t.values }))[j]? = m.trials[j]? := by
          intro j hj; rw [updAt_getElem?]; simp [hj]
        have hat : (updAt m.trials i (fun t1 => { t1 with state := st, values := vals.or t.values }))[i]?
            = some { t with state := st, values := vals.or t.values } := by
          rw [updAt_getElem?]; simp [hti]
        have hwf' : WF 1 (updAt m.trials i (fun t1 => { t1 with state := st, values := vals.or t.values })) := by
          intro j t' ht' hs
          by_cases hj : j = i
          · subst hj
            rw [hat] at ht'; cases ht'
            simp only at hs
            subst hs
            exact valuesOK_complete 1 _ hok
          · rw [hframe j hj] at ht'; exact hwf j t' ht' hs
        have hnot : ∀ w, ¬ CompleteAt anyTrial m.trials i w := by
          intro w ⟨t', ht', hs', _⟩
          rw [hti] at ht'; cases ht'
          exact not_finished_not_complete _ hfin' hs'
        by_cases hsf : st.isFinished = true
        · simp only [hsf, if_true]
          have hex := optExcept_of_frame d m.trials _ i m.best hframe hopt hnot
          refine ⟨?_, ?_⟩
          · rw [updateCache_trials]; exact hwf'
          · rw [updateCache_trials]
            exact updateCache_spec d
              { m with trials := updAt m.trials i (fun t1 => { t1 with state := st, values := vals.or t.values }) } i hwf' hex
        · have hsf' : st.isFinished = false := by simpa using hsf
          simp only [hsf', Bool.false_eq_true, if_false]
          refine ⟨hwf', optResult_of_same d m.trials _ m.best ?_ hopt⟩
          intro j w
          by_cases hj : j = i
          · subst hj
            constructor
            · intro ⟨t', ht', hs', _⟩
              rw [hat] at ht'; cases ht'
              exact absurd hs' (not_finished_not_complete _ hsf')
            · intro hc; exact absurd hc (hnot w)
          · exact completeAt_congr _ _ _ j (hframe j hj) w
      · have : valuesOK 1 st (vals.or t.values) = false := by simpa using hok
        simp only [this, Bool.not_false, if_true]
        exact ⟨hwf, hopt⟩
  | setCons i c =>
    simp only [Mem.step]
    cases hti : m.trials[i]? with
    | none => exact ⟨hwf, hopt⟩
    | some t =>
      simp only
      by_cases hfin : t.state.isFinished = true
      · simp only [hfin, if_true]; exact ⟨hwf, hopt⟩
      have hfin' : t.state.isFinished = false := by simpa using hfin
      simp only [hfin', Bool.false_eq_true, if_false]
      have hframe : ∀ j, j ≠ i → (updAt m.trials i (fun t => { t with cons := c }))[j]? = m.trials[j]? := by
        intro j hj; rw [updAt_getElem?]; simp [hj]
      have hat : (updAt m.trials i (fun t => { t with cons := c }))[i]? = some { t with cons := c } := by
        rw [updAt_getElem?]; simp [hti]
      refine ⟨?_, optResult_of_same d m.trials _ m.best ?_ hopt⟩
      · intro j t' ht' hs
        by_cases hj : j = i
        · subst hj
          rw [hat] at ht'; cases ht'
          exact absurd hs (not_finished_not_complete _ hfin')
        · rw [hframe j hj] at ht'; exact hwf j t' ht' hs
      · intro j w
        by_cases hj : j = i
        · subst hj
          constructor
          · intro ⟨t', ht', hs', _⟩
            rw [hat] at ht'; cases ht'
            exact absurd hs' (not_finished_not_complete _ hfin')
          · intro ⟨t', ht', hs', _⟩
            rw [hti] at ht'; cases ht'
            exact absurd hs' (not_finished_not_complete _ hfin')
        · exact completeAt_congr _ _ _ j (hframe j hj) w

theorem memRun_inv_from (d : Dir) (m : Mem) (evs : List Ev) (h : MemInv d m) : MemInv d (evs.foldl (Mem.step [d]) m) := by
  induction evs generalizing m with
  | nil => exact h
  | cons ev evs ih => exact ih _ (memStep_inv d m ev h)

theorem memInit_inv (d : Dir) : MemInv d Mem.init := by
  refine ⟨?_, ?_⟩
  · intro i t ht; simp [Mem.init] at ht
  · intro j w ⟨t, ht, _⟩; simp [Mem.init] at ht


/-! ## the RDB query -/

theorem rat_lt_decide (a b : Rat) : decide (a < b) = !decide (b ≤ a) := by
  by_cases h : b ≤ a
  · have : ¬ a < b := fun h2 => (Rat.not_le.mpr h2) h
    simp [h, this]
  · have : a < b := Rat.not_le.mp h
    simp [h, this]

theorem filterMap_congr' {α β : Type} (f g : α → Option β) (l : List α) (h : ∀ x ∈ l, f x = g x) :
    l.filterMap f = l.filterMap g := by
  induction l with
  | nil => rfl
  | cons a t ih =>
    simp only [List.filterMap_cons, h a List.mem_cons_self]
    rw [ih (fun x hx => h x (List.mem_cons_of_mem _ hx))]

theorem decode_encode (v : EVal) : decode (encode v) = some v := by
  cases v <;> rfl

/-- **The ORDER BY key is order-isomorphic to the order on values** (incl. ±∞): on stored representations of
values, "sorts strictly before" under the `find_min…` query is `<`, under the `find_max…` query it is `>`. -/
theorem sqlBefore_encode (useMax : Bool) (a b : EVal) :
    sqlBefore useMax (encode a) (encode b) = if useMax then b.lt a else a.lt b := by
  cases useMax <;> cases a <;> cases b <;>
    simp [sqlBefore, encode, rankOf, nullLt, EVal.lt, EVal.le, EVal.toX, XVal.le,
      Generated.Best.minRankInfNeg, Generated.Best.minRankFinite, Generated.Best.minRankInfPos,
      Generated.Best.maxRankInfNeg, Generated.Best.maxRankFinite, Generated.Best.maxRankInfPos,
      Generated.Best.minRankAsc, Generated.Best.minValueAsc, Generated.Best.maxRankAsc, Generated.Best.maxValueAsc]
  all_goals exact rat_lt_decide _ _

theorem foldl_pick_map {α β : Type} (f : α → β) (beats : α → α → Bool) (beats' : β → β → Bool)
    (h : ∀ y c, beats' (f y) (f c) = beats y c) (xs : List α) (x : α) :
    (xs.map f).foldl (fun cur y => if beats' y cur then y else cur) (f x)
      = f (xs.foldl (fun cur y => if beats y cur then y else cur) x) := by
  induction xs generalizing x with
  | nil => rfl
  | cons y ys ih =>
    simp only [List.map_cons, List.foldl_cons, h]
    by_cases hb : beats y x = true
    · simp only [hb, if_true]; exact ih y
    · have : beats y x = false := by simpa using hb
      simp only [this, Bool.false_eq_true, if_false]; exact ih x

theorem firstBest_map {α β : Type} (f : α → β) (beats : α → α → Bool) (beats' : β → β → Bool)
    (h : ∀ y c, beats' (f y) (f c) = beats y c) (l : List α) :
    firstBest beats' (l.map f) = (firstBest beats l).map f := by
  cases l with
  | nil => rfl
  | cons x xs => simp only [List.map_cons, firstBest, Option.map_some, foldl_pick_map f beats beats' h]


theorem value?_of_values (t : BTrial) (v : EVal) (h : t.values = some [v]) : t.value? = some v := by
  simp [BTrial.value?, h]

/-- What the RDB query sees is the scan's list, value by value in stored form (single-objective, well-formed). -/
theorem rdbCandidates_eq (useMax : Bool) (ts : List BTrial) (hwf : WF 1 ts) :
    rdbCandidates useMax (ts.map toRow) = (valuedIn [1] anyTrial ts).map (fun x => (x.1, encode x.2)) := by
  unfold rdbCandidates valuedIn
  rw [List.zipIdx_map, List.filterMap_map, List.map_filterMap]
  apply filterMap_congr'
  intro x hx
  obtain ⟨t, i⟩ := x
  rw [List.mem_zipIdx_iff_getElem?] at hx
  simp only at hx
  simp only [Function.comp, Prod.map, id, toRow, complete_code, anyTrial, Bool.and_true,
    Generated.Best.maxFilterComplete, Generated.Best.minFilterComplete, Generated.Best.rdbObjectiveIndex]
  by_cases hs : t.state = .complete
  · obtain ⟨l, hl, hlen⟩ := hwf i t hx hs
    match l, hlen with
    | [v], _ =>
      cases useMax <;> simp [hs, hl, BTrial.value?]
  · cases useMax <;> simp [hs]


theorem baseUseMax_eq (d : Dir) : baseUseMax d = d.isMax := by
  cases d <;> rfl
theorem rdbUseMax_eq (d : Dir) : rdbUseMax d = d.isMax := by
  cases d <;> rfl
theorem studyUseMax_eq (d : Dir) : studyUseMax d = d.isMax := by
  cases d <;> rfl

theorem scanBest_eq (d : Dir) (ts : List BTrial) :
    scanBest d ts = (pyPick d.isMax (fun x => x.2) (valuedIn [1] anyTrial ts)).map (fun x => x.1) := by
  simp only [scanBest, baseUseMax_eq, Generated.Best.baseStates]
  rfl

/-- On well-formed single-objective histories the SQL query returns what the scan returns. -/
theorem rdbBest_eq_scan (d : Dir) (ts : List BTrial) (hwf : WF 1 ts) : rdbBest d ts = scanBest d ts := by
  rw [scanBest_eq]
  simp only [rdbBest, rdbBestRows, rdbUseMax_eq, rdbCandidates_eq _ ts hwf]
  rw [firstBest_map (fun x : Nat × EVal => (x.1, encode x.2))
    (fun y cur => if d.isMax then cur.2.lt y.2 else y.2.lt cur.2)
    (fun y cur => sqlBefore d.isMax y.2 cur.2) (fun y c => sqlBefore_encode d.isMax y.2 c.2)]
  simp only [pyPick, Option.map_map]
  rfl


/-! ## Study.best_trial: the constraint fallback -/

theorem violatedList_eq (cs : List XVal) : violatedList cs = cs.any (fun x => xlt zero x) := by
  simp [violatedList, Generated.Best.studyViolationIsAny, Generated.Best.studyViolationCmp, cmpX]

theorem feasibleList_eq (cs : List XVal) : feasibleList cs = cs.all (fun x => x.le zero) := by
  simp [feasibleList, Generated.Best.feasibleIsAll, Generated.Best.feasibleCmp, cmpX]

theorem xlt_zero_of_not_nan (x : XVal) (h : x ≠ .nan) : xlt zero x = !(x.le zero) := by
  cases x with
  | nan => exact absurd rfl h
  | ninf => simp [xlt, zero, XVal.le]
  | pinf => simp [xlt, zero, XVal.le]
  | fin q =>
    simp only [xlt, zero, XVal.le]
    by_cases hq : q ≤ 0
    · simp [hq]
    · have : (0 : Rat) ≤ q := (Rat.le_total).resolve_left hq
      simp [hq, this]

/-- For NaN-free recorded constraints "violated" (`any(x > 0)`, study.py) is the negation of "feasible"
(`all(x <= 0)`, `_get_feasible_trials`). -/
theorem violatedList_iff_not_feasible (cs : List XVal) (h : ∀ x ∈ cs, x ≠ .nan) :
    violatedList cs = !feasibleList cs := by
  rw [violatedList_eq, feasibleList_eq]
  induction cs with
  | nil => rfl
  | cons x t ih =>
    simp only [List.any_cons, List.all_cons, xlt_zero_of_not_nan x (h x List.mem_cons_self),
      ih (fun y hy => h y (List.mem_cons_of_mem _ hy)), Bool.not_and]

theorem completeAt_mono (p : BTrial → Bool) (ts : List BTrial) (j : Nat) (w : EVal) (h : CompleteAt p ts j w) :
    CompleteAt anyTrial ts j w := by
  obtain ⟨t, h1, h2, _, h4⟩ := h
  exact ⟨t, h1, h2, rfl, h4⟩

/-- `Study.best_trial` after the storage answered `b`: either `b` is returned (it records no violation), or `b`
records a violation and the result is an optimum of the feasible COMPLETE trials / `ValueError` when there is none. -/
theorem fallback_spec (d : Dir) (ts : List BTrial) (b : Nat) (tb : BTrial) (hb : ts[b]? = some tb) :
    match fallback d ts b with
    | .ok r => (violated tb = false ∧ r = b) ∨ (violated tb = true ∧ IsBest d feasible ts r)
    | .error _ => violated tb = true ∧ ∀ j w, ¬ CompleteAt feasible ts j w := by
  unfold fallback
  simp only [hb, Generated.Best.studyFallbackStates, Generated.Best.studyFallbackFiltersFeasible, Bool.not_true,
    Bool.false_or, studyUseMax_eq]
  by_cases hv : violated tb = true
  · simp only [hv, if_true]
    have hopt := pick_valuedIn_opt d feasible ts
    have hfun : (fun t => feasible t) = feasible := rfl
    rw [hfun]
    cases hp : pyPick d.isMax (fun x => x.2) (valuedIn [1] feasible ts) with
    | none =>
      rw [hp] at hopt
      exact ⟨trivial, hopt⟩
    | some x =>
      rw [hp] at hopt
      exact Or.inr ⟨trivial, hopt⟩
  · have hv' : violated tb = false := by simpa using hv
    simp only [hv', Bool.false_eq_true, if_false]
    exact Or.inl ⟨trivial, trivial⟩


/-! ## points: dominance and the lexicographic order -/

/-! points of equal length -/

theorem EVal.beq_iff (a b : EVal) : (a == b) = true ↔ a = b := by simp

theorem allLe_refl (a : Point) : allLe a a = true := by
  induction a with
  | nil => rfl
  | cons x t ih => simp only [allLe, ih, Bool.and_true, EVal.le_iff]; grind

theorem anyLt_eq_not_allLe (a b : Point) (h : a.length = b.length) : anyLt a b = !allLe b a := by
  induction a generalizing b with
  | nil => cases b <;> simp [anyLt, allLe] at *
  | cons x t ih =>
    cases b with
    | nil => simp at h
    | cons y s =>
      simp only [List.length_cons, Nat.add_right_cancel_iff] at h
      simp only [anyLt, allLe, ih s h, Bool.not_and]
      congr 1

theorem allLe_trans (a b c : Point) (h1 : a.length = b.length) (h2 : b.length = c.length)
    (hab : allLe a b = true) (hbc : allLe b c = true) : allLe a c = true := by
  induction a generalizing b c with
  | nil => cases c <;> simp [allLe]
  | cons x t ih =>
    cases b with
    | nil => simp at h1
    | cons y s =>
      cases c with
      | nil => simp at h2
      | cons z r =>
        simp only [List.length_cons, Nat.add_right_cancel_iff] at h1 h2
        simp only [allLe, Bool.and_eq_true, EVal.le_iff] at *
        exact ⟨by grind, ih s r h1 h2 hab.2 hbc.2⟩

theorem allLe_antisymm (a b : Point) (h : a.length = b.length)
    (hab : allLe a b = true) (hba : allLe b a = true) : a = b := by
  induction a generalizing b with
  | nil => cases b <;> simp at h ⊢
  | cons x t ih =>
    cases b with
    | nil => simp at h
    | cons y s =>
      simp only [List.length_cons, Nat.add_right_cancel_iff] at h
      simp only [allLe, Bool.and_eq_true, EVal.le_iff] at *
      have : x = y := by grind
      rw [this, ih s h hab.2 hba.2]

/-- For points of equal length: `a` dominates `b` iff `a ≤ b` componentwise and `a ≠ b`. -/
theorem dominates_iff (a b : Point) (h : a.length = b.length) :
    dominates a b = true ↔ allLe a b = true ∧ a ≠ b := by
  simp only [dominates, Bool.and_eq_true, anyLt_eq_not_allLe a b h, Bool.not_eq_true']
  constructor
  · rintro ⟨h1, h2⟩
    refine ⟨h1, ?_⟩
    rintro rfl
    rw [allLe_refl] at h2; cases h2
  · rintro ⟨h1, h2⟩
    refine ⟨h1, ?_⟩
    cases hba : allLe b a with
    | false => rfl
    | true => exact absurd (allLe_antisymm a b h h1 hba) h2

theorem dominates_trans (a b c : Point) (h1 : a.length = b.length) (h2 : b.length = c.length)
    (hab : dominates a b = true) (hbc : dominates b c = true) : dominates a c = true := by
  rw [dominates_iff a b h1] at hab
  rw [dominates_iff b c h2] at hbc
  rw [dominates_iff a c (h1.trans h2)]
  refine ⟨allLe_trans a b c h1 h2 hab.1 hbc.1, ?_⟩
  rintro rfl
  exact hab.2 (allLe_antisymm a b h1 hab.1 hbc.1)

/-! lexicographic order -/

theorem lexLt_irrefl (a : Point) : lexLt a a = false := by
  induction a with
  | nil => rfl
  | cons x t ih => simp only [lexLt, ih, Bool.and_false, Bool.or_false, EVal.lt_false_iff]; grind

theorem lexLt_trans (a b c : Point) (h1 : a.length = b.length) (h2 : b.length = c.length)
    (hab : lexLt a b = true) (hbc : lexLt b c = true) : lexLt a c = true := by
  induction a generalizing b c with
  | nil => cases b <;> simp [lexLt] at *
  | cons x t ih =>
    cases b with
    | nil => simp at h1
    | cons y s =>
      cases c with
      | nil => simp at h2
      | cons z r =>
        simp only [List.length_cons, Nat.add_right_cancel_iff] at h1 h2
        simp only [lexLt, Bool.or_eq_true, Bool.and_eq_true, EVal.lt_iff, beq_iff_eq] at *
        rcases hab with hab | ⟨rfl, hab⟩
        · rcases hbc with hbc | ⟨rfl, hbc⟩
          · left; grind
          · left; exact hab
        · rcases hbc with hbc | ⟨rfl, hbc⟩
          · left; exact hbc
          · right; exact ⟨rfl, ih s r h1 h2 hab hbc⟩

theorem lexLt_trichotomy (a b : Point) (h : a.length = b.length) :
    lexLt a b = true ∨ a = b ∨ lexLt b a = true := by
  induction a generalizing b with
  | nil => cases b <;> simp at h ⊢
  | cons x t ih =>
    cases b with
    | nil => simp at h
    | cons y s =>
      simp only [List.length_cons, Nat.add_right_cancel_iff] at h
      simp only [lexLt, Bool.or_eq_true, Bool.and_eq_true, EVal.lt_iff, beq_iff_eq, List.cons.injEq]
      rcases ih s h with h1 | h1 | h1
      · by_cases hxy : x = y
        · left; right; exact ⟨hxy, h1⟩
        · grind
      · by_cases hxy : x = y
        · right; left; exact ⟨hxy, h1⟩
        · grind
      · by_cases hxy : x = y
        · right; right; right; exact ⟨hxy.symm, h1⟩
        · grind

theorem lexLt_asymm (a b : Point) (h : a.length = b.length) (hab : lexLt a b = true) : lexLt b a = false := by
  cases hba : lexLt b a with
  | false => rfl
  | true =>
    have := lexLt_trans a b a h h.symm hab hba
    rw [lexLt_irrefl] at this; cases this

/-- A dominating point comes strictly earlier in the lexicographic order. -/
theorem lexLt_of_dominates (a b : Point) (h : a.length = b.length) (hd : dominates a b = true) : lexLt a b = true := by
  rw [dominates_iff a b h] at hd
  obtain ⟨hle, hne⟩ := hd
  induction a generalizing b with
  | nil => cases b <;> simp at h hne
  | cons x t ih =>
    cases b with
    | nil => simp at h
    | cons y s =>
      simp only [List.length_cons, Nat.add_right_cancel_iff] at h
      simp only [allLe, Bool.and_eq_true, EVal.le_iff] at hle
      simp only [lexLt, Bool.or_eq_true, Bool.and_eq_true, EVal.lt_iff, beq_iff_eq]
      by_cases hxy : x = y
      · subst hxy
        right
        refine ⟨rfl, ih s h hle.2 ?_⟩
        intro hts; exact hne (by rw [hts])
      · left; grind

theorem head_le_of_lexLt (x y : EVal) (t s : Point) (h : lexLt (x :: t) (y :: s) = true) : x ≤ y := by
  simp only [lexLt, Bool.or_eq_true, Bool.and_eq_true, EVal.lt_iff, beq_iff_eq] at h
  grind


/-! ## np.unique(axis=0) -/

/-- All rows have `n` columns. -/
def Rect (n : Nat) (rows : List Point) : Prop := ∀ r ∈ rows, r.length = n

instance (n : Nat) (rows : List Point) : Decidable (Rect n rows) :=
  inferInstanceAs (Decidable (∀ r ∈ rows, r.length = n))

/-- Strictly increasing in the lexicographic order (hence without duplicates). -/
def LexSorted (u : List Point) : Prop := u.Pairwise (fun a b => lexLt a b = true)

theorem mem_insertU (r x : Point) (l : List Point) : x ∈ insertU r l ↔ x = r ∨ x ∈ l := by
  induction l with
  | nil => simp [insertU]
  | cons h t ih =>
    simp only [insertU]
    split
    · simp
    · split
      · rename_i heq
        have : r = h := by simpa using heq
        subst this; simp
      · simp only [List.mem_cons, ih]
        constructor
        · rintro (h1 | h1 | h1)
          · right; left; exact h1
          · left; exact h1
          · right; right; exact h1
        · rintro (h1 | h1 | h1)
          · right; left; exact h1
          · left; exact h1
          · right; right; exact h1

theorem insertU_sorted (n : Nat) (r : Point) (l : List Point) (hr : r.length = n) (hl : Rect n l)
    (hs : LexSorted l) : LexSorted (insertU r l) := by
  induction l with
  | nil => simp [insertU, LexSorted]
  | cons h t ih =>
    have hh : h.length = n := hl h List.mem_cons_self
    have ht : Rect n t := fun x hx => hl x (List.mem_cons_of_mem _ hx)
    have hst : LexSorted t := (List.pairwise_cons.mp hs).2
    have hht : ∀ x ∈ t, lexLt h x = true := (List.pairwise_cons.mp hs).1
    simp only [insertU]
    split
    · rename_i hlt
      refine List.pairwise_cons.mpr ⟨?_, hs⟩
      intro x hx
      rcases List.mem_cons.mp hx with rfl | hx
      · exact hlt
      · exact lexLt_trans r h x (hr.trans hh.symm) (hh.trans (ht x hx).symm) hlt (hht x hx)
    · rename_i hnlt
      split
      · exact hs
      · rename_i hne
        refine List.pairwise_cons.mpr ⟨?_, ih ht hst⟩
        intro x hx
        rcases (mem_insertU r x t).mp hx with rfl | hx
        · rcases lexLt_trichotomy x h (hr.trans hh.symm) with h1 | h1 | h1
          · exact absurd h1 hnlt
          · subst h1; simp at hne
          · exact h1
        · exact hht x hx

theorem mem_uniqueLexsort (rows : List Point) (x : Point) : x ∈ uniqueLexsort rows ↔ x ∈ rows := by
  induction rows with
  | nil => simp [uniqueLexsort]
  | cons r t ih =>
    simp only [uniqueLexsort, List.foldr_cons] at ih ⊢
    rw [mem_insertU, ih, List.mem_cons]

theorem uniqueLexsort_rect (n : Nat) (rows : List Point) (h : Rect n rows) : Rect n (uniqueLexsort rows) :=
  fun r hr => h r ((mem_uniqueLexsort rows r).mp hr)

/-- The model of `np.unique(axis=0)` returns a strictly lex-increasing list with the same rows. -/
theorem uniqueLexsort_sorted (n : Nat) (rows : List Point) (h : Rect n rows) : LexSorted (uniqueLexsort rows) := by
  induction rows with
  | nil => simp [uniqueLexsort, LexSorted]
  | cons r t ih =>
    have ht : Rect n t := fun x hx => h x (List.mem_cons_of_mem _ hx)
    simp only [uniqueLexsort, List.foldr_cons]
    exact insertU_sorted n r _ (h r List.mem_cons_self) (uniqueLexsort_rect n t ht) (ih ht)

/-- `on_front[order_inv]`: looking a row up through its position in the unique list. -/
theorem getD_idxOf_map (u : List Point) (f : Point → Bool) (r : Point) (hr : r ∈ u) :
    (u.map f).getD (u.idxOf r) false = f r := by
  induction u with
  | nil => simp at hr
  | cons h t ih =>
    rw [List.idxOf_cons]
    by_cases heq : h = r
    · subst heq; simp
    · have : (h == r) = false := by simpa using heq
      rcases List.mem_cons.mp hr with h1 | h1
      · exact absurd h1.symm heq
      · simp only [this, cond_false, List.map_cons, List.getD_cons_succ]
        exact ih h1


/-! ## the three Pareto paths -/

/-- `r` is dominated by some row of `u`. -/
def dominatedIn (u : List Point) (r : Point) : Bool := u.any (fun q => dominates q r)

theorem dominates_irrefl (a : Point) : dominates a a = false := by
  cases h : dominates a a with
  | false => rfl
  | true => exact absurd rfl ((dominates_iff a a rfl).mp h).2

/-- In a lex-sorted list a row can only be dominated by an earlier row. -/
theorem dominatedIn_prefix (n : Nat) (pre suf : List Point) (r : Point)
    (hrect : Rect n (pre ++ r :: suf)) (hs : LexSorted (pre ++ r :: suf)) :
    dominatedIn (pre ++ r :: suf) r = dominatedIn pre r := by
  have hr : r.length = n := hrect r (by simp)
  have hsuf : ∀ q ∈ suf, dominates q r = false := by
    intro q hq
    have hq' : q.length = n := hrect q (by simp [hq])
    have hlt : lexLt r q = true := by
      have := (List.pairwise_append.mp hs).2.1
      exact (List.pairwise_cons.mp this).1 q hq
    cases hd : dominates q r with
    | false => rfl
    | true =>
      have := lexLt_of_dominates q r (hq'.trans hr.symm) hd
      rw [lexLt_asymm r q (hr.trans hq'.symm) hlt] at this; cases this
  simp only [dominatedIn, List.any_append, List.any_cons, dominates_irrefl, Bool.false_or]
  have : suf.any (fun q => dominates q r) = false := by
    rw [List.any_eq_false]; intro q hq; simp [hsuf q hq]
  rw [this, Bool.or_false]

/-! ### 1-D -/
theorem front1d_exact (u : List Point) (hrect : Rect 1 u) (hs : LexSorted u) :
    front1d u = u.map (fun r => !dominatedIn u r) := by
  cases u with
  | nil => rfl
  | cons r0 rest =>
    simp only [front1d, List.map_cons, List.cons.injEq]
    constructor
    · have := dominatedIn_prefix 1 [] rest r0 (by simpa using hrect) (by simpa using hs)
      simp only [List.nil_append] at this
      rw [this]; rfl
    · apply List.map_congr_left
      intro r hr
      have hlt : lexLt r0 r = true := (List.pairwise_cons.mp hs).1 r hr
      have h0 : r0.length = 1 := hrect r0 List.mem_cons_self
      have h1 : r.length = 1 := hrect r (List.mem_cons_of_mem _ hr)
      have hd : dominates r0 r = true := by
        match r0, h0, r, h1 with
        | [a], _, [b], _ =>
          simp only [lexLt, Bool.and_false, Bool.or_false, EVal.lt_iff] at hlt
          simp only [dominates, allLe, anyLt, Bool.and_true, Bool.or_false, Bool.and_eq_true, EVal.le_iff, EVal.lt_iff]
          grind
      simp [dominatedIn, hd]


/-! ## 2-D -/

/-! ### 2-D -/

/-- `m` is the minimum of the second column over the (non-empty) prefix `pre`: the value of `cummin` there. -/
def IsColMin (pre : List Point) (m : EVal) : Prop :=
  (∀ q ∈ pre, ∃ y, col1 q = some y ∧ m ≤ y) ∧ (∃ q ∈ pre, col1 q = some m)

theorem len2 (r : Point) (h : r.length = 2) : ∃ x y, r = [x, y] := by
  match r, h with
  | [x, y], _ => exact ⟨x, y, rfl⟩

theorem emin_lt (m y : EVal) : (emin m y).lt m = !(m.le y) := by
  unfold emin
  by_cases h : m.le y = true
  · simp only [h, if_true, Bool.not_true, EVal.lt_false_iff]; grind
  · have h' : m.le y = false := (Bool.not_eq_true _).mp h
    simp only [h', Bool.false_eq_true, if_false, Bool.not_false, EVal.lt_iff]
    exact h'

theorem emin_le_left (m y : EVal) : emin m y ≤ m := by
  unfold emin
  by_cases h : m.le y = true
  · simp only [h, if_true]; grind
  · have h' : y < m := (Bool.not_eq_true _).mp h
    simp only [h]; grind

theorem emin_le_right (m y : EVal) : emin m y ≤ y := by
  unfold emin
  by_cases h : m.le y = true
  · simp only [h, if_true]; exact h
  · simp only [h]; grind

theorem dominatedIn_pre_2d (pre : List Point) (x y m : EVal) (hrect : Rect 2 pre)
    (hlt : ∀ q ∈ pre, lexLt q [x, y] = true) (hm : IsColMin pre m) :
    dominatedIn pre [x, y] = m.le y := by
  cases hmy : m.le y with
  | true =>
    obtain ⟨q, hq, hqm⟩ := hm.2
    obtain ⟨x', y', rfl⟩ := len2 q (hrect q hq)
    simp only [col1, Option.some.injEq] at hqm
    subst hqm
    have hx : x' ≤ x := head_le_of_lexLt _ _ _ _ (hlt _ hq)
    have hne : [x', y'] ≠ [x, y] := by
      intro h; have := hlt _ hq; rw [h, lexLt_irrefl] at this; cases this
    have hd : dominates [x', y'] [x, y] = true := by
      rw [dominates_iff [x', y'] [x, y] rfl]
      refine ⟨?_, hne⟩
      simp only [allLe, Bool.and_true, Bool.and_eq_true, EVal.le_iff]
      exact ⟨hx, hmy⟩
    simp only [dominatedIn, List.any_eq_true]
    exact ⟨_, hq, hd⟩
  | false =>
    simp only [dominatedIn, List.any_eq_false]
    intro q hq hd
    obtain ⟨x', y', rfl⟩ := len2 q (hrect q hq)
    obtain ⟨y'', hy'', hle⟩ := hm.1 _ hq
    simp only [col1, Option.some.injEq] at hy''
    subst hy''
    simp only [dominates, allLe, Bool.and_true, Bool.and_eq_true, EVal.le_iff] at hd
    have : m ≤ y := by grind
    rw [← EVal.le_iff, hmy] at this; cases this

theorem front2dAux_exact (u : List Point) (hrect : Rect 2 u) (hs : LexSorted u) (rest : List Point) :
    ∀ (pre : List Point) (m : EVal), pre ++ rest = u → IsColMin pre m →
      front2dAux m rest = rest.map (fun r => !dominatedIn u r) := by
  induction rest with
  | nil => intro pre m _ _; rfl
  | cons r rest' ih =>
    intro pre m hu hm
    have hr : r.length = 2 := hrect r (by rw [← hu]; simp)
    obtain ⟨x, y, rfl⟩ := len2 r hr
    have hpre : Rect 2 pre := fun q hq => hrect q (by rw [← hu]; simp [hq])
    have hlt : ∀ q ∈ pre, lexLt q [x, y] = true := by
      intro q hq
      rw [← hu] at hs
      exact (List.pairwise_append.mp hs).2.2 q hq [x, y] List.mem_cons_self
    have hflag : dominatedIn u [x, y] = m.le y := by
      have h1 := dominatedIn_prefix 2 pre rest' [x, y] (by rw [hu]; exact hrect) (by rw [hu]; exact hs)
      rw [hu] at h1
      rw [h1]
      exact dominatedIn_pre_2d pre x y m hpre hlt hm
    simp only [front2dAux, col1, List.map_cons, List.cons.injEq]
    refine ⟨by rw [emin_lt, hflag], ?_⟩
    apply ih (pre ++ [[x, y]]) (emin m y)
    · rw [List.append_assoc]; exact hu
    · constructor
      · intro q hq
        rcases List.mem_append.mp hq with hq | hq
        · obtain ⟨y', hy', hle⟩ := hm.1 q hq
          refine ⟨y', hy', ?_⟩
          have := emin_le_left m y
          grind
        · simp only [List.mem_singleton] at hq
          subst hq
          exact ⟨y, rfl, emin_le_right m y⟩
      · unfold emin
        split
        · obtain ⟨q, hq, hqm⟩ := hm.2
          exact ⟨q, List.mem_append_left _ hq, hqm⟩
        · exact ⟨[x, y], by simp, rfl⟩

theorem front2d_exact (u : List Point) (hrect : Rect 2 u) (hs : LexSorted u) :
    front2d u = u.map (fun r => !dominatedIn u r) := by
  cases u with
  | nil => rfl
  | cons r0 rest =>
    obtain ⟨x, y, rfl⟩ := len2 r0 (hrect _ List.mem_cons_self)
    simp only [front2d, col1, List.map_cons, List.cons.injEq]
    constructor
    · have := dominatedIn_prefix 2 [] rest [x, y] (by simpa using hrect) (by simpa using hs)
      simp only [List.nil_append] at this
      rw [this]; rfl
    · apply front2dAux_exact ([x, y] :: rest) hrect hs rest [[x, y]] y rfl
      constructor
      · intro q hq
        simp only [List.mem_singleton] at hq
        subst hq
        exact ⟨y, rfl, by grind⟩
      · exact ⟨[x, y], by simp, rfl⟩


/-! ## N-D -/

/-! ### N-D -/

/-- drop the first column, keep the index (`loss_values = unique_lexsorted_loss_values[:, 1:]`) -/
def tl (x : Nat × Point) : Nat × Point := (x.1, x.2.tail)

/-- For `a` lexicographically before `b`, the mask of the N-D loop (`any(b[1:] < a[1:])`) is exactly "`a` does not
dominate `b`" — the first column need not be looked at because it is sorted. -/
theorem tail_test (k : Nat) (a b : Point) (ha : a.length = k + 1) (hb : b.length = k + 1)
    (hlt : lexLt a b = true) : anyLt b.tail a.tail = !dominates a b := by
  match a, ha, b, hb with
  | x :: t, ha, y :: s, hb =>
    simp only [List.length_cons, Nat.add_right_cancel_iff] at ha hb
    have hxy : x ≤ y := head_le_of_lexLt x y t s hlt
    have hne : (x :: t) ≠ (y :: s) := by
      intro h; rw [h, lexLt_irrefl] at hlt; cases hlt
    simp only [List.tail_cons]
    rw [anyLt_eq_not_allLe s t (hb.trans ha.symm)]
    congr 1
    cases hd : dominates (x :: t) (y :: s) with
    | true =>
      have := ((dominates_iff (x :: t) (y :: s) (by simp [ha, hb])).mp hd).1
      simp only [allLe, Bool.and_eq_true] at this
      exact this.2
    | false =>
      cases hts : allLe t s with
      | false => rfl
      | true =>
        have : dominates (x :: t) (y :: s) = true := by
          rw [dominates_iff (x :: t) (y :: s) (by simp [ha, hb])]
          refine ⟨?_, hne⟩
          simp only [allLe, Bool.and_eq_true, EVal.le_iff]
          exact ⟨hxy, hts⟩
        rw [hd] at this; cases this

theorem peel_cons (p : Nat × Point) (rest : List (Nat × Point)) :
    peel (p :: rest) = p.1 :: peel (rest.filter (fun q => anyLt q.2 p.2)) := by
  rw [peel]

theorem peel_spec (k : Nat) : ∀ (n : Nat) (L : List (Nat × Point)), L.length ≤ n →
    Rect (k + 1) (L.map (fun x => x.2)) → LexSorted (L.map (fun x => x.2)) →
    ∀ i, i ∈ peel (L.map tl) ↔ ∃ p ∈ L, p.1 = i ∧ dominatedIn (L.map (fun x => x.2)) p.2 = false := by
  intro n
  induction n with
  | zero =>
    intro L hlen _ _ i
    have : L = [] := List.eq_nil_of_length_eq_zero (Nat.le_zero.mp hlen)
    subst this
    simp [peel]
  | succ n ih =>
    intro L hlen hrect hs i
    cases L with
    | nil => simp [peel]
    | cons p rest =>
      simp only [List.map_cons] at hrect hs
      have hp : p.2.length = k + 1 := hrect p.2 List.mem_cons_self
      have hrest : ∀ q ∈ rest, q.2.length = k + 1 := fun q hq =>
        hrect q.2 (List.mem_cons_of_mem _ (List.mem_map.mpr ⟨q, hq, rfl⟩))
      have hplt : ∀ q ∈ rest, lexLt p.2 q.2 = true := fun q hq =>
        (List.pairwise_cons.mp hs).1 q.2 (List.mem_map.mpr ⟨q, hq, rfl⟩)
      -- the rows kept by the mask
      have hfilter : (rest.map tl).filter (fun q => anyLt q.2 (tl p).2)
          = (rest.filter (fun q => !dominates p.2 q.2)).map tl := by
        rw [List.filter_map]
        congr 1
        apply List.filter_congr
        intro q hq
        simp only [Function.comp, tl]
        exact tail_test k p.2 q.2 hp (hrest q hq) (hplt q hq)
      have hsub : (rest.filter (fun q => !dominates p.2 q.2)).Sublist rest := List.filter_sublist
      have hRmem : ∀ q, q ∈ rest.filter (fun q => !dominates p.2 q.2) ↔ q ∈ rest ∧ dominates p.2 q.2 = false := by
        intro q; simp [List.mem_filter]
      have hRrect : Rect (k + 1) ((rest.filter (fun q => !dominates p.2 q.2)).map (fun x => x.2)) := by
        intro r hr
        obtain ⟨q, hq, rfl⟩ := List.mem_map.mp hr
        exact hrest q ((hRmem q).mp hq).1
      have hRs : LexSorted ((rest.filter (fun q => !dominates p.2 q.2)).map (fun x => x.2)) :=
        List.Pairwise.sublist (hsub.map _) (List.pairwise_cons.mp hs).2
      have hRlen : (rest.filter (fun q => !dominates p.2 q.2)).length ≤ n := by
        have := hsub.length_le
        simp only [List.length_cons] at hlen
        omega
      have IH := ih _ hRlen hRrect hRs i
      -- the head is never dominated
      have hhead : dominatedIn (p.2 :: rest.map (fun x => x.2)) p.2 = false := by
        have := dominatedIn_prefix (k + 1) [] (rest.map (fun x => x.2)) p.2 (by simpa using hrect) (by simpa using hs)
        simp only [List.nil_append] at this
        rw [this]; rfl
      simp only [List.map_cons]
      rw [peel_cons, hfilter, List.mem_cons, IH]
      constructor
      · rintro (rfl | ⟨p', hp', rfl, hnd⟩)
        · exact ⟨p, List.mem_cons_self, rfl, hhead⟩
        · obtain ⟨hp'rest, hpp'⟩ := (hRmem p').mp hp'
          refine ⟨p', List.mem_cons_of_mem _ hp'rest, rfl, ?_⟩
          simp only [dominatedIn, List.any_eq_false, List.mem_cons, List.mem_map] at hnd ⊢
          rintro r (rfl | ⟨q, hq, rfl⟩)
          · simp [hpp']
          · by_cases hpq : dominates p.2 q.2 = true
            · intro hqp'
              have := dominates_trans p.2 q.2 p'.2 (hp.trans (hrest q hq).symm)
                ((hrest q hq).trans (hrest p' hp'rest).symm) hpq hqp'
              rw [hpp'] at this; cases this
            · have hpq' : dominates p.2 q.2 = false := (Bool.not_eq_true _).mp hpq
              exact hnd q.2 ⟨q, (hRmem q).mpr ⟨hq, hpq'⟩, rfl⟩
      · rintro ⟨p', hp', rfl, hnd⟩
        rcases List.mem_cons.mp hp' with rfl | hp'rest
        · left; rfl
        · right
          simp only [dominatedIn, List.any_eq_false, List.mem_cons, List.mem_map] at hnd
          have hpp' : dominates p.2 p'.2 = false := by
            have := hnd p.2 (Or.inl rfl)
            exact (Bool.not_eq_true _).mp this
          refine ⟨p', (hRmem p').mpr ⟨hp'rest, hpp'⟩, rfl, ?_⟩
          simp only [dominatedIn, List.any_eq_false, List.mem_map]
          rintro r ⟨q, hq, rfl⟩
          exact hnd q.2 (Or.inr ⟨q, ((hRmem q).mp hq).1, rfl⟩)


/-! ## _is_pareto_front -/

theorem frontNd_exact (k : Nat) (u : List Point) (hrect : Rect (k + 1) u) (hs : LexSorted u) :
    frontNd u = u.map (fun r => !dominatedIn u r) := by
  have hL2 : (u.zipIdx.map (fun x => (x.2, x.1))).map (fun x => x.2) = u := by
    simp [List.map_map, Function.comp_def]
  have hLtl : (u.zipIdx.map (fun x => (x.2, x.1))).map tl = u.zipIdx.map (fun x => (x.2, x.1.tail)) := by
    simp [List.map_map, Function.comp_def, tl]
  have hspec := peel_spec k (u.zipIdx.map (fun x => (x.2, x.1))).length (u.zipIdx.map (fun x => (x.2, x.1)))
    (Nat.le_refl _) (by rw [hL2]; exact hrect) (by rw [hL2]; exact hs)
  rw [hL2, hLtl] at hspec
  apply List.ext_getElem
  · simp [frontNd]
  · intro i h1 h2
    have hi : i < u.length := by simpa using h2
    simp only [frontNd, List.getElem_map, List.getElem_range]
    cases hd : dominatedIn u u[i] with
    | false =>
      simp only [Bool.not_false, List.contains_iff_mem]
      rw [hspec i]
      refine ⟨(i, u[i]), ?_, rfl, hd⟩
      rw [List.mem_map]
      exact ⟨(u[i], i), by rw [List.mem_zipIdx_iff_getElem?]; simp [hi], rfl⟩
    | true =>
      simp only [Bool.not_true]
      cases hc : (peel (u.zipIdx.map (fun x => (x.2, x.1.tail)))).contains i with
      | false => rfl
      | true =>
        rw [List.contains_iff_mem, hspec i] at hc
        obtain ⟨p, hp, hpi, hnd⟩ := hc
        rw [List.mem_map] at hp
        obtain ⟨⟨r, j⟩, hmem, rfl⟩ := hp
        rw [List.mem_zipIdx_iff_getElem?] at hmem
        simp only at hpi hmem hnd
        subst hpi
        have : u[j] = r := by
          rw [List.getElem?_eq_getElem hi] at hmem
          exact Option.some.inj hmem
        rw [this, hnd] at hd; cases hd

/-- **Each of the three paths of `_is_pareto_front_for_unique_sorted` marks exactly the non-dominated rows** of a
lex-sorted duplicate-free array with `k+1 ≥ 1` columns. -/
theorem frontSorted_exact (k : Nat) (u : List Point) (hrect : Rect (k + 1) u) (hs : LexSorted u) :
    frontSorted u = u.map (fun r => !dominatedIn u r) := by
  cases u with
  | nil => rfl
  | cons r rest =>
    have hr : r.length = k + 1 := hrect r List.mem_cons_self
    simp only [frontSorted, hr]
    match k, hrect with
    | 0, hrect => simp only [Nat.zero_add, beq_self_eq_true, if_true]; exact front1d_exact _ hrect hs
    | 1, hrect =>
      simp only [Nat.reduceAdd, Nat.reduceBEq, Bool.false_eq_true, if_false, beq_self_eq_true, if_true]
      exact front2d_exact _ hrect hs
    | k + 2, hrect =>
      have h1 : (k + 2 + 1 == 1) = false := by simp
      have h2 : (k + 2 + 1 == 2) = false := by simp
      simp only [h1, h2, Bool.false_eq_true, if_false]
      exact frontNd_exact (k + 2) _ hrect hs

/-- **`_is_pareto_front` is exact**: for any array of NaN-free loss rows with `k+1` columns (duplicates, ties in the
first column and ±∞ allowed) row `i` is flagged iff no row dominates it. -/
theorem isParetoFront_exact (k : Nat) (rows : List Point) (hrect : Rect (k + 1) rows) :
    isParetoFront rows = rows.map (fun r => !dominatedIn rows r) := by
  unfold isParetoFront
  have hu := frontSorted_exact k (uniqueLexsort rows) (uniqueLexsort_rect _ rows hrect) (uniqueLexsort_sorted _ rows hrect)
  simp only [hu]
  apply List.map_congr_left
  intro r hr
  rw [getD_idxOf_map _ _ r ((mem_uniqueLexsort rows r).mpr hr)]
  congr 1
  simp only [dominatedIn]
  rw [Bool.eq_iff_iff, List.any_eq_true, List.any_eq_true]
  constructor
  · rintro ⟨q, hq, hd⟩; exact ⟨q, (mem_uniqueLexsort rows q).mp hq, hd⟩
  · rintro ⟨q, hq, hd⟩; exact ⟨q, (mem_uniqueLexsort rows q).mpr hq, hd⟩


/-! ## normalisation and direction-aware dominance -/

/-! direction-aware dominance on the raw objective values (the specification of `best_trials`) -/

/-- every objective of `a` is at least as good as that of `b` -/
def allBetterEq : List Dir → List EVal → List EVal → Bool
  | d :: ds, a :: as, b :: bs => betterEq d a b && allBetterEq ds as bs
  | _, _, _ => true
/-- some objective of `a` is strictly better than that of `b` -/
def anyBetter : List Dir → List EVal → List EVal → Bool
  | d :: ds, a :: as, b :: bs => better d a b || anyBetter ds as bs
  | _, _, _ => false
/-- Trial values `a` dominate trial values `b` under the study's directions. -/
def domDir (dirs : List Dir) (a b : List EVal) : Bool := allBetterEq dirs a b && anyBetter dirs a b

theorem neg_le_neg_iff (a b : EVal) : (a.neg).le (b.neg) = b.le a := by
  cases a <;> cases b <;> simp [EVal.neg, EVal.le, EVal.toX, XVal.le]

/-- Negating the values of a maximised objective turns "better" into "smaller". -/
theorem normalize_le (d : Dir) (a b : EVal) : (normalize d a).le (normalize d b) = betterEq d a b := by
  cases d
  · rfl
  · simp only [normalize, betterEq, neg_le_neg_iff]

theorem normalize_lt (d : Dir) (a b : EVal) : (normalize d a).lt (normalize d b) = better d a b := by
  simp only [EVal.lt, better, normalize_le]

theorem allLe_normRow (dirs : List Dir) (a b : List EVal) :
    allLe (normRow dirs a) (normRow dirs b) = allBetterEq dirs a b := by
  induction dirs generalizing a b with
  | nil => simp [normRow, allLe, allBetterEq]
  | cons d ds ih =>
    cases a with
    | nil => simp [normRow, allLe, allBetterEq]
    | cons x xs =>
      cases b with
      | nil => simp [normRow, allLe, allBetterEq]
      | cons y ys => simp only [normRow, allLe, allBetterEq, normalize_le, ih]

theorem anyLt_normRow (dirs : List Dir) (a b : List EVal) :
    anyLt (normRow dirs a) (normRow dirs b) = anyBetter dirs a b := by
  induction dirs generalizing a b with
  | nil => simp [normRow, anyLt, anyBetter]
  | cons d ds ih =>
    cases a with
    | nil => simp [normRow, anyLt, anyBetter]
    | cons x xs =>
      cases b with
      | nil => simp [normRow, anyLt, anyBetter]
      | cons y ys => simp only [normRow, anyLt, anyBetter, normalize_lt, ih]

theorem dominates_normRow (dirs : List Dir) (a b : List EVal) :
    dominates (normRow dirs a) (normRow dirs b) = domDir dirs a b := by
  simp only [dominates, domDir, allLe_normRow, anyLt_normRow]

theorem normRow_length (dirs : List Dir) (a : List EVal) (h : a.length = dirs.length) :
    (normRow dirs a).length = dirs.length := by
  induction dirs generalizing a with
  | nil => simp [normRow]
  | cons d ds ih =>
    cases a with
    | nil => simp at h
    | cons x xs =>
      simp only [List.length_cons, Nat.add_right_cancel_iff] at h
      simp only [normRow, List.length_cons, ih xs h]

theorem zip_map_filter {α : Type} (c : List α) (f : α → Bool) :
    ((c.zip (c.map f)).filter (fun y => y.2)).map (fun y => y.1) = c.filter f := by
  induction c with
  | nil => rfl
  | cons a t ih =>
    simp only [List.map_cons, List.zip_cons_cons, List.filter_cons]
    cases f a <;> simp [ih]


/-! ## Study.best_trials -/

/-- the values of a trial (empty when `None`) -/
def vals (t : BTrial) : List EVal := t.values.getD []
/-- `any(_CONSTRAINTS_KEY in trial.system_attrs for trial in trials)` -/
def constrained (ts : List BTrial) : Bool := ts.any (fun t => t.cons.hasKey)
/-- Eligible for the Pareto front: COMPLETE, and feasible when the study is constrained. -/
def eligible (ts : List BTrial) (t : BTrial) : Bool :=
  t.state == .complete && (!constrained ts || feasible t)
/-- Trial `t` is dominated by some eligible trial of the study. -/
def dominatedBy (dirs : List Dir) (ts : List BTrial) (t : BTrial) : Bool :=
  ts.any (fun t' => eligible ts t' && domDir dirs (vals t') (vals t))
/-- The specification of `Study.best_trials`: the numbers, in increasing order, of the eligible trials that no
eligible trial dominates. -/
def paretoSpec (dirs : List Dir) (ts : List BTrial) : List Nat :=
  (ts.zipIdx.filter (fun x => eligible ts x.1 && !dominatedBy dirs ts x.1)).map (fun x => x.2)

theorem any_zipIdx_filter {α : Type} (l : List α) (E : α → Bool) (P : α → Bool) :
    (l.zipIdx.filter (fun x => E x.1)).any (fun y => P y.1) = l.any (fun t => E t && P t) := by
  have : ∀ k, ((l.zipIdx k).filter (fun x => E x.1)).any (fun y => P y.1) = l.any (fun t => E t && P t) := by
    induction l with
    | nil => intro k; rfl
    | cons a t ih =>
      intro k
      simp only [List.zipIdx_cons, List.filter_cons, List.any_cons]
      cases hE : E a
      · simp only [Bool.false_eq_true, if_false, Bool.false_and, Bool.false_or]; exact ih (k + 1)
      · simp only [if_true, List.any_cons, Bool.true_and]; rw [ih (k + 1)]
  exact this 0

theorem bestTrials_eq_spec (k : Nat) (dirs : List Dir) (hd : dirs.length = k + 1) (ts : List BTrial)
    (hwf : WF dirs.length ts) : bestTrials dirs ts = some (paretoSpec dirs ts) := by
  unfold bestTrials
  -- the eligible trials, with their numbers
  have hE : (fun x : BTrial × Nat => x.1.state == TState.complete && (!(ts.any fun t => t.cons.hasKey) || feasible x.1))
      = (fun x => eligible ts x.1) := rfl
  simp only [hE]
  have hlen : ∀ x ∈ ts.zipIdx.filter (fun x => eligible ts x.1), (vals x.1).length = dirs.length := by
    intro x hx
    obtain ⟨hx1, hx2⟩ := List.mem_filter.mp hx
    rw [List.mem_zipIdx_iff_getElem?] at hx1
    have hc : x.1.state = .complete := by
      simp only [eligible, Bool.and_eq_true, beq_iff_eq] at hx2; exact hx2.1
    obtain ⟨l, hl, hll⟩ := hwf x.2 x.1 hx1 hc
    simp [vals, hl, hll]
  have hnone : (ts.zipIdx.filter (fun x => eligible ts x.1)).any
      (fun x => (x.1.values.getD []).length != dirs.length) = false := by
    rw [List.any_eq_false]
    intro x hx
    have := hlen x hx
    simp only [vals] at this
    simp [this]
  simp only [hnone, Bool.false_eq_true, if_false, Option.some.injEq]
  have hrect : Rect (k + 1) ((ts.zipIdx.filter (fun x => eligible ts x.1)).map
      (fun x => normRow dirs (x.1.values.getD []))) := by
    intro r hr
    obtain ⟨x, hx, rfl⟩ := List.mem_map.mp hr
    rw [← hd]; exact normRow_length dirs _ (hlen x hx)
  rw [isParetoFront_exact k _ hrect, List.map_map]
  have := zip_map_filter (ts.zipIdx.filter (fun x => eligible ts x.1))
    ((fun r => !dominatedIn ((ts.zipIdx.filter (fun x => eligible ts x.1)).map
      (fun x => normRow dirs (x.1.values.getD []))) r) ∘ (fun x => normRow dirs (x.1.values.getD [])))
  have hmm : ∀ l : List ((BTrial × Nat) × Bool), l.map (fun y => y.1.2) = (l.map (fun y => y.1)).map (fun x => x.2) := by
    intro l; simp [List.map_map, Function.comp_def]
  rw [hmm, this, List.filter_filter]
  simp only [paretoSpec]
  congr 1
  apply List.filter_congr
  intro x _
  simp only [Function.comp]
  rw [Bool.and_comm]
  congr 2
  simp only [dominatedIn, List.any_map, Function.comp_def, dominates_normRow, dominatedBy]
  exact any_zipIdx_filter ts (eligible ts) (fun t' => domDir dirs (vals t') (vals x.1))


/-! ## well-formedness of every history -/

/-- Well-formedness (one NaN-free value per objective on every COMPLETE trial) is an invariant of every history,
for any number of objectives. -/
theorem memStep_wf (dirs : List Dir) (m : Mem) (ev : Ev) (hwf : WF dirs.length m.trials) :
    WF dirs.length (Mem.step dirs m ev).trials := by
  cases ev with
  | create st vals c =>
    simp only [Mem.step]
    by_cases hok : valuesOK dirs.length st vals = true
    · simp only [hok, Bool.not_true, Bool.false_eq_true, if_false, updateCache_trials]
      intro j t ht hs
      rcases Nat.lt_or_ge j m.trials.length with hlt | hge
      · rw [List.getElem?_append_left hlt] at ht; exact hwf j t ht hs
      · rcases Nat.eq_or_lt_of_le hge with heq | hgt
        · subst heq
          simp at ht
          subst ht
          simp only at hs
          subst hs
          exact valuesOK_complete _ vals hok
        · rw [List.getElem?_eq_none (by simp; omega)] at ht; cases ht
    · have : valuesOK dirs.length st vals = false := (Bool.not_eq_true _).mp hok
      simp only [this, Bool.not_false, if_true]; exact hwf
  | setState i st vals =>
    simp only [Mem.step]
    cases hti : m.trials[i]? with
    | none => exact hwf
    | some t =>
      simp only
      split
      · exact hwf
      split
      · exact hwf
      by_cases hok : valuesOK dirs.length st (vals.or t.values) = true
      · simp only [hok, Bool.not_true, Bool.false_eq_true, if_false]
        have hwf' : WF dirs.length (updAt m.trials i (fun t1 => { t1 with state := st, values := vals.or t.values })) := by
          intro j t' ht' hs
          rw [updAt_getElem?] at ht'
          by_cases hj : j = i
          · subst hj
            simp only [if_true, hti, Option.map_some, Option.some.injEq] at ht'
            subst ht'
            simp only at hs
            subst hs
            exact valuesOK_complete _ _ hok
          · simp only [hj, if_false] at ht'; exact hwf j t' ht' hs
        split
        · rw [updateCache_trials]; exact hwf'
        · exact hwf'
      · have : valuesOK dirs.length st (vals.or t.values) = false := (Bool.not_eq_true _).mp hok
        simp only [this, Bool.not_false, if_true]; exact hwf
  | setCons i c =>
    simp only [Mem.step]
    cases hti : m.trials[i]? with
    | none => exact hwf
    | some t =>
      simp only
      split
      · exact hwf
      · rename_i hfin
        have hfin' : t.state.isFinished = false := (Bool.not_eq_true _).mp hfin
        intro j t' ht' hs
        rw [updAt_getElem?] at ht'
        by_cases hj : j = i
        · subst hj
          simp only [if_true, hti, Option.map_some, Option.some.injEq] at ht'
          subst ht'
          exact absurd hs (not_finished_not_complete _ hfin')
        · simp only [hj, if_false] at ht'; exact hwf j t' ht' hs

theorem memRun_wf (dirs : List Dir) (evs : List Ev) : WF dirs.length (Mem.run dirs evs).trials := by
  have : ∀ m, WF dirs.length m.trials → WF dirs.length (evs.foldl (Mem.step dirs) m).trials := by
    induction evs with
    | nil => intro m h; exact h
    | cons ev evs ih => intro m h; exact ih _ (memStep_wf dirs m ev h)
  exact this Mem.init (by intro i t ht; simp [Mem.init] at ht)


end OptunaVerif.Best
