import OptunaVerif.Generated.BestMethods
/-!
Flag-free REFERENCE semantics for `Props/C12Gen.lean`, and helper lemmas that do not mention the generated program.

`Model/Best.lean` takes its comparison operators / flags from `Generated/Best.lean` (translator `best.py`), so an edit of the
source changes the hand model too.  The equalities of `Props/C12Gen.lean` are therefore stated against the fixed
definitions below (today's semantics written out: "violated = some x > 0", "strictly better replaces", "min / max of
the COMPLETE trials", …); `Props/C12GenSpec.lean` proves that these coincide with the hand model and carries the
property theorems of `Props/C12.lean` over.  This file must not import `Lemmas/Best.lean` (which stops building when
a flag changes), so the few order facts needed are re-proved here under primed names.  Core Lean only.
-/
set_option linter.unusedSimpArgs false
namespace OptunaVerif.BestIR
open OptunaVerif OptunaVerif.Best
open OptunaVerif.Generated.Best (Cmp)

/-! ## reference semantics -/

/-- `constraints is not None and any(x > 0.0 …)` -/
def violatedRef (t : BTrial) : Bool :=
  match t.cons.get with
  | some cs => cs.any (fun x => xlt zero x)
  | none => false

/-- `constraints is not None and all(x <= 0.0 …)` -/
def feasibleRef (t : BTrial) : Bool :=
  match t.cons.get with
  | some cs => cs.all (fun x => x.le zero)
  | none => false

/-- Python `max` (maximise) / `min` (minimise) by value over the COMPLETE trials that satisfy `p`, lowest number on ties -/
def pickRef (d : Dir) (p : BTrial → Bool) (ts : List BTrial) : Option Nat :=
  (pyPick d.isMax (fun x => x.2) (valuedIn [1] p ts)).map (fun x => x.1)

/-- `_update_cache`: a COMPLETE trial replaces the cached best iff there is none, the cached one has no value, or it is strictly better -/
def updateCacheRef (dirs : List Dir) (m : Mem) (i : Nat) : Mem :=
  match m.trials[i]? with
  | none => m
  | some t =>
    if t.state != .complete then m else
    match m.best with
    | none => { m with best := some i }
    | some b =>
      match dirs with
      | [d] =>
        match (m.trials[b]?).bind BTrial.value?, t.value? with
        | none, _ => { m with best := some i }
        | some _, none => m
        | some bv, some nv => if better d nv bv then { m with best := some i } else m
      | _ => m

/-- `InMemoryStorage.get_best_trial` -/
def memBestRef (dirs : List Dir) (cached : Option Nat) : GRes :=
  match cached with
  | none => .raise .valueError
  | some b => if 1 < dirs.length then .raise .runtimeError else .ok b

/-- the `ORDER BY` of the two queries: type rank (−∞ < finite < +∞) first, then the value; ASC for min, DESC for max -/
def rankRef : VType → Int
  | .infNeg => -1 | .finite => 0 | .infPos => 1

def sqlBeforeRef (useMax : Bool) (a b : Option Rat × VType) : Bool :=
  if rankRef a.2 != rankRef b.2 then (if useMax then rankRef b.2 < rankRef a.2 else rankRef a.2 < rankRef b.2)
  else (if useMax then nullLt b.1 a.1 else nullLt a.1 b.1)

/-- `find_{max,min}_value_trial_id(study_id, 0, session)` on the model's rows -/
def rdbRowsRef (useMax : Bool) (rows : List Row) : Option Nat :=
  let cands := rows.zipIdx.filterMap (fun x => if x.1.state == .complete then (x.1.vals[0]?).map (fun v => (x.2, v)) else none)
  (firstBest (fun y cur => sqlBeforeRef useMax y.2 cur.2) cands).map (fun x => x.1)

/-- `Study.best_trial` of a single-objective study, given the storage's answer -/
def studyBestRef (sb : GRes) (d : Dir) (ts : List BTrial) : GRes :=
  match sb with
  | .ok b =>
    (match ts[b]? with
     | none => .raise .valueError
     | some t => if violatedRef t then GRes.ofOpt (pickRef d feasibleRef ts) else .ok b)
  | r => r

/-- `Study.best_trials` -/
def bestTrialsRef (dirs : List Dir) (ts : List BTrial) : Option (List Nat) :=
  let constrained := ts.any (fun t => t.cons.hasKey)
  let c := ts.zipIdx.filter (fun x => x.1.state == .complete && (!constrained || feasibleRef x.1))
  if c.any (fun x => (x.1.values.getD []).length != dirs.length) then none
  else
    let loss := c.map (fun x => normRow dirs (x.1.values.getD []))
    let on := isParetoFront loss
    some (((c.zip on).filter (fun y => y.2)).map (fun y => y.1.2))

/-! ## the order on values (re-proved: `Lemmas/Best.lean` cannot be imported here) -/

theorem le_refl' (a : EVal) : a.le a = true := by
  cases a <;> simp [EVal.le, EVal.toX, XVal.le] <;> exact Rat.le_refl

theorem le_antisymm' {a b : EVal} (h1 : a.le b = true) (h2 : b.le a = true) : a = b := by
  cases a <;> cases b <;> simp [EVal.le, EVal.toX, XVal.le] at h1 h2 ⊢
  exact Rat.le_antisymm h1 h2

theorem le_total' (a b : EVal) : a.le b = true ∨ b.le a = true := by
  cases a <;> cases b <;> simp [EVal.le, EVal.toX, XVal.le]
  exact Rat.le_total

theorem allLe_refl' (a : Point) : allLe a a = true := by
  induction a with
  | nil => rfl
  | cons x t ih => simp [allLe, le_refl', ih]

theorem anyLt_eq_not_allLe' (a b : Point) (h : a.length = b.length) : anyLt a b = !allLe b a := by
  induction a generalizing b with
  | nil => cases b <;> simp_all [anyLt, allLe]
  | cons x t ih =>
    cases b with
    | nil => simp at h
    | cons y s =>
      simp only [List.length_cons, Nat.add_right_cancel_iff] at h
      simp [anyLt, allLe, EVal.lt, ih s h]

theorem allLe_antisymm' (a b : Point) (h : a.length = b.length) (h1 : allLe a b = true) (h2 : allLe b a = true) : a = b := by
  induction a generalizing b with
  | nil => cases b <;> simp_all
  | cons x t ih =>
    cases b with
    | nil => simp at h
    | cons y s =>
      simp only [List.length_cons, Nat.add_right_cancel_iff] at h
      simp only [allLe, Bool.and_eq_true] at h1 h2
      rw [le_antisymm' h1.1 h2.1, ih s h h1.2 h2.2]

/-- `a != b and all(a <= b)` is the docstring's dominance `all(a <= b) and any(a < b)` -/
theorem ne_allLe_eq_dominates (a b : Point) (h : a.length = b.length) : (!(a == b) && allLe a b) = dominates a b := by
  rw [dominates, anyLt_eq_not_allLe' a b h]
  by_cases hab : a = b
  · subst hab; simp [allLe_refl']
  · have hne : (a == b) = false := by simpa using hab
    rw [hne]
    cases h1 : allLe a b with
    | false => simp
    | true =>
      cases h2 : allLe b a with
      | false => simp
      | true => exact absurd (allLe_antisymm' a b h h1 h2) hab


/-! ## SQL ordering -/

theorem nullLt_irrefl (x : Option Rat) : nullLt x x = false := by
  cases x <;> simp [nullLt, Rat.lt_irrefl]

/-- the literals of today's rank table -/
theorem rank_lits :
    ¬((-1 : Rat) = 0) ∧ ¬((-1 : Rat) = 1) ∧ ¬((0 : Rat) = 1) ∧ ¬((0 : Rat) = -1) ∧ ¬((1 : Rat) = -1) ∧ ¬((1 : Rat) = 0) ∧
    (-1 : Rat) < 0 ∧ (-1 : Rat) < 1 ∧ (0 : Rat) < 1 ∧ ¬((0 : Rat) < -1) ∧ ¬((1 : Rat) < -1) ∧ ¬((1 : Rat) < 0) := by decide

theorem rat_lt_decide' (x y : Rat) : decide (x < y) = !decide (y ≤ x) := by
  by_cases h : y ≤ x
  · simp [h, Rat.not_lt.mpr h]
  · simp [h, Rat.not_le.mp h]


/-! ## dominance -/

theorem zipAllC_le (a b : List EVal) : zipAllC .le a b = allLe a b := by
  induction a generalizing b with
  | nil => cases b <;> rfl
  | cons x t ih =>
    cases b with
    | nil => rfl
    | cons y s => simp [zipAllC, allLe, ih, cmpE, cmpX, EVal.le]

theorem normRow_length' (dirs : List Dir) (a : List EVal) (h : a.length = dirs.length) : (normRow dirs a).length = a.length := by
  induction dirs generalizing a with
  | nil => cases a <;> simp_all [normRow]
  | cons d ds ih =>
    cases a with
    | nil => simp at h
    | cons x t => simp only [List.length_cons, Nat.add_right_cancel_iff] at h; simp [normRow, ih t h]


/-! ## numpy: the 2-D path -/

def Rect' (n : Nat) (rows : List Point) : Prop := ∀ r ∈ rows, r.length = n

/-- `cummin[1:] < cummin[:-1]` with the running minimum carried along -/
def cmAux (m : EVal) : List EVal → List Bool
  | [] => []
  | y :: ys => (emin m y).lt m :: cmAux (emin m y) ys

theorem cmAux_length (m : EVal) (ys : List EVal) : (cmAux m ys).length = ys.length := by
  induction ys generalizing m with
  | nil => rfl
  | cons y ys ih => simp [cmAux, ih]

theorem ltRow_cummin (m : EVal) (ys : List EVal) :
    ltRow (cumminFrom m ys) (m :: cumminFrom m ys).dropLast = cmAux m ys := by
  induction ys generalizing m with
  | nil => rfl
  | cons y ys ih =>
    have := ih (emin m y)
    simp only [cumminFrom, cmAux, List.dropLast_cons_cons, ltRow, List.zipWith_cons_cons] at this ⊢
    rw [this]

theorem len2' (r : Point) (h : r.length = 2) : ∃ x y, r = [x, y] := by
  match r, h with
  | [x, y], _ => exact ⟨x, y, rfl⟩

theorem front2dAux_eq (m : EVal) (rest : List Point) (h : Rect' 2 rest) :
    front2dAux m rest = cmAux m (rest.map (fun r => r[1]?.getD .pinf)) := by
  induction rest generalizing m with
  | nil => rfl
  | cons r rest ih =>
    obtain ⟨x, y, rfl⟩ := len2' r (h r List.mem_cons_self)
    simp [front2dAux, col1, cmAux, ih _ (fun q hq => h q (List.mem_cons_of_mem _ hq))]

theorem front2d_eq (u : List Point) (h : Rect' 2 u) :
    front2d u = match u.map (fun r => r[1]?.getD .pinf) with
      | [] => []
      | y :: ys => true :: cmAux y ys := by
  cases u with
  | nil => rfl
  | cons r rest =>
    obtain ⟨x, y, rfl⟩ := len2' r (h r List.mem_cons_self)
    simp [front2d, col1, front2dAux_eq _ rest (fun q hq => h q (List.mem_cons_of_mem _ hq))]


/-! ## numpy: the N-D loop -/

theorem envGet_cons (k : String) (v : NV) (env : List (String × NV)) (n : String) :
    envGet ((k, v) :: env) n = if k == n then v else envGet env n := by
  unfold envGet
  simp only [List.find?_cons]
  cases h : (k == n) <;> simp

theorem lt_irrefl' (x : EVal) : x.lt x = false := by simp [EVal.lt, le_refl']

theorem anyLt_self (r : Point) : anyLt r r = false := by
  induction r with
  | nil => rfl
  | cons x t ih => simp [anyLt, lt_irrefl', ih]

theorem ltRow_any (q r : Point) : (ltRow q r).any id = anyLt q r := by
  induction q generalizing r with
  | nil => cases r <;> rfl
  | cons x t ih =>
    cases r with
    | nil => rfl
    | cons y s => simp [ltRow, anyLt, ← ih s]

theorem selMask_length_le {α : Type} (l : List α) (m : List Bool) : (selMask l m).length ≤ l.length := by
  induction l generalizing m with
  | nil => cases m <;> simp [selMask]
  | cons a t ih =>
    cases m with
    | nil => simp [selMask]
    | cons b ms => cases b <;> simp [selMask] <;> have := ih ms <;> omega

theorem selMask_subset {α : Type} (l : List α) (m : List Bool) : ∀ x ∈ selMask l m, x ∈ l := by
  induction l generalizing m with
  | nil => cases m <;> simp [selMask]
  | cons a t ih =>
    cases m with
    | nil => simp [selMask]
    | cons b ms =>
      cases b <;> simp only [selMask] <;> intro x hx
      · exact List.mem_cons_of_mem _ (ih ms x hx)
      · rcases List.mem_cons.mp hx with h | h
        · exact h ▸ List.mem_cons_self
        · exact List.mem_cons_of_mem _ (ih ms x h)

theorem selMask_zip {α β : Type} (f : β → Bool) (is : List α) (rows : List β) (h : is.length = rows.length) :
    (selMask is (rows.map f)).zip (selMask rows (rows.map f)) = (is.zip rows).filter (fun q => f q.2) ∧
    (selMask is (rows.map f)).length = (selMask rows (rows.map f)).length := by
  induction rows generalizing is with
  | nil => cases is <;> simp_all [selMask]
  | cons r rows ih =>
    cases is with
    | nil => simp at h
    | cons i is =>
      simp only [List.length_cons, Nat.add_right_cancel_iff] at h
      obtain ⟨h1, h2⟩ := ih is h
      cases hf : f r <;> simp [selMask, hf, h1, h2, List.filter_cons]

theorem peel_cons' (p : Nat × Point) (rest : List (Nat × Point)) :
    peel (p :: rest) = p.1 :: peel (rest.filter (fun q => anyLt q.2 p.2)) := by
  rw [peel]

/-- `on_front[j] = True` for every `j` of the list -/
def markAll (M : List Bool) : List Nat → List Bool
  | [] => M
  | j :: js => markAll (M.set j true) js

theorem markAll_length (M : List Bool) (js : List Nat) : (markAll M js).length = M.length := by
  induction js generalizing M with
  | nil => rfl
  | cons j js ih => simp [markAll, ih]

theorem markAll_get (M : List Bool) (js : List Nat) (i : Nat) :
    (markAll M js)[i]? = (M[i]?).map (fun b => b || js.contains i) := by
  induction js generalizing M with
  | nil => cases h : M[i]? <;> simp [markAll, h]
  | cons j js ih =>
    rw [markAll, ih, List.getElem?_set]
    by_cases hji : j = i
    · subst hji
      by_cases hlt : j < M.length
      · simp [hlt, List.getElem?_eq_getElem hlt]
      · have : M[j]? = none := List.getElem?_eq_none (Nat.le_of_not_lt hlt)
        simp [hlt, this]
    · have hne : ¬ i = j := fun e => hji e.symm
      cases M[i]? <;> simp [hji, hne]

theorem markAll_replicate (n : Nat) (js : List Nat) :
    markAll (List.replicate n false) js = (List.range n).map (fun i => js.contains i) := by
  apply List.ext_getElem?
  intro i
  rw [markAll_get]
  by_cases h : i < n
  · simp [h]
  · simp [h]

theorem zipIdx_tail_pairs_from (u : List Point) (k : Nat) :
    (u.zipIdx k).map (fun x => (x.2, x.1.tail)) = (List.range' k u.length).zip (u.map (fun r => r.drop 1)) := by
  induction u generalizing k with
  | nil => rfl
  | cons a t ih => simp [List.zipIdx_cons, List.range'_succ, ih (k + 1), List.drop_one]

theorem zipIdx_tail_pairs (u : List Point) :
    u.zipIdx.map (fun x => (x.2, x.1.tail)) = (List.range u.length).zip (u.map (fun r => r.drop 1)) := by
  rw [List.range_eq_range']; exact zipIdx_tail_pairs_from u 0


/-! ## numpy: `np.unique(axis=0)`, the dispatch, the lengths -/

theorem mem_insertU' (r x : Point) (l : List Point) : x ∈ insertU r l ↔ x = r ∨ x ∈ l := by
  induction l with
  | nil => simp [insertU]
  | cons h t ih =>
    simp only [insertU]
    split
    · simp
    · split
      · rename_i heq
        have : r = h := by simpa using heq
        subst this; simp
      · simp only [List.mem_cons, ih]
        constructor
        · rintro (h1 | h1 | h1)
          · right; left; exact h1
          · left; exact h1
          · right; right; exact h1
        · rintro (h1 | h1 | h1)
          · right; left; exact h1
          · left; exact h1
          · right; right; exact h1

theorem mem_uniqueLexsort' (rows : List Point) (x : Point) : x ∈ uniqueLexsort rows ↔ x ∈ rows := by
  induction rows with
  | nil => simp [uniqueLexsort]
  | cons r t ih =>
    simp only [uniqueLexsort, List.foldr_cons] at ih ⊢
    rw [mem_insertU', ih, List.mem_cons]

theorem uniqueLexsort_rect' (n : Nat) (rows : List Point) (h : Rect' n rows) : Rect' n (uniqueLexsort rows) :=
  fun r hr => h r ((mem_uniqueLexsort' rows r).mp hr)

theorem front1d_length (u : List Point) : (front1d u).length = u.length := by
  cases u <;> simp [front1d]

theorem front2dAux_length (m : EVal) (u : List Point) : (front2dAux m u).length = u.length := by
  induction u generalizing m with
  | nil => rfl
  | cons r t ih => simp only [front2dAux]; split <;> simp [ih]

theorem front2d_length (u : List Point) : (front2d u).length = u.length := by
  cases u with
  | nil => rfl
  | cons r t => simp only [front2d]; split <;> simp [front2dAux_length]

theorem frontSorted_length (u : List Point) : (frontSorted u).length = u.length := by
  cases u with
  | nil => rfl
  | cons r t =>
    simp only [frontSorted]
    split
    · exact front1d_length _
    · split
      · exact front2d_length _
      · simp [frontNd]

end OptunaVerif.BestIR
