import OptunaVerif.Model.BruteForce
/-!
# Lemmas about the brute-force sampler model

Part A  specification vocabulary: paths of a program, the *specification tree* `specTree p H`
        (what the explored-space tree must be for a history `H`), `remaining`.
Part B  `populate` on a well-formed history builds exactly `specTree` (full tree and the
        prefix-restricted rebuild of `sample_independent`).
Part C  counting: `count = 0 ↔ remaining = 0`, a new leaf lowers `remaining` by exactly one.
Part D  one trial: never a sampler error, always ends in a leaf no finished trial has visited.
Part E  the optimize loop / sessions.
-/
namespace OptunaVerif.BruteForce

/-! ## Part A — specification vocabulary -/

/-- `l` is a root-to-leaf path of `p` (what a trial that ran to the end has recorded). -/
def LeafPath : Prog → List Step → Prop
  | .leaf _, l => l = []
  | .node name _ cands child, l =>
    ∃ v rest, l = ⟨name, cands, v⟩ :: rest ∧ v ∈ cands ∧ LeafPath (child v) rest

/-- `l` is a path from the root to some node of `p` (what a RUNNING trial has recorded so far). -/
def Walk : Prog → List Step → Prop
  | .leaf _, l => l = []
  | .node name _ cands child, l =>
    l = [] ∨ ∃ v rest, l = ⟨name, cands, v⟩ :: rest ∧ v ∈ cands ∧ Walk (child v) rest

/-- A stored trial is consistent with the program. -/
def TrialOK (p : Prog) (t : Trial) : Prop :=
  if t.finished then LeafPath p t.steps else Walk p t.steps

/-- `name` is asked for somewhere in `p` (on a path through candidate values). -/
def HasName : Prog → String → Prop
  | .leaf _, _ => False
  | .node name _ cands child, m => name = m ∨ ∃ v, v ∈ cands ∧ HasName (child v) m

/-- Well-formed program: candidate lists non-empty and duplicate-free, `single` only for
one-candidate domains, and no parameter name is asked twice along a path. -/
def Prog.WF : Prog → Prop
  | .leaf _ => True
  | .node name single cands child =>
    cands ≠ [] ∧ cands.Nodup ∧ (single = true → ∃ v, cands = [v]) ∧
      ∀ v, v ∈ cands → (Prog.WF (child v) ∧ ¬ HasName (child v) name)

/-- number of root-to-leaf paths -/
def numLeaves : Prog → Nat
  | .leaf _ => 1
  | .node _ _ cands child => (cands.map (fun v => numLeaves (child v))).sum

/-- The trials of `H` that took value `v` at the current node, with that step removed. -/
def subOne (v : Val) (t : Trial) : Option Trial :=
  match t.steps with
  | [] => none
  | s :: rest => if s.value = v then some ⟨rest, t.finished⟩ else none

def sub (v : Val) (H : List Trial) : List Trial := H.filterMap (subOne v)

/-- Some trial of `H` makes the current node expanded: a finished trial (ending here or below) or
any trial that went further down. -/
def expandedHere (H : List Trial) : Bool := H.any (fun t => t.finished || !t.steps.isEmpty)

/-- Some RUNNING trial of `H` stands exactly at the current node. -/
def runningHere (H : List Trial) : Bool := H.any (fun t => !t.finished && t.steps.isEmpty)

/-- Some finished trial of `H` ends exactly at the current node. -/
def finishedHere (H : List Trial) : Bool := H.any (fun t => t.finished && t.steps.isEmpty)

/-- The explored-space tree that the history `H` (trials relative to the root of `p`) determines. -/
def specTree : Prog → List Trial → Tree
  | .leaf _, H =>
    if expandedHere H then .exp none [] (fun _ => .unexp false) (runningHere H)
    else .unexp (runningHere H)
  | .node name _ cands child, H =>
    if expandedHere H then
      .exp (some name) cands (fun v => specTree (child v) (sub v H)) (runningHere H)
    else .unexp (runningHere H)

/-- number of leaves of `p` that no finished trial of `H` has reached -/
def remaining : Prog → List Trial → Nat
  | .leaf _, H => if finishedHere H then 0 else 1
  | .node _ _ cands child, H => (cands.map (fun v => remaining (child v) (sub v H))).sum

/-! ### small facts -/

@[simp] theorem sub_nil (v : Val) : sub v [] = [] := rfl

theorem sub_append (v : Val) (H1 H2 : List Trial) : sub v (H1 ++ H2) = sub v H1 ++ sub v H2 := by
  simp [sub, List.filterMap_append]

@[simp] theorem expandedHere_nil : expandedHere [] = false := rfl
@[simp] theorem runningHere_nil : runningHere [] = false := rfl
@[simp] theorem finishedHere_nil : finishedHere [] = false := rfl

theorem expandedHere_append (H1 H2 : List Trial) :
    expandedHere (H1 ++ H2) = (expandedHere H1 || expandedHere H2) := by
  simp [expandedHere, List.any_append]

theorem runningHere_append (H1 H2 : List Trial) :
    runningHere (H1 ++ H2) = (runningHere H1 || runningHere H2) := by
  simp [runningHere, List.any_append]

theorem finishedHere_append (H1 H2 : List Trial) :
    finishedHere (H1 ++ H2) = (finishedHere H1 || finishedHere H2) := by
  simp [finishedHere, List.any_append]

@[simp] theorem sub_single_nil (v : Val) (f : Bool) : sub v [⟨[], f⟩] = [] := by simp [sub, subOne]

@[simp] theorem expandedHere_single (t : Trial) :
    expandedHere [t] = (t.finished || !t.steps.isEmpty) := by simp [expandedHere]
@[simp] theorem runningHere_single (t : Trial) :
    runningHere [t] = (!t.finished && t.steps.isEmpty) := by simp [runningHere]
@[simp] theorem finishedHere_single (t : Trial) :
    finishedHere [t] = (t.finished && t.steps.isEmpty) := by simp [finishedHere]

theorem sub_of_not_expanded (v : Val) (H : List Trial) (h : expandedHere H = false) : sub v H = [] := by
  induction H with
  | nil => rfl
  | cons t H ih =>
    simp only [expandedHere, List.any_cons, Bool.or_eq_false_iff] at h
    obtain ⟨⟨_, h2⟩, h3⟩ := h
    have ih' := ih (by simpa [expandedHere] using h3)
    have : t.steps = [] := by
      cases hs : t.steps with
      | nil => rfl
      | cons a b => simp [hs] at h2
    simp only [sub, List.filterMap_cons, subOne, this]
    exact ih'

@[simp] theorem specTree_nil (p : Prog) : specTree p [] = .unexp false := by
  cases p <;> simp [specTree]

theorem sameKeys_self (a : List Val) : sameKeys a a = true := by
  simp [sameKeys, List.all_eq_true]

theorem finishedHere_le_expandedHere (H : List Trial) (h : finishedHere H = true) : expandedHere H = true := by
  simp only [finishedHere, expandedHere, List.any_eq_true, Bool.and_eq_true, Bool.or_eq_true] at *
  obtain ⟨t, ht, h1, _⟩ := h
  exact ⟨t, ht, Or.inl h1⟩

/-! ## Part B — `populate` builds the specification tree -/

theorem finOf_eq (steps steps' : List Step) (fin : Bool) :
    finOf ⟨steps, fin⟩ = finOf ⟨steps', fin⟩ := rfl

/-- Adding one consistent trial to the specification tree of `H` gives the specification tree of
`H ++ [t]` — in particular `add_path` never raises. -/
theorem addPath_spec (p : Prog) : ∀ (H : List Trial) (steps : List Step) (fin : Bool),
    TrialOK p ⟨steps, fin⟩ →
    (specTree p H).addPath (finOf ⟨steps, fin⟩) steps = some (specTree p (H ++ [⟨steps, fin⟩])) := by
  induction p with
  | leaf o =>
    intro H steps fin hok
    have hs : steps = [] := by
      cases fin <;> simpa [TrialOK, LeafPath, Walk] using hok
    subst hs
    cases fin with
    | true =>
      by_cases he : expandedHere H = true
      · simp [Tree.addPath, finOf, Tree.setLeaf, Tree.expand, specTree, he, expandedHere_append,
          runningHere_append, sameKeys]
      · simp only [Bool.not_eq_true] at he
        simp [Tree.addPath, finOf, Tree.setLeaf, Tree.expand, specTree, he, expandedHere_append,
          runningHere_append]
    | false =>
      by_cases he : expandedHere H = true
      · simp [Tree.addPath, finOf, Tree.setRunning, specTree, he, expandedHere_append,
          runningHere_append]
      · simp only [Bool.not_eq_true] at he
        simp [Tree.addPath, finOf, Tree.setRunning, specTree, he, expandedHere_append,
          runningHere_append]
  | node name single cands child ih =>
    intro H steps fin hok
    cases steps with
    | nil =>
      cases fin with
      | true => simp [TrialOK, LeafPath] at hok
      | false =>
        by_cases he : expandedHere H = true
        · simp [Tree.addPath, finOf, Tree.setRunning, specTree, he, expandedHere_append,
            runningHere_append, sub_append]
        · simp only [Bool.not_eq_true] at he
          simp [Tree.addPath, finOf, Tree.setRunning, specTree, he, expandedHere_append,
            runningHere_append]
    | cons s rest =>
      have hstep : s = ⟨name, cands, s.value⟩ ∧ s.value ∈ cands ∧ TrialOK (child s.value) ⟨rest, fin⟩ := by
        cases fin with
        | true =>
          simp only [TrialOK, LeafPath, if_true] at hok
          obtain ⟨v, rest', heq, hv, hp⟩ := hok
          simp only [List.cons.injEq] at heq
          obtain ⟨h1, h2⟩ := heq
          subst h1; subst h2
          exact ⟨rfl, hv, by simpa [TrialOK] using hp⟩
        | false =>
          simp only [TrialOK, Walk] at hok
          rcases hok with hok | ⟨v, rest', heq, hv, hp⟩
          · simp at hok
          · simp only [List.cons.injEq] at heq
            obtain ⟨h1, h2⟩ := heq
            subst h1; subst h2
            exact ⟨rfl, hv, by simpa [TrialOK] using hp⟩
      obtain ⟨hs, hv, hrest⟩ := hstep
      have hname : s.name = name := by rw [hs]
      have hcands : s.cands = cands := by rw [hs]
      have hexp2 : expandedHere (H ++ [⟨s :: rest, fin⟩]) = true := by
        simp [expandedHere_append]
      have hrun2 : runningHere (H ++ [⟨s :: rest, fin⟩]) = runningHere H := by
        simp [runningHere_append]
      have hsub2 : ∀ k, sub k (H ++ [⟨s :: rest, fin⟩]) =
          if s.value = k then sub k H ++ [⟨rest, fin⟩] else sub k H := by
        intro k
        by_cases hk : s.value = k <;> simp [sub, subOne, hk]
      have hrec := ih s.value (sub s.value H) rest fin hrest
      rw [finOf_eq rest (s :: rest) fin] at hrec
      have hcont : cands.contains s.value = true := by simpa using hv
      by_cases he : expandedHere H = true
      · simp only [specTree, he, if_true, Tree.addPath, Tree.expand, hname, hcands, beq_self_eq_true,
          sameKeys_self, Bool.and_self, hcont, hrec, hexp2, hrun2]
        congr 1
        congr 1
        funext k
        rw [hsub2 k]
        by_cases hk : k = s.value
        · subst hk; simp
        · have : ¬ s.value = k := fun h => hk h.symm
          simp [hk, this]
      · simp only [Bool.not_eq_true] at he
        have hsubnil : ∀ k, sub k H = [] := fun k => sub_of_not_expanded k H he
        rw [hsubnil s.value, specTree_nil] at hrec
        simp only [specTree, he, Tree.addPath, Tree.expand, hname, hcands, hcont, hrec, hexp2, hrun2,
          if_true, Bool.false_eq_true, if_false]
        congr 1
        congr 1
        funext k
        rw [hsub2 k, hsubnil k]
        by_cases hk : k = s.value
        · subst hk; simp
        · have : ¬ s.value = k := fun h => hk h.symm
          simp [hk, this]

theorem dictMatch_nil (t : Trial) : dictMatch [] t = true := rfl

theorem restSteps_nil (t : Trial) : restSteps [] t = t.steps := by
  simp [restSteps]

/-- The full tree (as `after_trial` builds it): populating the specification tree of `H0` with
consistent trials `H1` gives the specification tree of `H0 ++ H1`; no ValueError. -/
theorem populate_full (p : Prog) (H1 : List Trial) : ∀ (H0 : List Trial), (∀ t ∈ H1, TrialOK p t) →
    populate (specTree p H0) H1 [] = some (specTree p (H0 ++ H1)) := by
  induction H1 with
  | nil => intro H0 _; simp [populate]
  | cons t rest ih =>
    intro H0 h
    have ht : TrialOK p ⟨t.steps, t.finished⟩ := h t (by simp)
    have h1 := addPath_spec p H0 t.steps t.finished ht
    have h2 := ih (H0 ++ [t]) (fun x hx => h x (by simp [hx]))
    simp only [populate, dictMatch_nil, if_true, restSteps_nil]
    change (match (specTree p H0).addPath (finOf ⟨t.steps, t.finished⟩) t.steps with
      | none => none | some tree' => populate tree' rest []) = _
    rw [h1]
    simp only [List.append_assoc, List.singleton_append] at h2
    exact h2

theorem populate_from_empty (p : Prog) (H : List Trial) (h : ∀ t ∈ H, TrialOK p t) :
    populate (Tree.unexp false) H [] = some (specTree p H) := by
  have := populate_full p H [] h
  simpa using this

/-! ### the prefix-restricted rebuild of `sample_independent` -/

/-- the history relative to the node reached by the prefix `π` -/
def subPath : List Step → List Trial → List Trial
  | [], H => H
  | s :: π, H => subPath π (sub s.value H)

/-- walking `π` from the root of `p` leads to the sub-program `q` -/
def Reach : List Step → Prog → Prog → Prop
  | [], p, q => p = q
  | _ :: _, .leaf _, _ => False
  | s :: π, .node name _ cands child, q =>
    s.name = name ∧ s.cands = cands ∧ s.value ∈ cands ∧ Reach π (child s.value) q

@[simp] theorem subPath_nil_hist (π : List Step) : subPath π [] = [] := by
  induction π with
  | nil => rfl
  | cons s π ih => simp [subPath, ih]

theorem subPath_append (π : List Step) : ∀ (A B : List Trial),
    subPath π (A ++ B) = subPath π A ++ subPath π B := by
  induction π with
  | nil => intro A B; rfl
  | cons s π ih => intro A B; simp [subPath, sub_append, ih]

theorem subPath_snoc (π : List Step) (s : Step) : ∀ (H : List Trial),
    subPath (π ++ [s]) H = sub s.value (subPath π H) := by
  induction π with
  | nil => intro H; rfl
  | cons a π ih => intro H; simp [subPath, ih]

theorem reach_snoc (π : List Step) : ∀ (p : Prog) (name : String) (sg : Bool) (cands : List Val)
    (child : Val → Prog) (v : Val), Reach π p (.node name sg cands child) → v ∈ cands →
    Reach (π ++ [⟨name, cands, v⟩]) p (child v) := by
  induction π with
  | nil =>
    intro p name sg cands child v h hv
    simp only [Reach] at h
    subst h
    simp [Reach, hv]
  | cons a π ih =>
    intro p name sg cands child v h hv
    cases p with
    | leaf o => simp [Reach] at h
    | node n2 s2 c2 ch2 =>
      simp only [Reach, List.cons_append] at h ⊢
      exact ⟨h.1, h.2.1, h.2.2.1, ih _ _ _ _ _ _ h.2.2.2 hv⟩

theorem leafPath_walk (p : Prog) : ∀ (l : List Step), LeafPath p l → Walk p l := by
  induction p with
  | leaf o => intro l h; simpa [LeafPath, Walk] using h
  | node name sg cands child ih =>
    intro l h
    simp only [LeafPath] at h
    obtain ⟨v, rest, h1, h2, h3⟩ := h
    simp only [Walk]
    exact Or.inr ⟨v, rest, h1, h2, ih v rest h3⟩

theorem trialOK_walk (p : Prog) (t : Trial) (h : TrialOK p t) : Walk p t.steps := by
  unfold TrialOK at h
  split at h
  · exact leafPath_walk p _ h
  · exact h

theorem walk_names (p : Prog) : ∀ (l : List Step), Walk p l → ∀ s ∈ l, HasName p s.name := by
  induction p with
  | leaf o => intro l h s hs; simp only [Walk] at h; subst h; simp at hs
  | node name sg cands child ih =>
    intro l h s hs
    simp only [Walk] at h
    rcases h with h | ⟨v, rest, h1, h2, h3⟩
    · subst h; simp at hs
    · subst h1
      simp only [List.mem_cons] at hs
      rcases hs with hs | hs
      · subst hs; simp [HasName]
      · exact Or.inr ⟨v, h2, ih v rest h3 s hs⟩

theorem reach_names (π : List Step) : ∀ (p q : Prog), Reach π p q → ∀ s ∈ π, HasName p s.name := by
  induction π with
  | nil => intro p q _ s hs; simp at hs
  | cons a π ih =>
    intro p q h s hs
    cases p with
    | leaf o => simp [Reach] at h
    | node name sg cands child =>
      simp only [Reach] at h
      obtain ⟨h1, h2, h3, h4⟩ := h
      simp only [List.mem_cons] at hs
      rcases hs with hs | hs
      · subst hs; exact Or.inl h1.symm
      · exact Or.inr ⟨a.value, h3, ih _ _ h4 s hs⟩

theorem all_congr_mem {α : Type} (l : List α) (f g : α → Bool) (h : ∀ x ∈ l, f x = g x) :
    l.all f = l.all g := by
  induction l with
  | nil => rfl
  | cons a l ih =>
    simp only [List.all_cons]
    rw [h a (by simp), ih (fun x hx => h x (by simp [hx]))]

/-- What the dictionary test and the name filter of `_populate_tree` compute on a consistent trial,
for a prefix `π` that leads to `q`: the trial is kept iff its path starts with `π`, and then the
path handed to `add_path` is the rest of it. -/
theorem restrict_trial (π : List Step) : ∀ (p q : Prog) (steps : List Step) (fin : Bool),
    p.WF → Reach π p q → TrialOK p ⟨steps, fin⟩ →
    (dictMatch (paramsOf π) ⟨steps, fin⟩ = true ∧
      ∃ rest, restSteps (paramsOf π) ⟨steps, fin⟩ = rest ∧ subPath π [⟨steps, fin⟩] = [⟨rest, fin⟩] ∧
        TrialOK q ⟨rest, fin⟩) ∨
    (dictMatch (paramsOf π) ⟨steps, fin⟩ = false ∧ subPath π [⟨steps, fin⟩] = []) := by
  induction π with
  | nil =>
    intro p q steps fin _ hr hok
    simp only [Reach] at hr
    subst hr
    exact Or.inl ⟨rfl, steps, restSteps_nil _, rfl, hok⟩
  | cons a π ih =>
    intro p q steps fin hwf hr hok
    cases p with
    | leaf o => simp [Reach] at hr
    | node name sg cands child =>
      simp only [Reach] at hr
      obtain ⟨hn, hc, hv, hr'⟩ := hr
      simp only [Prog.WF] at hwf
      obtain ⟨_, _, _, hkids⟩ := hwf
      have hwfc := (hkids a.value hv).1
      have hnot := (hkids a.value hv).2
      have hw := trialOK_walk _ _ hok
      cases steps with
      | nil =>
        refine Or.inr ⟨?_, ?_⟩
        · simp [dictMatch, paramsOf]
        · simp [subPath]
      | cons s rest' =>
        -- the first step of the trial is the root node's
        have hfirst : s.name = name ∧ s.value ∈ cands ∧ TrialOK (child s.value) ⟨rest', fin⟩ := by
          cases fin with
          | true =>
            simp only [TrialOK, LeafPath, if_true] at hok
            obtain ⟨v, r, heq, hv', hp⟩ := hok
            simp only [List.cons.injEq] at heq
            obtain ⟨h1, h2⟩ := heq
            subst h1; subst h2
            exact ⟨rfl, hv', by simpa [TrialOK] using hp⟩
          | false =>
            simp only [TrialOK, Walk] at hok
            rcases hok with hok | ⟨v, r, heq, hv', hp⟩
            · simp at hok
            · simp only [List.cons.injEq] at heq
              obtain ⟨h1, h2⟩ := heq
              subst h1; subst h2
              exact ⟨rfl, hv', by simpa [TrialOK] using hp⟩
        obtain ⟨hsn, hsv, hrest⟩ := hfirst
        by_cases hval : s.value = a.value
        · -- same branch: recurse
          have hrest2 : TrialOK (child a.value) ⟨rest', fin⟩ := by rw [← hval]; exact hrest
          have hnames_rest : ∀ x ∈ rest', x.name ≠ name := by
            intro x hx hxn
            have := walk_names _ _ (trialOK_walk _ _ hrest2) x hx
            rw [hxn] at this
            exact hnot this
          have hnames_pi : ∀ x ∈ π, x.name ≠ name := by
            intro x hx hxn
            have := reach_names _ _ _ hr' x hx
            rw [hxn] at this
            exact hnot this
          -- dictionary test: the head pair matches, the other pairs look past the first step
          have hdm : dictMatch (paramsOf (a :: π)) ⟨s :: rest', fin⟩ = dictMatch (paramsOf π) ⟨rest', fin⟩ := by
            simp only [dictMatch, paramsOf, List.map_cons, List.all_cons, List.find?_cons]
            have h1 : (s.name == a.name) = true := by simp [hsn, hn]
            simp only [h1, Option.map_some, hval, beq_self_eq_true, Bool.true_and]
            apply all_congr_mem
            intro pv hpv
            simp only [List.mem_map] at hpv
            obtain ⟨x, hx, hxe⟩ := hpv
            subst hxe
            have : (s.name == x.name) = false := by
              simp only [beq_eq_false_iff_ne, ne_eq, hsn]
              exact fun h => hnames_pi x hx h.symm
            simp [this]
          -- name filter: drops the first step, keeps filtering the rest with the shorter prefix
          have hrs : restSteps (paramsOf (a :: π)) ⟨s :: rest', fin⟩ = restSteps (paramsOf π) ⟨rest', fin⟩ := by
            simp only [restSteps, paramsOf, List.map_cons, List.any_cons, List.filter_cons]
            have h1 : (a.name == s.name) = true := by simp [hsn, hn]
            simp only [h1, Bool.true_or, Bool.not_true, Bool.false_eq_true, if_false]
            apply List.filter_congr
            intro x hx
            have : (a.name == x.name) = false := by
              simp only [beq_eq_false_iff_ne, ne_eq, hn]
              exact fun h => hnames_rest x hx h.symm
            simp [this]
          have hsp : subPath (a :: π) [⟨s :: rest', fin⟩] = subPath π [⟨rest', fin⟩] := by
            simp [subPath, sub, subOne, hval]
          rw [hdm, hrs, hsp]
          exact ih (child a.value) q rest' fin hwfc hr' hrest2
        · refine Or.inr ⟨?_, ?_⟩
          · simp only [dictMatch, paramsOf, List.map_cons, List.all_cons, List.find?_cons]
            have h1 : (s.name == a.name) = true := by simp [hsn, hn]
            simp [h1, hval]
          · simp [subPath, sub, subOne, hval]

/-- the root of the tree of `sample_independent` is expanded before populating -/
def forceExpand (name : String) (cands : List Val) : Tree → Tree
  | .unexp r => .exp (some name) cands (fun _ => .unexp false) r
  | t => t

theorem addPath_force (name : String) (sg : Bool) (cands : List Val) (child : Val → Prog)
    (H : List Trial) (steps : List Step) (fin : Bool)
    (hok : TrialOK (.node name sg cands child) ⟨steps, fin⟩) :
    (forceExpand name cands (specTree (.node name sg cands child) H)).addPath (finOf ⟨steps, fin⟩) steps =
      some (forceExpand name cands (specTree (.node name sg cands child) (H ++ [⟨steps, fin⟩]))) := by
  have hspec := addPath_spec (.node name sg cands child) H steps fin hok
  by_cases he : expandedHere H = true
  · have he2 : expandedHere (H ++ [⟨steps, fin⟩]) = true := by simp [expandedHere_append, he]
    have e1 : specTree (.node name sg cands child) H =
        .exp (some name) cands (fun v => specTree (child v) (sub v H)) (runningHere H) := by
      simp [specTree, he]
    have e2 : specTree (.node name sg cands child) (H ++ [⟨steps, fin⟩]) =
        .exp (some name) cands (fun v => specTree (child v) (sub v (H ++ [⟨steps, fin⟩])))
          (runningHere (H ++ [⟨steps, fin⟩])) := by
      simp [specTree, he2]
    rw [e1] at hspec ⊢
    rw [e2] at hspec ⊢
    simpa [forceExpand] using hspec
  · simp only [Bool.not_eq_true] at he
    have e1 : specTree (.node name sg cands child) H = .unexp (runningHere H) := by
      simp [specTree, he]
    cases steps with
    | nil =>
      cases fin with
      | true => simp [TrialOK, LeafPath] at hok
      | false =>
        have he2 : expandedHere (H ++ [⟨[], false⟩]) = false := by simp [expandedHere_append, he]
        have e2 : specTree (.node name sg cands child) (H ++ [⟨[], false⟩]) = .unexp true := by
          simp [specTree, he2, runningHere_append]
        rw [e1, e2]
        simp [forceExpand, Tree.addPath, finOf, Tree.setRunning]
    | cons s rest =>
      have hs : s.name = name ∧ s.cands = cands := by
        have hw := trialOK_walk _ _ hok
        simp only [Walk] at hw
        rcases hw with hw | ⟨v, r, heq, _, _⟩
        · simp at hw
        · simp only [List.cons.injEq] at heq
          rw [heq.1]
          exact ⟨rfl, rfl⟩
      have he2 : expandedHere (H ++ [⟨s :: rest, fin⟩]) = true := by simp [expandedHere_append]
      have e2 : specTree (.node name sg cands child) (H ++ [⟨s :: rest, fin⟩]) =
          .exp (some name) cands (fun v => specTree (child v) (sub v (H ++ [⟨s :: rest, fin⟩])))
            (runningHere (H ++ [⟨s :: rest, fin⟩])) := by
        simp [specTree, he2]
      rw [e1] at hspec ⊢
      rw [e2] at hspec ⊢
      simp only [forceExpand]
      rw [← hspec]
      simp [Tree.addPath, Tree.expand, hs.1, hs.2, sameKeys_self]

/-- The tree of `sample_independent`: for a prefix `π` that leads to the node `q`, populating the
root-expanded tree with the consistent history `H1` gives the (root-expanded) specification tree
of `q` for the history relative to `π`.  No ValueError. -/
theorem populate_restricted (p : Prog) (hwf : p.WF) (π : List Step) (name : String) (sg : Bool)
    (cands : List Val) (child : Val → Prog) (hr : Reach π p (.node name sg cands child))
    (H1 : List Trial) : ∀ (H0 : List Trial), (∀ t ∈ H1, TrialOK p t) →
    populate (forceExpand name cands (specTree (.node name sg cands child) H0)) H1 (paramsOf π) =
      some (forceExpand name cands (specTree (.node name sg cands child) (H0 ++ subPath π H1))) := by
  induction H1 with
  | nil => intro H0 _; simp [populate]
  | cons t rest ih =>
    intro H0 h
    have ht : TrialOK p ⟨t.steps, t.finished⟩ := h t (by simp)
    have hrest : ∀ x ∈ rest, TrialOK p x := fun x hx => h x (by simp [hx])
    have hsplit : subPath π (t :: rest) = subPath π [t] ++ subPath π rest := by
      have := subPath_append π [t] rest
      simpa using this
    rcases restrict_trial π p _ t.steps t.finished hwf hr ht with
      ⟨hdm, r, hrs, hsp, hokr⟩ | ⟨hdm, hsp⟩
    · have hadd := addPath_force name sg cands child H0 r t.finished hokr
      have hdm' : dictMatch (paramsOf π) t = true := hdm
      have hrs' : restSteps (paramsOf π) t = r := hrs
      have hsp' : subPath π [t] = [⟨r, t.finished⟩] := hsp
      rw [populate, hdm', if_pos rfl, hrs']
      change (match (forceExpand name cands (specTree (.node name sg cands child) H0)).addPath
          (finOf ⟨r, t.finished⟩) r with
        | none => none | some tree' => populate tree' rest (paramsOf π)) = _
      rw [hadd]
      have := ih (H0 ++ [⟨r, t.finished⟩]) hrest
      rw [hsplit, hsp']
      simpa using this
    · have hdm' : dictMatch (paramsOf π) t = false := hdm
      have hsp' : subPath π [t] = [] := hsp
      rw [populate, hdm']
      simp only [Bool.false_eq_true, if_false]
      rw [hsplit, hsp']
      simpa using ih H0 hrest

/-- `buildTree` (the tree of one `sample_independent` call) for a prefix that leads to a node. -/
theorem buildTree_spec (p : Prog) (hwf : p.WF) (π : List Step) (name : String) (sg : Bool)
    (cands : List Val) (child : Val → Prog) (hr : Reach π p (.node name sg cands child))
    (others : List Trial) (h : ∀ t ∈ others, TrialOK p t) :
    buildTree others π name cands =
      some (forceExpand name cands (specTree (.node name sg cands child) (subPath π others))) := by
  have := populate_restricted p hwf π name sg cands child hr others [] h
  simpa [buildTree, Tree.expand, forceExpand] using this

/-! ## Part C — counting -/

theorem sum_map_eq_zero_iff {α : Type} (l : List α) (f : α → Nat) :
    (l.map f).sum = 0 ↔ ∀ x ∈ l, f x = 0 := by
  induction l with
  | nil => simp
  | cons a l ih =>
    simp only [List.map_cons, List.sum_cons, List.mem_cons, forall_eq_or_imp]
    rw [← ih]
    omega

theorem sum_map_pos_iff {α : Type} (l : List α) (f : α → Nat) :
    0 < (l.map f).sum ↔ ∃ x ∈ l, 0 < f x := by
  induction l with
  | nil => simp
  | cons a l ih =>
    simp only [List.map_cons, List.sum_cons, List.mem_cons, exists_eq_or_imp]
    rw [← ih]
    omega

theorem sum_map_congr {α : Type} (l : List α) (f g : α → Nat) (h : ∀ x ∈ l, f x = g x) :
    (l.map f).sum = (l.map g).sum := by
  induction l with
  | nil => rfl
  | cons a l ih =>
    simp only [List.map_cons, List.sum_cons]
    rw [h a (by simp), ih (fun x hx => h x (by simp [hx]))]

theorem sum_map_update {α : Type} (l : List α) (f g : α → Nat) (v : α) (hnd : l.Nodup) (hv : v ∈ l)
    (hother : ∀ k ∈ l, k ≠ v → g k = f k) (hat : g v + 1 = f v) :
    (l.map g).sum + 1 = (l.map f).sum := by
  induction l with
  | nil => simp at hv
  | cons a l ih =>
    simp only [List.nodup_cons] at hnd
    simp only [List.map_cons, List.sum_cons]
    simp only [List.mem_cons] at hv
    by_cases hav : a = v
    · subst hav
      have : (l.map g).sum = (l.map f).sum :=
        sum_map_congr l g f (fun x hx => hother x (by simp [hx]) (fun h => hnd.1 (h ▸ hx)))
      omega
    · have hv' : v ∈ l := by
        rcases hv with hv | hv
        · exact absurd hv.symm hav
        · exact hv
      have := ih hnd.2 hv' (fun k hk hkv => hother k (by simp [hk]) hkv)
      have h2 := hother a (by simp) hav
      omega

/-- `sample_independent` looks at this tree: the node's children are the specification trees of the
sub-programs (also when nobody has been here yet). -/
theorem force_spec (name : String) (sg : Bool) (cands : List Val) (child : Val → Prog) (H : List Trial) :
    forceExpand name cands (specTree (.node name sg cands child) H) =
      .exp (some name) cands (fun v => specTree (child v) (sub v H)) (runningHere H) := by
  by_cases he : expandedHere H = true
  · simp [specTree, he, forceExpand]
  · simp only [Bool.not_eq_true] at he
    simp only [specTree, he, forceExpand, Bool.false_eq_true, if_false]
    congr 1
    funext v
    rw [sub_of_not_expanded v H he, specTree_nil]

theorem count_force_pos (excl : Bool) (name : String) (sg : Bool) (cands : List Val) (child : Val → Prog)
    (H : List Trial) (hne : cands ≠ [])
    (h : 0 < (specTree (.node name sg cands child) H).count excl) :
    0 < (forceExpand name cands (specTree (.node name sg cands child) H)).count excl := by
  by_cases he : expandedHere H = true
  · simpa [specTree, he, forceExpand] using h
  · simp only [Bool.not_eq_true] at he
    simp only [specTree, he, forceExpand, Bool.false_eq_true, if_false, Tree.count]
    rw [sum_map_pos_iff]
    cases cands with
    | nil => exact absurd rfl hne
    | cons a l => exact ⟨a, by simp, by simp⟩

/-- a positive count at a leaf of the program: nobody has finished here -/
theorem count_pos_leaf (excl : Bool) (o : Outcome) (H : List Trial)
    (h : 0 < (specTree (.leaf o) H).count excl) : finishedHere H = false := by
  by_cases he : expandedHere H = true
  · simp [specTree, he, Tree.count] at h
  · cases hf : finishedHere H with
    | false => rfl
    | true => exact absurd (finishedHere_le_expandedHere H hf) he

/-! ### the RNG can only return a child of positive weight -/

theorem zip_map_self (keys : List Val) (w : Val → Nat) :
    keys.zip (keys.map w) = keys.map (fun k => (k, w k)) := by
  induction keys with
  | nil => rfl
  | cons a l ih => simp only [List.map_cons, List.zip_cons_cons]; rw [ih]

theorem pick_map (keys : List Val) (w : Val → Nat) (proposal : Val) (h : ∃ k ∈ keys, 0 < w k) :
    pick keys (keys.map w) proposal ∈ keys ∧ 0 < w (pick keys (keys.map w) proposal) := by
  have hz := zip_map_self keys w
  unfold pick
  rw [hz]
  split
  · rename_i hany
    simp only [List.any_map, List.any_eq_true, Function.comp, Bool.and_eq_true, beq_iff_eq,
      decide_eq_true_eq] at hany
    obtain ⟨k, hk, hkp, hkw⟩ := hany
    subst hkp
    exact ⟨hk, hkw⟩
  · split
    · rename_i kw hf
      have h1 := List.find?_some hf
      have h2 := List.mem_of_find?_eq_some hf
      simp only [List.mem_map] at h2
      obtain ⟨k, hk, hke⟩ := h2
      subst hke
      simp only [decide_eq_true_eq] at h1
      exact ⟨hk, h1⟩
    · rename_i hf
      rw [List.find?_eq_none] at hf
      obtain ⟨k, hk, hw⟩ := h
      exact absurd (by simpa using hw) (hf (k, w k) (by simp only [List.mem_map]; exact ⟨k, hk, rfl⟩))

/-- "the chosen child always has an unexpanded descendant" -/
theorem sampleChild_pos (excl : Bool) (n : Option String) (ks : List Val) (ch : Val → Tree) (r : Bool)
    (proposal : Val) (h : 0 < (Tree.exp n ks ch r).count excl) :
    (Tree.exp n ks ch r).sampleChild excl proposal ∈ ks ∧
      0 < (ch ((Tree.exp n ks ch r).sampleChild excl proposal)).count excl := by
  simp only [Tree.count] at h
  rw [sum_map_pos_iff] at h
  obtain ⟨k0, hk0, hc0⟩ := h
  simp only [Tree.sampleChild, Tree.keys, Tree.weights]
  generalize hprio : (ks.any fun k => !(ch k).isRunning && decide (0 < (ch k).count excl)) = prio
  have hex : ∃ k ∈ ks, 0 < (if (prio && (ch k).isRunning) = true then 0 else (ch k).count excl) := by
    cases prio with
    | false => exact ⟨k0, hk0, by simpa using hc0⟩
    | true =>
      simp only [List.any_eq_true, Bool.and_eq_true, Bool.not_eq_true', decide_eq_true_eq] at hprio
      obtain ⟨k, hk, hr, hc⟩ := hprio
      exact ⟨k, hk, by simp [hr, hc]⟩
  have := pick_map ks (fun k => if (prio && (ch k).isRunning) = true then 0 else (ch k).count excl)
    proposal hex
  refine ⟨this.1, ?_⟩
  have h2 := this.2
  split at h2
  · omega
  · exact h2

/-! ### `remaining` -/

theorem trialOK_sub (name : String) (sg : Bool) (cands : List Val) (child : Val → Prog) (v : Val)
    (H : List Trial) (h : ∀ t ∈ H, TrialOK (.node name sg cands child) t) :
    ∀ t ∈ sub v H, TrialOK (child v) t := by
  intro t' ht'
  simp only [sub, List.mem_filterMap] at ht'
  obtain ⟨t, ht, hsome⟩ := ht'
  have hok := h t ht
  unfold subOne at hsome
  split at hsome
  · simp at hsome
  · rename_i s rest hsteps
    split at hsome
    · rename_i hv
      simp only [Option.some.injEq] at hsome
      subst hsome
      unfold TrialOK at hok ⊢
      rw [hsteps] at hok
      cases hf : t.finished with
      | true =>
        simp only [hf, if_true, LeafPath] at hok ⊢
        obtain ⟨w, r, heq, _, hp⟩ := hok
        simp only [List.cons.injEq] at heq
        obtain ⟨h1, h2⟩ := heq
        subst h2
        rw [h1] at hv
        simp only at hv
        subst hv
        exact hp
      | false =>
        simp only [hf, Bool.false_eq_true, if_false, Walk] at hok ⊢
        rcases hok with hok | ⟨w, r, heq, _, hp⟩
        · simp at hok
        · simp only [List.cons.injEq] at heq
          obtain ⟨h1, h2⟩ := heq
          subst h2
          rw [h1] at hv
          simp only at hv
          subst hv
          exact hp
    · simp at hsome

theorem sub_finished (v : Val) (H : List Trial) (h : ∀ t ∈ H, t.finished = true) :
    ∀ t ∈ sub v H, t.finished = true := by
  intro t' ht'
  simp only [sub, List.mem_filterMap] at ht'
  obtain ⟨t, ht, hsome⟩ := ht'
  unfold subOne at hsome
  split at hsome
  · simp at hsome
  · split at hsome
    · simp only [Option.some.injEq] at hsome
      subst hsome
      exact h t ht
    · simp at hsome

theorem sub_running (v : Val) (H : List Trial) (h : ∀ t ∈ H, t.finished = false) :
    ∀ t ∈ sub v H, t.finished = false := by
  intro t' ht'
  simp only [sub, List.mem_filterMap] at ht'
  obtain ⟨t, ht, hsome⟩ := ht'
  unfold subOne at hsome
  split at hsome
  · simp at hsome
  · split at hsome
    · simp only [Option.some.injEq] at hsome
      subst hsome
      exact h t ht
    · simp at hsome

theorem runningHere_of_all_finished (H : List Trial) (h : ∀ t ∈ H, t.finished = true) :
    runningHere H = false := by
  cases hr : runningHere H with
  | false => rfl
  | true =>
    simp only [runningHere, List.any_eq_true, Bool.and_eq_true, Bool.not_eq_true'] at hr
    obtain ⟨t, ht, h1, _⟩ := hr
    rw [h t ht] at h1
    simp at h1

/-- The mode hypothesis of the main theorem: strict mode (`avoid_premature_stop=True`, the count
does not exclude running nodes), or no RUNNING trial in the history. -/
def ModeOK (excl : Bool) (H : List Trial) : Prop := excl = false ∨ ∀ t ∈ H, t.finished = true

theorem modeOK_sub (excl : Bool) (v : Val) (H : List Trial) (h : ModeOK excl H) : ModeOK excl (sub v H) := by
  rcases h with h | h
  · exact Or.inl h
  · exact Or.inr (sub_finished v H h)

theorem count_unexp_modeOK (excl : Bool) (H : List Trial) (h : ModeOK excl H) :
    (Tree.unexp (runningHere H)).count excl = 1 := by
  rcases h with h | h
  · simp [Tree.count, h]
  · simp [Tree.count, runningHere_of_all_finished H h]

/-- nothing left to count ⇒ every leaf of the program has been finished (needs the mode hypothesis:
in the default mode a stale RUNNING trial hides its node) -/
theorem remaining_zero_of_count_zero (excl : Bool) (p : Prog) : ∀ (H : List Trial),
    (∀ t ∈ H, TrialOK p t) → ModeOK excl H → (specTree p H).count excl = 0 → remaining p H = 0 := by
  induction p with
  | leaf o =>
    intro H hok hm hc
    by_cases he : expandedHere H = true
    · -- some trial is finished, and at a leaf its path is empty
      simp only [expandedHere, List.any_eq_true, Bool.or_eq_true, Bool.not_eq_true'] at he
      obtain ⟨t, ht, hfe⟩ := he
      have hsteps : t.steps = [] := by
        have := trialOK_walk _ _ (hok t ht)
        simpa [Walk] using this
      have hfin : t.finished = true := by
        rcases hfe with h | h
        · exact h
        · simp [hsteps] at h
      have : finishedHere H = true := by
        simp only [finishedHere, List.any_eq_true, Bool.and_eq_true]
        exact ⟨t, ht, hfin, by simp [hsteps]⟩
      simp [remaining, this]
    · simp only [Bool.not_eq_true] at he
      have := count_unexp_modeOK excl H hm
      simp only [specTree, he, Bool.false_eq_true, if_false] at hc
      omega
  | node name sg cands child ih =>
    intro H hok hm hc
    by_cases he : expandedHere H = true
    · simp only [specTree, he, if_true, Tree.count] at hc
      rw [sum_map_eq_zero_iff] at hc
      simp only [remaining]
      rw [sum_map_eq_zero_iff]
      intro v hv
      exact ih v (sub v H) (trialOK_sub name sg cands child v H hok) (modeOK_sub excl v H hm) (hc v hv)
    · simp only [Bool.not_eq_true] at he
      have := count_unexp_modeOK excl H hm
      simp only [specTree, he, Bool.false_eq_true, if_false] at hc
      omega

theorem expanded_of_remaining_zero (p : Prog) : ∀ (H : List Trial), p.WF →
    remaining p H = 0 → expandedHere H = true := by
  induction p with
  | leaf o =>
    intro H _ h
    simp only [remaining] at h
    split at h
    · rename_i hf; exact finishedHere_le_expandedHere H hf
    · omega
  | node name sg cands child ih =>
    intro H hwf h
    simp only [Prog.WF] at hwf
    obtain ⟨hne, _, _, hkids⟩ := hwf
    simp only [remaining] at h
    rw [sum_map_eq_zero_iff] at h
    cases cands with
    | nil => exact absurd rfl hne
    | cons v l =>
      have h1 := ih v (sub v H) (hkids v (by simp)).1 (h v (by simp))
      -- some trial of `sub v H` exists, hence some trial of `H` has a non-empty path
      simp only [expandedHere, List.any_eq_true] at h1
      obtain ⟨t', ht', _⟩ := h1
      simp only [sub, List.mem_filterMap] at ht'
      obtain ⟨t, ht, hsome⟩ := ht'
      simp only [expandedHere, List.any_eq_true, Bool.or_eq_true, Bool.not_eq_true']
      refine ⟨t, ht, Or.inr ?_⟩
      unfold subOne at hsome
      split at hsome
      · simp at hsome
      · rename_i s rest hs; simp [hs]

/-- every leaf finished ⇒ nothing left to count (any mode) -/
theorem count_zero_of_remaining_zero (excl : Bool) (p : Prog) : ∀ (H : List Trial), p.WF →
    remaining p H = 0 → (specTree p H).count excl = 0 := by
  induction p with
  | leaf o =>
    intro H hwf h
    have he := expanded_of_remaining_zero _ H hwf h
    simp [specTree, he, Tree.count]
  | node name sg cands child ih =>
    intro H hwf h
    have he := expanded_of_remaining_zero _ H hwf h
    simp only [Prog.WF] at hwf
    obtain ⟨_, _, _, hkids⟩ := hwf
    simp only [remaining] at h
    rw [sum_map_eq_zero_iff] at h
    simp only [specTree, he, if_true, Tree.count]
    rw [sum_map_eq_zero_iff]
    intro v hv
    exact ih v (sub v H) (hkids v hv).1 (h v hv)

theorem remaining_all_running (p : Prog) : ∀ (H : List Trial), (∀ t ∈ H, t.finished = false) →
    remaining p H = numLeaves p := by
  induction p with
  | leaf o =>
    intro H h
    have : finishedHere H = false := by
      cases hf : finishedHere H with
      | false => rfl
      | true =>
        simp only [finishedHere, List.any_eq_true, Bool.and_eq_true] at hf
        obtain ⟨t, ht, h1, _⟩ := hf
        rw [h t ht] at h1
        simp at h1
    simp [remaining, numLeaves, this]
  | node name sg cands child ih =>
    intro H h
    simp only [remaining, numLeaves]
    exact sum_map_congr cands _ _ (fun v _ => ih v (sub v H) (sub_running v H h))

/-- A finished trial at a leaf that no finished trial had reached lowers `remaining` by exactly one. -/
theorem remaining_step (p : Prog) : ∀ (H : List Trial) (l : List Step), p.WF → LeafPath p l →
    finishedHere (subPath l H) = false →
    remaining p (H ++ [⟨l, true⟩]) + 1 = remaining p H := by
  induction p with
  | leaf o =>
    intro H l _ hl hf
    simp only [LeafPath] at hl
    subst hl
    simp only [subPath] at hf
    simp [remaining, finishedHere_append, hf]
  | node name sg cands child ih =>
    intro H l hwf hl hf
    simp only [LeafPath] at hl
    obtain ⟨v, rest, hl, hv, hp⟩ := hl
    subst hl
    simp only [Prog.WF] at hwf
    obtain ⟨_, hnd, _, hkids⟩ := hwf
    simp only [subPath] at hf
    have hrec := ih v (sub v H) rest (hkids v hv).1 hp hf
    simp only [remaining]
    apply sum_map_update cands _ _ v hnd hv
    · intro k _ hkv
      have : ¬ v = k := fun h => hkv h.symm
      simp [sub, subOne, this]
    · have : sub v (H ++ [⟨⟨name, cands, v⟩ :: rest, true⟩]) = sub v H ++ [⟨rest, true⟩] := by
        simp [sub, subOne]
      rw [this]
      exact hrec

/-- nothing remaining ⇒ every root-to-leaf path of the program is the path of a finished trial -/
theorem visited_of_remaining_zero (p : Prog) : ∀ (H : List Trial) (l : List Step),
    (∀ t ∈ H, TrialOK p t) → remaining p H = 0 → LeafPath p l →
    ∃ t ∈ H, t.finished = true ∧ t.steps = l := by
  induction p with
  | leaf o =>
    intro H l hok h hl
    simp only [LeafPath] at hl
    subst hl
    simp only [remaining] at h
    split at h
    · rename_i hf
      simp only [finishedHere, List.any_eq_true, Bool.and_eq_true, List.isEmpty_iff] at hf
      obtain ⟨t, ht, h1, h2⟩ := hf
      exact ⟨t, ht, h1, h2⟩
    · omega
  | node name sg cands child ih =>
    intro H l hok h hl
    simp only [LeafPath] at hl
    obtain ⟨v, rest, hl, hv, hp⟩ := hl
    subst hl
    simp only [remaining] at h
    rw [sum_map_eq_zero_iff] at h
    obtain ⟨t', ht', hfin', hsteps'⟩ :=
      ih v (sub v H) rest (trialOK_sub name sg cands child v H hok) (h v hv) hp
    simp only [sub, List.mem_filterMap] at ht'
    obtain ⟨t, ht, hsome⟩ := ht'
    refine ⟨t, ht, ?_⟩
    have hokt := hok t ht
    unfold subOne at hsome
    split at hsome
    · simp at hsome
    · rename_i s r hs
      split at hsome
      · rename_i hsv
        simp only [Option.some.injEq] at hsome
        subst hsome
        simp only at hfin' hsteps'
        refine ⟨hfin', ?_⟩
        have hw := trialOK_walk _ _ hokt
        rw [hs] at hw ⊢
        simp only [Walk] at hw
        rcases hw with hw | ⟨w, r', heq, _, _⟩
        · simp at hw
        · simp only [List.cons.injEq] at heq
          obtain ⟨h1, h2⟩ := heq
          rw [h1] at hsv ⊢
          simp only at hsv
          rw [hsv, hsteps']
      · simp at hsome

/-- the converse: if every root-to-leaf path is the path of a finished trial, nothing remains -/
theorem remaining_zero_of_visited (p : Prog) : ∀ (H : List Trial),
    (∀ l, LeafPath p l → ∃ t ∈ H, t.finished = true ∧ t.steps = l) → remaining p H = 0 := by
  induction p with
  | leaf o =>
    intro H h
    obtain ⟨t, ht, h1, h2⟩ := h [] (by simp [LeafPath])
    have : finishedHere H = true := by
      simp only [finishedHere, List.any_eq_true, Bool.and_eq_true]
      exact ⟨t, ht, h1, by simp [h2]⟩
    simp [remaining, this]
  | node name sg cands child ih =>
    intro H h
    simp only [remaining]
    rw [sum_map_eq_zero_iff]
    intro v hv
    apply ih v (sub v H)
    intro l hl
    obtain ⟨t, ht, h1, h2⟩ := h (⟨name, cands, v⟩ :: l) (by simp only [LeafPath]; exact ⟨v, l, rfl, hv, hl⟩)
    refine ⟨⟨l, t.finished⟩, ?_, h1, rfl⟩
    simp only [sub, List.mem_filterMap]
    exact ⟨t, ht, by simp [subOne, h2]⟩

/-- a finished trial of the history shows up at the end of its own path -/
theorem finishedHere_subPath (l : List Step) : ∀ (H : List Trial) (t : Trial), t ∈ H →
    t.finished = true → t.steps = l → finishedHere (subPath l H) = true := by
  induction l with
  | nil =>
    intro H t ht hf hs
    simp only [subPath, finishedHere, List.any_eq_true, Bool.and_eq_true]
    exact ⟨t, ht, hf, by simp [hs]⟩
  | cons s rest ih =>
    intro H t ht hf hs
    simp only [subPath]
    apply ih (sub s.value H) ⟨rest, t.finished⟩ _ hf rfl
    simp only [sub, List.mem_filterMap]
    exact ⟨t, ht, by simp [subOne, hs]⟩

/-! ## Part D — one trial -/

/-- no leaf of the program raises an exception that `optimize` does not catch -/
def NoRaise : Prog → Prop
  | .leaf o => o.raises = false
  | .node _ _ cands child => ∀ v, v ∈ cands → NoRaise (child v)

theorem reach_leaf (π : List Step) : ∀ (p : Prog) (o : Outcome), Reach π p (.leaf o) → LeafPath p π := by
  induction π with
  | nil => intro p o h; simp only [Reach] at h; subst h; simp [LeafPath]
  | cons a π ih =>
    intro p o h
    cases p with
    | leaf o' => simp [Reach] at h
    | node name sg cands child =>
      simp only [Reach] at h
      obtain ⟨h1, h2, h3, h4⟩ := h
      simp only [LeafPath]
      refine ⟨a.value, π, ?_, h3, ih _ _ h4⟩
      rw [← h1, ← h2]

theorem reach_wf (π : List Step) : ∀ (p q : Prog), Reach π p q → p.WF → q.WF := by
  induction π with
  | nil => intro p q h hwf; simp only [Reach] at h; subst h; exact hwf
  | cons a π ih =>
    intro p q h hwf
    cases p with
    | leaf o' => simp [Reach] at h
    | node name sg cands child =>
      simp only [Reach] at h
      simp only [Prog.WF] at hwf
      exact ih _ _ h.2.2.2 (hwf.2.2.2 a.value h.2.2.1).1

/-- **One objective call.**  If something is still unexpanded below the current node, the trial
never hits a sampler error, ends at a leaf of the program, and no finished trial has ended at that
leaf before — for every RNG `ω`, in both modes, whatever RUNNING trials are around. -/
theorem runObj_spec (avoid : Bool) (ω : Nat → Val) (p0 : Prog) (hwf0 : p0.WF) (others : List Trial)
    (hok : ∀ t ∈ others, TrialOK p0 t) (cut : Cut) (hcut : ∀ j, cut ≠ .mid j) (q : Prog) :
    ∀ (pre : List Step) (c : Nat), Reach pre p0 q →
      0 < (specTree q (subPath pre others)).count (!avoid) →
      (runObj avoid ω others q pre c cut).1.isError = false ∧
      LeafPath p0 (runObj avoid ω others q pre c cut).1.steps ∧
      finishedHere (subPath (runObj avoid ω others q pre c cut).1.steps others) = false ∧
      (cut = .none → NoRaise q → (runObj avoid ω others q pre c cut).1.raised = false) := by
  induction q with
  | leaf o =>
    intro pre c hr hc
    have hlp := reach_leaf pre p0 o hr
    have hfin := count_pos_leaf (!avoid) o _ hc
    cases cut with
    | none => exact ⟨rfl, hlp, hfin, fun _ h => h⟩
    | mid j => exact ⟨rfl, hlp, hfin, fun h => by simp at h⟩
    | atEnd => exact ⟨rfl, hlp, hfin, fun h => by simp at h⟩
  | node name sg cands child ih =>
    intro pre c hr hc
    have hwfq := reach_wf pre p0 _ hr hwf0
    simp only [Prog.WF] at hwfq
    obtain ⟨hne, hnd, hsingle, hkids⟩ := hwfq
    have hcf := count_force_pos (!avoid) name sg cands child _ hne hc
    rw [force_spec] at hcf
    have hnotmid : ¬ (cut = Cut.mid pre.length) := hcut pre.length
    by_cases hsg : sg = true
    · obtain ⟨v, hv⟩ := hsingle hsg
      have hvm : v ∈ cands := by simp [hv]
      have hstep : runObj avoid ω others (.node name sg cands child) pre c cut =
          runObj avoid ω others (child v) (pre ++ [⟨name, cands, v⟩]) c cut := by
        simp [runObj, hnotmid, hsg, hv]
      rw [hstep]
      have hr' := reach_snoc pre p0 name sg cands child v hr hvm
      have hc' : 0 < (specTree (child v) (subPath (pre ++ [⟨name, cands, v⟩]) others)).count (!avoid) := by
        rw [subPath_snoc]
        simp only [Tree.count, hv, List.map_cons, List.map_nil, List.sum_cons, List.sum_nil] at hcf
        simpa using hcf
      have := ih v (pre ++ [⟨name, cands, v⟩]) c hr' hc'
      refine ⟨this.1, this.2.1, this.2.2.1, fun h1 h2 => this.2.2.2 h1 ?_⟩
      simp only [NoRaise] at h2
      exact h2 v hvm
    · have hbt := buildTree_spec p0 hwf0 pre name sg cands child hr others hok
      rw [force_spec] at hbt
      have hpos := sampleChild_pos (!avoid) (some name) cands
        (fun v => specTree (child v) (sub v (subPath pre others))) (runningHere (subPath pre others))
        (ω c) hcf
      generalize hv : (Tree.exp (some name) cands
        (fun v => specTree (child v) (sub v (subPath pre others)))
        (runningHere (subPath pre others))).sampleChild (!avoid) (ω c) = v at hpos
      have hne0 : ¬ ((Tree.exp (some name) cands
        (fun v => specTree (child v) (sub v (subPath pre others)))
        (runningHere (subPath pre others))).count (!avoid) = 0) := by omega
      have hstep : runObj avoid ω others (.node name sg cands child) pre c cut =
          runObj avoid ω others (child v) (pre ++ [⟨name, cands, v⟩]) (c + 1) cut := by
        simp [runObj, hnotmid, hsg, sampleIndependent, hbt, hne0, hv]
      rw [hstep]
      have hr' := reach_snoc pre p0 name sg cands child v hr hpos.1
      have hc' : 0 < (specTree (child v) (subPath (pre ++ [⟨name, cands, v⟩]) others)).count (!avoid) := by
        rw [subPath_snoc]
        exact hpos.2
      have := ih v (pre ++ [⟨name, cands, v⟩]) (c + 1) hr' hc'
      refine ⟨this.1, this.2.1, this.2.2.1, fun h1 h2 => this.2.2.2 h1 ?_⟩
      simp only [NoRaise] at h2
      exact h2 v hpos.1

/-! ## Part E — the optimize loop and sessions -/

/-- the parameter combinations evaluated to the end (paths of the finished trials, by number) -/
def evalOf (H : List Trial) : List (List Step) := (H.filter (·.finished)).map (·.steps)

def evaluated (st : St) : List (List Step) := evalOf st.trials

def nFinished (H : List Trial) : Nat := (H.filter (·.finished)).length

theorem evalOf_snoc (H : List Trial) (l : List Step) : evalOf (H ++ [⟨l, true⟩]) = evalOf H ++ [l] := by
  simp [evalOf, List.filter_append]

theorem nFinished_snoc (H : List Trial) (l : List Step) : nFinished (H ++ [⟨l, true⟩]) = nFinished H + 1 := by
  simp [nFinished, List.filter_append]

theorem numLeaves_pos (p : Prog) : p.WF → 0 < numLeaves p := by
  induction p with
  | leaf o => intro _; simp [numLeaves]
  | node name sg cands child ih =>
    intro hwf
    simp only [Prog.WF] at hwf
    obtain ⟨hne, _, _, hkids⟩ := hwf
    simp only [numLeaves]
    rw [sum_map_pos_iff]
    cases cands with
    | nil => exact absurd rfl hne
    | cons v l => exact ⟨v, by simp, ih v (hkids v (by simp)).1⟩

/-- The loop invariant of a sequential brute-force run on program `p`. -/
structure Inv (excl : Bool) (p : Prog) (st : St) : Prop where
  ok : ∀ t ∈ st.trials, TrialOK p t
  mode : ModeOK excl st.trials
  noCrash : st.crashed = false
  nodup : (evaluated st).Nodup
  count : remaining p st.trials + nFinished st.trials = numLeaves p
  stop : st.stop = true ↔ remaining p st.trials = 0

theorem modeOK_snoc_finished (excl : Bool) (H : List Trial) (l : List Step) (h : ModeOK excl H) :
    ModeOK excl (H ++ [⟨l, true⟩]) := by
  rcases h with h | h
  · exact Or.inl h
  · refine Or.inr ?_
    intro t ht
    simp only [List.mem_append, List.mem_singleton] at ht
    rcases ht with ht | ht
    · exact h t ht
    · subst ht; rfl

/-- **One `_run_trial`** from a state that satisfies the invariant and has not stopped. -/
theorem runTrial_inv (cx : Ctx) (p : Prog) (hwf : p.WF) (st : St) (hinv : Inv (!cx.avoid) p st)
    (hns : st.stop = false) (hcut : ∀ j, cx.cuts st.trials.length ≠ .mid j) :
    Inv (!cx.avoid) p (runTrial cx p st).1 ∧
    (∃ l, (runTrial cx p st).1.trials = st.trials ++ [⟨l, true⟩]) ∧
    remaining p (runTrial cx p st).1.trials + 1 = remaining p st.trials ∧
    (cx.cuts st.trials.length = .none → NoRaise p → (runTrial cx p st).2 = false) := by
  have hcount : 0 < (specTree p st.trials).count (!cx.avoid) := by
    rcases Nat.eq_zero_or_pos ((specTree p st.trials).count (!cx.avoid)) with h | h
    · have := remaining_zero_of_count_zero (!cx.avoid) p st.trials hinv.ok hinv.mode h
      have := hinv.stop.mpr this
      rw [hns] at this
      simp at this
    · exact h
  have hspec := runObj_spec cx.avoid cx.ω p hwf st.trials hinv.ok (cx.cuts st.trials.length) hcut p
    [] st.calls rfl hcount
  generalize hr : runObj cx.avoid cx.ω st.trials p [] st.calls (cx.cuts st.trials.length) = r at hspec
  obtain ⟨hnoerr, hlp, hnew, hraise⟩ := hspec
  have hok' : ∀ t ∈ st.trials ++ [⟨r.1.steps, true⟩], TrialOK p t := by
    intro t ht
    simp only [List.mem_append, List.mem_singleton] at ht
    rcases ht with ht | ht
    · exact hinv.ok t ht
    · subst ht; simpa [TrialOK] using hlp
  have hpop := populate_from_empty p _ hok'
  have htr : (runTrial cx p st).1.trials = st.trials ++ [⟨r.1.steps, true⟩] := by
    simp only [runTrial, hr, afterTrial, hpop]
  have hst : (runTrial cx p st).1.stop =
      ((specTree p (st.trials ++ [⟨r.1.steps, true⟩])).count (!cx.avoid) == 0) := by
    simp only [runTrial, hr, afterTrial, hpop, hns, Bool.false_or]
  have hcr : (runTrial cx p st).1.crashed = false := by
    simp only [runTrial, hr, afterTrial, hpop, hinv.noCrash, hnoerr, Bool.or_self]
  have hrs : (runTrial cx p st).2 = r.1.raised := by
    simp only [runTrial, hr, afterTrial, hpop]
  have hmode' := modeOK_snoc_finished (!cx.avoid) st.trials r.1.steps hinv.mode
  have hrem := remaining_step p st.trials r.1.steps hwf hlp hnew
  refine ⟨?_, ⟨r.1.steps, htr⟩, by rw [htr]; exact hrem, by rw [hrs]; exact hraise⟩
  constructor
  · rw [htr]; exact hok'
  · rw [htr]; exact hmode'
  · exact hcr
  · -- the new path is not among the old ones
    simp only [evaluated]
    rw [htr, evalOf_snoc, List.nodup_append]
    refine ⟨hinv.nodup, by simp, ?_⟩
    intro a ha b hb hab
    simp only [List.mem_singleton] at hb
    subst hb
    subst hab
    simp only [evalOf, List.mem_map, List.mem_filter] at ha
    obtain ⟨t, ⟨ht, hf⟩, hs⟩ := ha
    have := finishedHere_subPath _ st.trials t ht hf hs
    rw [this] at hnew
    simp at hnew
  · rw [htr, nFinished_snoc]
    have hc := hinv.count
    omega
  · rw [hst, htr]
    simp only [beq_iff_eq]
    constructor
    · intro h
      exact remaining_zero_of_count_zero (!cx.avoid) p _ hok' hmode' h
    · intro h
      exact count_zero_of_remaining_zero (!cx.avoid) p _ hwf h

def NoMidCut (cx : Ctx) : Prop := ∀ n j, cx.cuts n ≠ .mid j

theorem optimizeLoop_inv (cx : Ctx) (p : Prog) (hwf : p.WF) (hcuts : NoMidCut cx) (k : Nat) :
    ∀ (st : St), Inv (!cx.avoid) p st → Inv (!cx.avoid) p (optimizeLoop cx p k st) := by
  induction k with
  | zero => intro st h; exact h
  | succ k ih =>
    intro st h
    simp only [optimizeLoop]
    cases hs : st.stop with
    | true => simpa using h
    | false =>
      have := (runTrial_inv cx p hwf st h hs (hcuts _)).1
      simp only [Bool.false_eq_true, if_false]
      split
      · exact this
      · exact ih _ this

theorem reset_stop (st : St) (h : st.stop = false) : { st with stop := false } = st := by
  cases st
  simp only at h
  subst h
  rfl

theorem optimize_of_not_stop (cx : Ctx) (p : Prog) (k : Nat) (st : St) (h : st.stop = false) :
    optimize cx p k st = optimizeLoop cx p k st := by
  simp only [optimize]
  rw [reset_stop st h]

theorem session_cons (cx : Ctx) (p : Prog) (k : Nat) (ks : List Nat) (st : St) :
    session cx p (k :: ks) st = session cx p ks (if st.stop then st else optimize cx p k st) := rfl

theorem session_stopped (cx : Ctx) (p : Prog) (ks : List Nat) : ∀ (st : St), st.stop = true →
    session cx p ks st = st := by
  induction ks with
  | nil => intro st _; rfl
  | cons k ks ih => intro st h; rw [session_cons, if_pos h]; exact ih st h

theorem session_inv (cx : Ctx) (p : Prog) (hwf : p.WF) (hcuts : NoMidCut cx) (ks : List Nat) :
    ∀ (st : St), Inv (!cx.avoid) p st → Inv (!cx.avoid) p (session cx p ks st) := by
  induction ks with
  | nil => intro st h; exact h
  | cons k ks ih =>
    intro st h
    rw [session_cons]
    cases hs : st.stop with
    | true => simpa using ih st h
    | false =>
      simp only [Bool.false_eq_true, if_false]
      rw [optimize_of_not_stop cx p k st hs]
      exact ih _ (optimizeLoop_inv cx p hwf hcuts k st h)

/-- trials are only ever appended, and every appended trial is finished -/
theorem optimizeLoop_shape (cx : Ctx) (p : Prog) (hwf : p.WF) (hcuts : NoMidCut cx) (k : Nat) :
    ∀ (st : St), Inv (!cx.avoid) p st →
    ∃ F, (optimizeLoop cx p k st).trials = st.trials ++ F ∧ ∀ t ∈ F, t.finished = true := by
  induction k with
  | zero => intro st _; exact ⟨[], by simp [optimizeLoop], by simp⟩
  | succ k ih =>
    intro st h
    simp only [optimizeLoop]
    cases hs : st.stop with
    | true => exact ⟨[], by simp, by simp⟩
    | false =>
      obtain ⟨hinv', ⟨l, hl⟩, _, _⟩ := runTrial_inv cx p hwf st h hs (hcuts _)
      simp only [Bool.false_eq_true, if_false]
      split
      · exact ⟨[⟨l, true⟩], hl, by simp⟩
      · obtain ⟨F, hF, hfin⟩ := ih _ hinv'
        refine ⟨⟨l, true⟩ :: F, ?_, ?_⟩
        · rw [hF, hl]; simp
        · intro t ht
          simp only [List.mem_cons] at ht
          rcases ht with ht | ht
          · subst ht; rfl
          · exact hfin t ht

theorem session_shape (cx : Ctx) (p : Prog) (hwf : p.WF) (hcuts : NoMidCut cx) (ks : List Nat) :
    ∀ (st : St), Inv (!cx.avoid) p st →
    ∃ F, (session cx p ks st).trials = st.trials ++ F ∧ ∀ t ∈ F, t.finished = true := by
  induction ks with
  | nil => intro st _; exact ⟨[], by simp [session], by simp⟩
  | cons k ks ih =>
    intro st h
    rw [session_cons]
    cases hs : st.stop with
    | true => simpa using ih st h
    | false =>
      simp only [Bool.false_eq_true, if_false]
      rw [optimize_of_not_stop cx p k st hs]
      obtain ⟨F1, hF1, hfin1⟩ := optimizeLoop_shape cx p hwf hcuts k st h
      obtain ⟨F2, hF2, hfin2⟩ := ih _ (optimizeLoop_inv cx p hwf hcuts k st h)
      refine ⟨F1 ++ F2, ?_, ?_⟩
      · rw [hF2, hF1]; simp
      · intro t ht
        simp only [List.mem_append] at ht
        rcases ht with ht | ht
        · exact hfin1 t ht
        · exact hfin2 t ht

/-- the initial study: only stale RUNNING trials `R` (created by a worker that died) -/
def initSt (R : List Trial) : St := { trials := R }

theorem inv_init (excl : Bool) (p : Prog) (hwf : p.WF) (R : List Trial)
    (hR : ∀ t ∈ R, t.finished = false ∧ Walk p t.steps) (hmode : excl = false ∨ R = []) :
    Inv excl p (initSt R) := by
  have hfil : R.filter (·.finished) = [] := by
    rw [List.filter_eq_nil_iff]
    intro t ht
    simp [(hR t ht).1]
  constructor
  · intro t ht
    have := hR t ht
    simp only [initSt] at ht
    simp [TrialOK, this.1, this.2]
  · rcases hmode with h | h
    · exact Or.inl h
    · refine Or.inr ?_
      subst h
      intro t ht
      simp [initSt] at ht
  · rfl
  · simp [evaluated, evalOf, initSt, hfil]
  · have := remaining_all_running p R (fun t ht => (hR t ht).1)
    simp [initSt, nFinished, hfil, this]
  · have := remaining_all_running p R (fun t ht => (hR t ht).1)
    have hpos := numLeaves_pos p hwf
    simp only [initSt]
    constructor
    · intro h; simp at h
    · intro h; omega

/-! ### how many trials a call runs (programs that never raise, no interruption) -/

def NoCut (cx : Ctx) : Prop := ∀ n, cx.cuts n = .none

theorem noMid_of_noCut (cx : Ctx) (h : NoCut cx) : NoMidCut cx := by
  intro n j; rw [h n]; simp

theorem optimizeLoop_count (cx : Ctx) (p : Prog) (hwf : p.WF) (hcuts : NoCut cx) (hnr : NoRaise p)
    (k : Nat) : ∀ (st : St), Inv (!cx.avoid) p st →
    (optimizeLoop cx p k st).trials.length = st.trials.length + min k (remaining p st.trials) ∧
    remaining p (optimizeLoop cx p k st).trials = remaining p st.trials - min k (remaining p st.trials) := by
  induction k with
  | zero => intro st _; simp [optimizeLoop]
  | succ k ih =>
    intro st h
    simp only [optimizeLoop]
    cases hs : st.stop with
    | true =>
      have := h.stop.mp hs
      simp [this]
    | false =>
      have hrem_pos : 0 < remaining p st.trials := by
        rcases Nat.eq_zero_or_pos (remaining p st.trials) with h0 | h0
        · have := h.stop.mpr h0; rw [hs] at this; simp at this
        · exact h0
      obtain ⟨hinv', ⟨l, hl⟩, hrem, hraise⟩ := runTrial_inv cx p hwf st h hs (noMid_of_noCut cx hcuts _)
      have hnot := hraise (hcuts _) hnr
      have hlen : (runTrial cx p st).1.trials.length = st.trials.length + 1 := by rw [hl]; simp
      simp only [Bool.false_eq_true, if_false, hnot]
      obtain ⟨h1, h2⟩ := ih _ hinv'
      rw [h1, h2]
      omega

theorem session_count (cx : Ctx) (p : Prog) (hwf : p.WF) (hcuts : NoCut cx) (hnr : NoRaise p)
    (ks : List Nat) : ∀ (st : St), Inv (!cx.avoid) p st →
    (session cx p ks st).trials.length = st.trials.length + min ks.sum (remaining p st.trials) := by
  induction ks with
  | nil => intro st _; simp [session]
  | cons k ks ih =>
    intro st h
    rw [session_cons]
    simp only [List.sum_cons]
    cases hs : st.stop with
    | true =>
      have h0 := h.stop.mp hs
      simp only [if_true]
      rw [ih st h, h0]
      simp
    | false =>
      simp only [Bool.false_eq_true, if_false]
      rw [optimize_of_not_stop cx p k st hs]
      have hinv' := optimizeLoop_inv cx p hwf (noMid_of_noCut cx hcuts) k st h
      obtain ⟨h1, h2⟩ := optimizeLoop_count cx p hwf hcuts hnr k st h
      rw [ih _ hinv', h1, h2]
      omega

/-! ### progress in general (leaves may raise, trials may be interrupted at their end) -/

theorem optimizeLoop_mono (cx : Ctx) (p : Prog) (hwf : p.WF) (hcuts : NoMidCut cx) (k : Nat) :
    ∀ (st : St), Inv (!cx.avoid) p st → st.trials.length ≤ (optimizeLoop cx p k st).trials.length := by
  induction k with
  | zero => intro st _; simp [optimizeLoop]
  | succ k ih =>
    intro st h
    simp only [optimizeLoop]
    cases hs : st.stop with
    | true => simp
    | false =>
      obtain ⟨hinv', ⟨l, hl⟩, _, _⟩ := runTrial_inv cx p hwf st h hs (hcuts _)
      have hlen : (runTrial cx p st).1.trials.length = st.trials.length + 1 := by rw [hl]; simp
      simp only [Bool.false_eq_true, if_false]
      split
      · omega
      · have := ih _ hinv'
        omega

theorem optimizeLoop_progress (cx : Ctx) (p : Prog) (hwf : p.WF) (hcuts : NoMidCut cx) (k : Nat)
    (st : St) (h : Inv (!cx.avoid) p st) (hs : st.stop = false) :
    st.trials.length + 1 ≤ (optimizeLoop cx p (k + 1) st).trials.length := by
  obtain ⟨hinv', ⟨l, hl⟩, _, _⟩ := runTrial_inv cx p hwf st h hs (hcuts _)
  have hlen : (runTrial cx p st).1.trials.length = st.trials.length + 1 := by rw [hl]; simp
  simp only [optimizeLoop, hs, Bool.false_eq_true, if_false]
  split
  · omega
  · have := optimizeLoop_mono cx p hwf hcuts k _ hinv'
    omega

/-- every call with a positive budget on a study that has not stopped adds at least one trial, so
`numLeaves` such calls always suffice -/
theorem session_progress (cx : Ctx) (p : Prog) (hwf : p.WF) (hcuts : NoMidCut cx) (ks : List Nat)
    (hks : ∀ k ∈ ks, 1 ≤ k) : ∀ (st : St), Inv (!cx.avoid) p st →
    (session cx p ks st).stop = true ∨ st.trials.length + ks.length ≤ (session cx p ks st).trials.length := by
  induction ks with
  | nil => intro st _; right; simp [session]
  | cons k ks ih =>
    intro st h
    rw [session_cons]
    cases hs : st.stop with
    | true =>
      left
      simp only [if_true]
      rw [session_stopped cx p ks st hs]
      exact hs
    | false =>
      simp only [Bool.false_eq_true, if_false]
      rw [optimize_of_not_stop cx p k st hs]
      have hk : 1 ≤ k := hks k (by simp)
      obtain ⟨k', hk'⟩ : ∃ k', k = k' + 1 := ⟨k - 1, by omega⟩
      subst hk'
      have hinv' := optimizeLoop_inv cx p hwf hcuts (k' + 1) st h
      have hprog := optimizeLoop_progress cx p hwf hcuts k' st h hs
      rcases ih (fun k hk => hks k (by simp [hk])) _ hinv' with h1 | h1
      · left; exact h1
      · right
        simp only [List.length_cons]
        omega

/-! ## Part F — candidate enumeration -/

theorem loopQ_ge (high step : Rat) (hs : 0 < step) : ∀ (fuel : Nat) (value x : Rat),
    x ∈ loopQ high step fuel value → value ≤ x := by
  intro fuel
  induction fuel with
  | zero => intro value x h; simp [loopQ] at h
  | succ f ih =>
    intro value x h
    simp only [loopQ] at h
    split at h
    · simp only [List.mem_cons] at h
      rcases h with h | h
      · subst h; exact Rat.le_refl
      · have := ih (value + step) x h
        grind
    · simp at h

theorem loopQ_nodup (high step : Rat) (hs : 0 < step) : ∀ (fuel : Nat) (value : Rat),
    (loopQ high step fuel value).Nodup := by
  intro fuel
  induction fuel with
  | zero => intro value; simp [loopQ]
  | succ f ih =>
    intro value
    simp only [loopQ]
    split
    · rw [List.nodup_cons]
      refine ⟨?_, ih _⟩
      intro hmem
      have := loopQ_ge high step hs f (value + step) value hmem
      grind
    · simp

theorem loopQ_le_high (high step : Rat) : ∀ (fuel : Nat) (value x : Rat),
    x ∈ loopQ high step fuel value → x ≤ high := by
  intro fuel
  induction fuel with
  | zero => intro value x h; simp [loopQ] at h
  | succ f ih =>
    intro value x h
    simp only [loopQ] at h
    split at h
    · rename_i hle
      simp only [List.mem_cons] at h
      rcases h with h | h
      · subst h; exact hle
      · exact ih _ x h
    · simp at h

theorem loopQ_single (high step low : Rat) (f : Nat) (h1 : low ≤ high) (h2 : high - low < step) :
    loopQ high step (f + 1) low = [low] := by
  simp only [loopQ, h1, if_true]
  cases f with
  | zero => simp [loopQ]
  | succ f =>
    have : ¬ (low + step ≤ high) := by grind
    simp [loopQ, this]

theorem loopQ_head (high step low : Rat) (f : Nat) (h1 : low ≤ high) :
    loopQ high step (f + 1) low ≠ [] := by
  simp [loopQ, h1]

/-- every distribution the constructors accept has at least one candidate … -/
theorem enumerate_ne_nil (d : Dist) (h : d.WF) : d.enumerate ≠ [] := by
  cases d with
  | int low high step =>
    simp only [Dist.WF] at h
    simp only [Dist.enumerate]
    exact loopQ_head _ _ _ _ (by exact_mod_cast h.1)
  | float low high step =>
    simp only [Dist.WF] at h
    simp only [Dist.enumerate]
    exact loopQ_head _ _ _ _ h.1
  | cat n =>
    simp only [Dist.WF] at h
    simp only [Dist.enumerate]
    cases n with
    | zero => omega
    | succ n => simp [List.range_succ]

/-- … and no candidate twice -/
theorem enumerate_nodup (d : Dist) (h : d.WF) : d.enumerate.Nodup := by
  cases d with
  | int low high step =>
    simp only [Dist.WF] at h
    simp only [Dist.enumerate]
    exact loopQ_nodup _ _ (by exact_mod_cast h.2) _ _
  | float low high step =>
    simp only [Dist.WF] at h
    simp only [Dist.enumerate]
    exact loopQ_nodup _ _ h.2 _ _
  | cat n =>
    simp only [Dist.enumerate]
    unfold List.Nodup
    rw [List.pairwise_map]
    have := @List.nodup_range n
    unfold List.Nodup at this
    refine List.Pairwise.imp ?_ this
    intro a b hab h
    exact hab (Rat.natCast_inj.mp h)

/-- "single-valued domains add exactly one edge": when `distribution.single()` holds, the value
`Trial._suggest` takes without asking the sampler is the one and only candidate. -/
theorem single_one_edge (d : Dist) (h : d.WF) (hs : d.single = true) :
    d.enumerate = [d.singleValue] := by
  cases d with
  | int low high step =>
    simp only [Dist.WF] at h
    simp only [Dist.single, Bool.or_eq_true, beq_iff_eq, decide_eq_true_eq] at hs
    simp only [Dist.enumerate, Dist.singleValue]
    apply loopQ_single
    · exact_mod_cast h.1
    · rcases hs with hs | hs
      · subst hs
        have : (0 : Rat) < (step : Rat) := by exact_mod_cast h.2
        grind
      · have : ((high - low : Int) : Rat) < (step : Rat) := by exact_mod_cast hs
        simpa [Rat.intCast_sub] using this
  | float low high step =>
    simp only [Dist.WF] at h
    simp only [Dist.single, Bool.or_eq_true, beq_iff_eq, decide_eq_true_eq] at hs
    simp only [Dist.enumerate, Dist.singleValue]
    apply loopQ_single
    · exact h.1
    · rcases hs with hs | hs
      · subst hs; grind
      · exact hs
  | cat n =>
    simp only [Dist.single, beq_iff_eq] at hs
    subst hs
    simp [Dist.enumerate, Dist.singleValue, List.range_succ]


theorem loopQ_mem (high step : Rat) (hs : 0 < step) : ∀ (fuel : Nat) (value : Rat) (k : Nat),
    k < fuel → value + (k : Rat) * step ≤ high → value + (k : Rat) * step ∈ loopQ high step fuel value := by
  intro fuel
  induction fuel with
  | zero => intro value k hk; omega
  | succ f ih =>
    intro value k hk hle
    have hk0 : (0:Rat) ≤ (k : Rat) := by exact_mod_cast Nat.zero_le k
    have hnn : 0 ≤ (k : Rat) * step := Rat.mul_nonneg hk0 (Rat.le_of_lt hs)
    have hv : value ≤ high := by grind
    simp only [loopQ, hv, if_true]
    cases k with
    | zero =>
      have : value + ((0 : Nat) : Rat) * step = value := by grind
      rw [this]; simp
    | succ k' =>
      have hcast : ((k' + 1 : Nat) : Rat) = (k' : Rat) + 1 := by push_cast; rfl
      have heq : value + ((k' + 1 : Nat) : Rat) * step = (value + step) + (k' : Rat) * step := by
        rw [hcast]; grind
      rw [heq] at hle ⊢
      exact List.mem_cons_of_mem _ (ih (value + step) k' (by omega) hle)

/-- the enumeration misses no point of the domain: every `low + k·step ≤ high` is a candidate -/
theorem enumerate_complete_float (low high step : Rat) (h : (Dist.float low high step).WF) (k : Nat)
    (hk : low + (k : Rat) * step ≤ high) : low + (k : Rat) * step ∈ (Dist.float low high step).enumerate := by
  simp only [Dist.WF] at h
  simp only [Dist.enumerate]
  apply loopQ_mem high step h.2 _ low k _ hk
  have hfl : ((k : Nat) : Int) ≤ ((high - low) / step).floor := by
    rw [Rat.le_floor_iff]
    rcases Classical.em ((high - low) / step < (((k : Nat) : Int) : Rat)) with hlt | hge
    · rw [Rat.div_lt_iff h.2] at hlt
      have : (((k : Nat) : Int) : Rat) = (k : Rat) := by norm_cast
      rw [this] at hlt
      grind
    · exact Rat.not_lt.mp hge
  omega

theorem enumerate_complete_int (low high step : Int) (h : (Dist.int low high step).WF) (k : Nat)
    (hk : low + (k : Int) * step ≤ high) :
    ((low + (k : Int) * step : Int) : Rat) ∈ (Dist.int low high step).enumerate := by
  simp only [Dist.WF] at h
  simp only [Dist.enumerate]
  have hcast : ((low + (k : Int) * step : Int) : Rat) = (low : Rat) + (k : Rat) * (step : Rat) := by
    push_cast; rfl
  rw [hcast]
  apply loopQ_mem _ _ (by exact_mod_cast h.2)
  · have h1 : (k : Int) * 1 ≤ (k : Int) * step := Int.mul_le_mul_of_nonneg_left (by omega) (by omega)
    omega
  · rw [← hcast]; exact_mod_cast hk


/-! ## Part G — the explicit list of leaves -/

/-- all root-to-leaf paths of a program, in candidate order -/
def leaves : Prog → List (List Step)
  | .leaf _ => [[]]
  | .node name _ cands child => cands.flatMap (fun v => (leaves (child v)).map (fun l => ⟨name, cands, v⟩ :: l))

theorem mem_leaves_iff (p : Prog) : ∀ (l : List Step), l ∈ leaves p ↔ LeafPath p l := by
  induction p with
  | leaf o => intro l; simp [leaves, LeafPath]
  | node name sg cands child ih =>
    intro l
    simp only [leaves, LeafPath, List.mem_flatMap, List.mem_map]
    constructor
    · rintro ⟨v, hv, r, hr, rfl⟩
      exact ⟨v, r, rfl, hv, (ih v r).mp hr⟩
    · rintro ⟨v, r, rfl, hv, hp⟩
      exact ⟨v, hv, r, (ih v r).mpr hp, rfl⟩

theorem length_leaves (p : Prog) : (leaves p).length = numLeaves p := by
  induction p with
  | leaf o => simp [leaves, numLeaves]
  | node name sg cands child ih =>
    simp only [leaves, numLeaves, List.length_flatMap, List.length_map]
    exact sum_map_congr cands _ _ (fun v _ => ih v)

theorem leaves_nodup (p : Prog) : p.WF → (leaves p).Nodup := by
  induction p with
  | leaf o => intro _; simp [leaves]
  | node name sg cands child ih =>
    intro hwf
    simp only [Prog.WF] at hwf
    obtain ⟨_, hnd, _, hkids⟩ := hwf
    simp only [leaves]
    unfold List.Nodup
    rw [List.pairwise_flatMap]
    constructor
    · intro v hv
      rw [List.pairwise_map]
      have := ih v (hkids v hv).1
      unfold List.Nodup at this
      exact List.Pairwise.imp (fun hne h => hne (List.cons.inj h).2) this
    · unfold List.Nodup at hnd
      refine List.Pairwise.imp ?_ hnd
      intro a b hab x hx y hy hxy
      simp only [List.mem_map] at hx hy
      obtain ⟨_, _, rfl⟩ := hx
      obtain ⟨_, _, rfl⟩ := hy
      have := (List.cons.inj hxy).1
      simp only [Step.mk.injEq] at this
      exact hab this.2.2

end OptunaVerif.BruteForce
