import OptunaVerif.Props.C05
import OptunaVerif.Props.C07
/-!
Lemmas for `Props/C05C07Bridge.lean`: the reader's view (`Line`s) of a byte file, its agreement with Python's line iteration
(`splitLens`) and with seeking to a record offset, the total length, and what a prefix of complete records fixes.
-/
set_option linter.unusedSimpArgs false
namespace OptunaVerif.Bridge
open OptunaVerif OptunaVerif.JournalFile OptunaVerif.JournalAppend

/-- the reader's view of one complete record `r` (stored as `r ++ [nl]`): `valid` = "`json.loads` of the line succeeds" -/
def recLine (valid : List Nat → Bool) (r : List Nat) : Line := ⟨r.length + 1, true, valid r⟩

/-- … and of the bytes after the last newline (an unterminated last line, if any) -/
def tailLines (valid : List Nat → Bool) (t : List Nat) : List Line := if t = [] then [] else [⟨t.length, false, valid t⟩]

/-- **linesOf**: what `for line in f` shows the reader of a byte file: the complete lines, then possibly one unterminated line -/
def linesOf (valid : List Nat → Bool) (f : List Nat) : List Line :=
  (records f).map (recLine valid) ++ tailLines valid (tail f)

/-- `read_logs` on the BYTES of a file: after `seek(off)` the reader iterates over the lines of `f[off:]` -/
def readBytes (valid : List Nat → Bool) (f : List Nat) (size : Nat) (cache : Cache) (from_ : Nat) : Res :=
  readLogs size cache from_ (fun off => linesOf valid (f.drop off))

/-! ## agreement with Python's line iteration -/

theorem splitLens_splitRec (f cur : List Nat) :
    splitLens f cur.length =
      (splitRec f cur).1.map (fun r => (r.length + 1, true)) ++
        (if (splitRec f cur).2 = [] then [] else [((splitRec f cur).2.length, false)]) := by
  induction f generalizing cur with
  | nil =>
    cases cur with
    | nil => simp [splitLens, splitRec]
    | cons a t => simp [splitLens, splitRec]
  | cons b r ih =>
    by_cases hb : b = nl
    · have := ih []
      simp only [List.length_nil] at this
      simp [splitLens, splitRec, hb, this]
    · have := ih (cur ++ [b])
      simp only [List.length_append, List.length_cons, List.length_nil] at this
      simp [splitLens, splitRec, hb, this]

/-- **linesOf_eq_splitLens** — lengths and termination flags of `linesOf` are exactly Python's line iteration over the bytes -/
theorem linesOf_eq_splitLens (valid : List Nat → Bool) (f : List Nat) :
    (linesOf valid f).map (fun l => (l.len, l.terminated)) = splitLens f 0 := by
  have := splitLens_splitRec f []
  simp only [List.length_nil] at this
  rw [this]
  unfold linesOf records tail tailLines recLine
  by_cases h : (splitRec f []).2 = [] <;> simp [h, Function.comp]

/-! ## seeking -/

theorem splitRec_noNl_self (g cur : List Nat) (h : nl ∉ g) : splitRec g cur = ([], cur ++ g) := by
  induction g generalizing cur with
  | nil => simp [splitRec]
  | cons b r ih =>
    have hb : b ≠ nl := by intro e; apply h; simp [e]
    simp only [splitRec, hb, if_false]
    rw [ih _ (by intro hm; apply h; simp [hm])]
    simp

theorem splitRec_enc_append (rs : List (List Nat)) (h : ∀ r ∈ rs, nl ∉ r) (g : List Nat) :
    splitRec (enc rs ++ g) [] = (rs ++ (splitRec g []).1, (splitRec g []).2) := by
  induction rs with
  | nil => simp [enc]
  | cons r rs ih =>
    have hr : nl ∉ r := h r (by simp)
    have ih' := ih (fun x hx => h x (by simp [hx]))
    have key : ∀ (pre rest : List Nat), nl ∉ rest →
        splitRec (rest ++ [nl] ++ (enc rs ++ g)) pre = ((pre ++ rest) :: (rs ++ (splitRec g []).1), (splitRec g []).2) := by
      intro pre rest
      induction rest generalizing pre with
      | nil => intro _; simp [splitRec, ih']
      | cons b bs ihb =>
        intro hb
        have hbne : b ≠ nl := by intro e; apply hb; simp [e]
        simp only [List.cons_append, splitRec, hbne, if_false]
        have := ihb (pre ++ [b]) (by intro hm; apply hb; simp [hm])
        simpa using this
    have := key [] r hr
    simpa [enc, List.flatMap_cons, List.append_assoc] using this

theorem records_noNl (f : List Nat) : ∀ r ∈ records f, nl ∉ r := (splitRec_noNl f [] (by simp)).2

theorem enc_length_take (rs : List (List Nat)) (k : Nat) :
    (enc (rs.take k)).length = ((rs.take k).map (fun r => r.length + 1)).sum := by
  induction rs generalizing k with
  | nil => simp [enc]
  | cons r rs ih =>
    cases k with
    | zero => simp [enc]
    | succ k =>
      have := ih k
      simp only [enc] at this
      simp [enc, List.flatMap_cons, this]
      omega

theorem enc_take_drop (rs : List (List Nat)) (k : Nat) : enc rs = enc (rs.take k) ++ enc (rs.drop k) := by
  calc enc rs = enc (rs.take k ++ rs.drop k) := by rw [List.take_append_drop]
    _ = enc (rs.take k) ++ enc (rs.drop k) := by unfold enc; rw [List.flatMap_append]

theorem offsetOf_linesOf (valid : List Nat → Bool) (f : List Nat) (k : Nat) (hk : k ≤ (records f).length) :
    offsetOf (linesOf valid f) k = (enc ((records f).take k)).length := by
  unfold offsetOf linesOf
  rw [List.take_append_of_le_length (by simpa using hk), ← List.map_take, List.map_map, enc_length_take]
  rfl

/-- **linesOf_seek** — seeking to the byte offset of record `k` shows the reader exactly the lines from `k` on -/
theorem linesOf_seek (valid : List Nat → Bool) (f : List Nat) (k : Nat) (hk : k ≤ (records f).length) :
    linesOf valid (f.drop (offsetOf (linesOf valid f) k)) = (linesOf valid f).drop k := by
  rw [offsetOf_linesOf valid f k hk]
  have hf : f = enc ((records f).take k) ++ (enc ((records f).drop k) ++ tail f) :=
    calc f = enc (records f) ++ tail f := (file_eq f).symm
      _ = enc ((records f).take k) ++ (enc ((records f).drop k) ++ tail f) := by
        rw [enc_take_drop (records f) k, List.append_assoc]
  have hd : f.drop (enc ((records f).take k)).length = enc ((records f).drop k) ++ tail f :=
    calc f.drop (enc ((records f).take k)).length
        = (enc ((records f).take k) ++ (enc ((records f).drop k) ++ tail f)).drop (enc ((records f).take k)).length := by rw [← hf]
      _ = enc ((records f).drop k) ++ tail f := List.drop_left
  rw [hd]
  have hsplit := splitRec_enc_append ((records f).drop k) (fun r hr => records_noNl f r (List.mem_of_mem_drop hr)) (tail f)
  rw [splitRec_noNl_self (tail f) [] (tail_noNl f)] at hsplit
  simp only [List.nil_append, List.append_nil] at hsplit
  unfold linesOf
  have h1 : records (enc ((records f).drop k) ++ tail f) = (records f).drop k := by
    show (splitRec _ []).1 = _; rw [hsplit]
  have h2 : tail (enc ((records f).drop k) ++ tail f) = tail f := by
    show (splitRec _ []).2 = _; rw [hsplit]
  rw [h1, h2, List.drop_append_of_le_length (by simpa using hk), List.map_drop]

/-! ## lengths -/

theorem enc_length (rs : List (List Nat)) : (enc rs).length = (rs.map (fun r => r.length + 1)).sum := by
  have := enc_length_take rs rs.length
  simpa using this

/-- the line lengths add up to the file length -/
theorem linesOf_total (valid : List Nat → Bool) (f : List Nat) :
    ((linesOf valid f).map (·.len)).sum = f.length := by
  have hf := congrArg List.length (file_eq f)
  simp only [List.length_append, enc_length] at hf
  have hc : ((fun (x : Line) => x.len) ∘ recLine valid) = fun r => r.length + 1 := rfl
  unfold linesOf tailLines
  by_cases ht : tail f = []
  · simp [ht, hc] at hf ⊢; omega
  · simp [ht, hc] at hf ⊢; omega

theorem linesOf_length_ge (valid : List Nat → Bool) (f : List Nat) : (records f).length ≤ (linesOf valid f).length := by
  unfold linesOf; simp

theorem linesOf_get_record (valid : List Nat → Bool) (f : List Nat) (j : Nat) (hj : j < (records f).length) :
    (linesOf valid f)[j]? = some (recLine valid ((records f)[j])) := by
  unfold linesOf
  rw [List.getElem?_append_left (by simpa using hj)]
  simp [List.getElem?_eq_getElem hj]

/-- a line at or after the complete records is the unterminated tail line -/
theorem linesOf_get_tail (valid : List Nat → Bool) (f : List Nat) (j : Nat) (ln : Line) (hj : (records f).length ≤ j)
    (h : (linesOf valid f)[j]? = some ln) : ln.terminated = false := by
  unfold linesOf tailLines at h
  rw [List.getElem?_append_right (by simpa using hj)] at h
  by_cases ht : tail f = []
  · simp [ht] at h
  · simp only [ht, if_false] at h
    cases hi : j - ((records f).map (recLine valid)).length with
    | zero => rw [hi] at h; simp at h; rw [← h]
    | succ i => rw [hi] at h; simp at h

end OptunaVerif.Bridge
