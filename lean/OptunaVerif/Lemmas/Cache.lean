import OptunaVerif.Model.Cache
import OptunaVerif.Props.C01
/-! Helper lemmas for C08: Python dict/set operations, consequences of the numbering invariant of the
contract model, the sort used by `get_all_trials`. -/
namespace OptunaVerif.Cache
open OptunaVerif OptunaVerif.Storage OptunaVerif.C01

/-! ## dict -/
section Dict
variable {κ α : Type} [DecidableEq κ]

theorem find_insert_same (l : List (κ × α)) (k : κ) (v : α) : find (insert l k v) k = some v := by
  induction l with
  | nil => simp [insert, find]
  | cons h t ih =>
    obtain ⟨k', v'⟩ := h
    by_cases hk : k' = k
    · simp [insert, find, hk]
    · simp [insert, find, hk, ih]

theorem find_insert_other (l : List (κ × α)) (k k2 : κ) (v : α) (h : k2 ≠ k) :
    find (insert l k v) k2 = find l k2 := by
  induction l with
  | nil => simp [insert, find, Ne.symm h]
  | cons hd t ih =>
    obtain ⟨k', v'⟩ := hd
    by_cases hk : k' = k
    · subst hk; simp [insert, find, Ne.symm h]
    · by_cases hk2 : k' = k2
      · subst hk2; simp [insert, find, hk]
      · simp [insert, find, hk, hk2, ih]

theorem find_insert (l : List (κ × α)) (k k2 : κ) (v : α) :
    find (insert l k v) k2 = if k2 = k then some v else find l k2 := by
  by_cases h : k2 = k
  · subst h; simp [find_insert_same]
  · simp [h, find_insert_other _ _ _ _ h]

theorem find_erase (l : List (κ × α)) (k k2 : κ) :
    find (erase l k) k2 = if k2 = k then none else find l k2 := by
  induction l with
  | nil => simp [erase, find]
  | cons hd t ih =>
    obtain ⟨k', v'⟩ := hd
    unfold erase at ih ⊢
    by_cases hk : k' = k
    · subst hk
      simp only [List.filter_cons, ne_eq, not_true_eq_false, decide_false, Bool.false_eq_true, if_false]
      rw [ih]
      by_cases h2 : k2 = k'
      · simp [h2]
      · simp [h2, find, Ne.symm h2]
    · simp only [List.filter_cons, ne_eq, hk, not_false_eq_true, decide_true, if_true, find]
      rw [ih]
      by_cases h2 : k' = k2
      · subst h2; simp [hk]
      · simp [h2]

theorem keys_insert (l : List (κ × α)) (k : κ) (v : α) :
    ∀ x, x ∈ (insert l k v).map (·.1) ↔ x ∈ l.map (·.1) ∨ x = k := by
  induction l with
  | nil => intro x; simp [insert]
  | cons hd t ih =>
    obtain ⟨k', v'⟩ := hd
    intro x
    by_cases hk : k' = k
    · subst hk; simp [insert]; exact fun h => Or.inl h
    · simp only [insert, hk, if_false, List.map_cons, List.mem_cons, ih x]
      constructor
      · rintro (h | h | h) <;> simp [h]
      · rintro ((h | h) | h) <;> simp [h]

theorem keys_insert_nodup (l : List (κ × α)) (k : κ) (v : α) (h : (l.map (·.1)).Nodup) :
    ((insert l k v).map (·.1)).Nodup := by
  induction l with
  | nil => simp [insert]
  | cons hd t ih =>
    obtain ⟨k', v'⟩ := hd
    simp only [List.map_cons, List.nodup_cons] at h
    by_cases hk : k' = k
    · subst hk; simpa [insert] using h
    · simp only [insert, hk, if_false, List.map_cons, List.nodup_cons]
      refine ⟨?_, ih h.2⟩
      intro hm
      rcases (keys_insert t k v k').1 hm with h1 | h1
      · exact h.1 h1
      · exact hk h1

theorem find_some_mem (l : List (κ × α)) (k : κ) (v : α) (h : find l k = some v) : (k, v) ∈ l := by
  induction l with
  | nil => simp [find] at h
  | cons hd t ih =>
    obtain ⟨k', v'⟩ := hd
    by_cases hk : k' = k
    · subst hk; simp [find] at h; simp [h]
    · simp only [find, hk, if_false] at h
      exact List.mem_cons_of_mem _ (ih h)

theorem mem_find_of_nodup (l : List (κ × α)) (k : κ) (v : α) (hn : (l.map (·.1)).Nodup)
    (h : (k, v) ∈ l) : find l k = some v := by
  induction l with
  | nil => simp at h
  | cons hd t ih =>
    obtain ⟨k', v'⟩ := hd
    simp only [List.map_cons, List.nodup_cons] at hn
    rcases List.mem_cons.1 h with h1 | h1
    · simp only [Prod.mk.injEq] at h1
      obtain ⟨e1, e2⟩ := h1
      subst e1; subst e2
      simp [find]
    · have : k' ≠ k := by
        intro e; subst e
        exact hn.1 (List.mem_map.2 ⟨(k', v), h1, rfl⟩)
      simp only [find, this, if_false]
      exact ih hn.2 h1

end Dict

theorem mem_uadd (u : List Nat) (i j : Nat) : j ∈ uadd u i ↔ j ∈ u ∨ j = i := by
  unfold uadd
  split
  · rename_i h
    constructor
    · intro hj; exact Or.inl hj
    · rintro (hj | hj)
      · exact hj
      · subst hj; simpa using h
  · simp

theorem mem_uremove (u : List Nat) (i j : Nat) : j ∈ uremove u i ↔ j ∈ u ∧ j ≠ i := by
  simp [uremove]

/-! ## consequences of `Numbered` (C01.numbers_dense) -/

theorem take_succ_of_get {α : Type} (l : List α) (i : Nat) (a : α) (h : l[i]? = some a) :
    l.take (i + 1) = l.take i ++ [a] := by
  rw [List.take_add_one, h]; rfl

theorem count_lt {α : Type} (p : α → Bool) (l : List α) (i j : Nat) (a : α) (hij : i < j)
    (hi : l[i]? = some a) (hp : p a = true) :
    ((l.take i).filter p).length < ((l.take j).filter p).length := by
  have h1 : (l.take j).take (i + 1) = l.take (i + 1) := by
    rw [List.take_take]; congr 1; omega
  have h2 : (((l.take j).take (i + 1)).filter p).length ≤ ((l.take j).filter p).length :=
    ((List.take_sublist _ _).filter p).length_le
  rw [h1, take_succ_of_get l i a hi, List.filter_append] at h2
  simp only [List.filter_cons, hp, if_true, List.filter_nil, List.length_append, List.length_cons,
    List.length_nil] at h2
  omega

/-- Within one study a number names one trial. -/
theorem numbered_unique (s : Spec) (h : Numbered s) {i j : Nat} {a b : TrialS}
    (hi : s.trials[i]? = some a) (hj : s.trials[j]? = some b) (hs : a.study = b.study)
    (hn : a.number = b.number) : i = j := by
  have ha := h i a hi
  have hb := h j b hj
  unfold countBefore at ha hb
  rcases Nat.lt_trichotomy i j with hlt | heq | hgt
  · have := count_lt (fun t => t.study == b.study) s.trials i j a hlt hi (by simp [hs])
    rw [hs] at ha
    omega
  · exact heq
  · have := count_lt (fun t => t.study == a.study) s.trials j i b hgt hj (by simp [hs])
    rw [← hs] at hb
    omega

theorem mem_trialsFrom (sid : Nat) (l : List TrialS) (k i : Nat) (t : TrialS) :
    (i, t) ∈ trialsFrom sid l k ↔ ∃ j, i = k + j ∧ l[j]? = some t ∧ t.study = sid := by
  induction l generalizing k with
  | nil => simp [trialsFrom]
  | cons a r ih =>
    simp only [trialsFrom]
    constructor
    · intro hm
      split at hm
      · rename_i ha
        rcases List.mem_cons.1 hm with h1 | h1
        · simp only [Prod.mk.injEq] at h1
          exact ⟨0, by omega, by simp [h1.2], by rw [h1.2]; simpa using ha⟩
        · obtain ⟨j, e, hj, hs⟩ := (ih (k + 1)).1 h1
          exact ⟨j + 1, by omega, by simpa using hj, hs⟩
      · obtain ⟨j, e, hj, hs⟩ := (ih (k + 1)).1 hm
        exact ⟨j + 1, by omega, by simpa using hj, hs⟩
    · rintro ⟨j, e, hj, hs⟩
      cases j with
      | zero =>
        simp only [List.getElem?_cons_zero, Option.some.injEq] at hj
        subst hj
        have : (a.study == sid) = true := by simpa using hs
        simp only [this, if_true]
        exact List.mem_cons.2 (Or.inl (by simp [e]))
      | succ j =>
        have hm : (i, t) ∈ trialsFrom sid r (k + 1) :=
          (ih (k + 1)).2 ⟨j, by omega, by simpa using hj, hs⟩
        split
        · exact List.mem_cons_of_mem _ hm
        · exact hm

theorem mem_trialsOf (s : Spec) (sid tid : Nat) (t : TrialS) :
    (tid, t) ∈ s.trialsOf sid ↔ s.trials[tid]? = some t ∧ t.study = sid := by
  unfold Spec.trialsOf
  rw [mem_trialsFrom]
  constructor
  · rintro ⟨j, e, hj, hs⟩
    have : tid = j := by omega
    subst this
    exact ⟨hj, hs⟩
  · rintro ⟨hj, hs⟩
    exact ⟨tid, by omega, hj, hs⟩

theorem trialsFrom_ids (sid : Nat) (l : List TrialS) (k : Nat) :
    (trialsFrom sid l k).Pairwise (fun a b => a.1 < b.1) ∧ ∀ x ∈ trialsFrom sid l k, k ≤ x.1 := by
  induction l generalizing k with
  | nil => simp [trialsFrom]
  | cons a r ih =>
    obtain ⟨ih1, ih2⟩ := ih (k + 1)
    simp only [trialsFrom]
    split
    · refine ⟨List.pairwise_cons.2 ⟨?_, ih1⟩, ?_⟩
      · intro x hx
        have := ih2 x hx
        show k < x.1
        omega
      · intro x hx
        rcases List.mem_cons.1 hx with h | h
        · subst h; exact Nat.le_refl _
        · have := ih2 x h; omega
    · refine ⟨ih1, ?_⟩
      intro x hx
      have := ih2 x hx
      omega

/-- The backend's list of a study is strictly increasing in the trial number. -/
theorem trialsOf_sorted (s : Spec) (h : Numbered s) (sid : Nat) :
    (s.trialsOf sid).Pairwise (fun a b => a.2.number < b.2.number) := by
  have h1 := (trialsFrom_ids sid s.trials 0).1
  refine List.Pairwise.imp_of_mem ?_ h1
  intro a b ha hb hab
  obtain ⟨ia, ta⟩ := a
  obtain ⟨ib, tb⟩ := b
  obtain ⟨ha1, ha2⟩ := (mem_trialsOf s sid ia ta).1 ha
  obtain ⟨hb1, hb2⟩ := (mem_trialsOf s sid ib tb).1 hb
  have e1 := h ia ta ha1
  have e2 := h ib tb hb1
  unfold countBefore at e1 e2
  have := count_lt (fun t => t.study == sid) s.trials ia ib ta hab ha1 (by simp [ha2])
  simp only at *
  rw [ha2] at e1
  rw [hb2] at e2
  omega

theorem trialsFrom_getElem_count (sid : Nat) (l : List TrialS) (k i : Nat) (t : TrialS)
    (hi : l[i]? = some t) (hs : t.study = sid) :
    (trialsFrom sid l k)[((l.take i).filter (fun t => t.study == sid)).length]? = some (k + i, t) := by
  induction l generalizing k i with
  | nil => simp at hi
  | cons a r ih =>
    cases i with
    | zero =>
      simp only [List.getElem?_cons_zero, Option.some.injEq] at hi
      subst hi
      have : (a.study == sid) = true := by simpa using hs
      simp [trialsFrom, this]
    | succ i =>
      have hi' : r[i]? = some t := by simpa using hi
      have := ih (k + 1) i hi'
      simp only [trialsFrom, List.take_succ_cons, List.filter_cons]
      split
      · simp only [List.length_cons, List.getElem?_cons_succ]
        rw [this]; congr 2; omega
      · rw [this]; congr 2; omega

/-- `get_trial_id_from_study_id_trial_number` of the backend finds exactly the trial carrying that number. -/
theorem trialsOf_getElem_number (s : Spec) (h : Numbered s) (tid : Nat) (t : TrialS)
    (ht : s.trials[tid]? = some t) : (s.trialsOf t.study)[t.number]? = some (tid, t) := by
  have := trialsFrom_getElem_count t.study s.trials 0 tid t ht rfl
  rw [h tid t ht]
  unfold countBefore Spec.trialsOf
  simpa using this

/-! ## the stable sort by number -/

theorem orderedInsert_perm (p : Nat × TrialS) (l : List (Nat × TrialS)) :
    (orderedInsert p l).Perm (p :: l) := by
  induction l with
  | nil => simp [orderedInsert]
  | cons q r ih =>
    simp only [orderedInsert]
    split
    · exact List.Perm.refl _
    · exact ((List.Perm.cons q ih).trans (List.Perm.swap p q r))

theorem sortByNumber_perm (l : List (Nat × TrialS)) : (sortByNumber l).Perm l := by
  induction l with
  | nil => simp [sortByNumber]
  | cons p r ih =>
    simp only [sortByNumber]
    exact (orderedInsert_perm p _).trans (List.Perm.cons p ih)

theorem orderedInsert_sorted (p : Nat × TrialS) (l : List (Nat × TrialS))
    (h : l.Pairwise (fun a b => a.2.number ≤ b.2.number)) :
    (orderedInsert p l).Pairwise (fun a b => a.2.number ≤ b.2.number) := by
  induction l with
  | nil => simp [orderedInsert]
  | cons q r ih =>
    simp only [orderedInsert]
    obtain ⟨hq, hr⟩ := List.pairwise_cons.1 h
    split
    · rename_i hle
      refine List.pairwise_cons.2 ⟨?_, h⟩
      intro x hx
      rcases List.mem_cons.1 hx with e | e
      · subst e; exact hle
      · exact Nat.le_trans hle (hq x e)
    · rename_i hgt
      refine List.pairwise_cons.2 ⟨?_, ih hr⟩
      intro x hx
      rcases List.mem_cons.1 ((orderedInsert_perm p r).subset hx) with e | e
      · subst e; omega
      · exact hq x e

theorem sortByNumber_sorted (l : List (Nat × TrialS)) :
    (sortByNumber l).Pairwise (fun a b => a.2.number ≤ b.2.number) := by
  induction l with
  | nil => simp [sortByNumber]
  | cons p r ih => exact orderedInsert_sorted p _ ih

end OptunaVerif.Cache
