import OptunaVerif.Lemmas.CacheClient
/-! C08: the remaining critical sections of `_CachedStorage` (create, delete, memo), what is served
from the cache, and the list returned after a sync. -/
namespace OptunaVerif.Cache
open OptunaVerif OptunaVerif.Storage OptunaVerif.C01

/-! ## create_new_trial: the locked part -/

/-- what `create_new_trial` does to the entry of the study -/
def Entry.created (e : Entry) (p : Nat × TrialS) : Entry :=
  if p.2.state.isFinished then e.addTrial p
  else { e.addTrial p with unfinished := uadd e.unfinished p.1 }

theorem covered_addTrial (s : Spec) (hN : Numbered s) (sid : Nat) (e : Entry) (p : Nat × TrialS)
    (hp : Current s sid p) (tid2 : Nat) (t2 : TrialS) (ht2 : s.trials[tid2]? = some t2)
    (hs2 : t2.study = sid) (hc : Covered e tid2 t2) : Covered (e.addTrial p) tid2 t2 := by
  obtain ⟨tid, t⟩ := p
  obtain ⟨hcur, hsid⟩ := hp
  simp only at hcur hsid
  rcases hc with hu | ⟨h1, h2⟩
  · exact Or.inl hu
  · right
    refine ⟨?_, h2⟩
    simp only [addTrial_trials]
    by_cases hn : t2.number = t.number
    · have hid := numbered_unique s hN ht2 hcur (hs2.trans hsid.symm) hn
      subst hid
      rw [hcur] at ht2
      simp only [Option.some.injEq] at ht2
      subst ht2
      exact find_insert_same _ _ _
    · rw [find_insert_other _ _ _ _ hn]; exact h1

theorem core_addTrial_fin (s : Spec) (sid : Nat) (e : Entry) (p : Nat × TrialS)
    (h : EntryCore s sid e) (hp : Current s sid p) (hfin : p.2.state.isFinished = true) :
    EntryCore s sid (e.addTrial p) := by
  obtain ⟨tid, t⟩ := p
  obtain ⟨hcur, hsid⟩ := hp
  simp only at hcur hsid hfin
  refine ⟨keys_insert_nodup _ _ _ h.keys, ?_, ?_, h.uOfStudy, h.wBound, h.memoName, h.memoDirs⟩
  · intro n2 tid2 t2 hf
    simp only [addTrial_trials, find_insert] at hf
    split at hf
    · rename_i hn
      simp only [Option.some.injEq, Prod.mk.injEq] at hf
      obtain ⟨e1, e2⟩ := hf
      subst e1; subst e2; subst hn
      exact ⟨t, hcur, hsid, rfl, rfl⟩
    · exact h.static n2 tid2 t2 hf
  · intro n2 tid2 t2 hf hu
    simp only [addTrial_trials, find_insert] at hf
    split at hf
    · simp only [Option.some.injEq, Prod.mk.injEq] at hf
      obtain ⟨e1, e2⟩ := hf
      subst e1; subst e2
      exact ⟨hcur, hfin⟩
    · exact h.fresh n2 tid2 t2 hf hu

theorem created_unfinished_eq (e : Entry) (p : Nat × TrialS) (h : p.2.state.isFinished = false) :
    e.created p = e.absorb1 p := by
  unfold Entry.created Entry.absorb1 Entry.noteState
  simp [h]

/-- **create keeps the invariant** (the watermark is not touched; the F6 repair). -/
theorem entryInv_created (s : Spec) (hN : Numbered s) (sid : Nat) (e : Entry) (p : Nat × TrialS)
    (h : EntryInv s sid e) (hp : Current s sid p) : EntryInv s sid (e.created p) := by
  by_cases hfin : p.2.state.isFinished = true
  · have : e.created p = e.addTrial p := by simp [Entry.created, hfin]
    rw [this]
    refine ⟨core_addTrial_fin s sid e p h.toEntryCore hp hfin, ?_⟩
    intro tid2 t2 ht2 hs2 hw
    exact covered_addTrial s hN sid e p hp tid2 t2 ht2 hs2 (h.covers tid2 t2 ht2 hs2 hw)
  · have hf : p.2.state.isFinished = false := by simpa using hfin
    rw [created_unfinished_eq e p hf]
    refine ⟨core_absorb1 s sid e p h.toEntryCore hp, ?_⟩
    intro tid2 t2 ht2 hs2 hw
    have hw' : ((tid2 : Nat) : Int) ≤ e.watermark := by
      unfold Entry.absorb1 at hw
      rw [noteState_watermark] at hw
      simpa [hf] using hw
    have := covered_addTrial s hN sid e p hp tid2 t2 ht2 hs2 (h.covers tid2 t2 ht2 hs2 hw')
    unfold Entry.absorb1
    rcases this with hu | hc
    · left
      rw [mem_noteState_unfinished]
      simp only [hf, Bool.false_eq_true, if_false]
      exact Or.inl hu
    · right
      simpa using hc

/-- What the locked part of `create_new_trial` may be handed when other threads / workers run between
the backend call and the critical section: a snapshot of the new record that is final if it shows a
finished state, and possibly out of date otherwise. -/
def Snapshot (s : Spec) (sid : Nat) (p : Nat × TrialS) : Prop :=
  ∃ t', s.trials[p.1]? = some t' ∧ t'.study = sid ∧ t'.number = p.2.number ∧
    (p.2.state.isFinished = true → t' = p.2)

theorem Current.snapshot {s : Spec} {sid : Nat} {p : Nat × TrialS} (h : Current s sid p) : Snapshot s sid p :=
  ⟨p.2, h.1, h.2, rfl, fun _ => rfl⟩

theorem Snapshot.filed {s : Spec} {sid : Nat} {p : Nat × TrialS} (h : Snapshot s sid p) : Filed s sid p := by
  obtain ⟨t', h1, h2, h3, _⟩ := h
  exact ⟨t', h1, h2, h3⟩

/-- create keeps the invariant even with an out-of-date (unfinished) snapshot -/
theorem entryInv_created_snapshot (s : Spec) (hN : Numbered s) (sid : Nat) (e : Entry) (p : Nat × TrialS)
    (h : EntryInv s sid e) (hp : Snapshot s sid p) : EntryInv s sid (e.created p) := by
  obtain ⟨tb, h1, h2, h3, h4⟩ := hp
  by_cases hfin : p.2.state.isFinished = true
  · have := h4 hfin
    subst this
    exact entryInv_created s hN sid e p h ⟨h1, h2⟩
  · obtain ⟨tid, t⟩ := p
    simp only at h1 h2 h3 h4 hfin
    have hf : t.state.isFinished = false := by simpa using hfin
    have hE : e.created (tid, t) = { e.addTrial (tid, t) with unfinished := uadd e.unfinished tid } := by
      simp [Entry.created, hf]
    rw [hE]
    refine ⟨⟨keys_insert_nodup _ _ _ h.keys, ?_, ?_, ?_, h.wBound, h.memoName, h.memoDirs⟩, ?_⟩
    · intro n2 tid2 t2 hh
      simp only [addTrial_trials, find_insert] at hh
      split at hh
      · rename_i hn
        simp only [Option.some.injEq, Prod.mk.injEq] at hh
        obtain ⟨e1, e2⟩ := hh
        subst e1; subst e2; subst hn
        exact ⟨tb, h1, h2, h3, rfl⟩
      · exact h.static n2 tid2 t2 hh
    · intro n2 tid2 t2 hh hu
      simp only [addTrial_trials, find_insert] at hh
      simp only [mem_uadd, not_or] at hu
      split at hh
      · simp only [Option.some.injEq, Prod.mk.injEq] at hh
        exact absurd hh.1.symm hu.2
      · exact h.fresh n2 tid2 t2 hh hu.1
    · intro tid2 hu
      simp only [mem_uadd] at hu
      rcases hu with hu | hu
      · exact h.uOfStudy tid2 hu
      · subst hu; exact ⟨tb, h1, h2⟩
    · intro tid2 t2 ht2 hs2 hw
      rcases h.covers tid2 t2 ht2 hs2 hw with hu | ⟨c1, c2⟩
      · exact Or.inl ((mem_uadd _ _ _).2 (Or.inl hu))
      · by_cases hn : t2.number = t.number
        · have hid := numbered_unique s hN ht2 h1 (hs2.trans h2.symm) (hn.trans h3.symm)
          subst hid
          exact Or.inl ((mem_uadd _ _ _).2 (Or.inr rfl))
        · right
          simp only [addTrial_trials]
          rw [find_insert_other _ _ _ _ hn]
          exact ⟨c1, c2⟩

theorem noteCreated_entry (c : Client) (sid : Nat) (p : Nat × TrialS) :
    (∀ sid2, find (c.noteCreated sid p).studies sid2 =
      if sid2 = sid then some ((entryD c.studies sid).created p) else find c.studies sid2) := by
  intro sid2
  unfold Client.noteCreated Entry.created
  simp only
  split
  · simp only [Client.addOne, find_upsert, entryD_upsert_id]
    split
    · rfl
    · rfl
  · simp only [Client.addOne, find_upsert, entryD_upsert_same]
    split
    · rfl
    · rfl

theorem inv_noteCreated (s : Spec) (hN : Numbered s) (c : Client) (sid : Nat) (p : Nat × TrialS)
    (h : Inv s c) (hp : Snapshot s sid p) : Inv s (c.noteCreated sid p) := by
  have hm1 := maps_addOne s hN _ sid p (maps_touch s c sid h.maps) hp.filed
  have hm : Maps s (c.noteCreated sid p) := by
    unfold Client.noteCreated
    simp only
    split
    · exact hm1
    · exact maps_upsert_sameTrials s _ sid _ (fun e => rfl) hm1
  refine ⟨?_, hm.m1, hm.m2, hm.m3⟩
  intro sid2 e he
  rw [noteCreated_entry] at he
  split at he
  · rename_i hh; subst hh
    simp only [Option.some.injEq] at he
    subst he
    exact entryInv_created_snapshot s hN sid2 _ p (entryInv_entryD s c h sid2) hp
  · exact h.entries sid2 e he

/-! ## delete_study: the locked part -/

/-- one iteration of the loop in `delete_study` -/
def dropStep (sid : Nat) (c : Client) (kv : Nat × (Nat × TrialS)) : Client :=
  let id2sn := match find c.sn2id (sid, kv.1) with
    | some tid => erase c.id2sn tid
    | none => c.id2sn
  { c with id2sn := id2sn, sn2id := erase c.sn2id (sid, kv.1) }

theorem dropStudy_eq (c : Client) (sid : Nat) :
    c.dropStudy sid = match find c.studies sid with
      | none => c
      | some e => { e.trials.foldl (dropStep sid) c with
          studies := erase (e.trials.foldl (dropStep sid) c).studies sid } := rfl

theorem dropLoop (sid : Nat) (kvs : List (Nat × (Nat × TrialS))) (c : Client)
    (hk : (kvs.map (·.1)).Nodup)
    (hm : ∀ kv, kv ∈ kvs → find c.sn2id (sid, kv.1) = some kv.2.1) :
    (kvs.foldl (dropStep sid) c).studies = c.studies ∧
    (∀ tid2, find (kvs.foldl (dropStep sid) c).id2sn tid2 =
      if tid2 ∈ kvs.map (·.2.1) then none else find c.id2sn tid2) ∧
    (∀ k, find (kvs.foldl (dropStep sid) c).sn2id k =
      if k ∈ kvs.map (fun kv => (sid, kv.1)) then none else find c.sn2id k) := by
  induction kvs generalizing c with
  | nil => simp
  | cons kv r ih =>
    simp only [List.map_cons, List.nodup_cons] at hk
    have h0 := hm kv List.mem_cons_self
    have hc1 : dropStep sid c kv =
        { c with id2sn := erase c.id2sn kv.2.1, sn2id := erase c.sn2id (sid, kv.1) } := by
      simp [dropStep, h0]
    have hm1 : ∀ kv', kv' ∈ r → find (dropStep sid c kv).sn2id (sid, kv'.1) = some kv'.2.1 := by
      intro kv' hkv'
      rw [hc1]
      simp only [find_erase]
      have hne : kv'.1 ≠ kv.1 := by
        intro e
        exact hk.1 (e ▸ List.mem_map.2 ⟨kv', hkv', rfl⟩)
      simp [hne, hm kv' (List.mem_cons_of_mem _ hkv')]
    obtain ⟨i1, i2, i3⟩ := ih (dropStep sid c kv) hk.2 hm1
    simp only [List.foldl_cons]
    refine ⟨by rw [i1, hc1], ?_, ?_⟩
    · intro tid2
      rw [i2 tid2, hc1]
      simp only [find_erase, List.map_cons, List.mem_cons]
      by_cases h1 : tid2 ∈ r.map (·.2.1)
      · simp [h1]
      · by_cases h2 : tid2 = kv.2.1
        · simp [h2]
        · simp [h1, h2]
    · intro k
      rw [i3 k, hc1]
      simp only [find_erase, List.map_cons, List.mem_cons]
      by_cases h1 : k ∈ r.map (fun kv => (sid, kv.1))
      · simp [h1]
      · by_cases h2 : k = (sid, kv.1)
        · simp [h2]
        · simp [h1, h2]

theorem inv_dropStudy (s : Spec) (c : Client) (sid : Nat) (h : Inv s c) : Inv s (c.dropStudy sid) := by
  rw [dropStudy_eq]
  cases he : find c.studies sid with
  | none => exact h
  | some e =>
    simp only
    have hE := h.entries sid e he
    have hmem : ∀ kv, kv ∈ e.trials → find c.sn2id (sid, kv.1) = some kv.2.1 := by
      intro kv hkv
      obtain ⟨n, tid, t⟩ := kv
      exact h.m2 sid e n tid t he (mem_find_of_nodup _ _ _ hE.keys hkv)
    obtain ⟨d1, d2, d3⟩ := dropLoop sid e.trials c hE.keys hmem
    refine ⟨?_, ?_, ?_, ?_⟩
    · intro sid2 e2 he2
      simp only [d1, find_erase] at he2
      split at he2
      · simp at he2
      · exact h.entries sid2 e2 he2
    · intro tid2 sid2 n2 hf
      simp only at hf
      rw [d2] at hf
      split at hf
      · simp at hf
      · rename_i hnot
        obtain ⟨e2, t2, g1, g2⟩ := h.m1 tid2 sid2 n2 hf
        have hne : sid2 ≠ sid := by
          intro hh; subst hh
          rw [he] at g1
          simp only [Option.some.injEq] at g1
          subst g1
          exact hnot (List.mem_map.2 ⟨(n2, (tid2, t2)), find_some_mem _ _ _ g2, rfl⟩)
        exact ⟨e2, t2, by simp [d1, find_erase, hne, g1], g2⟩
    · intro sid2 e2 n2 tid2 t2 he2 hf
      simp only [d1, find_erase] at he2
      split at he2
      · simp at he2
      · rename_i hne
        simp only
        rw [d3]
        have : (sid2, n2) ∉ e.trials.map (fun kv => (sid, kv.1)) := by
          intro hm
          obtain ⟨kv, _, hkv⟩ := List.mem_map.1 hm
          simp only [Prod.mk.injEq] at hkv
          exact hne hkv.1.symm
        simp only [this, if_false]
        exact h.m2 sid2 e2 n2 tid2 t2 he2 hf
    · intro sid2 n2 tid2 hf
      simp only at hf
      rw [d3] at hf
      split at hf
      · simp at hf
      · exact h.m3 sid2 n2 tid2 hf

/-! ## what is served from the cache -/

/-- **finished_never_stale**: a trial answered from the cache without asking the backend carries the
requested id and is exactly the backend's (finished) record; and `_get_cached_trial` never trips
over its own dicts. -/
theorem serveTrial_sound (s : Spec) (c : Client) (h : Inv s c) (tid : Nat) :
    c.serveTrial tid ≠ .crash ∧
      ∀ id t, c.serveTrial tid = .hit id t →
        id = tid ∧ s.trials[tid]? = some t ∧ t.state.isFinished = true := by
  unfold Client.serveTrial
  cases h1 : find c.id2sn tid with
  | none => simp
  | some sn =>
    obtain ⟨sid, n⟩ := sn
    obtain ⟨e, t0, g1, g2⟩ := h.m1 tid sid n h1
    simp only [g1, g2]
    by_cases hu : tid ∈ e.unfinished
    · have hu' : e.unfinished.contains tid = true := by simpa using hu
      simp [hu]
    · have hu' : e.unfinished.contains tid = false := by simpa using hu
      rw [hu']
      simp only [Bool.false_eq_true, if_false]
      refine ⟨by simp, ?_⟩
      intro id t hh
      simp only [Served.hit.injEq] at hh
      obtain ⟨e1, e2⟩ := hh
      subst e1; subst e2
      obtain ⟨f1, f2⟩ := (h.entries sid e g1).fresh n tid t0 g2 hu
      exact ⟨rfl, f1, f2⟩

/-- The number→id memo agrees with the backend's own lookup. -/
theorem lookup_sound (s : Spec) (hN : Numbered s) (c : Client) (h : Inv s c) (sid n tid : Nat)
    (hf : find c.sn2id (sid, n) = some tid) : ∃ t, (s.trialsOf sid)[n]? = some (tid, t) := by
  obtain ⟨t', h1, h2, h3⟩ := h.m3 sid n tid hf
  have := trialsOf_getElem_number s hN tid t' h1
  rw [h2, h3] at this
  exact ⟨t', this⟩

/-! ## the list returned after a sync -/

theorem trialsOf_nodup (s : Spec) (sid : Nat) : (s.trialsOf sid).Nodup := by
  have := (trialsFrom_ids sid s.trials 0).1
  unfold Spec.trialsOf
  refine List.Pairwise.imp ?_ this
  intro a b hab e
  subst e
  exact Nat.lt_irrefl _ hab

theorem values_perm (s : Spec) (sid : Nat) (e : Entry) (hc : EntryCore s sid e) (hf : AllFresh s sid e) :
    (e.trials.map (·.2)).Perm (s.trialsOf sid) := by
  have hk : e.trials.Pairwise (fun a b => a.1 ≠ b.1) := by
    have := hc.keys
    unfold List.Nodup at this
    exact List.pairwise_map.1 this
  have hnd : (e.trials.map (·.2)).Nodup := by
    unfold List.Nodup
    rw [List.pairwise_map]
    refine List.Pairwise.imp_of_mem ?_ hk
    intro x y hx hy hne hxy
    apply hne
    obtain ⟨n1, tid1, t1⟩ := x
    obtain ⟨n2, tid2, t2⟩ := y
    simp only [Prod.mk.injEq] at hxy
    obtain ⟨e1, e2⟩ := hxy
    subst e1; subst e2
    obtain ⟨_, _, _, _, k1⟩ := hc.static n1 tid1 t1 (mem_find_of_nodup _ _ _ hc.keys hx)
    obtain ⟨_, _, _, _, k2⟩ := hc.static n2 tid1 t1 (mem_find_of_nodup _ _ _ hc.keys hy)
    show n1 = n2
    rw [← k1, ← k2]
  rw [List.perm_ext_iff_of_nodup hnd (trialsOf_nodup s sid)]
  intro a
  obtain ⟨tid, t⟩ := a
  rw [mem_trialsOf]
  constructor
  · intro hm
    obtain ⟨kv, hkv, e1⟩ := List.mem_map.1 hm
    obtain ⟨n, v⟩ := kv
    simp only at e1
    subst e1
    exact hf.sound n tid t (mem_find_of_nodup _ _ _ hc.keys hkv)
  · rintro ⟨h1, h2⟩
    exact List.mem_map.2 ⟨(t.number, (tid, t)), find_some_mem _ _ _ (hf.complete tid t h1 h2), rfl⟩

/-- **sync_then_equal**, entry level: an entry that is `AllFresh` reads back exactly as the
backend's list of the study, in the backend's order, for every state filter. -/
theorem readAll_of_allFresh (s : Spec) (hN : Numbered s) (sid : Nat) (e : Entry) (hc : EntryCore s sid e)
    (hf : AllFresh s sid e) (states : Option (List TState)) :
    e.readAll states = (s.trialsOf sid).filter (fun p => stateIn states p.2.state) := by
  unfold Entry.readAll
  have hperm : (sortByNumber ((e.trials.map (·.2)).filter (fun p => stateIn states p.2.state))).Perm
      ((s.trialsOf sid).filter (fun p => stateIn states p.2.state)) :=
    (sortByNumber_perm _).trans ((values_perm s sid e hc hf).filter _)
  have hs2 : ((s.trialsOf sid).filter (fun p => stateIn states p.2.state)).Pairwise
      (fun a b => a.2.number ≤ b.2.number) :=
    ((trialsOf_sorted s hN sid).imp (fun h => Nat.le_of_lt h)).filter _
  refine List.Perm.eq_of_pairwise ?_ (sortByNumber_sorted _) hs2 hperm
  intro a b ha hb h1 h2
  have ha' : a ∈ s.trialsOf sid := (List.mem_filter.1 (hperm.subset ha)).1
  have hb' : b ∈ s.trialsOf sid := (List.mem_filter.1 hb).1
  obtain ⟨ia, ta⟩ := a
  obtain ⟨ib, tb⟩ := b
  obtain ⟨a1, a2⟩ := (mem_trialsOf s sid ia ta).1 ha'
  obtain ⟨b1, b2⟩ := (mem_trialsOf s sid ib tb).1 hb'
  have hid := numbered_unique s hN a1 b1 (a2.trans b2.symm) (Nat.le_antisymm h1 h2)
  subst hid
  rw [a1] at b1
  simp only [Option.some.injEq] at b1
  subst b1
  rfl

/-- **order_by_number**: whatever the cache holds, `get_all_trials` returns it sorted by number. -/
theorem readAll_sorted (e : Entry) (states : Option (List TState)) :
    (e.readAll states).Pairwise (fun a b => a.2.number ≤ b.2.number) :=
  sortByNumber_sorted _

/-! ## small facts used by the per-method theorems of Props/C08 -/

theorem study?_some (s : Spec) (sid : Nat) (st : StudyS) (h : s.study? sid = some st) :
    s.studies[sid]? = some (some st) := by
  unfold Spec.study? at h
  cases hh : s.studies[sid]? with
  | none => simp [hh] at h
  | some o => cases o with
    | none => simp [hh] at h
    | some st' => simp [hh] at h; simp [h]

theorem entryInv_setName (s : Spec) (sid : Nat) (e : Entry) (nm : String) (h : EntryInv s sid e)
    (hn : ∃ o, s.studies[sid]? = some o ∧ ∀ st, o = some st → st.name = nm) :
    EntryInv s sid { e with name := some nm } := by
  refine ⟨⟨h.keys, h.static, h.fresh, h.uOfStudy, h.wBound, ?_, h.memoDirs⟩, h.covers⟩
  intro nm' hh
  simp only [Option.some.injEq] at hh
  subst hh
  exact hn

theorem entryInv_setDirs (s : Spec) (sid : Nat) (e : Entry) (d : List Nat) (h : EntryInv s sid e)
    (hn : ∃ o, s.studies[sid]? = some o ∧ ∀ st, o = some st → st.directions = d) :
    EntryInv s sid { e with directions := some d } := by
  refine ⟨⟨h.keys, h.static, h.fresh, h.uOfStudy, h.wBound, h.memoName, ?_⟩, h.covers⟩
  intro d' hh
  simp only [Option.some.injEq] at hh
  subst hh
  exact hn

/-- filling a memo field of the entry of `sid` (created on the spot if missing) -/
theorem inv_upsert_field (s : Spec) (c : Client) (sid : Nat) (f : Entry → Entry) (h : Inv s c)
    (hf : ∀ e, (f e).trials = e.trials) (hE : EntryInv s sid (f (entryD c.studies sid))) :
    Inv s { c with studies := upsert c.studies sid f } := by
  have hm := maps_upsert_sameTrials s c sid f hf h.maps
  refine ⟨?_, hm.m1, hm.m2, hm.m3⟩
  intro sid2 e he
  simp only [find_upsert] at he
  split at he
  · rename_i hh; subst hh
    simp only [Option.some.injEq] at he
    subst he
    exact hE
  · exact h.entries sid2 e he

theorem createTrial_current (s s' : Spec) (sid : Nat) (tm : Option Template) (ir : Bool) (tid : Nat)
    (t : TrialS) (h : step s (.createTrial sid tm ir) = (s', .newId tid)) (ht : s'.trials[tid]? = some t) :
    Current s' sid (tid, t) := by
  refine ⟨ht, ?_⟩
  simp only [step] at h
  split at h
  · simp at h
  · split at h
    · simp at h
    · simp only [Prod.mk.injEq, Out.newId.injEq] at h
      obtain ⟨h1, h2⟩ := h
      subst h1; subst h2
      simp only [List.getElem?_concat_length, Option.some.injEq] at ht
      subst ht
      cases tm <;> simp [mkTrial]

theorem trial?_of_live (s : Spec) (tid : Nat) (t : TrialS) (h : s.trials[tid]? = some t)
    (hl : (s.study? t.study).isSome = true) : s.trial? tid = some t := by
  unfold Spec.trial?; simp [h, hl]

end OptunaVerif.Cache
