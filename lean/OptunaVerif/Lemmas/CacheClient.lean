import OptunaVerif.Lemmas.CacheInv
/-! The invariant of a whole `_CachedStorage` object (entries + the two memo dicts) and its
preservation by each of its critical sections. -/
namespace OptunaVerif.Cache
open OptunaVerif OptunaVerif.Storage OptunaVerif.C01

/-! ## one more invariant of the contract model: a trial's study id was handed out before -/

def StudyBound (s : Spec) : Prop :=
  ∀ (i : Nat) (t : TrialS), s.trials[i]? = some t → t.study < s.studies.length

theorem study?_isSome_lt (s : Spec) (sid : Nat) (h : (s.study? sid).isSome = true) : sid < s.studies.length := by
  unfold Spec.study? at h
  rcases Nat.lt_or_ge sid s.studies.length with h' | h'
  · exact h'
  · simp [List.getElem?_eq_none h'] at h

theorem studyBound_step (s : Spec) (op : Op) (h : StudyBound s) : StudyBound (step s op).1 := by
  intro i t hi
  have hmono := studies_length_mono s op
  rcases step_get_back s op i t hi with hnew | ⟨t0, h0, hs, _, _⟩
  · cases step_trials s op with
    | same h' => rw [h'] at hi; have := get_lt hi; omega
    | append t1 h' _ hlive =>
      rw [h'] at hi
      have hl := get_lt hi
      simp only [List.length_append, List.length_cons, List.length_nil] at hl
      have hi' : i = s.trials.length := by omega
      subst hi'
      simp only [List.getElem?_concat_length, Option.some.injEq] at hi
      subst hi
      have := study?_isSome_lt s _ hlive
      omega
    | upd tid f t0 h' _ _ => rw [h'] at hi; have := get_lt hi; simp at this; omega
  · have := h i t0 h0
    rw [hs] at this
    omega

/-- What every reachable backend state satisfies. -/
structure Wf (s : Spec) : Prop where
  numbered : Numbered s
  bound : StudyBound s

theorem wf_init : Wf Storage.init :=
  ⟨by intro i t h; simp [Storage.init] at h, by intro i t h; simp [Storage.init] at h⟩

theorem wf_step (s : Spec) (op : Op) (h : Wf s) : Wf (step s op).1 :=
  ⟨numbered_step s op h.numbered, studyBound_step s op h.bound⟩

/-! ## the client invariant -/

/-- static part of an entry (survives the first pass of the two-pass loop) -/
def Static (s : Spec) (sid : Nat) (e : Entry) : Prop :=
  ∀ n tid t, find e.trials n = some (tid, t) →
    ∃ t', s.trials[tid]? = some t' ∧ t'.study = sid ∧ t'.number = n ∧ t.number = n

structure Maps (s : Spec) (c : Client) : Prop where
  static : ∀ sid e, find c.studies sid = some e → Static s sid e
  m1 : ∀ tid sid n, find c.id2sn tid = some (sid, n) →
    ∃ e t, find c.studies sid = some e ∧ find e.trials n = some (tid, t)
  m2 : ∀ sid e n tid t, find c.studies sid = some e → find e.trials n = some (tid, t) →
    find c.sn2id (sid, n) = some tid
  m3 : ∀ sid n tid, find c.sn2id (sid, n) = some tid →
    ∃ t', s.trials[tid]? = some t' ∧ t'.study = sid ∧ t'.number = n

/-- **cache_covers** for a `_CachedStorage`: every entry satisfies `EntryInv`, and the memo dicts
are consistent with the entries and the backend. -/
structure Inv (s : Spec) (c : Client) : Prop where
  entries : ∀ sid e, find c.studies sid = some e → EntryInv s sid e
  m1 : ∀ tid sid n, find c.id2sn tid = some (sid, n) →
    ∃ e t, find c.studies sid = some e ∧ find e.trials n = some (tid, t)
  m2 : ∀ sid e n tid t, find c.studies sid = some e → find e.trials n = some (tid, t) →
    find c.sn2id (sid, n) = some tid
  m3 : ∀ sid n tid, find c.sn2id (sid, n) = some tid →
    ∃ t', s.trials[tid]? = some t' ∧ t'.study = sid ∧ t'.number = n

theorem Inv.maps {s : Spec} {c : Client} (h : Inv s c) : Maps s c :=
  ⟨fun sid e he => (h.entries sid e he).static, h.m1, h.m2, h.m3⟩

theorem inv_init (s : Spec) : Inv s Client.init := by
  refine ⟨?_, ?_, ?_, ?_⟩ <;> intros <;> simp_all [Client.init, find]

theorem inv_step (s : Spec) (op : Op) (c : Client) (h : Inv s c) : Inv (step s op).1 c := by
  refine ⟨fun sid e he => entryInv_step s op sid e (h.entries sid e he), h.m1, h.m2, ?_⟩
  intro sid n tid hf
  obtain ⟨t', h1, h2, h3⟩ := h.m3 sid n tid hf
  obtain ⟨t1, g1, g2, g3⟩ := trial_study_step s op tid t' h1
  exact ⟨t1, g1, g2.trans h2, g3.trans h3⟩

/-! ### `upsert` -/

theorem find_upsert (m : List (Nat × Entry)) (sid sid2 : Nat) (f : Entry → Entry) :
    find (upsert m sid f) sid2 = if sid2 = sid then some (f (entryD m sid)) else find m sid2 := by
  unfold upsert; exact find_insert _ _ _ _

theorem entryD_upsert_same (m : List (Nat × Entry)) (sid : Nat) (f : Entry → Entry) :
    entryD (upsert m sid f) sid = f (entryD m sid) := by
  simp [entryD, find_upsert]

theorem entryD_upsert_id (m : List (Nat × Entry)) (sid sid2 : Nat) :
    entryD (upsert m sid id) sid2 = entryD m sid2 := by
  unfold entryD
  rw [find_upsert]
  split
  · rename_i h; subst h; simp [entryD]
  · rfl

theorem entryInv_entryD (s : Spec) (c : Client) (h : Inv s c) (sid : Nat) :
    EntryInv s sid (entryD c.studies sid) := by
  unfold entryD
  cases hf : find c.studies sid with
  | none => exact entryInv_empty s sid
  | some e => exact h.entries sid e hf

theorem static_entryD (s : Spec) (c : Client) (h : Maps s c) (sid : Nat) :
    Static s sid (entryD c.studies sid) := by
  unfold entryD
  cases hf : find c.studies sid with
  | none => intro n tid t hh; simp [Entry.empty, find] at hh
  | some e => exact h.static sid e hf

/-- `if study_id not in self._studies: self._studies[study_id] = _StudyInfo()` keeps everything. -/
theorem maps_touch (s : Spec) (c : Client) (sid : Nat) (h : Maps s c) :
    Maps s { c with studies := upsert c.studies sid id } := by
  refine ⟨?_, ?_, ?_, h.m3⟩
  · intro sid2 e he
    simp only [find_upsert] at he
    split at he
    · rename_i hs; subst hs
      simp only [id, Option.some.injEq] at he
      subst he
      exact static_entryD s c h sid2
    · exact h.static sid2 e he
  · intro tid sid2 n hf
    obtain ⟨e, t, h1, h2⟩ := h.m1 tid sid2 n hf
    refine ⟨e, t, ?_, h2⟩
    simp only [find_upsert]
    split
    · rename_i hs; subst hs; simp [entryD, h1]
    · exact h1
  · intro sid2 e n tid t he hf
    simp only [find_upsert] at he
    split at he
    · rename_i hs; subst hs
      simp only [id, Option.some.injEq] at he
      subst he
      unfold entryD at hf
      cases hh : find c.studies sid2 with
      | none => simp [hh, Entry.empty, find] at hf
      | some e0 => rw [hh] at hf; exact h.m2 sid2 e0 n tid t hh hf
    · exact h.m2 sid2 e n tid t he hf

theorem inv_touch (s : Spec) (c : Client) (sid : Nat) (h : Inv s c) :
    Inv s { c with studies := upsert c.studies sid id } := by
  have hm := maps_touch s c sid h.maps
  refine ⟨?_, hm.m1, hm.m2, hm.m3⟩
  intro sid2 e he
  simp only [find_upsert] at he
  split at he
  · rename_i hs; subst hs
    simp only [id, Option.some.injEq] at he
    subst he
    exact entryInv_entryD s c h sid2
  · exact h.entries sid2 e he

/-! ### `_add_trials_to_cache` -/

/-- `p` is a (possibly out-of-date) snapshot of the backend record `p.1`, which belongs to study `sid`
and carries the number the snapshot shows (study and number of a record never change). -/
def Filed (s : Spec) (sid : Nat) (p : Nat × TrialS) : Prop :=
  ∃ t', s.trials[p.1]? = some t' ∧ t'.study = sid ∧ t'.number = p.2.number

theorem Current.filed {s : Spec} {sid : Nat} {p : Nat × TrialS} (h : Current s sid p) : Filed s sid p :=
  ⟨p.2, h.1, h.2, rfl⟩

theorem maps_addOne (s : Spec) (hN : Numbered s) (c : Client) (sid : Nat) (p : Nat × TrialS)
    (h : Maps s c) (hp : Filed s sid p) : Maps s (c.addOne sid p) := by
  obtain ⟨tid, t⟩ := p
  obtain ⟨tb, hcur, hsid, hnum⟩ := hp
  simp only at hcur hsid hnum
  have hst := static_entryD s c h sid
  refine ⟨?_, ?_, ?_, ?_⟩
  · intro sid2 e he
    simp only [Client.addOne, find_upsert] at he
    split at he
    · rename_i hs; subst hs
      simp only [Option.some.injEq] at he
      subst he
      intro n2 tid2 t2 hf
      simp only [addTrial_trials, find_insert] at hf
      split at hf
      · rename_i hn
        simp only [Option.some.injEq, Prod.mk.injEq] at hf
        obtain ⟨e1, e2⟩ := hf
        subst e1; subst e2; subst hn
        exact ⟨tb, hcur, hsid, hnum, rfl⟩
      · exact hst n2 tid2 t2 hf
    · exact h.static sid2 e he
  · intro tid2 sid2 n2 hf
    simp only [Client.addOne, find_insert] at hf
    split at hf
    · rename_i ht; subst ht
      simp only [Option.some.injEq, Prod.mk.injEq] at hf
      obtain ⟨e1, e2⟩ := hf
      subst e1; subst e2
      exact ⟨(entryD c.studies sid).addTrial (tid2, t), t, by simp [Client.addOne, find_upsert],
        by simp [find_insert_same]⟩
    · rename_i ht
      obtain ⟨e2, t2, g1, g2⟩ := h.m1 tid2 sid2 n2 hf
      by_cases hs : sid2 = sid
      · subst hs
        refine ⟨(entryD c.studies sid2).addTrial (tid, t), t2, by simp [Client.addOne, find_upsert], ?_⟩
        have hne : n2 ≠ t.number := by
          intro hn
          obtain ⟨t', k1, k2, k3, _⟩ := h.static sid2 e2 g1 n2 tid2 t2 g2
          exact ht (numbered_unique s hN k1 hcur (k2.trans hsid.symm) ((k3.trans hn).trans hnum.symm))
        simp only [addTrial_trials]
        rw [find_insert_other _ _ _ _ hne]
        simp [entryD, g1, g2]
      · exact ⟨e2, t2, by simp [Client.addOne, find_upsert, hs, g1], g2⟩
  · intro sid2 e n2 tid2 t2 he hf
    simp only [Client.addOne, find_upsert] at he
    simp only [Client.addOne]
    by_cases hk : (sid2, n2) = (sid, t.number)
    · simp only [Prod.mk.injEq] at hk
      obtain ⟨k1, k2⟩ := hk
      subst k1; subst k2
      simp only [if_true, Option.some.injEq] at he
      subst he
      simp only [addTrial_trials, find_insert_same, Option.some.injEq, Prod.mk.injEq] at hf
      rw [find_insert_same, hf.1]
    · rw [find_insert_other _ _ _ _ hk]
      split at he
      · rename_i hs; subst hs
        simp only [Option.some.injEq] at he
        subst he
        have hne : n2 ≠ t.number := by
          intro hn; exact hk (by rw [hn])
        simp only [addTrial_trials] at hf
        rw [find_insert_other _ _ _ _ hne] at hf
        unfold entryD at hf
        cases hh : find c.studies sid2 with
        | none => simp [hh, Entry.empty, find] at hf
        | some e0 => rw [hh] at hf; exact h.m2 sid2 e0 n2 tid2 t2 hh hf
      · exact h.m2 sid2 e n2 tid2 t2 he hf
  · intro sid2 n2 tid2 hf
    simp only [Client.addOne, find_insert] at hf
    split at hf
    · rename_i hk
      simp only [Prod.mk.injEq] at hk
      obtain ⟨k1, k2⟩ := hk
      subst k1; subst k2
      simp only [Option.some.injEq] at hf
      subst hf
      exact ⟨tb, hcur, hsid, hnum⟩
    · exact h.m3 sid2 n2 tid2 hf

theorem addOne_studies_other (c : Client) (sid sid2 : Nat) (p : Nat × TrialS) (h : sid2 ≠ sid) :
    find (c.addOne sid p).studies sid2 = find c.studies sid2 := by
  simp [Client.addOne, find_upsert, h]

theorem addOne_entryD (c : Client) (sid : Nat) (p : Nat × TrialS) :
    entryD (c.addOne sid p).studies sid = (entryD c.studies sid).addTrial p := by
  simp [Client.addOne, entryD_upsert_same]

theorem foldl_addOne (s : Spec) (hN : Numbered s) (sid : Nat) (l : List (Nat × TrialS)) (c : Client)
    (h : Maps s c) (hcur : ∀ p, p ∈ l → Current s sid p) :
    Maps s (l.foldl (Client.addOne sid) c) ∧
      entryD (l.foldl (Client.addOne sid) c).studies sid = l.foldl Entry.addTrial (entryD c.studies sid) ∧
      ∀ sid2, sid2 ≠ sid → find (l.foldl (Client.addOne sid) c).studies sid2 = find c.studies sid2 := by
  induction l generalizing c with
  | nil => exact ⟨h, rfl, fun _ _ => rfl⟩
  | cons p r ih =>
    have hp := hcur p List.mem_cons_self
    obtain ⟨i1, i2, i3⟩ := ih (c.addOne sid p) (maps_addOne s hN c sid p h hp.filed)
      (fun q hq => hcur q (List.mem_cons_of_mem _ hq))
    refine ⟨i1, ?_, ?_⟩
    · simp only [List.foldl_cons]
      rw [i2, addOne_entryD]
    · intro sid2 hne
      simp only [List.foldl_cons]
      rw [i3 sid2 hne, addOne_studies_other c sid sid2 p hne]

/-- replacing the entry of `sid` (created on the spot if missing) by one with the same `trials` keeps
the dict consistency -/
theorem maps_upsert_sameTrials (s : Spec) (c : Client) (sid : Nat) (f : Entry → Entry)
    (hf : ∀ e, (f e).trials = e.trials) (h : Maps s c) :
    Maps s { c with studies := upsert c.studies sid f } := by
  have hD : ∀ e0, find c.studies sid = some e0 → entryD c.studies sid = e0 := by
    intro e0 he0; simp [entryD, he0]
  have hst := static_entryD s c h sid
  refine ⟨?_, ?_, ?_, h.m3⟩
  · intro sid2 e he
    simp only [find_upsert] at he
    split at he
    · rename_i hs; subst hs
      simp only [Option.some.injEq] at he
      subst he
      intro n tid t hh
      rw [hf] at hh
      exact hst n tid t hh
    · exact h.static sid2 e he
  · intro tid sid2 n hh
    obtain ⟨e, t, g1, g2⟩ := h.m1 tid sid2 n hh
    by_cases hs : sid2 = sid
    · subst hs
      exact ⟨f e, t, by simp [find_upsert, hD e g1], by rw [hf]; exact g2⟩
    · exact ⟨e, t, by simp [find_upsert, hs, g1], g2⟩
  · intro sid2 e n tid t he hh
    simp only [find_upsert] at he
    split at he
    · rename_i hs; subst hs
      simp only [Option.some.injEq] at he
      subst he
      rw [hf] at hh
      unfold entryD at hh
      cases hc : find c.studies sid2 with
      | none => simp [hc, Entry.empty, find] at hh
      | some e0 => rw [hc] at hh; exact h.m2 sid2 e0 n tid t hc hh
    · exact h.m2 sid2 e n tid t he hh

/-! ### the fetch -/

theorem fetchRdb_ok (s : Spec) (sid : Nat) (inc : List Nat) (w : Int) (l : List (Nat × TrialS))
    (h : fetchRdb s sid inc w = .ok l) :
    (s.study? sid).isSome = true ∧ l = servicerFilter inc w (s.trialsOf sid) := by
  unfold fetchRdb at h
  split at h
  · simp at h
  · rename_i st hst
    simp only [Except.ok.injEq] at h
    rw [rdbFilter_eq_servicerFilter] at h
    exact ⟨by simp [hst], h.symm⟩

theorem fetchRdb_error (s : Spec) (sid : Nat) (inc : List Nat) (w : Int) (err : Err)
    (h : fetchRdb s sid inc w = .error err) : s.study? sid = none ∧ err = .keyError := by
  unfold fetchRdb at h
  split at h
  · rename_i hst
    simp only [Except.error.injEq] at h
    exact ⟨hst, h.symm⟩
  · simp at h

theorem fetched_current (s : Spec) (sid : Nat) (inc : List Nat) (w : Int) :
    ∀ p, p ∈ servicerFilter inc w (s.trialsOf sid) → Current s sid p := by
  intro p hp
  obtain ⟨h1, _⟩ := (mem_servicerFilter inc w _ p).1 hp
  exact (mem_trialsOf s sid p.1 p.2).1 h1

theorem fetched_all (s : Spec) (sid : Nat) (inc : List Nat) (w : Int) :
    ∀ (tid : Nat) (t : TrialS), s.trials[tid]? = some t → t.study = sid →
      (tid ∈ inc ∨ ((tid : Nat) : Int) > w) → (tid, t) ∈ servicerFilter inc w (s.trialsOf sid) := by
  intro tid t ht hs hc
  rw [mem_servicerFilter]
  exact ⟨(mem_trialsOf s sid tid t).2 ⟨ht, hs⟩, hc.symm⟩

/-! ### sync -/

theorem foldl_noteState_trials (l : List (Nat × TrialS)) (e : Entry) :
    (l.foldl Entry.noteState e).trials = e.trials := by
  induction l generalizing e with
  | nil => rfl
  | cons q r ih => simp only [List.foldl_cons]; rw [ih]; simp

theorem foldl_addOne_isSome (sid : Nat) (r : List (Nat × TrialS)) (c : Client)
    (h : (find c.studies sid).isSome = true) :
    (find (r.foldl (Client.addOne sid) c).studies sid).isSome = true := by
  induction r generalizing c with
  | nil => exact h
  | cons q r ih => exact ih _ (by simp [Client.addOne, find_upsert])

/-- The result of a successful `_read_trials_from_remote_storage`, spelled out. -/
theorem sync_ok (s : Spec) (hN : Numbered s) (c : Client) (sid : Nat) (c' : Client) (h : Inv s c)
    (hs : c.sync s sid = (c', none)) :
    (s.study? sid).isSome = true ∧ Inv s c' ∧ AllFresh s sid (entryD c'.studies sid) ∧
      ∀ sid2, sid2 ≠ sid → find c'.studies sid2 = find c.studies sid2 := by
  unfold Client.sync at hs
  simp only [entryD_upsert_id] at hs
  split at hs
  · simp at hs
  · rename_i l hl
    obtain ⟨hlive, hleq⟩ := fetchRdb_ok s sid _ _ l hl
    simp only [Prod.mk.injEq, and_true] at hs
    have hcur : ∀ p, p ∈ l → Current s sid p := by rw [hleq]; exact fetched_current s sid _ _
    have hall := fetched_all s sid (entryD c.studies sid).unfinished (entryD c.studies sid).watermark
    rw [← hleq] at hall
    have hm0 := maps_touch s c sid h.maps
    obtain ⟨f1, f2, f3⟩ := foldl_addOne s hN sid l _ hm0 hcur
    simp only [entryD_upsert_id] at f2
    obtain ⟨a1, a2⟩ := absorb_spec s hN sid (entryD c.studies sid) l (entryInv_entryD s c h sid) hcur hall
    have hm2 := maps_upsert_sameTrials s _ sid (fun e => l.foldl Entry.noteState e)
      (fun e => foldl_noteState_trials l e) f1
    have hentry : ∀ sid2, find c'.studies sid2 =
        if sid2 = sid then some ((entryD c.studies sid).absorb l) else find c.studies sid2 := by
      intro sid2
      rw [← hs]
      simp only [find_upsert]
      split
      · rw [f2, ← absorb2_eq_absorb]; rfl
      · rename_i hne
        rw [f3 sid2 hne]
        simp [find_upsert, hne]
    refine ⟨hlive, ⟨?_, ?_, ?_, ?_⟩, ?_, ?_⟩
    · intro sid2 e he
      rw [hentry] at he
      split at he
      · rename_i hh; subst hh
        simp only [Option.some.injEq] at he
        subst he
        exact a1
      · exact h.entries sid2 e he
    · rw [← hs]; exact hm2.m1
    · rw [← hs]; exact hm2.m2
    · rw [← hs]; exact hm2.m3
    · have : entryD c'.studies sid = (entryD c.studies sid).absorb l := by
        simp [entryD, hentry]
      rw [this]; exact a2
    · intro sid2 hne
      rw [hentry]; simp [hne]

theorem sync_err (s : Spec) (c : Client) (sid : Nat) (c' : Client) (err : Err) (h : Inv s c)
    (hs : c.sync s sid = (c', some err)) :
    s.study? sid = none ∧ err = .keyError ∧ Inv s c' := by
  unfold Client.sync at hs
  simp only [entryD_upsert_id] at hs
  split at hs
  · rename_i e he
    simp only [Prod.mk.injEq, Option.some.injEq] at hs
    obtain ⟨h1, h2⟩ := fetchRdb_error s sid _ _ e he
    rw [← hs.1, ← hs.2]
    exact ⟨h1, h2, inv_touch s c sid h⟩
  · simp at hs

end OptunaVerif.Cache
