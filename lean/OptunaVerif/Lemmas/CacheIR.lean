import OptunaVerif.Model.CacheIR
import OptunaVerif.Lemmas.Cache
/-! Helper lemmas for Props/C08Gen: unfolding equations of the generic interpreter of `Model/CacheIR.lean`, a few more
facts about Python dicts as association lists, and the two pass-through shapes of `_CachedStorage`. -/
set_option linter.unusedSimpArgs false
namespace OptunaVerif.Cache
section Dict
variable {κ α : Type} [DecidableEq κ]

theorem insert_self (l : List (κ × α)) (k : κ) (v : α) (h : find l k = some v) : insert l k v = l := by
  induction l with
  | nil => simp [find] at h
  | cons hd t ih =>
    obtain ⟨k', v'⟩ := hd
    by_cases hk : k' = k
    · subst hk; simp [find] at h; subst h; simp [insert]
    · simp [find, hk] at h; simp [insert, hk, ih h]

theorem insert_insert (l : List (κ × α)) (k : κ) (a b : α) : insert (insert l k a) k b = insert l k b := by
  induction l with
  | nil => simp [insert]
  | cons hd t ih =>
    obtain ⟨k', v'⟩ := hd
    by_cases hk : k' = k
    · simp [insert, hk]
    · simp [insert, hk, ih]

theorem erase_of_find_none (l : List (κ × α)) (k : κ) (h : find l k = none) : erase l k = l := by
  induction l with
  | nil => rfl
  | cons hd t ih =>
    obtain ⟨k', v'⟩ := hd
    by_cases hk : k' = k
    · simp [find, hk] at h
    · simp [find, hk] at h
      have := ih h
      unfold erase at this ⊢
      simp only [List.filter_cons, ne_eq, hk, not_false_eq_true, decide_true, if_true]
      rw [this]

theorem erase_insert (l : List (κ × α)) (k : κ) (v : α) : erase (insert l k v) k = erase l k := by
  induction l with
  | nil => simp [insert, erase]
  | cons hd t ih =>
    obtain ⟨k', v'⟩ := hd
    unfold erase at ih ⊢
    by_cases hk : k' = k
    · subst hk; simp [insert, List.filter_cons]
    · simp only [insert, hk, if_false, List.filter_cons, ne_eq, not_false_eq_true, decide_true, if_true]
      rw [ih]
end Dict

theorem uremove_of_not_contains (u : List Nat) (i : Nat) (h : u.contains i = false) : uremove u i = u := by
  unfold uremove
  rw [List.filter_eq_self]
  intro j hj
  simp only [ne_eq, decide_eq_true_eq]
  intro hji
  subst hji
  have : u.contains j = true := by simpa using hj
  rw [h] at this
  cases this

theorem upsert_of_find (m : List (Nat × Entry)) (sid : Nat) (e : Entry) (f : Entry → Entry) (h : find m sid = some e) :
    upsert m sid f = insert m sid (f e) := by
  simp [upsert, entryD, h]

theorem upsert_upsert (m : List (Nat × Entry)) (sid : Nat) (f g : Entry → Entry) :
    upsert (upsert m sid f) sid g = upsert m sid (fun e => g (f e)) := by
  simp [upsert, entryD, find_insert_same, insert_insert]

theorem find_upsert_same (m : List (Nat × Entry)) (sid : Nat) (f : Entry → Entry) :
    find (upsert m sid f) sid = some (f (entryD m sid)) := by
  simp [upsert, find_insert_same]

end OptunaVerif.Cache

namespace OptunaVerif.CacheIR
open OptunaVerif OptunaVerif.Storage OptunaVerif.Cache
variable {σ ε ι : Type}

theorem exec_seq (M : Machine σ ε ι) (a b : Stmt) (cur : Option ε) (s : σ) :
    exec M (.seq a b) cur s = match exec M a cur s with
      | (s', .next) => exec M b cur s'
      | r => r := by
  simp only [exec]; rfl

theorem exec_skip (M : Machine σ ε ι) (cur : Option ε) (s : σ) : exec M .skip cur s = (s, .next) := rfl

theorem exec_locked (M : Machine σ ε ι) (b : Stmt) (cur : Option ε) (s : σ) : exec M (.locked b) cur s = exec M b cur s := by
  simp only [exec]

theorem exec_forIn (M : Machine σ ε ι) (it : Iter) (body : Stmt) (cur : Option ε) (s : σ) :
    exec M (.forIn it body) cur s = match M.items it s with
      | (s', .error e) => (s', .raised e)
      | (s', .ok xs) => forLoop (exec M body cur) (M.bind it) xs s' := by
  simp only [exec]; rfl

theorem exec_ite (M : Machine σ ε ι) (c : Cond) (t e : Stmt) (cur : Option ε) (s : σ) :
    exec M (.ite c t e) cur s = match evalCond M c cur s with
      | (s', .error x) => (s', .raised x)
      | (s', .ok true) => exec M t cur s'
      | (s', .ok false) => exec M e cur s' := by
  simp only [exec]; rfl

theorem exec_call (M : Machine σ ε ι) (b : Bind) (into : Target) (callee : Stmt) (cur : Option ε) (s : σ) :
    exec M (.call b into callee) cur s = match M.enter b s with
      | (s1, some e) => (s1, .raised e)
      | (s1, none) =>
        match exec M callee none s1 with
        | (s2, .raised e) => (M.leave .drop s s2, .raised e)
        | (s2, .ret) => (M.leave into s s2, .next)
        | (s2, .next) => (M.leave into s s2, .next)
        | (s2, _) => (s2, .raised M.unrep) := by
  simp only [exec]; rfl

theorem forLoop_nil (f : σ → σ × Flow ε) (bind : ι → σ → σ) (s : σ) : forLoop f bind [] s = (s, .next) := rfl

theorem forLoop_cons (f : σ → σ × Flow ε) (bind : ι → σ → σ) (x : ι) (xs : List ι) (s : σ) :
    forLoop f bind (x :: xs) s = match f (bind x s) with
      | (s', .next) => forLoop f bind xs s'
      | (s', .cont) => forLoop f bind xs s'
      | (s', .brk) => (s', .next)
      | r => r := by
  simp only [forLoop]; rfl

/-- `return self._backend.<m>(<own arguments>)`, wherever the method has got to -/
theorem exec_forward_ret (m : BackendM) (fetch : Fetch) (op : Op) (hm : backendMatches m op = true) (x : CSt) :
    finishCached (exec (cachedM op fetch) (.seq (.act (.backend m)) (.ret .backendResult)) none x) =
      some ((step x.s op).1, x.c, (step x.s op).2) := by
  cases h : (step x.s op).2 <;>
    simp [exec, cachedM, hm, h, finishCached, ok, setL]

/-- `self._backend.<m>(<own arguments>)` as the last statement (the method returns None) -/
theorem exec_forward_unit (m : BackendM) (fetch : Fetch) (op : Op) (hm : backendMatches m op = true) (x : CSt)
    (hu : (step x.s op).2 = .unit ∨ ∃ e, (step x.s op).2 = .err e) :
    finishCached (exec (cachedM op fetch) (.act (.backend m)) none x) = some ((step x.s op).1, x.c, (step x.s op).2) := by
  rcases hu with h | ⟨e, h⟩ <;>
    simp [exec, cachedM, hm, h, finishCached, ok, setL]

end OptunaVerif.CacheIR
