import OptunaVerif.Lemmas.Cache
/-! The cache invariant of C08 and its preservation by backend steps and by the absorption of a
fetched batch. -/
namespace OptunaVerif.Cache
open OptunaVerif OptunaVerif.Storage OptunaVerif.C01

/-! ## what one backend step can do to a trial record -/

theorem get_lt {α : Type} {l : List α} {i : Nat} {a : α} (h : l[i]? = some a) : i < l.length := by
  rcases Nat.lt_or_ge i l.length with h' | h'
  · exact h'
  · simp [List.getElem?_eq_none h'] at h

/-- Looking backwards over one step: a record that exists afterwards either is new (its id is at
least the old length) or existed before with the same study and number, unchanged if it was
finished. -/
theorem step_get_back (s : Spec) (op : Op) (tid : Nat) (t' : TrialS)
    (h : (step s op).1.trials[tid]? = some t') :
    s.trials.length ≤ tid ∨
      ∃ t, s.trials[tid]? = some t ∧ t.study = t'.study ∧ t.number = t'.number ∧
        (t.state.isFinished = true → t' = t) := by
  rcases Nat.lt_or_ge tid s.trials.length with hlt | hge
  · right
    have hex : ∃ t, s.trials[tid]? = some t := ⟨s.trials[tid], by simp [hlt]⟩
    obtain ⟨t, ht⟩ := hex
    obtain ⟨t1, h1, hs1, hn1⟩ := trial_study_step s op tid t ht
    rw [h] at h1
    simp only [Option.some.injEq] at h1
    subst h1
    refine ⟨t, ht, hs1.symm, hn1.symm, ?_⟩
    intro hf
    have := finished_frozen_step s op tid t ht hf
    rw [h] at this
    simpa using this
  · exact Or.inl hge

/-! ## the invariant of one cache entry -/

/-- `p` is exactly what the backend holds now under id `p.1`, and belongs to study `sid`. -/
def Current (s : Spec) (sid : Nat) (p : Nat × TrialS) : Prop :=
  s.trials[p.1]? = some p.2 ∧ p.2.study = sid

/-- The trial is re-read on the next sync, or the cache already holds its final record. -/
def Covered (e : Entry) (tid : Nat) (t : TrialS) : Prop :=
  tid ∈ e.unfinished ∨ (find e.trials t.number = some (tid, t) ∧ t.state.isFinished = true)

structure EntryCore (s : Spec) (sid : Nat) (e : Entry) : Prop where
  keys : (e.trials.map (·.1)).Nodup
  /-- every cached snapshot is a snapshot of a backend record of this study, filed under its number -/
  static : ∀ n tid t, find e.trials n = some (tid, t) →
    ∃ t', s.trials[tid]? = some t' ∧ t'.study = sid ∧ t'.number = n ∧ t.number = n
  /-- a cached snapshot that is not scheduled for re-reading is final and equals the backend's record -/
  fresh : ∀ n tid t, find e.trials n = some (tid, t) → tid ∉ e.unfinished →
    s.trials[tid]? = some t ∧ t.state.isFinished = true
  /-- the unfinished set only holds ids of this study -/
  uOfStudy : ∀ tid, tid ∈ e.unfinished → ∃ t', s.trials[tid]? = some t' ∧ t'.study = sid
  /-- the watermark is −1 or below the next id the backend will hand out -/
  wBound : e.watermark < (s.trials.length : Int)
  memoName : ∀ nm, e.name = some nm →
    ∃ o, s.studies[sid]? = some o ∧ ∀ st, o = some st → st.name = nm
  memoDirs : ∀ d, e.directions = some d →
    ∃ o, s.studies[sid]? = some o ∧ ∀ st, o = some st → st.directions = d

/-- **cache_covers** for one entry: every backend trial of the study at or below the watermark is in
the unfinished set or cached in its final state. -/
structure EntryInv (s : Spec) (sid : Nat) (e : Entry) : Prop extends EntryCore s sid e where
  covers : ∀ (tid : Nat) (t : TrialS), s.trials[tid]? = some t → t.study = sid → ((tid : Nat) : Int) ≤ e.watermark →
    Covered e tid t

/-- After a sync: every cached snapshot is current and every backend trial of the study is cached. -/
structure AllFresh (s : Spec) (sid : Nat) (e : Entry) : Prop where
  sound : ∀ n tid t, find e.trials n = some (tid, t) → s.trials[tid]? = some t ∧ t.study = sid
  complete : ∀ tid t, s.trials[tid]? = some t → t.study = sid → find e.trials t.number = some (tid, t)

theorem entryInv_empty (s : Spec) (sid : Nat) : EntryInv s sid Entry.empty := by
  refine ⟨⟨by simp [Entry.empty], ?_, ?_, ?_, ?_, ?_, ?_⟩, ?_⟩
  · intro n tid t h; simp [Entry.empty, find] at h
  · intro n tid t h; simp [Entry.empty, find] at h
  · intro tid h; simp [Entry.empty] at h
  · simp only [Entry.empty]; omega
  · intro nm h; simp [Entry.empty] at h
  · intro d h; simp [Entry.empty] at h
  · intro tid t _ _ h
    simp only [Entry.empty] at h
    omega

theorem memo_step {β : Type} (proj : StudyS → β)
    (s : Spec) (op : Op) (sid : Nat) (v : β)
    (hp : ∀ (f : StudyS → StudyS) (st : StudyS),
      (∀ st, (f st).name = st.name ∧ (f st).directions = st.directions) → proj (f st) = proj st)
    (h : ∃ o, s.studies[sid]? = some o ∧ ∀ st, o = some st → proj st = v) :
    ∃ o, (step s op).1.studies[sid]? = some o ∧ ∀ st, o = some st → proj st = v := by
  obtain ⟨o, ho, hv⟩ := h
  have hlt := get_lt ho
  cases step_studies s op with
  | same h' => rw [h']; exact ⟨o, ho, hv⟩
  | append st h' _ => rw [h', List.getElem?_append_left hlt]; exact ⟨o, ho, hv⟩
  | delete sid' h' _ =>
    rw [h', updAt_getElem?]
    split
    · exact ⟨none, by simp [ho], by intro st e; simp at e⟩
    · exact ⟨o, ho, hv⟩
  | upd sid' f h' hf =>
    rw [h', updAt_getElem?]
    split
    · refine ⟨o.map f, by simp [ho], ?_⟩
      intro st e
      cases o with
      | none => simp at e
      | some st0 =>
        simp only [Option.map_some, Option.some.injEq] at e
        subst e
        rw [hp f st0 hf]
        exact hv st0 rfl
    · exact ⟨o, ho, hv⟩

/-- **Every** backend step — a write by this client, by any other client of the database, by a raw
writer — keeps the entry invariant (this is where `finished_frozen` and "new ids are larger than all
earlier ones" are used). -/
theorem entryInv_step (s : Spec) (op : Op) (sid : Nat) (e : Entry) (h : EntryInv s sid e) :
    EntryInv (step s op).1 sid e := by
  refine ⟨⟨h.keys, ?_, ?_, ?_, ?_, ?_, ?_⟩, ?_⟩
  · intro n tid t hf
    obtain ⟨t', h1, h2, h3, h4⟩ := h.static n tid t hf
    obtain ⟨t1, g1, g2, g3⟩ := trial_study_step s op tid t' h1
    exact ⟨t1, g1, g2.trans h2, g3.trans h3, h4⟩
  · intro n tid t hf hu
    obtain ⟨h1, h2⟩ := h.fresh n tid t hf hu
    exact ⟨finished_frozen_step s op tid t h1 h2, h2⟩
  · intro tid hu
    obtain ⟨t', h1, h2⟩ := h.uOfStudy tid hu
    obtain ⟨t1, g1, g2, _⟩ := trial_study_step s op tid t' h1
    exact ⟨t1, g1, g2.trans h2⟩
  · have := trials_length_mono s op
    have := h.wBound
    omega
  · intro nm hn
    exact memo_step (·.name) s op sid nm (fun f st hf => (hf st).1) (h.memoName nm hn)
  · intro d hd
    exact memo_step (·.directions) s op sid d (fun f st hf => (hf st).2) (h.memoDirs d hd)
  · intro tid t' ht' hs hw
    rcases step_get_back s op tid t' ht' with hnew | ⟨t, ht, hst, hnum, hfro⟩
    · have := h.wBound
      omega
    · rcases h.covers tid t ht (hst.trans hs) hw with hu | ⟨hc, hfin⟩
      · exact Or.inl hu
      · have := hfro hfin
        subst this
        exact Or.inr ⟨hc, hfin⟩

/-! ## absorbing a fetched batch -/

@[simp] theorem addTrial_trials (e : Entry) (p : Nat × TrialS) :
    (e.addTrial p).trials = insert e.trials p.2.number p := rfl
@[simp] theorem addTrial_unfinished (e : Entry) (p : Nat × TrialS) : (e.addTrial p).unfinished = e.unfinished := rfl
@[simp] theorem addTrial_watermark (e : Entry) (p : Nat × TrialS) : (e.addTrial p).watermark = e.watermark := rfl
@[simp] theorem addTrial_name (e : Entry) (p : Nat × TrialS) : (e.addTrial p).name = e.name := rfl
@[simp] theorem addTrial_directions (e : Entry) (p : Nat × TrialS) : (e.addTrial p).directions = e.directions := rfl

@[simp] theorem noteState_trials (e : Entry) (p : Nat × TrialS) : (e.noteState p).trials = e.trials := by
  unfold Entry.noteState; split <;> rfl
@[simp] theorem noteState_name (e : Entry) (p : Nat × TrialS) : (e.noteState p).name = e.name := by
  unfold Entry.noteState; split <;> rfl
@[simp] theorem noteState_directions (e : Entry) (p : Nat × TrialS) : (e.noteState p).directions = e.directions := by
  unfold Entry.noteState; split <;> rfl

theorem noteState_unfinished (e : Entry) (p : Nat × TrialS) :
    (e.noteState p).unfinished =
      if p.2.state.isFinished then uremove e.unfinished p.1 else uadd e.unfinished p.1 := by
  unfold Entry.noteState; split <;> rfl

theorem noteState_watermark (e : Entry) (p : Nat × TrialS) :
    (e.noteState p).watermark = if p.2.state.isFinished then max e.watermark (p.1 : Int) else e.watermark := by
  unfold Entry.noteState; split <;> rfl

theorem mem_noteState_unfinished (e : Entry) (p : Nat × TrialS) (j : Nat) :
    j ∈ (e.noteState p).unfinished ↔
      if p.2.state.isFinished then (j ∈ e.unfinished ∧ j ≠ p.1) else (j ∈ e.unfinished ∨ j = p.1) := by
  rw [noteState_unfinished]
  split
  · simp [mem_uremove]
  · simp [mem_uadd]

theorem noteState_addTrial_comm (e : Entry) (p q : Nat × TrialS) :
    (e.addTrial p).noteState q = (e.noteState q).addTrial p := by
  unfold Entry.noteState Entry.addTrial
  split <;> rfl

theorem foldl_addTrial_noteState (e : Entry) (q : Nat × TrialS) (l : List (Nat × TrialS)) :
    l.foldl Entry.addTrial (e.noteState q) = (l.foldl Entry.addTrial e).noteState q := by
  induction l generalizing e with
  | nil => rfl
  | cons p r ih =>
    simp only [List.foldl_cons]
    rw [← noteState_addTrial_comm, ih]

/-- The two-pass loop of `_CachedStorage` computes the same entry as the one-pass loop of
`GrpcClientCache`. -/
theorem absorb2_eq_absorb (e : Entry) (l : List (Nat × TrialS)) : e.absorb2 l = e.absorb l := by
  unfold Entry.absorb2 Entry.absorb
  induction l generalizing e with
  | nil => rfl
  | cons p r ih =>
    simp only [List.foldl_cons, Entry.absorb1]
    rw [← ih, foldl_addTrial_noteState]

theorem core_absorb1 (s : Spec) (sid : Nat) (e : Entry) (p : Nat × TrialS)
    (h : EntryCore s sid e) (hp : Current s sid p) : EntryCore s sid (e.absorb1 p) := by
  obtain ⟨tid, t⟩ := p
  obtain ⟨hcur, hsid⟩ := hp
  simp only at hcur hsid
  unfold Entry.absorb1
  refine ⟨?_, ?_, ?_, ?_, ?_, ?_, ?_⟩
  · simp only [noteState_trials, addTrial_trials]
    exact keys_insert_nodup _ _ _ h.keys
  · intro n2 tid2 t2 hf
    simp only [noteState_trials, addTrial_trials, find_insert] at hf
    split at hf
    · rename_i hn
      simp only [Option.some.injEq, Prod.mk.injEq] at hf
      obtain ⟨e1, e2⟩ := hf
      subst e1; subst e2; subst hn
      exact ⟨t, hcur, hsid, rfl, rfl⟩
    · exact h.static n2 tid2 t2 hf
  · intro n2 tid2 t2 hf hu
    simp only [noteState_trials, addTrial_trials, find_insert] at hf
    rw [mem_noteState_unfinished] at hu
    simp only [addTrial_unfinished] at hu
    split at hf
    · simp only [Option.some.injEq, Prod.mk.injEq] at hf
      obtain ⟨e1, e2⟩ := hf
      subst e1; subst e2
      by_cases hfin : t.state.isFinished = true
      · exact ⟨hcur, hfin⟩
      · simp [hfin] at hu
    · rename_i hn
      have hnot : tid2 ∉ e.unfinished := by
        intro hmem
        by_cases hfin : t.state.isFinished = true
        · simp only [hfin, if_true, not_and, Decidable.not_not] at hu
          have e1 := hu hmem
          subst e1
          obtain ⟨t', g1, _, g3, _⟩ := h.static n2 tid2 t2 hf
          rw [hcur] at g1
          simp only [Option.some.injEq] at g1
          subst g1
          exact hn g3.symm
        · simp [hfin, hmem] at hu
      exact h.fresh n2 tid2 t2 hf hnot
  · intro tid2 hu
    rw [mem_noteState_unfinished] at hu
    simp only [addTrial_unfinished] at hu
    split at hu
    · exact h.uOfStudy tid2 hu.1
    · rcases hu with hu | hu
      · exact h.uOfStudy tid2 hu
      · subst hu; exact ⟨t, hcur, hsid⟩
  · rw [noteState_watermark]
    simp only [addTrial_watermark]
    have h1 := h.wBound
    have h2 := get_lt hcur
    split
    · have : ((tid : Nat) : Int) < (s.trials.length : Int) := by exact_mod_cast h2
      omega
    · exact h1
  · intro nm hn
    simp only [noteState_name, addTrial_name] at hn
    exact h.memoName nm hn
  · intro d hd
    simp only [noteState_directions, addTrial_directions] at hd
    exact h.memoDirs d hd

/-- generalised coverage during the loop: every backend trial of the study is covered or still pending -/
def GCov (s : Spec) (sid : Nat) (e : Entry) (rem : List (Nat × TrialS)) : Prop :=
  ∀ tid t, s.trials[tid]? = some t → t.study = sid → Covered e tid t ∨ (tid, t) ∈ rem

/-- every id in the unfinished set is still pending or its cached snapshot is current -/
def HCur (s : Spec) (e : Entry) (rem : List (Nat × TrialS)) : Prop :=
  ∀ tid, tid ∈ e.unfinished →
    (∃ t, (tid, t) ∈ rem) ∨ ∃ t', s.trials[tid]? = some t' ∧ find e.trials t'.number = some (tid, t')

theorem gcov_absorb1 (s : Spec) (hN : Numbered s) (sid : Nat) (e : Entry) (p : Nat × TrialS)
    (rem : List (Nat × TrialS)) (hp : Current s sid p) (h : GCov s sid e (p :: rem)) :
    GCov s sid (e.absorb1 p) rem := by
  obtain ⟨tid, t⟩ := p
  obtain ⟨hcur, hsid⟩ := hp
  simp only at hcur hsid
  intro tid2 t2 ht2 hs2
  by_cases hid : tid2 = tid
  · -- the absorbed trial itself
    subst hid
    rw [hcur] at ht2
    simp only [Option.some.injEq] at ht2
    subst ht2
    left
    unfold Covered Entry.absorb1
    rw [mem_noteState_unfinished]
    simp only [addTrial_unfinished, noteState_trials, addTrial_trials, find_insert_same]
    by_cases hfin : t.state.isFinished = true
    · refine Or.inr ⟨?_, hfin⟩; simp
    · left; simp [hfin]
  · have hnum : t2.number ≠ t.number := by
      intro hn
      exact hid (numbered_unique s hN ht2 hcur (hs2.trans hsid.symm) hn)
    rcases h tid2 t2 ht2 hs2 with hc | hm
    · left
      unfold Covered Entry.absorb1 at *
      rw [mem_noteState_unfinished]
      simp only [addTrial_unfinished, noteState_trials, addTrial_trials]
      rcases hc with hu | ⟨hc1, hc2⟩
      · left
        split
        · exact ⟨hu, hid⟩
        · exact Or.inl hu
      · right
        rw [find_insert_other _ _ _ _ hnum]
        exact ⟨hc1, hc2⟩
    · rcases List.mem_cons.1 hm with e1 | e1
      · simp only [Prod.mk.injEq] at e1
        exact absurd e1.1 hid
      · exact Or.inr e1

theorem hcur_absorb1 (s : Spec) (hN : Numbered s) (sid : Nat) (e : Entry) (p : Nat × TrialS)
    (rem : List (Nat × TrialS)) (hc : EntryCore s sid e) (hp : Current s sid p) (h : HCur s e (p :: rem)) :
    HCur s (e.absorb1 p) rem := by
  obtain ⟨tid, t⟩ := p
  obtain ⟨hcur, hsid⟩ := hp
  simp only at hcur hsid
  intro tid3 hu
  unfold Entry.absorb1 at hu ⊢
  rw [mem_noteState_unfinished] at hu
  simp only [addTrial_unfinished, noteState_trials, addTrial_trials] at hu ⊢
  by_cases hid : tid3 = tid
  · subst hid
    right
    exact ⟨t, hcur, find_insert_same _ _ _⟩
  · have hold : tid3 ∈ e.unfinished := by
      split at hu
      · exact hu.1
      · rcases hu with h1 | h1
        · exact h1
        · exact absurd h1 hid
    rcases h tid3 hold with ⟨t3, hm⟩ | ⟨t', g1, g2⟩
    · rcases List.mem_cons.1 hm with e1 | e1
      · simp only [Prod.mk.injEq] at e1
        exact absurd e1.1 hid
      · exact Or.inl ⟨t3, e1⟩
    · right
      refine ⟨t', g1, ?_⟩
      obtain ⟨t'', k1, k2⟩ := hc.uOfStudy tid3 hold
      rw [g1] at k1
      simp only [Option.some.injEq] at k1
      subst k1
      have hnum : t'.number ≠ t.number := by
        intro hn
        exact hid (numbered_unique s hN g1 hcur (k2.trans hsid.symm) hn)
      rw [find_insert_other _ _ _ _ hnum]
      exact g2

theorem absorb_fold (s : Spec) (hN : Numbered s) (sid : Nat) (rem : List (Nat × TrialS)) (e : Entry)
    (hcur : ∀ p, p ∈ rem → Current s sid p)
    (hc : EntryCore s sid e) (hg : GCov s sid e rem) (hh : HCur s e rem) :
    EntryCore s sid (e.absorb rem) ∧ GCov s sid (e.absorb rem) [] ∧ HCur s (e.absorb rem) [] := by
  induction rem generalizing e with
  | nil => exact ⟨hc, hg, hh⟩
  | cons p r ih =>
    have hp := hcur p List.mem_cons_self
    exact ih (e.absorb1 p) (fun q hq => hcur q (List.mem_cons_of_mem _ hq))
      (core_absorb1 s sid e p hc hp) (gcov_absorb1 s hN sid e p r hp hg)
      (hcur_absorb1 s hN sid e p r hc hp hh)

/-- **sync, entry level**: absorbing a batch that consists of current records of the study and
contains every record whose id is in the unfinished set or above the watermark re-establishes the
invariant and leaves the entry equal to the backend. -/
theorem absorb_spec (s : Spec) (hN : Numbered s) (sid : Nat) (e : Entry) (l : List (Nat × TrialS))
    (h : EntryInv s sid e)
    (hcur : ∀ p, p ∈ l → Current s sid p)
    (hall : ∀ (tid : Nat) (t : TrialS), s.trials[tid]? = some t → t.study = sid →
      (tid ∈ e.unfinished ∨ ((tid : Nat) : Int) > e.watermark) → (tid, t) ∈ l) :
    EntryInv s sid (e.absorb l) ∧ AllFresh s sid (e.absorb l) := by
  have hg : GCov s sid e l := by
    intro tid t ht hs
    by_cases hw : ((tid : Nat) : Int) ≤ e.watermark
    · exact Or.inl (h.covers tid t ht hs hw)
    · exact Or.inr (hall tid t ht hs (Or.inr (by omega)))
  have hh : HCur s e l := by
    intro tid hu
    obtain ⟨t', g1, g2⟩ := h.uOfStudy tid hu
    exact Or.inl ⟨t', hall tid t' g1 g2 (Or.inl hu)⟩
  obtain ⟨c, g, hcu⟩ := absorb_fold s hN sid l e hcur h.toEntryCore hg hh
  have hcov : ∀ tid t, s.trials[tid]? = some t → t.study = sid → Covered (e.absorb l) tid t := by
    intro tid t ht hs
    rcases g tid t ht hs with h1 | h1
    · exact h1
    · simp at h1
  refine ⟨⟨c, fun tid t ht hs _ => hcov tid t ht hs⟩, ?_, ?_⟩
  · intro n tid t hf
    obtain ⟨t', k1, k2, k3, k4⟩ := c.static n tid t hf
    by_cases hu : tid ∈ (e.absorb l).unfinished
    · rcases hcu tid hu with ⟨t3, hm⟩ | ⟨t'', g1, g2⟩
      · simp at hm
      · rw [k1] at g1
        simp only [Option.some.injEq] at g1
        subst g1
        rw [k3, hf] at g2
        simp only [Option.some.injEq, Prod.mk.injEq, true_and] at g2
        subst g2
        exact ⟨k1, k2⟩
    · obtain ⟨f1, _⟩ := c.fresh n tid t hf hu
      rw [k1] at f1
      simp only [Option.some.injEq] at f1
      subst f1
      exact ⟨k1, k2⟩
  · intro tid t ht hs
    rcases hcov tid t ht hs with hu | ⟨h1, _⟩
    · rcases hcu tid hu with ⟨t3, hm⟩ | ⟨t'', g1, g2⟩
      · simp at hm
      · rw [ht] at g1
        simp only [Option.some.injEq] at g1
        subst g1
        exact g2
    · exact h1

/-! ## the two fetch filters -/

theorem mem_servicerFilter (inc : List Nat) (w : Int) (l : List (Nat × TrialS)) (x : Nat × TrialS) :
    x ∈ servicerFilter inc w l ↔ x ∈ l ∧ ((x.1 : Int) > w ∨ x.1 ∈ inc) := by
  simp [servicerFilter]

/-- **servicer_filter_eq_rdb_filter**: the comprehension in the servicer's `GetTrials` and the SQL
query built by `RDBStorage._get_trials` select the same trials, for every watermark (−1 included)
and every included-id set (empty, or holding ids above the watermark or of other studies). -/
theorem rdbFilter_eq_servicerFilter (inc : List Nat) (w : Int) (l : List (Nat × TrialS)) :
    rdbFilter inc w l = servicerFilter inc w l := by
  unfold rdbFilter servicerFilter
  simp only
  split
  · apply List.filter_congr
    intro x _
    by_cases hx : (x.1 : Int) ≤ w
    · have : ¬ ((x.1 : Int) > w) := by omega
      simp [hx, this]
    · have : (x.1 : Int) > w := by omega
      simp [this]
  · rename_i hA
    split
    · rename_i hw
      have hemp : inc.filter (fun (i : Nat) => decide ((i : Int) ≤ w)) = [] := by
        cases hh : inc.filter (fun (i : Nat) => decide ((i : Int) ≤ w)) with
        | nil => rfl
        | cons a r => exact absurd ⟨by simp [hh], hw⟩ hA
      apply List.filter_congr
      intro x _
      by_cases hx : (x.1 : Int) > w
      · simp [hx]
      · have hnot : x.1 ∉ inc := by
          intro hm
          have : x.1 ∈ inc.filter (fun (i : Nat) => decide ((i : Int) ≤ w)) := by
            simp only [List.mem_filter, decide_eq_true_eq]
            exact ⟨hm, by omega⟩
          rw [hemp] at this
          simp at this
        simp [hx, hnot]
    · rename_i hw
      symm
      rw [List.filter_eq_self]
      intro x _
      have : (x.1 : Int) > w := by
        have : (0 : Int) ≤ (x.1 : Int) := Int.natCast_nonneg _
        omega
      simp [this]

end OptunaVerif.Cache
