import OptunaVerif.Model.Conc
/-! Lock atomicity: the invariant that ties an interleaved execution to the sequential one. -/
namespace OptunaVerif.Conc
open OptunaVerif

variable {σ L ρ : Type} [DecidableEq ρ]

theorem seqRun_append (progs : List (List (Call σ L ρ))) (h : List (Nat × ρ)) (t : Nat) (r : ρ) (s : σ) :
    seqRun progs (h ++ [(t, r)]) s =
      (seqRun progs h s).bind (fun p =>
        match p.2[t]? with
        | some (c :: cs) => if (c.run p.1).2 = r then some ((c.run p.1).1, updAt p.2 t (fun _ => cs)) else none
        | _ => none) := by
  induction h generalizing progs s with
  | nil =>
    simp only [List.nil_append, seqRun, Option.bind_some]
    split <;> simp_all [seqRun]
  | cons a h ih =>
    obtain ⟨t', r'⟩ := a
    simp only [List.cons_append, seqRun]
    split
    · split
      · exact ih _ _
      · simp
    · simp

theorem map_todo_updAt_cs (ths : List (Thread σ L ρ)) (t : Nat) (x : Option (Nat × L)) :
    (updAt ths t (fun th => { th with cs := x })).map (·.todo) = ths.map (·.todo) := by
  induction ths generalizing t with
  | nil => simp [updAt]
  | cons a r ih => cases t <;> simp [updAt, ih]

theorem map_todo_updAt_set (ths : List (Thread σ L ρ)) (t : Nat) (rest : List (Call σ L ρ)) :
    (updAt ths t (fun _ => ({ todo := rest, cs := none } : Thread σ L ρ))).map (·.todo) =
      updAt (ths.map (·.todo)) t (fun _ => rest) := by
  induction ths generalizing t with
  | nil => simp [updAt]
  | cons a r ih => cases t <;> simp [updAt, ih]

/-- The invariant: the interleaved system is the sequential execution of the completed calls (in
completion order) followed by the first `k` micro-steps of the unique thread inside its critical
section, if any. -/
def Inv (s0 : σ) (progs0 : List (List (Call σ L ρ))) (sys : Sys σ L ρ) : Prop :=
  ∃ σseq, seqRun progs0 sys.hist s0 = some (σseq, sys.threads.map (·.todo)) ∧
    ((∀ (t : Nat) (th : Thread σ L ρ), sys.threads[t]? = some th → th.cs = none) → sys.shared = σseq) ∧
    (∀ (t : Nat) (th : Thread σ L ρ) (k : Nat) (l : L), sys.threads[t]? = some th → th.cs = some (k, l) →
      (∃ (c : Call σ L ρ) (rest : List (Call σ L ρ)), th.todo = c :: rest ∧ k ≤ c.n ∧
        (sys.shared, l) = c.iter k σseq) ∧
      (∀ (t' : Nat) (th' : Thread σ L ρ), t' ≠ t → sys.threads[t']? = some th' → th'.cs = none))

theorem inv_init (s0 : σ) (progs : List (List (Call σ L ρ))) : Inv s0 progs (initSys s0 progs) := by
  refine ⟨s0, ?_, fun _ => rfl, ?_⟩
  · simp [initSys, seqRun, List.map_map, Function.comp_def]
  · intro t th k l hget hcs
    simp only [initSys, List.getElem?_map] at hget
    cases hp : progs[t]? with
    | none => simp [hp] at hget
    | some p => simp [hp] at hget; subst hget; simp at hcs

theorem lockFree_iff (sys : Sys σ L ρ) :
    lockFree sys = true ↔ ∀ (t : Nat) (th : Thread σ L ρ), sys.threads[t]? = some th → th.cs = none := by
  unfold lockFree
  simp only [List.all_eq_true, Option.isNone_iff_eq_none]
  constructor
  · intro h t th hget
    exact h th (List.mem_of_getElem? hget)
  · intro h th hmem
    obtain ⟨t, ht⟩ := List.getElem?_of_mem hmem
    exact h t th ht

theorem inv_step (s0 : σ) (progs0 : List (List (Call σ L ρ))) (sys : Sys σ L ρ) (t : Nat)
    (h : Inv s0 progs0 sys) : Inv s0 progs0 (step sys t) := by
  obtain ⟨σseq, hseq, hfree, hcs⟩ := h
  unfold step
  cases hth : sys.threads[t]? with
  | none => exact ⟨σseq, hseq, hfree, hcs⟩
  | some th =>
    simp only
    cases hc : th.cs with
    | none =>
      cases htodo : th.todo with
      | nil => exact ⟨σseq, hseq, hfree, hcs⟩
      | cons c rest =>
        simp only
        by_cases hl : lockFree sys = true
        · -- acquire
          simp only [hl, if_true]
          have hall := (lockFree_iff sys).1 hl
          have hshared := hfree hall
          refine ⟨σseq, ?_, ?_, ?_⟩
          · simpa [map_todo_updAt_cs] using hseq
          · intro hnone
            have := hnone t { th with cs := some (0, c.init) } (by simp [updAt_getElem?, hth])
            simp at this
          · intro t' th' k l hget hcs'
            rw [updAt_getElem?] at hget
            by_cases ht : t' = t
            · subst ht
              simp only [if_true, hth, Option.map_some, Option.some.injEq] at hget
              subst hget
              simp only [Option.some.injEq, Prod.mk.injEq] at hcs'
              obtain ⟨hk, hl'⟩ := hcs'
              subst hk; subst hl'
              refine ⟨⟨c, rest, htodo, Nat.zero_le _, by simp [Call.iter, hshared]⟩, ?_⟩
              intro t'' th'' hne hget''
              rw [updAt_getElem?] at hget''
              simp only [hne, if_false] at hget''
              exact hall t'' th'' hget''
            · simp only [ht, if_false] at hget
              have := hall t' th' hget
              rw [this] at hcs'; simp at hcs'
        · simp only [hl]
          exact ⟨σseq, hseq, hfree, hcs⟩
    | some kl =>
      obtain ⟨k, l⟩ := kl
      cases htodo : th.todo with
      | nil => exact ⟨σseq, hseq, hfree, hcs⟩
      | cons c rest =>
        simp only
        obtain ⟨⟨c', rest', htodo', hk, hiter⟩, hothers⟩ := hcs t th k l hth hc
        rw [htodo] at htodo'
        simp only [List.cons.injEq] at htodo'
        obtain ⟨hcc, hrr⟩ := htodo'
        subst hcc; subst hrr
        by_cases hlt : k < c.n
        · -- one micro-step inside the critical section
          simp only [hlt, if_true]
          refine ⟨σseq, ?_, ?_, ?_⟩
          · simpa [map_todo_updAt_cs] using hseq
          · intro hnone
            have := hnone t { th with cs := some (k + 1, (c.micro k (sys.shared, l)).2) }
              (by simp [updAt_getElem?, hth])
            simp at this
          · intro t' th' k' l' hget hcs'
            rw [updAt_getElem?] at hget
            by_cases ht : t' = t
            · subst ht
              simp only [if_true, hth, Option.map_some, Option.some.injEq] at hget
              subst hget
              simp only [Option.some.injEq, Prod.mk.injEq] at hcs'
              obtain ⟨hk', hl'⟩ := hcs'
              subst hk'; subst hl'
              refine ⟨⟨c, rest, htodo, hlt, ?_⟩, ?_⟩
              · simp only [Call.iter, ← hiter]
              · intro t'' th'' hne hget''
                rw [updAt_getElem?] at hget''
                simp only [hne, if_false] at hget''
                exact hothers t'' th'' hne hget''
            · simp only [ht, if_false] at hget
              have := hothers t' th' ht hget
              rw [this] at hcs'; simp at hcs'
        · -- release: the call completes
          simp only [hlt, if_false]
          have hkn : k = c.n := by omega
          subst hkn
          have hrun : c.run σseq = (sys.shared, c.result l) := by
            simp only [Call.run, ← hiter]
          have hall : ∀ (t' : Nat) (th' : Thread σ L ρ), (updAt sys.threads t (fun _ => ({ todo := rest, cs := none } : Thread σ L ρ)))[t']? = some th' →
              th'.cs = none := by
            intro t' th' hget
            rw [updAt_getElem?] at hget
            by_cases ht : t' = t
            · subst ht
              simp only [if_true, hth, Option.map_some, Option.some.injEq] at hget
              subst hget; rfl
            · simp only [ht, if_false] at hget
              exact hothers t' th' ht hget
          refine ⟨sys.shared, ?_, fun _ => rfl, ?_⟩
          · rw [seqRun_append, hseq]
            simp only [Option.bind_some, List.getElem?_map, hth, Option.map_some, htodo, hrun, if_true,
              map_todo_updAt_set]
          · intro t' th' k' l' hget hcs'
            have := hall t' th' hget
            rw [this] at hcs'; simp at hcs'

end OptunaVerif.Conc
