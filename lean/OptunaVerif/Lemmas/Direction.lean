import OptunaVerif.Model.Direction
import Mathlib.Tactic.Linarith
import Mathlib.Tactic.Ring
import Mathlib.Algebra.Order.Field.Rat
import Mathlib.Data.Rat.Floor
/-! Helper lemmas for C13: negation against min/max, stable sorting, linear-interpolation percentile,
signed ranks. -/
namespace OptunaVerif.Direction

/-! ### negation, min / max -/

@[simp] theorem negV_negV (v : V) : negV (negV v) = v := by
  cases v <;> simp [negV]

@[simp] theorem negL_negL (l : List Rat) : negL (negL l) = l := by
  simp [negL, List.map_map]

@[simp] theorem negL_length (l : List Rat) : (negL l).length = l.length := by simp [negL]

@[simp] theorem negVL_negVL (l : List V) : negVL (negVL l) = l := by
  simp [negVL, List.map_map, Function.comp_def]

theorem rmax_eq_neg_rmin (a b : Rat) : rmax a b = -rmin (-a) (-b) := by
  unfold rmax rmin
  by_cases h : a ≤ b
  · by_cases h' : -a ≤ -b
    · have : a = b := le_antisymm h (by linarith)
      simp [this]
    · simp [h, h']
  · have h' : -a ≤ -b := by linarith [not_le.mp h]
    simp [h, h']

theorem maxL_eq_neg_minL (l : List Rat) : maxL l = (minL (negL l)).map (fun x => -x) := by
  induction l with
  | nil => simp [maxL, minL, negL]
  | cons x t ih =>
    simp only [maxL, negL, List.map_cons, minL] at *
    rw [ih]
    cases h : minL (List.map (fun x => -x) t) with
    | none => simp
    | some m => simp [rmax_eq_neg_rmin]

theorem finite_negVL (l : List V) : finite (negVL l) = negL (finite l) := by
  induction l with
  | nil => rfl
  | cons v t ih =>
    cases v with
    | none => simpa [negVL, negV, finite, negL] using ih
    | some q => simpa [negVL, negV, finite, negL] using ih

theorem nanmax_eq (l : List V) : nanmax l = negV (nanmin (negVL l)) := by
  unfold nanmax nanmin
  rw [finite_negVL, maxL_eq_neg_minL]
  cases minL (negL (finite l)) <;> simp [negV]

theorem nanmin_eq (l : List V) : nanmin l = negV (nanmax (negVL l)) := by
  rw [nanmax_eq, negVL_negVL, negV_negV]

/-! ### stable insertion sort -/

section sort
variable {α : Type}

theorem insertBy_perm (le : α → α → Bool) (x : α) (l : List α) : (insertBy le x l).Perm (x :: l) := by
  induction l with
  | nil => simp [insertBy]
  | cons y t ih =>
    unfold insertBy
    split
    · exact List.Perm.refl _
    · exact (List.Perm.cons y ih).trans (List.Perm.swap x y t)

theorem sortBy_perm (le : α → α → Bool) (l : List α) : (sortBy le l).Perm l := by
  induction l with
  | nil => exact List.Perm.refl _
  | cons x t ih => exact (insertBy_perm le x _).trans (List.Perm.cons x ih)

@[simp] theorem sortBy_length (le : α → α → Bool) (l : List α) : (sortBy le l).length = l.length :=
  (sortBy_perm le l).length_eq

theorem insertBy_pairwise (le : α → α → Bool)
    (htrans : ∀ a b c, le a b = true → le b c = true → le a c = true)
    (htotal : ∀ a b, le a b = true ∨ le b a = true)
    (x : α) (l : List α) (h : l.Pairwise (fun a b => le a b = true)) :
    (insertBy le x l).Pairwise (fun a b => le a b = true) := by
  induction l with
  | nil => simp [insertBy]
  | cons y t ih =>
    unfold insertBy
    have hy := List.pairwise_cons.mp h
    split
    · rename_i hxy
      refine List.pairwise_cons.mpr ⟨?_, h⟩
      intro z hz
      rcases List.mem_cons.mp hz with rfl | hz
      · exact hxy
      · exact htrans _ _ _ hxy (hy.1 z hz)
    · rename_i hxy
      have hyx : le y x = true := by
        rcases htotal x y with h1 | h1
        · exact absurd h1 hxy
        · exact h1
      refine List.pairwise_cons.mpr ⟨?_, ih hy.2⟩
      intro z hz
      have := (insertBy_perm le x t).subset hz
      rcases List.mem_cons.mp this with rfl | hz'
      · exact hyx
      · exact hy.1 z hz'

theorem sortBy_pairwise (le : α → α → Bool)
    (htrans : ∀ a b c, le a b = true → le b c = true → le a c = true)
    (htotal : ∀ a b, le a b = true ∨ le b a = true) (l : List α) :
    (sortBy le l).Pairwise (fun a b => le a b = true) := by
  induction l with
  | nil => simp [sortBy]
  | cons x t ih => exact insertBy_pairwise le htrans htotal x _ ih

/-- Sorting commutes with an injective-or-not relabelling when the comparison is pulled back. -/
theorem insertBy_map {β : Type} (le : β → β → Bool) (f : α → β) (x : α) (l : List α) :
    insertBy le (f x) (l.map f) = (insertBy (fun a b => le (f a) (f b)) x l).map f := by
  induction l with
  | nil => simp [insertBy]
  | cons y t ih =>
    simp only [List.map_cons, insertBy]
    split <;> simp [ih]

theorem sortBy_map {β : Type} (le : β → β → Bool) (f : α → β) (l : List α) :
    sortBy le (l.map f) = (sortBy (fun a b => le (f a) (f b)) l).map f := by
  induction l with
  | nil => simp [sortBy]
  | cons x t ih => simp only [List.map_cons, sortBy, ih, insertBy_map]

end sort

theorem leR_trans (a b c : Rat) : leR a b = true → leR b c = true → leR a c = true := by
  simp only [leR, decide_eq_true_eq]; exact le_trans

theorem leR_total (a b : Rat) : leR a b = true ∨ leR b a = true := by
  simp only [leR, decide_eq_true_eq]; exact le_total a b

theorem sortR_pairwise (l : List Rat) : (sortR l).Pairwise (· ≤ ·) := by
  have := sortBy_pairwise leR leR_trans leR_total l
  simp only [leR, decide_eq_true_eq] at this
  exact this

@[simp] theorem sortR_length (l : List Rat) : (sortR l).length = l.length := sortBy_length _ _

/-- Sorting the negated list gives the reversed, negated sorted list. -/
theorem sortR_negL (l : List Rat) : sortR (negL l) = negL (sortR l).reverse := by
  apply List.Perm.eq_of_pairwise (le := (· ≤ ·))
  · intro a b _ _ h1 h2; exact le_antisymm h1 h2
  · exact sortR_pairwise _
  · -- reverse of ascending, negated, is ascending
    unfold negL
    rw [List.pairwise_map, List.pairwise_reverse]
    exact (sortR_pairwise l).imp (fun {a b} h => by linarith)
  · unfold negL
    exact (sortBy_perm _ _).trans (((List.reverse_perm _).trans (sortBy_perm _ l)).map _).symm

theorem getD_negL_reverse (s : List Rat) (i : Nat) (hi : i < s.length) :
    (negL s.reverse).getD i 0 = -(s.getD (s.length - 1 - i) 0) := by
  unfold negL
  have h2 : s.length - 1 - i < s.length := by omega
  rw [List.getD_eq_getElem?_getD, List.getD_eq_getElem?_getD, List.getElem?_map,
    List.getElem?_reverse hi, List.getElem?_eq_getElem h2]
  simp

/-! ### percentile (numpy `linear`) -/

theorem floor_toNat_spec (h : Rat) (h0 : 0 ≤ h) :
    ((h.floor.toNat : Nat) : Rat) ≤ h ∧ h < (h.floor.toNat : Rat) + 1 := by
  have hf : (0 : Int) ≤ h.floor := Rat.le_floor_iff.mpr (by simpa using h0)
  have hcast : ((h.floor.toNat : Nat) : Rat) = ((h.floor : Int) : Rat) := by
    have : ((h.floor.toNat : Nat) : Int) = h.floor := Int.toNat_of_nonneg hf
    exact_mod_cast congrArg (fun z : Int => (z : Rat)) this
  rw [hcast]
  refine ⟨Rat.floor_le h, ?_⟩
  have := Rat.lt_floor_add_one h
  push_cast at this
  exact this

theorem floor_toNat_eq (h : Rat) (k : Nat) (h1 : (k : Rat) ≤ h) (h2 : h < (k : Rat) + 1) :
    h.floor.toNat = k := by
  have hk : h.floor = (k : Int) := by
    have : ⌊h⌋ = (k : Int) := by
      rw [Int.floor_eq_iff]
      exact ⟨by exact_mod_cast h1, by exact_mod_cast h2⟩
    exact this
  rw [hk]; simp

/-- Mirror law of the interpolated percentile on a sorted list. -/
theorem percLin_mirror (s : List Rat) (q : Rat) (hs : s ≠ []) (hq0 : 0 ≤ q) (hq1 : q ≤ 100) :
    percLin s (100 - q) = -percLin (negL s.reverse) q := by
  have hn : 0 < s.length := List.length_pos_iff.mpr hs
  obtain ⟨m, hm⟩ : ∃ m, s.length = m + 1 := ⟨s.length - 1, by omega⟩
  have hlen : (negL s.reverse).length = m + 1 := by simp [hm]
  -- virtual indices
  set h : Rat := q / 100 * ((m : Rat)) with hh
  have hm0 : (0 : Rat) ≤ (m : Rat) := by exact_mod_cast Nat.zero_le m
  have hh0 : 0 ≤ h := by
    have : 0 ≤ q / 100 := by linarith
    exact mul_nonneg this hm0
  have hhm : h ≤ (m : Rat) := by
    have : q / 100 ≤ 1 := by linarith
    calc h = q / 100 * (m : Rat) := rfl
      _ ≤ 1 * (m : Rat) := mul_le_mul_of_nonneg_right this hm0
      _ = (m : Rat) := one_mul _
  have hh' : (100 - q) / 100 * ((m : Rat)) = (m : Rat) - h := by rw [hh]; ring
  obtain ⟨hk1, hk2⟩ := floor_toNat_spec h hh0
  set k : Nat := h.floor.toNat with hk
  have hkm : k ≤ m := by
    have : (k : Rat) ≤ (m : Rat) := le_trans hk1 hhm
    exact_mod_cast this
  -- unfold both sides
  have hL : percLin s (100 - q) =
      (let h' := (m : Rat) - h
       let k' := h'.floor.toNat
       s.getD k' 0 + (s.getD (min (k' + 1) m) 0 - s.getD k' 0) * (h' - (k' : Rat))) := by
    unfold percLin
    simp only [hm, Nat.cast_add, Nat.cast_one, add_sub_cancel_right, Nat.add_sub_cancel, hh']
  have hR : percLin (negL s.reverse) q =
      (negL s.reverse).getD k 0 + ((negL s.reverse).getD (min (k + 1) m) 0 - (negL s.reverse).getD k 0) * (h - (k : Rat)) := by
    unfold percLin
    simp only [hlen, Nat.cast_add, Nat.cast_one, add_sub_cancel_right, Nat.add_sub_cancel, ← hh, ← hk]
  rw [hL, hR]
  by_cases hint : h = (k : Rat)
  · -- integral virtual index: γ = 0 on both sides
    have hk' : ((m : Rat) - h).floor.toNat = m - k := by
      apply floor_toNat_eq
      · rw [hint]; push_cast [Nat.cast_sub hkm]; linarith
      · rw [hint]; push_cast [Nat.cast_sub hkm]; linarith
    simp only [hk']
    rw [getD_negL_reverse s k (by omega)]
    have e1 : ((m : Rat) - h - ((m - k : Nat) : Rat)) = 0 := by
      rw [hint]; push_cast [Nat.cast_sub hkm]; ring
    have e2 : h - (k : Rat) = 0 := by rw [hint]; ring
    rw [e1, e2, hm]
    simp
  · have hlt : (k : Rat) < h := lt_of_le_of_ne hk1 (Ne.symm hint)
    have hkm1 : k + 1 ≤ m := by
      have : (k : Rat) < (m : Rat) := lt_of_lt_of_le hlt hhm
      have : k < m := by exact_mod_cast this
      omega
    have hk' : ((m : Rat) - h).floor.toNat = m - 1 - k := by
      apply floor_toNat_eq
      · have : ((m - 1 - k : Nat) : Rat) = (m : Rat) - 1 - (k : Rat) := by
          have h1 : 1 ≤ m := by omega
          have h2 : k ≤ m - 1 := by omega
          push_cast [Nat.cast_sub h2, Nat.cast_sub h1]; ring
        rw [this]; linarith
      · have : ((m - 1 - k : Nat) : Rat) = (m : Rat) - 1 - (k : Rat) := by
          have h1 : 1 ≤ m := by omega
          have h2 : k ≤ m - 1 := by omega
          push_cast [Nat.cast_sub h2, Nat.cast_sub h1]; ring
        rw [this]; linarith
    simp only [hk']
    have hmin1 : min (m - 1 - k + 1) m = m - k := by omega
    have hmin2 : min (k + 1) m = k + 1 := by omega
    rw [hmin1, hmin2, getD_negL_reverse s k (by omega), getD_negL_reverse s (k + 1) (by omega), hm]
    have i1 : m + 1 - 1 - k = m - k := by omega
    have i2 : m + 1 - 1 - (k + 1) = m - 1 - k := by omega
    rw [i1, i2]
    have hc : ((m - 1 - k : Nat) : Rat) = (m : Rat) - 1 - (k : Rat) := by
      have h1 : 1 ≤ m := by omega
      have h2 : k ≤ m - 1 := by omega
      push_cast [Nat.cast_sub h2, Nat.cast_sub h1]; ring
    rw [hc]
    ring

/-! ### signed ranks -/

@[simp] theorem absR_neg (x : Rat) : absR (-x) = absR x := by
  unfold absR
  by_cases h : 0 ≤ x
  · by_cases h' : 0 ≤ -x
    · have : x = 0 := le_antisymm (by linarith) h
      simp [this]
    · simp [h, h']
  · have h' : 0 ≤ -x := by linarith [not_le.mp h]
    simp [h, h']

theorem countP_negL (p : Rat → Bool) (l : List Rat) : countP p (negL l) = countP (fun y => p (-y)) l := by
  induction l with
  | nil => rfl
  | cons x t ih => simp only [negL, List.map_cons, countP] at *; rw [ih]

@[simp] theorem midrank_neg (d : List Rat) (x : Rat) : midrank (negL d) (-x) = midrank d x := by
  unfold midrank
  simp [countP_negL]

theorem sumBy_negL (f : Rat → Rat) (l : List Rat) : sumBy f (negL l) = sumBy (fun y => f (-y)) l := by
  induction l with
  | nil => rfl
  | cons x t ih => simp only [negL, List.map_cons, sumBy] at *; rw [ih]

theorem sumBy_congr (f g : Rat → Rat) (l : List Rat) (h : ∀ x, f x = g x) : sumBy f l = sumBy g l := by
  induction l with
  | nil => rfl
  | cons x t ih => simp [sumBy, h, ih]

theorem rPlus_negL (d : List Rat) : rPlus (negL d) = rMinus d := by
  unfold rPlus rMinus
  rw [sumBy_negL]
  apply sumBy_congr
  intro x
  simp only [midrank_neg, neg_pos, neg_eq_zero]

theorem rMinus_negL (d : List Rat) : rMinus (negL d) = rPlus d := by
  have := rPlus_negL (negL d)
  rw [negL_negL] at this
  exact this.symm

theorem sumL_negL (l : List Rat) : sumL (negL l) = -sumL l := by
  induction l with
  | nil => simp [sumL, sumBy, negL]
  | cons x t ih =>
    simp only [sumL, negL, List.map_cons, sumBy] at *
    rw [ih]; ring

theorem mean_negL (l : List Rat) : mean (negL l) = -mean l := by
  unfold mean
  rw [sumL_negL, negL_length]; ring

end OptunaVerif.Direction
