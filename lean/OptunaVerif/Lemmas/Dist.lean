import Mathlib.Tactic.Linarith
import Mathlib.Tactic.Ring
import Mathlib.Tactic.FieldSimp
import Mathlib.Algebra.Order.Field.Rat
import Mathlib.Data.Rat.Floor
import Mathlib.Data.List.Forall2
import OptunaVerif.Model.Dist
/-!
Helper lemmas for `Model/Dist.lean`: rounding, truncation, clipping, the rational modulo, the
generated integer high adjustment, list plumbing of the transform.
-/
namespace OptunaVerif.Dist
open OptunaVerif.Generated

/-! ## floor / round / trunc / clip -/

theorem floor_eq (q : Rat) : q.floor = ⌊q⌋ := rfl

theorem rat_abs_eq (q : Rat) : Rat.abs q = |q| := by
  unfold Rat.abs
  split
  · rw [abs_of_nonneg]; assumption
  · rw [abs_of_neg]; linarith

theorem roundHE_intCast (n : Int) : roundHE (n : Rat) = n := by
  unfold roundHE
  simp only [Rat.floor_intCast, sub_self]
  norm_num

theorem truncI_intCast (n : Int) : truncI (n : Rat) = n := by
  unfold truncI
  split
  · exact Rat.floor_intCast n
  · have : (-(n : Rat)) = ((-n : Int) : Rat) := by push_cast; ring
    rw [this, Rat.floor_intCast]; omega

/-- `np.round` moves a number by at most one half. -/
theorem roundHE_near (q : Rat) : |q - (roundHE q : Rat)| ≤ 1 / 2 := by
  have h1 : ((q.floor : Int) : Rat) ≤ q := Rat.floor_le q
  have h2 : q < ((q.floor : Int) : Rat) + 1 := by
    have := Rat.lt_floor_add_one q; push_cast at this; exact this
  unfold roundHE
  simp only
  split
  · rename_i h; rw [abs_le]; constructor <;> linarith
  · split
    · rename_i h h'; push_cast; rw [abs_le]; constructor <;> linarith
    · rename_i h h'
      have he : q - (q.floor : Rat) = 1 / 2 := le_antisymm (not_lt.mp h') (not_lt.mp h)
      split
      · rw [abs_le]; constructor <;> linarith
      · push_cast; rw [abs_le]; constructor <;> linarith

theorem roundHE_mono_le {q : Rat} {n : Int} (h : q ≤ (n : Rat)) : roundHE q ≤ n := by
  have hn := roundHE_near q
  rw [abs_le] at hn
  by_contra hc
  have : n + 1 ≤ roundHE q := by omega
  have h3 : ((n : Rat) + 1) ≤ (roundHE q : Rat) := by exact_mod_cast this
  -- q ≤ n and roundHE q ≥ n + 1 means the distance is ≥ 1
  linarith [hn.1]

theorem roundHE_mono_ge {q : Rat} {n : Int} (h : (n : Rat) ≤ q) : n ≤ roundHE q := by
  have hn := roundHE_near q
  rw [abs_le] at hn
  by_contra hc
  have : roundHE q + 1 ≤ n := by omega
  have h3 : (roundHE q : Rat) + 1 ≤ (n : Rat) := by exact_mod_cast this
  linarith [hn.2]

theorem clip_mem {x lo hi : Rat} (h : lo ≤ hi) : lo ≤ clip x lo hi ∧ clip x lo hi ≤ hi := by
  unfold clip
  refine ⟨le_min (le_max_right _ _) h, min_le_right _ _⟩

theorem clip_id {x lo hi : Rat} (h1 : lo ≤ x) (h2 : x ≤ hi) : clip x lo hi = x := by
  unfold clip
  rw [max_eq_left h1, min_eq_left h2]

theorem clip_cases (x lo hi : Rat) (h : lo ≤ hi) :
    (clip x lo hi = x ∧ lo ≤ x ∧ x ≤ hi) ∨ (clip x lo hi = lo ∧ x < lo) ∨ (clip x lo hi = hi ∧ hi < x) := by
  unfold clip
  rcases le_or_gt lo x with h1 | h1
  · rcases le_or_gt x hi with h2 | h2
    · left; rw [max_eq_left h1, min_eq_left h2]; exact ⟨rfl, h1, h2⟩
    · right; right; rw [max_eq_left h1, min_eq_right (le_of_lt h2)]; exact ⟨rfl, h2⟩
  · right; left; rw [max_eq_right (le_of_lt h1), min_eq_left h]; exact ⟨rfl, h1⟩

/-! ## the rational modulo -/

theorem ratMod_eq_zero_iff {a b : Rat} (hb : b ≠ 0) : ratMod a b = 0 ↔ ∃ k : Int, a = (k : Rat) * b := by
  unfold ratMod
  constructor
  · intro h
    exact ⟨(a / b).floor, by linarith⟩
  · rintro ⟨k, hk⟩
    have : a / b = (k : Rat) := by rw [hk]; field_simp
    rw [this, Rat.floor_intCast, hk]; ring

theorem ratMod_nonneg {a b : Rat} (hb : 0 < b) : 0 ≤ ratMod a b := by
  unfold ratMod
  have h1 : ((a / b).floor : Rat) ≤ a / b := Rat.floor_le _
  have : ((a / b).floor : Rat) * b ≤ a / b * b := mul_le_mul_of_nonneg_right h1 (le_of_lt hb)
  have h2 : a / b * b = a := by field_simp
  linarith

theorem ratMod_lt {a b : Rat} (hb : 0 < b) : ratMod a b < b := by
  unfold ratMod
  have h1 : a / b < ((a / b).floor : Rat) + 1 := by
    have := Rat.lt_floor_add_one (a / b); push_cast at this; exact this
  have : a / b * b < (((a / b).floor : Rat) + 1) * b := mul_lt_mul_of_pos_right h1 hb
  have h2 : a / b * b = a := by field_simp
  linarith

/-! ## lists -/

theorem firstIdx_some {α : Type} (p : α → Bool) (l : List α) (i : Nat) (h : firstIdx p l = some i) :
    ∃ a, l[i]? = some a ∧ p a = true ∧ ∀ j, j < i → ∀ b, l[j]? = some b → p b = false := by
  induction l generalizing i with
  | nil => simp [firstIdx] at h
  | cons a t ih =>
    unfold firstIdx at h
    split at h
    · rename_i hp
      have : i = 0 := by simpa using h.symm
      subst this
      exact ⟨a, by simp, hp, by intro j hj; omega⟩
    · rename_i hp
      cases hf : firstIdx p t with
      | none => simp [hf] at h
      | some k =>
        simp [hf] at h
        subst h
        obtain ⟨b, hb, hpb, hmin⟩ := ih k hf
        refine ⟨b, by simpa using hb, hpb, ?_⟩
        intro j hj c hc
        cases j with
        | zero => simp at hc; subst hc; simpa using hp
        | succ j => exact hmin j (by omega) c (by simpa using hc)

theorem firstIdx_of_mem {α : Type} (p : α → Bool) (l : List α) (i : Nat) (a : α)
    (h : l[i]? = some a) (hp : p a = true) : ∃ j, firstIdx p l = some j ∧ j ≤ i := by
  induction l generalizing i with
  | nil => simp at h
  | cons b t ih =>
    unfold firstIdx
    split
    · exact ⟨0, rfl, Nat.zero_le _⟩
    · rename_i hb
      cases i with
      | zero => simp at h; subst h; exact absurd hp hb
      | succ i =>
        obtain ⟨j, hj, hle⟩ := ih i (by simpa using h)
        exact ⟨j + 1, by simp [hj], by omega⟩

end OptunaVerif.Dist

namespace OptunaVerif.Dist
open OptunaVerif.Generated

/-! ## well-formed distributions = what the constructors produce -/

def FClsOK : FCls → Bool → Option Rat → Prop
  | .float, _, _ => True
  | .uniform, log, step => log = false ∧ step = none
  | .logUniform, log, step => log = true ∧ step = none
  | .discreteUniform, log, step => log = false ∧ step ≠ none

def IClsOK : ICls → Bool → Prop
  | .int, _ => True
  | .intUniform, log => log = false
  | .intLogUniform, log => log = true

/-- The class invariant established by `__init__` (and by nothing else: attributes are not
re-validated on assignment in Python, which is outside this model). -/
def WF : Dist → Prop
  | .flt c low high log step =>
    low ≤ high ∧ (log = true → 0 < low ∧ step = none) ∧
    (∀ s, step = some s → 0 < s ∧ ∃ k : Int, 0 ≤ k ∧ high - low = (k : Rat) * s) ∧ FClsOK c log step
  | .int c low high log step =>
    low ≤ high ∧ (log = true → 1 ≤ low ∧ step = 1) ∧ 0 < step ∧ (high - low) % step = 0 ∧ IClsOK c log
  | .cat cs => cs ≠ []

theorem adjustDiscrete_fix (low X step : Rat) (h : ratMod (X - low) step = 0) :
    adjustDiscreteHigh low X step = X := by
  unfold adjustDiscreteHigh
  simp [h]

theorem adjustDiscrete_grid (low high step : Rat) (hs : 0 < step) (hl : low ≤ high) :
    low ≤ adjustDiscreteHigh low high step ∧
    ∃ k : Int, 0 ≤ k ∧ adjustDiscreteHigh low high step - low = (k : Rat) * step := by
  have hne : step ≠ 0 := ne_of_gt hs
  have hr : 0 ≤ high - low := by linarith
  have hfl : (0 : Int) ≤ ((high - low) / step).floor :=
    Rat.le_floor_iff.mpr (by simpa using div_nonneg hr (le_of_lt hs))
  have hflq : (0 : Rat) ≤ (((high - low) / step).floor : Rat) := by exact_mod_cast hfl
  unfold adjustDiscreteHigh
  by_cases h0 : ratMod (high - low) step = 0
  · simp only [h0, ne_eq, not_true_eq_false, if_false]
    obtain ⟨k, hk⟩ := (ratMod_eq_zero_iff hne).mp h0
    have hk0 : 0 ≤ k := by
      by_contra hc
      have hk1 : k ≤ -1 := by omega
      have : (k : Rat) ≤ -1 := by exact_mod_cast hk1
      nlinarith
    exact ⟨hl, k, hk0, hk⟩
  · simp only [h0, ne_eq, not_false_eq_true, if_true]
    exact ⟨by nlinarith, _, hfl, by ring⟩

theorem mkFlt_wf (c : FCls) (low high : Rat) (log : Bool) (step : Option Rat) (d : Dist)
    (hc : FClsOK c log step) (h : mkFlt c low high log step = .ok d) : WF d := by
  unfold mkFlt at h
  split at h
  · simp at h
  · rename_i h1
    split at h
    · simp at h
    · rename_i h2
      split at h
      · simp at h
      · rename_i h3
        have hl : low ≤ high := not_lt.mp h2
        cases step with
        | none =>
          simp only [Except.ok.injEq] at h
          subst h
          refine ⟨hl, ?_, by simp, hc⟩
          intro hlog; subst hlog
          simp at h3
          exact ⟨h3, rfl⟩
        | some s =>
          simp only at h
          split at h
          · simp at h
          · rename_i h4
            simp only [Except.ok.injEq] at h
            subst h
            have hs : 0 < s := not_le.mp h4
            have hlog : log = false := by
              cases log with
              | false => rfl
              | true => simp at h1
            obtain ⟨g1, k, hk0, hk⟩ := adjustDiscrete_grid low high s hs hl
            refine ⟨g1, by simp [hlog], ?_, hc⟩
            intro s' hs'
            simp only [Option.some.injEq] at hs'
            subst hs'
            exact ⟨hs, k, hk0, hk⟩

theorem mkFlt_of_wf (c : FCls) (low high : Rat) (log : Bool) (step : Option Rat)
    (h : WF (.flt c low high log step)) : mkFlt c low high log step = .ok (.flt c low high log step) := by
  obtain ⟨hl, hlog, hstep, _⟩ := h
  unfold mkFlt
  have h1 : (log && step.isSome) = false := by
    cases log with
    | false => simp
    | true => simp [(hlog rfl).2]
  have h2 : ¬ high < low := not_lt.mpr hl
  have h3 : (log && decide (low ≤ 0)) = false := by
    cases log with
    | false => simp
    | true => simp [(hlog rfl).1]
  simp only [h1, h2, h3, Bool.false_eq_true, if_false]
  cases step with
  | none => rfl
  | some s =>
    obtain ⟨hs, k, _, hk⟩ := hstep s rfl
    have : ¬ s ≤ 0 := not_le.mpr hs
    simp only [this, if_false]
    rw [adjustDiscrete_fix low high s ((ratMod_eq_zero_iff (ne_of_gt hs)).mpr ⟨k, hk⟩)]

theorem adjustInt_eq' (low high step : Int) (hs : 0 < step) :
    DistInt.adjustIntUniformHigh low high step =
      if (high - low) % step = 0 then high else (high - low) / step * step + low := by
  have hfm : ∀ a : Int, a.fmod step = a % step := fun a => Int.fmod_eq_emod_of_nonneg a (le_of_lt hs)
  have hfd : ∀ a : Int, a.fdiv step = a / step := fun a => Int.fdiv_eq_ediv_of_nonneg a (le_of_lt hs)
  simp only [DistInt.adjustIntUniformHigh, hfm, hfd]
  by_cases h0 : (high - low) % step = 0 <;> simp [h0]

theorem adjustInt_grid (low high step : Int) (hs : 0 < step) (hl : low ≤ high) :
    low ≤ DistInt.adjustIntUniformHigh low high step ∧
    (DistInt.adjustIntUniformHigh low high step - low) % step = 0 := by
  rw [adjustInt_eq' low high step hs]
  have hq : 0 ≤ (high - low) / step := Int.ediv_nonneg (by omega) (le_of_lt hs)
  have hqs : 0 ≤ (high - low) / step * step := Int.mul_nonneg hq (le_of_lt hs)
  by_cases h0 : (high - low) % step = 0
  · rw [if_pos h0]; exact ⟨hl, h0⟩
  · rw [if_neg h0]
    refine ⟨by omega, ?_⟩
    have : (high - low) / step * step + low - low = (high - low) / step * step := by omega
    rw [this]; exact Int.mul_emod_left _ _

theorem mkInt_wf (c : ICls) (low high : Int) (log : Bool) (step : Int) (d : Dist)
    (hc : IClsOK c log) (h : mkInt c low high log step = .ok d) : WF d := by
  unfold mkInt at h
  split at h
  · simp at h
  · rename_i h1
    split at h
    · simp at h
    · rename_i h2
      split at h
      · simp at h
      · rename_i h3
        split at h
        · simp at h
        · rename_i h4
          simp only [Except.ok.injEq] at h
          subst h
          have hs : 0 < step := by omega
          have hl : low ≤ high := by omega
          obtain ⟨g1, g2⟩ := adjustInt_grid low high step hs hl
          refine ⟨g1, ?_, hs, g2, hc⟩
          intro hlog; subst hlog
          simp at h1 h3
          exact ⟨by omega, h1⟩

theorem mkInt_of_wf (c : ICls) (low high : Int) (log : Bool) (step : Int)
    (h : WF (.int c low high log step)) : mkInt c low high log step = .ok (.int c low high log step) := by
  obtain ⟨hl, hlog, hs, hg, _⟩ := h
  unfold mkInt
  have h1 : (log && step != 1) = false := by
    cases log with
    | false => simp
    | true => simp [(hlog rfl).2]
  have h2 : ¬ high < low := by omega
  have h3 : (log && decide (low < 1)) = false := by
    cases log with
    | false => simp
    | true => have := (hlog rfl).1; simp; omega
  have h4 : ¬ step ≤ 0 := by omega
  simp only [h1, h2, h3, h4, Bool.false_eq_true, if_false]
  rw [adjustInt_eq' low high step hs, if_pos hg]

theorem mkCat_wf (cs : List Tok) (d : Dist) (h : mkCat cs = .ok d) : WF d := by
  unfold mkCat at h
  split at h
  · simp at h
  · rename_i h1
    simp only [Except.ok.injEq] at h
    subst h
    intro hc; subst hc; simp at h1

theorem mkCat_of_wf (cs : List Tok) (h : WF (.cat cs)) : mkCat cs = .ok (.cat cs) := by
  unfold mkCat
  cases cs with
  | nil => exact absurd rfl h
  | cons a t => simp

/-! ## argmax / one-hot / 0-1 scaling -/

theorem argmaxAux_range (t : List Rat) (i : Nat) (m : Rat) (best : Nat) :
    argmaxAux t i m best = best ∨ (i ≤ argmaxAux t i m best ∧ argmaxAux t i m best < i + t.length) := by
  induction t generalizing i m best with
  | nil => left; rfl
  | cons x t ih =>
    unfold argmaxAux
    split
    · rcases ih (i + 1) x i with h | h
      · right; rw [h]; simp
      · right; simp only [List.length_cons]; omega
    · rcases ih (i + 1) m best with h | h
      · left; exact h
      · right; simp only [List.length_cons]; omega

theorem argmax_lt (l : List Rat) (h : l ≠ []) : argmax l < l.length := by
  cases l with
  | nil => exact absurd rfl h
  | cons x t =>
    show argmaxAux t 1 x 0 < (x :: t).length
    rcases argmaxAux_range t 1 x 0 with h | h
    · rw [h]; simp
    · simp only [List.length_cons]; omega

theorem argmaxAux_zeros (k : Nat) (t : List Rat) (j : Nat) (m : Rat) (best : Nat) (hm : 0 ≤ m) :
    argmaxAux (List.replicate k 0 ++ t) j m best = argmaxAux t (j + k) m best := by
  induction k generalizing j with
  | zero => simp
  | succ k ih =>
    simp only [List.replicate_succ, List.cons_append]
    rw [argmaxAux, if_neg (not_lt.mpr hm), ih]
    congr 1; omega

theorem argmaxAux_zeros_end (k : Nat) (j : Nat) (m : Rat) (best : Nat) (hm : 0 ≤ m) :
    argmaxAux (List.replicate k 0) j m best = best := by
  have := argmaxAux_zeros k [] j m best hm
  simpa [argmaxAux] using this

theorem oneHot_eq (n i : Nat) (h : i < n) :
    oneHot n i = List.replicate i 0 ++ (1 : Rat) :: List.replicate (n - i - 1) 0 := by
  apply List.ext_getElem
  · simp [oneHot]; omega
  · intro j h1 h2
    simp only [oneHot, List.getElem_map, List.getElem_range]
    rcases Nat.lt_trichotomy j i with hj | hj | hj
    · rw [List.getElem_append_left (by simpa using hj)]
      simp [Nat.ne_of_lt hj]
    · subst hj
      rw [List.getElem_append_right (by simp)]
      simp
    · rw [List.getElem_append_right (by simp; omega)]
      have : j - (List.replicate i (0 : Rat)).length = (j - i - 1) + 1 := by simp; omega
      simp only [this, List.getElem_cons_succ, List.getElem_replicate]
      simp [Nat.ne_of_gt hj]

theorem argmax_oneHot (n i : Nat) (h : i < n) : argmax (oneHot n i) = i := by
  rw [oneHot_eq n i h]
  cases i with
  | zero =>
    simp only [List.replicate_zero, List.nil_append]
    show argmaxAux _ 1 1 0 = 0
    exact argmaxAux_zeros_end _ _ _ _ (by norm_num)
  | succ i =>
    simp only [List.replicate_succ, List.cons_append]
    show argmaxAux _ 1 0 0 = i + 1
    rw [argmaxAux_zeros i _ 1 0 0 (le_refl _), argmaxAux, if_pos (by norm_num),
      argmaxAux_zeros_end _ _ _ _ (by norm_num)]
    omega

theorem oneHot_length (n i : Nat) : (oneHot n i).length = n := by simp [oneHot]

/-- `x` lies within the bound pair -/
def InB (b : Rat × Rat) (x : Rat) : Prop := b.1 ≤ x ∧ x ≤ b.2

theorem unscale_scale (b : Rat × Rat) (x : Rat) (h : InB b x) : unscale01 b (scale01 b x) = x := by
  unfold unscale01 scale01
  obtain ⟨h1, h2⟩ := h
  split
  · rename_i he
    have hx : x = b.1 := le_antisymm (he ▸ h2) h1
    rw [hx, ← he]; ring
  · rename_i he
    have : b.2 - b.1 ≠ 0 := sub_ne_zero.mpr (Ne.symm he)
    field_simp
    ring

theorem scale_in01 (b : Rat × Rat) (x : Rat) (h : InB b x) : 0 ≤ scale01 b x ∧ scale01 b x ≤ 1 := by
  unfold scale01
  obtain ⟨h1, h2⟩ := h
  split
  · norm_num
  · rename_i he
    have hpos : 0 < b.2 - b.1 := by
      rcases lt_or_eq_of_le (le_trans h1 h2) with hlt | heq
      · linarith
      · exact absurd heq he
    constructor
    · exact div_nonneg (by linarith) (le_of_lt hpos)
    · rw [div_le_one hpos]; linarith

theorem unscale_inB (b : Rat × Rat) (x : Rat) (hb : b.1 ≤ b.2) (h0 : 0 ≤ x) (h1 : x ≤ 1) :
    InB b (unscale01 b x) := by
  unfold unscale01 InB
  have : 0 ≤ b.2 - b.1 := by linarith
  constructor <;> nlinarith

theorem zip_unscale_scale (bs : List (Rat × Rat)) (xs : List Rat) (h : List.Forall₂ InB bs xs) :
    List.zipWith unscale01 bs (List.zipWith scale01 bs xs) = xs := by
  induction h with
  | nil => rfl
  | cons hb _ ih => simp [List.zipWith, unscale_scale _ _ hb, ih]

theorem zip_scale_in01 (bs : List (Rat × Rat)) (xs : List Rat) (h : List.Forall₂ InB bs xs) :
    ∀ y ∈ List.zipWith scale01 bs xs, 0 ≤ y ∧ y ≤ 1 := by
  induction h with
  | nil => simp
  | cons hb _ ih =>
    intro y hy
    simp only [List.zipWith, List.mem_cons] at hy
    rcases hy with hy | hy
    · subst hy; exact scale_in01 _ _ hb
    · exact ih y hy

theorem zip_unscale_inB (bs : List (Rat × Rat)) (xs : List Rat) (hl : bs.length = xs.length)
    (hb : ∀ b ∈ bs, b.1 ≤ b.2) (hx : ∀ x ∈ xs, 0 ≤ x ∧ x ≤ 1) :
    List.Forall₂ InB bs (List.zipWith unscale01 bs xs) := by
  induction bs generalizing xs with
  | nil => cases xs <;> simp_all
  | cons b bs ih =>
    cases xs with
    | nil => simp at hl
    | cons x xs =>
      simp only [List.zipWith]
      refine List.Forall₂.cons ?_ (ih xs (by simpa using hl) (fun b' hb' => hb b' (by simp [hb']))
        (fun x' hx' => hx x' (by simp [hx'])))
      exact unscale_inB b x (hb b (by simp)) (hx x (by simp)).1 (hx x (by simp)).2

/-! ## the transform, one distribution at a time -/

/-- What is assumed of the log/exp pair: `ex` is monotone, `ex ∘ lg = id` on the positives, `lg` is
monotone on the positives.  (`lg = ex = id` satisfies it, so do the real `log`/`exp`.) -/
structure EnvOK (E : Env) : Prop where
  ex_mono : ∀ a b, a ≤ b → E.ex a ≤ E.ex b
  ex_lg : ∀ q, 0 < q → E.ex (E.lg q) = q
  lg_mono : ∀ a b, 0 < a → a ≤ b → E.lg a ≤ E.lg b

/-- The half-open clamp stays inside the domain: `low ≤ nextafter(high, high-1) ≤ high` for every
non-single float distribution without step. -/
def HC (E : Env) : Dist → Prop
  | .flt _ low high _ Option.none => low < high → low ≤ E.below high ∧ E.below high ≤ high
  | _ => True

/-- a canonical, contained external value (for plain floats: not above the half-open clamp) -/
def Canon (E : Env) : Dist → Tok → Prop
  | .flt _ low high _ Option.none, v => ∃ q, v = .flt q ∧ low ≤ q ∧ q ≤ high ∧ (low < high → q ≤ E.below high)
  | .flt _ low high _ (some s), v => ∃ k : Int, v = .flt ((k : Rat) * s + low) ∧ 0 ≤ k ∧ (k : Rat) * s + low ≤ high
  | .int _ low high _ step, v => ∃ i : Int, v = .int i ∧ low ≤ i ∧ i ≤ high ∧ (i - low) % step = 0
  | .cat cs, v => ∃ i, cs[i]? = some v ∧ firstIdx (fun c => v.catEq c) cs = some i

theorem single_plain (c : FCls) (low high : Rat) (log : Bool) (hl : low ≤ high) :
    (Dist.flt c low high log Option.none).single = true ↔ ¬ low < high := by
  simp only [Dist.single, beq_iff_eq]
  constructor
  · intro h; rw [h]; exact lt_irrefl _
  · intro h; exact le_antisymm hl (not_lt.mp h)

theorem forall2_const01 (cs : List Tok) (xs : List Rat) (hl : xs.length = cs.length)
    (hx : ∀ x ∈ xs, 0 ≤ x ∧ x ≤ 1) :
    List.Forall₂ InB (cs.map (fun _ => ((0 : Rat), (1 : Rat)))) xs := by
  induction cs generalizing xs with
  | nil => cases xs <;> simp_all
  | cons a t ih =>
    cases xs with
    | nil => simp at hl
    | cons x xs =>
      simp only [List.map_cons]
      exact List.Forall₂.cons (hx x (by simp)) (ih xs (by simpa using hl) (fun y hy => hx y (by simp [hy])))

theorem oneHot_01 (n i : Nat) : ∀ x ∈ oneHot n i, (0 : Rat) ≤ x ∧ x ≤ 1 := by
  intro x hx
  simp only [oneHot, List.mem_map, List.mem_range] at hx
  obtain ⟨j, _, rfl⟩ := hx
  split <;> norm_num

/-- forward direction, one distribution: the raw columns exist, lie within the raw bounds, and
decode back to the value. -/
theorem encode_ok (E : Env) (c : TCfg) (d : Dist) (v : Tok) (hE : EnvOK E) (h : WF d) (hv : Canon E d v) :
    ∃ raw, encode E c d v = .ok raw ∧ List.Forall₂ InB (boundsOf E c d) raw ∧ decode E c d raw = some v := by
  cases d with
  | cat cs =>
    obtain ⟨i, hi, hidx⟩ := hv
    have hlt : i < cs.length := by
      rcases Nat.lt_or_ge i cs.length with h' | h'
      · exact h'
      · simp [List.getElem?_eq_none h'] at hi
    refine ⟨oneHot cs.length i, by simp [encode, catIndex, hidx, Except.map], ?_, ?_⟩
    · exact forall2_const01 cs _ (oneHot_length _ _) (oneHot_01 _ _)
    · simp [decode, argmax_oneHot _ _ hlt, hi]
  | flt cl low high log step =>
    obtain ⟨hl, hlog, hstep, _⟩ := h
    cases step with
    | none =>
      obtain ⟨q, rfl, h1, h2, h3⟩ := hv
      refine ⟨[tnum E c (.flt cl low high log Option.none) q], by simp [encode, Tok.num?], ?_, ?_⟩
      · simp only [boundsOf]
        refine List.Forall₂.cons ?_ List.Forall₂.nil
        unfold InB tnum
        simp only [Dist.isLog]
        by_cases hb : (log && c.tlog) = true
        · simp only [hb, if_true]
          simp only [Bool.and_eq_true] at hb
          have hpos := (hlog hb.1).1
          exact ⟨hE.lg_mono _ _ hpos h1, hE.lg_mono _ _ (lt_of_lt_of_le hpos h1) h2⟩
        · simp only [hb, Bool.false_eq_true, if_false]
          exact ⟨h1, h2⟩
      · cases log with
        | true =>
          have hpos : 0 < q := lt_of_lt_of_le (hlog rfl).1 h1
          have hp : (if c.tlog then E.ex (tnum E c (.flt cl low high true Option.none) q)
              else tnum E c (.flt cl low high true Option.none) q) = q := by
            unfold tnum
            cases c.tlog <;> simp [Dist.isLog, hE.ex_lg q hpos]
          simp only [decode, hp]
          by_cases hs : low < high
          · have : (Dist.flt cl low high true Option.none).single = false := by
              rw [Bool.eq_false_iff]; intro hc; exact (single_plain cl low high true hl).mp hc hs
            simp [this, min_eq_left (h3 hs)]
          · have : (Dist.flt cl low high true Option.none).single = true := (single_plain cl low high true hl).mpr hs
            simp [this]
        | false =>
          have hp : tnum E c (.flt cl low high false Option.none) q = q := by simp [tnum, Dist.isLog]
          simp only [decode, hp]
          by_cases hs : low < high
          · have : (Dist.flt cl low high false Option.none).single = false := by
              rw [Bool.eq_false_iff]; intro hc; exact (single_plain cl low high false hl).mp hc hs
            simp [this, min_eq_left (h3 hs)]
          · have : (Dist.flt cl low high false Option.none).single = true := (single_plain cl low high false hl).mpr hs
            simp [this]
    | some s =>
      obtain ⟨k, rfl, hk0, hk1⟩ := hv
      obtain ⟨hs, K, hK0, hK⟩ := hstep s rfl
      have hlogf : log = false := by
        cases log with
        | false => rfl
        | true => have := (hlog rfl).2; simp at this
      subst hlogf
      have hkq : (0 : Rat) ≤ (k : Rat) := by exact_mod_cast hk0
      have hks : 0 ≤ (k : Rat) * s := mul_nonneg hkq (le_of_lt hs)
      refine ⟨[(k : Rat) * s + low], by simp [encode, Tok.num?, tnum, Dist.isLog], ?_, ?_⟩
      · simp only [boundsOf, tnum, Dist.isLog, Bool.false_and, Bool.false_eq_true, if_false]
        refine List.Forall₂.cons ?_ List.Forall₂.nil
        unfold InB
        have : (0 : Rat) ≤ (if c.tstep then s / 2 else 0) := by split <;> linarith
        constructor <;> (try simp only) <;> linarith
      · have hdiv : ((k : Rat) * s + low - low) / s = (k : Rat) := by
          rw [add_sub_cancel_right]; field_simp
        simp only [decode, hdiv, roundHE_intCast]
        rw [clip_id (by linarith) hk1]
  | int cl low high log step =>
    obtain ⟨hl, hlog, hs, hg, _⟩ := h
    obtain ⟨i, rfl, h1, h2, h3⟩ := hv
    have h1q : (low : Rat) ≤ (i : Rat) := by exact_mod_cast h1
    have h2q : (i : Rat) ≤ (high : Rat) := by exact_mod_cast h2
    have hsq : (0 : Rat) < (step : Rat) := by exact_mod_cast hs
    have hh : (0 : Rat) ≤ (if c.tstep then (step : Rat) / 2 else 0) := by split <;> linarith
    refine ⟨[tnum E c (.int cl low high log step) (i : Rat)], by simp [encode, Tok.num?], ?_, ?_⟩
    · cases log with
      | true =>
        obtain ⟨hl1, hst⟩ := hlog rfl
        subst hst
        have hl1q : (1 : Rat) ≤ (low : Rat) := by exact_mod_cast hl1
        have hh2 : (if c.tstep then ((1 : Int) : Rat) / 2 else 0) ≤ 1 / 2 := by split <;> norm_num
        have hpos : 0 < (low : Rat) - (if c.tstep then ((1 : Int) : Rat) / 2 else 0) := by linarith
        simp only [boundsOf, if_true]
        refine List.Forall₂.cons ?_ List.Forall₂.nil
        unfold InB tnum
        simp only [Dist.isLog, Bool.true_and]
        by_cases hb : c.tlog = true
        · simp only [hb, if_true]
          exact ⟨hE.lg_mono _ _ hpos (by linarith), hE.lg_mono _ _ (by linarith) (by linarith)⟩
        · simp only [hb, Bool.false_eq_true, if_false]
          constructor <;> linarith
      | false =>
        simp only [boundsOf, Bool.false_eq_true, if_false, tnum, Dist.isLog, Bool.false_and]
        refine List.Forall₂.cons ?_ List.Forall₂.nil
        unfold InB
        constructor <;> (try simp only) <;> linarith
    · cases log with
      | true =>
        obtain ⟨hl1, hst⟩ := hlog rfl
        have hpos : (0 : Rat) < (i : Rat) := by
          have : (0 : Int) < i := by omega
          exact_mod_cast this
        cases htl : c.tlog with
        | true =>
          simp only [decode, tnum, Dist.isLog, htl, Bool.and_self, if_true, hE.ex_lg _ hpos, roundHE_intCast,
            clip_id h1q h2q, truncI_intCast]
        | false =>
          simp [decode, tnum, Dist.isLog, htl, truncI_intCast]
      | false =>
        obtain ⟨k, hk⟩ := Int.dvd_of_emod_eq_zero h3
        have hkq : (i : Rat) - (low : Rat) = (step : Rat) * (k : Rat) := by
          have : ((i - low : Int) : Rat) = ((step * k : Int) : Rat) := by rw [hk]
          push_cast at this; exact this
        have hdiv : ((i : Rat) - (low : Rat)) / (step : Rat) = (k : Rat) := by
          rw [hkq]; field_simp
        have hback : (k : Rat) * (step : Rat) + (low : Rat) = (i : Rat) := by linarith [hkq, mul_comm (step : Rat) (k : Rat)]
        simp only [decode, tnum, Dist.isLog, Bool.false_and, Bool.false_eq_true, if_false, hdiv, roundHE_intCast, hback,
          clip_id h1q h2q, truncI_intCast]

/-- membership of an external value in the declared domain, as the code itself would test it:
`to_internal_repr` accepts it and `_contains` says yes -/
def Member (d : Dist) (v : Tok) : Prop := ∃ q, d.toInternal v = .ok q ∧ d.contains q = true

/-- round-to-grid then clip, for EVERY raw number `x`: the result is a grid point inside the range
(when the range is a whole number of steps, which the constructors guarantee). -/
theorem grid_clip (low high s : Rat) (K : Int) (hs : 0 < s) (hK0 : 0 ≤ K) (hK : high - low = (K : Rat) * s) (x : Rat) :
    ∃ k : Int, 0 ≤ k ∧ k ≤ K ∧ clip ((roundHE ((x - low) / s) : Rat) * s + low) low high = (k : Rat) * s + low := by
  have hKq : (0 : Rat) ≤ (K : Rat) := by exact_mod_cast hK0
  have hlh : low ≤ high := by nlinarith
  rcases clip_cases ((roundHE ((x - low) / s) : Rat) * s + low) low high hlh with ⟨he, h1, h2⟩ | ⟨he, _⟩ | ⟨he, _⟩
  · refine ⟨roundHE ((x - low) / s), ?_, ?_, he⟩
    · have : (0 : Rat) ≤ (roundHE ((x - low) / s) : Rat) := by
        by_contra hc
        have := mul_neg_of_neg_of_pos (not_le.mp hc) hs
        linarith
      exact_mod_cast this
    · have : (roundHE ((x - low) / s) : Rat) * s ≤ (K : Rat) * s := by linarith
      have := le_of_mul_le_mul_right this hs
      exact_mod_cast this
  · exact ⟨0, le_refl _, hK0, by rw [he]; push_cast; ring⟩
  · exact ⟨K, hK0, le_refl _, by rw [he]; linarith⟩

theorem stepped_contains (cl : FCls) (low high s : Rat) (log : Bool) (K k : Int) (hs : 0 < s)
    (hK : high - low = (K : Rat) * s) (hk0 : 0 ≤ k) (hk1 : k ≤ K) :
    (Dist.flt cl low high log (some s)).contains ((k : Rat) * s + low) = true := by
  have hkq : (0 : Rat) ≤ (k : Rat) := by exact_mod_cast hk0
  have hkK : (k : Rat) ≤ (K : Rat) := by exact_mod_cast hk1
  have h1 : low ≤ (k : Rat) * s + low := by nlinarith
  have h2 : (k : Rat) * s + low ≤ high := by nlinarith
  have hdiv : ((k : Rat) * s + low - low) / s = (k : Rat) := by rw [add_sub_cancel_right]; field_simp
  simp only [Dist.contains, hdiv, roundHE_intCast, sub_self, Bool.and_eq_true, decide_eq_true_eq]
  refine ⟨⟨h1, h2⟩, ?_⟩
  rw [rat_abs_eq]; norm_num

theorem int_grid_clip (low high step : Int) (hs : 0 < step) (hl : low ≤ high) (hg : (high - low) % step = 0) (x : Rat) :
    ∃ i : Int, low ≤ i ∧ i ≤ high ∧ (i - low) % step = 0 ∧
      clip ((roundHE ((x - (low : Rat)) / (step : Rat)) : Rat) * (step : Rat) + (low : Rat)) (low : Rat) (high : Rat) = (i : Rat) := by
  obtain ⟨K, hK⟩ := Int.dvd_of_emod_eq_zero hg
  have hsq : (0 : Rat) < (step : Rat) := by exact_mod_cast hs
  have hK0 : 0 ≤ K := by
    by_contra hc
    have : step * K < 0 := Int.mul_neg_of_pos_of_neg hs (by omega)
    omega
  have hKq : (high : Rat) - (low : Rat) = (K : Rat) * (step : Rat) := by
    have : ((high - low : Int) : Rat) = ((step * K : Int) : Rat) := by rw [hK]
    push_cast at this; linarith [mul_comm (step : Rat) (K : Rat)]
  obtain ⟨k, hk0, hk1, hk⟩ := grid_clip (low : Rat) (high : Rat) (step : Rat) K hsq hK0 hKq x
  refine ⟨k * step + low, ?_, ?_, ?_, by rw [hk]; push_cast; ring⟩
  · have := Int.mul_nonneg hk0 (le_of_lt hs); omega
  · have : k * step ≤ K * step := Int.mul_le_mul_of_nonneg_right hk1 (le_of_lt hs)
    have h2 : step * K = K * step := Int.mul_comm _ _
    omega
  · have : k * step + low - low = k * step := by omega
    rw [this]; exact Int.mul_emod_left _ _

theorem int_member (cl : ICls) (low high : Int) (log : Bool) (step i : Int) (hs : 0 < step)
    (hlog : log = true → 1 ≤ low) (h1 : low ≤ i) (h2 : i ≤ high) (h3 : (i - low) % step = 0) :
    Member (.int cl low high log step) (.int i) := by
  refine ⟨(i : Rat), ?_, ?_⟩
  · cases log with
    | false => simp [Dist.toInternal, Tok.num?]
    | true =>
      have := hlog rfl
      have hq : ¬ ((i : Int) : Rat) ≤ 0 := by
        have : (0 : Int) < i := by omega
        exact not_le.mpr (by exact_mod_cast this)
      simp [Dist.toInternal, Tok.num?, hq]
  · have hne : (step : Rat) ≠ 0 := by exact_mod_cast (ne_of_gt hs)
    obtain ⟨k, hk⟩ := Int.dvd_of_emod_eq_zero h3
    have hkq : (i : Rat) - (low : Rat) = (k : Rat) * (step : Rat) := by
      have : ((i - low : Int) : Rat) = ((step * k : Int) : Rat) := by rw [hk]
      push_cast at this; linarith [mul_comm (step : Rat) (k : Rat)]
    simp only [Dist.contains, Bool.and_eq_true, decide_eq_true_eq]
    exact ⟨⟨by exact_mod_cast h1, by exact_mod_cast h2⟩, (ratMod_eq_zero_iff hne).mpr ⟨k, hkq⟩⟩

theorem flt_member (cl : FCls) (low high : Rat) (log : Bool) (p : Rat)
    (hlog : log = true → 0 < low) (h1 : low ≤ p) (h2 : p ≤ high) :
    Member (.flt cl low high log Option.none) (.flt p) := by
  refine ⟨p, ?_, by simp [Dist.contains, h1, h2]⟩
  cases log with
  | false => simp [Dist.toInternal, Tok.num?]
  | true =>
    have hq : ¬ p ≤ 0 := not_le.mpr (lt_of_lt_of_le (hlog rfl) h1)
    simp [Dist.toInternal, Tok.num?, hq]

theorem catEq_refl (t : Tok) : t.catEq t = true := by
  cases t <;> simp [Tok.catEq, Tok.pyEq, Tok.num?]

theorem truncI_natCast (n : Nat) : truncI ((n : Nat) : Rat) = (n : Int) := by
  have : ((n : Nat) : Rat) = ((n : Int) : Rat) := by push_cast; rfl
  rw [this, truncI_intCast]

theorem cat_member (cs : List Tok) (i : Nat) (t : Tok) (h : cs[i]? = some t) : Member (.cat cs) t := by
  obtain ⟨j, hj, hle⟩ := firstIdx_of_mem (fun c => t.catEq c) cs i t h (catEq_refl t)
  have hlt : i < cs.length := by
    rcases Nat.lt_or_ge i cs.length with h' | h'
    · exact h'
    · simp [List.getElem?_eq_none h'] at h
  refine ⟨(j : Rat), by simp [Dist.toInternal, catIndex, hj, Except.map], ?_⟩
  simp only [Dist.contains, truncI_natCast, Bool.and_eq_true, decide_eq_true_eq]
  omega

/-- backward direction, one distribution: raw columns within the raw bounds decode to a member of the
domain.  (`tlog = false ∧ tstep = true` is excluded: with it a log-int column is widened by half a
step but decoded by plain truncation — see `untransform_out_of_domain_witness` in Props/C11.) -/
theorem decode_in_domain (E : Env) (c : TCfg) (d : Dist) (raw : List Rat) (hE : EnvOK E) (h : WF d) (hc : HC E d)
    (hcfg : c.tlog = true ∨ c.tstep = false) (hb : List.Forall₂ InB (boundsOf E c d) raw) :
    ∃ v, decode E c d raw = some v ∧ Member d v := by
  cases d with
  | cat cs =>
    have hne : cs ≠ [] := h
    have hlen : raw.length = cs.length := by
      have := hb.length_eq.symm
      simpa [boundsOf] using this
    have hrne : raw ≠ [] := by
      intro he; rw [he] at hlen; simp at hlen; exact hne (List.length_eq_zero_iff.mp hlen.symm)
    have hlt : argmax raw < cs.length := hlen ▸ argmax_lt raw hrne
    exact ⟨cs[argmax raw], by simp [decode, hlt], cat_member cs _ _ (List.getElem?_eq_getElem hlt)⟩
  | flt cl low high log step =>
    obtain ⟨hl, hlog, hstep, _⟩ := h
    cases step with
    | none =>
      simp only [boundsOf] at hb
      cases hb with
      | cons hx hnil =>
        cases hnil
        rename_i x
        -- the value before the clamp lies in [low, high]
        have hp : ∃ p, low ≤ p ∧ p ≤ high ∧
            decode E c (.flt cl low high log Option.none) [x] =
              if (Dist.flt cl low high log Option.none).single then some (.flt p) else some (.flt (min p (E.below high))) := by
          unfold InB tnum at hx
          simp only [Dist.isLog] at hx
          cases log with
          | true =>
            have hpos := (hlog rfl).1
            cases htl : c.tlog with
            | true =>
              simp only [htl, Bool.and_self, if_true] at hx
              refine ⟨E.ex x, ?_, ?_, by simp [decode, htl]⟩
              · have := hE.ex_mono _ _ hx.1; rwa [hE.ex_lg _ hpos] at this
              · have := hE.ex_mono _ _ hx.2; rwa [hE.ex_lg _ (lt_of_lt_of_le hpos hl)] at this
            | false =>
              simp only [htl, Bool.and_false, Bool.false_eq_true, if_false] at hx
              exact ⟨x, hx.1, hx.2, by simp [decode, htl]⟩
          | false =>
            simp only [Bool.false_and, Bool.false_eq_true, if_false] at hx
            exact ⟨x, hx.1, hx.2, by simp [decode]⟩
        obtain ⟨p, hp1, hp2, hdec⟩ := hp
        rw [hdec]
        by_cases hs : low < high
        · have hsing : (Dist.flt cl low high log Option.none).single = false := by
            rw [Bool.eq_false_iff]; intro hc'; exact (single_plain cl low high log hl).mp hc' hs
          obtain ⟨hb1, hb2⟩ := hc hs
          refine ⟨.flt (min p (E.below high)), by simp [hsing], ?_⟩
          exact flt_member cl low high log _ (fun hh => (hlog hh).1) (le_min hp1 hb1) (le_trans (min_le_right _ _) hb2)
        · have hsing : (Dist.flt cl low high log Option.none).single = true := (single_plain cl low high log hl).mpr hs
          exact ⟨.flt p, by simp [hsing], flt_member cl low high log _ (fun hh => (hlog hh).1) hp1 hp2⟩
    | some s =>
      obtain ⟨hs, K, hK0, hK⟩ := hstep s rfl
      have hlogf : log = false := by
        cases log with
        | false => rfl
        | true => have := (hlog rfl).2; simp at this
      subst hlogf
      simp only [boundsOf] at hb
      cases hb with
      | cons hx hnil =>
        cases hnil
        rename_i x
        obtain ⟨k, hk0, hk1, hk⟩ := grid_clip low high s K hs hK0 hK x
        refine ⟨.flt ((k : Rat) * s + low), by simp [decode, hk], (k : Rat) * s + low, by simp [Dist.toInternal, Tok.num?], ?_⟩
        exact stepped_contains cl low high s false K k hs hK hk0 hk1
  | int cl low high log step =>
    obtain ⟨hl, hlog, hs, hg, _⟩ := h
    cases log with
    | false =>
      simp only [boundsOf, Bool.false_eq_true, if_false] at hb
      cases hb with
      | cons hx hnil =>
        cases hnil
        rename_i x
        obtain ⟨i, h1, h2, h3, hi⟩ := int_grid_clip low high step hs hl hg x
        refine ⟨.int i, by simp [decode, hi, truncI_intCast], ?_⟩
        exact int_member cl low high false step i hs (by simp) h1 h2 h3
    | true =>
      obtain ⟨hl1, hst⟩ := hlog rfl
      subst hst
      simp only [boundsOf, if_true] at hb
      cases hb with
      | cons hx hnil =>
        cases hnil
        rename_i x
        cases htl : c.tlog with
        | true =>
          -- clip (round (ex x)) low high is an integer in range, for every x
          have hlq : (low : Rat) ≤ (high : Rat) := by exact_mod_cast hl
          have : ∃ i : Int, low ≤ i ∧ i ≤ high ∧ clip ((roundHE (E.ex x) : Int) : Rat) (low : Rat) (high : Rat) = (i : Rat) := by
            rcases clip_cases ((roundHE (E.ex x) : Int) : Rat) (low : Rat) (high : Rat) hlq with ⟨he, h1, h2⟩ | ⟨he, _⟩ | ⟨he, _⟩
            · exact ⟨roundHE (E.ex x), by exact_mod_cast h1, by exact_mod_cast h2, he⟩
            · exact ⟨low, le_refl _, hl, he⟩
            · exact ⟨high, hl, le_refl _, he⟩
          obtain ⟨i, h1, h2, hi⟩ := this
          refine ⟨.int i, by simp [decode, htl, hi, truncI_intCast], ?_⟩
          exact int_member cl low high true 1 i hs (fun _ => hl1) h1 h2 (by omega)
        | false =>
          have hts : c.tstep = false := by
            rcases hcfg with h' | h'
            · rw [htl] at h'; simp at h'
            · exact h'
          unfold InB tnum at hx
          simp only [Dist.isLog, htl, hts, Bool.and_false, Bool.false_eq_true, if_false, sub_zero, add_zero] at hx
          have hx0 : 0 ≤ x := by
            have : (1 : Rat) ≤ (low : Rat) := by exact_mod_cast hl1
            linarith [hx.1]
          have htr : truncI x = x.floor := by simp [truncI, hx0]
          have h1 : low ≤ x.floor := Rat.le_floor_iff.mpr hx.1
          have h2 : x.floor ≤ high := by
            have := Rat.floor_le x
            have : ((x.floor : Int) : Rat) ≤ (high : Rat) := le_trans this hx.2
            exact_mod_cast this
          refine ⟨.int x.floor, by simp [decode, htl, htr], ?_⟩
          exact int_member cl low high true 1 _ hs (fun _ => hl1) h1 h2 (by omega)

theorem boundsOf_length (E : Env) (c : TCfg) (d : Dist) : (boundsOf E c d).length = d.width := by
  cases d with
  | cat cs => simp [boundsOf, Dist.width]
  | flt cl low high log step => cases step <;> simp [boundsOf, Dist.width]
  | int cl low high log step => cases log <;> simp [boundsOf, Dist.width]

/-- every raw bound pair is ordered -/
theorem boundsOf_le (E : Env) (c : TCfg) (d : Dist) (hE : EnvOK E) (h : WF d) :
    ∀ b ∈ boundsOf E c d, b.1 ≤ b.2 := by
  intro b hb
  cases d with
  | cat cs =>
    simp only [boundsOf, List.mem_map] at hb
    obtain ⟨_, _, rfl⟩ := hb
    norm_num
  | flt cl low high log step =>
    obtain ⟨hl, hlog, hstep, _⟩ := h
    cases step with
    | none =>
      simp only [boundsOf, List.mem_singleton] at hb
      subst hb
      unfold tnum
      simp only [Dist.isLog]
      by_cases hb : (log && c.tlog) = true
      · simp only [hb, if_true]
        simp only [Bool.and_eq_true] at hb
        exact hE.lg_mono _ _ (hlog hb.1).1 hl
      · simp only [hb, Bool.false_eq_true, if_false]; exact hl
    | some s =>
      obtain ⟨hs, _⟩ := hstep s rfl
      have hlogf : log = false := by
        cases log with
        | false => rfl
        | true => have := (hlog rfl).2; simp at this
      subst hlogf
      simp only [boundsOf, tnum, Dist.isLog, Bool.false_and, Bool.false_eq_true, if_false, List.mem_singleton] at hb
      subst hb
      have : (0 : Rat) ≤ (if c.tstep then s / 2 else 0) := by split <;> linarith
      simp only; linarith
  | int cl low high log step =>
    obtain ⟨hl, hlog, hs, _, _⟩ := h
    have hlq : (low : Rat) ≤ (high : Rat) := by exact_mod_cast hl
    have hsq : (0 : Rat) < (step : Rat) := by exact_mod_cast hs
    have hh : (0 : Rat) ≤ (if c.tstep then (step : Rat) / 2 else 0) := by split <;> linarith
    cases log with
    | false =>
      simp only [boundsOf, Bool.false_eq_true, if_false, tnum, Dist.isLog, Bool.false_and, List.mem_singleton] at hb
      subst hb
      simp only; linarith
    | true =>
      obtain ⟨hl1, hst⟩ := hlog rfl
      subst hst
      have hl1q : (1 : Rat) ≤ (low : Rat) := by exact_mod_cast hl1
      have hh2 : (if c.tstep then ((1 : Int) : Rat) / 2 else 0) ≤ 1 / 2 := by split <;> norm_num
      simp only [boundsOf, if_true, List.mem_singleton] at hb
      subst hb
      unfold tnum
      simp only [Dist.isLog, Bool.true_and]
      by_cases hb : c.tlog = true
      · simp only [hb, if_true]
        exact hE.lg_mono _ _ (by linarith) (by linarith)
      · simp only [hb, Bool.false_eq_true, if_false]; linarith

/-- the declared bounds of one distribution's columns: `[0,1]` under 0-1 scaling, else the raw bounds -/
def declB (E : Env) (c : TCfg) (d : Dist) : List (Rat × Rat) :=
  if c.t01 then (boundsOf E c d).map (fun _ => ((0 : Rat), (1 : Rat))) else boundsOf E c d

theorem bounds_eq_flatMap (E : Env) (c : TCfg) (space : List Dist) :
    bounds E c space = space.flatMap (declB E c) := by
  unfold bounds declB
  cases c.t01
  · simp
  · simp only [if_true]
    induction space with
    | nil => rfl
    | cons d ds ih => simp [List.flatMap_cons, ih]

theorem declB_length (E : Env) (c : TCfg) (d : Dist) : (declB E c d).length = d.width := by
  unfold declB
  split <;> simp [boundsOf_length]

theorem forall2_01_of (bs : List (Rat × Rat)) (xs : List Rat)
    (h : List.Forall₂ InB (bs.map (fun _ => ((0 : Rat), (1 : Rat)))) xs) :
    bs.length = xs.length ∧ ∀ x ∈ xs, 0 ≤ x ∧ x ≤ 1 := by
  induction bs generalizing xs with
  | nil => cases h; simp
  | cons b bs ih =>
    simp only [List.map_cons] at h
    cases h with
    | cons hx ht =>
      obtain ⟨h1, h2⟩ := ih _ ht
      refine ⟨by simp [h1], ?_⟩
      intro x hx'
      simp only [List.mem_cons] at hx'
      rcases hx' with rfl | hx'
      · exact hx
      · exact h2 x hx'

theorem forall2_01_mk (bs : List (Rat × Rat)) (xs : List Rat) (hl : bs.length = xs.length)
    (hx : ∀ x ∈ xs, 0 ≤ x ∧ x ≤ 1) :
    List.Forall₂ InB (bs.map (fun _ => ((0 : Rat), (1 : Rat)))) xs := by
  induction bs generalizing xs with
  | nil => cases xs <;> simp_all
  | cons b bs ih =>
    cases xs with
    | nil => simp at hl
    | cons x xs =>
      simp only [List.map_cons]
      exact List.Forall₂.cons (hx x (by simp)) (ih xs (by simpa using hl) (fun y hy => hx y (by simp [hy])))

theorem forall2_length_zipWith_scale (bs : List (Rat × Rat)) (xs : List Rat) (h : List.Forall₂ InB bs xs) :
    bs.length = (List.zipWith scale01 bs xs).length := by
  have := h.length_eq
  simp [this]

/-- forward, one distribution, with the optional 0-1 scaling -/
theorem tcols_spec (E : Env) (c : TCfg) (d : Dist) (v : Tok) (hE : EnvOK E) (h : WF d) (hv : Canon E d v) :
    ∃ cols, tcols E c d v = .ok cols ∧ List.Forall₂ InB (declB E c d) cols ∧ ucols E c d cols = some v := by
  obtain ⟨raw, henc, hb, hdec⟩ := encode_ok E c d v hE h hv
  unfold tcols ucols declB
  rw [henc]
  cases c.t01 with
  | false => exact ⟨raw, rfl, hb, hdec⟩
  | true =>
    refine ⟨List.zipWith scale01 (boundsOf E c d) raw, rfl, ?_, ?_⟩
    · exact forall2_01_mk _ _ (forall2_length_zipWith_scale _ _ hb) (zip_scale_in01 _ _ hb)
    · simp only [if_true]
      rw [zip_unscale_scale _ _ hb]; exact hdec

/-- backward, one distribution, with the optional 0-1 scaling -/
theorem ucols_in_domain (E : Env) (c : TCfg) (d : Dist) (cols : List Rat) (hE : EnvOK E) (h : WF d) (hc : HC E d)
    (hcfg : c.tlog = true ∨ c.tstep = false) (hb : List.Forall₂ InB (declB E c d) cols) :
    ∃ v, ucols E c d cols = some v ∧ Member d v := by
  unfold ucols
  unfold declB at hb
  cases ht : c.t01 with
  | false =>
    simp only [ht, Bool.false_eq_true, if_false] at hb ⊢
    exact decode_in_domain E c d cols hE h hc hcfg hb
  | true =>
    simp only [ht, if_true] at hb ⊢
    obtain ⟨hl, hx⟩ := forall2_01_of _ _ hb
    exact decode_in_domain E c d _ hE h hc hcfg (zip_unscale_inB _ _ hl (boundsOf_le E c d hE h) hx)

/-! ## small helpers used by Props/C11 -/

theorem bind_ok {α β : Type} (x : R α) (f : α → R β) (b : β) (h : (x >>= f) = .ok b) :
    ∃ a, x = .ok a ∧ f a = .ok b := by
  cases x with
  | error e => simp [bind, Except.bind] at h
  | ok a => exact ⟨a, rfl, h⟩

theorem pyEq_of_num {a b : Tok} {x : Rat} (ha : a.num? = some x) (hb : b.num? = some x) : a.pyEq b = true := by
  cases a <;> cases b <;> simp_all [Tok.num?, Tok.pyEq]

theorem listCatEq_refl (l : List Tok) : listCatEq l l = true := by
  induction l with
  | nil => rfl
  | cons a t ih => simp [listCatEq, catEq_refl, ih]

theorem untransform_cons (E : Env) (c : TCfg) (d : Dist) (ds : List Dist) (xs : List Rat) :
    untransform E c (d :: ds) xs =
      if xs.length < d.width then none
      else (ucols E c d (xs.take d.width)).bind (fun v =>
        (untransform E c ds (xs.drop d.width)).bind (fun rest => some (v :: rest))) := by
  rw [untransform]
  split <;> rfl

end OptunaVerif.Dist
