import OptunaVerif.Generated.JournalFileMethods
import OptunaVerif.Lemmas.JournalFile
import OptunaVerif.Lemmas.FileIRAppend
import OptunaVerif.Lemmas.FileLockTimed
/-!
Lemmas for the translator tie of `optuna/storages/journal/_file.py` (`Props/C07FileGen.lean`): the
interpreters of `Model/FileIR.lean` applied to `Generated/JournalFileMethods.lean` are the hand models.
Everything here is re-checked against the regenerated data on every run.
-/
set_option linter.unusedSimpArgs false
set_option linter.unusedVariables false
set_option maxRecDepth 4000
namespace OptunaVerif.FileIR
open OptunaVerif OptunaVerif.JournalFile OptunaVerif.FileLock OptunaVerif.Generated.JournalFileMethods

/-! ## 1. the reader -/

theorem read_loop_eq (from_ : Nat) : ∀ (lines : List Line) (n : Nat) (s : RIter),
    interpLoop readLogsProg.body from_ lines n s = readLoop from_ lines n s.remaining s.pending s.cache s.acc := by
  intro lines
  induction lines with
  | nil => intro n s; simp [interpLoop, readLoop]
  | cons ln rest ih =>
    intro n s
    obtain ⟨rem, pend, cache, acc, bl⟩ := s
    obtain ⟨len, term, valid⟩ := ln
    simp only [readLogsProg] at ih
    simp only [interpLoop, readLoop, iterate, readLogsProg, execRs, execR, evalRCond]
    by_cases h1 : rem - (len : Int) < 0
    · simp [h1]
    · cases pend with
      | true => simp [h1]
      | false =>
        cases hn1 : cache.get? (n + 1) with
        | some o1 =>
          cases term <;> by_cases hb : n < from_ <;> cases valid <;>
            simp [h1, hn1, hb, execRs, execR, evalRCond, ih]
        | none =>
          cases hn0 : cache.get? n with
          | none => simp [h1, hn1, hn0]
          | some o0 =>
            cases term <;> by_cases hb : n < from_ <;> cases valid <;>
              simp [h1, hn1, hn0, hb, execRs, execR, evalRCond, ih]

theorem read_eq (size : Nat) (cache : Cache) (from_ : Nat) (linesFrom : Nat → List Line) :
    interpRead readLogsProg size cache from_ linesFrom = JournalFile.readLogs size cache from_ linesFrom := by
  have hl := read_loop_eq from_
  simp only [readLogsProg] at hl
  unfold interpRead JournalFile.readLogs
  cases h : cache.get? from_ with
  | none => simp [readLogsProg, execP, h, hl]
  | some off => simp [readLogsProg, execP, h, hl]

/-! ## 3. the lock classes: control states of the generated programs and the hand model's program points -/

def shFree (t : Nat) : Shared := { lock := none, now := t, tmps := [] }
def shHeld (t : Nat) : Shared := { lock := some (9, 5), now := t, tmps := [] }
def shTmp (t : Nat) : Shared := { lock := none, now := t, tmps := [{ by_ := 0, serial := 1, owner := 9 }] }

/-- only `kind` and whether there is a grace period matter for the control -/
def fakeCfg (kind : Kind) (hasGrace : Bool) : Cfg := { kind := kind, grace := if hasGrace then some 0 else none }

/-- a canonical way to drive one worker (number 0) of the interpreter to the control state of a program
point: the shared states it meets at its successive calls -/
def pathTo (kind : Kind) (hasGrace : Bool) : PC → List Shared
  | .idle => []
  | .create => [shFree 0]
  | .closing => [shFree 0, shFree 0]
  | .crit => match kind with
    | .symlink => [shFree 0, shFree 0]
    | .openExcl => [shFree 0, shFree 0, shFree 0]
  | .relRename => match kind with
    | .symlink => [shFree 0, shFree 0, shFree 0]
    | .openExcl => [shFree 0, shFree 0, shFree 0, shFree 0]
  | .relUnlink => match kind with
    | .symlink => [shFree 0, shFree 0, shFree 0, shHeld 0]
    | .openExcl => [shFree 0, shFree 0, shFree 0, shFree 0, shHeld 0]
  | .stat => [shFree 0, shHeld 0]
  | .resetTimer => [shFree 0, shHeld 0, shHeld 0]
  | .check => [shFree 0, shHeld 0, shHeld 0, shHeld 0]
  | .sleep => if hasGrace then [shFree 0, shHeld 0, shHeld 0, shHeld 0, shHeld 0] else [shFree 0, shHeld 0]
  | .tkRename => [shFree 0, shHeld 0, shHeld 0, shHeld 0, shHeld 9]
  | .tkUnlink => [shFree 0, shHeld 0, shHeld 0, shHeld 0, shHeld 9, shHeld 9]
  | .tkRestart => [shFree 0, shHeld 0, shHeld 0, shHeld 0, shHeld 9, shHeld 9, shTmp 9]

def walk (p : LockProg) (cfg : Cfg) (wk : GWorker) : List Shared → GWorker
  | [] => wk
  | sh :: rest => walk p cfg (gstepW p cfg sh 0 wk).2.1 rest

/-- the control of the generated program at a program point of the hand model -/
def ctlOf (p : LockProg) (kind : Kind) (hasGrace : Bool) (pc : PC) : Ctl :=
  (walk p (fakeCfg kind hasGrace) (gFresh p (fakeCfg kind hasGrace)) (pathTo kind hasGrace pc)).ctl

def embed (p : LockProg) (cfg : Cfg) (wk : Worker) : GWorker :=
  { ctl := ctlOf p cfg.kind cfg.grace.isSome wk.pc, dead := wk.dead, mtime := wk.mtime, last := wk.last, nren := wk.nren,
    failed := wk.failed, cur := none }

/-- program points that exist for a configuration: `closing` only for the open lock, the takeover
points only with a grace period -/
def pcOk (cfg : Cfg) (pc : PC) : Bool :=
  (pc != .closing || cfg.kind == .openExcl) && (cfg.grace.isSome || tkFree pc)

set_option hygiene false in
macro "ctl_forms" k:term "," g:term : tactic => `(tactic| (
  have h_idle : ctlOf (lockOf $k) $k $g .idle = ctlOf (lockOf $k) $k $g .idle := rfl
  conv at h_idle => rhs; reduce
  have h_create : ctlOf (lockOf $k) $k $g .create = ctlOf (lockOf $k) $k $g .create := rfl
  conv at h_create => rhs; reduce
  have h_closing : ctlOf (lockOf $k) $k $g .closing = ctlOf (lockOf $k) $k $g .closing := rfl
  conv at h_closing => rhs; reduce
  have h_stat : ctlOf (lockOf $k) $k $g .stat = ctlOf (lockOf $k) $k $g .stat := rfl
  conv at h_stat => rhs; reduce
  have h_resetTimer : ctlOf (lockOf $k) $k $g .resetTimer = ctlOf (lockOf $k) $k $g .resetTimer := rfl
  conv at h_resetTimer => rhs; reduce
  have h_check : ctlOf (lockOf $k) $k $g .check = ctlOf (lockOf $k) $k $g .check := rfl
  conv at h_check => rhs; reduce
  have h_tkRename : ctlOf (lockOf $k) $k $g .tkRename = ctlOf (lockOf $k) $k $g .tkRename := rfl
  conv at h_tkRename => rhs; reduce
  have h_tkUnlink : ctlOf (lockOf $k) $k $g .tkUnlink = ctlOf (lockOf $k) $k $g .tkUnlink := rfl
  conv at h_tkUnlink => rhs; reduce
  have h_tkRestart : ctlOf (lockOf $k) $k $g .tkRestart = ctlOf (lockOf $k) $k $g .tkRestart := rfl
  conv at h_tkRestart => rhs; reduce
  have h_sleep : ctlOf (lockOf $k) $k $g .sleep = ctlOf (lockOf $k) $k $g .sleep := rfl
  conv at h_sleep => rhs; reduce
  have h_crit : ctlOf (lockOf $k) $k $g .crit = ctlOf (lockOf $k) $k $g .crit := rfl
  conv at h_crit => rhs; reduce
  have h_relRename : ctlOf (lockOf $k) $k $g .relRename = ctlOf (lockOf $k) $k $g .relRename := rfl
  conv at h_relRename => rhs; reduce
  have h_relUnlink : ctlOf (lockOf $k) $k $g .relUnlink = ctlOf (lockOf $k) $k $g .relUnlink := rfl
  conv at h_relUnlink => rhs; reduce))

set_option hygiene false in
macro "lk_simp" t:term : tactic => `(tactic| (
  simp only [stepW, doRename, doUnlink, $t:term, Option.isSome_some, Option.isSome_none, ↓reduceIte, Bool.false_eq_true,
    ite_true, ite_false, if_true, if_false, h_idle, h_create, h_closing, h_stat, h_resetTimer, h_check, h_tkRename, h_tkUnlink, h_tkRestart, h_sleep, h_crit, h_relRename, h_relUnlink]
  simp [gstepW, normalise, performCall, performCall.toEnd, performCall.toRound, toLoopHead,
      releaseFrame, fuelN, lockOf, symlinkLock, openLock, stepW, doRename, doUnlink, createdBy, sampled, isMine, $t:term]))

theorem gstepW_symlink_grace (g : Nat) (sh : Shared) (w : Nat) (wk : Worker) (hok : pcOk ⟨.symlink, some g⟩ wk.pc = true) :
    gstepW (lockOf .symlink) ⟨.symlink, some g⟩ sh w (embed (lockOf .symlink) ⟨.symlink, some g⟩ wk) =
      ((stepW ⟨.symlink, some g⟩ sh w wk).1, embed (lockOf .symlink) ⟨.symlink, some g⟩ (stepW ⟨.symlink, some g⟩ sh w wk).2.1, (stepW ⟨.symlink, some g⟩ sh w wk).2.2) := by
  obtain ⟨pc, dead, mtime, last, nren, failed⟩ := wk
  obtain ⟨lock, now, tmps⟩ := sh
  simp only [pcOk] at hok
  ctl_forms Kind.symlink, true
  simp only [embed, Option.isSome_some, Option.isSome_none]
  cases pc with
  | idle => lk_simp true_and
  | create => cases lock <;> lk_simp true_and
  | closing => simp at hok
  | stat =>
    cases lock with
    | none => lk_simp true_and
    | some os =>
      obtain ⟨o, s⟩ := os
      by_cases hm : mtime = some s <;> lk_simp hm
  | resetTimer => lk_simp true_and
  | check => by_cases hx : now > last + g <;> lk_simp hx
  | tkRename => cases lock <;> lk_simp true_and
  | tkUnlink => by_cases hx : tmps.any (isMine w nren) = true <;> lk_simp hx
  | tkRestart => lk_simp true_and
  | sleep => lk_simp true_and
  | crit => lk_simp true_and
  | relRename => cases lock <;> lk_simp true_and
  | relUnlink => by_cases hx : tmps.any (isMine w nren) = true <;> lk_simp hx

theorem gstepW_open_grace (g : Nat) (sh : Shared) (w : Nat) (wk : Worker) (hok : pcOk ⟨.openExcl, some g⟩ wk.pc = true) :
    gstepW (lockOf .openExcl) ⟨.openExcl, some g⟩ sh w (embed (lockOf .openExcl) ⟨.openExcl, some g⟩ wk) =
      ((stepW ⟨.openExcl, some g⟩ sh w wk).1, embed (lockOf .openExcl) ⟨.openExcl, some g⟩ (stepW ⟨.openExcl, some g⟩ sh w wk).2.1, (stepW ⟨.openExcl, some g⟩ sh w wk).2.2) := by
  obtain ⟨pc, dead, mtime, last, nren, failed⟩ := wk
  obtain ⟨lock, now, tmps⟩ := sh
  simp only [pcOk] at hok
  ctl_forms Kind.openExcl, true
  simp only [embed, Option.isSome_some, Option.isSome_none]
  cases pc with
  | idle => lk_simp true_and
  | create => cases lock <;> lk_simp true_and
  | closing => lk_simp true_and
  | stat =>
    cases lock with
    | none => lk_simp true_and
    | some os =>
      obtain ⟨o, s⟩ := os
      by_cases hm : mtime = some s <;> lk_simp hm
  | resetTimer => lk_simp true_and
  | check => by_cases hx : now > last + g <;> lk_simp hx
  | tkRename => cases lock <;> lk_simp true_and
  | tkUnlink => by_cases hx : tmps.any (isMine w nren) = true <;> lk_simp hx
  | tkRestart => lk_simp true_and
  | sleep => lk_simp true_and
  | crit => lk_simp true_and
  | relRename => cases lock <;> lk_simp true_and
  | relUnlink => by_cases hx : tmps.any (isMine w nren) = true <;> lk_simp hx

theorem gstepW_symlink_nograce (sh : Shared) (w : Nat) (wk : Worker) (hok : pcOk ⟨.symlink, none⟩ wk.pc = true) :
    gstepW (lockOf .symlink) ⟨.symlink, none⟩ sh w (embed (lockOf .symlink) ⟨.symlink, none⟩ wk) =
      ((stepW ⟨.symlink, none⟩ sh w wk).1, embed (lockOf .symlink) ⟨.symlink, none⟩ (stepW ⟨.symlink, none⟩ sh w wk).2.1, (stepW ⟨.symlink, none⟩ sh w wk).2.2) := by
  obtain ⟨pc, dead, mtime, last, nren, failed⟩ := wk
  obtain ⟨lock, now, tmps⟩ := sh
  simp only [pcOk] at hok
  ctl_forms Kind.symlink, false
  simp only [embed, Option.isSome_some, Option.isSome_none]
  cases pc with
  | idle => lk_simp true_and
  | create => cases lock <;> lk_simp true_and
  | closing => simp at hok
  | stat => simp [pcOk, tkFree] at hok
  | resetTimer => simp [pcOk, tkFree] at hok
  | check => simp [pcOk, tkFree] at hok
  | tkRename => simp [pcOk, tkFree] at hok
  | tkUnlink => simp [pcOk, tkFree] at hok
  | tkRestart => simp [pcOk, tkFree] at hok
  | sleep => lk_simp true_and
  | crit => lk_simp true_and
  | relRename => cases lock <;> lk_simp true_and
  | relUnlink => by_cases hx : tmps.any (isMine w nren) = true <;> lk_simp hx

theorem gstepW_open_nograce (sh : Shared) (w : Nat) (wk : Worker) (hok : pcOk ⟨.openExcl, none⟩ wk.pc = true) :
    gstepW (lockOf .openExcl) ⟨.openExcl, none⟩ sh w (embed (lockOf .openExcl) ⟨.openExcl, none⟩ wk) =
      ((stepW ⟨.openExcl, none⟩ sh w wk).1, embed (lockOf .openExcl) ⟨.openExcl, none⟩ (stepW ⟨.openExcl, none⟩ sh w wk).2.1, (stepW ⟨.openExcl, none⟩ sh w wk).2.2) := by
  obtain ⟨pc, dead, mtime, last, nren, failed⟩ := wk
  obtain ⟨lock, now, tmps⟩ := sh
  simp only [pcOk] at hok
  ctl_forms Kind.openExcl, false
  simp only [embed, Option.isSome_some, Option.isSome_none]
  cases pc with
  | idle => lk_simp true_and
  | create => cases lock <;> lk_simp true_and
  | closing => lk_simp true_and
  | stat => simp [pcOk, tkFree] at hok
  | resetTimer => simp [pcOk, tkFree] at hok
  | check => simp [pcOk, tkFree] at hok
  | tkRename => simp [pcOk, tkFree] at hok
  | tkUnlink => simp [pcOk, tkFree] at hok
  | tkRestart => simp [pcOk, tkFree] at hok
  | sleep => lk_simp true_and
  | crit => lk_simp true_and
  | relRename => cases lock <;> lk_simp true_and
  | relUnlink => by_cases hx : tmps.any (isMine w nren) = true <;> lk_simp hx


/-- **one call of the generated lock class = one call of the hand model**, at every program point that
exists for the configuration -/
theorem gstepW_eq (cfg : Cfg) (sh : Shared) (w : Nat) (wk : Worker) (hok : pcOk cfg wk.pc = true) :
    gstepW (lockOf cfg.kind) cfg sh w (embed (lockOf cfg.kind) cfg wk) =
      ((stepW cfg sh w wk).1, embed (lockOf cfg.kind) cfg (stepW cfg sh w wk).2.1, (stepW cfg sh w wk).2.2) := by
  obtain ⟨kind, grace⟩ := cfg
  cases kind <;> cases grace
  · exact gstepW_symlink_nograce sh w wk hok
  · exact gstepW_symlink_grace _ sh w wk hok
  · exact gstepW_open_nograce sh w wk hok
  · exact gstepW_open_grace _ sh w wk hok

theorem pcOk_iff (cfg : Cfg) (pc : PC) :
    pcOk cfg pc = true ↔ (pc = .closing → cfg.kind = .openExcl) ∧ (cfg.grace = none → tkFree pc = true) := by
  obtain ⟨kind, grace⟩ := cfg
  cases kind <;> cases grace <;> cases pc <;> simp [pcOk, tkFree]

theorem stepW_closing (cfg : Cfg) (sh : Shared) (w : Nat) (wk : Worker) (h : (stepW cfg sh w wk).2.1.pc = .closing) :
    cfg.kind = .openExcl := by
  obtain ⟨kind, grace⟩ := cfg
  cases kind with
  | openExcl => rfl
  | symlink =>
    exfalso
    revert h
    unfold stepW
    split
    · simp
    · split
      · simp
      · cases grace <;> simp
    · simp
    · split
      · simp
      · split <;> simp
    · simp
    · split
      · simp only; split <;> simp
      · simp
    · unfold doRename; split <;> simp
    · unfold doUnlink; split <;> simp
    · simp
    · simp
    · simp
    · unfold doRename; split <;> simp
    · unfold doUnlink; split <;> simp

theorem stepW_pcOk (cfg : Cfg) (sh : Shared) (w : Nat) (wk : Worker) (hok : pcOk cfg wk.pc = true) :
    pcOk cfg (stepW cfg sh w wk).2.1.pc = true := by
  rw [pcOk_iff] at hok ⊢
  exact ⟨fun h => stepW_closing cfg sh w wk h, fun hg => stepW_tkFree cfg hg sh w wk (hok.2 hg)⟩

/-! ### whole states and runs -/

def embedSt (cfg : Cfg) (st : St) : GSt := { sh := st.sh, ws := st.ws.map (embed (lockOf cfg.kind) cfg) }

def PcOkSt (cfg : Cfg) (st : St) : Prop := ∀ (w : Nat) (wk : Worker), st.ws[w]? = some wk → pcOk cfg wk.pc = true

theorem updAt_map {α β : Type} (f : α → β) (l : List α) (i : Nat) (g : α → α) (g' : β → β) (h : ∀ a, f (g a) = g' (f a)) :
    (updAt l i g).map f = updAt (l.map f) i g' := by
  induction l generalizing i with
  | nil => rfl
  | cons a t ih => cases i <;> simp [updAt, h, ih]

theorem updAt_map_const {α β : Type} (f : α → β) (l : List α) (i : Nat) (a : α) :
    (updAt l i (fun _ => a)).map f = updAt (l.map f) i (fun _ => f a) :=
  updAt_map f l i _ _ (fun _ => rfl)

theorem gstep_eq (cfg : Cfg) (st : St) (e : Ev) (hok : PcOkSt cfg st) :
    gstep (lockOf cfg.kind) cfg (embedSt cfg st) e = (embedSt cfg (step cfg st e).1, (step cfg st e).2) := by
  cases e with
  | tick => rfl
  | crash c =>
    simp only [gstep, step, embedSt, List.getElem?_map]
    cases hc : st.ws[c]? with
    | none => simp
    | some ck =>
      cases hd : ck.dead with
      | true => simp [embed, hd]
      | false =>
        have hd' : (embed (lockOf cfg.kind) cfg ck).dead = false := hd
        simp only [Option.map_some, hd, hd', Bool.false_eq_true, ↓reduceIte]
        congr 2
        exact (updAt_map (embed (lockOf cfg.kind) cfg) st.ws c (fun x => { x with dead := true })
          (fun x => { x with dead := true }) (fun a => rfl)).symm
  | step a =>
    simp only [gstep, step, embedSt, List.getElem?_map]
    cases ha : st.ws[a]? with
    | none => simp
    | some ak =>
      cases hd : ak.dead with
      | true => simp [embed, hd]
      | false =>
        have h := gstepW_eq cfg st.sh a ak (hok a ak ha)
        simp only [Option.map_some, hd, Bool.false_eq_true, ↓reduceIte]
        have hd' : (embed (lockOf cfg.kind) cfg ak).dead = false := hd
        simp only [hd', Bool.false_eq_true, ↓reduceIte, h]
        congr 2
        exact (updAt_map_const _ _ _ _).symm

theorem pcOkSt_step (cfg : Cfg) (st : St) (e : Ev) (hok : PcOkSt cfg st) : PcOkSt cfg (step cfg st e).1 := by
  cases e with
  | tick => exact hok
  | crash c =>
    simp only [step]
    split
    · rename_i ck hc
      split
      · exact hok
      · intro w wk hw
        simp only at hw
        rw [updAt_getElem?] at hw
        split at hw
        · rename_i e
          subst e
          simp only [hc, Option.map_some, Option.some.injEq] at hw
          subst hw
          exact hok w ck hc
        · exact hok w wk hw
    · exact hok
  | step a =>
    cases ha : st.ws[a]? with
    | none => rw [step_unknown cfg st a ha]; exact hok
    | some ak =>
      cases hd : ak.dead with
      | true => rw [step_dead cfg st a ak ha hd]; exact hok
      | false =>
        rw [step_live cfg st a ak ha hd]
        intro w wk hw
        simp only at hw
        by_cases hwa : w = a
        · subst hwa
          rw [updAt_self st.ws w ak _ ha] at hw
          simp only [Option.some.injEq] at hw
          subst hw
          exact stepW_pcOk cfg _ _ _ (hok w ak ha)
        · rw [updAt_other st.ws a w _ hwa] at hw
          exact hok w wk hw

theorem pcOkSt_init (cfg : Cfg) (n : Nat) : PcOkSt cfg (init n) := by
  intro w wk h
  simp only [init] at h
  rw [List.getElem?_replicate] at h
  split at h
  · simp only [Option.some.injEq] at h
    subst h
    simp [freshWorker, pcOk, tkFree]
  · simp at h

theorem pcOkSt_run (cfg : Cfg) (evs : List Ev) : ∀ (st : St), PcOkSt cfg st → PcOkSt cfg (run cfg st evs) := by
  induction evs with
  | nil => intro st h; exact h
  | cons e es ih => intro st h; exact ih _ (pcOkSt_step cfg st e h)

theorem gFresh_eq (cfg : Cfg) : gFresh (lockOf cfg.kind) cfg = embed (lockOf cfg.kind) cfg freshWorker := by
  obtain ⟨kind, grace⟩ := cfg
  cases kind <;> cases grace <;>
    simp [gFresh, embed, ctlOf, walk, pathTo, fakeCfg, freshWorker, normalise, fuelN, lockOf, symlinkLock, openLock]

theorem gInit_eq (cfg : Cfg) (n : Nat) : gInit (lockOf cfg.kind) cfg n = embedSt cfg (init n) := by
  simp [gInit, embedSt, init, gFresh_eq]

/-- **the generated lock classes run exactly like the hand model**: same shared state, same workers
(control = the hand model's program point), after every schedule -/
theorem grun_eq (cfg : Cfg) (evs : List Ev) : ∀ (st : St), PcOkSt cfg st →
    grun (lockOf cfg.kind) cfg (embedSt cfg st) evs = embedSt cfg (run cfg st evs) := by
  induction evs with
  | nil => intro st _; rfl
  | cons e es ih =>
    intro st h
    simp only [grun, run, gstep_eq cfg st e h]
    exact ih _ (pcOkSt_step cfg st e h)

/-- the outcomes of the calls of a run of the hand model -/
def htrace (cfg : Cfg) (st : St) : List Ev → List Label
  | [] => []
  | e :: es => (step cfg st e).2 :: htrace cfg (step cfg st e).1 es

/-- … and every call has the same outcome -/
theorem gtrace_eq (cfg : Cfg) (evs : List Ev) : ∀ (st : St), PcOkSt cfg st →
    gtrace (lockOf cfg.kind) cfg (embedSt cfg st) evs = htrace cfg st evs := by
  induction evs with
  | nil => intro st _; rfl
  | cons e es ih =>
    intro st h
    simp only [gtrace, htrace, gstep_eq cfg st e h]
    rw [ih _ (pcOkSt_step cfg st e h)]


/-! ### reading the program point back from the control -/

theorem pcOfCtl_symlink_g (pc : PC) (hok : pcOk ⟨.symlink, some 0⟩ pc = true) :
    pcOfCtl (ctlOf (lockOf .symlink) .symlink true pc) = some pc := by
  ctl_forms Kind.symlink, true
  cases pc <;> simp [pcOk, tkFree] at hok <;> simp only [h_idle, h_create, h_closing, h_stat, h_resetTimer, h_check, h_tkRename, h_tkUnlink, h_tkRestart, h_sleep, h_crit, h_relRename, h_relUnlink, pcOfCtl]

theorem pcOfCtl_symlink_n (pc : PC) (hok : pcOk ⟨.symlink, none⟩ pc = true) :
    pcOfCtl (ctlOf (lockOf .symlink) .symlink false pc) = some pc := by
  ctl_forms Kind.symlink, false
  cases pc <;> simp [pcOk, tkFree] at hok <;> simp only [h_idle, h_create, h_closing, h_stat, h_resetTimer, h_check, h_tkRename, h_tkUnlink, h_tkRestart, h_sleep, h_crit, h_relRename, h_relUnlink, pcOfCtl]

theorem pcOfCtl_openExcl_g (pc : PC) (hok : pcOk ⟨.openExcl, some 0⟩ pc = true) :
    pcOfCtl (ctlOf (lockOf .openExcl) .openExcl true pc) = some pc := by
  ctl_forms Kind.openExcl, true
  cases pc <;> simp [pcOk, tkFree] at hok <;> simp only [h_idle, h_create, h_closing, h_stat, h_resetTimer, h_check, h_tkRename, h_tkUnlink, h_tkRestart, h_sleep, h_crit, h_relRename, h_relUnlink, pcOfCtl]

theorem pcOfCtl_openExcl_n (pc : PC) (hok : pcOk ⟨.openExcl, none⟩ pc = true) :
    pcOfCtl (ctlOf (lockOf .openExcl) .openExcl false pc) = some pc := by
  ctl_forms Kind.openExcl, false
  cases pc <;> simp [pcOk, tkFree] at hok <;> simp only [h_idle, h_create, h_closing, h_stat, h_resetTimer, h_check, h_tkRename, h_tkUnlink, h_tkRestart, h_sleep, h_crit, h_relRename, h_relUnlink, pcOfCtl]

theorem pcOfCtl_ctlOf (cfg : Cfg) (pc : PC) (hok : pcOk cfg pc = true) :
    pcOfCtl (ctlOf (lockOf cfg.kind) cfg.kind cfg.grace.isSome pc) = some pc := by
  obtain ⟨kind, grace⟩ := cfg
  cases kind <;> cases grace
  · exact pcOfCtl_symlink_n pc hok
  · exact pcOfCtl_symlink_g pc (by simpa [pcOk] using hok)
  · exact pcOfCtl_openExcl_n pc hok
  · exact pcOfCtl_openExcl_g pc (by simpa [pcOk] using hok)

theorem toWorker_embed (cfg : Cfg) (wk : Worker) (hok : pcOk cfg wk.pc = true) :
    (embed (lockOf cfg.kind) cfg wk).toWorker = wk := by
  simp [GWorker.toWorker, embed, pcOfCtl_ctlOf cfg wk.pc hok]

theorem toSt_embedSt (cfg : Cfg) (st : St) (hok : PcOkSt cfg st) : (embedSt cfg st).toSt = st := by
  obtain ⟨sh, ws⟩ := st
  simp only [GSt.toSt, embedSt, List.map_map, St.mk.injEq, true_and]
  apply List.ext_getElem?
  intro i
  simp only [List.getElem?_map]
  cases h : ws[i]? with
  | none => rfl
  | some wk => simp [toWorker_embed cfg wk (hok i wk h)]

/-- **the run of the generated lock classes, read back, is the run of the hand model** -/
theorem toSt_grun (cfg : Cfg) (n : Nat) (evs : List Ev) :
    (grun (lockOf cfg.kind) cfg (gInit (lockOf cfg.kind) cfg n) evs).toSt = run cfg (init n) evs := by
  rw [gInit_eq, grun_eq cfg evs (init n) (pcOkSt_init cfg n)]
  exact toSt_embedSt cfg _ (pcOkSt_run cfg evs (init n) (pcOkSt_init cfg n))


theorem htrace_snoc (cfg : Cfg) (es : List Ev) (e : Ev) : ∀ (st : St),
    htrace cfg st (es ++ [e]) = htrace cfg st es ++ [(step cfg (run cfg st es) e).2] := by
  induction es with
  | nil => intro st; rfl
  | cons x rest ih => intro st; simp only [List.cons_append, htrace, run, ih]

theorem gtrace_init (cfg : Cfg) (n : Nat) (evs : List Ev) :
    gtrace (lockOf cfg.kind) cfg (gInit (lockOf cfg.kind) cfg n) evs = htrace cfg (init n) evs := by
  rw [gInit_eq]; exact gtrace_eq cfg evs (init n) (pcOkSt_init cfg n)


theorem gsafeSched_eq (cfg : Cfg) (evs : List Ev) : ∀ (st : St), PcOkSt cfg st →
    gsafeSched (lockOf cfg.kind) cfg (embedSt cfg st) evs = safeSched cfg st evs := by
  induction evs with
  | nil => intro st _; rfl
  | cons e es ih =>
    intro st h
    simp only [gsafeSched, safeSched, gstep_eq cfg st e h, toSt_embedSt cfg st h]
    rw [ih _ (pcOkSt_step cfg st e h)]

theorem gpunctualSched_eq (cfg : Cfg) (g : Nat) (evs : List Ev) : ∀ (st : St), PcOkSt cfg st →
    gpunctualSched (lockOf cfg.kind) cfg g (embedSt cfg st) evs = punctualSched cfg g st evs := by
  induction evs with
  | nil => intro st _; rfl
  | cons e es ih =>
    intro st h
    simp only [gpunctualSched, punctualSched, gstep_eq cfg st e h, toSt_embedSt cfg st h]
    rw [ih _ (pcOkSt_step cfg st e h)]

end OptunaVerif.FileIR
