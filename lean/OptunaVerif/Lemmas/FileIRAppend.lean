import OptunaVerif.Generated.JournalFileMethods
import OptunaVerif.Lemmas.JournalAppend
/-!
Lemmas for the translator tie of `JournalFileBackend.append_logs` (`Props/C07FileGen.lean`): the step
interpreter of `Model/FileIR.lean` applied to `Generated/JournalFileMethods.appendLogsSteps` is the hand
model's appender (`Model/JournalAppend.lean`): same bytes, same effects in the same order, the same acts,
after every prefix of the steps.  Re-checked against the regenerated data on every run.
-/
set_option linter.unusedSimpArgs false
set_option linter.unusedVariables false
namespace OptunaVerif.FileIR
open OptunaVerif OptunaVerif.JournalFile OptunaVerif.JournalAppend OptunaVerif.Generated.JournalFileMethods

theorem scanBackFrom_append (g : List Nat) (b : Nat) : ∀ (k : Nat), k ≤ g.length → scanBackFrom (g ++ [b]) k = scanBackFrom g k := by
  intro k
  induction k with
  | zero => intro _; rfl
  | succ k ih =>
    intro hk
    have hlt : k < g.length := hk
    simp only [scanBackFrom, List.getElem?_append_left hlt, ih (Nat.le_of_lt hlt)]

theorem tail_length_le (f : List Nat) : (JournalAppend.tail f).length ≤ f.length := by
  have := congrArg List.length (file_eq f)
  simp only [List.length_append] at this
  omega

theorem scanBack_eq : ∀ (n : Nat) (f : List Nat), f.length = n →
    scanBackFrom f f.length = f.length - (JournalAppend.tail f).length := by
  intro n
  induction n with
  | zero =>
    intro f hf
    have : f = [] := List.eq_nil_of_length_eq_zero hf
    subst this
    simp [scanBackFrom]
  | succ n ih =>
    intro f hf
    rcases List.eq_nil_or_concat f with h | ⟨g, b, h⟩
    · subst h; simp at hf
    · rw [List.concat_eq_append] at h
      subst h
      have hg : g.length = n := by simpa using hf
      simp only [List.length_append, List.length_cons, List.length_nil, Nat.zero_add, scanBackFrom]
      have hb : (g ++ [b])[g.length]? = some b := by simp
      rw [hb]
      by_cases hbn : b = nl
      · subst hbn
        simp [(tail_snoc_nl g).2]
      · have : ¬ (some b = some nl) := by simpa using hbn
        rw [if_neg this, scanBackFrom_append g b g.length (Nat.le_refl _), ih g hg, (tail_snoc_ne g b hbn).2]
        have := tail_length_le g
        simp only [List.length_append, List.length_cons, List.length_nil]
        omega

theorem repair_take (f : List Nat) : f.take (scanBackFrom f f.length) = repair f := by
  rw [scanBack_eq f.length f rfl]; rfl

/-- the file after the generated `append_logs` -/
theorem append_file_eq (f r : List Nat) :
    (aRun r appendLogsSteps (aInit f)).file = repair f ++ (r ++ [nl]) ∧
    (aRun r appendLogsSteps (aInit f)).ok = true ∧ (aRun r appendLogsSteps (aInit f)).locked = false ∧
    (aRun r appendLogsSteps (aInit f)).h = none := by
  have hp := scanBack_eq f.length f rfl
  have hle := tail_length_le f
  by_cases hn : scanBackFrom f f.length = f.length
  · have : repair f = f := by rw [← repair_take, hn, List.take_length]
    simp [aRun, appendLogsSteps, aStep, aInit, deliver, bad, hn, this]
  · simp [aRun, appendLogsSteps, aStep, aInit, deliver, bad, hn, repair_take]

theorem tail_nil_iff (f : List Nat) : JournalAppend.tail f = [] ↔ scanBackFrom f f.length = f.length := by
  have hp := scanBack_eq f.length f rfl
  have hle := tail_length_le f
  constructor
  · intro h; rw [hp, h]; simp
  · intro h
    rw [hp] at h
    cases ht : JournalAppend.tail f with
    | nil => rfl
    | cons a t =>
      rw [ht] at h hle
      simp only [List.length_cons] at h hle
      omega

/-- what reaches the file and the lock, in order: the hand model's appender -/
theorem append_effects_eq (f r : List Nat) :
    (aRun r appendLogsSteps (aInit f)).effs.reverse = modelEffects f r := by
  by_cases hn : scanBackFrom f f.length = f.length
  · have ht := (tail_nil_iff f).2 hn
    simp [aRun, appendLogsSteps, aStep, aInit, deliver, bad, hn, modelEffects, ht]
  · have ht : ¬ JournalAppend.tail f = [] := fun h => hn ((tail_nil_iff f).1 h)
    have hl : (repair f).length = scanBackFrom f f.length := by
      rw [← repair_take]; simp; exact (by rw [scanBack_eq f.length f rfl]; omega)
    simp [aRun, appendLogsSteps, aStep, aInit, deliver, bad, hn, modelEffects, ht, hl]

/-- the acts of the hand model the generated step sequence stands for -/
theorem append_acts_eq (w : Nat) (f r : List Nat) :
    actsOfRun w r appendLogsSteps (aInit f) =
      [.acquire w r, .repair w] ++ List.replicate (r.length + 1) (.writeByte w) ++ [.release w] := by
  by_cases hn : scanBackFrom f f.length = f.length
  · simp [actsOfRun, actsOfStep, appendLogsSteps, aStep, aInit, deliver, bad, hn]
  · simp [actsOfRun, actsOfStep, appendLogsSteps, aStep, aInit, deliver, bad, hn]

theorem setW_self (ws : List Worker) (w : Nat) (wk x : Worker) (h : ws[w]? = some wk) : (setW ws w x)[w]? = some x := by
  unfold setW; rw [updAt_getElem?]; simp [h]

theorem setW_setW (ws : List Worker) (w : Nat) (x y : Worker) : setW (setW ws w x) w y = setW ws w y := by
  unfold setW
  induction ws generalizing w with
  | nil => rfl
  | cons c t ih => cases w <;> simp [updAt, ih]

/-- delivering the bytes `data` one `writeByte` at a time -/
theorem run_writeBytes (w : Nat) : ∀ (data : List Nat) (f : List Nat) (ws : List Worker) (a : List (List Nat)) (wk : Worker)
    (b : Nat), ws[w]? = some wk → wk.dead = false → wk.stage = some (.writing (b :: data)) →
    JournalAppend.run { file := f, lock := some w, ws := ws, acked := a } (List.replicate (data.length + 1) (.writeByte w)) =
      { file := f ++ b :: data, lock := some w, ws := setW ws w { wk with stage := some .written }, acked := a } := by
  intro data
  induction data with
  | nil =>
    intro f ws a wk b hw hd hs
    simp [JournalAppend.run, JournalAppend.step, hw, hd, hs]
  | cons c rest ih =>
    intro f ws a wk b hw hd hs
    rw [show (c :: rest).length + 1 = (rest.length + 1) + 1 from rfl, List.replicate_succ]
    simp only [JournalAppend.run, List.foldl_cons]
    have h1 : JournalAppend.step { file := f, lock := some w, ws := ws, acked := a } (.writeByte w) =
        { file := f ++ [b], lock := some w, ws := setW ws w { wk with stage := some (.writing (c :: rest)) }, acked := a } := by
      simp [JournalAppend.step, hw, hd, hs]
    rw [h1]
    have := ih (f ++ [b]) (setW ws w { wk with stage := some (.writing (c :: rest)) }) a
      { wk with stage := some (.writing (c :: rest)) } c (setW_self ws w wk _ hw) hd rfl
    simp only [JournalAppend.run] at this
    rw [this]
    simp [setW_setW]

/-- the hand model's uninterrupted append: acquire, repair, the bytes, release -/
theorem hand_append (f : List Nat) (a : List (List Nat)) (ws : List Worker) (w : Nat) (wk : Worker) (r : List Nat)
    (hw : ws[w]? = some wk) (hd : wk.dead = false) (hs : wk.stage = none) (hr : r.contains nl = false) :
    JournalAppend.run { file := f, lock := none, ws := ws, acked := a }
        ([.acquire w r, .repair w] ++ List.replicate (r.length + 1) (.writeByte w) ++ [.release w]) =
      { file := repair f ++ (r ++ [nl]), lock := none, ws := setW ws w { wk with stage := none, record := r }, acked := a ++ [r] } := by
  simp only [JournalAppend.run, List.foldl_append, List.foldl_cons, List.foldl_nil]
  have h1 : JournalAppend.step { file := f, lock := none, ws := ws, acked := a } (.acquire w r) =
      { file := f, lock := some w, ws := setW ws w { wk with stage := some .locked, record := r }, acked := a } := by
    have hr' : nl ∉ r := by simpa using hr
    simp [JournalAppend.step, hw, hd, hs, hr']
  rw [h1]
  have h2 : JournalAppend.step { file := f, lock := some w, ws := setW ws w { wk with stage := some .locked, record := r }, acked := a } (.repair w) =
      { file := repair f, lock := some w,
        ws := setW ws w { wk with stage := some (.writing (r ++ [nl])), record := r }, acked := a } := by
    simp [JournalAppend.step, setW_self ws w wk _ hw, hd, setW_setW]
  rw [h2]
  cases r with
  | nil =>
    have := run_writeBytes w [] (repair f) (setW ws w { wk with stage := some (.writing ([] ++ [nl])), record := [] }) a
      { wk with stage := some (.writing ([] ++ [nl])), record := [] } nl (setW_self ws w wk _ hw) hd rfl
    simp only [JournalAppend.run, List.length_nil, Nat.zero_add] at this ⊢
    rw [this]
    simp [JournalAppend.step, setW_self, hw, hd, setW_setW]
  | cons b rest =>
    have := run_writeBytes w (rest ++ [nl]) (repair f)
      (setW ws w { wk with stage := some (.writing (b :: rest ++ [nl])), record := b :: rest }) a
      { wk with stage := some (.writing (b :: rest ++ [nl])), record := b :: rest } b (setW_self ws w wk _ hw) hd rfl
    simp only [JournalAppend.run, List.length_append, List.length_cons, List.length_nil, Nat.zero_add] at this ⊢
    rw [this]
    simp [JournalAppend.step, setW_self, hw, hd, setW_setW]

/-- … up to the point where every byte is in the file (before `release`) -/
theorem hand_append_written (f : List Nat) (a : List (List Nat)) (ws : List Worker) (w : Nat) (wk : Worker) (r : List Nat)
    (hw : ws[w]? = some wk) (hd : wk.dead = false) (hs : wk.stage = none) (hr : r.contains nl = false) :
    JournalAppend.run { file := f, lock := none, ws := ws, acked := a }
        ([.acquire w r, .repair w] ++ List.replicate (r.length + 1) (.writeByte w)) =
      { file := repair f ++ (r ++ [nl]), lock := some w, ws := setW ws w { wk with stage := some .written, record := r }, acked := a } := by
  simp only [JournalAppend.run, List.foldl_append, List.foldl_cons, List.foldl_nil]
  have hr' : nl ∉ r := by simpa using hr
  have h1 : JournalAppend.step { file := f, lock := none, ws := ws, acked := a } (.acquire w r) =
      { file := f, lock := some w, ws := setW ws w { wk with stage := some .locked, record := r }, acked := a } := by
    simp [JournalAppend.step, hw, hd, hs, hr']
  rw [h1]
  have h2 : JournalAppend.step { file := f, lock := some w, ws := setW ws w { wk with stage := some .locked, record := r }, acked := a } (.repair w) =
      { file := repair f, lock := some w,
        ws := setW ws w { wk with stage := some (.writing (r ++ [nl])), record := r }, acked := a } := by
    simp [JournalAppend.step, setW_self ws w wk _ hw, hd, setW_setW]
  rw [h2]
  cases r with
  | nil =>
    have := run_writeBytes w [] (repair f) (setW ws w { wk with stage := some (.writing ([] ++ [nl])), record := [] }) a
      { wk with stage := some (.writing ([] ++ [nl])), record := [] } nl (setW_self ws w wk _ hw) hd rfl
    simp only [JournalAppend.run, List.length_nil, Nat.zero_add] at this ⊢
    rw [this]
    simp [setW_setW]
  | cons b rest =>
    have := run_writeBytes w (rest ++ [nl]) (repair f)
      (setW ws w { wk with stage := some (.writing (b :: rest ++ [nl])), record := b :: rest }) a
      { wk with stage := some (.writing (b :: rest ++ [nl])), record := b :: rest } b (setW_self ws w wk _ hw) hd rfl
    simp only [JournalAppend.run, List.length_append, List.length_cons, List.length_nil, Nat.zero_add] at this ⊢
    rw [this]
    simp [setW_setW]

/-- **death after any step**: after the first `k` steps of the generated `append_logs` the file and the
lock are those of the hand model after the acts these steps stand for -/
theorem append_prefix_sim (k : Nat) (f : List Nat) (a : List (List Nat)) (ws : List Worker) (w : Nat) (wk : Worker) (r : List Nat)
    (hw : ws[w]? = some wk) (hd : wk.dead = false) (hs : wk.stage = none) (hr : r.contains nl = false) :
    (JournalAppend.run { file := f, lock := none, ws := ws, acked := a }
        (actsOfRun w r (appendLogsSteps.take k) (aInit f))).file = (aRun r (appendLogsSteps.take k) (aInit f)).file ∧
    ((JournalAppend.run { file := f, lock := none, ws := ws, acked := a }
        (actsOfRun w r (appendLogsSteps.take k) (aInit f))).lock = some w ↔ (aRun r (appendLogsSteps.take k) (aInit f)).locked = true) := by
  have hr' : nl ∉ r := by simpa using hr
  have hacq : JournalAppend.step { file := f, lock := none, ws := ws, acked := a } (.acquire w r) =
      { file := f, lock := some w, ws := setW ws w { wk with stage := some .locked, record := r }, acked := a } := by
    simp [JournalAppend.step, hw, hd, hs, hr']
  have hrep : JournalAppend.step { file := f, lock := some w, ws := setW ws w { wk with stage := some .locked, record := r }, acked := a } (.repair w) =
      { file := repair f, lock := some w,
        ws := setW ws w { wk with stage := some (.writing (r ++ [nl])), record := r }, acked := a } := by
    simp [JournalAppend.step, setW_self ws w wk _ hw, hd, setW_setW]
  have hwr := hand_append_written f a ws w wk r hw hd hs hr
  have hall := hand_append f a ws w wk r hw hd hs hr
  simp only [List.append_assoc, List.cons_append, List.nil_append] at hwr hall
  have hwb := hwr
  simp only [JournalAppend.run, List.foldl_cons, hacq, hrep] at hwb
  have hab := hall
  simp only [JournalAppend.run, List.foldl_cons, List.foldl_append, List.foldl_nil, hacq, hrep] at hab
  rw [hwb] at hab
  by_cases hn : scanBackFrom f f.length = f.length
  · have hrp : repair f = f := by rw [← repair_take, hn, List.take_length]
    rw [hrp] at hwb hab
    rcases k with _|_|_|_|_|_|_|_|_|_|_|_|_|_|k <;>
      simp [appendLogsSteps, List.take, actsOfRun, actsOfStep, aRun, aStep, aInit, deliver, bad, hn, JournalAppend.run, List.foldl_append, hacq, hrep, hrp, hwb, hab]
  · rcases k with _|_|_|_|_|_|_|_|_|_|_|_|_|_|k <;>
      simp [appendLogsSteps, List.take, actsOfRun, actsOfStep, aRun, aStep, aInit, deliver, bad, hn, JournalAppend.run, List.foldl_append, hacq, hrep, repair_take, hwb, hab]

/-- records are not disturbed by bytes without a newline, and a newline completes exactly one record -/
theorem records_append_noNl (r : List Nat) : ∀ (g : List Nat), nl ∉ r →
    records (g ++ r) = records g ∧ JournalAppend.tail (g ++ r) = JournalAppend.tail g ++ r := by
  induction r with
  | nil => intro g _; simp
  | cons b rest ih =>
    intro g h
    have hb : b ≠ nl := fun e => h (by simp [e])
    have hrest : nl ∉ rest := fun e => h (by simp [e])
    have := ih (g ++ [b]) hrest
    rw [List.append_assoc] at this
    simp only [List.singleton_append] at this
    rw [this.1, this.2, (tail_snoc_ne g b hb).1, (tail_snoc_ne g b hb).2]
    simp

theorem records_after_append (f r : List Nat) (hr : nl ∉ r) :
    records (repair f ++ (r ++ [nl])) = records f ++ [r] ∧ JournalAppend.tail (repair f ++ (r ++ [nl])) = [] := by
  have h1 := records_append_noNl r (repair f) hr
  rw [(records_repair f).1, (records_repair f).2] at h1
  rw [← List.append_assoc, (tail_snoc_nl (repair f ++ r)).1, (tail_snoc_nl (repair f ++ r)).2, h1.1, h1.2]
  simp

/-- the file after the first `k` steps is the old file, the repaired file, or the repaired file with the
whole record -/
theorem append_prefix_file (k : Nat) (f r : List Nat) :
    (aRun r (appendLogsSteps.take k) (aInit f)).file = f ∨
    (aRun r (appendLogsSteps.take k) (aInit f)).file = repair f ∨
    (aRun r (appendLogsSteps.take k) (aInit f)).file = repair f ++ (r ++ [nl]) := by
  by_cases hn : scanBackFrom f f.length = f.length
  · have hrp : repair f = f := by rw [← repair_take, hn, List.take_length]
    rcases k with _|_|_|_|_|_|_|_|_|_|_|_|_|_|k <;>
      simp [appendLogsSteps, List.take, aRun, aStep, aInit, deliver, bad, hn, hrp]
  · rcases k with _|_|_|_|_|_|_|_|_|_|_|_|_|_|k <;>
      simp [appendLogsSteps, List.take, aRun, aStep, aInit, deliver, bad, hn, repair_take]

/-- the steps of the tail repair: everything up to and including the end of the `rb+` block -/
def notCloseRW : AStep → Bool
  | .closeRW => false
  | _ => true

def upToCloseRW (steps : List AStep) : List AStep := steps.takeWhile notCloseRW ++ [.closeRW]

theorem repair_block_eq (f r : List Nat) :
    (aRun r (upToCloseRW appendLogsSteps) (aInit f)).file = repair f ∧
    (aRun r (upToCloseRW appendLogsSteps) (aInit f)).ok = true ∧
    (aRun r (upToCloseRW appendLogsSteps) (aInit f)).h = none := by
  by_cases hn : scanBackFrom f f.length = f.length
  · have hrp : repair f = f := by rw [← repair_take, hn, List.take_length]
    simp [upToCloseRW, notCloseRW, appendLogsSteps, List.takeWhile, aRun, aStep, aInit, deliver, bad, hn, hrp]
  · simp [upToCloseRW, notCloseRW, appendLogsSteps, List.takeWhile, aRun, aStep, aInit, deliver, bad, hn, repair_take]

end OptunaVerif.FileIR
