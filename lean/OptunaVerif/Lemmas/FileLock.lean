import OptunaVerif.Model.FileLock
/-!
Lemmas about the small-step file-lock model (`Model/FileLock.lean`): what one call does to the lock
path, the invariant "a live worker that has created the lock file and not yet renamed it away is the
creator of the lock file that exists", its preservation by every event that is not a takeover of a
live creator's lock.
-/
namespace OptunaVerif.FileLock

/-! ### one call of one worker -/

theorem doRename_dead (sh : Shared) (w : Nat) (wk : Worker) (p : PC) (f : Worker) (hf : f.dead = wk.dead) :
    (doRename sh w wk p f).2.1.dead = wk.dead := by
  unfold doRename; split <;> simp [hf]

theorem doUnlink_dead (sh : Shared) (w : Nat) (wk : Worker) (p : PC) (f : Worker) (hf : f.dead = wk.dead) :
    (doUnlink sh w wk p f).2.1.dead = wk.dead := by
  unfold doUnlink; split <;> simp [hf]

theorem stepW_dead (cfg : Cfg) (sh : Shared) (w : Nat) (wk : Worker) :
    (stepW cfg sh w wk).2.1.dead = wk.dead := by
  unfold stepW
  split
  · rfl
  · split <;> rfl
  · rfl
  · split
    · rfl
    · split <;> rfl
  · rfl
  · split <;> rfl
  · exact doRename_dead _ _ _ _ _ rfl
  · exact doUnlink_dead _ _ _ _ _ rfl
  · rfl
  · rfl
  · rfl
  · exact doRename_dead _ _ _ _ _ rfl
  · exact doUnlink_dead _ _ _ _ _ rfl

/-- what a call can do to the lock path -/
inductive LockEffect (sh sh' : Shared) (w : Nat) (wk wk' : Worker) : Prop where
  /-- the lock path is untouched and the worker does not start holding -/
  | same (h : sh'.lock = sh.lock) (hp : holding wk'.pc = true → holding wk.pc = true)
  /-- exclusive create succeeded -/
  | created (h0 : sh.lock = none) (h : sh'.lock = some (w, sh.now))
  /-- a rename removed the lock file -/
  | removed (o s : Nat) (h0 : sh.lock = some (o, s)) (h : sh'.lock = none) (hp : holding wk'.pc = false)
      (hpc : wk.pc = .tkRename ∨ wk.pc = .relRename)

theorem doRename_effect (sh : Shared) (w : Nat) (wk : Worker) (p : PC) (f : Worker)
    (hp : holding p = false) (hf : holding f.pc = false) (hpc : wk.pc = .tkRename ∨ wk.pc = .relRename) :
    LockEffect sh (doRename sh w wk p f).1 w wk (doRename sh w wk p f).2.1 := by
  unfold doRename
  split
  · rename_i o s h0
    exact .removed o s h0 rfl hp hpc
  · exact .same rfl (by simp [hf])

theorem doUnlink_effect (sh : Shared) (w : Nat) (wk : Worker) (p : PC) (f : Worker)
    (hp : holding p = false) (hf : holding f.pc = false) :
    LockEffect sh (doUnlink sh w wk p f).1 w wk (doUnlink sh w wk p f).2.1 := by
  unfold doUnlink
  split
  · exact .same rfl (by simp [hp])
  · exact .same rfl (by simp [hf])

theorem stepW_effect (cfg : Cfg) (sh : Shared) (w : Nat) (wk : Worker) :
    LockEffect sh (stepW cfg sh w wk).1 w wk (stepW cfg sh w wk).2.1 := by
  unfold stepW
  split
  · exact .same rfl (by simp [holding])
  · split
    · rename_i h0
      exact .created h0 rfl
    · refine .same rfl ?_
      cases cfg.grace <;> simp [holding]
  · rename_i hpc
    exact .same rfl (by simp [holding, hpc])
  · split
    · exact .same rfl (by simp [holding])
    · split
      · exact .same rfl (by simp [holding])
      · exact .same rfl (by simp [holding])
  · exact .same rfl (by simp [holding])
  · split
    · refine .same rfl ?_
      simp only
      split <;> simp [holding]
    · exact .same rfl (by simp [holding])
  · rename_i hpc
    exact doRename_effect _ _ _ _ _ rfl rfl (Or.inl hpc)
  · exact doUnlink_effect _ _ _ _ _ rfl rfl
  · exact .same rfl (by simp [holding])
  · exact .same rfl (by simp [holding])
  · rename_i hpc
    exact .same rfl (by simp [holding, hpc])
  · rename_i hpc
    exact doRename_effect _ _ _ _ _ rfl rfl (Or.inr hpc)
  · exact doUnlink_effect _ _ _ _ _ rfl rfl

/-! ### events -/

theorem step_live (cfg : Cfg) (st : St) (w : Nat) (wk : Worker) (hw : st.ws[w]? = some wk) (hl : wk.dead = false) :
    step cfg st (.step w) =
      ({ sh := (stepW cfg st.sh w wk).1, ws := updAt st.ws w (fun _ => (stepW cfg st.sh w wk).2.1) },
       (stepW cfg st.sh w wk).2.2) := by
  simp [step, hw, hl]

theorem step_dead (cfg : Cfg) (st : St) (w : Nat) (wk : Worker) (hw : st.ws[w]? = some wk) (hl : wk.dead = true) :
    step cfg st (.step w) = (st, .noop) := by
  simp [step, hw, hl]

theorem step_unknown (cfg : Cfg) (st : St) (w : Nat) (hw : st.ws[w]? = none) :
    step cfg st (.step w) = (st, .noop) := by
  simp [step, hw]

theorem updAt_self {α : Type} (l : List α) (i : Nat) (a x : α) (h : l[i]? = some a) :
    (updAt l i (fun _ => x))[i]? = some x := by
  rw [updAt_getElem?]; simp [h]

theorem updAt_other {α : Type} (l : List α) (i j : Nat) (f : α → α) (h : j ≠ i) :
    (updAt l i f)[j]? = l[j]? := by
  rw [updAt_getElem?]; simp [h]

/-- **the invariant**: a live worker between its successful create and its own rename is the creator
of the lock file that exists now -/
def Inv (st : St) : Prop :=
  ∀ (w : Nat) (wk : Worker), st.ws[w]? = some wk → wk.dead = false → holding wk.pc = true → ∃ s, st.sh.lock = some (w, s)

theorem inv_init (n : Nat) : Inv (init n) := by
  intro w wk h _ hh
  simp only [init] at h
  rw [List.getElem?_replicate] at h
  split at h
  · simp only [Option.some.injEq] at h
    subst h
    simp [freshWorker, holding] at hh
  · simp at h

theorem inv_step (cfg : Cfg) (st : St) (e : Ev) (hi : Inv st) (hs : liveTakeoverAt st e = false) :
    Inv (step cfg st e).1 := by
  cases e with
  | tick => exact fun w wk h hl hh => hi w wk h hl hh
  | crash c =>
    simp only [step]
    split
    · rename_i ck hc
      split
      · exact hi
      · intro w wk h hl hh
        simp only at h
        rw [updAt_getElem?] at h
        split at h
        · rename_i e
          subst e
          simp only [hc, Option.map_some, Option.some.injEq] at h
          subst h
          simp at hl
        · exact hi w wk h hl hh
    · exact hi
  | step a =>
    cases ha : st.ws[a]? with
    | none => rw [step_unknown cfg st a ha]; exact hi
    | some ak =>
      cases hd : ak.dead with
      | true => rw [step_dead cfg st a ak ha hd]; exact hi
      | false =>
        rw [step_live cfg st a ak ha hd]
        intro w wk h hl hh
        simp only at h ⊢
        have eff := stepW_effect cfg st.sh a ak
        by_cases hwa : w = a
        · subst hwa
          rw [updAt_self st.ws w ak _ ha] at h
          simp only [Option.some.injEq] at h
          subst h
          cases eff with
          | same h0 hp =>
            obtain ⟨s, hs'⟩ := hi w ak ha hd (hp hh)
            exact ⟨s, by rw [h0, hs']⟩
          | created h0 h1 => exact ⟨_, h1⟩
          | removed o s h0 h1 hp hpc => rw [hp] at hh; simp at hh
        · rw [updAt_other st.ws a w _ hwa] at h
          obtain ⟨s, hws⟩ := hi w wk h hl hh
          cases eff with
          | same h0 hp => exact ⟨s, by rw [h0, hws]⟩
          | created h0 h1 => rw [h0] at hws; simp at hws
          | removed o s' h0 h1 hp hpc =>
            exfalso
            rw [h0] at hws
            simp only [Option.some.injEq, Prod.mk.injEq] at hws
            obtain ⟨how, _⟩ := hws
            subst how
            cases hpc with
            | inl htk =>
              -- a takeover: the hypothesis says the creator `o` of the lock file is not alive
              have : liveTakeoverAt st (.step a) = true := by
                simp [liveTakeoverAt, liveAt, ha, hd, htk, h0, isLive, h, hl]
              rw [this] at hs; simp at hs
            | inr hrel =>
              -- the holder's own release: by the invariant the lock file is its own
              have hha : holding ak.pc = true := by simp [hrel, holding]
              obtain ⟨s2, h2⟩ := hi a ak ha hd hha
              rw [h0] at h2
              simp only [Option.some.injEq, Prod.mk.injEq] at h2
              exact hwa h2.1

theorem safeSched_cons (cfg : Cfg) (st : St) (e : Ev) (es : List Ev) :
    safeSched cfg st (e :: es) = true ↔ liveTakeoverAt st e = false ∧ safeSched cfg (step cfg st e).1 es = true := by
  simp [safeSched]

theorem inv_run (cfg : Cfg) (evs : List Ev) : ∀ (st : St), Inv st → safeSched cfg st evs = true → Inv (run cfg st evs) := by
  induction evs with
  | nil => intro st hi _; exact hi
  | cons e es ih =>
    intro st hi hs
    rw [safeSched_cons] at hs
    exact ih _ (inv_step cfg st e hi hs.1) hs.2

theorem run_append (cfg : Cfg) (a b : List Ev) : ∀ (st : St), run cfg st (a ++ b) = run cfg (run cfg st a) b := by
  induction a with
  | nil => intro st; rfl
  | cons e es ih => intro st; simp only [List.cons_append, run]; exact ih _

theorem safeSched_append (cfg : Cfg) (a b : List Ev) : ∀ (st : St),
    safeSched cfg st (a ++ b) = (safeSched cfg st a && safeSched cfg (run cfg st a) b) := by
  induction a with
  | nil => intro st; simp [safeSched, run]
  | cons e es ih => intro st; simp only [List.cons_append, safeSched, run, ih, Bool.and_assoc]

/-- the hypothesis is prefix closed: it speaks about every reachable state of the schedule -/
theorem safeSched_take (cfg : Cfg) (st : St) (evs : List Ev) (k : Nat) (h : safeSched cfg st evs = true) :
    safeSched cfg st (evs.take k) = true := by
  have := safeSched_append cfg (evs.take k) (evs.drop k) st
  rw [List.take_append_drop, h] at this
  simp only [Bool.true_eq, Bool.and_eq_true] at this
  exact this.1

/-! ### without a grace period nobody ever attempts a takeover -/

def tkFree : PC → Bool
  | .stat | .resetTimer | .check | .tkRename | .tkUnlink | .tkRestart => false
  | _ => true

def TkFree (st : St) : Prop := ∀ (w : Nat) (wk : Worker), st.ws[w]? = some wk → tkFree wk.pc = true

theorem stepW_tkFree (cfg : Cfg) (hg : cfg.grace = none) (sh : Shared) (w : Nat) (wk : Worker) (h : tkFree wk.pc = true) :
    tkFree (stepW cfg sh w wk).2.1.pc = true := by
  unfold stepW
  split
  · rfl
  · split
    · cases cfg.kind <;> rfl
    · simp [hg, tkFree]
  · rfl
  · rename_i hpc; rw [hpc] at h; simp [tkFree] at h
  · rename_i hpc; rw [hpc] at h; simp [tkFree] at h
  · rename_i hpc; rw [hpc] at h; simp [tkFree] at h
  · rename_i hpc; rw [hpc] at h; simp [tkFree] at h
  · rename_i hpc; rw [hpc] at h; simp [tkFree] at h
  · rename_i hpc; rw [hpc] at h; simp [tkFree] at h
  · rfl
  · rfl
  · unfold doRename; split <;> rfl
  · unfold doUnlink; split <;> rfl

theorem tkFree_step (cfg : Cfg) (hg : cfg.grace = none) (st : St) (e : Ev) (h : TkFree st) : TkFree (step cfg st e).1 := by
  cases e with
  | tick => exact h
  | crash c =>
    simp only [step]
    split
    · rename_i ck hc
      split
      · exact h
      · intro w wk hw
        simp only at hw
        rw [updAt_getElem?] at hw
        split at hw
        · rename_i e
          subst e
          simp only [hc, Option.map_some, Option.some.injEq] at hw
          subst hw
          exact h w ck hc
        · exact h w wk hw
    · exact h
  | step a =>
    cases ha : st.ws[a]? with
    | none => rw [step_unknown cfg st a ha]; exact h
    | some ak =>
      cases hd : ak.dead with
      | true => rw [step_dead cfg st a ak ha hd]; exact h
      | false =>
        rw [step_live cfg st a ak ha hd]
        intro w wk hw
        simp only at hw
        by_cases hwa : w = a
        · subst hwa
          rw [updAt_self st.ws w ak _ ha] at hw
          simp only [Option.some.injEq] at hw
          subst hw
          exact stepW_tkFree cfg hg _ _ _ (h w ak ha)
        · rw [updAt_other st.ws a w _ hwa] at hw
          exact h w wk hw

theorem tkFree_init (n : Nat) : TkFree (init n) := by
  intro w wk h
  simp only [init] at h
  rw [List.getElem?_replicate] at h
  split at h
  · simp only [Option.some.injEq] at h
    subst h
    rfl
  · simp at h

theorem liveTakeoverAt_of_tkFree (st : St) (e : Ev) (h : TkFree st) : liveTakeoverAt st e = false := by
  cases e with
  | tick => rfl
  | crash c => rfl
  | step a =>
    simp only [liveTakeoverAt, liveAt]
    cases ha : st.ws[a]? with
    | none => simp
    | some ak =>
      have := h a ak ha
      cases hpc : ak.pc <;> simp_all [tkFree]

theorem safeSched_of_no_grace (cfg : Cfg) (hg : cfg.grace = none) (evs : List Ev) :
    ∀ (st : St), TkFree st → safeSched cfg st evs = true := by
  induction evs with
  | nil => intro st _; rfl
  | cons e es ih =>
    intro st h
    rw [safeSched_cons]
    exact ⟨liveTakeoverAt_of_tkFree st e h, ih _ (tkFree_step cfg hg st e h)⟩

/-! ### every call moves the caller -/

theorem stepW_pc_ne (cfg : Cfg) (sh : Shared) (w : Nat) (wk : Worker) : (stepW cfg sh w wk).2.1.pc ≠ wk.pc := by
  unfold stepW
  split <;> rename_i hpc
  · simp [hpc]
  · split
    · cases cfg.kind <;> simp [hpc]
    · cases cfg.grace <;> simp [hpc]
  · simp [hpc]
  · split
    · simp [hpc]
    · split <;> simp [hpc]
  · simp [hpc]
  · split
    · split <;> simp [hpc]
    · simp [hpc]
  · unfold doRename; split <;> simp [hpc]
  · unfold doUnlink; split <;> simp [hpc]
  · simp [hpc]
  · simp [hpc]
  · simp [hpc]
  · unfold doRename; split <;> simp [hpc]
  · unfold doUnlink; split <;> simp [hpc]

/-! ### one worker running alone (used for the stale-lock takeover theorem) -/

/-- the calls of worker `w` alone -/
def solo (cfg : Cfg) (w : Nat) : Nat → Shared × Worker → Shared × Worker
  | 0, p => p
  | k + 1, p => solo cfg w k ((stepW cfg p.1 w p.2).1, (stepW cfg p.1 w p.2).2.1)

theorem updAt_const_id {α : Type} (l : List α) (i : Nat) (a : α) (h : l[i]? = some a) : updAt l i (fun _ => a) = l := by
  induction l generalizing i with
  | nil => rfl
  | cons b t ih =>
    cases i with
    | zero => simp at h; simp [updAt, h]
    | succ i => simp at h; simp [updAt, ih i h]

theorem updAt_updAt_const {α : Type} (l : List α) (i : Nat) (a b : α) :
    updAt (updAt l i (fun _ => a)) i (fun _ => b) = updAt l i (fun _ => b) := by
  induction l generalizing i with
  | nil => rfl
  | cons c t ih => cases i <;> simp [updAt, ih]

theorem solo_dead (cfg : Cfg) (w : Nat) (k : Nat) : ∀ (p : Shared × Worker), (solo cfg w k p).2.dead = p.2.dead := by
  induction k with
  | zero => intro p; rfl
  | succ k ih => intro p; simp only [solo]; rw [ih]; exact stepW_dead cfg p.1 w p.2

theorem run_solo (cfg : Cfg) (w : Nat) (k : Nat) : ∀ (st : St) (wk : Worker), st.ws[w]? = some wk → wk.dead = false →
    run cfg st (stepsOf w k) =
      { sh := (solo cfg w k (st.sh, wk)).1, ws := updAt st.ws w (fun _ => (solo cfg w k (st.sh, wk)).2) } := by
  induction k with
  | zero =>
    intro st wk hw _
    simp only [stepsOf, List.replicate_zero, run, solo]
    rw [updAt_const_id st.ws w wk hw]
  | succ k ih =>
    intro st wk hw hl
    simp only [stepsOf, List.replicate_succ, run]
    rw [step_live cfg st w wk hw hl]
    have := ih { sh := (stepW cfg st.sh w wk).1, ws := updAt st.ws w (fun _ => (stepW cfg st.sh w wk).2.1) }
      (stepW cfg st.sh w wk).2.1 (updAt_self st.ws w wk _ hw) (by rw [stepW_dead]; exact hl)
    simp only [stepsOf] at this
    rw [this]
    simp only [solo, updAt_updAt_const]

/-- what the takeover loop of one waiter does to (shared state, worker), computed symbolically -/
theorem solo_takeover (cfg : Cfg) (g : Nat) (hg : cfg.grace = some g) (sh : Shared) (w : Nat) (wk : Worker) (o s : Nat)
    (hpc : wk.pc = .create) (hlock : sh.lock = some (o, s)) (hm : wk.mtime = some s)
    (hlast : wk.last + g < sh.now) :
    (solo cfg w (match cfg.kind with | .symlink => 8 | .openExcl => 9) (sh, wk)).1.lock = some (w, sh.now) ∧
    (solo cfg w (match cfg.kind with | .symlink => 8 | .openExcl => 9) (sh, wk)).2.pc = .crit := by
  obtain ⟨kind, grace⟩ := cfg
  obtain ⟨pc, dead, mtime, last, nren, failed⟩ := wk
  obtain ⟨lock, now, tmps⟩ := sh
  simp only at hg hpc hlock hm hlast
  subst hg hpc hlock hm
  cases kind <;>
    simp [solo, stepW, doRename, doUnlink, isMine, hlast]


end OptunaVerif.FileLock
