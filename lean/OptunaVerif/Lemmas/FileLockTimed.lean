import OptunaVerif.Lemmas.FileLock
/-!
A timing discipline under which `safeSched` holds for **both lock classes** (since repo fb3aa05 both
sample the lock file's own creation stamp), crashes of holders included:

* (H0) *punctual holders*: the clock never passes `stamp + grace` while the creator of the lock file is alive;
* (W0) *no stalled waiter*: the clock does not move while a live waiter is between its `stat` and the
  `rename` of a takeover (program points `resetTimer`, `check`, `tkRename`);
* (U)  *one taker at a time*: a takeover `rename` finds no other live waiter inside that window.

(H0) alone is what the grace period is meant to express; (W0) and (U) are what the code silently
assumes on top of it — dropping (U) gives F13, dropping (W0) gives `stalledWaiter`.
-/
namespace OptunaVerif.FileLock

theorem liveAt_of_ge (st : St) (p : PC → Bool) (v : Nat) (h : st.ws.length ≤ v) : liveAt st p v = false := by
  unfold liveAt
  rw [List.getElem?_eq_none h]

theorem all_range_not_liveAt (st : St) (p : PC → Bool)
    (h : (List.range st.ws.length).all (fun v => !liveAt st p v) = true) (v : Nat) : liveAt st p v = false := by
  by_cases hv : v < st.ws.length
  · rw [List.all_eq_true] at h
    have := h v (List.mem_range.mpr hv)
    simpa using this
  · exact liveAt_of_ge st p v (Nat.le_of_not_lt hv)

theorem any_range_other (st : St) (a : Nat)
    (h : (List.range st.ws.length).any (fun v => v != a && liveAt st inWindow v) = false) (v : Nat) (hva : v ≠ a) :
    liveAt st inWindow v = false := by
  by_cases hv : v < st.ws.length
  · rw [List.any_eq_false] at h
    have := h v (List.mem_range.mpr hv)
    simpa [hva] using this
  · exact liveAt_of_ge st inWindow v (Nat.le_of_not_lt hv)

/-! ### the invariants, per worker and for the shared state -/

structure WInv (g : Nat) (sh : Shared) (live : Nat → Bool) (wk : Worker) : Prop where
  /-- a sampled mtime is a past reading of the clock -/
  seen : ∀ m, wk.mtime = some m → m ≤ sh.now
  /-- the timer was (re)started no earlier than the stamp it watches -/
  timer : wk.pc ≠ .resetTimer → ∀ m, wk.mtime = some m → m ≤ wk.last
  /-- between `stat` and the takeover `rename`: either the check is going to fail (the stamp watched is
  young), or the lock file that exists is the watched one and its creator is dead -/
  window : inWindow wk.pc = true →
    (wk.pc ≠ .tkRename ∧ ∃ m, wk.mtime = some m ∧ sh.now ≤ m + g) ∨
    (∃ o s, sh.lock = some (o, s) ∧ live o = false ∧ wk.mtime = some s)

structure SInv (g : Nat) (sh : Shared) (live : Nat → Bool) : Prop where
  stampLe : ∀ o s, sh.lock = some (o, s) → s ≤ sh.now
  deadline : ∀ o s, sh.lock = some (o, s) → live o = true → sh.now ≤ s + g

theorem doRename_now (sh : Shared) (w : Nat) (wk : Worker) (p : PC) (f : Worker) : (doRename sh w wk p f).1.now = sh.now := by
  unfold doRename; split <;> rfl

theorem doUnlink_now (sh : Shared) (w : Nat) (wk : Worker) (p : PC) (f : Worker) : (doUnlink sh w wk p f).1.now = sh.now := by
  unfold doUnlink; split <;> rfl

theorem stepW_now (cfg : Cfg) (sh : Shared) (w : Nat) (wk : Worker) : (stepW cfg sh w wk).1.now = sh.now := by
  unfold stepW
  split
  · rfl
  · split <;> rfl
  · rfl
  · split
    · rfl
    · split <;> rfl
  · rfl
  · split <;> rfl
  · exact doRename_now _ _ _ _ _
  · exact doUnlink_now _ _ _ _ _
  · rfl
  · rfl
  · rfl
  · exact doRename_now _ _ _ _ _
  · exact doUnlink_now _ _ _ _ _

theorem stepW_sinv (cfg : Cfg) (g : Nat) (sh : Shared) (w : Nat) (wk : Worker) (live : Nat → Bool)
    (hs : SInv g sh live) : SInv g (stepW cfg sh w wk).1 live := by
  have hnow := stepW_now cfg sh w wk
  cases stepW_effect cfg sh w wk with
  | same h _ =>
    exact ⟨fun o s hl => by rw [hnow]; exact hs.stampLe o s (by rw [← h]; exact hl),
           fun o s hl hlv => by rw [hnow]; exact hs.deadline o s (by rw [← h]; exact hl) hlv⟩
  | created h0 h =>
    refine ⟨fun o s hl => ?_, fun o s hl _ => ?_⟩
    · rw [h] at hl; simp only [Option.some.injEq, Prod.mk.injEq] at hl; rw [hnow, ← hl.2]; exact Nat.le_refl _
    · rw [h] at hl; simp only [Option.some.injEq, Prod.mk.injEq] at hl; rw [hnow, ← hl.2]; exact Nat.le_add_right _ _
  | removed o s h0 h _ _ =>
    exact ⟨fun o s hl => by rw [h] at hl; simp at hl, fun o s hl => by rw [h] at hl; simp at hl⟩

/-- a rename keeps the worker's sampling fields and leaves the window -/
theorem doRename_winv (g : Nat) (sh : Shared) (w : Nat) (wk : Worker) (live : Nat → Bool) (p : PC) (f : Worker)
    (hp : inWindow p = false) (hf : inWindow f.pc = false)
    (hfm : f.mtime = wk.mtime) (hfl : f.last = wk.last) (hpc : wk.pc ≠ .resetTimer)
    (hw : WInv g sh live wk) : WInv g (doRename sh w wk p f).1 live (doRename sh w wk p f).2.1 := by
  unfold doRename
  split
  · exact ⟨hw.seen, fun _ => hw.timer hpc, fun h => by simp [hp] at h⟩
  · exact ⟨by simpa [hfm] using hw.seen, fun _ => by simpa [hfm, hfl] using hw.timer hpc, fun h => by simp [hf] at h⟩

theorem doUnlink_winv (g : Nat) (sh : Shared) (w : Nat) (wk : Worker) (live : Nat → Bool) (p : PC) (f : Worker)
    (hp : inWindow p = false) (hf : inWindow f.pc = false)
    (hfm : f.mtime = wk.mtime) (hfl : f.last = wk.last) (hpc : wk.pc ≠ .resetTimer)
    (hw : WInv g sh live wk) : WInv g (doUnlink sh w wk p f).1 live (doUnlink sh w wk p f).2.1 := by
  unfold doUnlink
  split
  · exact ⟨hw.seen, fun _ => hw.timer hpc, fun h => by simp [hp] at h⟩
  · exact ⟨by simpa [hfm] using hw.seen, fun _ => by simpa [hfm, hfl] using hw.timer hpc, fun h => by simp [hf] at h⟩

/-- the stepping worker's own invariant -/
theorem stepW_winv (cfg : Cfg) (g : Nat) (hg : cfg.grace = some g) (sh : Shared) (w : Nat)
    (wk : Worker) (live : Nat → Bool) (hs : SInv g sh live) (hw : WInv g sh live wk) :
    WInv g (stepW cfg sh w wk).1 live (stepW cfg sh w wk).2.1 := by
  unfold stepW
  split <;> rename_i hpc
  · -- idle
    exact ⟨fun m h => by simp at h, fun _ m h => by simp at h, fun h => by simp [inWindow] at h⟩
  · -- create
    have hne : wk.pc ≠ .resetTimer := by simp [hpc]
    split
    · refine ⟨hw.seen, fun _ => hw.timer hne, fun h => ?_⟩
      cases hkk : cfg.kind <;> simp [hkk, inWindow] at h
    · refine ⟨hw.seen, fun _ => hw.timer hne, fun h => ?_⟩
      simp [hg, inWindow] at h
  · -- closing
    exact ⟨hw.seen, fun _ => hw.timer (by simp [hpc]), fun h => by simp [inWindow] at h⟩
  · -- stat
    have hne : wk.pc ≠ .resetTimer := by simp [hpc]
    split
    · exact ⟨hw.seen, fun _ => hw.timer hne, fun h => by simp [inWindow] at h⟩
    · rename_i o s hl
      have key : ∀ (wk' : Worker), wk'.mtime = some s → wk'.pc ≠ .tkRename →
          (wk'.pc ≠ .tkRename ∧ ∃ m, wk'.mtime = some m ∧ sh.now ≤ m + g) ∨
          (∃ o s', sh.lock = some (o, s') ∧ live o = false ∧ wk'.mtime = some s') := by
        intro wk' hm hp
        cases hlo : live o with
        | true => exact Or.inl ⟨hp, s, hm, hs.deadline o s hl hlo⟩
        | false => exact Or.inr ⟨o, s, hl, hlo, hm⟩
      split
      · rename_i hm
        exact ⟨hw.seen, fun _ => hw.timer hne, fun _ => key _ hm (by simp)⟩
      · refine ⟨fun m h => ?_, fun h => by simp at h, fun _ => key _ rfl (by simp)⟩
        simp only [Option.some.injEq] at h
        rw [← h]
        exact hs.stampLe o s hl
  · -- resetTimer
    refine ⟨hw.seen, fun _ m h => hw.seen m h, fun _ => ?_⟩
    cases hw.window (by simp [hpc, inWindow]) with
    | inl h => exact Or.inl ⟨by simp, h.2⟩
    | inr h => exact Or.inr h
  · -- check
    have hne : wk.pc ≠ .resetTimer := by simp [hpc]
    rw [hg]
    simp only
    refine ⟨hw.seen, fun _ => hw.timer hne, fun hwin => ?_⟩
    split at hwin
    · rename_i hpass
      cases hw.window (by simp [hpc, inWindow]) with
      | inl h =>
        obtain ⟨_, m, hm, hle⟩ := h
        have := hw.timer hne m hm
        omega
      | inr h => exact Or.inr h
    · simp [inWindow] at hwin
  · -- tkRename
    exact doRename_winv g sh w wk live _ _ rfl rfl rfl rfl (by simp [hpc]) hw
  · -- tkUnlink
    exact doUnlink_winv g sh w wk live _ _ rfl rfl rfl rfl (by simp [hpc]) hw
  · -- tkRestart: the timer is restarted at the present clock
    exact ⟨hw.seen, fun _ m h => hw.seen m h, fun h => by simp [inWindow] at h⟩
  · -- sleep
    exact ⟨hw.seen, fun _ => hw.timer (by simp [hpc]), fun h => by simp [inWindow] at h⟩
  · -- crit
    exact ⟨hw.seen, fun _ => hw.timer (by simp [hpc]), fun h => by simp [inWindow] at h⟩
  · -- relRename
    exact doRename_winv g sh w wk live _ _ rfl rfl rfl rfl (by simp [hpc]) hw
  · -- relUnlink
    exact doUnlink_winv g sh w wk live _ _ rfl rfl rfl rfl (by simp [hpc]) hw

/-! ### the state invariant -/

structure TInv (g : Nat) (st : St) : Prop where
  own : Inv st
  shared : SInv g st.sh (isLive st)
  workers : ∀ (w : Nat) (wk : Worker), st.ws[w]? = some wk → wk.dead = false → WInv g st.sh (isLive st) wk

theorem tinv_init (g n : Nat) : TInv g (init n) := by
  refine ⟨inv_init n, ⟨fun o s h => by simp [init] at h, fun o s h => by simp [init] at h⟩, ?_⟩
  intro w wk h _
  simp only [init] at h
  rw [List.getElem?_replicate] at h
  split at h
  · simp only [Option.some.injEq] at h
    subst h
    exact ⟨fun m h => by simp [freshWorker] at h, fun _ m h => by simp [freshWorker] at h,
           fun h => by simp [freshWorker, inWindow] at h⟩
  · simp at h

theorem isLive_step_live (cfg : Cfg) (st : St) (a : Nat) (ak : Worker) (ha : st.ws[a]? = some ak) (_hd : ak.dead = false)
    (o : Nat) :
    isLive { sh := (stepW cfg st.sh a ak).1, ws := updAt st.ws a (fun _ => (stepW cfg st.sh a ak).2.1) } o = isLive st o := by
  unfold isLive
  simp only
  by_cases hoa : o = a
  · subst hoa
    rw [updAt_self st.ws o ak _ ha, ha]
    simp only [stepW_dead]
  · rw [updAt_other st.ws a o _ hoa]

theorem step_crash_live (cfg : Cfg) (st : St) (c : Nat) (ck : Worker) (hc : st.ws[c]? = some ck) (hd : ck.dead = false) :
    step cfg st (.crash c) = ({ st with ws := updAt st.ws c (fun x => { x with dead := true }) }, .crashed) := by
  simp [step, hc, hd]

theorem step_crash_noop (cfg : Cfg) (st : St) (c : Nat) (h : isLive st c = false) : step cfg st (.crash c) = (st, .noop) := by
  unfold isLive at h
  cases hc : st.ws[c]? with
  | none => simp [step, hc]
  | some ck =>
    rw [hc] at h
    simp only [Bool.not_eq_eq_eq_not, Bool.not_false] at h
    simp [step, hc, h]

/-- under the timing discipline a takeover never hits the lock file of a live creator -/
theorem liveTakeoverAt_of_tinv (g : Nat) (st : St) (e : Ev) (hi : TInv g st) : liveTakeoverAt st e = false := by
  cases e with
  | tick => rfl
  | crash c => rfl
  | step a =>
    cases ha : st.ws[a]? with
    | none => simp [liveTakeoverAt, liveAt, ha]
    | some ak =>
      cases hd : ak.dead with
      | true => simp [liveTakeoverAt, liveAt, ha, hd]
      | false =>
        by_cases hpc : ak.pc = .tkRename
        · cases hl : st.sh.lock with
          | none => simp [liveTakeoverAt, hl]
          | some os =>
            obtain ⟨o, s⟩ := os
            cases (hi.workers a ak ha hd).window (by simp [hpc, inWindow]) with
            | inl h => exact absurd hpc h.1
            | inr h =>
              obtain ⟨o', s', hl', hdead, _⟩ := h
              rw [hl] at hl'
              simp only [Option.some.injEq, Prod.mk.injEq] at hl'
              simp [liveTakeoverAt, hl, hl'.1, hdead]
        · simp [liveTakeoverAt, liveAt, ha, hd, hpc]

theorem tinv_tick (cfg : Cfg) (g : Nat) (st : St) (hi : TInv g st) (hp : punctualAt g st .tick = true) :
    TInv g (step cfg st .tick).1 := by
  have hown : Inv (step cfg st .tick).1 := inv_step cfg st .tick hi.own rfl
  simp only [punctualAt, Bool.and_eq_true] at hp
  obtain ⟨hdl, hwin⟩ := hp
  have hnone := all_range_not_liveAt st inWindow hwin
  refine ⟨hown, ⟨fun o s hl => ?_, fun o s hl hlv => ?_⟩, ?_⟩
  · have hl' : st.sh.lock = some (o, s) := hl
    have := hi.shared.stampLe o s hl'
    show s ≤ st.sh.now + 1
    omega
  · have hl' : st.sh.lock = some (o, s) := hl
    have hlv' : isLive st o = true := hlv
    rw [hl'] at hdl
    simp only [hlv', Bool.not_true, Bool.false_or, decide_eq_true_eq] at hdl
    exact hdl
  · intro w wk hw hl
    have hw' : st.ws[w]? = some wk := hw
    have hnw := hnone w
    simp only [liveAt, hw', hl, Bool.not_false, Bool.true_and] at hnw
    have old := hi.workers w wk hw' hl
    exact ⟨fun m hm => Nat.le_succ_of_le (old.seen m hm), old.timer, fun h => by rw [hnw] at h; simp at h⟩

theorem tinv_crash (cfg : Cfg) (g : Nat) (st : St) (c : Nat) (hi : TInv g st) : TInv g (step cfg st (.crash c)).1 := by
  cases hlc : isLive st c with
  | false => rw [step_crash_noop cfg st c hlc]; exact hi
  | true =>
    have hown : Inv (step cfg st (.crash c)).1 := inv_step cfg st (.crash c) hi.own rfl
    unfold isLive at hlc
    cases hc : st.ws[c]? with
    | none => rw [hc] at hlc; simp at hlc
    | some ck =>
      rw [hc] at hlc
      simp only [Bool.not_eq_eq_eq_not, Bool.not_true] at hlc
      rw [step_crash_live cfg st c ck hc hlc] at hown ⊢
      have hmono : ∀ o, isLive { st with ws := updAt st.ws c (fun x => { x with dead := true }) } o = true → isLive st o = true := by
        intro o h
        unfold isLive at h ⊢
        simp only at h
        by_cases hoc : o = c
        · subst hoc
          rw [updAt_getElem?] at h
          simp [hc] at h
        · rw [updAt_other st.ws c o _ hoc] at h
          exact h
      have hws : ∀ (w : Nat) (wk : Worker), (updAt st.ws c (fun x => { x with dead := true }))[w]? = some wk →
          wk.dead = false → st.ws[w]? = some wk := by
        intro w wk h hl
        by_cases hwc : w = c
        · subst hwc
          rw [updAt_getElem?] at h
          simp only [hc, if_true, Option.map_some, Option.some.injEq] at h
          subst h
          simp at hl
        · rw [updAt_other st.ws c w _ hwc] at h
          exact h
      refine ⟨hown, ⟨hi.shared.stampLe, fun o s hl hlv => hi.shared.deadline o s hl (hmono o hlv)⟩, ?_⟩
      intro w wk hw hl
      have old := hi.workers w wk (hws w wk hw hl) hl
      refine ⟨old.seen, old.timer, fun h => ?_⟩
      cases old.window h with
      | inl h1 => exact Or.inl h1
      | inr h2 =>
        obtain ⟨o, s, h3, h4, h5⟩ := h2
        refine Or.inr ⟨o, s, h3, ?_, h5⟩
        cases hx : isLive { st with ws := updAt st.ws c (fun x => { x with dead := true }) } o with
        | false => rfl
        | true => rw [hmono o hx] at h4; simp at h4

theorem tinv_stepw (cfg : Cfg) (g : Nat) (hg : cfg.grace = some g) (st : St) (a : Nat)
    (hi : TInv g st) (hp : punctualAt g st (.step a) = true) : TInv g (step cfg st (.step a)).1 := by
  have hown : Inv (step cfg st (.step a)).1 := inv_step cfg st (.step a) hi.own (liveTakeoverAt_of_tinv g st (.step a) hi)
  cases ha : st.ws[a]? with
  | none => rw [step_unknown cfg st a ha]; exact hi
  | some ak =>
    cases hd : ak.dead with
    | true => rw [step_dead cfg st a ak ha hd]; exact hi
    | false =>
      rw [step_live cfg st a ak ha hd] at hown ⊢
      have hfun : isLive { sh := (stepW cfg st.sh a ak).1, ws := updAt st.ws a (fun _ => (stepW cfg st.sh a ak).2.1) } = isLive st :=
        funext (isLive_step_live cfg st a ak ha hd)
      refine ⟨hown, ?_, ?_⟩
      · rw [hfun]
        exact stepW_sinv cfg g st.sh a ak (isLive st) hi.shared
      · intro w wk hw hl
        rw [hfun]
        simp only at hw ⊢
        by_cases hwa : w = a
        · subst hwa
          rw [updAt_self st.ws w ak _ ha] at hw
          simp only [Option.some.injEq] at hw
          subst hw
          exact stepW_winv cfg g hg st.sh w ak (isLive st) hi.shared (hi.workers w ak ha hd)
        · rw [updAt_other st.ws a w _ hwa] at hw
          have old := hi.workers w wk hw hl
          have hnow := stepW_now cfg st.sh a ak
          refine ⟨fun m hm => by rw [hnow]; exact old.seen m hm, old.timer, fun hwin => ?_⟩
          cases old.window hwin with
          | inl h1 => exact Or.inl ⟨h1.1, by rw [hnow]; exact h1.2⟩
          | inr h2 =>
            obtain ⟨o, s, h3, h4, h5⟩ := h2
            cases stepW_effect cfg st.sh a ak with
            | same h0 _ => exact Or.inr ⟨o, s, by rw [h0]; exact h3, h4, h5⟩
            | created h0 _ => rw [h0] at h3; simp at h3
            | removed o' s' h0 _ _ hpc =>
              exfalso
              cases hpc with
              | inl htk =>
                -- (U): another live waiter (`w`) is inside the window
                simp only [punctualAt, liveAt, ha, hd, htk, h0] at hp
                simp only [Bool.not_false, beq_self_eq_true, Bool.and_self, Option.isSome_some, Bool.true_and,
                  Bool.not_eq_eq_eq_not, Bool.not_true] at hp
                have := any_range_other st a hp w hwa
                simp [liveAt, hw, hl, hwin] at this
              | inr hrel =>
                -- the holder's own release: the lock file would be its own, but its creator is dead
                obtain ⟨s2, h2⟩ := hi.own a ak ha hd (by simp [hrel, holding])
                rw [h3] at h2
                simp only [Option.some.injEq, Prod.mk.injEq] at h2
                rw [h2.1] at h4
                simp [isLive, ha, hd] at h4

theorem tinv_step (cfg : Cfg) (g : Nat) (hg : cfg.grace = some g) (st : St) (e : Ev)
    (hi : TInv g st) (hp : punctualAt g st e = true) : TInv g (step cfg st e).1 := by
  cases e with
  | tick => exact tinv_tick cfg g st hi hp
  | crash c => exact tinv_crash cfg g st c hi
  | step a => exact tinv_stepw cfg g hg st a hi hp

theorem safeSched_of_punctual (cfg : Cfg) (g : Nat) (hg : cfg.grace = some g) (evs : List Ev) :
    ∀ (st : St), TInv g st → punctualSched cfg g st evs = true → safeSched cfg st evs = true := by
  induction evs with
  | nil => intro st _ _; rfl
  | cons e es ih =>
    intro st hi hp
    simp only [punctualSched, Bool.and_eq_true] at hp
    rw [safeSched_cons]
    exact ⟨liveTakeoverAt_of_tinv g st e hi, ih _ (tinv_step cfg g hg st e hi hp.1) hp.2⟩

end OptunaVerif.FileLock
