import OptunaVerif.Lemmas.RankBridge
import OptunaVerif.Lemmas.BestIR
/-! Bridge between the two hand models of `_is_pareto_front_for_unique_sorted`: `Best.frontSorted` (Model/Best.lean: a MASK over rows of
extended rationals `EVal`, the model C12Gen's interpreter of the generated `_is_pareto_front` is proved equal to) and
`Hypervolume.frontSorted` (Model/Hypervolume.lean: the LIST of kept rows over integer lattice points, the parameter of the wfg / rank
interpreters of C15).  Encoding: a lattice row `p : List Int` is the loss row `p.map (fun a => EVal.fin a)` (finite values; the direction
normalisation has already happened on both sides: both models take loss rows, smaller is better). -/
set_option linter.unusedSimpArgs false
namespace OptunaVerif.FrontBridge
open OptunaVerif OptunaVerif.Hypervolume OptunaVerif.Best OptunaVerif.RankIR

/-- a lattice row as a row of extended rationals -/
def encRow (p : Pt) : Point := p.map (fun a => EVal.fin (a : Rat))

theorem lt_fin (a b : Int) : EVal.lt (.fin (a : Rat)) (.fin (b : Rat)) = decide (a < b) := by
  simp only [EVal.lt, EVal.le, EVal.toX, XVal.le, Int.cast_le]
  by_cases h : a < b
  · have : ¬ b ≤ a := by omega
    simp [h, this]
  · have : b ≤ a := by omega
    simp [h, this]

theorem le_fin (a b : Int) : EVal.le (.fin (a : Rat)) (.fin (b : Rat)) = decide (a ≤ b) := by
  simp [EVal.le, EVal.toX, XVal.le]

/-- one objective: only the first row -/
theorem front1d_bridge (U : List Pt) : selMask U (Best.front1d (U.map encRow)) = Hypervolume.front1d U := by
  cases U with
  | nil => rfl
  | cons h t =>
    simp only [List.map_cons, Best.front1d, Hypervolume.front1d, selMask, List.map_map]
    congr 1
    induction t with
    | nil => rfl
    | cons a t ih => simpa [selMask] using ih

theorem col1_enc (p : Pt) (hp : p.length = 2) : col1 (encRow p) = some (EVal.fin ((y1 p : Int) : Rat)) := by
  match p, hp with
  | [a, b], _ => rfl

theorem emin_fin (m y : Int) : emin (.fin (m : Rat)) (.fin (y : Rat)) = .fin ((min m y : Int) : Rat) := by
  unfold emin
  rw [le_fin]
  by_cases h : m ≤ y
  · simp [h, Int.min_eq_left h]
  · have : y ≤ m := by omega
    simp [h, Int.min_eq_right this]

/-- two objectives: "the running minimum of the second column got strictly smaller" -/
theorem front2dAux_bridge : ∀ (t : List Pt) (m : Int), (∀ p ∈ t, p.length = 2) →
    selMask t (front2dAux (.fin (m : Rat)) (t.map encRow)) = front2dGo id m t := by
  intro t
  induction t with
  | nil => intro m _; rfl
  | cons q t ih =>
    intro m hl
    have hq := hl q (List.mem_cons_self ..)
    have ht : ∀ p ∈ t, p.length = 2 := fun p hp => hl p (List.mem_cons_of_mem _ hp)
    simp only [List.map_cons, front2dAux, col1_enc q hq, front2dGo, id]
    rw [emin_fin, lt_fin]
    by_cases h : y1 q < m
    · have hmin : min m (y1 q) = y1 q := by omega
      have hd : decide (min m (y1 q) < m) = true := by simp [hmin, h]
      rw [hmin]
      simp [selMask, h, ih (y1 q) ht]
    · have hmin : min m (y1 q) = m := by omega
      have hd : decide (min m (y1 q) < m) = false := by simp [hmin]
      rw [hmin]
      simp [selMask, h, ih m ht]

theorem front2d_bridge (U : List Pt) (hU : ∀ p ∈ U, p.length = 2) :
    selMask U (Best.front2d (U.map encRow)) = Hypervolume.front2d id U := by
  cases U with
  | nil => rfl
  | cons h t =>
    have hh := hU h (List.mem_cons_self ..)
    simp only [List.map_cons, Best.front2d, col1_enc h hh, Hypervolume.front2d, selMask, id]
    rw [front2dAux_bridge t (y1 h) (fun p hp => hU p (List.mem_cons_of_mem _ hp))]

/-- **frontSorted_eq_best_front_le2** — one and two objectives: on rows of `d` columns (no uniqueness needed) the rows `Best.frontSorted`
marks in the encoded array are exactly the rows `Hypervolume.frontSorted` keeps, in order.  (`d ≥ 3`, the `_is_pareto_front_nd` loop: not
bridged yet — `Best.peel` works on (index, row) pairs, `Hypervolume.frontNdFuel` on the rows.) -/
theorem frontSorted_eq_best_front_le2 (d : Nat) (hd : d = 1 ∨ d = 2) (U : List Pt) (hU : ∀ p ∈ U, p.length = d) :
    selMask U (Best.frontSorted (U.map encRow)) = Hypervolume.frontSorted id d U := by
  cases U with
  | nil => rcases hd with rfl | rfl <;> rfl
  | cons h t =>
    have hh : (encRow h).length = d := by simp [encRow, hU h (List.mem_cons_self ..)]
    rcases hd with rfl | rfl
    · have := front1d_bridge (h :: t)
      simp only [List.map_cons] at this
      simp only [List.map_cons, Best.frontSorted, hh, beq_self_eq_true, if_true, Hypervolume.frontSorted]
      exact this
    · have := front2d_bridge (h :: t) hU
      simp only [List.map_cons] at this
      simp only [List.map_cons, Best.frontSorted, hh, Hypervolume.frontSorted]
      exact this

example : selMask [[0, 5], [1, 4], [2, 4]] (Best.frontSorted ([[0, 5], [1, 4], [2, 4]].map encRow)) = Hypervolume.frontSorted id 2 [[0, 5], [1, 4], [2, 4]] := by
  decide +kernel

end OptunaVerif.FrontBridge
