import OptunaVerif.Model.Grid
/-!
# Lemmas about the grid sampler model
-/
namespace OptunaVerif.Grid

/-- number of grid ids no finished trial holds -/
def remainingG (n : Nat) (V : List Nat) : Nat := ((List.range n).filter (fun g => !V.contains g)).length

/-! ## list facts -/

theorem filter_ne_length (l : List Nat) (g : Nat) (hnd : l.Nodup) (hg : g ∈ l) :
    (l.filter (fun x => x != g)).length + 1 = l.length := by
  induction l with
  | nil => simp at hg
  | cons a l ih =>
    simp only [List.nodup_cons] at hnd
    simp only [List.mem_cons] at hg
    by_cases hag : a = g
    · subst hag
      have : l.filter (fun x => x != a) = l := by
        rw [List.filter_eq_self]
        intro x hx
        simp only [bne_iff_ne, ne_eq]
        intro h; subst h; exact hnd.1 hx
      simp [this]
    · have hg' : g ∈ l := by
        rcases hg with hg | hg
        · exact absurd hg.symm hag
        · exact hg
      have := ih hnd.2 hg'
      have hb : (a != g) = true := by simp [hag]
      simp only [List.filter_cons, hb, if_true, List.length_cons]
      omega

theorem nodup_filter {α : Type} (p : α → Bool) (l : List α) (h : l.Nodup) : (l.filter p).Nodup := by
  induction l with
  | nil => simp
  | cons a l ih =>
    simp only [List.nodup_cons] at h
    simp only [List.filter_cons]
    split
    · rw [List.nodup_cons]
      exact ⟨fun hm => h.1 (List.mem_filter.mp hm).1, ih h.2⟩
    · exact ih h.2

/-- the free cells: ids below `n` that are not in `V` -/
def free (n : Nat) (V : List Nat) : List Nat := (List.range n).filter (fun g => !V.contains g)

theorem remainingG_eq (n : Nat) (V : List Nat) : remainingG n V = (free n V).length := rfl

theorem mem_free (n : Nat) (V : List Nat) (g : Nat) : g ∈ free n V ↔ g < n ∧ g ∉ V := by
  simp [free, List.mem_filter, List.mem_range]

theorem free_nodup (n : Nat) (V : List Nat) : (free n V).Nodup :=
  nodup_filter _ _ List.nodup_range

theorem free_snoc (n : Nat) (V : List Nat) (g : Nat) :
    free n (V ++ [g]) = (free n V).filter (fun x => x != g) := by
  simp only [free, List.filter_filter]
  apply List.filter_congr
  intro x _
  by_cases hx : x = g
  · subst hx; simp
  · simp [hx]

/-- finishing a free cell lowers the number of free cells by exactly one -/
theorem remainingG_snoc (n : Nat) (V : List Nat) (g : Nat) (hg : g < n) (hgV : g ∉ V) :
    remainingG n (V ++ [g]) + 1 = remainingG n V := by
  rw [remainingG_eq, remainingG_eq, free_snoc]
  exact filter_ne_length _ g (free_nodup n V) ((mem_free n V g).mpr ⟨hg, hgV⟩)

theorem remainingG_zero_iff (n : Nat) (V : List Nat) : remainingG n V = 0 ↔ ∀ g, g < n → g ∈ V := by
  rw [remainingG_eq, List.length_eq_zero_iff]
  constructor
  · intro h g hg
    rcases Classical.em (g ∈ V) with h1 | h1
    · exact h1
    · have : g ∈ free n V := (mem_free n V g).mpr ⟨hg, h1⟩
      rw [h] at this
      simp at this
  · intro h
    rw [List.eq_nil_iff_forall_not_mem]
    intro g hg
    rw [mem_free] at hg
    exact hg.2 (h g hg.1)

/-! ## `_get_unvisited_grid_ids` -/

theorem unvisitedOf_eq (n : Nat) (V Rn : List Nat) :
    unvisitedOf n V Rn =
      if ((free n V).filter (fun g => !Rn.contains g)).isEmpty then free n V
      else (free n V).filter (fun g => !Rn.contains g) := by
  simp only [unvisitedOf, free, List.filter_filter]
  have : (fun g => (!Rn.contains g) && !V.contains g) = (fun g => !V.contains g && !Rn.contains g) := by
    funext g; exact Bool.and_comm _ _
  rw [this]

theorem mem_unvisitedOf (n : Nat) (V Rn : List Nat) (g : Nat) (h : g ∈ unvisitedOf n V Rn) :
    g < n ∧ g ∉ V := by
  rw [unvisitedOf_eq] at h
  split at h
  · exact (mem_free n V g).mp h
  · exact (mem_free n V g).mp (List.mem_filter.mp h).1

theorem unvisitedOf_ne_nil (n : Nat) (V Rn : List Nat) (h : 0 < remainingG n V) :
    unvisitedOf n V Rn ≠ [] := by
  rw [unvisitedOf_eq]
  split
  · intro h0
    rw [remainingG_eq, h0] at h
    simp at h
  · rename_i hne
    intro h0
    rw [h0] at hne
    simp at hne

/-- `after_trial` of a grid trial whose (free) cell `g` is still marked RUNNING: the target list is
`[g]` exactly when `g` was the last free cell. -/
theorem unvisitedOf_last (n : Nat) (V Rn : List Nat) (g : Nat) (hg : g < n) (hgV : g ∉ V) (hgR : g ∈ Rn) :
    (unvisitedOf n V Rn = [g]) ↔ remainingG n (V ++ [g]) = 0 := by
  have hmem : g ∈ free n V := (mem_free n V g).mpr ⟨hg, hgV⟩
  have hstep := remainingG_snoc n V g hg hgV
  rw [remainingG_eq n V] at hstep
  constructor
  · intro h
    rw [unvisitedOf_eq] at h
    split at h
    · rw [h] at hstep; simp at hstep; omega
    · -- the target excludes running ids, so it cannot be `[g]`
      have : g ∈ (free n V).filter (fun g => !Rn.contains g) := by rw [h]; simp
      have := (List.mem_filter.mp this).2
      simp [hgR] at this
  · intro h
    have hlen : (free n V).length = 1 := by omega
    have hF : free n V = [g] := by
      match hf : free n V with
      | [] => rw [hf] at hlen; simp at hlen
      | [a] =>
        rw [hf] at hmem
        simp only [List.mem_singleton] at hmem
        rw [hmem]
      | a :: b :: l => rw [hf] at hlen; simp at hlen
    rw [unvisitedOf_eq, hF]
    simp [hgR]

/-! ## stored trials -/

theorem visitedIds_snoc_finished (ts : List GTrial) (g : Nat) :
    visitedIds (ts ++ [⟨some g, .finished⟩]) = visitedIds ts ++ [g] := by
  simp [visitedIds, List.filter_append]

theorem visitedIds_snoc_running (ts : List GTrial) (g : Nat) :
    visitedIds (ts ++ [⟨some g, .running⟩]) = visitedIds ts := by
  simp [visitedIds, List.filter_append]

theorem runningIds_snoc_running (ts : List GTrial) (g : Nat) :
    runningIds (ts ++ [⟨some g, .running⟩]) = runningIds ts ++ [g] := by
  simp [runningIds, List.filter_append]

theorem visitedIds_cons (a : GTrial) (ts : List GTrial) :
    visitedIds (a :: ts) =
      (if a.state = .finished then a.gridId.toList else []) ++ visitedIds ts := by
  simp only [visitedIds, List.filter_cons]
  by_cases h : a.state = .finished
  · cases hg : a.gridId <;> simp [h, hg]
  · simp [h]

theorem visitedIds_setState (ts : List GTrial) : ∀ (i : Nat) (s : TS),
    (∀ t, ts[i]? = some t → t.gridId = none) → visitedIds (setState ts i s) = visitedIds ts := by
  induction ts with
  | nil => intro i s _; rfl
  | cons a ts ih =>
    intro i s h
    cases i with
    | zero =>
      have ha : a.gridId = none := h a (by simp)
      simp only [setState, updAt]
      rw [visitedIds_cons, visitedIds_cons]
      simp [ha]
    | succ i =>
      have := ih i s (fun t ht => h t (by simpa using ht))
      simp only [setState, updAt] at this ⊢
      rw [visitedIds_cons, visitedIds_cons, this]

theorem firstWaiting_spec (ts : List GTrial) : ∀ (i : Nat), firstWaiting ts = some i →
    ∃ t, ts[i]? = some t ∧ t.state = .waiting := by
  induction ts with
  | nil => intro i h; simp [firstWaiting] at h
  | cons a ts ih =>
    intro i h
    simp only [firstWaiting] at h
    split at h
    · rename_i ha
      simp only [Option.some.injEq] at h
      subst h
      exact ⟨a, by simp, ha⟩
    · simp only [Option.map_eq_some_iff] at h
      obtain ⟨j, hj, hji⟩ := h
      subst hji
      obtain ⟨t, ht, hw⟩ := ih j hj
      exact ⟨t, by simpa using ht, hw⟩

theorem firstWaiting_none (ts : List GTrial) (h : ∀ t ∈ ts, t.state ≠ .waiting) : firstWaiting ts = none := by
  induction ts with
  | nil => rfl
  | cons a ts ih =>
    simp only [firstWaiting]
    have ha : a.state ≠ .waiting := h a (by simp)
    simp only [ha, if_false, Option.map_eq_none_iff]
    exact ih (fun t ht => h t (by simp [ht]))

theorem setState_getElem? (ts : List GTrial) (i j : Nat) (s : TS) :
    (setState ts i s)[j]? = if j = i then (ts[j]?).map (fun t => { t with state := s }) else ts[j]? := by
  simp only [setState]
  exact updAt_getElem? ts i j _

theorem mem_setState (ts : List GTrial) (i : Nat) (s : TS) (t : GTrial) (h : t ∈ setState ts i s) :
    ∃ t0 ∈ ts, t0.gridId = t.gridId ∧ (t.state = t0.state ∨ t.state = s) := by
  rw [List.mem_iff_getElem?] at h
  obtain ⟨j, hj⟩ := h
  rw [setState_getElem?] at hj
  split at hj
  · simp only [Option.map_eq_some_iff] at hj
    obtain ⟨t0, ht0, ht⟩ := hj
    subst ht
    exact ⟨t0, List.mem_of_getElem? ht0, rfl, Or.inr rfl⟩
  · exact ⟨t, List.mem_of_getElem? hj, rfl, Or.inl rfl⟩

/-! ## the invariant -/

/-- Invariant of a sequential grid run.  `idx`: a grid id held by the trial with number `i` is
either `i` itself (number-based assignment) or the trial has number `≥ n`. -/
structure GInv (n : Nat) (st : St) : Prop where
  idx : ∀ (i : Nat) (t : GTrial) (g : Nat), st.trials[i]? = some t → t.gridId = some g → g < n ∧ (g = i ∨ n ≤ i)
  nodup : (visitedIds st.trials).Nodup
  waitingNoId : ∀ t ∈ st.trials, t.state = .waiting → t.gridId = none
  stop : st.stop = true ↔ remainingG n (visitedIds st.trials) = 0

theorem mem_visitedIds (ts : List GTrial) (g : Nat) (h : g ∈ visitedIds ts) :
    ∃ (i : Nat) (t : GTrial), ts[i]? = some t ∧ t.gridId = some g := by
  simp only [visitedIds, List.mem_filterMap, List.mem_filter] at h
  obtain ⟨t, ⟨ht, _⟩, hg⟩ := h
  obtain ⟨i, hi⟩ := List.mem_iff_getElem?.mp ht
  exact ⟨i, t, hi, hg⟩

/-- the grid id `before_trial` assigns is a free cell -/
theorem beforeTrial_free (n : Nat) (st : St) (hinv : GInv n st) (hns : st.stop = false) (proposal : Nat) :
    (beforeTrial n st.trials st.trials.length proposal).1 < n ∧
    (beforeTrial n st.trials st.trials.length proposal).1 ∉ visitedIds st.trials ∧
    ((beforeTrial n st.trials st.trials.length proposal).1 = st.trials.length ∨ n ≤ st.trials.length) := by
  have hrem : 0 < remainingG n (visitedIds st.trials) := by
    rcases Nat.eq_zero_or_pos (remainingG n (visitedIds st.trials)) with h | h
    · have := hinv.stop.mpr h; rw [hns] at this; simp at this
    · exact h
  unfold beforeTrial
  by_cases hj : st.trials.length < n
  · rw [if_pos hj]
    refine ⟨hj, ?_, Or.inl rfl⟩
    intro hmem
    obtain ⟨i, t, hi, hg⟩ := mem_visitedIds _ _ hmem
    have := (hinv.idx i t _ hi hg).2
    have hlt : i < st.trials.length := by
      rcases Nat.lt_or_ge i st.trials.length with h | h
      · exact h
      · rw [List.getElem?_eq_none h] at hi; simp at hi
    omega
  · rw [if_neg hj]
    have hne := unvisitedOf_ne_nil n (visitedIds st.trials) (runningIds st.trials) hrem
    have hlen : ¬ ((unvisited n st.trials).length = 0) := by
      intro h
      exact hne (List.length_eq_zero_iff.mp h)
    simp only [hlen, if_false]
    show pick (unvisited n st.trials) proposal < n ∧ pick (unvisited n st.trials) proposal ∉ visitedIds st.trials ∧
      (pick (unvisited n st.trials) proposal = st.trials.length ∨ n ≤ st.trials.length)
    have hpick : pick (unvisited n st.trials) proposal ∈ unvisited n st.trials := by
      unfold pick
      split
      · rename_i h; simpa using h
      · cases hu : unvisited n st.trials with
        | nil => exact absurd hu hne
        | cons a l => simp
    have := mem_unvisitedOf n _ _ _ hpick
    exact ⟨this.1, this.2, Or.inr (by omega)⟩

/-- `after_trial` of a fresh grid trial: `study.stop()` iff its cell was the last free one -/
theorem afterTrial_fresh (n : Nat) (ts : List GTrial) (g : Nat) (hg : g < n) (hgV : g ∉ visitedIds ts) :
    afterTrial n (ts ++ [⟨some g, .running⟩]) (some g) =
      decide (remainingG n (visitedIds ts ++ [g]) = 0) := by
  have hlast := unvisitedOf_last n (visitedIds ts) (runningIds ts ++ [g]) g hg hgV (by simp)
  have hrem : 0 < remainingG n (visitedIds ts) := by
    have := remainingG_snoc n (visitedIds ts) g hg hgV
    omega
  have hne := unvisitedOf_ne_nil n (visitedIds ts) (runningIds ts ++ [g]) hrem
  simp only [afterTrial, unvisited, visitedIds_snoc_running, runningIds_snoc_running]
  generalize hU : unvisitedOf n (visitedIds ts) (runningIds ts ++ [g]) = U at hlast hne
  have hlen0 : ¬ (U.length = 0) := fun h => hne (List.length_eq_zero_iff.mp h)
  simp only [hlen0, if_false]
  by_cases h1 : U.length = 1
  · simp only [h1, if_true]
    match U, h1 with
    | [a], _ =>
      simp only [List.headD_cons]
      by_cases hga : g = a
      · subst hga
        have := hlast.mp rfl
        simp [this]
      · have : ¬ remainingG n (visitedIds ts ++ [g]) = 0 := by
          intro h
          have := hlast.mpr h
          simp only [List.cons.injEq, and_true] at this
          exact hga this.symm
        simp [this, hga]
  · simp only [h1, if_false]
    have : ¬ remainingG n (visitedIds ts ++ [g]) = 0 := by
      intro h
      have := hlast.mpr h
      rw [this] at h1
      simp at h1
    simp [this]

/-- `after_trial` of a trial without grid id (an enqueued one) while something is still free:
never `study.stop()` — and, since the repair of `after_trial`, never an error -/
theorem afterTrial_noId (n : Nat) (ts : List GTrial) (hrem : 0 < remainingG n (visitedIds ts)) :
    afterTrial n ts none = false := by
  have hne : unvisited n ts ≠ [] := unvisitedOf_ne_nil n (visitedIds ts) (runningIds ts) hrem
  have hlen0 : ¬ ((unvisited n ts).length = 0) := fun h => hne (List.length_eq_zero_iff.mp h)
  simp only [afterTrial]
  rw [if_neg hlen0]
  by_cases h1 : (unvisited n ts).length = 1
  · rw [if_pos h1]
  · rw [if_neg h1]

/-- the grid id a fresh trial of `st` gets -/
def freshId (cx : Ctx) (n : Nat) (st : St) : Nat :=
  (beforeTrial n st.trials st.trials.length (cx.ω st.calls)).1

theorem runTrial_fresh_eq (cx : Ctx) (n : Nat) (st : St) (hfw : firstWaiting st.trials = none) :
    (runTrial cx n st).1.trials = st.trials ++ [⟨some (freshId cx n st), .finished⟩] ∧
    (runTrial cx n st).1.stop = (st.stop ||
      afterTrial n (st.trials ++ [⟨some (freshId cx n st), .running⟩]) (some (freshId cx n st))) ∧
    (runTrial cx n st).2 = cx.raises st.trials.length := by
  simp only [runTrial, hfw, freshId, and_self]

theorem runTrial_waiting_eq (cx : Ctx) (n : Nat) (st : St) (i : Nat) (hfw : firstWaiting st.trials = some i)
    (hcur : (st.trials[i]?).bind (·.gridId) = none) :
    (runTrial cx n st).1.trials = setState st.trials i .finished ∧
    (runTrial cx n st).1.stop = (st.stop || afterTrial n (setState st.trials i .running) none) ∧
    (runTrial cx n st).2 = cx.raises i := by
  simp only [runTrial, hfw, hcur, and_self]

/-! ### counting WAITING and finished trials -/

def nWaiting (ts : List GTrial) : Nat := (ts.filter (fun t => t.state = .waiting)).length

/-- trials in a finished state, with or without grid id -/
def nDone (ts : List GTrial) : Nat := (ts.filter (fun t => t.state = .finished)).length

theorem nWaiting_zero_iff (ts : List GTrial) : nWaiting ts = 0 ↔ ∀ t ∈ ts, t.state ≠ .waiting := by
  simp [nWaiting, List.filter_eq_nil_iff]

theorem firstWaiting_none_iff (ts : List GTrial) : firstWaiting ts = none ↔ nWaiting ts = 0 := by
  constructor
  · intro h
    rw [nWaiting_zero_iff]
    intro t ht hw
    induction ts with
    | nil => simp at ht
    | cons a ts ih =>
      simp only [firstWaiting] at h
      split at h
      · simp at h
      · rename_i ha
        simp only [Option.map_eq_none_iff] at h
        simp only [List.mem_cons] at ht
        rcases ht with ht | ht
        · subst ht; exact ha hw
        · exact ih h ht
  · intro h
    exact firstWaiting_none ts ((nWaiting_zero_iff ts).mp h)

theorem nWaiting_cons (a : GTrial) (ts : List GTrial) :
    nWaiting (a :: ts) = (if a.state = .waiting then 1 else 0) + nWaiting ts := by
  simp only [nWaiting, List.filter_cons]
  by_cases h : a.state = .waiting <;> simp [h] <;> omega

theorem nDone_cons (a : GTrial) (ts : List GTrial) :
    nDone (a :: ts) = (if a.state = .finished then 1 else 0) + nDone ts := by
  simp only [nDone, List.filter_cons]
  by_cases h : a.state = .finished <;> simp [h] <;> omega

theorem counts_setState_finished (ts : List GTrial) : ∀ (i : Nat) (t : GTrial), ts[i]? = some t →
    t.state = .waiting →
    nWaiting (setState ts i .finished) + 1 = nWaiting ts ∧ nDone (setState ts i .finished) = nDone ts + 1 := by
  induction ts with
  | nil => intro i t h; simp at h
  | cons a ts ih =>
    intro i t h hw
    cases i with
    | zero =>
      simp only [List.getElem?_cons_zero, Option.some.injEq] at h
      subst h
      simp only [setState, updAt]
      rw [nWaiting_cons, nWaiting_cons, nDone_cons, nDone_cons]
      simp [hw]
      omega
    | succ i =>
      have := ih i t (by simpa using h) hw
      simp only [setState, updAt] at this ⊢
      rw [nWaiting_cons, nWaiting_cons, nDone_cons, nDone_cons]
      omega

theorem counts_snoc_finished (ts : List GTrial) (g : Option Nat) :
    nWaiting (ts ++ [⟨g, .finished⟩]) = nWaiting ts ∧ nDone (ts ++ [⟨g, .finished⟩]) = nDone ts + 1 := by
  simp [nWaiting, nDone, List.filter_append]

/-- The run invariant with its counters: `L` = (number of trials + number of free cells), which a
run never changes; and once no cell is free nobody is WAITING (queued trials are popped first). -/
structure GInv3 (n L : Nat) (st : St) : Prop extends GInv n st where
  lenInv : st.trials.length + remainingG n (visitedIds st.trials) = L
  queueFirst : remainingG n (visitedIds st.trials) = 0 → nWaiting st.trials = 0

/-- what is still to do: the queue, then the free cells -/
def todo (n : Nat) (st : St) : Nat := nWaiting st.trials + remainingG n (visitedIds st.trials)

theorem runTrial_ginv (cx : Ctx) (n : Nat) (st : St) (hinv : GInv n st) (hns : st.stop = false) :
    GInv n (runTrial cx n st).1 := by
  have hrem : 0 < remainingG n (visitedIds st.trials) := by
    rcases Nat.eq_zero_or_pos (remainingG n (visitedIds st.trials)) with h | h
    · have := hinv.stop.mpr h; rw [hns] at this; simp at this
    · exact h
  cases hfw : firstWaiting st.trials with
  | some i =>
    obtain ⟨t, hti, htw⟩ := firstWaiting_spec _ _ hfw
    have hnoid : t.gridId = none := hinv.waitingNoId t (List.mem_of_getElem? hti) htw
    have hnone : ∀ t', st.trials[i]? = some t' → t'.gridId = none := by
      intro t' ht'; rw [hti] at ht'; simp only [Option.some.injEq] at ht'; subst ht'; exact hnoid
    have hcur : (st.trials[i]?).bind (·.gridId) = none := by simp [hti, hnoid]
    have hv1 : visitedIds (setState st.trials i .running) = visitedIds st.trials :=
      visitedIds_setState _ _ _ hnone
    have hv2 : visitedIds (setState st.trials i .finished) = visitedIds st.trials :=
      visitedIds_setState _ _ _ hnone
    have hafter := afterTrial_noId n (setState st.trials i .running) (by rw [hv1]; exact hrem)
    obtain ⟨htr, hst, _⟩ := runTrial_waiting_eq cx n st i hfw hcur
    have hstop : (runTrial cx n st).1.stop = st.stop := by rw [hst, hafter]; simp
    constructor
    · intro j t' g hj hg
      rw [htr, setState_getElem?] at hj
      split at hj
      · simp only [Option.map_eq_some_iff] at hj
        obtain ⟨t0, ht0, hte⟩ := hj
        subst hte
        exact hinv.idx j t0 g ht0 hg
      · exact hinv.idx j t' g hj hg
    · rw [htr, hv2]; exact hinv.nodup
    · intro t' ht' hw
      rw [htr] at ht'
      obtain ⟨t0, ht0, hgid, hst⟩ := mem_setState _ _ _ _ ht'
      rcases hst with hst | hst
      · rw [← hgid]; exact hinv.waitingNoId t0 ht0 (by rw [← hst]; exact hw)
      · rw [hst] at hw; simp at hw
    · rw [hstop, htr, hv2]; exact hinv.stop
  | none =>
    obtain ⟨hlt, hnv, hnum⟩ := beforeTrial_free n st hinv hns (cx.ω st.calls)
    have hafter := afterTrial_fresh n st.trials (freshId cx n st) hlt hnv
    obtain ⟨htr, hst, _⟩ := runTrial_fresh_eq cx n st hfw
    constructor
    · intro i t g hi hg
      rw [htr] at hi
      rcases Nat.lt_or_ge i st.trials.length with h | h
      · rw [List.getElem?_append_left h] at hi
        exact hinv.idx i t g hi hg
      · rw [List.getElem?_append_right h] at hi
        have hi0 : i - st.trials.length = 0 := by
          rcases Nat.eq_zero_or_pos (i - st.trials.length) with h0 | h0
          · exact h0
          · rw [List.getElem?_eq_none (by simp only [List.length_singleton]; omega)] at hi; simp at hi
        rw [hi0] at hi
        simp only [List.getElem?_cons_zero, Option.some.injEq] at hi
        subst hi
        simp only [Option.some.injEq] at hg
        subst hg
        have : i = st.trials.length := by omega
        subst this
        exact ⟨hlt, hnum⟩
    · rw [htr, visitedIds_snoc_finished, List.nodup_append]
      refine ⟨hinv.nodup, by simp, ?_⟩
      intro a ha c hc hac
      simp only [List.mem_singleton] at hc
      subst hc; subst hac
      exact hnv ha
    · intro t ht hw
      rw [htr] at ht
      simp only [List.mem_append, List.mem_singleton] at ht
      rcases ht with ht | ht
      · exact hinv.waitingNoId t ht hw
      · subst ht; simp at hw
    · rw [hst, hafter, htr, visitedIds_snoc_finished, hns]
      simp

theorem optimizeLoop_ginv (cx : Ctx) (n : Nat) (k : Nat) : ∀ (st : St), GInv n st →
    GInv n (optimizeLoop cx n k st) := by
  induction k with
  | zero => intro st h; exact h
  | succ k ih =>
    intro st h
    simp only [optimizeLoop]
    cases hs : st.stop with
    | true => simpa using h
    | false =>
      have := runTrial_ginv cx n st h hs
      simp only [Bool.false_eq_true, if_false]
      split
      · exact this
      · exact ih _ this

theorem reset_stop (st : St) (h : st.stop = false) : { st with stop := false } = st := by
  cases st
  simp only at h
  subst h
  rfl

theorem optimize_of_not_stop (cx : Ctx) (n k : Nat) (st : St) (h : st.stop = false) :
    optimize cx n k st = optimizeLoop cx n k st := by
  simp only [optimize]
  rw [reset_stop st h]

theorem session_cons (cx : Ctx) (n k : Nat) (ks : List Nat) (st : St) :
    session cx n (k :: ks) st = session cx n ks (if st.stop then st else optimize cx n k st) := rfl

theorem session_ginv (cx : Ctx) (n : Nat) (ks : List Nat) : ∀ (st : St), GInv n st →
    GInv n (session cx n ks st) := by
  induction ks with
  | nil => intro st h; exact h
  | cons k ks ih =>
    intro st h
    rw [session_cons]
    cases hs : st.stop with
    | true => simpa using ih st h
    | false =>
      simp only [Bool.false_eq_true, if_false]
      rw [optimize_of_not_stop cx n k st hs]
      exact ih _ (optimizeLoop_ginv cx n k st h)

/-! ## how many trials a run takes (enqueued trials waiting in the queue included) -/

/-- one `_run_trial` from a state that has not stopped: one more finished trial, one thing less to do -/
theorem runTrial_ginv3 (cx : Ctx) (n L : Nat) (st : St) (hinv : GInv3 n L st) (hns : st.stop = false) :
    GInv3 n L (runTrial cx n st).1 ∧
    todo n (runTrial cx n st).1 + 1 = todo n st ∧
    nDone (runTrial cx n st).1.trials = nDone st.trials + 1 ∧
    (∃ i, (runTrial cx n st).2 = cx.raises i) := by
  have hbase := runTrial_ginv cx n st hinv.toGInv hns
  have hrem : 0 < remainingG n (visitedIds st.trials) := by
    rcases Nat.eq_zero_or_pos (remainingG n (visitedIds st.trials)) with h | h
    · have := hinv.stop.mpr h; rw [hns] at this; simp at this
    · exact h
  cases hfw : firstWaiting st.trials with
  | some i =>
    obtain ⟨t, hti, htw⟩ := firstWaiting_spec _ _ hfw
    have hnoid : t.gridId = none := hinv.waitingNoId t (List.mem_of_getElem? hti) htw
    have hnone : ∀ t', st.trials[i]? = some t' → t'.gridId = none := by
      intro t' ht'; rw [hti] at ht'; simp only [Option.some.injEq] at ht'; subst ht'; exact hnoid
    have hcur : (st.trials[i]?).bind (·.gridId) = none := by simp [hti, hnoid]
    have hv2 : visitedIds (setState st.trials i .finished) = visitedIds st.trials :=
      visitedIds_setState _ _ _ hnone
    obtain ⟨htr, _, hrs⟩ := runTrial_waiting_eq cx n st i hfw hcur
    obtain ⟨hc1, hc2⟩ := counts_setState_finished st.trials i t hti htw
    have hlen : (setState st.trials i .finished).length = st.trials.length := by simp [setState]
    refine ⟨⟨hbase, ?_, ?_⟩, ?_, ?_, ⟨i, hrs⟩⟩
    · rw [htr, hv2, hlen]; exact hinv.lenInv
    · rw [htr, hv2]; intro h0; omega
    · simp only [todo]; rw [htr, hv2]; omega
    · rw [htr]; exact hc2
  | none =>
    obtain ⟨hlt, hnv, _⟩ := beforeTrial_free n st hinv.toGInv hns (cx.ω st.calls)
    obtain ⟨htr, _, hrs⟩ := runTrial_fresh_eq cx n st hfw
    have hw0 : nWaiting st.trials = 0 := (firstWaiting_none_iff _).mp hfw
    obtain ⟨hc1, hc2⟩ := counts_snoc_finished st.trials (some (freshId cx n st))
    have hstep := remainingG_snoc n (visitedIds st.trials) (freshId cx n st) hlt hnv
    have hL := hinv.lenInv
    refine ⟨⟨hbase, ?_, ?_⟩, ?_, ?_, ⟨_, hrs⟩⟩
    · rw [htr, visitedIds_snoc_finished]
      simp only [List.length_append, List.length_singleton]
      omega
    · rw [htr, hc1]; intro _; exact hw0
    · simp only [todo]; rw [htr, hc1, visitedIds_snoc_finished]; omega
    · rw [htr]; exact hc2

theorem optimizeLoop_ginv3 (cx : Ctx) (n L : Nat) (k : Nat) : ∀ (st : St), GInv3 n L st →
    GInv3 n L (optimizeLoop cx n k st) := by
  induction k with
  | zero => intro st h; exact h
  | succ k ih =>
    intro st h
    simp only [optimizeLoop]
    cases hs : st.stop with
    | true => simpa using h
    | false =>
      have := (runTrial_ginv3 cx n L st h hs).1
      simp only [Bool.false_eq_true, if_false]
      split
      · exact this
      · exact ih _ this

theorem session_ginv3 (cx : Ctx) (n L : Nat) (ks : List Nat) : ∀ (st : St), GInv3 n L st →
    GInv3 n L (session cx n ks st) := by
  induction ks with
  | nil => intro st h; exact h
  | cons k ks ih =>
    intro st h
    rw [session_cons]
    cases hs : st.stop with
    | true => simpa using ih st h
    | false =>
      simp only [Bool.false_eq_true, if_false]
      rw [optimize_of_not_stop cx n k st hs]
      exact ih _ (optimizeLoop_ginv3 cx n L k st h)

theorem todo_zero_of_stop (n L : Nat) (st : St) (h : GInv3 n L st) (hs : st.stop = true) : todo n st = 0 := by
  have h0 := h.stop.mp hs
  have := h.queueFirst h0
  simp only [todo]; omega

theorem optimizeLoop_count (cx : Ctx) (n L : Nat) (hnr : ∀ i, cx.raises i = false) (k : Nat) :
    ∀ (st : St), GInv3 n L st →
    nDone (optimizeLoop cx n k st).trials = nDone st.trials + min k (todo n st) ∧
    todo n (optimizeLoop cx n k st) = todo n st - min k (todo n st) := by
  induction k with
  | zero => intro st _; simp [optimizeLoop]
  | succ k ih =>
    intro st h
    simp only [optimizeLoop]
    cases hs : st.stop with
    | true =>
      have := todo_zero_of_stop n L st h hs
      simp [this]
    | false =>
      have hpos : 0 < todo n st := by
        have : 0 < remainingG n (visitedIds st.trials) := by
          rcases Nat.eq_zero_or_pos (remainingG n (visitedIds st.trials)) with h0 | h0
          · have := h.stop.mpr h0; rw [hs] at this; simp at this
          · exact h0
        simp only [todo]; omega
      obtain ⟨hinv', htodo, hdone, ⟨i, hraise⟩⟩ := runTrial_ginv3 cx n L st h hs
      rw [hnr] at hraise
      simp only [Bool.false_eq_true, if_false, hraise]
      obtain ⟨h1, h2⟩ := ih _ hinv'
      rw [h1, h2]
      omega

theorem session_count (cx : Ctx) (n L : Nat) (hnr : ∀ i, cx.raises i = false) (ks : List Nat) :
    ∀ (st : St), GInv3 n L st →
    nDone (session cx n ks st).trials = nDone st.trials + min ks.sum (todo n st) ∧
    todo n (session cx n ks st) = todo n st - min ks.sum (todo n st) := by
  induction ks with
  | nil => intro st _; simp [session]
  | cons k ks ih =>
    intro st h
    rw [session_cons]
    simp only [List.sum_cons]
    cases hs : st.stop with
    | true =>
      have h0 := todo_zero_of_stop n L st h hs
      simp only [if_true]
      obtain ⟨h1, h2⟩ := ih st h
      rw [h1, h2, h0]
      simp
    | false =>
      simp only [Bool.false_eq_true, if_false]
      rw [optimize_of_not_stop cx n k st hs]
      have hinv' := optimizeLoop_ginv3 cx n L k st h
      obtain ⟨h1, h2⟩ := optimizeLoop_count cx n L hnr k st h
      obtain ⟨h3, h4⟩ := ih _ hinv'
      rw [h3, h4, h1, h2]
      omega

end OptunaVerif.Grid
