import OptunaVerif.Model.Heap
/-! Lemmas about the heap model (C20): elementary heap operations, `copy.deepcopy`, the two
invariants (`FWF`: closed heap + user-owned objects are isolated; `Conc`/`Frozen`: soundness of the
fresh-mutation discipline) and congruence of `pickle`. -/
namespace OptunaVerif.Heap

/-! ## elementary facts -/

theorem upd_length (h : Heap) (a k : Nat) (c : Cell) : (upd h a k c).length = h.length := by
  simp [upd]

theorem upd_get (h : Heap) (a k : Nat) (c : Cell) (b : Nat) :
    (upd h a k c)[b]? = (h[b]?).map (fun o => if a = b then put o k c else o) := by
  simp [upd, List.getElem?_modify]

theorem upd_get_ne (h : Heap) {a b : Nat} (k : Nat) (c : Cell) (hne : a ≠ b) :
    (upd h a k c)[b]? = h[b]? := by
  rw [upd_get]; cases h[b]? <;> simp [hne]

theorem mem_put {o : Obj} {k : Nat} {c : Cell} {x : Nat × Cell} (hx : x ∈ put o k c) :
    x = (k, c) ∨ x ∈ o := by
  simpa [put] using hx

theorem lookup_mem {l : List (Nat × Nat)} {s a : Nat} (h : l.lookup s = some a) : (s, a) ∈ l := by
  induction l with
  | nil => simp at h
  | cons p t ih =>
    obtain ⟨s', a'⟩ := p
    simp only [List.lookup_cons] at h
    split at h
    · rename_i heq
      have : s = s' := by simpa using heq
      simp at h; subst h; subst this; simp
    · exact List.mem_cons_of_mem _ (ih h)

theorem lookup_cell_mem {o : Obj} {f : Nat} {c : Cell} (h : o.lookup f = some c) : (f, c) ∈ o := by
  induction o with
  | nil => simp at h
  | cons p t ih =>
    obtain ⟨k, c'⟩ := p
    simp only [List.lookup_cons] at h
    split at h
    · rename_i heq
      have : f = k := by simpa using heq
      simp at h; subst h; subst this; simp
    · exact List.mem_cons_of_mem _ (ih h)

theorem cellAt_mem {h : Heap} {a f : Nat} {c : Cell} (hc : cellAt h a f = some c) :
    ∃ o, h[a]? = some o ∧ (f, c) ∈ o := by
  unfold cellAt at hc
  cases ho : h[a]? with
  | none => simp [ho] at hc
  | some o => simp [ho] at hc; exact ⟨o, rfl, lookup_cell_mem hc⟩

theorem cellAt_lt {h : Heap} {a f : Nat} {c : Cell} (hc : cellAt h a f = some c) : a < h.length := by
  obtain ⟨o, ho, _⟩ := cellAt_mem hc
  exact (List.getElem?_eq_some_iff.mp ho).1

theorem cellAt_append {h l : Heap} {a : Nat} (f : Nat) (ha : a < h.length) :
    cellAt (h ++ l) a f = cellAt h a f := by
  simp [cellAt, List.getElem?_append_left ha]

theorem cellAt_upd_ne (h : Heap) {a b : Nat} (k : Nat) (c : Cell) (f : Nat) (hne : a ≠ b) :
    cellAt (upd h a k c) b f = cellAt h b f := by
  simp [cellAt, upd_get_ne h k c hne]

theorem cellAt_upd_self (h : Heap) (a k : Nat) (c : Cell) (f : Nat) :
    cellAt (upd h a k c) a f = if f = k then (if a < h.length then some c else none) else cellAt h a f := by
  unfold cellAt
  rw [upd_get]
  cases ho : h[a]? with
  | none =>
    have : ¬ a < h.length := by
      intro hlt; rw [List.getElem?_eq_getElem hlt] at ho; cases ho
    simp [this]
  | some o =>
    have : a < h.length := (List.getElem?_eq_some_iff.mp ho).1
    by_cases hf : f = k
    · subst hf; simp [put, this]
    · have hb : (f == k) = false := by simpa using hf
      simp [put, List.lookup_cons, hf, hb]

theorem listCells_mem {slots : List (Nat × Nat)} {ss : List Nat} {i k d : Nat}
    (h : (k, Cell.ref d) ∈ listCells slots i ss) : ∃ s, (s, d) ∈ slots := by
  induction ss generalizing i with
  | nil => simp [listCells] at h
  | cons s t ih =>
    simp only [listCells] at h
    split at h
    · rename_i a ha
      rcases List.mem_cons.mp h with h | h
      · have : d = a := by simpa using (congrArg Prod.snd h)
        subst this; exact ⟨s, lookup_mem ha⟩
      · exact ih h
    · exact ih h

/-! ## `copy.deepcopy` only appends, and what it appends refers only to what it appended -/

/-- `h'` extends `h`, and every object added refers only to added objects -/
structure Grows (h h' : Heap) : Prop where
  ext : ∃ l, h' = h ++ l
  refs : ∀ b o, h.length ≤ b → h'[b]? = some o → ∀ k d, (k, Cell.ref d) ∈ o → h.length ≤ d ∧ d < h'.length

theorem Grows.len {h h' : Heap} (g : Grows h h') : h.length ≤ h'.length := by
  obtain ⟨l, rfl⟩ := g.ext; simp

theorem Grows.old {h h' : Heap} (g : Grows h h') {a : Nat} (ha : a < h.length) : h'[a]? = h[a]? := by
  obtain ⟨l, rfl⟩ := g.ext; exact List.getElem?_append_left ha

theorem Grows.refl (h : Heap) : Grows h h :=
  ⟨⟨[], by simp⟩, fun b o hb ho => by
    have := (List.getElem?_eq_some_iff.mp ho).1; omega⟩

theorem Grows.trans {h h1 h2 : Heap} (g1 : Grows h h1) (g2 : Grows h1 h2) : Grows h h2 := by
  refine ⟨?_, ?_⟩
  · obtain ⟨l1, rfl⟩ := g1.ext; obtain ⟨l2, rfl⟩ := g2.ext; exact ⟨l1 ++ l2, by simp⟩
  · intro b o hb ho k d hm
    have l1 := g1.len; have l2 := g2.len
    by_cases hb1 : b < h1.length
    · rw [g2.old hb1] at ho
      have := g1.refs b o hb ho k d hm
      omega
    · have := g2.refs b o (by omega) ho k d hm
      omega

theorem Grows.snoc {h h' : Heap} (g : Grows h h') (o : Obj)
    (ho : ∀ k d, (k, Cell.ref d) ∈ o → h.length ≤ d ∧ d < h'.length + 1) : Grows h (h' ++ [o]) := by
  have l1 := g.len
  refine ⟨?_, ?_⟩
  · obtain ⟨l, rfl⟩ := g.ext; exact ⟨l ++ [o], by simp⟩
  · intro b o' hb hb' k d hm
    simp only [List.length_append, List.length_singleton]
    by_cases hlt : b < h'.length
    · rw [List.getElem?_append_left hlt] at hb'
      have := g.refs b o' hb hb' k d hm; omega
    · have hbl : b = h'.length := by
        have := (List.getElem?_eq_some_iff.mp hb').1
        simp at this; omega
      subst hbl
      simp at hb'; subst hb'
      exact ho k d hm

def RecOK (rec : Heap → Nat → Heap × Nat) : Prop :=
  ∀ h d, Grows h (rec h d).1 ∧ h.length ≤ (rec h d).2 ∧ (rec h d).2 < (rec h d).1.length

theorem copyCells_ok {rec : Heap → Nat → Heap × Nat} (hr : RecOK rec) (o : Obj) (h : Heap) :
    Grows h (copyCells rec h o).1 ∧
      ∀ k d, (k, Cell.ref d) ∈ (copyCells rec h o).2 → h.length ≤ d ∧ d < (copyCells rec h o).1.length := by
  induction o generalizing h with
  | nil => exact ⟨Grows.refl h, by simp [copyCells]⟩
  | cons p t ih =>
    obtain ⟨k0, c0⟩ := p
    cases c0 with
    | sc v =>
      obtain ⟨g, hm⟩ := ih h
      refine ⟨by simpa [copyCells] using g, ?_⟩
      intro k d hkd
      simp only [copyCells, List.mem_cons] at hkd
      rcases hkd with hkd | hkd
      · simp at hkd
      · exact hm k d hkd
    | ref d0 =>
      obtain ⟨g1, hlo, hhi⟩ := hr h d0
      obtain ⟨g2, hm⟩ := ih (rec h d0).1
      have l1 := g1.len; have l2 := g2.len
      refine ⟨by simpa [copyCells] using g1.trans g2, ?_⟩
      intro k d hkd
      simp only [copyCells, List.mem_cons] at hkd
      rcases hkd with hkd | hkd
      · have : d = (rec h d0).2 := by simpa using (congrArg Prod.snd hkd)
        subst this
        simp only [copyCells]; omega
      · have := hm k d hkd
        simp only [copyCells]; omega

theorem deepCopy_ok (n : Nat) : RecOK (deepCopy n) := by
  induction n with
  | zero =>
    intro h d
    simp only [deepCopy]
    refine ⟨(Grows.refl h).snoc [] (by simp), by simp, by simp⟩
  | succ n ih =>
    intro h d
    obtain ⟨g, hm⟩ := copyCells_ok ih ((h[d]?).getD []) h
    have l1 := g.len
    simp only [deepCopy]
    refine ⟨g.snoc _ (fun k d' hkd => by have := hm k d' hkd; omega), by omega, by simp⟩

/-! ## soundness of the discipline: a disciplined call leaves every pre-existing object untouched -/

/-- every object below `base` is what it was in `h0` -/
def Frozen (base : Nat) (h0 h : Heap) : Prop := base ≤ h.length ∧ ∀ a, a < base → h[a]? = h0[a]?

theorem Frozen.append {base : Nat} {h0 h : Heap} (fz : Frozen base h0 h) (l : Heap) : Frozen base h0 (h ++ l) := by
  refine ⟨by have := fz.1; simp; omega, fun a ha => ?_⟩
  rw [List.getElem?_append_left (by have := fz.1; omega)]; exact fz.2 a ha

theorem Frozen.upd {base : Nat} {h0 h : Heap} (fz : Frozen base h0 h) {a : Nat} (ha : base ≤ a) (k : Nat) (c : Cell) :
    Frozen base h0 (upd h a k c) := by
  refine ⟨by rw [upd_length]; exact fz.1, fun b hb => ?_⟩
  rw [upd_get_ne h k c (by omega)]; exact fz.2 b hb

theorem Frozen.grows {base : Nat} {h0 h h' : Heap} (fz : Frozen base h0 h) (g : Grows h h') : Frozen base h0 h' := by
  obtain ⟨l, rfl⟩ := g.ext; exact fz.append l

/-- no returned handle is the storage's own container -/
def OnlyAddr (rets : List Ret) : Prop := ∀ r ∈ rets, ∀ ss, r ≠ Ret.view ss

/-- what the abstract state claims about the concrete frame -/
structure Conc (base : Nat) (ab : Abs) (fr : Frame) : Prop where
  nv : ab.view = false → ∀ ss, fr.cur ≠ .view ss
  fresh : ab.fresh = true → ∀ a, fr.cur = .addr a → base ≤ a
  ff : ∀ f ∈ ab.ff, ∀ a d, fr.cur = .addr a → cellAt fr.heap a f = some (.ref d) → base ≤ d

/-- cells of `a` after an in-place scalar write somewhere: a reference cell read afterwards was
already there -/
theorem cellAt_upd_sc {h : Heap} {t k v a g d : Nat}
    (hc : cellAt (upd h t k (.sc v)) a g = some (.ref d)) : cellAt h a g = some (.ref d) := by
  by_cases hta : t = a
  · subst hta
    rw [cellAt_upd_self] at hc
    split at hc
    · split at hc <;> simp at hc
    · exact hc
  · rwa [cellAt_upd_ne h k _ g hta] at hc

theorem step_disciplined {base : Nat} {h0 : Heap} {ab ab' : Abs} {fr : Frame} (ar : Args) {p : Prim}
    (fz : Frozen base h0 fr.heap) (oa : OnlyAddr fr.rets) (cc : Conc base ab fr)
    (hs : absStep ab p = some ab') :
    Frozen base h0 (step ar fr p).heap ∧ OnlyAddr (step ar fr p).rets ∧ Conc base ab' (step ar fr p) := by
  obtain ⟨nv, cfresh, cff⟩ := cc
  cases p with
  | load =>
    simp only [absStep, Option.some.injEq] at hs; subst hs
    refine ⟨fz, oa, ⟨?_, by simp, by simp⟩⟩
    intro _ ss; simp only [step]; split <;> simp
  | loadAll =>
    simp only [absStep, Option.some.injEq] at hs; subst hs
    exact ⟨fz, oa, ⟨by simp, by simp, by simp⟩⟩
  | collect =>
    simp only [absStep, Option.some.injEq] at hs; subst hs
    refine ⟨fz.append _, oa, ⟨by simp [step], ?_, by simp⟩⟩
    intro _ a ha; simp only [step, Cur.addr.injEq] at ha; have := fz.1; omega
  | allocNew =>
    simp only [absStep, Option.some.injEq] at hs; subst hs
    refine ⟨fz.append _, oa, ⟨by simp [step], ?_, by simp⟩⟩
    intro _ a ha; simp only [step, Cur.addr.injEq] at ha; have := fz.1; omega
  | allocCopy =>
    simp only [absStep] at hs
    split at hs
    · simp at hs
    · rename_i hv
      simp only [Option.some.injEq] at hs; subst hs
      have hv' : ab.view = false := by simpa using hv
      simp only [step]
      split
      · refine ⟨fz.append _, oa, ⟨by simp, ?_, by simp⟩⟩
        intro _ a ha; simp only [Cur.addr.injEq] at ha; have := fz.1; omega
      · rename_i hcur
        refine ⟨fz, oa, ⟨fun _ => nv hv', ?_, by simp⟩⟩
        intro _ a ha; exact absurd ha (hcur a)
  | loadField f =>
    simp only [absStep] at hs
    split at hs
    · simp at hs
    · rename_i hv
      simp only [Option.some.injEq] at hs; subst hs
      have hv' : ab.view = false := by simpa using hv
      simp only [step]
      split
      · rename_i a hcur
        split
        · rename_i d hd
          refine ⟨fz, oa, ⟨by simp, ?_, by simp⟩⟩
          intro hf a' ha'
          simp only [Cur.addr.injEq] at ha'; subst ha'
          have hf' : f ∈ ab.ff := by simpa using hf
          exact cff f hf' a _ hcur hd
        · exact ⟨fz, oa, ⟨by simp, by simp, by simp⟩⟩
      · rename_i hcur
        refine ⟨fz, oa, ⟨fun _ => nv hv', ?_, by simp⟩⟩
        intro _ a ha; exact absurd ha (hcur a)
  | copyField f =>
    simp only [absStep] at hs
    split at hs
    · rename_i hc
      simp only [Option.some.injEq] at hs; subst hs
      have hfr : ab.fresh = true := by simp at hc; exact hc.1
      have hv' : ab.view = false := by simp at hc; exact hc.2
      simp only [step]
      split
      · rename_i a hcur
        have hba := cfresh hfr a hcur
        split
        · rename_i d hd
          have halt := cellAt_lt hd
          refine ⟨(fz.append _).upd hba _ _, oa, ⟨fun _ => nv hv', fun _ => cfresh hfr, ?_⟩⟩
          intro g hg a' d' ha' hc'
          have : a' = a := by rw [hcur] at ha'; simpa using ha'.symm
          subst this
          rw [cellAt_upd_self] at hc'
          split at hc'
          · split at hc'
            · simp at hc'; have := fz.1; omega
            · simp at hc'
          · rename_i hgf
            rw [cellAt_append g halt] at hc'
            rcases List.mem_cons.mp hg with hg | hg
            · exact absurd hg hgf
            · exact cff g hg a' d' hcur hc'
        · rename_i hnd
          refine ⟨fz, oa, ⟨fun _ => nv hv', fun _ => cfresh hfr, ?_⟩⟩
          intro g hg a' d' ha' hc'
          have : a' = a := by rw [hcur] at ha'; simpa using ha'.symm
          subst this
          rcases List.mem_cons.mp hg with hg | hg
          · subst hg; exact absurd hc' (hnd d')
          · exact cff g hg a' d' hcur hc'
      · rename_i hcur
        refine ⟨fz, oa, ⟨fun _ => nv hv', fun _ => cfresh hfr, ?_⟩⟩
        intro g _ a' d' ha'; exact absurd ha' (hcur a')
    · simp at hs
  | newField f =>
    simp only [absStep] at hs
    split at hs
    · rename_i hc
      simp only [Option.some.injEq] at hs; subst hs
      have hfr : ab.fresh = true := by simp at hc; exact hc.1
      have hv' : ab.view = false := by simp at hc; exact hc.2
      simp only [step]
      split
      · rename_i a hcur
        have hba := cfresh hfr a hcur
        refine ⟨(fz.append _).upd hba _ _, oa, ⟨fun _ => nv hv', fun _ => cfresh hfr, ?_⟩⟩
        intro g hg a' d' ha' hc'
        have : a' = a := by rw [hcur] at ha'; simpa using ha'.symm
        subst this
        rw [cellAt_upd_self] at hc'
        split at hc'
        · split at hc'
          · simp at hc'; have := fz.1; omega
          · simp at hc'
        · rename_i hgf
          rcases List.mem_cons.mp hg with hg | hg
          · exact absurd hg hgf
          · by_cases halt : a' < fr.heap.length
            · rw [cellAt_append g halt] at hc'
              exact cff g hg a' d' hcur hc'
            · -- a dangling current address: the only object it can name is the new, empty one
              obtain ⟨o, ho, hm⟩ := cellAt_mem hc'
              have hl := (List.getElem?_eq_some_iff.mp ho).1
              simp at hl
              have : a' = fr.heap.length := by omega
              subst this
              simp at ho; subst ho; simp at hm
      · rename_i hcur
        refine ⟨fz, oa, ⟨fun _ => nv hv', fun _ => cfresh hfr, ?_⟩⟩
        intro g _ a' d' ha'; exact absurd ha' (hcur a')
    · simp at hs
  | mutField f =>
    simp only [absStep] at hs
    split at hs
    · rename_i hc
      simp only [Option.some.injEq] at hs; subst hs
      have hf : f ∈ ab.ff := by simp at hc; exact hc.1
      simp only [step]
      split
      · rename_i a hcur
        split
        · rename_i d hd
          have hbd := cff f hf a d hcur hd
          refine ⟨fz.upd hbd _ _, oa, ⟨nv, cfresh, ?_⟩⟩
          intro g hg a' d' ha' hc'
          exact cff g hg a' d' ha' (cellAt_upd_sc hc')
        · exact ⟨fz, oa, ⟨nv, cfresh, cff⟩⟩
      · exact ⟨fz, oa, ⟨nv, cfresh, cff⟩⟩
    · simp at hs
  | mutCur =>
    simp only [absStep] at hs
    split at hs
    · rename_i hc
      simp only [Option.some.injEq] at hs; subst hs
      have hfr : ab.fresh = true := by simp at hc; exact hc.1
      simp only [step]
      split
      · rename_i a hcur
        refine ⟨fz.upd (cfresh hfr a hcur) _ _, oa, ⟨nv, cfresh, ?_⟩⟩
        intro g hg a' d' ha' hc'
        exact cff g hg a' d' ha' (cellAt_upd_sc hc')
      · exact ⟨fz, oa, ⟨nv, cfresh, cff⟩⟩
    · simp at hs
  | setScalar f =>
    simp only [absStep] at hs
    split at hs
    · rename_i hc
      simp only [Option.some.injEq] at hs; subst hs
      have hfr : ab.fresh = true := by simp at hc; exact hc.1
      simp only [step]
      split
      · rename_i a hcur
        refine ⟨fz.upd (cfresh hfr a hcur) _ _, oa, ⟨nv, cfresh, ?_⟩⟩
        intro g hg a' d' ha' hc'
        exact cff g hg a' d' ha' (cellAt_upd_sc hc')
      · exact ⟨fz, oa, ⟨nv, cfresh, cff⟩⟩
    · simp at hs
  | publish =>
    simp only [absStep] at hs
    split at hs
    · simp at hs
    · rename_i hv
      simp only [Option.some.injEq] at hs; subst hs
      have hv' : ab.view = false := by simpa using hv
      simp only [step]
      split
      · exact ⟨fz, oa, ⟨fun _ => nv hv', by simp, by simp⟩⟩
      · exact ⟨fz, oa, ⟨fun _ => nv hv', by simp, by simp⟩⟩
  | unpublish =>
    simp only [absStep, Option.some.injEq] at hs; subst hs
    exact ⟨fz, oa, ⟨nv, cfresh, cff⟩⟩
  | ret =>
    simp only [absStep] at hs
    split at hs
    · simp at hs
    · rename_i hv
      simp only [Option.some.injEq] at hs; subst hs
      have hv' : ab.view = false := by simpa using hv
      simp only [step]
      split
      · rename_i a hcur
        refine ⟨fz, ?_, ⟨nv, cfresh, cff⟩⟩
        intro r hr
        rcases List.mem_append.mp hr with hr | hr
        · exact oa r hr
        · intro ss; have : r = Ret.addr a := by simpa using hr
          subst this; simp
      · rename_i ss hcur
        exact absurd hcur (nv hv' ss)
      · exact ⟨fz, oa, ⟨nv, cfresh, cff⟩⟩
  | retDeep =>
    simp only [absStep] at hs
    split at hs
    · simp at hs
    · simp only [Option.some.injEq] at hs; subst hs
      simp only [step]
      split
      · rename_i a hcur
        obtain ⟨g, hlo, hhi⟩ := deepCopy_ok (fr.heap.length + 1) fr.heap a
        refine ⟨fz.grows g, ?_, ⟨nv, cfresh, ?_⟩⟩
        · intro r hr
          rcases List.mem_append.mp hr with hr | hr
          · exact oa r hr
          · intro ss; have : r = Ret.copy (deepCopy (fr.heap.length + 1) fr.heap a).2 := by simpa using hr
            rw [this]; simp
        · intro f hf a' d' ha' hc'
          by_cases halt : a' < fr.heap.length
          · have : cellAt fr.heap a' f = some (.ref d') := by
              obtain ⟨l, hl⟩ := g.ext
              rw [hl, cellAt_append f halt] at hc'; exact hc'
            exact cff f hf a' d' ha' this
          · obtain ⟨o, ho, hm⟩ := cellAt_mem hc'
            have := (g.refs a' o (by omega) ho f d' hm).1
            have := fz.1
            omega
      · exact ⟨fz, oa, ⟨nv, cfresh, cff⟩⟩

theorem run_disciplined {base : Nat} {h0 : Heap} (ar : Args) (body : List Prim) {ab ab' : Abs} {fr : Frame}
    (fz : Frozen base h0 fr.heap) (oa : OnlyAddr fr.rets) (cc : Conc base ab fr)
    (hs : absRun ab body = some ab') :
    Frozen base h0 (run ar fr body).heap ∧ OnlyAddr (run ar fr body).rets := by
  induction body generalizing ab fr with
  | nil => exact ⟨fz, oa⟩
  | cons p ps ih =>
    simp only [absRun] at hs
    split at hs
    · rename_i ab1 h1
      obtain ⟨fz1, oa1, cc1⟩ := step_disciplined ar fz oa cc h1
      exact ih fz1 oa1 cc1 hs
    · simp at hs

/-- **A disciplined call changes no object that existed when it started, and returns references
only (never the storage's container).** -/
theorem call_frozen {body : List Prim} (hd : disciplined body = true) (ar : Args) (w : World) :
    (∀ a, a < w.heap.length → (callM body ar w).1.heap[a]? = w.heap[a]?) ∧
    w.heap.length ≤ (callM body ar w).1.heap.length ∧
    OnlyAddr (callM body ar w).2 := by
  unfold disciplined at hd
  cases hab : absRun Abs.init body with
  | none => simp [hab] at hd
  | some ab' =>
    have fz0 : Frozen w.heap.length w.heap (enter w).heap := ⟨Nat.le_refl _, fun _ _ => rfl⟩
    have oa0 : OnlyAddr (enter w).rets := by intro r hr; simp [enter] at hr
    have cc0 : Conc w.heap.length Abs.init (enter w) :=
      ⟨by intro _ ss; simp [enter], by simp [Abs.init], by simp [Abs.init]⟩
    obtain ⟨fz, oa⟩ := run_disciplined ar body fz0 oa0 cc0 hab
    exact ⟨fz.2, fz.1, oa⟩

/-! ## well-formed frames: the heap is closed, and nothing of the storage refers to a user-owned object -/

structure FWF (fr : Frame) : Prop where
  refs : ∀ a o, fr.heap[a]? = some o → ∀ k d, (k, Cell.ref d) ∈ o →
    d < fr.heap.length ∧ (a ∉ fr.uo → d ∉ fr.uo)
  slotsIn : ∀ s a, (s, a) ∈ fr.slots → a < fr.heap.length ∧ a ∉ fr.uo
  uoIn : ∀ a, a ∈ fr.uo → a < fr.heap.length
  curIn : ∀ a, fr.cur = .addr a → a < fr.heap.length ∧ a ∉ fr.uo

/-- appending an object whose references are in range and not user-owned -/
theorem refs_alloc {h : Heap} {uo : List Nat} {o : Obj}
    (hr : ∀ a o, h[a]? = some o → ∀ k d, (k, Cell.ref d) ∈ o → d < h.length ∧ (a ∉ uo → d ∉ uo))
    (ho : ∀ k d, (k, Cell.ref d) ∈ o → d < h.length ∧ d ∉ uo) :
    ∀ a o', (h ++ [o])[a]? = some o' → ∀ k d, (k, Cell.ref d) ∈ o' →
      d < (h ++ [o]).length ∧ (a ∉ uo → d ∉ uo) := by
  intro a o' ha k d hm
  simp only [List.length_append, List.length_singleton]
  by_cases hlt : a < h.length
  · rw [List.getElem?_append_left hlt] at ha
    have := hr a o' ha k d hm
    exact ⟨by omega, this.2⟩
  · have hl := (List.getElem?_eq_some_iff.mp ha).1
    simp at hl
    have : a = h.length := by omega
    subst this
    simp at ha; subst ha
    have := ho k d hm
    exact ⟨by omega, fun _ => this.2⟩

/-- an in-place write of a scalar, or of a reference that is in range and not user-owned -/
theorem refs_upd {h : Heap} {uo : List Nat} {t k : Nat} {c : Cell}
    (hr : ∀ a o, h[a]? = some o → ∀ k d, (k, Cell.ref d) ∈ o → d < h.length ∧ (a ∉ uo → d ∉ uo))
    (hc : ∀ d, c = .ref d → d < h.length ∧ d ∉ uo) :
    ∀ a o', (upd h t k c)[a]? = some o' → ∀ k' d, (k', Cell.ref d) ∈ o' →
      d < (upd h t k c).length ∧ (a ∉ uo → d ∉ uo) := by
  intro a o' ha k' d hm
  rw [upd_length]
  rw [upd_get] at ha
  cases hoa : h[a]? with
  | none => simp [hoa] at ha
  | some o =>
    simp only [hoa, Option.map_some, Option.some.injEq] at ha
    by_cases hta : t = a
    · simp only [hta, if_true] at ha
      subst ha
      rcases mem_put hm with hm | hm
      · have : c = .ref d := by simpa using (congrArg Prod.snd hm).symm
        have := hc d this
        exact ⟨this.1, fun _ => this.2⟩
      · exact hr a o hoa k' d hm
    · simp only [hta, if_false] at ha
      subst ha
      exact hr a o hoa k' d hm

theorem step_wf (ar : Args) {fr : Frame} (wf : FWF fr) (p : Prim) : FWF (step ar fr p) := by
  obtain ⟨hrefs, hslots, huo, hcur⟩ := wf
  have fresh_not_uo : fr.heap.length ∉ fr.uo := fun hm => by have := huo _ hm; omega
  cases p with
  | load =>
    refine ⟨hrefs, hslots, huo, ?_⟩
    intro a ha
    simp only [step] at ha
    split at ha
    · rename_i a' hl
      simp only [Cur.addr.injEq] at ha; subst ha
      exact hslots _ _ (lookup_mem hl)
    · simp at ha
  | loadAll =>
    exact ⟨hrefs, hslots, huo, by intro a ha; simp [step] at ha⟩
  | collect =>
    refine ⟨?_, ?_, ?_, ?_⟩
    · exact refs_alloc hrefs (fun k d hm => by
        obtain ⟨s, hs⟩ := listCells_mem hm
        exact hslots s d hs)
    · intro s a hm
      have := hslots s a hm
      simp only [step, List.length_append, List.length_singleton]
      exact ⟨by omega, this.2⟩
    · intro a ha
      have := huo a ha
      simp only [step, List.length_append, List.length_singleton]; omega
    · intro a ha
      simp only [step, Cur.addr.injEq] at ha; subst ha
      simp only [step, List.length_append, List.length_singleton]
      exact ⟨by omega, fresh_not_uo⟩
  | allocNew =>
    refine ⟨?_, ?_, ?_, ?_⟩
    · exact refs_alloc hrefs (fun k d hm => by simp at hm)
    · intro s a hm
      have := hslots s a hm
      simp only [step, List.length_append, List.length_singleton]
      exact ⟨by omega, this.2⟩
    · intro a ha
      have := huo a ha
      simp only [step, List.length_append, List.length_singleton]; omega
    · intro a ha
      simp only [step, Cur.addr.injEq] at ha; subst ha
      simp only [step, List.length_append, List.length_singleton]
      exact ⟨by omega, fresh_not_uo⟩
  | allocCopy =>
    simp only [step]
    split
    · rename_i a hca
      obtain ⟨halt, hauo⟩ := hcur a hca
      refine ⟨?_, ?_, ?_, ?_⟩
      · refine refs_alloc hrefs (fun k d hm => ?_)
        have hoa : fr.heap[a]? = some fr.heap[a] := List.getElem?_eq_getElem halt
        rw [hoa] at hm
        have := hrefs a _ hoa k d hm
        exact ⟨this.1, this.2 hauo⟩
      · intro s a' hm
        have := hslots s a' hm
        simp only [List.length_append, List.length_singleton]
        exact ⟨by omega, this.2⟩
      · intro a' ha'
        have := huo a' ha'
        simp only [List.length_append, List.length_singleton]; omega
      · intro a' ha'
        simp only [Cur.addr.injEq] at ha'; subst ha'
        simp only [List.length_append, List.length_singleton]
        exact ⟨by omega, fresh_not_uo⟩
    · exact ⟨hrefs, hslots, huo, hcur⟩
  | loadField f =>
    simp only [step]
    split
    · rename_i a hca
      obtain ⟨halt, hauo⟩ := hcur a hca
      split
      · rename_i d hd
        refine ⟨hrefs, hslots, huo, ?_⟩
        intro a' ha'
        simp only [Cur.addr.injEq] at ha'; subst ha'
        obtain ⟨o, ho, hm⟩ := cellAt_mem hd
        have := hrefs a o ho f _ hm
        exact ⟨this.1, this.2 hauo⟩
      · exact ⟨hrefs, hslots, huo, by intro a' ha'; simp at ha'⟩
    · exact ⟨hrefs, hslots, huo, hcur⟩
  | copyField f =>
    simp only [step]
    split
    · rename_i a hca
      obtain ⟨halt, hauo⟩ := hcur a hca
      split
      · rename_i d hd
        obtain ⟨o, ho, hm⟩ := cellAt_mem hd
        obtain ⟨hdlt, hduo⟩ := hrefs a o ho f d hm
        have hduo := hduo hauo
        have hod : fr.heap[d]? = some fr.heap[d] := List.getElem?_eq_getElem hdlt
        have h1 := refs_alloc (o := (fr.heap[d]?).getD []) hrefs (fun k d' hm' => by
          rw [hod] at hm'
          have := hrefs d _ hod k d' hm'
          exact ⟨this.1, this.2 hduo⟩)
        refine ⟨?_, ?_, ?_, ?_⟩
        · exact refs_upd h1 (fun d' hd' => by
            simp only [Cell.ref.injEq] at hd'; subst hd'
            simp only [List.length_append, List.length_singleton]
            exact ⟨by omega, fresh_not_uo⟩)
        · intro s a' hm'
          have := hslots s a' hm'
          rw [upd_length]
          simp only [List.length_append, List.length_singleton]
          exact ⟨by omega, this.2⟩
        · intro a' ha'
          have := huo a' ha'
          rw [upd_length]
          simp only [List.length_append, List.length_singleton]; omega
        · intro a' ha'
          have := hcur a' ha'
          rw [upd_length]
          simp only [List.length_append, List.length_singleton]
          exact ⟨by omega, this.2⟩
      · exact ⟨hrefs, hslots, huo, hcur⟩
    · exact ⟨hrefs, hslots, huo, hcur⟩
  | newField f =>
    simp only [step]
    split
    · rename_i a hca
      have h1 := refs_alloc (o := []) hrefs (fun k d' hm' => by simp at hm')
      refine ⟨?_, ?_, ?_, ?_⟩
      · exact refs_upd h1 (fun d' hd' => by
          simp only [Cell.ref.injEq] at hd'; subst hd'
          simp only [List.length_append, List.length_singleton]
          exact ⟨by omega, fresh_not_uo⟩)
      · intro s a' hm'
        have := hslots s a' hm'
        rw [upd_length]
        simp only [List.length_append, List.length_singleton]
        exact ⟨by omega, this.2⟩
      · intro a' ha'
        have := huo a' ha'
        rw [upd_length]
        simp only [List.length_append, List.length_singleton]; omega
      · intro a' ha'
        have := hcur a' ha'
        rw [upd_length]
        simp only [List.length_append, List.length_singleton]
        exact ⟨by omega, this.2⟩
    · exact ⟨hrefs, hslots, huo, hcur⟩
  | mutField f =>
    simp only [step]
    split
    · split
      · refine ⟨refs_upd hrefs (fun d' hd' => by simp at hd'), ?_, ?_, ?_⟩
        · intro s a' hm'; rw [upd_length]; exact hslots s a' hm'
        · intro a' ha'; rw [upd_length]; exact huo a' ha'
        · intro a' ha'; rw [upd_length]; exact hcur a' ha'
      · exact ⟨hrefs, hslots, huo, hcur⟩
    · exact ⟨hrefs, hslots, huo, hcur⟩
  | mutCur =>
    simp only [step]
    split
    · refine ⟨refs_upd hrefs (fun d' hd' => by simp at hd'), ?_, ?_, ?_⟩
      · intro s a' hm'; rw [upd_length]; exact hslots s a' hm'
      · intro a' ha'; rw [upd_length]; exact huo a' ha'
      · intro a' ha'; rw [upd_length]; exact hcur a' ha'
    · exact ⟨hrefs, hslots, huo, hcur⟩
  | setScalar f =>
    simp only [step]
    split
    · refine ⟨refs_upd hrefs (fun d' hd' => by simp at hd'), ?_, ?_, ?_⟩
      · intro s a' hm'; rw [upd_length]; exact hslots s a' hm'
      · intro a' ha'; rw [upd_length]; exact huo a' ha'
      · intro a' ha'; rw [upd_length]; exact hcur a' ha'
    · exact ⟨hrefs, hslots, huo, hcur⟩
  | publish =>
    simp only [step]
    split
    · rename_i a hca
      refine ⟨hrefs, ?_, huo, hcur⟩
      intro s a' hm'
      rcases List.mem_cons.mp hm' with hm' | hm'
      · have : a' = a := by simpa using (congrArg Prod.snd hm')
        subst this; exact hcur a' hca
      · exact hslots s a' hm'
    · exact ⟨hrefs, hslots, huo, hcur⟩
  | unpublish =>
    refine ⟨hrefs, ?_, huo, hcur⟩
    intro s a hm
    simp only [step] at hm
    exact hslots s a (List.mem_filter.mp hm).1
  | ret =>
    simp only [step]
    split
    · exact ⟨hrefs, hslots, huo, hcur⟩
    · exact ⟨hrefs, hslots, huo, hcur⟩
    · exact ⟨hrefs, hslots, huo, hcur⟩
  | retDeep =>
    simp only [step]
    split
    · rename_i a hca
      obtain ⟨g, hlo, hhi⟩ := deepCopy_ok (fr.heap.length + 1) fr.heap a
      have hlen := g.len
      have inNew : ∀ x, x ∈ List.range' fr.heap.length ((deepCopy (fr.heap.length + 1) fr.heap a).1.length - fr.heap.length) ↔
          fr.heap.length ≤ x ∧ x < (deepCopy (fr.heap.length + 1) fr.heap a).1.length := by
        intro x
        rw [List.mem_range']
        constructor
        · rintro ⟨i, hi, rfl⟩; omega
        · intro hx; exact ⟨x - fr.heap.length, by omega, by omega⟩
      refine ⟨?_, ?_, ?_, ?_⟩ <;> dsimp only
      · intro b o hb k d hm
        by_cases hlt : b < fr.heap.length
        · rw [g.old hlt] at hb
          obtain ⟨h1, h2⟩ := hrefs b o hb k d hm
          refine ⟨by omega, fun hbn hdn => ?_⟩
          rcases List.mem_append.mp hdn with hdn | hdn
          · have := (inNew d).mp hdn; omega
          · exact h2 (fun hbu => hbn (List.mem_append_right _ hbu)) hdn
        · obtain ⟨h1, h2⟩ := g.refs b o (by omega) hb k d hm
          refine ⟨h2, fun hbn => ?_⟩
          have hbl := (List.getElem?_eq_some_iff.mp hb).1
          exact absurd (List.mem_append_left _ ((inNew b).mpr ⟨by omega, hbl⟩)) hbn
      · intro s a' hm'
        obtain ⟨h1, h2⟩ := hslots s a' hm'
        refine ⟨by omega, fun hn => ?_⟩
        rcases List.mem_append.mp hn with hn | hn
        · have := (inNew a').mp hn; omega
        · exact h2 hn
      · intro a' ha'
        rcases List.mem_append.mp ha' with ha' | ha'
        · exact ((inNew a').mp ha').2
        · have := huo a' ha'; omega
      · intro a' ha'
        obtain ⟨h1, h2⟩ := hcur a' ha'
        refine ⟨by omega, fun hn => ?_⟩
        rcases List.mem_append.mp hn with hn | hn
        · have := (inNew a').mp hn; omega
        · exact h2 hn
    · exact ⟨hrefs, hslots, huo, hcur⟩

theorem run_wf (ar : Args) (body : List Prim) {fr : Frame} (wf : FWF fr) : FWF (run ar fr body) := by
  induction body generalizing fr with
  | nil => exact wf
  | cons p ps ih => exact ih (step_wf ar wf p)

/-- well-formed world: closed heap, slots in range, user-owned objects isolated from the storage -/
def WF (w : World) : Prop := FWF (enter w)

theorem wf_init : WF World.init :=
  ⟨by intro a o h; simp [enter, World.init] at h, by intro s a h; simp [enter, World.init] at h,
   by intro a h; simp [enter, World.init] at h, by intro a h; simp [enter] at h⟩

theorem call_wf (body : List Prim) (ar : Args) {w : World} (wf : WF w) : WF (callM body ar w).1 := by
  have := run_wf ar body wf
  exact ⟨this.refs, this.slotsIn, this.uoIn, by intro a h; simp [enter] at h⟩

theorem stepEv_wf {w : World} (wf : WF w) (e : Ev) : WF (stepEv w e) := by
  cases e with
  | call body ar => exact call_wf body ar wf
  | userMut a k v =>
    simp only [stepEv]
    split
    · refine ⟨?_, ?_, ?_, by intro a h; simp [enter] at h⟩
      · exact refs_upd (h := w.heap) (uo := w.uo) wf.refs (fun d hd => by simp at hd)
      · intro s a' hm; have := wf.slotsIn s a' hm; simpa [enter, upd_length] using this
      · intro a' ha'; have := wf.uoIn a' ha'; simpa [enter, upd_length] using this
    · exact wf

theorem runEvs_wf {w : World} (wf : WF w) (evs : List Ev) : WF (runEvs w evs) := by
  induction evs generalizing w with
  | nil => exact wf
  | cons e es ih => exact ih (stepEv_wf wf e)

/-! ## monotonicity: the heap only grows, user-owned addresses are only added, and only fresh ones -/

theorem step_mono (ar : Args) (fr : Frame) (p : Prim) :
    fr.heap.length ≤ (step ar fr p).heap.length ∧
    (∀ x, x ∈ fr.uo → x ∈ (step ar fr p).uo) ∧
    (∀ x, x ∈ (step ar fr p).uo → x ∈ fr.uo ∨ fr.heap.length ≤ x) := by
  cases p with
  | load => exact ⟨Nat.le_refl _, fun _ h => h, fun _ h => Or.inl h⟩
  | loadAll => exact ⟨Nat.le_refl _, fun _ h => h, fun _ h => Or.inl h⟩
  | collect => exact ⟨by simp [step], fun _ h => h, fun _ h => Or.inl h⟩
  | allocNew => exact ⟨by simp [step], fun _ h => h, fun _ h => Or.inl h⟩
  | allocCopy =>
    simp only [step]; split
    · exact ⟨by simp, fun _ h => h, fun _ h => Or.inl h⟩
    · exact ⟨Nat.le_refl _, fun _ h => h, fun _ h => Or.inl h⟩
  | loadField f =>
    simp only [step]; split
    · split <;> exact ⟨Nat.le_refl _, fun _ h => h, fun _ h => Or.inl h⟩
    · exact ⟨Nat.le_refl _, fun _ h => h, fun _ h => Or.inl h⟩
  | copyField f =>
    simp only [step]; split
    · split
      · exact ⟨by simp [upd_length], fun _ h => h, fun _ h => Or.inl h⟩
      · exact ⟨Nat.le_refl _, fun _ h => h, fun _ h => Or.inl h⟩
    · exact ⟨Nat.le_refl _, fun _ h => h, fun _ h => Or.inl h⟩
  | newField f =>
    simp only [step]; split
    · exact ⟨by simp [upd_length], fun _ h => h, fun _ h => Or.inl h⟩
    · exact ⟨Nat.le_refl _, fun _ h => h, fun _ h => Or.inl h⟩
  | mutField f =>
    simp only [step]; split
    · split
      · exact ⟨by simp [upd_length], fun _ h => h, fun _ h => Or.inl h⟩
      · exact ⟨Nat.le_refl _, fun _ h => h, fun _ h => Or.inl h⟩
    · exact ⟨Nat.le_refl _, fun _ h => h, fun _ h => Or.inl h⟩
  | mutCur =>
    simp only [step]; split
    · exact ⟨by simp [upd_length], fun _ h => h, fun _ h => Or.inl h⟩
    · exact ⟨Nat.le_refl _, fun _ h => h, fun _ h => Or.inl h⟩
  | setScalar f =>
    simp only [step]; split
    · exact ⟨by simp [upd_length], fun _ h => h, fun _ h => Or.inl h⟩
    · exact ⟨Nat.le_refl _, fun _ h => h, fun _ h => Or.inl h⟩
  | publish =>
    simp only [step]; split <;> exact ⟨Nat.le_refl _, fun _ h => h, fun _ h => Or.inl h⟩
  | unpublish => exact ⟨Nat.le_refl _, fun _ h => h, fun _ h => Or.inl h⟩
  | ret =>
    simp only [step]; split <;> exact ⟨Nat.le_refl _, fun _ h => h, fun _ h => Or.inl h⟩
  | retDeep =>
    simp only [step]; split
    · rename_i a _
      obtain ⟨g, _, _⟩ := deepCopy_ok (fr.heap.length + 1) fr.heap a
      refine ⟨g.len, fun x h => List.mem_append_right _ h, fun x h => ?_⟩
      rcases List.mem_append.mp h with h | h
      · right; rw [List.mem_range'] at h; obtain ⟨i, _, rfl⟩ := h; omega
      · exact Or.inl h
    · exact ⟨Nat.le_refl _, fun _ h => h, fun _ h => Or.inl h⟩

theorem run_mono (ar : Args) (body : List Prim) (fr : Frame) :
    fr.heap.length ≤ (run ar fr body).heap.length ∧
    (∀ x, x ∈ fr.uo → x ∈ (run ar fr body).uo) ∧
    (∀ x, x ∈ (run ar fr body).uo → x ∈ fr.uo ∨ fr.heap.length ≤ x) := by
  induction body generalizing fr with
  | nil => exact ⟨Nat.le_refl _, fun _ h => h, fun _ h => Or.inl h⟩
  | cons p ps ih =>
    obtain ⟨l1, u1, n1⟩ := step_mono ar fr p
    obtain ⟨l2, u2, n2⟩ := ih (step ar fr p)
    refine ⟨Nat.le_trans l1 l2, fun x h => u2 x (u1 x h), fun x h => ?_⟩
    rcases n2 x h with h | h
    · exact n1 x h
    · right; omega

/-- returned handles: live references are in range and not user-owned; copies are user-owned -/
structure RetsOK (fr : Frame) : Prop where
  live : ∀ a, Ret.addr a ∈ fr.rets → a < fr.heap.length ∧ a ∉ fr.uo
  copy : ∀ a, Ret.copy a ∈ fr.rets → a < fr.heap.length ∧ a ∈ fr.uo

theorem step_rets (ar : Args) {fr : Frame} (wf : FWF fr) (ro : RetsOK fr) (p : Prim) : RetsOK (step ar fr p) := by
  obtain ⟨l1, u1, n1⟩ := step_mono ar fr p
  -- handles returned earlier stay fine whatever the primitive does
  have old : ∀ rets', rets' = fr.rets →
      (∀ a, Ret.addr a ∈ rets' → a < (step ar fr p).heap.length ∧ a ∉ (step ar fr p).uo) ∧
      (∀ a, Ret.copy a ∈ rets' → a < (step ar fr p).heap.length ∧ a ∈ (step ar fr p).uo) := by
    intro rets' he; subst he
    refine ⟨fun a ha => ?_, fun a ha => ?_⟩
    · obtain ⟨h1, h2⟩ := ro.live a ha
      refine ⟨by omega, fun hn => ?_⟩
      rcases n1 a hn with hn | hn
      · exact h2 hn
      · omega
    · obtain ⟨h1, h2⟩ := ro.copy a ha
      exact ⟨by omega, u1 a h2⟩
  have same : (step ar fr p).rets = fr.rets → RetsOK (step ar fr p) := by
    intro he; exact ⟨by rw [he]; exact (old _ rfl).1, by rw [he]; exact (old _ rfl).2⟩
  cases p with
  | ret =>
    cases hc : fr.cur with
    | none => exact same (by simp [step, hc])
    | view ss =>
      refine ⟨fun a ha => ?_, fun a ha => ?_⟩
      · simp only [step, hc, List.mem_append, List.mem_singleton] at ha
        rcases ha with ha | ha
        · exact (old _ rfl).1 a ha
        · cases ha
      · simp only [step, hc, List.mem_append, List.mem_singleton] at ha
        rcases ha with ha | ha
        · exact (old _ rfl).2 a ha
        · cases ha
    | addr c =>
      refine ⟨fun a ha => ?_, fun a ha => ?_⟩
      · simp only [step, hc, List.mem_append, List.mem_singleton] at ha
        rcases ha with ha | ha
        · exact (old _ rfl).1 a ha
        · have : a = c := by simpa using ha
          subst this
          have := wf.curIn a hc
          simpa [step, hc] using this
      · simp only [step, hc, List.mem_append, List.mem_singleton] at ha
        rcases ha with ha | ha
        · exact (old _ rfl).2 a ha
        · cases ha
  | retDeep =>
    cases hc : fr.cur with
    | none => exact same (by simp [step, hc])
    | view ss => exact same (by simp [step, hc])
    | addr c =>
      obtain ⟨g, hlo, hhi⟩ := deepCopy_ok (fr.heap.length + 1) fr.heap c
      refine ⟨fun a ha => ?_, fun a ha => ?_⟩
      · simp only [step, hc, List.mem_append, List.mem_singleton] at ha
        rcases ha with ha | ha
        · exact (old _ rfl).1 a ha
        · cases ha
      · simp only [step, hc, List.mem_append, List.mem_singleton] at ha
        rcases ha with ha | ha
        · exact (old _ rfl).2 a ha
        · have : a = (deepCopy (fr.heap.length + 1) fr.heap c).2 := by simpa using ha
          subst this
          simp only [step, hc]
          refine ⟨hhi, List.mem_append_left _ ?_⟩
          rw [List.mem_range']
          exact ⟨(deepCopy (fr.heap.length + 1) fr.heap c).2 - fr.heap.length, by omega, by omega⟩
  | load => exact same rfl
  | loadAll => exact same rfl
  | collect => exact same rfl
  | allocNew => exact same rfl
  | allocCopy => exact same (by simp only [step]; split <;> rfl)
  | loadField f => exact same (by simp only [step]; split <;> (try split) <;> rfl)
  | copyField f => exact same (by simp only [step]; split <;> (try split) <;> rfl)
  | newField f => exact same (by simp only [step]; split <;> rfl)
  | mutField f => exact same (by simp only [step]; split <;> (try split) <;> rfl)
  | mutCur => exact same (by simp only [step]; split <;> rfl)
  | setScalar f => exact same (by simp only [step]; split <;> rfl)
  | publish => exact same (by simp only [step]; split <;> rfl)
  | unpublish => exact same rfl

theorem run_rets (ar : Args) (body : List Prim) {fr : Frame} (wf : FWF fr) (ro : RetsOK fr) :
    RetsOK (run ar fr body) := by
  induction body generalizing fr with
  | nil => exact ro
  | cons p ps ih => exact ih (step_wf ar wf p) (step_rets ar wf ro p)

theorem call_rets (body : List Prim) (ar : Args) {w : World} (wf : WF w) :
    (∀ a, Ret.addr a ∈ (callM body ar w).2 →
        a < (callM body ar w).1.heap.length ∧ a ∉ (callM body ar w).1.uo) ∧
    (∀ a, Ret.copy a ∈ (callM body ar w).2 →
        a < (callM body ar w).1.heap.length ∧ a ∈ (callM body ar w).1.uo) := by
  have ro0 : RetsOK (enter w) := ⟨by intro a h; simp [enter] at h, by intro a h; simp [enter] at h⟩
  have := run_rets ar body wf ro0
  exact ⟨this.live, this.copy⟩

theorem call_mono (body : List Prim) (ar : Args) (w : World) :
    w.heap.length ≤ (callM body ar w).1.heap.length ∧
    (∀ x, x ∈ w.uo → x ∈ (callM body ar w).1.uo) ∧
    (∀ x, x ∈ (callM body ar w).1.uo → x ∈ w.uo ∨ w.heap.length ≤ x) := run_mono ar body (enter w)

/-! ## the deep value only depends on the objects reachable -/

theorem pickleCells_congr {r1 r2 : Nat → List Nat} {o : Obj}
    (h : ∀ k d, (k, Cell.ref d) ∈ o → r1 d = r2 d) : pickleCells r1 o = pickleCells r2 o := by
  induction o with
  | nil => rfl
  | cons p t ih =>
    obtain ⟨k, c⟩ := p
    have iht := ih (fun k d hm => h k d (List.mem_cons_of_mem _ hm))
    cases c with
    | sc v => simp [pickleCells, iht]
    | ref d => simp [pickleCells, iht, h k d (by simp)]

/-- If the heap is closed and storage objects never refer to user-owned ones, then the deep value of
a storage object is determined by the storage objects alone. -/
theorem pickle_congr {h h' : Heap} {uo : List Nat}
    (hrefs : ∀ a o, h[a]? = some o → ∀ k d, (k, Cell.ref d) ∈ o → d < h.length ∧ (a ∉ uo → d ∉ uo))
    (hag : ∀ a, a < h.length → a ∉ uo → h'[a]? = h[a]?) :
    ∀ fuel a, a < h.length → a ∉ uo → pickle fuel h' a = pickle fuel h a := by
  intro fuel
  induction fuel with
  | zero => intro a _ _; rfl
  | succ n ih =>
    intro a ha hu
    have hoa : h[a]? = some h[a] := List.getElem?_eq_getElem ha
    simp only [pickle, hag a ha hu, hoa]
    congr 1
    apply pickleCells_congr
    intro k d hm
    obtain ⟨h1, h2⟩ := hrefs a _ hoa k d hm
    exact ih d h1 (h2 hu)

/-! ## `copy.deepcopy` is faithful: the copy has the deep value of the original -/

/-- all references of every object are in range -/
def Closed (h : Heap) : Prop :=
  ∀ (a : Nat) (o : Obj), h[a]? = some o → ∀ (k d : Nat), (k, Cell.ref d) ∈ o → d < h.length

theorem Closed.grows {h h' : Heap} (c : Closed h) (g : Grows h h') : Closed h' := by
  intro a o ho k d hm
  have hl := g.len
  by_cases ha : a < h.length
  · rw [g.old ha] at ho
    have := c a o ho k d hm; omega
  · exact (g.refs a o (by omega) ho k d hm).2

/-- extending a closed heap does not change the deep value of its objects -/
theorem pickle_ext {h : Heap} (c : Closed h) (l : Heap) (n a : Nat) (ha : a < h.length) :
    pickle n (h ++ l) a = pickle n h a :=
  pickle_congr (uo := []) (fun a o ho k d hm => ⟨c a o ho k d hm, fun _ => by simp⟩)
    (fun a ha _ => List.getElem?_append_left ha) n a ha (by simp)

theorem pickle_grows {h h' : Heap} (c : Closed h) (g : Grows h h') (n a : Nat) (ha : a < h.length) :
    pickle n h' a = pickle n h a := by
  obtain ⟨l, rfl⟩ := g.ext; exact pickle_ext c l n a ha

def RecFaithful (n : Nat) (rec : Heap → Nat → Heap × Nat) : Prop :=
  ∀ h d, Closed h → d < h.length → pickle n (rec h d).1 (rec h d).2 = pickle n h d

theorem copyCells_faithful {n : Nat} {rec : Heap → Nat → Heap × Nat} (hr : RecOK rec) (hf : RecFaithful n rec)
    (o : Obj) (h : Heap) (c : Closed h) (ho : ∀ k d, (k, Cell.ref d) ∈ o → d < h.length) :
    pickleCells (pickle n (copyCells rec h o).1) (copyCells rec h o).2 = pickleCells (pickle n h) o := by
  induction o generalizing h with
  | nil => simp [copyCells, pickleCells]
  | cons p t ih =>
    obtain ⟨k0, c0⟩ := p
    have hot : ∀ k d, (k, Cell.ref d) ∈ t → d < h.length := fun k d hm => ho k d (List.mem_cons_of_mem _ hm)
    cases c0 with
    | sc v =>
      simp only [copyCells, pickleCells]
      rw [ih h c hot]
    | ref d0 =>
      have hd0 : d0 < h.length := ho k0 d0 (by simp)
      obtain ⟨g1, hlo, hhi⟩ := hr h d0
      have c1 : Closed (rec h d0).1 := c.grows g1
      have l1 := g1.len
      obtain ⟨g2, _⟩ := copyCells_ok hr t (rec h d0).1
      have hot1 : ∀ k d, (k, Cell.ref d) ∈ t → d < (rec h d0).1.length := fun k d hm => by have := hot k d hm; omega
      simp only [copyCells, pickleCells]
      rw [ih (rec h d0).1 c1 hot1, pickle_grows c1 g2 n _ hhi, hf h d0 c hd0]
      congr 3
      apply pickleCells_congr
      intro k d hm
      exact pickle_grows c g1 n d (hot k d hm)

theorem deepCopy_faithful (m : Nat) : ∀ n, n ≤ m → RecFaithful n (deepCopy m) := by
  induction m with
  | zero =>
    intro n hn h d _ _
    have : n = 0 := by omega
    subst this; rfl
  | succ m ih =>
    intro n hn h d c hd
    cases n with
    | zero => rfl
    | succ n =>
      have hod : h[d]? = some h[d] := List.getElem?_eq_getElem hd
      have ho : ∀ k d', (k, Cell.ref d') ∈ h[d] → d' < h.length := fun k d' hm => c d _ hod k d' hm
      obtain ⟨g, hm⟩ := copyCells_ok (deepCopy_ok m) h[d] h
      have c1 : Closed (copyCells (deepCopy m) h h[d]).1 := c.grows g
      simp only [deepCopy, hod, Option.getD_some, pickle, List.getElem?_concat_length]
      congr 1
      rw [← copyCells_faithful (deepCopy_ok m) (ih n (by omega)) h[d] h c ho]
      apply pickleCells_congr
      intro k d' hkd
      exact pickle_ext c1 _ n d' (hm k d' hkd).2

end OptunaVerif.Heap
