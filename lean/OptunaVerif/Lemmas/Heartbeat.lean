import OptunaVerif.Model.Heartbeat
/-! Helper lemmas about the heartbeat / stale-trial sweep model (used by Props/C19). -/
namespace OptunaVerif.Heartbeat
open OptunaVerif

/-! ### lists -/

theorem getElem?_append_single {α : Type} (l : List α) (a : α) (i : Nat) :
    (l ++ [a])[i]? = if i < l.length then l[i]? else if i = l.length then some a else none := by
  by_cases h : i < l.length
  · simp [h, List.getElem?_append_left h]
  · simp only [h, if_false]
    rw [List.getElem?_append_right (by omega)]
    by_cases h2 : i = l.length
    · simp [h2]
    · have : i - l.length ≠ 0 := by omega
      simp [h2]
      omega

theorem getElem?_lt_length {α : Type} {l : List α} {i : Nat} {a : α} (h : l[i]? = some a) : i < l.length := by
  have := List.getElem?_eq_some_iff.mp h
  exact this.1

/-! ### the stale query -/

theorem mem_staleFrom (g : Nat) (l : List HTrial) (i t : Nat) :
    t ∈ staleFrom g l i ↔ ∃ k x, t = i + k ∧ l[k]? = some x ∧ x.isStale g = true := by
  induction l generalizing i with
  | nil => simp [staleFrom]
  | cons x r ih =>
    have hrest : t ∈ staleFrom g r (i + 1) ↔ ∃ k y, t = i + (k + 1) ∧ (x :: r)[k + 1]? = some y ∧ y.isStale g = true := by
      rw [ih]
      constructor
      · rintro ⟨k, y, h1, h2, h3⟩; exact ⟨k, y, by omega, by simpa using h2, h3⟩
      · rintro ⟨k, y, h1, h2, h3⟩; exact ⟨k, y, by omega, by simpa using h2, h3⟩
    by_cases hs : x.isStale g = true
    · rw [staleFrom, if_pos hs, List.mem_cons, hrest]
      constructor
      · rintro (h | ⟨k, y, h1, h2, h3⟩)
        · exact ⟨0, x, by omega, by simp, hs⟩
        · exact ⟨k + 1, y, h1, h2, h3⟩
      · rintro ⟨k, y, h1, h2, h3⟩
        cases k with
        | zero => left; omega
        | succ k => right; exact ⟨k, y, h1, h2, h3⟩
    · rw [staleFrom, if_neg hs, hrest]
      constructor
      · rintro ⟨k, y, h1, h2, h3⟩; exact ⟨k + 1, y, h1, h2, h3⟩
      · rintro ⟨k, y, h1, h2, h3⟩
        cases k with
        | zero => simp at h2; subst h2; exact absurd h3 hs
        | succ k => exact ⟨k, y, h1, h2, h3⟩

/-- The stale query returns exactly the RUNNING trials that have a heartbeat row older than the grace period. -/
theorem mem_staleIds (g : Nat) (l : List HTrial) (t : Nat) :
    t ∈ staleIds g l ↔ ∃ x, l[t]? = some x ∧ x.isStale g = true := by
  simp only [staleIds, mem_staleFrom]
  constructor
  · rintro ⟨k, x, h1, h2, h3⟩
    have : t = k := by omega
    subst this; exact ⟨x, h2, h3⟩
  · rintro ⟨x, h2, h3⟩; exact ⟨t, x, by omega, h2, h3⟩

theorem mem_orderBy (ord stale : List Nat) (t : Nat) : t ∈ orderBy ord stale ↔ t ∈ stale := by
  simp only [orderBy, List.mem_append, List.mem_filter, List.contains_iff_mem, Bool.not_eq_true']
  by_cases h : t ∈ ord <;> simp [h]

theorem isStale_iff (g : Nat) (x : HTrial) :
    x.isStale g = true ↔ x.core.state = .running ∧ ∃ a, x.hb = some a ∧ g < a := by
  unfold HTrial.isStale
  cases h : x.hb <;> simp

/-! ### how a step may change the list of trials -/

/-- What every step guarantees about an existing trial: the two retry attributes never change, and
a finished trial's record is frozen (the storage contract, C01 `finished_frozen`). -/
def Stable (x x' : HTrial) : Prop :=
  x'.core.retryHistory = x.core.retryHistory ∧ x'.core.failedTrial = x.core.failedTrial ∧
    (x.core.state.isFinished = true → x'.core = x.core)

theorem Stable.refl (x : HTrial) : Stable x x := ⟨rfl, rfl, fun _ => rfl⟩

structure TrStep (tr tr' : List HTrial) : Prop where
  len : tr.length ≤ tr'.length
  old : ∀ (t : Nat) (x : HTrial), tr[t]? = some x → ∃ x', tr'[t]? = some x' ∧ Stable x x'

/-- New trials created by anybody but the retry callback carry no retry attributes. -/
def EnvNew (tr tr' : List HTrial) : Prop :=
  ∀ (t : Nat) (x' : HTrial), tr'[t]? = some x' → tr.length ≤ t → x'.core.retryHistory = none ∧ x'.core.failedTrial = none

theorem TrStep.rfl' (tr : List HTrial) : TrStep tr tr := ⟨Nat.le_refl _, fun _ x h => ⟨x, h, Stable.refl x⟩⟩

theorem EnvNew.rfl' (tr : List HTrial) : EnvNew tr tr := by
  intro t x' h hl
  have := getElem?_lt_length h
  omega

theorem trstep_updAt (tr : List HTrial) (t : Nat) (f : HTrial → HTrial)
    (hf : ∀ x, tr[t]? = some x → Stable x (f x)) : TrStep tr (updAt tr t f) ∧ EnvNew tr (updAt tr t f) := by
  refine ⟨⟨by simp, ?_⟩, ?_⟩
  · intro t' x hx
    rw [updAt_getElem?]
    by_cases he : t' = t
    · subst he; simp [hx]; exact hf x hx
    · simp [he, hx]; exact Stable.refl x
  · intro t' x' h hl
    have := getElem?_lt_length h
    simp at this; omega

theorem trstep_append (tr : List HTrial) (y : HTrial) : TrStep tr (tr ++ [y]) := by
  refine ⟨by simp, ?_⟩
  intro t x hx
  have hl := getElem?_lt_length hx
  exact ⟨x, by rw [List.getElem?_append_left hl]; exact hx, Stable.refl x⟩

theorem envnew_append (tr : List HTrial) (y : HTrial) (h1 : y.core.retryHistory = none)
    (h2 : y.core.failedTrial = none) : EnvNew tr (tr ++ [y]) := by
  intro t x' h hl
  rw [getElem?_append_single] at h
  have : ¬ t < tr.length := by omega
  simp only [this, if_false] at h
  split at h
  · simp at h; subst h; exact ⟨h1, h2⟩
  · simp at h

theorem trstep_map (tr : List HTrial) (g : HTrial → HTrial) (hg : ∀ x, Stable x (g x)) :
    TrStep tr (tr.map g) ∧ EnvNew tr (tr.map g) := by
  refine ⟨⟨by simp, ?_⟩, ?_⟩
  · intro t x hx
    exact ⟨g x, by simp [hx], hg x⟩
  · intro t x' h hl
    have := getElem?_lt_length h
    simp at this; omega

theorem guarded_trstep (tr : List HTrial) (t : Nat) (f : HTrial → HTrial)
    (hf : ∀ x, (f x).core.retryHistory = x.core.retryHistory ∧ (f x).core.failedTrial = x.core.failedTrial) :
    TrStep tr (guarded tr t f).1 ∧ EnvNew tr (guarded tr t f).1 := by
  unfold guarded
  split
  · exact ⟨TrStep.rfl' tr, EnvNew.rfl' tr⟩
  · rename_i x hx
    split
    · exact ⟨TrStep.rfl' tr, EnvNew.rfl' tr⟩
    · rename_i hnf
      apply trstep_updAt
      intro x' hx'
      rw [hx] at hx'; cases hx'
      exact ⟨(hf x).1, (hf x).2, fun h => absurd h hnf⟩

/-- Every call of any other actor respects the contract. -/
theorem envStep_trstep (tr : List HTrial) (op : EnvOp) :
    TrStep tr (envStep tr op).1 ∧ EnvNew tr (envStep tr op).1 := by
  cases op with
  | create => exact ⟨trstep_append tr _, envnew_append tr _ rfl rfl⟩
  | enqueue u o => exact ⟨trstep_append tr _, envnew_append tr _ rfl rfl⟩
  | claim t =>
    simp only [envStep]
    split
    · exact ⟨TrStep.rfl' tr, EnvNew.rfl' tr⟩
    · rename_i x hx
      split
      · exact ⟨TrStep.rfl' tr, EnvNew.rfl' tr⟩
      · rename_i hnf
        split
        · apply trstep_updAt
          intro x' hx'
          rw [hx] at hx'; cases hx'
          exact ⟨rfl, rfl, fun h => absurd h hnf⟩
        · exact ⟨TrStep.rfl' tr, EnvNew.rfl' tr⟩
  | beat t =>
    simp only [envStep]
    split
    · exact ⟨TrStep.rfl' tr, EnvNew.rfl' tr⟩
    · apply trstep_updAt
      intro x' _
      exact ⟨rfl, rfl, fun _ => rfl⟩
  | finish t st =>
    simp only [envStep]
    split
    · have := guarded_trstep tr t (setState st) (fun x => ⟨rfl, rfl⟩)
      split
      · rename_i tr' heq; rw [heq] at this; exact this
      · exact this
    · exact ⟨TrStep.rfl' tr, EnvNew.rfl' tr⟩
  | setParam t k v => exact guarded_trstep tr t _ (fun x => ⟨rfl, rfl⟩)
  | setUserAttr t k v => exact guarded_trstep tr t _ (fun x => ⟨rfl, rfl⟩)
  | setSysAttr t k v => exact guarded_trstep tr t _ (fun x => ⟨rfl, rfl⟩)
  | tick d => exact trstep_map tr _ (fun x => ⟨rfl, rfl, fun _ => rfl⟩)

/-! ### counting in the event log, potentials over the workers -/

def Event.isWon (t : Nat) : Event → Bool
  | .won _ t' => t' == t
  | _ => false

def Event.isCb (t : Nat) : Event → Bool
  | .callback _ t' _ => t' == t
  | _ => false

def Event.isCbRetry (t : Nat) : Event → Bool
  | .callback _ t' true => t' == t
  | _ => false

def Event.isEnq (t : Nat) : Event → Bool
  | .enqueued _ t' _ _ => t' == t
  | _ => false

/-- Number of events of a kind. -/
def cnt (p : Event → Bool) (l : List Event) : Nat := l.countP p

theorem cnt_cons (p : Event → Bool) (e : Event) (l : List Event) :
    cnt p (e :: l) = cnt p l + if p e then 1 else 0 := by
  simp [cnt, List.countP_cons]

theorem cnt_pos_mem (p : Event → Bool) (l : List Event) (h : 0 < cnt p l) : ∃ e ∈ l, p e = true := by
  simpa [cnt, List.countP_pos_iff] using h

theorem cnt_two (p : Event → Bool) (l : List Event) (e1 e2 : Event) (h1 : e1 ∈ l) (h2 : e2 ∈ l)
    (hne : e1 ≠ e2) (p1 : p e1 = true) (p2 : p e2 = true) : 2 ≤ cnt p l := by
  induction l with
  | nil => simp at h1
  | cons a r ih =>
    rw [cnt_cons]
    rcases List.mem_cons.mp h1 with g1 | g1
    · rcases List.mem_cons.mp h2 with g2 | g2
      · exact absurd (g1.trans g2.symm) hne
      · subst g1
        have : 0 < cnt p r := by
          simp only [cnt, List.countP_pos_iff]; exact ⟨e2, g2, p2⟩
        simp [p1]; omega
    · rcases List.mem_cons.mp h2 with g2 | g2
      · subst g2
        have : 0 < cnt p r := by
          simp only [cnt, List.countP_pos_iff]; exact ⟨e1, g1, p1⟩
        simp [p2]; omega
      · have := ih g1 g2
        omega

theorem cnt_le_of_imp (p q : Event → Bool) (l : List Event) (h : ∀ e, p e = true → q e = true) :
    cnt p l ≤ cnt q l := by
  induction l with
  | nil => simp [cnt]
  | cons a r ih =>
    rw [cnt_cons, cnt_cons]
    by_cases hp : p a = true
    · simp [hp, h a hp]; exact ih
    · simp [hp]; split <;> omega

/-- Ids for which the worker still owes a callback. -/
def Phase.cbList : Phase → List Nat
  | .failing _ won => won
  | .calling todo => todo
  | .enqueue _ _ todo => todo
  | _ => []

/-- Ids the worker has read as stale and not yet tried to fail. -/
def Phase.failTodo : Phase → List Nat
  | .failing todo _ => todo
  | _ => []

def potCb (t : Nat) (p : Phase) : Nat := p.cbList.count t

def potEnq (t : Nat) : Phase → Nat
  | .enqueue t' _ _ => if t' = t then 1 else 0
  | _ => 0

def total (f : Phase → Nat) : List Phase → Nat
  | [] => 0
  | p :: r => f p + total f r

theorem total_updAt (f : Phase → Nat) (l : List Phase) (w : Nat) (ph ph' : Phase) (h : l[w]? = some ph) :
    total f (updAt l w (fun _ => ph')) + f ph = total f l + f ph' := by
  induction l generalizing w with
  | nil => simp at h
  | cons a r ih =>
    cases w with
    | zero => simp at h; subst h; simp [updAt, total]; omega
    | succ w =>
      simp at h
      have := ih w h
      simp [updAt, total]; omega

theorem total_replicate_zero (f : Phase → Nat) (n : Nat) (p : Phase) (h : f p = 0) :
    total f (List.replicate n p) = 0 := by
  induction n with
  | zero => rfl
  | succ n ih => simp [List.replicate_succ, total, h, ih]

/-- `ph'` owes no more than `ph` did and is not inside a callback. -/
structure Shrinks (ph' ph : Phase) : Prop where
  cb : ph'.cbList.Sublist ph.cbList
  ft : ph'.failTodo.Sublist ph.failTodo
  noEnq : ∀ t s td, ph' ≠ .enqueue t s td

theorem norm_failing_cbList (b : Bool) (todo won : List Nat) :
    (Phase.norm b (.failing todo won)).cbList.Sublist won := by
  cases todo with
  | nil =>
    simp only [Phase.norm]
    split
    · exact List.Sublist.refl _
    · simp [Phase.cbList]
  | cons a r => exact List.Sublist.refl _

theorem norm_failing_failTodo (b : Bool) (todo won : List Nat) :
    (Phase.norm b (.failing todo won)).failTodo.Sublist todo := by
  cases todo with
  | nil =>
    simp only [Phase.norm]
    split <;> simp [Phase.failTodo]
  | cons a r => exact List.Sublist.refl _

theorem norm_failing_noEnq (b : Bool) (todo won : List Nat) :
    ∀ t s td, Phase.norm b (.failing todo won) ≠ .enqueue t s td := by
  intro t s td
  cases todo with
  | nil =>
    simp only [Phase.norm]
    split <;> simp
  | cons a r => simp [Phase.norm]

theorem norm_calling_cbList (b : Bool) (todo : List Nat) :
    (Phase.norm b (.calling todo)).cbList = todo := by
  cases todo <;> simp [Phase.norm, Phase.cbList]

theorem norm_calling_failTodo (b : Bool) (todo : List Nat) :
    (Phase.norm b (.calling todo)).failTodo = [] := by
  cases todo <;> simp [Phase.norm, Phase.failTodo]

theorem norm_calling_noEnq (b : Bool) (todo : List Nat) :
    ∀ t s td, Phase.norm b (.calling todo) ≠ .enqueue t s td := by
  intro t s td
  cases todo <;> simp [Phase.norm]

theorem potEnq_noEnq (t : Nat) (ph : Phase) (h : ∀ t s td, ph ≠ .enqueue t s td) : potEnq t ph = 0 := by
  cases ph with
  | enqueue t' s td => exact absurd rfl (h t' s td)
  | _ => rfl

end OptunaVerif.Heartbeat
