import OptunaVerif.Lemmas.Heartbeat
/-! The inductive invariant of the sweep model and its preservation by every step (used by Props/C19). -/
namespace OptunaVerif.Heartbeat
open OptunaVerif

/-- What a logged event asserts about the shared state — true when it is logged and for ever after. -/
def EvOk (tr : List HTrial) (evs : List Event) : Event → Prop
  | .read _ _ => True
  | .won _ t => ∃ x, tr[t]? = some x ∧ x.core.state = .fail
  | .lost _ t => ∃ x, tr[t]? = some x ∧ x.core.state.isFinished = true
  | .callback w t _ => Event.won w t ∈ evs
  | .enqueued _ t n r =>
    t < n ∧ (∃ x, tr[t]? = some x ∧ x.core.state = .fail ∧ r = retryOf t x.core) ∧
      (∃ y, tr[n]? = some y ∧ y.core.retryHistory = r.retryHistory ∧ y.core.failedTrial = r.failedTrial)

/-- Invariant, part 1: trials and event log. -/
structure InvT (P : Params) (c : Cfg) : Prop where
  evOk : ∀ e ∈ c.events, EvOk c.trials c.events e
  wonOnce : ∀ t, cnt (Event.isWon t) c.events ≤ 1
  born : ∀ (n : Nat) (y : HTrial) (h : List Nat), c.trials[n]? = some y → y.core.retryHistory = some h →
    ∃ w t r, Event.enqueued w t n r ∈ c.events ∧ r.retryHistory = some h
  noHist : ∀ (n : Nat) (y : HTrial), c.trials[n]? = some y → y.core.retryHistory = none → y.core.failedTrial = none
  headOk : ∀ (n : Nat) (y : HTrial) (h : List Nat), c.trials[n]? = some y → y.core.retryHistory = some h →
    y.core.failedTrial = h.head? ∧ h ≠ []
  bounded : ∀ m, P.maxRetry = some m → ∀ (n : Nat) (y : HTrial), c.trials[n]? = some y → y.core.hist.length ≤ m

/-- Invariant, part 2: what the workers still owe. -/
structure InvW (P : Params) (c : Cfg) : Prop where
  cbPot : ∀ t, cnt (Event.isCb t) c.events + total (potCb t) c.workers ≤ cnt (Event.isWon t) c.events
  enqPot : ∀ t, cnt (Event.isEnq t) c.events + total (potEnq t) c.workers ≤ cnt (Event.isCbRetry t) c.events
  snapOk : ∀ (w t : Nat) (snap : Rec) (todo : List Nat), c.workers[w]? = some (.enqueue t snap todo) →
    (∃ x, c.trials[t]? = some x ∧ x.core = snap) ∧ snap.state = .fail ∧ exceeds P.maxRetry snap = false
  own : ∀ (w : Nat) (ph : Phase), c.workers[w]? = some ph → ∀ t ∈ ph.cbList, Event.won w t ∈ c.events

def Inv (P : Params) (c : Cfg) : Prop := InvT P c ∧ InvW P c

theorem fail_isFinished {r : Rec} (h : r.state = .fail) : r.state.isFinished = true := by
  rw [h]; rfl

theorem evOk_mono {tr tr' : List HTrial} {evs evs' : List Event} {e : Event} (h : EvOk tr evs e)
    (hs : TrStep tr tr') (hsub : ∀ e, e ∈ evs → e ∈ evs') : EvOk tr' evs' e := by
  cases e with
  | read w ids => trivial
  | won w t =>
    obtain ⟨x, hx, hf⟩ := h
    obtain ⟨x', hx', hst⟩ := hs.old t x hx
    exact ⟨x', hx', by rw [hst.2.2 (fail_isFinished hf)]; exact hf⟩
  | lost w t =>
    obtain ⟨x, hx, hf⟩ := h
    obtain ⟨x', hx', hst⟩ := hs.old t x hx
    exact ⟨x', hx', by rw [hst.2.2 hf]; exact hf⟩
  | callback w t b => exact hsub _ h
  | enqueued w t n r =>
    obtain ⟨hlt, ⟨x, hx, hf, hr⟩, ⟨y, hy, h1, h2⟩⟩ := h
    obtain ⟨x', hx', hst⟩ := hs.old t x hx
    obtain ⟨y', hy', hsty⟩ := hs.old n y hy
    refine ⟨hlt, ⟨x', hx', ?_, ?_⟩, ⟨y', hy', ?_, ?_⟩⟩
    · rw [hst.2.2 (fail_isFinished hf)]; exact hf
    · rw [hst.2.2 (fail_isFinished hf)]; exact hr
    · rw [hsty.1]; exact h1
    · rw [hsty.2.1]; exact h2

/-- Any change of the trials that respects the contract and forges no retry attributes keeps part 1. -/
theorem invT_frame {P : Params} {c : Cfg} (h : InvT P c) (tr' : List HTrial) (ws : List Phase)
    (hs : TrStep c.trials tr') (hn : EnvNew c.trials tr') :
    InvT P { trials := tr', workers := ws, events := c.events } := by
  have old_of : ∀ (n : Nat) (y' : HTrial), tr'[n]? = some y' →
      (∃ y, c.trials[n]? = some y ∧ Stable y y') ∨ (c.trials.length ≤ n) := by
    intro n y' hy'
    by_cases hl : n < c.trials.length
    · left
      have : ∃ y, c.trials[n]? = some y := ⟨c.trials[n], by simp [hl]⟩
      obtain ⟨y, hy⟩ := this
      obtain ⟨y'', hy'', hst⟩ := hs.old n y hy
      rw [hy'] at hy''; cases hy''
      exact ⟨y, hy, hst⟩
    · right; omega
  refine ⟨?_, h.wonOnce, ?_, ?_, ?_, ?_⟩
  · intro e he
    exact evOk_mono (h.evOk e he) hs (fun _ h => h)
  · intro n y' hh hy' hh'
    rcases old_of n y' hy' with ⟨y, hy, hst⟩ | hl
    · exact h.born n y hh hy (by rw [← hst.1]; exact hh')
    · have := (hn n y' hy' hl).1
      rw [this] at hh'; cases hh'
  · intro n y' hy' hh'
    rcases old_of n y' hy' with ⟨y, hy, hst⟩ | hl
    · rw [hst.2.1]; exact h.noHist n y hy (by rw [← hst.1]; exact hh')
    · exact (hn n y' hy' hl).2
  · intro n y' hh hy' hh'
    rcases old_of n y' hy' with ⟨y, hy, hst⟩ | hl
    · rw [hst.2.1]; exact h.headOk n y hh hy (by rw [← hst.1]; exact hh')
    · have := (hn n y' hy' hl).1
      rw [this] at hh'; cases hh'
  · intro m hm n y' hy'
    rcases old_of n y' hy' with ⟨y, hy, hst⟩ | hl
    · have := h.bounded m hm n y hy
      simp only [Rec.hist] at this ⊢
      rw [hst.1]; exact this
    · simp [Rec.hist, (hn n y' hy' hl).1]

theorem invW_frame {P : Params} {c : Cfg} (h : InvW P c) (tr' : List HTrial) (hs : TrStep c.trials tr') :
    InvW P { trials := tr', workers := c.workers, events := c.events } := by
  refine ⟨h.cbPot, h.enqPot, ?_, h.own⟩
  intro w t snap todo hw
  obtain ⟨⟨x, hx, hxs⟩, hf, hex⟩ := h.snapOk w t snap todo hw
  obtain ⟨x', hx', hst⟩ := hs.old t x hx
  refine ⟨⟨x', hx', ?_⟩, hf, hex⟩
  rw [hst.2.2 (by rw [hxs]; exact fail_isFinished hf)]; exact hxs

/-! ### steps that change a worker and log an event, trials fixed -/

def cntO (p : Event → Bool) : Option Event → Nat
  | none => 0
  | some e => if p e then 1 else 0

theorem cnt_toList (p : Event → Bool) (e : Option Event) (l : List Event) :
    cnt p (e.toList ++ l) = cnt p l + cntO p e := by
  cases e with
  | none => simp [cntO]
  | some e => simp [cntO, cnt_cons]

theorem invT_event {P : Params} {c : Cfg} (h : InvT P c) (ws : List Phase) (e : Option Event)
    (hok : ∀ e', e = some e' → EvOk c.trials (e' :: c.events) e')
    (hwon : ∀ e' t, e = some e' → e'.isWon t = true → cnt (Event.isWon t) c.events = 0) :
    InvT P { trials := c.trials, workers := ws, events := e.toList ++ c.events } := by
  have hsub : ∀ x, x ∈ c.events → x ∈ e.toList ++ c.events := fun x hx => List.mem_append_right _ hx
  refine ⟨?_, ?_, ?_, h.noHist, h.headOk, h.bounded⟩
  · intro e1 he1
    rcases List.mem_append.mp he1 with he1 | he1
    · cases e with
      | none => simp at he1
      | some e' =>
        simp at he1; subst he1
        exact hok e1 rfl
    · exact evOk_mono (h.evOk e1 he1) (TrStep.rfl' _) hsub
  · intro t
    show cnt (Event.isWon t) (e.toList ++ c.events) ≤ 1
    rw [cnt_toList]
    have := h.wonOnce t
    cases e with
    | none => simp [cntO]; exact this
    | some e' =>
      simp only [cntO]
      split
      · rename_i hp
        have := hwon e' t rfl hp
        omega
      · omega
  · intro n y hh hy hh'
    obtain ⟨w, t, r, hm, hr⟩ := h.born n y hh hy hh'
    exact ⟨w, t, r, hsub _ hm, hr⟩

theorem invW_move {P : Params} {c : Cfg} (h : InvW P c) (w : Nat) (ph ph' : Phase) (e : Option Event)
    (hw : c.workers[w]? = some ph)
    (hcb : ∀ t, cntO (Event.isCb t) e + potCb t ph' ≤ potCb t ph + cntO (Event.isWon t) e)
    (henq : ∀ t, cntO (Event.isEnq t) e + potEnq t ph' ≤ potEnq t ph + cntO (Event.isCbRetry t) e)
    (hsnap : ∀ t snap todo, ph' = .enqueue t snap todo →
      (∃ x, c.trials[t]? = some x ∧ x.core = snap) ∧ snap.state = .fail ∧ exceeds P.maxRetry snap = false)
    (hown : ∀ t ∈ ph'.cbList, Event.won w t ∈ e.toList ++ c.events) :
    InvW P { trials := c.trials, workers := updAt c.workers w (fun _ => ph'), events := e.toList ++ c.events } := by
  have hsub : ∀ x, x ∈ c.events → x ∈ e.toList ++ c.events := fun x hx => List.mem_append_right _ hx
  refine ⟨?_, ?_, ?_, ?_⟩
  · intro t
    show cnt _ (e.toList ++ c.events) + total _ (updAt c.workers w _) ≤ cnt _ (e.toList ++ c.events)
    rw [cnt_toList, cnt_toList]
    have h1 := total_updAt (potCb t) c.workers w ph ph' hw
    have h2 := h.cbPot t
    have h3 := hcb t
    omega
  · intro t
    show cnt _ (e.toList ++ c.events) + total _ (updAt c.workers w _) ≤ cnt _ (e.toList ++ c.events)
    rw [cnt_toList, cnt_toList]
    have h1 := total_updAt (potEnq t) c.workers w ph ph' hw
    have h2 := h.enqPot t
    have h3 := henq t
    omega
  · intro w' t snap todo hw'
    simp only [updAt_getElem?] at hw'
    by_cases he : w' = w
    · subst he
      simp [hw] at hw'
      exact hsnap t snap todo hw'
    · simp [he] at hw'
      exact h.snapOk w' t snap todo hw'
  · intro w' ph1 hw' t ht
    simp only [updAt_getElem?] at hw'
    by_cases he : w' = w
    · subst he
      simp [hw] at hw'
      subst hw'
      exact hown t ht
    · simp [he] at hw'
      exact hsub _ (h.own w' ph1 hw' t ht)

/-- Re-phasing without an event (normalisation, death). -/
theorem invW_shrink {P : Params} {c : Cfg} (h : InvW P c) (w : Nat) (ph ph' : Phase)
    (hw : c.workers[w]? = some ph) (hs : Shrinks ph' ph) : InvW P (c.setPhase w ph') := by
  have := invW_move h w ph ph' none hw
    (by intro t; simp only [cntO, potCb]; have := hs.cb.count_le t; omega)
    (by intro t; simp only [cntO]; rw [potEnq_noEnq t ph' hs.noEnq]; omega)
    (by intro t s td he; exact absurd he (hs.noEnq t s td))
    (by intro t ht; exact h.own w ph hw t (hs.cb.subset ht))
  exact this

theorem invT_setPhase {P : Params} {c : Cfg} (h : InvT P c) (w : Nat) (ph' : Phase) : InvT P (c.setPhase w ph') :=
  ⟨h.evOk, h.wonOnce, h.born, h.noHist, h.headOk, h.bounded⟩

theorem inv_setPhase_oob {P : Params} {c : Cfg} (h : Inv P c) (w : Nat) (ph' : Phase) (hw : c.workers[w]? = none) :
    Inv P (c.setPhase w ph') := by
  have : c.setPhase w ph' = c := by
    have hl : c.workers.length ≤ w := by simpa using hw
    have : updAt c.workers w (fun _ => ph') = c.workers := by
      apply List.ext_getElem?
      intro j
      rw [updAt_getElem?]
      by_cases hj : j = w
      · subst hj; simp [hw]
      · simp [hj]
    simp [Cfg.setPhase, this]
  rw [this]; exact h


/-! ### the steps -/

theorem isWon_eq {t : Nat} {e : Event} (h : e.isWon t = true) : ∃ w, e = .won w t := by
  cases e <;> simp [Event.isWon] at h
  subst h; exact ⟨_, rfl⟩

/-- A trial that is not finished has never been won by a sweep. -/
theorem not_finished_not_won {P : Params} {c : Cfg} (h : InvT P c) (t : Nat) (x : HTrial)
    (hx : c.trials[t]? = some x) (hnf : ¬ x.core.state.isFinished = true) :
    cnt (Event.isWon t) c.events = 0 := by
  by_cases hz : cnt (Event.isWon t) c.events = 0
  · exact hz
  · obtain ⟨e, he, hp⟩ := cnt_pos_mem _ _ (Nat.pos_of_ne_zero hz)
    obtain ⟨w, rfl⟩ := isWon_eq hp
    obtain ⟨x', hx', hf⟩ := h.evOk _ he
    rw [hx] at hx'; cases hx'
    exact absurd (fail_isFinished hf) hnf

theorem count_nil_of_sublist {l : List Nat} (h : l.Sublist []) (t : Nat) : l.count t = 0 := by
  have := h.count_le t
  simpa using this

theorem inv_env {P : Params} {c : Cfg} (h : Inv P c) (op : EnvOp) :
    Inv P { c with trials := (envStep c.trials op).1 } := by
  obtain ⟨hs, hn⟩ := envStep_trstep c.trials op
  exact ⟨invT_frame h.1 _ _ hs hn, invW_frame h.2 _ hs⟩

theorem inv_die {P : Params} {c : Cfg} (h : Inv P c) (w : Nat) : Inv P (c.setPhase w .dead) := by
  cases hw : c.workers[w]? with
  | none => exact inv_setPhase_oob h w _ hw
  | some ph =>
    refine ⟨invT_setPhase h.1 w _, invW_shrink h.2 w ph .dead hw ⟨?_, ?_, ?_⟩⟩
    · simp [Phase.cbList]
    · simp [Phase.failTodo]
    · intro t s td; simp

theorem invT_enq {P : Params} {c : Cfg} (h : InvT P c) (ws : List Phase) (w t : Nat) (snap : Rec) (x : HTrial)
    (hx : c.trials[t]? = some x) (hxs : x.core = snap) (hf : snap.state = .fail)
    (hex : exceeds P.maxRetry snap = false) :
    InvT P { trials := c.trials ++ [⟨retryOf t snap, none⟩], workers := ws,
             events := .enqueued w t c.trials.length (retryOf t snap) :: c.events } := by
  have hlt : t < c.trials.length := getElem?_lt_length hx
  have hs : TrStep c.trials (c.trials ++ [⟨retryOf t snap, none⟩]) := trstep_append _ _
  have hsub : ∀ e, e ∈ c.events → e ∈ Event.enqueued w t c.trials.length (retryOf t snap) :: c.events :=
    fun e he => List.mem_cons_of_mem _ he
  have split_new : ∀ (n : Nat) (y' : HTrial), (c.trials ++ [⟨retryOf t snap, none⟩])[n]? = some y' →
      (n < c.trials.length ∧ c.trials[n]? = some y') ∨ (n = c.trials.length ∧ y' = ⟨retryOf t snap, none⟩) := by
    intro n y' hy'
    rw [getElem?_append_single] at hy'
    by_cases hl : n < c.trials.length
    · left; simp [hl] at hy'; exact ⟨hl, by simp [hl, hy']⟩
    · right
      simp only [hl, if_false] at hy'
      split at hy'
      · rename_i he; simp at hy'; exact ⟨he, hy'.symm⟩
      · simp at hy'
  refine ⟨?_, ?_, ?_, ?_, ?_, ?_⟩
  · intro e he
    rcases List.mem_cons.mp he with he | he
    · subst he
      refine ⟨hlt, ⟨x, ?_, ?_, ?_⟩, ⟨⟨retryOf t snap, none⟩, ?_, rfl, rfl⟩⟩
      · rw [List.getElem?_append_left hlt]; exact hx
      · rw [hxs]; exact hf
      · rw [hxs]
      · simp
    · exact evOk_mono (h.evOk e he) hs hsub
  · intro t'
    rw [cnt_cons]
    have := h.wonOnce t'
    simp [Event.isWon]; exact this
  · intro n y' hh hy' hh'
    rcases split_new n y' hy' with ⟨_, hy⟩ | ⟨hn, hy⟩
    · obtain ⟨w', t', r, hm, hr⟩ := h.born n y' hh hy hh'
      exact ⟨w', t', r, hsub _ hm, hr⟩
    · subst hn; subst hy
      exact ⟨w, t, retryOf t snap, List.mem_cons_self, hh'⟩
  · intro n y' hy' hh'
    rcases split_new n y' hy' with ⟨_, hy⟩ | ⟨hn, hy⟩
    · exact h.noHist n y' hy hh'
    · subst hy; simp [retryOf] at hh'
  · intro n y' hh hy' hh'
    rcases split_new n y' hy' with ⟨_, hy⟩ | ⟨hn, hy⟩
    · exact h.headOk n y' hh hy hh'
    · subst hy
      simp only [retryOf, Option.some.injEq] at hh'
      subst hh'
      refine ⟨?_, by simp⟩
      simp only [retryOf, Rec.hist]
      cases hrh : snap.retryHistory with
      | none =>
        have := h.noHist t x hx (by rw [hxs]; exact hrh)
        rw [hxs] at this
        simp [this]
      | some h' =>
        obtain ⟨h1, h2⟩ := h.headOk t x h' hx (by rw [hxs]; exact hrh)
        rw [hxs] at h1
        cases h' with
        | nil => exact absurd rfl h2
        | cons a r => simp [h1]
  · intro m hm n y' hy'
    rcases split_new n y' hy' with ⟨_, hy⟩ | ⟨hn, hy⟩
    · exact h.bounded m hm n y' hy
    · subst hy
      simp only [exceeds, hm] at hex
      simp only [Rec.hist, retryOf, Option.getD_some, List.length_append, List.length_singleton]
      simp only [Rec.hist] at hex
      have := of_decide_eq_false hex
      omega

theorem inv_sweep {P : Params} {c : Cfg} (h : Inv P c) (w : Nat) (ord : List Nat) :
    Inv P (sweepStep P c w ord) := by
  obtain ⟨hT, hW⟩ := h
  unfold sweepStep
  split
  · exact ⟨hT, hW⟩
  · exact ⟨hT, hW⟩
  · -- the stale read
    rename_i hw
    refine ⟨invT_event hT _ (some (.read w _)) (by intro e' he; cases he; trivial)
        (by intro e' t he hp; cases he; simp [Event.isWon] at hp), ?_⟩
    refine invW_move hW w .idle _ (some (.read w _)) hw ?_ ?_ ?_ ?_
    · intro t
      have this : potCb t (Phase.norm P.hasCb (.failing (orderBy ord (staleIds P.grace c.trials)) [])) = 0 :=
        count_nil_of_sublist (norm_failing_cbList P.hasCb (orderBy ord (staleIds P.grace c.trials)) []) t
      rw [this]
      simp [cntO, Event.isCb, Event.isWon]
    · intro t
      rw [potEnq_noEnq t _ (norm_failing_noEnq _ _ _)]
      simp [cntO, Event.isEnq, Event.isCbRetry]
    · intro t s td he; exact absurd he (norm_failing_noEnq _ _ _ t s td)
    · intro t ht
      have := (norm_failing_cbList P.hasCb (orderBy ord (staleIds P.grace c.trials)) []).subset ht
      simp at this
  · -- failing [] won: only normalisation
    rename_i won hw
    refine ⟨invT_setPhase hT w _, invW_shrink hW w _ _ hw ⟨norm_failing_cbList _ _ _, ?_, norm_failing_noEnq _ _ _⟩⟩
    exact norm_failing_failTodo _ _ _
  · rename_i t todo won hw
    split
    · -- unknown id: skipped
      refine ⟨invT_setPhase hT w _, invW_shrink hW w _ _ hw ⟨norm_failing_cbList _ _ _, ?_, norm_failing_noEnq _ _ _⟩⟩
      exact (norm_failing_failTodo _ _ _).trans (List.sublist_cons_self _ _)
    · rename_i x hx
      split
      · -- lost: UpdateFinishedTrialError
        rename_i hfin
        refine ⟨invT_event hT _ (some (.lost w t)) (by intro e' he; cases he; exact ⟨x, hx, hfin⟩)
            (by intro e' t' he hp; cases he; simp [Event.isWon] at hp), ?_⟩
        refine invW_move hW w _ _ (some (.lost w t)) hw ?_ ?_ ?_ ?_
        · intro t'
          have := (norm_failing_cbList P.hasCb todo won).count_le t'
          simp [cntO, Event.isCb, Event.isWon, potCb, Phase.cbList]; exact this
        · intro t'
          rw [potEnq_noEnq t' _ (norm_failing_noEnq _ _ _)]
          simp [cntO, Event.isEnq, Event.isCbRetry]
        · intro t' s td he; exact absurd he (norm_failing_noEnq _ _ _ t' s td)
        · intro t' ht'
          exact List.mem_cons_of_mem _ (hW.own w _ hw t' ((norm_failing_cbList P.hasCb todo won).subset ht'))
      · -- won
        rename_i hnf
        have hst : TrStep c.trials (updAt c.trials t (setState .fail)) ∧ EnvNew c.trials (updAt c.trials t (setState .fail)) := by
          apply trstep_updAt
          intro x' hx'
          rw [hx] at hx'; cases hx'
          exact ⟨rfl, rfl, fun hh => absurd hh hnf⟩
        have hT1 := invT_frame hT _ c.workers hst.1 hst.2
        have hW1 := invW_frame hW _ hst.1
        have hzero := not_finished_not_won hT t x hx hnf
        have hx1 : (updAt c.trials t (setState .fail))[t]? = some (setState .fail x) := by
          rw [updAt_getElem?]; simp [hx]
        refine ⟨invT_event hT1 _ (some (.won w t)) (by intro e' he; cases he; exact ⟨_, hx1, rfl⟩)
            (by
              intro e' t' he hp; cases he
              simp [Event.isWon] at hp; subst hp; exact hzero), ?_⟩
        refine invW_move hW1 w _ _ (some (.won w t)) hw ?_ ?_ ?_ ?_
        · intro t'
          have := (norm_failing_cbList P.hasCb todo (won ++ [t])).count_le t'
          simp only [cntO, Event.isCb, Event.isWon, potCb, Phase.cbList] at this ⊢
          rw [List.count_append, List.count_singleton] at this
          simp only [beq_iff_eq] at this ⊢
          by_cases he : t = t'
          · subst he; simp at this ⊢; omega
          · simp [he] at this ⊢; omega
        · intro t'
          rw [potEnq_noEnq t' _ (norm_failing_noEnq _ _ _)]
          simp [cntO, Event.isEnq, Event.isCbRetry]
        · intro t' s td he; exact absurd he (norm_failing_noEnq _ _ _ t' s td)
        · intro t' ht'
          have := (norm_failing_cbList P.hasCb todo (won ++ [t])).subset ht'
          rcases List.mem_append.mp this with hm | hm
          · exact List.mem_cons_of_mem _ (hW.own w _ hw t' hm)
          · simp at hm; subst hm; exact List.mem_cons_self
  · -- calling []
    rename_i hw
    refine ⟨invT_setPhase hT w _, invW_shrink hW w _ _ hw ⟨?_, ?_, ?_⟩⟩
    · simp [Phase.cbList]
    · simp [Phase.failTodo]
    · intro t s td; simp
  · rename_i t todo hw
    have hwon : Event.won w t ∈ c.events := hW.own w _ hw t (by simp [Phase.cbList])
    split
    · refine ⟨invT_setPhase hT w _, invW_shrink hW w _ _ hw ⟨?_, ?_, norm_calling_noEnq _ _⟩⟩
      · rw [norm_calling_cbList]; exact List.sublist_cons_self _ _
      · rw [norm_calling_failTodo]; simp [Phase.failTodo]
    · rename_i x hx
      have hfail : x.core.state = .fail := by
        obtain ⟨x', hx', hf⟩ := hT.evOk _ hwon
        rw [hx] at hx'; cases hx'; exact hf
      split
      · -- callback returns without a retry (max_retry)
        refine ⟨invT_event hT _ (some (.callback w t false))
            (by intro e' he; cases he; exact List.mem_cons_of_mem _ hwon)
            (by intro e' t' he hp; cases he; simp [Event.isWon] at hp), ?_⟩
        refine invW_move hW w _ _ (some (.callback w t false)) hw ?_ ?_ ?_ ?_
        · intro t'
          have this : potCb t' (Phase.norm P.hasCb (.calling todo)) = todo.count t' := by
            unfold potCb; rw [norm_calling_cbList]
          rw [this]
          simp only [cntO, Event.isCb, Event.isWon, potCb, Phase.cbList, List.count_cons, beq_iff_eq]
          by_cases he : t = t'
          · simp [he]; try omega
          · simp [he]
        · intro t'
          rw [potEnq_noEnq t' _ (norm_calling_noEnq _ _)]
          simp [cntO, Event.isEnq, Event.isCbRetry]
        · intro t' s td he; exact absurd he (norm_calling_noEnq _ _ t' s td)
        · intro t' ht'
          rw [norm_calling_cbList] at ht'
          exact List.mem_cons_of_mem _ (hW.own w _ hw t' (by simp [Phase.cbList, ht']))
      · -- callback goes on to add_trial
        rename_i hex
        refine ⟨invT_event hT _ (some (.callback w t true))
            (by intro e' he; cases he; exact List.mem_cons_of_mem _ hwon)
            (by intro e' t' he hp; cases he; simp [Event.isWon] at hp), ?_⟩
        refine invW_move hW w _ _ (some (.callback w t true)) hw ?_ ?_ ?_ ?_
        · intro t'
          simp only [cntO, Event.isCb, Event.isWon, potCb, Phase.cbList, List.count_cons, beq_iff_eq]
          by_cases he : t = t'
          · simp [he]; try omega
          · simp [he]
        · intro t'
          simp [cntO, Event.isEnq, Event.isCbRetry, potEnq]
        · intro t' s td he
          cases he
          exact ⟨⟨x, hx, rfl⟩, hfail, by simpa using hex⟩
        · intro t' ht'
          exact List.mem_cons_of_mem _ (hW.own w _ hw t' (by simp [Phase.cbList] at ht' ⊢; exact Or.inr ht'))
  · -- add_trial
    rename_i t snap todo hw
    obtain ⟨⟨x, hx, hxs⟩, hf, hex⟩ := hW.snapOk w t snap todo hw
    refine ⟨invT_enq hT _ w t snap x hx hxs hf hex, ?_⟩
    have hW1 := invW_frame hW _ (trstep_append c.trials ⟨retryOf t snap, none⟩)
    refine invW_move hW1 w _ _ (some (.enqueued w t c.trials.length (retryOf t snap))) hw ?_ ?_ ?_ ?_
    · intro t'
      have this : potCb t' (Phase.norm P.hasCb (.calling todo)) = todo.count t' := by
        unfold potCb; rw [norm_calling_cbList]
      rw [this]
      simp [cntO, Event.isCb, Event.isWon, potCb, Phase.cbList]
    · intro t'
      rw [potEnq_noEnq t' _ (norm_calling_noEnq _ _)]
      simp only [cntO, Event.isEnq, Event.isCbRetry, potEnq]
      simp only [beq_iff_eq]
      split <;> simp
    · intro t' s td he; exact absurd he (norm_calling_noEnq _ _ t' s td)
    · intro t' ht'
      rw [norm_calling_cbList] at ht'
      exact List.mem_cons_of_mem _ (hW.own w _ hw t' (by simp [Phase.cbList, ht']))

theorem inv_step {P : Params} {c : Cfg} (h : Inv P c) (a : Act) : Inv P (step P c a) := by
  cases a with
  | sweep w ord => exact inv_sweep h w ord
  | die w => exact inv_die h w
  | env op => exact inv_env h op

theorem inv_init (P : Params) (n : Nat) : Inv P (init n) := by
  refine ⟨⟨?_, ?_, ?_, ?_, ?_, ?_⟩, ⟨?_, ?_, ?_, ?_⟩⟩
  · intro e he; simp [init] at he
  · intro t; simp [init, cnt]
  · intro n' y h hy; simp [init] at hy
  · intro n' y hy; simp [init] at hy
  · intro n' y h hy; simp [init] at hy
  · intro m _ n' y hy; simp [init] at hy
  · intro t
    simp only [init, cnt, List.countP_nil]
    rw [total_replicate_zero _ _ _ (by simp [potCb, Phase.cbList])]
    exact Nat.le_refl _
  · intro t
    simp only [init, cnt, List.countP_nil]
    rw [total_replicate_zero _ _ _ (by simp [potEnq])]
    exact Nat.le_refl _
  · intro w t snap todo hw
    simp only [init] at hw
    rw [List.getElem?_replicate] at hw
    split at hw <;> simp at hw
  · intro w ph hw t ht
    simp only [init] at hw
    rw [List.getElem?_replicate] at hw
    split at hw
    · simp at hw; subst hw; simp [Phase.cbList] at ht
    · simp at hw

theorem inv_run {P : Params} {c : Cfg} (h : Inv P c) (as : List Act) : Inv P (run P c as) := by
  induction as generalizing c with
  | nil => exact h
  | cons a as ih => exact ih (inv_step h a)

end OptunaVerif.Heartbeat
