import OptunaVerif.Model.Hssp
import OptunaVerif.Lemmas.Hypervolume
import OptunaVerif.Lemmas.Rank
import Mathlib.Data.List.Nodup
import Mathlib.Algebra.Order.BigOperators.Group.List
import Mathlib.Data.List.InsertIdx
import Mathlib.Data.List.Perm.Basic

/-! Lemmas for C15 (hypervolume subset selection): the lazy update, the greedy run and its guarantee. -/
namespace OptunaVerif.Hssp
open OptunaVerif.Hypervolume List

example : argmax [1, 3, 2, 3] = 1 := by decide
example : argmax [-1] = 0 := by decide
example : argmax [-5, -1] = 1 := by decide

theorem argmax_spec (cs : List Int) (hne : cs ≠ []) :
    argmax cs < cs.length ∧ ∀ i < cs.length, cs.getD i 0 ≤ cs.getD (argmax cs) 0 := by
  induction cs with
  | nil => exact absurd rfl hne
  | cons x t ih =>
    by_cases ht : t = []
    · subst ht
      simp [argmax]
    · obtain ⟨h1, h2⟩ := ih ht
      have hte : t.isEmpty = false := by simpa using ht
      simp only [argmax, hte, Bool.false_eq_true, if_false]
      split
      · rename_i hlt
        refine ⟨by simpa using h1, ?_⟩
        intro i hi
        cases i with
        | zero => simp only [List.getD_cons_zero, List.getD_cons_succ]; omega
        | succ i =>
          simp only [List.getD_cons_succ]
          exact h2 i (by simpa using hi)
      · rename_i hge
        refine ⟨by simp, ?_⟩
        intro i hi
        cases i with
        | zero => simp
        | succ i =>
          simp only [List.getD_cons_succ, List.getD_cons_zero]
          have := h2 i (by simpa using hi)
          omega

theorem getD_set (cs : List Int) (i k : Nat) (v : Int) :
    (cs.set i v).getD k 0 = if i = k ∧ i < cs.length then v else cs.getD k 0 := by
  simp only [List.getD_eq_getElem?_getD, List.getElem?_set]
  by_cases h : i = k
  · subst h
    by_cases h2 : i < cs.length
    · simp [h2]
    · simp [h2]
  · simp [h]

/-- Invariant of the lazy loop.  `D` = candidates already visited. -/
theorem lazyGo_spec (g : Nat → Int) (n : Nat) :
    ∀ (rest : List Nat) (m : Int) (cs : List Int) (D : Nat → Prop),
      cs.length = n → (∀ i ∈ rest, i < n) →
      (∀ i < n, g i ≤ cs.getD i 0) →
      (∀ i, D i → cs.getD i 0 < m ∨ (cs.getD i 0 = g i ∧ g i ≤ m)) →
      (m = 0 ∨ ∃ j < n, cs.getD j 0 = g j ∧ g j = m) →
      ∃ m', (lazyGo g rest m cs).length = n ∧
        (∀ i < n, g i ≤ (lazyGo g rest m cs).getD i 0) ∧
        (∀ i, (D i ∨ i ∈ rest) → (lazyGo g rest m cs).getD i 0 < m' ∨
          ((lazyGo g rest m cs).getD i 0 = g i ∧ g i ≤ m')) ∧
        (m' = 0 ∨ ∃ j < n, (lazyGo g rest m cs).getD j 0 = g j ∧ g j = m') := by
  intro rest
  induction rest with
  | nil =>
    intro m cs D hlen _ h1 h2 h3
    refine ⟨m, hlen, h1, ?_, h3⟩
    intro i hi
    rcases hi with hi | hi
    · exact h2 i hi
    · cases hi
  | cons i rest ih =>
    intro m cs D hlen hord h1 h2 h3
    have hi : i < n := hord i List.mem_cons_self
    have hord' : ∀ k ∈ rest, k < n := fun k hk => hord k (List.mem_cons_of_mem _ hk)
    simp only [lazyGo]
    split
    · rename_i hlt
      obtain ⟨m', r1, r2, r3, r4⟩ := ih m cs (fun k => D k ∨ k = i) hlen hord' h1
        (by
          intro k hk
          rcases hk with hk | rfl
          · exact h2 k hk
          · exact Or.inl hlt) h3
      refine ⟨m', r1, r2, ?_, r4⟩
      intro k hk
      apply r3
      rcases hk with hk | hk
      · exact Or.inl (Or.inl hk)
      · rcases List.mem_cons.1 hk with rfl | hk
        · exact Or.inl (Or.inr rfl)
        · exact Or.inr hk
    · rename_i hge
      have hset : ∀ k, (cs.set i (g i)).getD k 0 = if i = k then g i else cs.getD k 0 := by
        intro k
        rw [getD_set]
        by_cases h : i = k
        · subst h; simp [hlen, hi]
        · simp [h]
      obtain ⟨m', r1, r2, r3, r4⟩ := ih (max (g i) m) (cs.set i (g i)) (fun k => D k ∨ k = i)
        (by simpa using hlen) hord'
        (by
          intro k hk
          rw [hset]
          split
          · rename_i h; subst h; exact le_refl _
          · exact h1 k hk)
        (by
          intro k hk
          rw [hset]
          by_cases hik : i = k
          · subst hik
            rw [if_pos rfl]
            exact Or.inr ⟨rfl, le_max_left _ _⟩
          · rw [if_neg hik]
            rcases hk with hk | hk
            · rcases h2 k hk with h | ⟨h, h'⟩
              · exact Or.inl (lt_of_lt_of_le h (le_max_right _ _))
              · exact Or.inr ⟨h, le_trans h' (le_max_right _ _)⟩
            · exact absurd hk.symm hik)
        (by
          rcases le_total (g i) m with hle | hle
          · rw [max_eq_right hle]
            rcases h3 with h3 | ⟨j, hj, hj1, hj2⟩
            · exact Or.inl h3
            · refine Or.inr ⟨j, hj, ?_, hj2⟩
              rw [hset]
              by_cases hij : i = j
              · subst hij; rw [if_pos rfl]
              · rw [if_neg hij]; exact hj1
          · rw [max_eq_left hle]
            exact Or.inr ⟨i, hi, by rw [hset]; simp, rfl⟩)
      refine ⟨m', r1, r2, ?_, r4⟩
      intro k hk
      apply r3
      rcases hk with hk | hk
      · exact Or.inl (Or.inl hk)
      · rcases List.mem_cons.1 hk with rfl | hk
        · exact Or.inl (Or.inr rfl)
        · exact Or.inr hk

/-- **The lazy update is safe**: if the stored contributions are upper bounds of the true (non-negative)
marginal gains `g`, then after `_lazy_contribs_update` (visiting the candidates in *any* order that
covers them all) they still are, and the first maximum of the updated array is an exactly recomputed
entry that maximises the true gain. -/
theorem lazy_argmax_exact (g : Nat → Int) (cs : List Int) (order : List Nat) (hne : cs ≠ [])
    (hg0 : ∀ i < cs.length, 0 ≤ g i) (hub : ∀ i < cs.length, g i ≤ cs.getD i 0)
    (hord : ∀ i ∈ order, i < cs.length) (hcov : ∀ i < cs.length, i ∈ order) :
    (lazyGo g order 0 cs).length = cs.length ∧ (∀ i < cs.length, g i ≤ (lazyGo g order 0 cs).getD i 0) ∧
      argmax (lazyGo g order 0 cs) < cs.length ∧
      (lazyGo g order 0 cs).getD (argmax (lazyGo g order 0 cs)) 0 = g (argmax (lazyGo g order 0 cs)) ∧
      ∀ i < cs.length, g i ≤ g (argmax (lazyGo g order 0 cs)) := by
  obtain ⟨m', r1, r2, r3, r4⟩ := lazyGo_spec g cs.length order 0 cs (fun _ => False) rfl hord hub
    (fun i hi => absurd hi id) (Or.inl rfl)
  generalize lazyGo g order 0 cs = cs' at *
  have hne' : cs' ≠ [] := by
    intro h
    have : cs'.length = 0 := by rw [h]; rfl
    rw [r1] at this
    exact hne (List.eq_nil_of_length_eq_zero this)
  obtain ⟨a1, a2⟩ := argmax_spec cs' hne'
  rw [r1] at a1 a2
  have hall : ∀ i < cs.length, cs'.getD i 0 < m' ∨ (cs'.getD i 0 = g i ∧ g i ≤ m') :=
    fun i hi => r3 i (Or.inr (hcov i hi))
  have hle : ∀ i < cs.length, cs'.getD i 0 ≤ m' := by
    intro i hi
    rcases hall i hi with h | ⟨h, h'⟩
    · exact le_of_lt h
    · rw [h]; exact h'
  have hexact : cs'.getD (argmax cs') 0 = g (argmax cs') := by
    rcases r4 with h0 | ⟨j, hj, hj1, hj2⟩
    · -- nothing positive: every stored value is squeezed between g ≥ 0 and m' = 0
      rcases hall _ a1 with h | ⟨h, _⟩
      · have := r2 _ a1; have := hg0 _ a1; omega
      · exact h
    · rcases hall _ a1 with h | ⟨h, _⟩
      · have := a2 j hj; omega
      · exact h
  refine ⟨r1, r2, a1, hexact, ?_⟩
  intro i hi
  have := r2 i hi
  have := a2 i hi
  omega

/-! ## coverage, marginal gains, greedy runs -/

/-- true marginal gain of adding `p` to the selected rows `T` -/
def gain (r : Pt) (T : List Pt) (p : Pt) : Int := (hvSpec (p :: T) r : Int) - (hvSpec T r : Int)

theorem gain_eq_card_sdiff (r : Pt) (T : List Pt) (p : Pt) :
    gain r T p = ((boxF p r \ unionF r T).card : Int) := by
  unfold gain hvSpec
  simp only [unionF]
  have h1 := Finset.card_sdiff_add_card (boxF p r) (unionF r T)
  have : boxF p r ∪ unionF r T = (boxF p r \ unionF r T) ∪ unionF r T := by
    ext c; simp only [Finset.mem_union, Finset.mem_sdiff]; tauto
  rw [Finset.sdiff_union_self_eq_union] at this
  omega

theorem gain_nonneg (r : Pt) (T : List Pt) (p : Pt) : 0 ≤ gain r T p := by
  rw [gain_eq_card_sdiff]; exact Int.natCast_nonneg _

theorem unionF_mono (r : Pt) (T T' : List Pt) (h : ∀ x ∈ T, x ∈ T') : unionF r T ⊆ unionF r T' := by
  intro c hc
  rw [mem_unionF] at hc ⊢
  obtain ⟨p, hp, h1⟩ := hc
  exact ⟨p, h p hp, h1⟩

/-- submodularity of the dominated volume: gains only shrink when more rows are selected -/
theorem gain_antitone (r : Pt) (T T' : List Pt) (h : ∀ x ∈ T, x ∈ T') (p : Pt) :
    gain r T' p ≤ gain r T p := by
  rw [gain_eq_card_sdiff, gain_eq_card_sdiff]
  exact_mod_cast Finset.card_le_card (Finset.sdiff_subset_sdiff (le_refl _) (unionF_mono r T T' h))

theorem gain_of_mem (r : Pt) (T : List Pt) (p : Pt) (h : p ∈ T) : gain r T p = 0 := by
  rw [gain_eq_card_sdiff]
  have : boxF p r \ unionF r T = ∅ := by
    rw [Finset.sdiff_eq_empty_iff_subset]
    intro c hc
    rw [mem_unionF]
    exact ⟨p, h, (mem_boxF p r c).1 hc⟩
  rw [this]; simp

theorem hvSpec_congr (r : Pt) (S S' : List Pt) (h : ∀ q, q ∈ S' ↔ q ∈ S) : hvSpec S' r = hvSpec S r := by
  unfold hvSpec; rw [unionF_congr r S S' h]

theorem hvSpec_mono (r : Pt) (T T' : List Pt) (h : ∀ x ∈ T, x ∈ T') : hvSpec T r ≤ hvSpec T' r :=
  Finset.card_le_card (unionF_mono r T T' h)

theorem hvSpec_snoc (r : Pt) (T : List Pt) (p : Pt) : (hvSpec (T ++ [p]) r : Int) = hvSpec T r + gain r T p := by
  have : hvSpec (T ++ [p]) r = hvSpec (p :: T) r := hvSpec_congr r _ _ (by intro q; simp [or_comm])
  unfold gain; rw [this]; omega

/-- union bound: any set `O` covers at most what `T` covers plus the marginal gains of its members -/
theorem hvSpec_le_add_sum_gain (r : Pt) (T O : List Pt) :
    (hvSpec O r : Int) ≤ hvSpec T r + (O.map (gain r T)).sum := by
  have key : ((unionF r O ∪ unionF r T).card : Int) ≤ (unionF r T).card + (O.map (gain r T)).sum := by
    induction O with
    | nil => simp [unionF]
    | cons o O ih =>
      simp only [unionF, List.map_cons, List.sum_cons]
      have h1 : boxF o r ∪ unionF r O ∪ unionF r T = (boxF o r \ unionF r T) ∪ (unionF r O ∪ unionF r T) := by
        ext c; simp only [Finset.mem_union, Finset.mem_sdiff]; tauto
      rw [h1]
      have h2 := Finset.card_union_le (boxF o r \ unionF r T) (unionF r O ∪ unionF r T)
      rw [gain_eq_card_sdiff]
      omega
  have : (unionF r O).card ≤ (unionF r O ∪ unionF r T).card := Finset.card_le_card Finset.subset_union_left
  unfold hvSpec
  omega

theorem sum_gain_le (r : Pt) (T O : List Pt) (m : Int) (h : ∀ o ∈ O, gain r T o ≤ m) :
    (O.map (gain r T)).sum ≤ O.length * m := by
  induction O with
  | nil => simp
  | cons o O ih =>
    simp only [List.map_cons, List.sum_cons, List.length_cons]
    have := h o List.mem_cons_self
    have := ih (fun o ho => h o (List.mem_cons_of_mem _ ho))
    push_cast
    linarith

/-- projection of a candidate that the contribution updates do not touch -/
def Cand.key (c : Cand) : Pt × Nat := (c.pt, c.label)

/-- `picks` is a greedy run from the selected rows `T` over the candidates `cs`: every pick maximises the
true marginal gain among the candidates still available. -/
inductive GreedyRun (r : Pt) : List Pt → List (Pt × Nat) → List (Pt × Nat) → Prop
  | nil (T : List Pt) (cs : List (Pt × Nat)) : GreedyRun r T cs []
  | cons (T : List Pt) (cs : List (Pt × Nat)) (a : Nat) (c : Pt × Nat) (out : List (Pt × Nat)) :
      cs[a]? = some c → (∀ e ∈ cs, gain r T e.1 ≤ gain r T c.1) →
      GreedyRun r (T ++ [c.1]) (cs.eraseIdx a) out → GreedyRun r T cs (c :: out)

theorem mem_of_getElem?_or_eraseIdx {α : Type} (cs : List α) (a : Nat) (c e : α) (h : cs[a]? = some c)
    (he : e ∈ cs) : e = c ∨ e ∈ cs.eraseIdx a := by
  obtain ⟨i, hi, rfl⟩ := List.mem_iff_getElem.1 he
  by_cases hia : i = a
  · subst hia
    left
    rw [List.getElem?_eq_getElem hi] at h
    exact Option.some.inj h
  · right
    rw [List.mem_eraseIdx_iff_getElem]
    exact ⟨i, hi, hia, rfl⟩

/-- **Nemhauser–Wolsey–Fisher for the dominated volume**: after `m` greedy picks, the gap to *any* set
`O` of at most `K` available rows has shrunk by the factor `((K-1)/K)^m`. -/
theorem greedy_gap (r : Pt) (K : Nat) (hK : 1 ≤ K) (T : List Pt) (cs out : List (Pt × Nat))
    (hrun : GreedyRun r T cs out) (O : List Pt) (hO : O.length ≤ K)
    (hmem : ∀ o ∈ O, o ∈ T ∨ o ∈ cs.map (·.1)) :
    (K : Int) ^ out.length * ((hvSpec O r : Int) - hvSpec (T ++ out.map (·.1)) r)
      ≤ ((K : Int) - 1) ^ out.length * ((hvSpec O r : Int) - hvSpec T r) := by
  induction hrun with
  | nil T cs => simp
  | cons T cs a c out hc hmax _ ih =>
    have hmem' : ∀ o ∈ O, o ∈ T ++ [c.1] ∨ o ∈ (cs.eraseIdx a).map (·.1) := by
      intro o ho
      rcases hmem o ho with h | h
      · exact Or.inl (List.mem_append_left _ h)
      · obtain ⟨e, he, rfl⟩ := List.mem_map.1 h
        rcases mem_of_getElem?_or_eraseIdx cs a c e hc he with rfl | h'
        · exact Or.inl (by simp)
        · exact Or.inr (List.mem_map.2 ⟨e, h', rfl⟩)
    have ih' := ih hmem'
    have happ : T ++ [c.1] ++ out.map (·.1) = T ++ (c :: out).map (·.1) := by simp
    rw [happ] at ih'
    -- key step: hv O - hv T ≤ K * gain T c
    have hgc : ∀ o ∈ O, gain r T o ≤ gain r T c.1 := by
      intro o ho
      rcases hmem o ho with h | h
      · rw [gain_of_mem r T o h]; exact gain_nonneg _ _ _
      · obtain ⟨e, he, rfl⟩ := List.mem_map.1 h
        exact hmax e he
    have h1 := hvSpec_le_add_sum_gain r T O
    have h2 := sum_gain_le r T O _ hgc
    have h3 : (O.length : Int) * gain r T c.1 ≤ K * gain r T c.1 :=
      mul_le_mul_of_nonneg_right (by exact_mod_cast hO) (gain_nonneg _ _ _)
    have hsn := hvSpec_snoc r T c.1
    have hK1 : (1 : Int) ≤ K := by exact_mod_cast hK
    have hK' : (0 : Int) ≤ (K : Int) - 1 := by linarith
    have hstep : (K : Int) * ((hvSpec O r : Int) - hvSpec (T ++ [c.1]) r)
        ≤ ((K : Int) - 1) * ((hvSpec O r : Int) - hvSpec T r) := by
      rw [hsn]; nlinarith
    have hpow : (0 : Int) ≤ ((K : Int) - 1) ^ out.length := pow_nonneg hK' _
    have hKpos : (0 : Int) ≤ (K : Int) := by positivity
    simp only [List.length_cons, pow_succ]
    calc (K : Int) ^ out.length * K * ((hvSpec O r : Int) - hvSpec (T ++ (c :: out).map (·.1)) r)
        = K * ((K : Int) ^ out.length * ((hvSpec O r : Int) - hvSpec (T ++ (c :: out).map (·.1)) r)) := by ring
      _ ≤ K * (((K : Int) - 1) ^ out.length * ((hvSpec O r : Int) - hvSpec (T ++ [c.1]) r)) :=
          mul_le_mul_of_nonneg_left ih' hKpos
      _ = ((K : Int) - 1) ^ out.length * (K * ((hvSpec O r : Int) - hvSpec (T ++ [c.1]) r)) := by ring
      _ ≤ ((K : Int) - 1) ^ out.length * (((K : Int) - 1) * ((hvSpec O r : Int) - hvSpec T r)) :=
          mul_le_mul_of_nonneg_left hstep hpow
      _ = ((K : Int) - 1) ^ out.length * ((K : Int) - 1) * ((hvSpec O r : Int) - hvSpec T r) := by ring

/-! ## the lazy greedy loop -/

theorem setContribs_length (cs : List Cand) (vs : List Int) : (setContribs cs vs).length = cs.length := by
  induction cs generalizing vs with
  | nil => cases vs <;> simp [setContribs]
  | cons c cs ih => cases vs <;> simp [setContribs, ih]

theorem setContribs_key (cs : List Cand) (vs : List Int) :
    (setContribs cs vs).map Cand.key = cs.map Cand.key := by
  induction cs generalizing vs with
  | nil => cases vs <;> simp [setContribs]
  | cons c cs ih => cases vs <;> simp [setContribs, ih, Cand.key]

theorem setContribs_pt (cs : List Cand) (vs : List Int) :
    (setContribs cs vs).map (·.pt) = cs.map (·.pt) := by
  induction cs generalizing vs with
  | nil => cases vs <;> simp [setContribs]
  | cons c cs ih => cases vs <;> simp [setContribs, ih]

theorem setContribs_contrib (cs : List Cand) (vs : List Int) (h : vs.length = cs.length) :
    (setContribs cs vs).map (·.contrib) = vs := by
  induction cs generalizing vs with
  | nil => cases vs with
    | nil => rfl
    | cons _ _ => simp at h
  | cons c cs ih =>
    cases vs with
    | nil => simp at h
    | cons v vs => simp [setContribs, ih vs (by simpa using h)]

theorem mem_insertDesc (v : Nat → Int) (i : Nat) (L : List Nat) (k : Nat) :
    k ∈ insertDesc v i L ↔ k = i ∨ k ∈ L := by
  induction L with
  | nil => simp [insertDesc]
  | cons j t ih =>
    simp only [insertDesc]
    split
    · simp
    · simp only [List.mem_cons, ih]; tauto

theorem mem_argsortDesc (cs : List Int) (k : Nat) : k ∈ argsortDesc cs ↔ k < cs.length := by
  unfold argsortDesc
  generalize (fun i => cs.getD i 0) = v
  have : ∀ L : List Nat, k ∈ L.foldr (insertDesc v) [] ↔ k ∈ L := by
    intro L
    induction L with
    | nil => simp
    | cons a L ih => simp only [List.foldr_cons, mem_insertDesc, ih, List.mem_cons]
  rw [this]; simp

/-- `compute_hypervolume(·, assume_pareto=True)` as used by the lazy update (dimension ≠ 2) is exact -/
theorem hvAP_eq (r : Pt) (hd : r.length ≠ 2) (vecs : List Pt) (h : ∀ p ∈ vecs, Le p r) :
    hvAP r vecs = hvSpec vecs r :=
  computeHypervolumeFin_assumePareto_eq_spec vecs r h hd

theorem getD_map_pt (cs : List Cand) (i : Nat) (h : i < cs.length) :
    (cs.map (·.pt)).getD i [] = cs[i].pt := by
  simp [List.getD_eq_getElem?_getD, h]

theorem getD_map_contrib (cs : List Cand) (i : Nat) (h : i < cs.length) :
    (cs.map (·.contrib)).getD i 0 = cs[i].contrib := by
  simp [List.getD_eq_getElem?_getD, h]

/-- **The main loop of `_solve_hssp_on_unique_loss_vals` is a greedy run**: as long as the stored
contributions are upper bounds of the true marginal gains and the first maximum is exact (true initially,
re-established by every lazy update), each pick maximises the true marginal gain; exactly `k` picks. -/
theorem greedyLazy_run (r : Pt) (hd : r.length ≠ 2) :
    ∀ (k : Nat) (cands : List Cand) (T : List Pt), k ≤ cands.length →
      (∀ c ∈ cands, Le c.pt r) → (∀ p ∈ T, Le p r) →
      (∀ c ∈ cands, gain r T c.pt ≤ c.contrib) →
      (cands ≠ [] → (cands.map (·.contrib)).getD (argmax (cands.map (·.contrib))) 0
        = gain r T ((cands.map (·.pt)).getD (argmax (cands.map (·.contrib))) [])) →
      GreedyRun r T (cands.map Cand.key) ((greedyLazy r k cands T).map Cand.key) ∧
        (greedyLazy r k cands T).length = k := by
  intro k
  induction k with
  | zero =>
    intro cands T _ _ _ _ _
    simp only [greedyLazy, List.map_nil, List.length_nil, and_true]
    exact GreedyRun.nil _ _
  | succ k ih =>
    intro cands T hk hle hT hub hex
    have hne : cands ≠ [] := by intro h; subst h; simp at hk
    have hne' : cands.map (·.contrib) ≠ [] := by simpa using hne
    obtain ⟨ha, hmax⟩ := argmax_spec (cands.map (·.contrib)) hne'
    rw [List.length_map] at ha hmax
    set a := argmax (cands.map (·.contrib)) with hadef
    have hget : cands[a]? = some cands[a] := List.getElem?_eq_getElem ha
    have hexa := hex hne
    rw [getD_map_pt cands a ha, getD_map_contrib cands a ha] at hexa
    -- the pick maximises the true gain
    have htrue : ∀ e ∈ cands.map Cand.key, gain r T e.1 ≤ gain r T (Cand.key cands[a]).1 := by
      intro e he
      obtain ⟨c', hc', rfl⟩ := List.mem_map.1 he
      obtain ⟨j, hj, rfl⟩ := List.mem_iff_getElem.1 hc'
      have h1 := hub _ hc'
      have h2 := hmax j hj
      rw [getD_map_contrib cands j hj, getD_map_contrib cands a ha] at h2
      simp only [Cand.key]
      omega
    have hkey : (cands.map Cand.key)[a]? = some (Cand.key cands[a]) := by
      rw [List.getElem?_map, hget]; rfl
    simp only [greedyLazy]
    rw [← hadef, hget]
    simp only
    by_cases hk0 : k = 0
    · subst hk0
      simp only [if_true, List.map_cons, List.map_nil, List.length_cons, List.length_nil, and_true]
      exact GreedyRun.cons T _ a _ [] hkey htrue (GreedyRun.nil _ _)
    · simp only [hk0, if_false]
      -- the state after the lazy update
      set c := cands[a] with hc
      set cands' := cands.eraseIdx a with hcands'
      set T' := T ++ [c.pt] with hT'
      have hlen' : cands'.length = cands.length - 1 := by
        rw [hcands', List.length_eraseIdx]; simp [ha]
      have hmem' : ∀ e ∈ cands', e ∈ cands := fun e he => List.mem_of_mem_eraseIdx he
      have hleT' : ∀ p ∈ T', Le p r := by
        intro p hp
        rcases List.mem_append.1 hp with h | h
        · exact hT p h
        · have : p = c.pt := by simpa using h
          subst this; exact hle c (List.getElem_mem ha)
      set contribs := cands'.map (·.contrib) with hcontribs
      set pts := cands'.map (·.pt) with hpts
      have hcl : contribs.length = cands'.length := by simp [hcontribs]
      have hne2 : contribs ≠ [] := by
        intro h
        have : contribs.length = 0 := by rw [h]; rfl
        omega
      -- exact gains as computed by the code
      have hg : ∀ i < contribs.length,
          hvAP r (T' ++ [pts.getD i []]) - hvAP r T' = gain r T' (pts.getD i []) := by
        intro i hi
        have hi' : i < cands'.length := by omega
        have hp : Le (pts.getD i []) r := by
          rw [hpts, getD_map_pt cands' i hi']
          exact hle _ (hmem' _ (List.getElem_mem hi'))
        rw [hvAP_eq r hd T' hleT', hvAP_eq r hd (T' ++ [pts.getD i []])
          (by
            intro p hp'
            rcases List.mem_append.1 hp' with h | h
            · exact hleT' p h
            · have : p = pts.getD i [] := by simpa using h
              subst this; exact hp)]
        rw [hvSpec_snoc]; ring
      have hlazy := lazy_argmax_exact
        (fun i => hvAP r (T' ++ [pts.getD i []]) - hvAP r T') contribs (argsortDesc contribs) hne2
        (by intro i hi; rw [hg i hi]; exact gain_nonneg _ _ _)
        (by
          intro i hi
          have hi' : i < cands'.length := by omega
          rw [hg i hi, hpts, getD_map_pt cands' i hi', hcontribs, getD_map_contrib cands' i hi']
          exact le_trans (gain_antitone r T T' (fun x hx => List.mem_append_left _ hx) _)
            (hub _ (hmem' _ (List.getElem_mem hi'))))
        (fun i hi => (mem_argsortDesc contribs i).1 hi)
        (fun i hi => (mem_argsortDesc contribs i).2 hi)
      obtain ⟨l1, l2, l3, l4, _⟩ := hlazy
      have hupd : lazyUpdate r contribs pts T' = lazyGo
          (fun i => hvAP r (T' ++ [pts.getD i []]) - hvAP r T') (argsortDesc contribs) 0 contribs := rfl
      rw [← hupd] at l1 l2 l3 l4
      set contribs' := lazyUpdate r contribs pts T' with hcontribs'
      have hlen2 : contribs'.length = cands'.length := by omega
      have hmapc : (setContribs cands' contribs').map (·.contrib) = contribs' :=
        setContribs_contrib cands' contribs' hlen2
      have hmapp : (setContribs cands' contribs').map (·.pt) = pts := setContribs_pt cands' contribs'
      have hsl : (setContribs cands' contribs').length = cands'.length := setContribs_length _ _
      obtain ⟨r1, r2⟩ := ih (setContribs cands' contribs') T'
        (by rw [hsl, hlen']; omega)
        (by
          intro e he
          have : e.pt ∈ (setContribs cands' contribs').map (·.pt) := List.mem_map.2 ⟨e, he, rfl⟩
          rw [hmapp, hpts] at this
          obtain ⟨e', he', heq⟩ := List.mem_map.1 this
          rw [← heq]; exact hle _ (hmem' _ he'))
        hleT'
        (by
          intro e he
          obtain ⟨i, hi, rfl⟩ := List.mem_iff_getElem.1 he
          have hi' : i < cands'.length := by omega
          have h1 := l2 i (by omega)
          rw [hg i (by omega)] at h1
          have e1 : (setContribs cands' contribs')[i].pt = pts.getD i [] := by
            have := getD_map_pt (setContribs cands' contribs') i hi
            rw [hmapp] at this; exact this.symm
          have e2 : (setContribs cands' contribs')[i].contrib = contribs'.getD i 0 := by
            have := getD_map_contrib (setContribs cands' contribs') i hi
            rw [hmapc] at this; exact this.symm
          rw [e1, e2]; exact h1)
        (by
          intro _
          rw [hmapc, hmapp]
          have := l4
          rw [hg _ (by omega)] at this
          exact this)
      have hkeys : (setContribs cands' contribs').map Cand.key = (cands.map Cand.key).eraseIdx a := by
        rw [setContribs_key, hcands', List.eraseIdx_map]
      rw [hkeys] at r1
      refine ⟨?_, by simp [r2]⟩
      simp only [List.map_cons]
      exact GreedyRun.cons T _ a _ _ hkey htrue r1

/-! ## k distinct members; the greedy path of the solver -/

theorem nodup_eraseIdx_map {α β : Type} (f : α → β) (cs : List α) (a : Nat) (ha : a < cs.length)
    (hn : (cs.map f).Nodup) : f cs[a] ∉ (cs.eraseIdx a).map f ∧ ((cs.eraseIdx a).map f).Nodup := by
  have hp : (cs[a] :: cs.eraseIdx a).Perm cs := List.getElem_cons_eraseIdx_perm ha
  have := (hp.map f).nodup_iff.2 hn
  simpa using this

/-- a greedy run picks distinct labels among those offered -/
theorem GreedyRun.labels (r : Pt) (T : List Pt) (cs out : List (Pt × Nat)) (h : GreedyRun r T cs out)
    (hn : (cs.map (·.2)).Nodup) : (out.map (·.2)).Nodup ∧ ∀ e ∈ out, e ∈ cs := by
  induction h with
  | nil => simp
  | cons T cs a c out hc _ _ ih =>
    have ha : a < cs.length := by
      by_contra h; rw [List.getElem?_eq_none (by omega)] at hc; cases hc
    have hca : c = cs[a] := by rw [List.getElem?_eq_getElem ha] at hc; exact (Option.some.inj hc).symm
    obtain ⟨h1, h2⟩ := nodup_eraseIdx_map (·.2) cs a ha hn
    obtain ⟨i1, i2⟩ := ih h2
    constructor
    · simp only [List.map_cons, List.nodup_cons]
      refine ⟨?_, i1⟩
      intro hmem
      obtain ⟨e, he, heq⟩ := List.mem_map.1 hmem
      apply h1
      rw [← hca, ← heq]
      exact List.mem_map.2 ⟨e, i2 e he, rfl⟩
    · intro e he
      rcases List.mem_cons.1 he with rfl | he
      · rw [hca]; exact List.getElem_mem ha
      · exact List.mem_of_mem_eraseIdx (i2 e he)

theorem gain_nil (r p : Pt) (hp : Le p r) : gain r [] p = vol r p := by
  unfold gain hvSpec
  simp only [unionF, Finset.union_empty, Finset.card_empty]
  rw [card_boxF p r hp]; simp

/-- the candidates `_solve_hssp_on_unique_loss_vals` starts from -/
def initCands (r : Pt) (U : List Pt) (labels : List Nat) : List Cand :=
  (U.zip labels).map (fun e => { pt := e.1, label := e.2, contrib := vol r e.1 })

theorem initCands_key (r : Pt) (U : List Pt) (labels : List Nat) :
    (initCands r U labels).map Cand.key = U.zip labels := by
  simp [initCands, Cand.key, Function.comp_def]

theorem mem_zip_left {α β : Type} {a : α} {b : β} {l1 : List α} {l2 : List β} (h : (a, b) ∈ l1.zip l2) :
    a ∈ l1 := (List.of_mem_zip h).1

/-- **Greedy path of `_solve_hssp_on_unique_loss_vals`** (finite reference, `d ≠ 2`, `k < n_unique`): the
result is the list of labels of a greedy run of length `k` over all candidates, started from ∅. -/
theorem solveOnUnique_greedy (r : Pt) (hd : r.length ≠ 2) (U : List Pt) (labels : List Nat)
    (hlen : labels.length = U.length) (hU : ∀ p ∈ U, Le p r) (k : Nat) (hk : k < U.length) :
    ∃ picks : List (Pt × Nat), solveOnUnique U labels k r true = picks.map (·.2) ∧ picks.length = k ∧
      GreedyRun r [] (U.zip labels) picks := by
  have hne : labels.length ≠ k := by omega
  have hcl : (initCands r U labels).length = U.length := by simp [initCands, hlen]
  have hmem : ∀ c ∈ initCands r U labels, Le c.pt r ∧ c.contrib = vol r c.pt := by
    intro c hc
    obtain ⟨e, he, rfl⟩ := List.mem_map.1 hc
    exact ⟨hU _ (mem_zip_left (a := e.1) (b := e.2) he), rfl⟩
  obtain ⟨h1, h2⟩ := greedyLazy_run r hd k (initCands r U labels) [] (by omega)
    (fun c hc => (hmem c hc).1) (fun p hp => by cases hp)
    (fun c hc => by rw [gain_nil r c.pt (hmem c hc).1, (hmem c hc).2])
    (by
      intro hne'
      have hne2 : (initCands r U labels).map (·.contrib) ≠ [] := by simpa using hne'
      have ha := (argmax_spec _ hne2).1
      rw [List.length_map] at ha
      rw [getD_map_contrib _ _ ha, getD_map_pt _ _ ha]
      have := hmem _ (List.getElem_mem ha)
      rw [gain_nil r _ this.1, this.2])
  refine ⟨(greedyLazy r k (initCands r U labels) []).map Cand.key, ?_, by simpa using h2, ?_⟩
  · simp only [solveOnUnique, Bool.not_true, Bool.false_eq_true, if_false, hne, hd, List.map_map]
    rfl
  · rw [initCands_key] at h1; exact h1

/-! ## structure of the other branches -/

theorem hssp2dLoop_labels : ∀ (k : Nat) (cands : List Cand2), k ≤ cands.length →
    (cands.map (·.label)).Nodup →
    (hssp2dLoop k cands).length = k ∧ (hssp2dLoop k cands).Nodup ∧
      ∀ l ∈ hssp2dLoop k cands, l ∈ cands.map (·.label) := by
  intro k
  induction k with
  | zero => intro cands _ _; simp [hssp2dLoop]
  | succ k ih =>
    intro cands hk hn
    have hne : cands.map contrib2 ≠ [] := by
      intro h; have : cands = [] := by simpa using h
      subst this; simp at hk
    have ha := (argmax_spec _ hne).1
    rw [List.length_map] at ha
    set a := argmax (cands.map contrib2) with hadef
    simp only [hssp2dLoop]
    rw [← hadef, List.getElem?_eq_getElem ha]
    simp only
    set nxt := (cands.take a).map (fun e => { e with dx := min (x0 cands[a].pt) e.dx }) ++
      (cands.drop (a + 1)).map (fun e => { e with dy := min (y1 cands[a].pt) e.dy }) with hnxt
    have hlab : nxt.map (·.label) = (cands.eraseIdx a).map (·.label) := by
      rw [hnxt, List.eraseIdx_eq_take_drop_succ]
      simp [Function.comp_def]
    obtain ⟨h1, h2⟩ := nodup_eraseIdx_map (·.label) cands a ha hn
    have hlen : nxt.length = cands.length - 1 := by
      have := congrArg List.length hlab
      simp only [List.length_map, List.length_eraseIdx, ha, if_true] at this
      exact this
    obtain ⟨i1, i2, i3⟩ := ih nxt (by omega) (by rw [hlab]; exact h2)
    refine ⟨by simp [i1], ?_, ?_⟩
    · refine List.nodup_cons.2 ⟨?_, i2⟩
      intro hmem
      have := i3 _ hmem
      rw [hlab] at this
      exact h1 this
    · intro l hl
      rcases List.mem_cons.1 hl with rfl | hl
      · exact List.mem_map.2 ⟨_, List.getElem_mem ha, rfl⟩
      · have := i3 l hl
        rw [hlab] at this
        obtain ⟨e, he, rfl⟩ := List.mem_map.1 this
        exact List.mem_map.2 ⟨e, List.mem_of_mem_eraseIdx he, rfl⟩

/-! ## `_solve_hssp` as a whole -/

/-- rows of `vals` at the selected positions -/
def rowsAt (vals : List Pt) (sel : List Nat) : List Pt := sel.map (fun i => vals.getD i [])

theorem getD_idxOf (vals : List Pt) (p : Pt) (hp : p ∈ vals) : vals.getD (vals.idxOf p) [] = p := by
  have h := List.idxOf_lt_length_of_mem hp
  rw [List.getD_eq_getElem?_getD, List.getElem?_eq_getElem h]
  simp [List.getElem_idxOf h]

theorem firsts_nodup (vals : List Pt) (U : List Pt) (hU : U.Nodup) (hsub : ∀ p ∈ U, p ∈ vals) :
    (U.map (fun p => vals.idxOf p)).Nodup := by
  apply List.Nodup.map_on _ hU
  intro x hx y hy hxy
  have h1 := getD_idxOf vals x (hsub x hx)
  have h2 := getD_idxOf vals y (hsub y hy)
  rw [hxy] at h1
  rw [← h1, h2]

theorem zip_firsts (vals U : List Pt) :
    U.zip (U.map (fun p => vals.idxOf p)) = U.map (fun p => (p, vals.idxOf p)) := by
  induction U with
  | nil => rfl
  | cons p U ih => simp [ih]

/-- if the selected rows contain every row, the guarantee is immediate -/
theorem bound_of_cover (r : Pt) (vals rows O : List Pt) (k : Nat) (hcov : ∀ p ∈ vals, p ∈ rows)
    (hO : ∀ o ∈ O, o ∈ vals) :
    (k : Int) ^ k * ((hvSpec O r : Int) - hvSpec rows r) ≤ ((k : Int) - 1) ^ k * (hvSpec O r : Int) := by
  have h1 : hvSpec O r ≤ hvSpec rows r := hvSpec_mono r O rows (fun x hx => hcov x (hO x hx))
  have h2 : (0 : Int) ≤ (k : Int) ^ k := by positivity
  have h3 : (0 : Int) ≤ ((k : Int) - 1) ^ k := by
    cases k with
    | zero => simp
    | succ k => apply pow_nonneg; push_cast; linarith
  have h4 : (0 : Int) ≤ (hvSpec O r : Int) := Int.natCast_nonneg _
  have h5 : ((hvSpec O r : Int) - hvSpec rows r) ≤ 0 := by
    have : (hvSpec O r : Int) ≤ hvSpec rows r := by exact_mod_cast h1
    linarith
  nlinarith [mul_nonneg h3 h4, mul_nonneg h2 (neg_nonneg.2 h5)]

theorem filter_range_length (n : Nat) (A B : List Nat) (hA : A.Nodup) (hB : B.Nodup)
    (hAn : ∀ i ∈ A, i < n) (hBn : ∀ i ∈ B, i < n) (hdis : ∀ i ∈ A, i ∉ B) :
    ((List.range n).filter (fun i => A.contains i || B.contains i)).length = A.length + B.length := by
  have hperm : ((List.range n).filter (fun i => A.contains i || B.contains i)).Perm (A ++ B) := by
    apply (List.perm_ext_iff_of_nodup (List.Nodup.filter _ List.nodup_range) ?_).2
    · intro a
      simp only [List.mem_filter, List.mem_range, Bool.or_eq_true, List.contains_iff_mem, List.mem_append]
      constructor
      · exact fun h => h.2
      · intro h
        refine ⟨?_, h⟩
        rcases h with h | h
        · exact hAn a h
        · exact hBn a h
    · exact List.nodup_append.2 ⟨hA, hB, fun a ha b hb hab => hdis a ha (hab ▸ hb)⟩
  rw [hperm.length_eq, List.length_append]

theorem dups_length (n : Nat) (A : List Nat) (hA : A.Nodup) (hAn : ∀ i ∈ A, i < n) :
    ((List.range n).filter (fun i => !A.contains i)).length = n - A.length := by
  have hperm : (List.range n).Perm (A ++ (List.range n).filter (fun i => !A.contains i)) := by
    apply (List.perm_ext_iff_of_nodup List.nodup_range ?_).2
    · intro a
      simp only [List.mem_range, List.mem_append, List.mem_filter, Bool.not_eq_eq_eq_not, Bool.not_true,
        List.contains_eq_mem, decide_eq_false_iff_not]
      constructor
      · intro h
        by_cases ha : a ∈ A
        · exact Or.inl ha
        · exact Or.inr ⟨h, ha⟩
      · rintro (h | h)
        · exact hAn a h
        · exact h.1
    · refine List.nodup_append.2 ⟨hA, List.Nodup.filter _ List.nodup_range, ?_⟩
      intro a ha b hb hab
      subst hab
      simp only [List.mem_filter, Bool.not_eq_eq_eq_not, Bool.not_true, List.contains_eq_mem,
        decide_eq_false_iff_not] at hb
      exact hb.2 ha
  have := hperm.length_eq
  rw [List.length_append, List.length_range] at this
  omega


theorem map_snd_zip_eq {α β : Type} (l1 : List α) (l2 : List β) (h : l2.length = l1.length) :
    (l1.zip l2).map (·.2) = l2 := by
  induction l1 generalizing l2 with
  | nil => cases l2 with
    | nil => rfl
    | cons _ _ => simp at h
  | cons a l1 ih =>
    cases l2 with
    | nil => simp at h
    | cons b l2 => simp [ih l2 (by simpa using h)]

/-- every branch of `_solve_hssp_on_unique_loss_vals` returns `k` distinct labels -/
theorem solveOnUnique_distinct (U : List Pt) (labels : List Nat) (k : Nat) (r : Pt) (fin : Bool)
    (hlen : labels.length = U.length) (hk : k ≤ U.length) (hn : labels.Nodup) (hU : ∀ p ∈ U, Le p r) :
    (solveOnUnique U labels k r fin).length = k ∧ (solveOnUnique U labels k r fin).Nodup ∧
      ∀ l ∈ solveOnUnique U labels k r fin, l ∈ labels := by
  unfold solveOnUnique
  split
  · exact ⟨by simp; omega, List.Nodup.sublist (List.take_sublist _ _) hn, fun l hl => List.mem_of_mem_take hl⟩
  · rename_i hfin
    have hfin' : fin = true := by simpa using hfin
    split
    · rename_i h; exact ⟨h, hn, fun l hl => hl⟩
    · rename_i hne
      split
      · set cands := (U.zip labels).map (fun e => ({ pt := e.1, label := e.2, dx := x0 r, dy := y1 r } : Cand2))
        have hlab : cands.map (·.label) = labels := by
          have : cands.map (·.label) = (U.zip labels).map (·.2) := by simp [cands, Function.comp_def]
          rw [this, map_snd_zip_eq U labels hlen]
        have hcl : cands.length = U.length := by simp [cands, hlen]
        obtain ⟨h1, h2, h3⟩ := hssp2dLoop_labels k cands (by omega) (by rw [hlab]; exact hn)
        exact ⟨h1, h2, fun l hl => by rw [← hlab]; exact h3 l hl⟩
      · rename_i hd
        have hk' : k < U.length := by omega
        obtain ⟨picks, hp1, hp2, hp3⟩ := solveOnUnique_greedy r hd U labels hlen hU k hk'
        have heq : (greedyLazy r k ((U.zip labels).map (fun e => ({ pt := e.1, label := e.2, contrib := vol r e.1 } : Cand))) []).map (·.label)
            = picks.map (·.2) := by
          have := hp1
          simp only [solveOnUnique, Bool.not_true, Bool.false_eq_true, if_false, hne, hd] at this
          exact this
        rw [heq]
        obtain ⟨g1, g2⟩ := GreedyRun.labels r [] _ picks hp3 (by rw [map_snd_zip_eq U labels hlen]; exact hn)
        refine ⟨by simp [hp2], g1, ?_⟩
        intro l hl
        obtain ⟨e, he, rfl⟩ := List.mem_map.1 hl
        have := g2 e he
        rw [← map_snd_zip_eq U labels hlen]
        exact List.mem_map.2 ⟨e, this, rfl⟩

/-- facts about `np.unique(vals, return_index=True, axis=0)` -/
theorem unique_facts (vals : List Pt) (r : Pt) (hv : ∀ p ∈ vals, Le p r) :
    (uniqueLex vals).Nodup ∧ ((uniqueLex vals).map (fun p => vals.idxOf p)).Nodup ∧
      (∀ i ∈ (uniqueLex vals).map (fun p => vals.idxOf p), i < vals.length) ∧
      (uniqueLex vals).length ≤ vals.length := by
  have hlex := lexSorted_uniqueLex r.length vals (fun q hq => (hv q hq).length_eq)
  have hnd := OptunaVerif.Rank.LexSorted.nodup hlex
  have hsub : ∀ p ∈ uniqueLex vals, p ∈ vals := fun p hp => (mem_uniqueLex vals p).1 hp
  have hf := firsts_nodup vals _ hnd hsub
  have hlt : ∀ i ∈ (uniqueLex vals).map (fun p => vals.idxOf p), i < vals.length := by
    intro i hi
    obtain ⟨p, hp, rfl⟩ := List.mem_map.1 hi
    exact List.idxOf_lt_length_of_mem (hsub p hp)
  refine ⟨hnd, hf, hlt, ?_⟩
  have := dups_length vals.length _ hf hlt
  have h2 := List.length_filter_le (fun i => !((uniqueLex vals).map (fun p => vals.idxOf p)).contains i) (List.range vals.length)
  simp only [List.length_map, List.length_range] at this h2
  by_contra hc
  -- more unique rows than rows is impossible: distinct positions below n
  have hsubl : ((uniqueLex vals).map (fun p => vals.idxOf p)).Subperm (List.range vals.length) :=
    List.Nodup.subperm hf (fun i hi => List.mem_range.2 (hlt i hi))
  have := hsubl.length_le
  simp only [List.length_map, List.length_range] at this
  omega

/-- **`_solve_hssp` returns `k` distinct positions of the array**, in every branch and dimension. -/
theorem solveHssp_distinct (vals : List Pt) (r : Pt) (hv : ∀ p ∈ vals, Le p r) (k : Nat)
    (hk : k ≤ vals.length) (fin : Bool) :
    (solveHssp vals k r fin).length = k ∧ (solveHssp vals k r fin).Nodup ∧
      ∀ i ∈ solveHssp vals k r fin, i < vals.length := by
  obtain ⟨hnd, hf, hlt, hUle⟩ := unique_facts vals r hv
  unfold solveHssp
  simp only
  split
  · rename_i h
    subst h
    exact ⟨List.length_range, List.nodup_range, fun i hi => List.mem_range.1 hi⟩
  · split
    · rename_i hUk
      set firsts := (uniqueLex vals).map (fun p => vals.idxOf p) with hfirsts
      set dups := (List.range vals.length).filter (fun i => !firsts.contains i) with hdups
      have hdl : dups.length = vals.length - firsts.length := dups_length _ _ hf hlt
      have hfl : firsts.length = (uniqueLex vals).length := by simp [hfirsts]
      have hextra_sub : ∀ i ∈ dups.take (k - (uniqueLex vals).length), i ∈ dups := fun i hi => List.mem_of_mem_take hi
      have hdmem : ∀ i ∈ dups, i < vals.length ∧ i ∉ firsts := by
        intro i hi
        simp only [hdups, List.mem_filter, List.mem_range, Bool.not_eq_eq_eq_not, Bool.not_true,
          List.contains_eq_mem, decide_eq_false_iff_not] at hi
        exact hi
      have hlen := filter_range_length vals.length firsts (dups.take (k - (uniqueLex vals).length)) hf
        (List.Nodup.sublist (List.take_sublist _ _) (List.Nodup.filter _ List.nodup_range))
        hlt (fun i hi => (hdmem i (hextra_sub i hi)).1)
        (fun i hi hi2 => (hdmem i (hextra_sub i hi2)).2 hi)
      refine ⟨?_, List.Nodup.filter _ List.nodup_range, fun i hi => List.mem_range.1 (List.mem_filter.1 hi).1⟩
      rw [hlen, List.length_take, hdl, hfl]
      omega
    · rename_i hUk
      have hfl : ((uniqueLex vals).map (fun p => vals.idxOf p)).length = (uniqueLex vals).length := by simp
      obtain ⟨h1, h2, h3⟩ := solveOnUnique_distinct (uniqueLex vals) _ k r fin hfl (by omega) hf
        (fun p hp => hv p ((mem_uniqueLex vals p).1 hp))
      exact ⟨h1, h2, fun i hi => hlt i (h3 i hi)⟩

theorem rowsAt_range (vals : List Pt) : rowsAt vals (List.range vals.length) = vals := by
  apply List.ext_getElem
  · simp [rowsAt]
  · intro i h1 h2
    simp [rowsAt, List.getD_eq_getElem?_getD, h2]

/-- `_solve_hssp` guarantee, given that the solver on the unique rows performs a greedy run: for every set
`O` of at most `k` rows, `k^k · (hv(O) − hv(selection)) ≤ (k−1)^k · hv(O)`. -/
theorem solveHssp_bound_of_run (vals : List Pt) (r : Pt) (hv : ∀ p ∈ vals, Le p r) (k : Nat)
    (hrun : k < (uniqueLex vals).length → ∃ picks : List (Pt × Nat),
      solveOnUnique (uniqueLex vals) ((uniqueLex vals).map (fun p => vals.idxOf p)) k r true = picks.map (·.2) ∧
        picks.length = k ∧
        GreedyRun r [] ((uniqueLex vals).zip ((uniqueLex vals).map (fun p => vals.idxOf p))) picks)
    (hk : k ≤ vals.length) (O : List Pt) (hO : ∀ o ∈ O, o ∈ vals) (hOk : O.length ≤ k) :
    (k : Int) ^ k * ((hvSpec O r : Int) - hvSpec (rowsAt vals (solveHssp vals k r true)) r)
      ≤ ((k : Int) - 1) ^ k * (hvSpec O r : Int) := by
  obtain ⟨hnd, hf, hlt, hUle⟩ := unique_facts vals r hv
  have hUsub : ∀ p ∈ uniqueLex vals, p ∈ vals := fun p hp => (mem_uniqueLex vals p).1 hp
  unfold solveHssp
  simp only
  split
  · rename_i h
    subst h
    rw [rowsAt_range]
    exact bound_of_cover r vals vals O _ (fun p hp => hp) hO
  · rename_i hkn
    split
    · -- fewer unique rows than k: all unique rows are selected
      apply bound_of_cover r vals _ O k _ hO
      intro p hp
      have hpU := (mem_uniqueLex vals p).2 hp
      refine List.mem_map.2 ⟨vals.idxOf p, ?_, getD_idxOf vals p hp⟩
      refine List.mem_filter.2 ⟨List.mem_range.2 (List.idxOf_lt_length_of_mem hp), ?_⟩
      have : vals.idxOf p ∈ (uniqueLex vals).map (fun p => vals.idxOf p) := List.mem_map.2 ⟨p, hpU, rfl⟩
      simp [this]
    · rename_i hUk
      by_cases hkU : k = (uniqueLex vals).length
      · -- exactly k unique rows: all of them
        have : solveOnUnique (uniqueLex vals) ((uniqueLex vals).map (fun p => vals.idxOf p)) k r true
            = (uniqueLex vals).map (fun p => vals.idxOf p) := by
          simp [solveOnUnique, hkU]
        rw [this]
        apply bound_of_cover r vals _ O k _ hO
        intro p hp
        have hpU := (mem_uniqueLex vals p).2 hp
        exact List.mem_map.2 ⟨vals.idxOf p, List.mem_map.2 ⟨p, hpU, rfl⟩, getD_idxOf vals p hp⟩
      · have hk' : k < (uniqueLex vals).length := by omega
        obtain ⟨picks, hp1, hp2, hp3⟩ := hrun hk'
        rw [hp1]
        -- the rows at the picked labels are the picked points
        obtain ⟨_, hmemz⟩ := GreedyRun.labels r [] _ picks hp3
          (by rw [map_snd_zip_eq _ _ (by simp)]; exact hf)
        have hrows : rowsAt vals (picks.map (·.2)) = picks.map (·.1) := by
          unfold rowsAt
          rw [List.map_map]
          apply List.map_congr_left
          intro e he
          have := hmemz e he
          rw [zip_firsts] at this
          obtain ⟨p, hp, rfl⟩ := List.mem_map.1 this
          exact getD_idxOf vals p (hUsub p hp)
        rw [hrows]
        by_cases hk0 : k = 0
        · subst hk0
          have : O = [] := List.eq_nil_of_length_eq_zero (by omega)
          subst this
          have : picks = [] := List.eq_nil_of_length_eq_zero hp2
          subst this
          simp [hvSpec, unionF]
        · have hgap := greedy_gap r k (by omega) [] _ picks hp3 O hOk
            (by
              intro o ho
              right
              have := (mem_uniqueLex vals o).2 (hO o ho)
              rw [zip_firsts, List.map_map]
              exact List.mem_map.2 ⟨o, this, rfl⟩)
          rw [hp2] at hgap
          simpa [hvSpec, unionF] using hgap

/-- **`_solve_hssp` guarantee** (finite reference, dimension ≠ 2): for every set `O` of at most `k` rows,
`k^k · (hv(O) − hv(selection)) ≤ (k−1)^k · hv(O)`, i.e. `hv(selection) ≥ (1 − (1−1/k)^k) · hv(O)`. -/
theorem solveHssp_bound (vals : List Pt) (r : Pt) (hv : ∀ p ∈ vals, Le p r) (hd : r.length ≠ 2) (k : Nat)
    (hk : k ≤ vals.length) (O : List Pt) (hO : ∀ o ∈ O, o ∈ vals) (hOk : O.length ≤ k) :
    (k : Int) ^ k * ((hvSpec O r : Int) - hvSpec (rowsAt vals (solveHssp vals k r true)) r)
      ≤ ((k : Int) - 1) ^ k * (hvSpec O r : Int) :=
  solveHssp_bound_of_run vals r hv k
    (fun hk' => solveOnUnique_greedy r hd (uniqueLex vals) _ (by simp)
      (fun p hp => hv p ((mem_uniqueLex vals p).1 hp)) k hk') hk O hO hOk

/-! ## the 2-D solver `_solve_hssp_2d` on a staircase -/

/-- column 0 strictly increasing and column 1 strictly decreasing: a unique-lexsorted array of mutually
non-dominated 2-D rows -/
def Staircase (L : List Pt) : Prop := L.Pairwise (fun a b => x0 a < x0 b ∧ y1 b < y1 a)

theorem mem_boxF_two (x y a b : Int) (c : Pt) :
    c ∈ boxF [x, y] [a, b] ↔ ∃ cx cy, c = [cx, cy] ∧ x ≤ cx ∧ cx < a ∧ y ≤ cy ∧ cy < b := by
  rw [mem_boxF]
  constructor
  · rintro ⟨h1, h2⟩
    obtain ⟨cx, cy, rfl, h3, h4⟩ := lt_two_right.1 h2
    have := le_two.1 h1
    exact ⟨cx, cy, rfl, this.1, h3, this.2, h4⟩
  · rintro ⟨cx, cy, rfl, h1, h2, h3, h4⟩
    exact ⟨le_two.2 ⟨h1, h3⟩, lt_two_right.2 ⟨cx, cy, rfl, h2, h4⟩⟩

def Cand2.key (c : Cand2) : Pt × Nat := (c.pt, c.label)

/-- invariant of `_solve_hssp_2d`: the rectangle `[pt, (dx, dy))` of every remaining candidate is exactly
the part of its box that the selected rows `T` do not cover -/
structure Inv2 (r0 r1 : Int) (T : List Pt) (cs : List Cand2) : Prop where
  stair : Staircase (cs.map (·.pt))
  shape : ∀ c ∈ cs, ∃ x y, c.pt = [x, y] ∧ x ≤ c.dx ∧ y ≤ c.dy ∧ c.dx ≤ r0 ∧ c.dy ≤ r1
  excl : ∀ c ∈ cs, boxF c.pt [r0, r1] \ unionF [r0, r1] T = boxF c.pt [c.dx, c.dy]

/-- **hssp2d_contribution_exact**: the stored rectangle area is the true marginal gain. -/
theorem inv2_gain (r0 r1 : Int) (T : List Pt) (cs : List Cand2) (h : Inv2 r0 r1 T cs) (c : Cand2)
    (hc : c ∈ cs) : gain [r0, r1] T c.pt = contrib2 c := by
  obtain ⟨x, y, hpt, hx, hy, _, _⟩ := h.shape c hc
  rw [gain_eq_card_sdiff, h.excl c hc, hpt, card_boxF [x, y] [c.dx, c.dy] (le_two.2 ⟨hx, hy⟩)]
  simp [contrib2, vol, hpt, x0, y1]

theorem unionF_snoc (r : Pt) (T : List Pt) (p : Pt) : unionF r (T ++ [p]) = unionF r T ∪ boxF p r := by
  ext c
  simp only [mem_unionF, Finset.mem_union, mem_boxF, List.mem_append, List.mem_singleton]
  constructor
  · rintro ⟨q, hq | rfl, h⟩
    · exact Or.inl ⟨q, hq, h⟩
    · exact Or.inr h
  · rintro (⟨q, hq, h⟩ | h)
    · exact ⟨q, Or.inl hq, h⟩
    · exact ⟨p, Or.inr rfl, h⟩

theorem staircase_getElem {L : List Pt} (h : Staircase L) {i j : Nat} (hi : i < L.length) (hj : j < L.length)
    (hij : i < j) : x0 L[i] < x0 L[j] ∧ y1 L[j] < y1 L[i] :=
  List.pairwise_iff_getElem.1 h i j hi hj hij

/-- one round of `_solve_hssp_2d` re-establishes the invariant for the enlarged selection -/
theorem inv2_step (r0 r1 : Int) (T : List Pt) (cs : List Cand2) (h : Inv2 r0 r1 T cs) (m : Nat)
    (hm : m < cs.length) :
    Inv2 r0 r1 (T ++ [cs[m].pt])
      ((cs.take m).map (fun e => { e with dx := min (x0 cs[m].pt) e.dx }) ++
        (cs.drop (m + 1)).map (fun e => { e with dy := min (y1 cs[m].pt) e.dy })) := by
  obtain ⟨px, py, hp, hpx, hpy, hpr0, hpr1⟩ := h.shape cs[m] (List.getElem_mem hm)
  have hpts : ((cs.take m).map (fun e => ({ e with dx := min (x0 cs[m].pt) e.dx } : Cand2)) ++
      (cs.drop (m + 1)).map (fun e => ({ e with dy := min (y1 cs[m].pt) e.dy } : Cand2))).map (·.pt)
      = (cs.map (·.pt)).eraseIdx m := by
    rw [List.eraseIdx_eq_take_drop_succ]
    simp [Function.comp_def, List.map_take, List.map_drop]
  -- position of a candidate relative to the pick
  have hbefore : ∀ e ∈ cs.take m, e ∈ cs ∧ x0 e.pt < px ∧ py < y1 e.pt := by
    intro e he
    obtain ⟨i, hi, rfl⟩ := List.mem_iff_getElem.1 he
    have hi' : i < m := by simp at hi; omega
    have hil : i < cs.length := by omega
    have := staircase_getElem h.stair (i := i) (j := m) (by simpa using hil) (by simpa using hm) hi'
    simp only [List.getElem_map, List.getElem_take] at this ⊢
    rw [hp] at this
    exact ⟨List.getElem_mem hil, by simpa [x0, y1] using this⟩
  have hafter : ∀ e ∈ cs.drop (m + 1), e ∈ cs ∧ px < x0 e.pt ∧ y1 e.pt < py := by
    intro e he
    obtain ⟨i, hi, rfl⟩ := List.mem_iff_getElem.1 he
    have hil : m + 1 + i < cs.length := by simp at hi; omega
    have := staircase_getElem h.stair (i := m) (j := m + 1 + i) (by simpa using hm) (by simpa using hil)
      (by omega)
    simp only [List.getElem_map, List.getElem_drop] at this ⊢
    rw [hp] at this
    exact ⟨List.getElem_mem hil, by simpa [x0, y1] using this⟩
  refine ⟨?_, ?_, ?_⟩
  · unfold Staircase
    rw [hpts]
    exact List.Pairwise.sublist (List.eraseIdx_sublist _ _) h.stair
  · intro c hc
    rcases List.mem_append.1 hc with hc | hc
    · obtain ⟨e, he, rfl⟩ := List.mem_map.1 hc
      obtain ⟨hecs, hex, hey⟩ := hbefore e he
      obtain ⟨x, y, hpt, hx, hy, hr0, hr1⟩ := h.shape e hecs
      refine ⟨x, y, hpt, ?_, hy, ?_, hr1⟩
      · simp only [hp, x0, List.headD_cons]
        rw [hpt] at hex; simp only [x0, List.headD_cons] at hex
        exact le_min (le_of_lt hex) hx
      · exact le_trans (min_le_right _ _) hr0
    · obtain ⟨e, he, rfl⟩ := List.mem_map.1 hc
      obtain ⟨hecs, hex, hey⟩ := hafter e he
      obtain ⟨x, y, hpt, hx, hy, hr0, hr1⟩ := h.shape e hecs
      refine ⟨x, y, hpt, hx, ?_, hr0, ?_⟩
      · simp only [hp, y1, List.tail_cons, List.headD_cons]
        rw [hpt] at hey; simp only [y1, List.tail_cons, List.headD_cons] at hey
        exact le_min (le_of_lt hey) hy
      · exact le_trans (min_le_right _ _) hr1
  · intro c hc
    have hsd : ∀ A B C : Finset Pt, A \ (B ∪ C) = (A \ B) \ C := by
      intro A B C; ext c; simp only [Finset.mem_sdiff, Finset.mem_union]; tauto
    rw [unionF_snoc, hsd]
    rcases List.mem_append.1 hc with hc | hc
    · obtain ⟨e, he, rfl⟩ := List.mem_map.1 hc
      obtain ⟨hecs, hex, hey⟩ := hbefore e he
      obtain ⟨x, y, hpt, hx, hy, hr0, hr1⟩ := h.shape e hecs
      rw [h.excl e hecs]
      simp only [hpt, hp, x0, y1, List.headD_cons, List.tail_cons] at hex hey ⊢
      ext c
      simp only [Finset.mem_sdiff, mem_boxF_two]
      constructor
      · rintro ⟨⟨cx, cy, rfl, h1, h2, h3, h4⟩, hn⟩
        refine ⟨cx, cy, rfl, h1, ?_, h3, h4⟩
        by_contra hc'
        apply hn
        exact ⟨cx, cy, rfl, by have := lt_min_iff.not.1 hc'; omega, by omega, by omega, by omega⟩
      · rintro ⟨cx, cy, rfl, h1, h2, h3, h4⟩
        have := lt_min_iff.1 h2
        refine ⟨⟨cx, cy, rfl, h1, this.2, h3, h4⟩, ?_⟩
        rintro ⟨cx', cy', heq, g1, _, _, _⟩
        simp only [List.cons.injEq, and_true] at heq
        omega
    · obtain ⟨e, he, rfl⟩ := List.mem_map.1 hc
      obtain ⟨hecs, hex, hey⟩ := hafter e he
      obtain ⟨x, y, hpt, hx, hy, hr0, hr1⟩ := h.shape e hecs
      rw [h.excl e hecs]
      simp only [hpt, hp, x0, y1, List.headD_cons, List.tail_cons] at hex hey ⊢
      ext c
      simp only [Finset.mem_sdiff, mem_boxF_two]
      constructor
      · rintro ⟨⟨cx, cy, rfl, h1, h2, h3, h4⟩, hn⟩
        refine ⟨cx, cy, rfl, h1, h2, h3, ?_⟩
        by_contra hc'
        apply hn
        exact ⟨cx, cy, rfl, by omega, by omega, by have := lt_min_iff.not.1 hc'; omega, by omega⟩
      · rintro ⟨cx, cy, rfl, h1, h2, h3, h4⟩
        have := lt_min_iff.1 h4
        refine ⟨⟨cx, cy, rfl, h1, h2, h3, this.2⟩, ?_⟩
        rintro ⟨cx', cy', heq, _, _, g1, _⟩
        simp only [List.cons.injEq, and_true] at heq
        omega

/-- **`_solve_hssp_2d` is a greedy run** on a staircase (unique-lexsorted mutually non-dominated rows). -/
theorem hssp2dLoop_run (r0 r1 : Int) :
    ∀ (k : Nat) (cs : List Cand2) (T : List Pt), k ≤ cs.length → Inv2 r0 r1 T cs →
      ∃ picks : List (Pt × Nat), hssp2dLoop k cs = picks.map (·.2) ∧ picks.length = k ∧
        GreedyRun [r0, r1] T (cs.map Cand2.key) picks := by
  intro k
  induction k with
  | zero =>
    intro cs T _ _
    exact ⟨[], by simp [hssp2dLoop], rfl, GreedyRun.nil _ _⟩
  | succ k ih =>
    intro cs T hk hinv
    have hne : cs.map contrib2 ≠ [] := by
      intro h; have : cs = [] := by simpa using h
      subst this; simp at hk
    obtain ⟨ha, hmax⟩ := argmax_spec _ hne
    rw [List.length_map] at ha hmax
    set a := argmax (cs.map contrib2) with hadef
    have hstep := inv2_step r0 r1 T cs hinv a ha
    set nxt := (cs.take a).map (fun e => ({ e with dx := min (x0 cs[a].pt) e.dx } : Cand2)) ++
      (cs.drop (a + 1)).map (fun e => ({ e with dy := min (y1 cs[a].pt) e.dy } : Cand2)) with hnxt
    have hkeys : nxt.map Cand2.key = (cs.map Cand2.key).eraseIdx a := by
      have hkf : Cand2.key = fun x : Cand2 => (x.pt, x.label) := rfl
      rw [List.eraseIdx_map, hnxt, List.eraseIdx_eq_take_drop_succ, hkf]
      simp [Function.comp_def]
    have hlen : nxt.length = cs.length - 1 := by
      have := congrArg List.length hkeys
      simp only [List.length_map, List.length_eraseIdx, ha, if_true] at this
      exact this
    obtain ⟨picks, hp1, hp2, hp3⟩ := ih nxt (T ++ [cs[a].pt]) (by omega) hstep
    refine ⟨Cand2.key cs[a] :: picks, ?_, by simp [hp2], ?_⟩
    · simp only [hssp2dLoop]
      rw [← hadef, List.getElem?_eq_getElem ha]
      simp only [List.map_cons]
      rw [← hnxt, hp1]
      rfl
    · rw [hkeys] at hp3
      refine GreedyRun.cons T _ a _ picks (by rw [List.getElem?_map, List.getElem?_eq_getElem ha]; rfl) ?_ hp3
      intro e he
      obtain ⟨c, hc, rfl⟩ := List.mem_map.1 he
      obtain ⟨j, hj, rfl⟩ := List.mem_iff_getElem.1 hc
      simp only [Cand2.key]
      rw [inv2_gain r0 r1 T cs hinv _ (List.getElem_mem hj), inv2_gain r0 r1 T cs hinv _ (List.getElem_mem ha)]
      have := hmax j hj
      simpa [List.getD_eq_getElem?_getD, hj, ha] using this

theorem staircase_of_lexSorted_antichain (r : Pt) (hr : r.length = 2) (U : List Pt) (hU : ∀ p ∈ U, Le p r)
    (hlex : LexSorted U) (ha : Antichain U) : Staircase U := by
  refine List.Pairwise.imp_of_mem ?_ hlex
  intro a b hamem hbmem hlt
  have hx : x0 a ≤ x0 b := lexLt_x0 hlt
  have hab : a ≠ b := by intro h; subst h; simp [lexLt_irrefl] at hlt
  have hnle : ¬ Le a b := fun h => hab (ha a hamem b hbmem h)
  have hy : y1 b < y1 a := by
    by_contra hc
    exact hnle (le_of_x0_y1 hr (hU a hamem) (hU b hbmem) hx (not_lt.1 hc))
  refine ⟨?_, hy⟩
  rcases lt_or_eq_of_le hx with h | h
  · exact h
  · -- equal first column: the lexicographic order then forces a ≤ b
    exfalso
    match r, hr, a, hU a hamem, b, hU b hbmem with
    | [_, _], _, [ax, ay], _, [bx, by'], _ =>
      simp only [x0, y1, List.headD_cons, List.tail_cons] at h hy
      simp only [lexLt, Bool.or_eq_true, decide_eq_true_eq, Bool.and_eq_true, beq_iff_eq, Bool.and_false,
        Bool.or_false] at hlt
      omega

theorem map_fst_zip_eq {α β : Type} (l1 : List α) (l2 : List β) (h : l2.length = l1.length) :
    (l1.zip l2).map (·.1) = l1 := by
  induction l1 generalizing l2 with
  | nil => simp
  | cons a l1 ih =>
    cases l2 with
    | nil => simp at h
    | cons b l2 => simp [ih l2 (by simpa using h)]

/-- **2-D path of `_solve_hssp_on_unique_loss_vals`** on mutually non-dominated unique-lexsorted rows. -/
theorem solveOnUnique_greedy2d (r : Pt) (hr : r.length = 2) (U : List Pt) (labels : List Nat)
    (hlen : labels.length = U.length) (hU : ∀ p ∈ U, Le p r) (hst : Staircase U) (k : Nat)
    (hk : k < U.length) :
    ∃ picks : List (Pt × Nat), solveOnUnique U labels k r true = picks.map (·.2) ∧ picks.length = k ∧
      GreedyRun r [] (U.zip labels) picks := by
  match r, hr with
  | [r0, r1], _ =>
    set cands := (U.zip labels).map (fun e => ({ pt := e.1, label := e.2, dx := r0, dy := r1 } : Cand2))
      with hcands
    have hpts : cands.map (·.pt) = U := by
      have : cands.map (·.pt) = (U.zip labels).map (·.1) := by simp [hcands, Function.comp_def]
      rw [this, map_fst_zip_eq U labels hlen]
    have hkeys : cands.map Cand2.key = U.zip labels := by
      simp [hcands, Function.comp_def, Cand2.key]
    have hinv : Inv2 r0 r1 [] cands := by
      refine ⟨by rw [hpts]; exact hst, ?_, ?_⟩
      · intro c hc
        obtain ⟨e, he, rfl⟩ := List.mem_map.1 hc
        obtain ⟨x, y, hxy, hx, hy⟩ := le_two_right.1 (hU e.1 (mem_zip_left (a := e.1) (b := e.2) he))
        exact ⟨x, y, hxy, hx, hy, le_refl _, le_refl _⟩
      · intro c hc
        obtain ⟨e, he, rfl⟩ := List.mem_map.1 hc
        simp [unionF]
    obtain ⟨picks, h1, h2, h3⟩ := hssp2dLoop_run r0 r1 k cands [] (by simp [hcands, hlen]; omega) hinv
    refine ⟨picks, ?_, h2, by rw [hkeys] at h3; exact h3⟩
    have hne : labels.length ≠ k := by omega
    simp only [solveOnUnique, Bool.not_true, Bool.false_eq_true, if_false, hne, List.length_cons,
      List.length_nil, if_true, x0, y1, List.headD_cons, List.tail_cons]
    exact h1

/-- **`_solve_hssp` guarantee in 2-D** for mutually non-dominated rows (duplicates allowed): what the
sampler passes (one non-domination rank). -/
theorem solveHssp_bound_2d (vals : List Pt) (r : Pt) (hv : ∀ p ∈ vals, Le p r) (hr : r.length = 2)
    (ha : Antichain vals) (k : Nat) (hk : k ≤ vals.length) (O : List Pt) (hO : ∀ o ∈ O, o ∈ vals)
    (hOk : O.length ≤ k) :
    (k : Int) ^ k * ((hvSpec O r : Int) - hvSpec (rowsAt vals (solveHssp vals k r true)) r)
      ≤ ((k : Int) - 1) ^ k * (hvSpec O r : Int) := by
  have hUsub : ∀ p ∈ uniqueLex vals, p ∈ vals := fun p hp => (mem_uniqueLex vals p).1 hp
  have hlex := lexSorted_uniqueLex r.length vals (fun q hq => (hv q hq).length_eq)
  have hst := staircase_of_lexSorted_antichain r hr (uniqueLex vals) (fun p hp => hv p (hUsub p hp)) hlex
    (fun p hp q hq h => ha p (hUsub p hp) q (hUsub q hq) h)
  exact solveHssp_bound_of_run vals r hv k
    (fun hk' => solveOnUnique_greedy2d r hr (uniqueLex vals) _ (by simp)
      (fun p hp => hv p (hUsub p hp)) hst k hk') hk O hO hOk

end OptunaVerif.Hssp
