import OptunaVerif.Generated.HsspMethods
/-! Flag-free references and list lemmas for the `hssp.py` part of `Props/C15Gen.lean` (core Lean only). -/
set_option linter.unusedSimpArgs false
namespace OptunaVerif.HsspIR
open OptunaVerif OptunaVerif.Hypervolume OptunaVerif.HvIR

/-- `_solve_hssp(vals, ids, k, ref)`: all of `ids` when `k = n`; with fewer unique rows than `k`, the first occurrence of every unique row plus
the first `k - n_unique` other positions, in position order; else what the solver for unique rows selects — always read through `ids` -/
def solveHsspRef (solver : List Pt → List Nat → Nat → List Nat) (vals : List Pt) (ids : List Nat) (k : Nat) : List Nat :=
  let n := ids.length
  if k = n then ids
  else
    let U := uniqueLex vals
    let firsts := U.map (fun p => vals.idxOf p)
    if U.length < k then
      let dups := (List.range n).filter (fun i => !firsts.contains i)
      let extra := dups.take (k - U.length)
      ((List.range n).filter (fun i => firsts.contains i || extra.contains i)).map (fun j => ids.getD j 0)
    else (solver U firsts k).map (fun j => ids.getD j 0)

theorem sget_cons (k : String) (v : SV) (env : List (String × SV)) (n : String) :
    sget ((k, v) :: env) n = if k == n then v else sget env n := by
  unfold sget
  simp only [List.find?_cons]
  cases h : (k == n) <;> simp

theorem setAll_length (M : List Bool) (js : List Nat) : (setAll M js).length = M.length := by
  induction js generalizing M with
  | nil => rfl
  | cons j js ih => simp [setAll, ih]

theorem setAll_get (M : List Bool) (js : List Nat) (i : Nat) :
    (setAll M js)[i]? = (M[i]?).map (fun b => b || js.contains i) := by
  induction js generalizing M with
  | nil => cases h : M[i]? <;> simp [setAll, h]
  | cons j js ih =>
    rw [setAll, ih, List.getElem?_set]
    by_cases hji : j = i
    · subst hji
      by_cases hlt : j < M.length
      · simp [hlt]
      · simp [hlt]
    · have hne : ¬ i = j := fun e => hji e.symm
      cases M[i]? <;> simp [hji, hne]

theorem setAll_replicate (n : Nat) (a : List Nat) :
    setAll (List.replicate n false) a = (List.range n).map (fun i => a.contains i) := by
  apply List.ext_getElem?
  intro i
  rw [setAll_get]
  by_cases h : i < n <;> simp [h]

theorem setAll_map (n : Nat) (p : Nat → Bool) (b : List Nat) :
    setAll ((List.range n).map p) b = (List.range n).map (fun i => p i || b.contains i) := by
  apply List.ext_getElem?
  intro i
  rw [setAll_get]
  by_cases h : i < n <;> simp [h]

theorem selMask_map_filter {α : Type} (l : List α) (p : α → Bool) : selMask l (l.map p) = l.filter p := by
  induction l with
  | nil => rfl
  | cons a t ih => cases h : p a <;> simp [selMask, h, ih, List.filter_cons]

theorem selMask_range_from (ids : List Nat) (p : Nat → Bool) (m : Nat) : ∀ o, o + m = ids.length →
    selMask (ids.drop o) ((List.range' o m).map p) = ((List.range' o m).filter p).map (fun j => ids.getD j 0) := by
  induction m with
  | zero => intro o _; simp [selMask]
  | succ m ih =>
    intro o h
    have hlt : o < ids.length := by omega
    rw [List.drop_eq_getElem_cons hlt, List.range'_succ, List.map_cons]
    have := ih (o + 1) (by omega)
    cases hp : p o
    · simp [selMask, hp, List.filter_cons, this]
    · simp [selMask, hp, List.filter_cons, this, List.getD_eq_getElem?_getD, List.getElem?_eq_getElem hlt]

theorem selMask_range (ids : List Nat) (p : Nat → Bool) :
    selMask ids ((List.range ids.length).map p) = ((List.range ids.length).filter p).map (fun j => ids.getD j 0) := by
  have := selMask_range_from ids p ids.length 0 (by simp)
  simpa [List.range_eq_range'] using this


/-! ## the greedy loop on parallel arrays vs the hand model's candidate records -/

open OptunaVerif.Hssp

abbrev Trip := Pt × Nat × Int

def toCand (lab : Nat → Nat) (t : Trip) : Cand := { pt := t.1, label := lab t.2.1, contrib := t.2.2 }

def repl : List Trip → List Int → List Trip
  | t :: ts, c :: cs => (t.1, t.2.1, c) :: repl ts cs
  | _, _ => []

theorem lazyGo_length (g : Nat → Int) (order : List Nat) (m : Int) (cs : List Int) : (lazyGo g order m cs).length = cs.length := by
  induction order generalizing m cs with
  | nil => rfl
  | cons i rest ih =>
    simp only [lazyGo]
    split
    · exact ih _ _
    · rw [ih]; simp

theorem lazyUpdate_length (r : Pt) (cs : List Int) (vs sel : List Pt) : (lazyUpdate r cs vs sel).length = cs.length := by
  unfold lazyUpdate; exact lazyGo_length _ _ _ _

theorem setContribs_map (lab : Nat → Nat) (T : List Trip) (cs : List Int) (h : cs.length = T.length) :
    setContribs (T.map (toCand lab)) cs = (repl T cs).map (toCand lab) := by
  induction T generalizing cs with
  | nil => cases cs <;> simp_all [setContribs, repl]
  | cons t T ih =>
    cases cs with
    | nil => simp at h
    | cons c cs =>
      simp only [List.length_cons, Nat.add_right_cancel_iff] at h
      simp [setContribs, repl, toCand, ih cs h]

theorem repl_proj (T : List Trip) (cs : List Int) (h : cs.length = T.length) :
    (repl T cs).map (fun t => t.2.2) = cs ∧ (repl T cs).map (fun t => t.2.1) = T.map (fun t => t.2.1) ∧
    (repl T cs).map (fun t => t.1) = T.map (fun t => t.1) := by
  induction T generalizing cs with
  | nil => cases cs <;> simp_all [repl]
  | cons t T ih =>
    cases cs with
    | nil => simp at h
    | cons c cs =>
      simp only [List.length_cons, Nat.add_right_cancel_iff] at h
      obtain ⟨h1, h2, h3⟩ := ih cs h
      simp [repl, h1, h2, h3]

end OptunaVerif.HsspIR
