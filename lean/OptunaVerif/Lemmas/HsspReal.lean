import Mathlib.Analysis.Complex.Exponential
import Mathlib.Tactic.FieldSimp
import Mathlib.Tactic.Linarith

namespace OptunaVerif.Hssp

/-- from the integer form of the greedy gap to the classical `1 - 1/e` statement -/
theorem one_sub_inv_e_of_gap (k : Nat) (hk : 1 ≤ k) (o g : Int) (ho : 0 ≤ o)
    (h : (k : Int) ^ k * (o - g) ≤ ((k : Int) - 1) ^ k * o) :
    (1 - Real.exp (-1)) * (o : ℝ) ≤ (g : ℝ) := by
  have hkpos : (0 : ℝ) < (k : ℝ) := by exact_mod_cast hk
  have h' : ((k : ℝ)) ^ k * ((o : ℝ) - g) ≤ ((k : ℝ) - 1) ^ k * o := by exact_mod_cast h
  have hpow : (0 : ℝ) < (k : ℝ) ^ k := pow_pos hkpos k
  have hle : ((1 : ℝ) - 1 / k) ^ k ≤ Real.exp (-1) :=
    Real.one_sub_div_pow_le_exp_neg (by exact_mod_cast hk)
  have heq : ((k : ℝ) - 1) ^ k = (k : ℝ) ^ k * (1 - 1 / k) ^ k := by
    rw [← mul_pow]; congr 1; field_simp
  rw [heq, mul_assoc] at h'
  have h2 : (o : ℝ) - g ≤ (1 - 1 / (k : ℝ)) ^ k * o := le_of_mul_le_mul_left h' hpow
  have ho' : (0 : ℝ) ≤ (o : ℝ) := by exact_mod_cast ho
  have h3 : (1 - 1 / (k : ℝ)) ^ k * o ≤ Real.exp (-1) * o := mul_le_mul_of_nonneg_right hle ho'
  linarith

end OptunaVerif.Hssp
