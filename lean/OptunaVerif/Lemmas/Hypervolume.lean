import OptunaVerif.Model.Hypervolume
import Mathlib.Data.Finset.NAry
import Mathlib.Data.Int.Interval
import Mathlib.Data.Finset.Card
import Mathlib.Data.List.Forall2
import Mathlib.Tactic.Ring
import Mathlib.Tactic.Linarith
import Mathlib.Data.Set.Card
import Mathlib.Data.List.Nodup

/-!
# Lemmas for C15 (hypervolume): the specification as a finite set of unit cells

`boxF p r` is the set of lattice cells `c` with `p ≤ c < r` (pointwise), `unionF r S` the union of the
boxes of the points of `S`; `hvSpec S r` is its cardinality = the dominated volume of a lattice point
set.  The WFG recursion of the model is proved equal to it for every dimension and every point list.
-/
namespace OptunaVerif.Hypervolume
open Finset List

def Le (p q : Pt) : Prop := List.Forall₂ (· ≤ ·) p q
def Lt (p q : Pt) : Prop := List.Forall₂ (· < ·) p q

def boxF : Pt → Pt → Finset Pt
  | a :: p, b :: r => Finset.image₂ List.cons (Finset.Ico a b) (boxF p r)
  | [], [] => {[]}
  | _, _ => ∅

theorem mem_boxF (p r c : Pt) : c ∈ boxF p r ↔ Le p c ∧ Lt c r := by
  induction p generalizing r c with
  | nil =>
    cases r with
    | nil => simp [boxF, Le, Lt]
    | cons b r => simp [boxF, Le, Lt]; intro h; subst h; simp
  | cons a p ih =>
    cases r with
    | nil => simp [boxF, Le, Lt]; intro h h2; subst h2; cases h
    | cons b r =>
      simp only [boxF, Finset.mem_image₂, Finset.mem_Ico, Le, Lt]
      constructor
      · rintro ⟨x, ⟨h1, h2⟩, c', hc', rfl⟩
        have := (ih r c').1 hc'
        exact ⟨Forall₂.cons h1 this.1, Forall₂.cons h2 this.2⟩
      · rintro ⟨h1, h2⟩
        cases h1 with
        | cons hx hp =>
          cases h2 with
          | cons hx2 hp2 =>
            exact ⟨_, ⟨hx, hx2⟩, _, (ih _ _).2 ⟨hp, hp2⟩, rfl⟩

theorem card_boxF (p r : Pt) (h : Le p r) : ((boxF p r).card : Int) = vol r p := by
  induction h with
  | nil => simp [boxF, vol]
  | cons hab _ ih =>
    rename_i a b p r
    simp only [boxF, vol]
    rw [Finset.card_image₂ (fun _ _ _ _ h => by simpa using h)]
    rw [Int.card_Ico]
    push_cast
    rw [ih, Int.toNat_of_nonneg (by linarith)]

theorem Le.refl (p : Pt) : Le p p := by
  induction p with
  | nil => exact Forall₂.nil
  | cons a p ih => exact Forall₂.cons (le_refl a) ih

theorem Le.trans {p q s : Pt} (h1 : Le p q) (h2 : Le q s) : Le p s := by
  induction h1 generalizing s with
  | nil => exact h2
  | cons hab _ ih =>
    cases h2 with
    | cons hbc h2' => exact Forall₂.cons (le_trans hab hbc) (ih h2')

theorem Le.length_eq {p q : Pt} (h : Le p q) : p.length = q.length := Forall₂.length_eq h

/-- `np.maximum` of two points below `r` is the join. -/
theorem le_pmax_iff {p q r : Pt} (hp : Le p r) (hq : Le q r) (c : Pt) :
    Le (pmax p q) c ↔ Le p c ∧ Le q c := by
  induction hp generalizing q c with
  | nil =>
    cases hq
    simp [pmax, Le]
  | cons hab _ ih =>
    cases hq with
    | cons hcb hq' =>
      cases c with
      | nil => simp [pmax, Le]
      | cons x c =>
        simp only [pmax, Le, forall₂_cons] at *
        rw [ih hq' c]
        constructor
        · rintro ⟨h1, h2, h3⟩
          exact ⟨⟨le_trans (le_max_left _ _) h1, h2⟩, ⟨le_trans (le_max_right _ _) h1, h3⟩⟩
        · rintro ⟨⟨h1, h2⟩, ⟨h3, h4⟩⟩
          exact ⟨max_le h1 h3, h2, h4⟩

theorem pmax_le {p q r : Pt} (hp : Le p r) (hq : Le q r) : Le (pmax p q) r :=
  (le_pmax_iff hp hq r).2 ⟨hp, hq⟩

theorem boxF_inter {p q r : Pt} (hp : Le p r) (hq : Le q r) :
    boxF p r ∩ boxF q r = boxF (pmax p q) r := by
  ext c
  simp only [Finset.mem_inter, mem_boxF, le_pmax_iff hp hq]
  tauto

/-- union of the boxes `[p, r)` of the points of `S` -/
def unionF (r : Pt) : List Pt → Finset Pt
  | [] => ∅
  | p :: S => boxF p r ∪ unionF r S

theorem mem_unionF (r : Pt) (S : List Pt) (c : Pt) :
    c ∈ unionF r S ↔ ∃ p ∈ S, Le p c ∧ Lt c r := by
  induction S with
  | nil => simp [unionF]
  | cons p S ih => simp [unionF, ih, mem_boxF]

theorem inter_unionF {p r : Pt} (hp : Le p r) (S : List Pt) (hS : ∀ q ∈ S, Le q r) :
    boxF p r ∩ unionF r S = unionF r (S.map (pmax p)) := by
  ext c
  simp only [Finset.mem_inter, mem_unionF, mem_boxF, List.mem_map]
  constructor
  · rintro ⟨⟨h1, h2⟩, q, hq, h3, _⟩
    exact ⟨_, ⟨q, hq, rfl⟩, (le_pmax_iff hp (hS q hq) c).2 ⟨h1, h3⟩, h2⟩
  · rintro ⟨_, ⟨q, hq, rfl⟩, h1, h2⟩
    have := (le_pmax_iff hp (hS q hq) c).1 h1
    exact ⟨⟨this.1, h2⟩, q, hq, this.2, h2⟩

/-- Removing weakly dominated points does not change the union of boxes. -/
theorem unionF_eq_of_cover (r : Pt) (S S' : List Pt) (hsub : ∀ p ∈ S', p ∈ S)
    (hcov : ∀ q ∈ S, ∃ p ∈ S', Le p q) : unionF r S' = unionF r S := by
  ext c
  simp only [mem_unionF]
  constructor
  · rintro ⟨p, hp, h⟩
    exact ⟨p, hsub p hp, h⟩
  · rintro ⟨q, hq, h1, h2⟩
    obtain ⟨p, hp, hpq⟩ := hcov q hq
    exact ⟨p, hp, hpq.trans h1, h2⟩

/-! ## the weakly-dominated filter -/

/-- sorted by column 0 ("quasi-lexsorted" in the source comments) -/
def Sorted0 (S : List Pt) : Prop := S.Pairwise (fun p q => x0 p ≤ x0 q)

theorem anyLt_false {q h r : Pt} (hq : Le q r) (hh : Le h r) (hf : anyLt q h = false) : Le h q := by
  induction hq generalizing h with
  | nil => cases hh; exact Forall₂.nil
  | cons hab _ ih =>
    cases hh with
    | cons hcb hh' =>
      simp only [anyLt, Bool.or_eq_false_iff, decide_eq_false_iff_not, not_lt] at hf
      exact Forall₂.cons hf.1 (ih hh' hf.2)

theorem Le.tail {p q : Pt} (h : Le p q) : Le p.tail q.tail := by
  cases h with
  | nil => exact Forall₂.nil
  | cons _ h => exact h

/-- a point weakly dominates another iff column 0 and the remaining columns do -/
theorem le_of_x0_tail {h q r : Pt} (hh : Le h r) (hq : Le q r) (h0 : x0 h ≤ x0 q)
    (ht : Le h.tail q.tail) : Le h q := by
  cases hh with
  | nil => cases hq; exact Forall₂.nil
  | cons _ _ =>
    cases hq with
    | cons _ _ => exact Forall₂.cons (by simpa [x0] using h0) ht

theorem frontNdFuel_irrelevant {α : Type} (key : α → Pt) :
    ∀ (n m : Nat) (l : List α), l.length ≤ n → l.length ≤ m → frontNdFuel key n l = frontNdFuel key m l := by
  intro n
  induction n with
  | zero =>
    intro m l hn _
    have : l = [] := by simpa using hn
    subst this
    cases m <;> simp [frontNdFuel]
  | succ n ih =>
    intro m l hn hm
    cases l with
    | nil => cases m <;> simp [frontNdFuel]
    | cons h t =>
      cases m with
      | zero => simp at hm
      | succ m =>
        simp only [frontNdFuel]
        congr 1
        have := List.length_filter_le (fun q => anyLt (key q).tail (key h).tail) t
        simp only [List.length_cons] at hn hm
        exact ih m _ (by omega) (by omega)

@[simp] theorem frontNd_nil {α : Type} (key : α → Pt) : frontNd key ([] : List α) = [] := rfl

theorem frontNd_cons {α : Type} (key : α → Pt) (h : α) (t : List α) :
    frontNd key (h :: t) = h :: frontNd key (t.filter (fun q => anyLt (key q).tail (key h).tail)) := by
  unfold frontNd
  simp only [List.length_cons, frontNdFuel]
  congr 1
  exact frontNdFuel_irrelevant key _ _ _ (List.length_filter_le _ _) (le_refl _)

theorem frontNd_sublist {α : Type} (key : α → Pt) (L : List α) : (frontNd key L).Sublist L := by
  induction hn : L.length using Nat.strong_induction_on generalizing L with
  | _ n ih =>
    cases L with
    | nil => simp
    | cons h t =>
      rw [frontNd_cons]
      subst hn
      exact Sublist.cons_cons h ((ih _ (Nat.lt_succ_of_le (List.length_filter_le _ _)) _ rfl).trans
        filter_sublist)

theorem frontNd_cover (r : Pt) (L : List Pt) (hL : ∀ q ∈ L, Le q r) (hs : Sorted0 L) :
    ∀ q ∈ L, ∃ p ∈ frontNd id L, Le p q := by
  induction hn : L.length using Nat.strong_induction_on generalizing L with
  | _ n ih =>
    cases L with
    | nil => intro q hq; cases hq
    | cons h t =>
      subst hn
      intro q hq
      rw [frontNd_cons]
      simp only [id] at *
      rcases List.mem_cons.1 hq with rfl | hqt
      · exact ⟨q, List.mem_cons_self, Le.refl q⟩
      · by_cases hf : anyLt q.tail h.tail = true
        · have hs' : Sorted0 (t.filter (fun q => anyLt q.tail h.tail)) :=
            (List.Pairwise.sublist filter_sublist (List.pairwise_cons.1 hs).2)
          obtain ⟨p, hp, hpq⟩ := ih _ (Nat.lt_succ_of_le (List.length_filter_le _ _)) _
            (fun q hq => hL q (List.mem_cons_of_mem _ (List.mem_filter.1 hq).1)) hs' rfl q
            (List.mem_filter.2 ⟨hqt, hf⟩)
          exact ⟨p, List.mem_cons_of_mem _ hp, hpq⟩
        · have hf' : anyLt q.tail h.tail = false := by simpa using hf
          have hh := hL h List.mem_cons_self
          have hq' := hL q hq
          refine ⟨h, List.mem_cons_self, le_of_x0_tail hh hq' ((List.pairwise_cons.1 hs).1 q hqt) ?_⟩
          exact anyLt_false hq'.tail hh.tail hf'

theorem front2dGo_sublist (m : Int) (L : List Pt) : (front2dGo id m L).Sublist L := by
  induction L generalizing m with
  | nil => exact Sublist.slnil
  | cons q t ih =>
    simp only [front2dGo]
    split
    · exact Sublist.cons_cons q (ih _)
    · exact Sublist.cons q (ih _)

theorem front2dGo_cover (m : Int) (L : List Pt) (hs : Sorted0 L) :
    ∀ q ∈ L, y1 q < m → ∃ p ∈ front2dGo id m L, x0 p ≤ x0 q ∧ y1 p ≤ y1 q := by
  induction L generalizing m with
  | nil => intro q hq; cases hq
  | cons q0 t ih =>
    intro q hq hqm
    have hs' := (List.pairwise_cons.1 hs)
    simp only [front2dGo, id]
    by_cases h0 : y1 q0 < m
    · simp only [h0, if_true]
      rcases List.mem_cons.1 hq with rfl | hqt
      · exact ⟨q, List.mem_cons_self, le_refl _, le_refl _⟩
      · by_cases h1 : y1 q < y1 q0
        · obtain ⟨p, hp, h⟩ := ih (y1 q0) hs'.2 q hqt h1
          exact ⟨p, List.mem_cons_of_mem _ hp, h⟩
        · exact ⟨q0, List.mem_cons_self, hs'.1 q hqt, not_lt.1 h1⟩
    · simp only [h0, if_false]
      rcases List.mem_cons.1 hq with rfl | hqt
      · exact absurd hqm h0
      · exact ih m hs'.2 q hqt hqm

theorem le_of_x0_y1 {p q r : Pt} (hr : r.length = 2) (hp : Le p r) (hq : Le q r)
    (h0 : x0 p ≤ x0 q) (h1 : y1 p ≤ y1 q) : Le p q := by
  match r, hr, p, hp, q, hq with
  | [_, _], _, [a, b], _, [c, d], _ =>
    exact Forall₂.cons (by simpa [x0] using h0) (Forall₂.cons (by simpa [y1] using h1) Forall₂.nil)

theorem le_of_x0 {p q r : Pt} (hr : r.length = 1) (hp : Le p r) (hq : Le q r)
    (h0 : x0 p ≤ x0 q) : Le p q := by
  match r, hr, p, hp, q, hq with
  | [_], _, [a], _, [c], _ =>
    exact Forall₂.cons (by simpa [x0] using h0) Forall₂.nil

theorem frontSorted_sublist (d : Nat) (L : List Pt) : (frontSorted id d L).Sublist L := by
  unfold frontSorted
  split
  · cases L with
    | nil => exact Sublist.slnil
    | cons h t => simp [front1d]
  · split
    · cases L with
      | nil => exact Sublist.slnil
      | cons h t => exact Sublist.cons_cons h (front2dGo_sublist _ _)
    · exact frontNd_sublist id L

/-- `filter_weakly_dominated`: every row of a column-0-sorted array is weakly dominated by a row that
`_is_pareto_front(…, assume_unique_lexsorted=True)` keeps (duplicates and unsorted ties included). -/
theorem frontSorted_cover (r : Pt) (L : List Pt) (hL : ∀ q ∈ L, Le q r) (hs : Sorted0 L) :
    ∀ q ∈ L, ∃ p ∈ frontSorted id r.length L, Le p q := by
  unfold frontSorted
  split
  · rename_i h1
    intro q hq
    cases L with
    | nil => cases hq
    | cons h t =>
      refine ⟨h, by simp [front1d], ?_⟩
      rcases List.mem_cons.1 hq with rfl | hqt
      · exact Le.refl _
      · exact le_of_x0 h1 (hL h List.mem_cons_self) (hL q hq) ((List.pairwise_cons.1 hs).1 q hqt)
  · split
    · rename_i _ h2
      intro q hq
      cases L with
      | nil => cases hq
      | cons h t =>
        simp only [front2d, id]
        rcases List.mem_cons.1 hq with rfl | hqt
        · exact ⟨q, List.mem_cons_self, Le.refl _⟩
        · by_cases h1 : y1 q < y1 h
          · obtain ⟨p, hp, hx, hy⟩ := front2dGo_cover (y1 h) t (List.pairwise_cons.1 hs).2 q hqt h1
            have hpt : p ∈ t := (front2dGo_sublist _ _).subset hp
            exact ⟨p, List.mem_cons_of_mem _ hp,
              le_of_x0_y1 h2 (hL p (List.mem_cons_of_mem _ hpt)) (hL q hq) hx hy⟩
          · exact ⟨h, List.mem_cons_self, le_of_x0_y1 h2 (hL h List.mem_cons_self) (hL q hq)
              ((List.pairwise_cons.1 hs).1 q hqt) (not_lt.1 h1)⟩
    · exact frontNd_cover r L hL hs

/-! ## the WFG recursion equals the specification -/

/-- dominated volume of a lattice point set = number of dominated unit cells below `r` -/
def hvSpec (S : List Pt) (r : Pt) : Nat := (unionF r S).card

theorem x0_pmax {p q r : Pt} (hp : Le p r) (hq : Le q r) : x0 (pmax p q) = max (x0 p) (x0 q) := by
  cases hp with
  | nil => cases hq; simp [pmax, x0]
  | cons _ _ => cases hq with | cons _ _ => simp [pmax, x0]

theorem sorted0_map_pmax {p r : Pt} (hp : Le p r) (S : List Pt) (hS : ∀ q ∈ S, Le q r)
    (hs : Sorted0 S) : Sorted0 (S.map (pmax p)) := by
  unfold Sorted0 at *
  rw [List.pairwise_map]
  refine hs.imp_of_mem ?_
  intro a b ha hb hab
  rw [x0_pmax hp (hS a ha), x0_pmax hp (hS b hb)]
  exact max_le_max (le_refl _) hab

theorem frontSorted_length_le (d : Nat) (L : List Pt) : (frontSorted id d L).length ≤ L.length :=
  (frontSorted_sublist d L).length_le

theorem exclusiveHv_eq (r : Pt) (rec : List Pt → Int) (p : Pt) (rest : List Pt)
    (hp : Le p r) (hrest : ∀ q ∈ rest, Le q r) (hs : Sorted0 rest)
    (hrec : ∀ L : List Pt, L.length ≤ rest.length → (∀ q ∈ L, Le q r) → Sorted0 L →
      rec L = (unionF r L).card) :
    exclusiveHv r.length rec (rest.map (pmax p)) (vol r p)
      = (boxF p r).card - (boxF p r ∩ unionF r rest).card := by
  have hlim : ∀ q ∈ rest.map (pmax p), Le q r := by
    intro q hq
    obtain ⟨q', hq', rfl⟩ := List.mem_map.1 hq
    exact pmax_le hp (hrest q' hq')
  have hslim := sorted0_map_pmax hp rest hrest hs
  unfold exclusiveHv
  rw [inter_unionF hp rest hrest, card_boxF p r hp]
  split
  · rename_i he
    have : rest = [] := by simpa using he
    subst this
    simp [unionF]
  · have hsub := frontSorted_sublist r.length (rest.map (pmax p))
    rw [hrec _ (by simpa using hsub.length_le) (fun q hq => hlim q (hsub.subset hq))
      (List.Pairwise.sublist hsub hslim)]
    rw [unionF_eq_of_cover r _ _ (fun q hq => hsub.subset hq)
      (frontSorted_cover r _ hlim hslim)]

theorem sumExcl_eq (r : Pt) (rec : List Pt → Int) (T : List Pt)
    (hT : ∀ q ∈ T, Le q r) (hs : Sorted0 T)
    (hrec : ∀ L : List Pt, L.length < T.length → (∀ q ∈ L, Le q r) → Sorted0 L →
      rec L = (unionF r L).card) :
    sumExcl r.length r rec T = (unionF r T).card := by
  induction T with
  | nil => simp [sumExcl, unionF]
  | cons p rest ih =>
    have hs' := List.pairwise_cons.1 hs
    have hrest : ∀ q ∈ rest, Le q r := fun q hq => hT q (List.mem_cons_of_mem _ hq)
    simp only [sumExcl, unionF]
    rw [exclusiveHv_eq r rec p rest (hT p List.mem_cons_self) hrest hs'.2
      (fun L hL => hrec L (by simpa using Nat.lt_succ_of_le hL))]
    rw [ih hrest hs'.2 (fun L hL => hrec L (by simp only [List.length_cons]; omega))]
    have := Finset.card_union_add_card_inter (boxF p r) (unionF r rest)
    omega

/-- The WFG recursion, with any sufficient budget, computes the number of dominated cells. -/
theorem hvFuel_eq_spec (r : Pt) (n : Nat) (S : List Pt) (hn : S.length ≤ n)
    (hS : ∀ q ∈ S, Le q r) (hs : Sorted0 S) :
    hvFuel r.length r n S = hvSpec S r := by
  induction n generalizing S with
  | zero =>
    have : S = [] := by simpa using hn
    subst this
    simp [hvFuel, hvSpec, unionF]
  | succ n ih =>
    unfold hvSpec
    match S, hn, hS, hs with
    | [], _, _, _ => simp [hvFuel, unionF]
    | [p], _, hS, _ =>
      simp only [hvFuel, unionF, Finset.union_empty]
      exact (card_boxF p r (hS p List.mem_cons_self)).symm
    | [p, q], _, hS, _ =>
      have hp := hS p List.mem_cons_self
      have hq := hS q (by simp)
      simp only [hvFuel, unionF, Finset.union_empty]
      rw [← card_boxF p r hp, ← card_boxF q r hq, ← card_boxF _ r (pmax_le hp hq), ← boxF_inter hp hq]
      have := Finset.card_union_add_card_inter (boxF p r) (boxF q r)
      omega
    | p :: q :: s :: t, hn, hS, hs =>
      simp only [hvFuel]
      exact sumExcl_eq r _ _ hS hs (fun L hL hL2 hL3 => ih L (by simp only [List.length_cons] at hn hL; omega) hL2 hL3)

theorem computeHv_eq_spec (r : Pt) (S : List Pt) (hS : ∀ q ∈ S, Le q r) (hs : Sorted0 S) :
    computeHv r.length r S = hvSpec S r :=
  hvFuel_eq_spec r _ S (le_refl _) hS hs

/-! ## the 2-D sweep -/

theorem le_two_right {p : Pt} {a b : Int} : Le p [a, b] ↔ ∃ x y, p = [x, y] ∧ x ≤ a ∧ y ≤ b := by
  constructor
  · intro h
    match p, h with
    | [x, y], h =>
      simp only [Le, forall₂_cons] at h
      exact ⟨x, y, rfl, h.1, h.2.1⟩
  · rintro ⟨x, y, rfl, h1, h2⟩
    exact Forall₂.cons h1 (Forall₂.cons h2 Forall₂.nil)

theorem lt_two_right {c : Pt} {a b : Int} : Lt c [a, b] ↔ ∃ x y, c = [x, y] ∧ x < a ∧ y < b := by
  constructor
  · intro h
    match c, h with
    | [x, y], h =>
      simp only [Lt, forall₂_cons] at h
      exact ⟨x, y, rfl, h.1, h.2.1⟩
  · rintro ⟨x, y, rfl, h1, h2⟩
    exact Forall₂.cons h1 (Forall₂.cons h2 Forall₂.nil)

theorem le_two {x y cx cy : Int} : Le [x, y] [cx, cy] ↔ x ≤ cx ∧ y ≤ cy := by
  simp [Le]

/-- the sweep with the running minimum: rows only need `x ≤ r0` (any second coordinate, any order of ties in
column 0, dominated rows and duplicates allowed) -/
theorem compute2dGo_eq (r0 : Int) (prevY : Int) (S : List Pt)
    (hS : ∀ p ∈ S, ∃ x y, p = [x, y] ∧ x ≤ r0) (hs : Sorted0 S) :
    compute2dGo r0 prevY S = (unionF [r0, prevY] S).card := by
  induction S generalizing prevY with
  | nil => simp [compute2dGo, unionF]
  | cons p t ih =>
    have hs' := List.pairwise_cons.1 hs
    obtain ⟨x, y, rfl, hx⟩ := hS p List.mem_cons_self
    have ht : ∀ q ∈ t, ∃ x y, q = [x, y] ∧ x ≤ r0 := fun q hq => hS q (List.mem_cons_of_mem _ hq)
    simp only [compute2dGo, unionF, x0, y1, List.headD_cons, List.tail_cons]
    rw [ih (min prevY y) ht hs'.2]
    have hmin : min prevY y ≤ prevY := min_le_left _ _
    have hbox : boxF [x, y] [r0, prevY] = boxF [x, min prevY y] [r0, prevY] := by
      ext c
      simp only [mem_boxF]
      constructor
      · rintro ⟨h1, h2⟩
        obtain ⟨cx, cy, rfl, _, _⟩ := lt_two_right.1 h2
        have := le_two.1 h1
        exact ⟨le_two.2 ⟨this.1, le_trans (min_le_right _ _) this.2⟩, h2⟩
      · rintro ⟨h1, h2⟩
        obtain ⟨cx, cy, rfl, _, hcy⟩ := lt_two_right.1 h2
        have := le_two.1 h1
        refine ⟨le_two.2 ⟨this.1, ?_⟩, h2⟩
        rcases le_total prevY y with h | h
        · rw [min_eq_left h] at this; omega
        · rw [min_eq_right h] at this; exact this.2
    have hunion : boxF [x, y] [r0, prevY] ∪ unionF [r0, prevY] t
        = boxF [x, min prevY y] [r0, prevY] ∪ unionF [r0, min prevY y] t := by
      rw [hbox]
      ext c
      simp only [Finset.mem_union, mem_unionF, mem_boxF]
      constructor
      · rintro (h | ⟨q, hq, hqc, hc⟩)
        · exact Or.inl h
        · obtain ⟨cx, cy, rfl, hcx, hcy⟩ := lt_two_right.1 hc
          obtain ⟨qx, qy, rfl, _⟩ := ht q hq
          have hqc' := le_two.1 hqc
          by_cases hlow : cy < min prevY y
          · exact Or.inr ⟨_, hq, hqc, lt_two_right.2 ⟨cx, cy, rfl, hcx, hlow⟩⟩
          · have h0 := hs'.1 _ hq
            simp only [x0, List.headD_cons] at h0
            exact Or.inl ⟨le_two.2 ⟨le_trans h0 hqc'.1, not_lt.1 hlow⟩, hc⟩
      · rintro (h | ⟨q, hq, hqc, hc⟩)
        · exact Or.inl h
        · obtain ⟨cx, cy, rfl, hcx, hcy⟩ := lt_two_right.1 hc
          exact Or.inr ⟨q, hq, hqc, lt_two_right.2 ⟨cx, cy, rfl, hcx, lt_of_lt_of_le hcy hmin⟩⟩
    have hdisj : Disjoint (boxF [x, min prevY y] [r0, prevY]) (unionF [r0, min prevY y] t) := by
      rw [Finset.disjoint_left]
      intro c hc1 hc2
      simp only [mem_unionF, mem_boxF] at hc1 hc2
      obtain ⟨q, _, _, hc⟩ := hc2
      obtain ⟨cx, cy, rfl, _, hcy⟩ := lt_two_right.1 hc
      have := (le_two.1 hc1.1).2
      omega
    rw [hunion, Finset.card_union_of_disjoint hdisj]
    have := card_boxF [x, min prevY y] [r0, prevY] (le_two.2 ⟨hx, hmin⟩)
    simp only [vol, mul_one] at this
    push_cast
    rw [this]

/-- `_compute_2d` (running minimum) on rows `≤ r` sorted by column 0 — in ANY order of the ties in column 0, with
dominated rows and duplicates — is the dominated area. -/
theorem compute2d_eq_spec' (r : Pt) (hr : r.length = 2) (S : List Pt)
    (hS : ∀ p ∈ S, Le p r) (hs : Sorted0 S) :
    compute2d r S = hvSpec S r := by
  match r, hr with
  | [r0, r1], _ =>
    have hS' : ∀ p ∈ S, ∃ x y, p = [x, y] ∧ x ≤ r0 := by
      intro p hp
      obtain ⟨x, y, rfl, hx, _⟩ := le_two_right.1 (hS p hp)
      exact ⟨x, y, rfl, hx⟩
    have hgo : compute2d [r0, r1] S = compute2dGo r0 r1 S := by
      cases S with
      | nil => rfl
      | cons p t =>
        obtain ⟨x, y, rfl, _, hy⟩ := le_two_right.1 (hS p List.mem_cons_self)
        simp only [compute2d, compute2dGo, x0, y1, List.headD_cons, List.tail_cons, min_eq_right hy]
    rw [hgo]
    simp only [hvSpec]
    exact compute2dGo_eq r0 r1 S hS' hs

/-! ## `np.unique(axis=0)` and the column-0 sort -/

theorem lexLt_irrefl (a : Pt) : lexLt a a = false := by
  induction a with
  | nil => rfl
  | cons x a ih => simp [lexLt, ih]

theorem lexLt_trans {a b c : Pt} (h1 : lexLt a b = true) (h2 : lexLt b c = true) : lexLt a c = true := by
  induction a generalizing b c with
  | nil => cases b <;> simp [lexLt] at h1
  | cons x a ih =>
    cases b with
    | nil => simp [lexLt] at h1
    | cons y b =>
      cases c with
      | nil => simp [lexLt] at h2
      | cons z c =>
        simp only [lexLt, Bool.or_eq_true, decide_eq_true_eq, Bool.and_eq_true, beq_iff_eq] at *
        rcases h1 with h1 | ⟨rfl, h1⟩
        · rcases h2 with h2 | ⟨rfl, h2⟩
          · exact Or.inl (lt_trans h1 h2)
          · exact Or.inl h1
        · rcases h2 with h2 | ⟨rfl, h2⟩
          · exact Or.inl h2
          · exact Or.inr ⟨rfl, ih h1 h2⟩

theorem lexLt_total {a b : Pt} (hl : a.length = b.length) (h1 : lexLt a b = false) (hne : a ≠ b) :
    lexLt b a = true := by
  induction a generalizing b with
  | nil => cases b with
    | nil => exact absurd rfl hne
    | cons _ _ => simp at hl
  | cons x a ih =>
    cases b with
    | nil => simp at hl
    | cons y b =>
      simp only [lexLt, Bool.or_eq_false_iff, decide_eq_false_iff_not, not_lt, Bool.and_eq_false_imp,
        beq_iff_eq, Bool.or_eq_true, decide_eq_true_eq, Bool.and_eq_true] at *
      rcases lt_or_eq_of_le h1.1 with h | h
      · exact Or.inl h
      · subst h
        refine Or.inr ⟨rfl, ih (by simpa using hl) (h1.2 rfl) ?_⟩
        intro hab; exact hne (by rw [hab])

theorem lexLt_x0 {a b : Pt} (h : lexLt a b = true) : x0 a ≤ x0 b := by
  cases a with
  | nil => cases b <;> simp [lexLt] at h
  | cons x a =>
    cases b with
    | nil => simp [lexLt] at h
    | cons y b =>
      simp only [lexLt, Bool.or_eq_true, decide_eq_true_eq, Bool.and_eq_true, beq_iff_eq] at h
      simp only [x0, List.headD_cons]
      rcases h with h | ⟨h, _⟩
      · exact le_of_lt h
      · exact le_of_eq h

/-- a lexicographically later row never weakly dominates an earlier one -/
theorem lexLt_not_le {a b : Pt} (h : lexLt a b = true) : ¬ Le b a := by
  induction a generalizing b with
  | nil => cases b <;> simp [lexLt] at h
  | cons x a ih =>
    cases b with
    | nil => simp [lexLt] at h
    | cons y b =>
      simp only [lexLt, Bool.or_eq_true, decide_eq_true_eq, Bool.and_eq_true, beq_iff_eq] at h
      intro hle
      cases hle with
      | cons hyx hle' =>
        rcases h with h | ⟨_, h⟩
        · omega
        · exact ih h hle'

theorem mem_insertLex (p : Pt) (L : List Pt) (q : Pt) : q ∈ insertLex p L ↔ q = p ∨ q ∈ L := by
  induction L with
  | nil => simp [insertLex]
  | cons a t ih =>
    simp only [insertLex]
    split
    · simp
    · split
      · rename_i h
        have : p = a := by simpa using h
        subst this
        simp
      · simp only [List.mem_cons, ih]
        tauto

theorem mem_uniqueLex (S : List Pt) (q : Pt) : q ∈ uniqueLex S ↔ q ∈ S := by
  induction S with
  | nil => simp [uniqueLex]
  | cons p S ih =>
    have : uniqueLex (p :: S) = insertLex p (uniqueLex S) := rfl
    rw [this, mem_insertLex, ih]
    simp

/-- strictly increasing in the lexicographic order (so: sorted and duplicate free) -/
def LexSorted (L : List Pt) : Prop := L.Pairwise (fun p q => lexLt p q = true)

theorem lexSorted_insertLex (d : Nat) (p : Pt) (hp : p.length = d) (L : List Pt)
    (hL : ∀ q ∈ L, q.length = d) (hs : LexSorted L) : LexSorted (insertLex p L) := by
  induction L with
  | nil => simp [insertLex, LexSorted]
  | cons a t ih =>
    have hs' := List.pairwise_cons.1 hs
    simp only [insertLex]
    split
    · rename_i hlt
      refine List.pairwise_cons.2 ⟨?_, hs⟩
      intro q hq
      rcases List.mem_cons.1 hq with rfl | hq
      · exact hlt
      · exact lexLt_trans hlt (hs'.1 q hq)
    · rename_i hnlt
      split
      · exact hs
      · rename_i hne
        refine List.pairwise_cons.2 ⟨?_, ih (fun q hq => hL q (List.mem_cons_of_mem _ hq)) hs'.2⟩
        intro q hq
        rcases (mem_insertLex p t q).1 hq with rfl | hq
        · exact lexLt_total (by rw [hp, hL a List.mem_cons_self]) (by simpa using hnlt)
            (by simpa using hne)
        · exact hs'.1 q hq

theorem lexSorted_uniqueLex (d : Nat) (S : List Pt) (hS : ∀ q ∈ S, q.length = d) :
    LexSorted (uniqueLex S) := by
  induction S with
  | nil => simp [uniqueLex, LexSorted]
  | cons p S ih =>
    have : uniqueLex (p :: S) = insertLex p (uniqueLex S) := rfl
    rw [this]
    exact lexSorted_insertLex d p (hS p List.mem_cons_self) _
      (fun q hq => hS q (List.mem_cons_of_mem _ ((mem_uniqueLex S q).1 hq)))
      (ih (fun q hq => hS q (List.mem_cons_of_mem _ hq)))

theorem LexSorted.sorted0 {L : List Pt} (h : LexSorted L) : Sorted0 L :=
  List.Pairwise.imp (fun h => lexLt_x0 h) h

theorem mem_insert0 (p : Pt) (L : List Pt) (q : Pt) : q ∈ insert0 p L ↔ q = p ∨ q ∈ L := by
  induction L with
  | nil => simp [insert0]
  | cons a t ih =>
    simp only [insert0]
    split
    · simp
    · simp only [List.mem_cons, ih]; tauto

theorem mem_sort0 (S : List Pt) (q : Pt) : q ∈ sort0 S ↔ q ∈ S := by
  induction S with
  | nil => simp [sort0]
  | cons p S ih =>
    have : sort0 (p :: S) = insert0 p (sort0 S) := rfl
    rw [this, mem_insert0, ih]; simp

theorem sorted0_insert0 (p : Pt) (L : List Pt) (hs : Sorted0 L) : Sorted0 (insert0 p L) := by
  induction L with
  | nil => simp [insert0, Sorted0]
  | cons a t ih =>
    have hs' := List.pairwise_cons.1 hs
    simp only [insert0]
    split
    · rename_i hle
      refine List.pairwise_cons.2 ⟨?_, hs⟩
      intro q hq
      rcases List.mem_cons.1 hq with rfl | hq
      · exact hle
      · exact le_trans hle (hs'.1 q hq)
    · rename_i hnle
      refine List.pairwise_cons.2 ⟨?_, ih hs'.2⟩
      intro q hq
      rcases (mem_insert0 p t q).1 hq with rfl | hq
      · exact le_of_lt (not_le.1 hnle)
      · exact hs'.1 q hq

theorem sorted0_sort0 (S : List Pt) : Sorted0 (sort0 S) := by
  induction S with
  | nil => simp [sort0, Sorted0]
  | cons p S ih => exact sorted0_insert0 p _ ih

theorem unionF_congr (r : Pt) (S S' : List Pt) (h : ∀ q, q ∈ S' ↔ q ∈ S) : unionF r S' = unionF r S :=
  unionF_eq_of_cover r S S' (fun p hp => (h p).1 hp) (fun q hq => ⟨q, (h q).2 hq, Le.refl q⟩)

/-! ## `compute_hypervolume`, finite core -/

/-- no row weakly dominates a different row (duplicates allowed): what `assume_pareto=True` assumes -/
def Antichain (S : List Pt) : Prop := ∀ p ∈ S, ∀ q ∈ S, Le p q → p = q

/-- `compute_hypervolume` on finite inputs that passed the reference-point check, default path:
exact for every dimension and every point list. -/
theorem computeHypervolumeFin_eq_spec (S : List Pt) (r : Pt) (hS : ∀ p ∈ S, Le p r) :
    computeHypervolumeFin S r false = hvSpec S r := by
  have hU : ∀ p ∈ uniqueLex S, Le p r := fun p hp => hS p ((mem_uniqueLex S p).1 hp)
  have hsU : Sorted0 (uniqueLex S) :=
    (lexSorted_uniqueLex r.length S (fun q hq => (hS q hq).length_eq)).sorted0
  have hsub := frontSorted_sublist r.length (uniqueLex S)
  have hF : ∀ p ∈ frontSorted id r.length (uniqueLex S), Le p r := fun p hp => hU p (hsub.subset hp)
  have hsF : Sorted0 (frontSorted id r.length (uniqueLex S)) := List.Pairwise.sublist hsub hsU
  have hun : unionF r (frontSorted id r.length (uniqueLex S)) = unionF r S := by
    rw [unionF_eq_of_cover r _ _ (fun q hq => hsub.subset hq) (frontSorted_cover r _ hU hsU)]
    exact unionF_congr r S _ (mem_uniqueLex S)
  simp only [computeHypervolumeFin, Bool.false_eq_true, if_false]
  split
  · rename_i h2
    rw [compute2d_eq_spec' r h2 _ hF hsF]
    simp only [hvSpec, hun]
  · rw [computeHv_eq_spec r _ hF hsF]
    simp only [hvSpec, hun]

/-- `assume_pareto=True`: exact in every dimension whatever the input (2-D: the sweep takes the running minimum) -/
theorem computeHypervolumeFin_assumePareto_eq_spec_all (S : List Pt) (r : Pt) (hS : ∀ p ∈ S, Le p r) :
    computeHypervolumeFin S r true = hvSpec S r := by
  have hL : ∀ p ∈ sort0 S, Le p r := fun p hp => hS p ((mem_sort0 S p).1 hp)
  simp only [computeHypervolumeFin, if_true]
  split
  · rename_i hd
    rw [compute2d_eq_spec' r hd _ hL (sorted0_sort0 S)]
    simp only [hvSpec, unionF_congr r S _ (mem_sort0 S)]
  · rw [computeHv_eq_spec r _ hL (sorted0_sort0 S)]
    simp only [hvSpec, unionF_congr r S _ (mem_sort0 S)]

/-- (signature kept for `Lemmas/Hssp.lean`) -/
theorem computeHypervolumeFin_assumePareto_eq_spec (S : List Pt) (r : Pt) (hS : ∀ p ∈ S, Le p r)
    (_hd : r.length ≠ 2) : computeHypervolumeFin S r true = hvSpec S r :=
  computeHypervolumeFin_assumePareto_eq_spec_all S r hS

/-- the 2-D sweep does not depend on the order `argsort` gives to rows with equal first coordinate -/
theorem compute2d_any_tie_order (r : Pt) (hr : r.length = 2) (S S' : List Pt) (hS : ∀ p ∈ S, Le p r)
    (hp : S'.Perm S) (hs : Sorted0 S') : compute2d r S' = hvSpec S r := by
  rw [compute2d_eq_spec' r hr S' (fun p h => hS p (hp.subset h)) hs]
  simp only [hvSpec]
  rw [unionF_congr r S S' (fun p => ⟨fun h => hp.subset h, fun h => hp.symm.subset h⟩)]

/-! ## fuel is irrelevant; the recursion equations of `_compute_hv` -/

theorem sumExcl_congr (d : Nat) (r : Pt) (rec1 rec2 : List Pt → Int) (T : List Pt)
    (h : ∀ L : List Pt, L.length < T.length → rec1 L = rec2 L) :
    sumExcl d r rec1 T = sumExcl d r rec2 T := by
  induction T with
  | nil => rfl
  | cons p rest ih =>
    simp only [sumExcl, exclusiveHv]
    rw [ih (fun L hL => h L (by simp only [List.length_cons]; omega))]
    congr 1
    split
    · rfl
    · rw [h _ (by
        have := frontSorted_length_le d (rest.map (pmax p))
        simp only [List.length_map] at this
        simp only [List.length_cons]; omega)]

theorem hvFuel_fuel_irrelevant (d : Nat) (r : Pt) :
    ∀ (n m : Nat) (S : List Pt), S.length ≤ n → S.length ≤ m → hvFuel d r n S = hvFuel d r m S := by
  intro n
  induction n with
  | zero =>
    intro m S hn _
    have : S = [] := by simpa using hn
    subst this
    cases m <;> simp [hvFuel]
  | succ n ih =>
    intro m S hn hm
    cases m with
    | zero =>
      have : S = [] := by simpa using hm
      subst this
      simp [hvFuel]
    | succ m =>
      match S, hn, hm with
      | [], _, _ => simp [hvFuel]
      | [p], _, _ => simp [hvFuel]
      | [p, q], _, _ => simp [hvFuel]
      | p :: q :: s :: t, hn, hm =>
        simp only [hvFuel]
        apply sumExcl_congr
        intro L hL
        simp only [List.length_cons] at hn hm hL
        exact ih m L (by omega) (by omega)

/-- `computeHv` satisfies the recursion of `_compute_hv` literally (no budget involved). -/
theorem computeHv_unfold (d : Nat) (r : Pt) (S : List Pt) :
    computeHv d r S =
      match S with
      | [] => 0
      | [p] => vol r p
      | [p, q] => vol r p + vol r q - vol r (pmax p q)
      | _ => sumExcl d r (computeHv d r) S := by
  match S with
  | [] => simp [computeHv, hvFuel]
  | [p] => simp [computeHv, hvFuel]
  | [p, q] => simp [computeHv, hvFuel]
  | p :: q :: s :: t =>
    simp only [computeHv, List.length_cons, hvFuel]
    apply sumExcl_congr
    intro L hL
    simp only [List.length_cons] at hL
    show hvFuel d r (t.length + 1 + 1) L = hvFuel d r L.length L
    exact hvFuel_fuel_irrelevant d r (t.length + 1 + 1) L.length L (by omega) (le_refl _)

/-! ## the specification as the cardinality of the obviously right set -/

theorem hvSpec_eq_ncard (S : List Pt) (r : Pt) :
    hvSpec S r = Set.ncard {c : Pt | Lt c r ∧ ∃ p ∈ S, Le p c} := by
  have : {c : Pt | Lt c r ∧ ∃ p ∈ S, Le p c} = ↑(unionF r S) := by
    ext c
    simp only [Set.mem_ofPred_eq, Finset.mem_coe, mem_unionF]
    constructor
    · rintro ⟨h1, p, hp, h2⟩; exact ⟨p, hp, h2, h1⟩
    · rintro ⟨p, hp, h2, h1⟩; exact ⟨h1, p, hp, h2⟩
  rw [this, Set.ncard_coe_finset]
  rfl

/-! ## `compute_hypervolume` with special values -/

def liftPt (p : Pt) : List EInt := p.map EInt.fin

theorem allLeE_lift (p r : Pt) : allLeE (liftPt p) (liftPt r) = true ↔ Le p r := by
  induction p generalizing r with
  | nil => cases r <;> simp [liftPt, allLeE, Le]
  | cons a p ih =>
    cases r with
    | nil => simp [liftPt, allLeE, Le]
    | cons b r =>
      simp only [liftPt, List.map_cons, allLeE, EInt.le, Bool.and_eq_true, decide_eq_true_eq, Le,
        forall₂_cons] at *
      rw [ih r]

theorem lift_all_finite (p : Pt) : (liftPt p).all EInt.isFinite = true := by
  simp [liftPt, EInt.isFinite]

theorem lift_toInt (p : Pt) : (liftPt p).map EInt.toInt = p := by
  simp [liftPt, Function.comp_def, EInt.toInt]

theorem all_allLeE_lift (S : List Pt) (r : Pt) :
    (S.map liftPt).all (fun p => allLeE p (liftPt r)) = true ↔ ∀ p ∈ S, Le p r := by
  simp only [List.all_map, List.all_eq_true, Function.comp_apply, allLeE_lift]

theorem allLt_iff (p r : Pt) : allLt p r = true ↔ Lt p r := by
  induction p generalizing r with
  | nil => cases r <;> simp [allLt, Lt]
  | cons a p ih =>
    cases r with
    | nil => simp [allLt, Lt]
    | cons b r => simp only [allLt, Bool.and_eq_true, decide_eq_true_eq, Lt, forall₂_cons, ih r]

theorem allLtE_lift (p r : Pt) : allLtE (liftPt p) (liftPt r) = allLt p r := by
  induction p generalizing r with
  | nil => cases r <;> simp [liftPt, allLtE, allLt]
  | cons a p ih =>
    cases r with
    | nil => simp [liftPt, allLtE, allLt]
    | cons b r =>
      have := ih r
      simp only [liftPt, List.map_cons] at this ⊢
      simp only [allLtE, allLt, this, EInt.lt, EInt.le]
      congr 1
      by_cases h : a < b
      · simp [h, le_of_lt h, not_le.2 h]
      · have h' : b ≤ a := not_lt.1 h
        simp [h, h']

theorem filter_lift (S : List Pt) (r : Pt) :
    (S.map liftPt).filter (fun p => allLtE p (liftPt r)) = (dropTouching S r).map liftPt := by
  induction S with
  | nil => rfl
  | cons p S ih =>
    simp only [List.map_cons, List.filter_cons, dropTouching, allLtE_lift] at ih ⊢
    split <;> simp [ih]

/-- a row that touches the reference point dominates no cell: dropping such rows does not change the dominated set -/
theorem unionF_dropTouching (S : List Pt) (r : Pt) : unionF r (dropTouching S r) = unionF r S := by
  ext c
  simp only [mem_unionF, dropTouching, List.mem_filter, allLt_iff]
  constructor
  · rintro ⟨p, ⟨hp, _⟩, h⟩
    exact ⟨p, hp, h⟩
  · rintro ⟨p, hp, h1, h2⟩
    refine ⟨p, ⟨hp, ?_⟩, h1, h2⟩
    -- `p ≤ c < r` coordinatewise
    clear hp
    induction h1 generalizing r with
    | nil => cases h2; exact Forall₂.nil
    | cons hab _ ih =>
      cases h2 with
      | cons hbc h2 => exact Forall₂.cons (lt_of_le_of_lt hab hbc) (ih _ h2)

theorem hvSpec_dropTouching (S : List Pt) (r : Pt) : hvSpec (dropTouching S r) r = hvSpec S r := by
  simp only [hvSpec, unionF_dropTouching]

/-- finite inputs that pass the reference check: the rows touching the reference point are dropped, nothing left
gives 0, otherwise the finite core runs on the remaining rows … -/
theorem computeHypervolume_lift (S : List Pt) (r : Pt) (ap : Bool) (h : ∀ p ∈ S, Le p r) :
    computeHypervolume (S.map liftPt) (liftPt r) ap =
      HvOut.fin (if (dropTouching S r).isEmpty then 0 else computeHypervolumeFin (dropTouching S r) r ap) := by
  unfold computeHypervolume
  have h2 : ((dropTouching S r).map liftPt).any (fun p => p.any (fun c => !c.isFinite)) = false := by
    simp only [List.any_map, List.any_eq_false, Function.comp_apply, Bool.not_eq_true]
    intro p _
    simp [liftPt, EInt.isFinite]
  have h3 : ((dropTouching S r).map liftPt).map (·.map EInt.toInt) = dropTouching S r := by
    simp only [List.map_map]
    conv => rhs; rw [← List.map_id (dropTouching S r)]
    apply List.map_congr_left
    intro p _
    simp [lift_toInt]
  simp only [(all_allLeE_lift S r).2 h, lift_all_finite, filter_lift, h2, h3, lift_toInt, Bool.not_true,
    Bool.false_eq_true, if_false, List.isEmpty_map]
  split <;> rfl

theorem computeHypervolume_lift_error (S : List Pt) (r : Pt) (ap : Bool) (h : ¬ ∀ p ∈ S, Le p r) :
    computeHypervolume (S.map liftPt) (liftPt r) ap = HvOut.error := by
  unfold computeHypervolume
  have : (S.map liftPt).all (fun p => allLeE p (liftPt r)) = false := by
    by_contra hc
    exact h ((all_allLeE_lift S r).1 (by simpa using hc))
  simp [this]

/-- … so `compute_hypervolume` is exact on finite inputs that pass the check, with and without `assume_pareto`,
rows touching the reference point included -/
theorem computeHypervolume_eq_spec (S : List Pt) (r : Pt) (ap : Bool) (h : ∀ p ∈ S, Le p r) :
    computeHypervolume (S.map liftPt) (liftPt r) ap = HvOut.fin (hvSpec S r) := by
  rw [computeHypervolume_lift S r ap h]
  have hD : ∀ p ∈ dropTouching S r, Le p r := fun p hp => h p (List.mem_filter.1 hp).1
  congr 1
  split
  · rename_i he
    rw [← hvSpec_dropTouching, List.isEmpty_iff.1 he]
    simp [hvSpec, unionF]
  · cases ap
    · rw [computeHypervolumeFin_eq_spec _ r hD, hvSpec_dropTouching]
    · rw [computeHypervolumeFin_assumePareto_eq_spec_all _ r hD, hvSpec_dropTouching]

theorem EInt.lt_of_le_ne {a b : EInt} (h : a.le b = true) (hne : a ≠ b) : a.lt b = true := by
  cases a <;> cases b <;> simp_all [EInt.lt, EInt.le]
  omega

theorem allLtE_of_forall₂ {p r : List EInt} (h : List.Forall₂ (fun a b => a.le b = true ∧ a ≠ b) p r) :
    allLtE p r = true := by
  induction h with
  | nil => rfl
  | cons hab _ ih => simp [allLtE, EInt.lt_of_le_ne hab.1 hab.2, ih]

/-! ## the driver's brute-force cell count is the specification -/

theorem allLe_iff (p c : Pt) : allLe p c = true ↔ Le p c := by
  induction p generalizing c with
  | nil => cases c <;> simp [allLe, Le]
  | cons a p ih =>
    cases c with
    | nil => simp [allLe, Le]
    | cons b c => simp only [allLe, Bool.and_eq_true, decide_eq_true_eq, Le, forall₂_cons] at *; rw [ih c]

theorem mem_cellsBetween (lo r c : Pt) : c ∈ cellsBetween lo r ↔ Le lo c ∧ Lt c r := by
  induction lo generalizing r c with
  | nil =>
    cases r with
    | nil => simp [cellsBetween, Le, Lt]
    | cons b r => simp [cellsBetween, Le, Lt]; intro h; subst h; simp
  | cons a lo ih =>
    cases r with
    | nil => simp [cellsBetween, Le, Lt]; intro h h2; subst h2; cases h
    | cons b r =>
      simp only [cellsBetween, List.mem_flatMap, List.mem_range, List.mem_map, ih, Le, Lt]
      constructor
      · rintro ⟨k, hk, c', ⟨h1, h2⟩, rfl⟩
        refine ⟨Forall₂.cons (by omega) h1, Forall₂.cons ?_ h2⟩
        have : (k : Int) < (b - a).toNat := by exact_mod_cast hk
        omega
      · rintro ⟨h1, h2⟩
        cases h1 with
        | cons hx hp =>
          cases h2 with
          | cons hx2 hp2 =>
            rename_i x c'
            refine ⟨(x - a).toNat, ?_, c', ⟨hp, hp2⟩, ?_⟩
            · omega
            · congr 1; omega

theorem nodup_cellsBetween (lo r : Pt) : (cellsBetween lo r).Nodup := by
  induction lo generalizing r with
  | nil => cases r <;> simp [cellsBetween]
  | cons a lo ih =>
    cases r with
    | nil => simp [cellsBetween]
    | cons b r =>
      simp only [cellsBetween]
      rw [List.nodup_flatMap]
      refine ⟨fun k _ => (ih r).map (fun c c' h => by simpa using h), ?_⟩
      refine List.Pairwise.imp_of_mem ?_ (List.nodup_range (n := (b - a).toNat))
      intro k k' _ _ hne
      simp only [Function.onFun, List.disjoint_left, List.mem_map]
      rintro c ⟨c1, _, rfl⟩ ⟨c2, _, h⟩
      simp only [List.cons.injEq] at h
      exact hne (by omega)

theorem pmin_le_left {p q : Pt} (h : p.length = q.length) : Le (pmin p q) p := by
  induction p generalizing q with
  | nil => cases q with
    | nil => exact Forall₂.nil
    | cons _ _ => simp at h
  | cons a p ih =>
    cases q with
    | nil => simp at h
    | cons b q => exact Forall₂.cons (min_le_left _ _) (ih (by simpa using h))

theorem pmin_le_right {p q : Pt} (h : p.length = q.length) : Le (pmin p q) q := by
  induction p generalizing q with
  | nil => cases q with
    | nil => exact Forall₂.nil
    | cons _ _ => simp at h
  | cons a p ih =>
    cases q with
    | nil => simp at h
    | cons b q => exact Forall₂.cons (min_le_right _ _) (ih (by simpa using h))

theorem foldl_pmin_le (S : List Pt) (acc r : Pt) (hacc : acc.length = r.length) (hS : ∀ p ∈ S, Le p r) :
    Le (S.foldl pmin acc) acc ∧ ∀ p ∈ S, Le (S.foldl pmin acc) p := by
  induction S generalizing acc with
  | nil => exact ⟨Le.refl _, fun p hp => by cases hp⟩
  | cons q S ih =>
    have hq := hS q List.mem_cons_self
    have hl : acc.length = q.length := by rw [hacc, hq.length_eq]
    have hl2 : (pmin acc q).length = r.length := by
      have := (pmin_le_left hl).length_eq; omega
    obtain ⟨h1, h2⟩ := ih (pmin acc q) hl2 (fun p hp => hS p (List.mem_cons_of_mem _ hp))
    simp only [List.foldl_cons]
    refine ⟨h1.trans (pmin_le_left hl), ?_⟩
    intro p hp
    rcases List.mem_cons.1 hp with rfl | hp
    · exact h1.trans (pmin_le_right hl)
    · exact h2 p hp

/-- The executable brute force used by the driver (`hvBrute`: enumerate the cells of the bounding box, count
the dominated ones) computes `hvSpec`. -/
theorem hvBrute_eq_spec (S : List Pt) (r : Pt) (hS : ∀ p ∈ S, Le p r) : hvBrute S r = hvSpec S r := by
  unfold hvBrute hvSpec
  simp only
  set lo := S.foldl pmin r with hlo
  obtain ⟨_, hlo2⟩ := foldl_pmin_le S r r rfl hS
  rw [← hlo] at hlo2
  have hnd := (nodup_cellsBetween lo r).filter (fun c => S.any (fun p => allLe p c))
  rw [← List.toFinset_card_of_nodup hnd]
  congr 1
  ext c
  simp only [List.mem_toFinset, List.mem_filter, mem_cellsBetween, List.any_eq_true, allLe_iff, mem_unionF]
  constructor
  · rintro ⟨⟨_, h2⟩, p, hp, h3⟩
    exact ⟨p, hp, h3, h2⟩
  · rintro ⟨p, hp, h3, h2⟩
    exact ⟨⟨(hlo2 p hp).trans h3, h2⟩, p, hp, h3⟩

end OptunaVerif.Hypervolume
