import OptunaVerif.Model.InMemoryCursor
/-! The WAITING cursor of InMemoryStorage never hides a WAITING trial. -/
namespace OptunaVerif.InMemoryCursor
open OptunaVerif

theorem waitingFrom_append (l1 l2 : List TState) (i : Nat) :
    waitingFrom (l1 ++ l2) i = waitingFrom l1 i ++ waitingFrom l2 (i + l1.length) := by
  induction l1 generalizing i with
  | nil => simp [waitingFrom]
  | cons a r ih =>
    simp only [List.cons_append, waitingFrom, List.length_cons]
    have e : i + 1 + r.length = i + (r.length + 1) := by omega
    split <;> simp [ih (i + 1), e]

theorem waitingFrom_nil_iff (l : List TState) (i : Nat) :
    waitingFrom l i = [] ↔ ∀ (j : Nat) (st : TState), l[j]? = some st → st ≠ TState.waiting := by
  induction l generalizing i with
  | nil => simp [waitingFrom]
  | cons a r ih =>
    simp only [waitingFrom]
    constructor
    · intro h
      split at h
      · simp at h
      · rename_i ha
        intro j st hj
        cases j with
        | zero => simp at hj; subst hj; exact ha
        | succ j => exact (ih (i + 1)).1 h j st (by simpa using hj)
    · intro h
      have ha : a ≠ .waiting := h 0 a (by simp)
      simp only [ha, if_false]
      exact (ih (i + 1)).2 (fun j st hj => h (j + 1) st (by simpa using hj))

/-- the first number returned is the first WAITING trial -/
theorem waitingFrom_head (l : List TState) (i n : Nat) (rest : List Nat) (h : waitingFrom l i = n :: rest) :
    i ≤ n ∧ n - i < l.length ∧ ∀ (j : Nat) (st : TState), j < n - i → l[j]? = some st → st ≠ TState.waiting := by
  induction l generalizing i with
  | nil => simp [waitingFrom] at h
  | cons a r ih =>
    simp only [waitingFrom] at h
    split at h
    · simp only [List.cons.injEq] at h
      obtain ⟨hn, _⟩ := h
      subst hn
      exact ⟨Nat.le_refl _, by simp, by intro j st hj; omega⟩
    · rename_i ha
      obtain ⟨h1, h2, h3⟩ := ih (i + 1) h
      refine ⟨by omega, by simp; omega, ?_⟩
      intro j st hj hget
      cases j with
      | zero => simp at hget; subst hget; exact ha
      | succ j => exact h3 j st (by omega) (by simpa using hget)

def Inv (s : St) : Prop :=
  s.cursor ≤ s.states.length ∧ ∀ (j : Nat) (st : TState), j < s.cursor → s.states[j]? = some st → st ≠ TState.waiting

theorem scan_eq_all (s : St) (h : Inv s) : scan s = allWaiting s := by
  unfold scan allWaiting
  conv => rhs; rw [← List.take_append_drop s.cursor s.states]
  rw [waitingFrom_append]
  have hnil : waitingFrom (s.states.take s.cursor) 0 = [] := by
    rw [waitingFrom_nil_iff]
    intro j st hj
    rw [List.getElem?_take] at hj
    split at hj
    · exact h.2 j st (by assumption) hj
    · simp at hj
  rw [hnil]
  simp [Nat.min_eq_left h.1]

theorem inv_step (s : St) (op : Op) (h : Inv s) : Inv (step s op).1 := by
  obtain ⟨hc, hw⟩ := h
  cases op with
  | create st =>
    refine ⟨by simp [step]; omega, ?_⟩
    intro j st' hj hget
    simp only [step] at hj hget
    rw [List.getElem?_append_left (by omega)] at hget
    exact hw j st' hj hget
  | setState n st =>
    simp only [step]
    cases hn : s.states[n]? with
    | none => exact ⟨hc, hw⟩
    | some old =>
      simp only
      split
      · exact ⟨hc, hw⟩
      · split
        · exact ⟨hc, hw⟩
        · refine ⟨?_, ?_⟩
          · simp only [List.length_set]
            split
            · exact Nat.le_trans (Nat.min_le_left _ _) hc
            · exact hc
          · intro j st' hj hget
            simp only at hj hget
            rw [List.getElem?_set] at hget
            by_cases hst : st = .waiting
            · simp only [hst, if_true] at hj
              have hjn : j ≠ n := by omega
              have hjc : j < s.cursor := by omega
              simp only [show ¬ n = j from fun e => hjn e.symm, if_false] at hget
              exact hw j st' hjc hget
            · simp only [hst, if_false] at hj
              by_cases hjn : n = j
              · subst hjn
                simp only [if_true] at hget
                split at hget
                · simp only [Option.some.injEq] at hget; subst hget; exact hst
                · simp at hget
              · simp only [hjn, if_false] at hget
                exact hw j st' hj hget
  | getWaiting =>
    simp only [step]
    cases hf : scan s with
    | nil =>
      refine ⟨Nat.le_refl _, ?_⟩
      intro j st hj hget
      simp only at hj hget
      rcases Nat.lt_or_ge j s.cursor with h1 | h1
      · exact hw j st h1 hget
      · unfold scan at hf
        rw [waitingFrom_nil_iff] at hf
        refine hf (j - s.cursor) st ?_
        rw [List.getElem?_drop]
        have : s.cursor + (j - s.cursor) = j := by omega
        rw [this]; exact hget
    | cons n rest =>
      unfold scan at hf
      obtain ⟨h1, h2, h3⟩ := waitingFrom_head _ _ n rest hf
      simp only [List.length_drop] at h2
      refine ⟨by simp only; omega, ?_⟩
      intro j st hj hget
      simp only at hj hget
      rcases Nat.lt_or_ge j s.cursor with hlt | hge
      · exact hw j st hlt hget
      · refine h3 (j - s.cursor) st (by omega) ?_
        rw [List.getElem?_drop]
        have : s.cursor + (j - s.cursor) = j := by omega
        rw [this]; exact hget

end OptunaVerif.InMemoryCursor
