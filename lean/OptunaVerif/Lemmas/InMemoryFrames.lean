import OptunaVerif.Lemmas.InMemoryRefine
/-! Frame lemmas for the in-memory refinement: what each kind of state change keeps of `InvS`,
`InvC` and `Rel`. -/
namespace OptunaVerif.InMemory
open OptunaVerif OptunaVerif.Storage

/-! ## in-place change of one `_StudyInfo` -/

/-- what the dictionaries need to know of a stored trial -/
def keyS (p : Nat × TrialS) : Nat × Nat × Nat := (p.1, p.2.number, p.2.study)
/-- what the caches need to know of a stored trial -/
def keyC (p : Nat × TrialS) : Nat × TState × Option (List XVal) := (p.1, p.2.state, p.2.values)

theorem get?_upd_some {α : Type} (l : NMap α) (sid k : Nat) (h : α → α) (x : α)
    (hx : NMap.get? (NMap.upd l sid h) k = some x) :
    ∃ y, NMap.get? l k = some y ∧ x = (if k = sid then h y else y) := by
  rw [NMap.get?_upd] at hx
  by_cases hk : k = sid
  · simp only [hk, if_true] at hx ⊢
    cases hy : NMap.get? l sid with
    | none => simp [hy] at hx
    | some y => simp only [hy, Option.map_some, Option.some.injEq] at hx; exact ⟨y, rfl, hx.symm⟩
  · simp only [hk, if_false] at hx ⊢
    exact ⟨x, hx, rfl⟩

theorem get?_upd_of_some {α : Type} (l : NMap α) (sid k : Nat) (h : α → α) (y : α)
    (hy : NMap.get? l k = some y) :
    NMap.get? (NMap.upd l sid h) k = some (if k = sid then h y else y) := by
  rw [NMap.get?_upd]
  by_cases hk : k = sid
  · simp [hk] at hy ⊢; simp [hy]
  · simp [hk, hy]

/-- The dictionaries stay right when one study object is changed in place without touching its
name, its directions, or the id / number / study of any of its trials. -/
theorem invS_upd (m : State) (sid : Nat) (h : StudyInfo → StudyInfo) (hS : InvS m)
    (hn : ∀ si, (h si).name = si.name) (hd : ∀ si, (h si).directions = si.directions)
    (hshape : ∀ si, m.studies.get? sid = some si → ∀ j : Nat,
      ((h si).trials[j]?).map keyS = (si.trials[j]?).map keyS) :
    InvS { m with studies := m.studies.upd sid h } := by
  -- a stored trial of the new state and the one it came from
  have back : ∀ k x, NMap.get? (NMap.upd m.studies sid h) k = some x →
      ∃ y, m.studies.get? k = some y ∧ x.name = y.name ∧ x.directions = y.directions ∧
        ∀ j : Nat, (x.trials[j]?).map keyS = (y.trials[j]?).map keyS := by
    intro k x hx
    obtain ⟨y, hy, e⟩ := get?_upd_some _ _ _ _ _ hx
    refine ⟨y, hy, ?_⟩
    by_cases hk : k = sid
    · simp only [hk, if_true] at e; subst e
      exact ⟨hn y, hd y, hshape y (by rw [← hk]; exact hy)⟩
    · simp only [hk, if_false] at e; subst e
      exact ⟨rfl, rfl, fun _ => rfl⟩
  have fwd : ∀ k y, m.studies.get? k = some y →
      ∃ x, NMap.get? (NMap.upd m.studies sid h) k = some x ∧ x.name = y.name ∧ x.directions = y.directions ∧
        ∀ j : Nat, (x.trials[j]?).map keyS = (y.trials[j]?).map keyS := by
    intro k y hy
    refine ⟨_, get?_upd_of_some _ sid k h y hy, ?_⟩
    by_cases hk : k = sid
    · simp only [hk, if_true]
      exact ⟨hn y, hd y, hshape y (by rw [← hk]; exact hy)⟩
    · simp [hk]
  -- entries at one position carry the same id / number / study
  have same : ∀ (a b : List (Nat × TrialS)) (j tid : Nat) (t : TrialS),
      (a[j]?).map keyS = (b[j]?).map keyS → a[j]? = some (tid, t) →
      ∃ t', b[j]? = some (tid, t') ∧ t'.number = t.number ∧ t'.study = t.study := by
    intro a b j tid t e ha
    rw [ha] at e
    cases hb : b[j]? with
    | none => simp [hb] at e
    | some q =>
      simp only [hb, Option.map_some, Option.some.injEq, keyS, Prod.mk.injEq] at e
      obtain ⟨e1, e2, e3⟩ := e
      exact ⟨q.2, by rw [e1], e2.symm, e3.symm⟩
  constructor
  · show ((NMap.upd m.studies sid h).map (·.1)).Pairwise (· < ·)
    rw [NMap.keys_upd]; exact hS.sKeys
  · intro k x hx
    obtain ⟨y, hy, _⟩ := back k x hx
    exact hS.sBound k y hy
  · intro name k
    rw [hS.names]
    constructor
    · rintro ⟨y, hy, hname⟩
      obtain ⟨x, hx, e, _⟩ := fwd k y hy
      exact ⟨x, hx, by rw [e]; exact hname⟩
    · rintro ⟨x, hx, hname⟩
      obtain ⟨y, hy, e, _⟩ := back k x hx
      exact ⟨y, hy, by rw [← e]; exact hname⟩
  · intro tid k num
    show m.tidMap.get? tid = some (k, num) ↔ _
    rw [hS.tmap]
    constructor
    · rintro ⟨y, t, hy, ht⟩
      obtain ⟨x, hx, _, _, e⟩ := fwd k y hy
      obtain ⟨t', ht', _⟩ := same y.trials x.trials num tid t (e num).symm ht
      exact ⟨x, t', hx, ht'⟩
    · rintro ⟨x, t, hx, ht⟩
      obtain ⟨y, hy, _, _, e⟩ := back k x hx
      obtain ⟨t', ht', _⟩ := same x.trials y.trials num tid t (e num) ht
      exact ⟨y, t', hy, ht'⟩
  · intro k x num tid t hx ht
    obtain ⟨y, hy, _, _, e⟩ := back k x hx
    obtain ⟨t', ht', e1, e2⟩ := same x.trials y.trials num tid t (e num) ht
    have := hS.tfields k y num tid t' hy ht'
    exact ⟨by rw [← e1]; exact this.1, by rw [← e2]; exact this.2.1, this.2.2⟩
  · intro k x hx
    obtain ⟨y, hy, _, e, _⟩ := back k x hx
    rw [e]; exact hS.dirs k y hy

theorem value0?_congr (t t' : TrialS) (h : t.values = t'.values) : t.value0? = t'.value0? := by
  unfold TrialS.value0?; rw [h]

/-- `BestOk` only looks at ids, states and values of the trials, the directions and the cached id. -/
theorem bestOk_congr (x y : StudyInfo) (ex : Option Nat)
    (ht : ∀ j : Nat, (x.trials[j]?).map keyC = (y.trials[j]?).map keyC)
    (hd : x.directions = y.directions) (hb : x.bestTrialId = y.bestTrialId) (h : BestOk y ex) :
    BestOk x ex := by
  have same : ∀ (a b : List (Nat × TrialS)) (j : Nat) (p : Nat × TrialS),
      (a[j]?).map keyC = (b[j]?).map keyC → a[j]? = some p →
      ∃ q, b[j]? = some q ∧ q.1 = p.1 ∧ q.2.state = p.2.state ∧ q.2.values = p.2.values := by
    intro a b j p e ha
    rw [ha] at e
    cases hb : b[j]? with
    | none => simp [hb] at e
    | some q =>
      simp only [hb, Option.map_some, Option.some.injEq, keyC, Prod.mk.injEq] at e
      exact ⟨q, rfl, e.1.symm, e.2.1.symm, e.2.2.symm⟩
  constructor
  · intro hnone j p hj hp
    obtain ⟨q, hq, _, e2, _⟩ := same x.trials y.trials j p (ht j) hp
    rw [← e2]
    exact h.none_ (by rw [← hb]; exact hnone) j q hj hq
  · intro b hsome
    obtain ⟨j, t, hj, hjt, hc, hbest⟩ := h.some_ b (by rw [← hb]; exact hsome)
    obtain ⟨q, hq, e1, e2, e3⟩ := same y.trials x.trials j (b, t) (ht j).symm hjt
    refine ⟨j, q.2, hj, ?_, by rw [e2]; exact hc, ?_⟩
    · rw [hq]; congr 1; exact Prod.ext e1 rfl
    · intro d hdir
      obtain ⟨v, hv, hall⟩ := hbest d (by rw [← hd]; exact hdir)
      refine ⟨v, by rw [value0?_congr q.2 t e3]; exact hv, ?_⟩
      intro k p w hk hp hpc hpw
      obtain ⟨p', hp', _, e2', e3'⟩ := same x.trials y.trials k p (ht k) hp
      exact hall k p' w hk hp' (by rw [e2']; exact hpc) (by rw [value0?_congr p'.2 p.2 e3']; exact hpw)

theorem sameC (a b : List (Nat × TrialS)) (j : Nat) (p : Nat × TrialS)
    (e : (a[j]?).map keyC = (b[j]?).map keyC) (ha : a[j]? = some p) :
    ∃ q, b[j]? = some q ∧ q.1 = p.1 ∧ q.2.state = p.2.state ∧ q.2.values = p.2.values := by
  rw [ha] at e
  cases hb : b[j]? with
  | none => simp [hb] at e
  | some q =>
    simp only [hb, Option.map_some, Option.some.injEq, keyC, Prod.mk.injEq] at e
    exact ⟨q, rfl, e.1.symm, e.2.1.symm, e.2.2.symm⟩

/-- The caches stay sound when one study object is changed in place without touching the id / state /
values of its trials, its directions or its cached best id. -/
theorem invC_upd (m : State) (sid : Nat) (h : StudyInfo → StudyInfo) (hC : InvC m)
    (hd : ∀ si, (h si).directions = si.directions) (hb : ∀ si, (h si).bestTrialId = si.bestTrialId)
    (hshape : ∀ si, m.studies.get? sid = some si → ∀ j : Nat,
      ((h si).trials[j]?).map keyC = (si.trials[j]?).map keyC) :
    InvC { m with studies := m.studies.upd sid h } := by
  have back : ∀ k x, NMap.get? (NMap.upd m.studies sid h) k = some x →
      ∃ y, m.studies.get? k = some y ∧ x.directions = y.directions ∧ x.bestTrialId = y.bestTrialId ∧
        ∀ j : Nat, (x.trials[j]?).map keyC = (y.trials[j]?).map keyC := by
    intro k x hx
    obtain ⟨y, hy, e⟩ := get?_upd_some _ _ _ _ _ hx
    refine ⟨y, hy, ?_⟩
    by_cases hk : k = sid
    · simp only [hk, if_true] at e; subst e
      exact ⟨hd y, hb y, hshape y (by rw [← hk]; exact hy)⟩
    · simp only [hk, if_false] at e; subst e
      exact ⟨rfl, rfl, fun _ => rfl⟩
  constructor
  · intro k x hx
    obtain ⟨y, hy, _, _, e⟩ := back k x hx
    obtain ⟨c, hc, hle, hall⟩ := hC.pw k y hy
    have hlen : y.trials.length ≤ x.trials.length := by
      have h1 := e x.trials.length
      rw [List.getElem?_eq_none (Nat.le_refl _)] at h1
      cases h2 : y.trials[x.trials.length]? with
      | none => exact List.getElem?_eq_none_iff.1 h2
      | some q => rw [h2] at h1; cases h1
    refine ⟨c, hc, Nat.le_trans hle hlen, ?_⟩
    intro j p hj hp
    obtain ⟨q, hq, _, e2, _⟩ := sameC x.trials y.trials j p (e j) hp
    rw [← e2]; exact hall j q hj hq
  · intro k x d hx hdir j p hp hpc
    obtain ⟨y, hy, ed, _, e⟩ := back k x hx
    obtain ⟨q, hq, _, e2, e3⟩ := sameC x.trials y.trials j p (e j) hp
    rw [← e3]
    exact hC.good k y d hy (by rw [← ed]; exact hdir) j q hq (by rw [e2]; exact hpc)
  · intro k x hx
    obtain ⟨y, hy, ed, eb, e⟩ := back k x hx
    exact bestOk_congr x y none e ed eb (hC.best k y hy)

theorem absStudies_upd_same (m : State) (sid : Nat) (h : StudyInfo → StudyInfo)
    (hp : ∀ si, (h si).pub = si.pub) :
    absStudies { m with studies := m.studies.upd sid h } = absStudies m := by
  unfold absStudies
  apply List.map_congr_left
  intro i _
  show (NMap.get? (NMap.upd m.studies sid h) i).map StudyInfo.pub = _
  rw [NMap.get?_upd]
  split
  · cases m.studies.get? i with
    | none => rfl
    | some y => simp [hp]
  · rfl

/-- `Rel` does not look at the dictionaries other than `_studies`, and of a study object only at
its public fields and its trials. -/
theorem rel_upd_same (m : State) (s : Spec) (sid : Nat) (h : StudyInfo → StudyInfo) (hR : Rel m s)
    (ht : ∀ si, (h si).trials = si.trials) (hp : ∀ si, (h si).pub = si.pub) :
    Rel { m with studies := m.studies.upd sid h } s := by
  constructor
  · rw [absStudies_upd_same m sid h hp]; exact hR.studies
  · exact hR.ntrials
  · intro k x hx
    obtain ⟨y, hy, e⟩ := get?_upd_some _ _ _ _ _ hx
    rw [hR.trialsOf k y hy, e]
    split
    · exact (ht y).symm
    · rfl
  · exact hR.bound

theorem rel_upd (m : State) (s : Spec) (sid : Nat) (h : StudyInfo → StudyInfo) (h' : StudyS → StudyS)
    (hR : Rel m s) (ht : ∀ si, (h si).trials = si.trials) (hp : ∀ si, (h si).pub = h' si.pub) :
    Rel { m with studies := m.studies.upd sid h } (s.updStudy sid h') := by
  constructor
  · show updAt s.studies sid (fun o => o.map h') = absStudies { m with studies := m.studies.upd sid h }
    apply List.ext_getElem?
    intro i
    rw [updAt_getElem?, hR.studies, absStudies_getElem?, absStudies_getElem?]
    show _ = if i < m.nextStudyId then some ((NMap.get? (NMap.upd m.studies sid h) i).map StudyInfo.pub) else none
    rw [NMap.get?_upd]
    by_cases hi : i = sid
    · simp only [hi, if_true]
      by_cases hlt : sid < m.nextStudyId
      · simp only [hlt, if_true, Option.map_some]
        cases m.studies.get? sid with
        | none => rfl
        | some y => simp [hp]
      · simp [hlt]
    · simp [hi]
  · exact hR.ntrials
  · intro k x hx
    obtain ⟨y, hy, e⟩ := get?_upd_some _ _ _ _ _ hx
    show s.trialsOf k = _
    rw [hR.trialsOf k y hy, e]
    split
    · exact (ht y).symm
    · rfl
  · intro t ht'
    show t.study < (updAt s.studies sid _).length
    rw [updAt_length]; exact hR.bound t ht'

theorem invS_prevWaiting (m : State) (pw : NMap Nat) (hS : InvS m) : InvS { m with prevWaiting := pw } :=
  ⟨hS.sKeys, hS.sBound, hS.names, hS.tmap, hS.tfields, hS.dirs⟩

theorem rel_prevWaiting (m : State) (s : Spec) (pw : NMap Nat) (hR : Rel m s) :
    Rel { m with prevWaiting := pw } s :=
  ⟨hR.studies, hR.ntrials, hR.trialsOf, hR.bound⟩

/-! ## `_set_trial` -/

theorem set_keyS (l : List (Nat × TrialS)) (num tid : Nat) (t0 t' : TrialS) (h0 : l[num]? = some (tid, t0))
    (hn : t'.number = t0.number) (hs : t'.study = t0.study) (j : Nat) :
    ((l.set num (tid, t'))[j]?).map keyS = (l[j]?).map keyS := by
  rw [List.getElem?_set]
  by_cases hj : num = j
  · subst hj
    have hlt : num < l.length := by
      rcases Nat.lt_or_ge num l.length with h' | h'
      · exact h'
      · rw [List.getElem?_eq_none h'] at h0; cases h0
    rw [h0]
    simp [hlt, keyS, hn, hs]
  · simp [hj]

theorem set_keyC (l : List (Nat × TrialS)) (num tid : Nat) (t0 t' : TrialS) (h0 : l[num]? = some (tid, t0))
    (hn : t'.state = t0.state) (hs : t'.values = t0.values) (j : Nat) :
    ((l.set num (tid, t'))[j]?).map keyC = (l[j]?).map keyC := by
  rw [List.getElem?_set]
  by_cases hj : num = j
  · subst hj
    have hlt : num < l.length := by
      rcases Nat.lt_or_ge num l.length with h' | h'
      · exact h'
      · rw [List.getElem?_eq_none h'] at h0; cases h0
    rw [h0]
    simp [hlt, keyC, hn, hs]
  · simp [hj]

theorem invS_setTrial (m : State) (hS : InvS m) (sid num tid : Nat) (si : StudyInfo) (t0 t' : TrialS)
    (hsi : m.studies.get? sid = some si) (h0 : si.trials[num]? = some (tid, t0))
    (hn : t'.number = t0.number) (hs : t'.study = t0.study) :
    InvS (setTrial m sid num (tid, t')) := by
  unfold setTrial
  refine invS_upd m sid (fun si => { si with trials := si.trials.set num (tid, t') }) hS
    (fun _ => rfl) (fun _ => rfl) ?_
  intro y hy j
  rw [hsi] at hy; cases hy
  exact set_keyS si.trials num tid t0 t' h0 hn hs j

theorem invC_setTrial_same (m : State) (hC : InvC m) (sid num tid : Nat) (si : StudyInfo) (t0 t' : TrialS)
    (hsi : m.studies.get? sid = some si) (h0 : si.trials[num]? = some (tid, t0))
    (hn : t'.state = t0.state) (hs : t'.values = t0.values) :
    InvC (setTrial m sid num (tid, t')) := by
  unfold setTrial
  refine invC_upd m sid (fun si => { si with trials := si.trials.set num (tid, t') }) hC
    (fun _ => rfl) (fun _ => rfl) ?_
  intro y hy j
  rw [hsi] at hy; cases hy
  exact set_keyC si.trials num tid t0 t' h0 hn hs j

theorem mem_updAt {α : Type} (l : List α) (i : Nat) (f : α → α) (x : α) (h : x ∈ updAt l i f) :
    x ∈ l ∨ ∃ y ∈ l, x = f y := by
  obtain ⟨j, hj⟩ := getElem?_of_mem _ _ h
  rw [updAt_getElem?] at hj
  split at hj
  · cases hl : l[j]? with
    | none => simp [hl] at hj
    | some y =>
      simp only [hl, Option.map_some, Option.some.injEq] at hj
      exact .inr ⟨y, List.mem_of_getElem? hl, hj.symm⟩
  · exact .inl (List.mem_of_getElem? hj)

/-- `_set_trial` of a changed copy is the contract's update of that trial. -/
theorem rel_setTrial (m : State) (s : Spec) (hS : InvS m) (hR : Rel m s) (tid : Nat) (f : Found)
    (hf : getTrial m tid = .ok f) (g : TrialS → TrialS) (hg : ∀ t, (g t).study = t.study) :
    Rel (setTrial m f.sid f.num (f.id, g f.t)) (s.updTrial tid g) := by
  obtain ⟨hid, ⟨si, hsi, ht⟩, hmap, _, _, _, _⟩ := getTrial_ok m s hS hR tid f hf
  rw [hid]
  constructor
  · have e := absStudies_upd_same m f.sid
      (fun si => { si with trials := si.trials.set f.num (tid, g f.t) }) (fun _ => rfl)
    exact hR.studies.trans e.symm
  · show (updAt s.trials tid g).length = m.nextTrialId
    rw [updAt_length]; exact hR.ntrials
  · intro k x hx
    obtain ⟨y, hy, e⟩ := get?_upd_some _ _ _ _ _ hx
    rw [Journal.trialsOf_updTrial s tid k g hg, hR.trialsOf k y hy, e]
    by_cases hk : k = f.sid
    · simp only [hk, if_true]
      rw [hk, hsi] at hy; cases hy
      apply map_upd_eq_set si.trials f.num tid f.t g ht
      intro j q hq hq1
      have : m.tidMap.get? tid = some (f.sid, j) :=
        (hS.tmap tid f.sid j).2 ⟨si, q.2, hsi, by rw [hq]; congr 1; exact Prod.ext hq1 rfl⟩
      rw [hmap] at this
      simp only [Option.some.injEq, Prod.mk.injEq] at this
      exact this.2.symm
    · simp only [hk, if_false]
      apply map_upd_eq_self
      intro q hq hq1
      obtain ⟨j, hj⟩ := getElem?_of_mem _ _ hq
      have : m.tidMap.get? tid = some (k, j) :=
        (hS.tmap tid k j).2 ⟨y, q.2, hy, by rw [hj]; congr 1; exact Prod.ext hq1 rfl⟩
      rw [hmap] at this
      simp only [Option.some.injEq, Prod.mk.injEq] at this
      exact hk this.1.symm
  · intro t ht'
    show t.study < s.studies.length
    rcases mem_updAt s.trials tid g t ht' with h1 | ⟨y, hy, e⟩
    · exact hR.bound t h1
    · rw [e, hg]; exact hR.bound y hy

end OptunaVerif.InMemory
