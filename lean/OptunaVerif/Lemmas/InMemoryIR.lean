import OptunaVerif.Generated.InMemoryMethods
/-! Lemmas used by `Props/C01InMemGen.lean`: what a call of each GENERATED helper of `InMemoryStorage`
does, in terms of the helper functions of the hand model (`InMemory.getTrial`, `setTrial`,
`updateCache`, …), for every frame.  A change of a helper in the source changes the generated data and
the lemma about that helper no longer checks. -/
set_option linter.unusedSimpArgs false
set_option linter.unusedVariables false
namespace OptunaVerif.InMemoryIR
open OptunaVerif OptunaVerif.Storage OptunaVerif.InMemory
open OptunaVerif.Generated.InMemoryMethods

/-- unfold the interpreter -/
macro "ir_simp" "[" ts:Lean.Parser.Tactic.simpLemma,* "]" : tactic =>
  `(tactic| simp [interp, block, exec, doAct, evalCond, evalRet, evalNum, Env.entry, Env.frame, finish, bindArgs, bindRes,
      studyOf, setM, updStudy, ok, bad, raiseE, R.ofOpt, opSid?, opTid?, opName?, opDirs?, opAttr?, opTmpl?, opParamName?, opParam?,
      opState?, opValues?, opInter?, opNumber?, opStates?, outFor, $ts,*])

set_option hygiene false in
/-- split a frame into its slots -/
macro "env_cases" e:ident : tactic =>
  `(tactic| obtain ⟨m, sid, tid, num, name, trial, bestTrial, study, trials, best, dirs, dir, ps, bv, nv, val⟩ := $e)

set_option hygiene false in
/-- case analysis of `_get_trial` on (`m`, `t`), closing every case with the interpreter unfolded -/
macro "get_trial_cases" m:ident t:ident "[" ts:Lean.Parser.Tactic.simpLemma,* "]" : tactic =>
  `(tactic| (
    cases h1 : ($m).tidMap.get? $t with
    | none => ir_simp [getTrialPrivM, checkTrialIdPrivM, InMemory.getTrial, h1, $ts,*]
    | some sn =>
      obtain ⟨s, n⟩ := sn
      cases h2 : ($m).studies.get? s with
      | none => ir_simp [getTrialPrivM, checkTrialIdPrivM, InMemory.getTrial, h1, h2, $ts,*]
      | some si =>
        cases h3 : si.trials[n]? with
        | none => ir_simp [getTrialPrivM, checkTrialIdPrivM, InMemory.getTrial, h1, h2, h3, $ts,*]
        | some p => ir_simp [getTrialPrivM, checkTrialIdPrivM, InMemory.getTrial, h1, h2, h3, $ts,*]))

/-- `self._check_study_id(study_id)` -/
theorem call_checkStudyId (op : Op) (env : Env) :
    exec op (.call checkStudyIdPrivM [(.sid, .sidV)] .drop) env =
      match env.sid with
      | none => (env, .bad)
      | some s => if (env.m.studies.get? s).isSome then (env, .next) else (env, .raised .keyError) := by
  env_cases env
  cases sid with
  | none => ir_simp [checkStudyIdPrivM]
  | some s => cases h2 : (m.studies.get? s).isSome <;> ir_simp [checkStudyIdPrivM, h2]

/-- `self._check_trial_id(trial_id)` -/
theorem call_checkTrialId (op : Op) (env : Env) :
    exec op (.call checkTrialIdPrivM [(.tid, .tidV)] .drop) env =
      match env.tid with
      | none => (env, .bad)
      | some t => if (env.m.tidMap.get? t).isSome then (env, .next) else (env, .raised .keyError) := by
  env_cases env
  cases tid with
  | none => ir_simp [checkTrialIdPrivM]
  | some t => cases h2 : (m.tidMap.get? t).isSome <;> ir_simp [checkTrialIdPrivM, h2]

/-- `trial = self._get_trial(trial_id)` -/
theorem call_getTrialPriv_trial (op : Op) (env : Env) :
    exec op (.call getTrialPrivM [(.tid, .tidV)] .trial) env =
      match env.tid with
      | none => (env, .bad)
      | some t => match InMemory.getTrial env.m t with
        | .ok f => ({ env with trial := some (f.id, f.t) }, .next)
        | .error e => (env, .raised e) := by
  env_cases env
  cases tid with
  | none => ir_simp [getTrialPrivM]
  | some t => get_trial_cases m t []

/-- `best_trial = self._get_trial(best_trial_id)` -/
theorem call_getTrialPriv_best (op : Op) (env : Env) :
    exec op (.call getTrialPrivM [(.tid, .bestId)] .bestTrial) env =
      match env.best with
      | some (some b) => match InMemory.getTrial env.m b with
        | .ok f => ({ env with bestTrial := some (f.id, f.t) }, .next)
        | .error e => (env, .raised e)
      | _ => (env, .bad) := by
  env_cases env
  cases best with
  | none => ir_simp [getTrialPrivM]
  | some ob =>
    cases ob with
    | none => ir_simp [getTrialPrivM]
    | some b => get_trial_cases m b []

/-- `get_trial(trial_id)` called on a frame whose `trial_id` is `t` -/
theorem exec_getTrialM (op : Op) (c : Env) :
    (exec op getTrialM c).1.m = c.m ∧
    (exec op getTrialM c).2 = match c.tid with
      | none => Flow.bad
      | some t => match InMemory.getTrial c.m t with
        | .ok f => .ret (.trial (f.id, f.t))
        | .error e => .raised e := by
  env_cases c
  cases tid with
  | none => ir_simp [getTrialM, getTrialPrivM]
  | some t => get_trial_cases m t [getTrialM]

/-- `trial = self.get_trial(trial_id)` (inside `check_trial_is_updatable`) -/
theorem call_getTrial_trial (op : Op) (env : Env) :
    exec op (.call getTrialM [(.tid, .tidV)] .trial) env =
      match env.tid with
      | none => (env, .bad)
      | some t => match InMemory.getTrial env.m t with
        | .ok f => ({ env with trial := some (f.id, f.t) }, .next)
        | .error e => (env, .raised e) := by
  env_cases env
  cases tid with
  | none => ir_simp [getTrialM]
  | some t => get_trial_cases m t [getTrialM]

/-- `return self.get_trial(best_trial_id)` -/
theorem call_getTrial_best_val (op : Op) (env : Env) :
    exec op (.call getTrialM [(.tid, .bestId)] .val) env =
      match env.best with
      | some (some b) => match InMemory.getTrial env.m b with
        | .ok f => ({ env with val := some (.trial (f.id, f.t)) }, .next)
        | .error e => (env, .raised e)
      | _ => (env, .bad) := by
  env_cases env
  cases best with
  | none => ir_simp [getTrialM]
  | some ob =>
    cases ob with
    | none => ir_simp [getTrialM]
    | some b => get_trial_cases m b [getTrialM]

/-- `self.check_trial_is_updatable(trial_id, trial.state)` -/
theorem call_checkUpdatable (op : Op) (env : Env) :
    exec op (.call checkTrialIsUpdatableM [(.tid, .tidV), (.passedState, .trialState)] .drop) env =
      match env.tid, env.trial with
      | some t, some p =>
        if p.2.state.isFinished then
          match InMemory.getTrial env.m t with
          | .ok _ => (env, .raised .updateFinished)
          | .error e => (env, .raised e)
        else (env, .next)
      | _, _ => (env, .bad) := by
  env_cases env
  cases tid with
  | none => ir_simp [checkTrialIsUpdatableM]
  | some t =>
    cases trial with
    | none => ir_simp [checkTrialIsUpdatableM]
    | some p =>
      cases hf : p.2.state.isFinished with
      | false => ir_simp [checkTrialIsUpdatableM, hf]
      | true => get_trial_cases m t [checkTrialIsUpdatableM, getTrialM, hf]

/-- `self._set_trial(trial_id, trial)` -/
theorem call_setTrialPriv (op : Op) (env : Env) :
    exec op (.call setTrialPrivM [(.tid, .tidV), (.trial, .trial)] .drop) env =
      match env.tid, env.trial with
      | some t, some p =>
        match env.m.tidMap.get? t with
        | none => (env, .raised .keyError)
        | some (s, n) => (setM env (setTrial env.m s n p), .next)
      | _, _ => (env, .bad) := by
  env_cases env
  cases tid with
  | none => ir_simp [setTrialPrivM]
  | some t =>
    cases trial with
    | none => ir_simp [setTrialPrivM]
    | some p =>
      cases h1 : m.tidMap.get? t with
      | none => ir_simp [setTrialPrivM, h1]
      | some sn =>
        obtain ⟨s, n⟩ := sn
        cases h2 : m.studies.get? s <;> ir_simp [setTrialPrivM, setTrial, h1, h2]

/-- unfold the interpreter, except calls (those are rewritten by the `call_*` lemmas) -/
macro "irc_simp" "[" ts:Lean.Parser.Tactic.simpLemma,* "]" : tactic =>
  `(tactic| simp [interp, block, exec.eq_1, exec.eq_2, exec.eq_3, exec.eq_4, exec.eq_5, exec.eq_6, doAct, evalCond, evalRet, evalNum,
      Env.entry, Env.frame, finish, bindArgs, bindRes,
      studyOf, setM, updStudy, ok, bad, raiseE, R.ofOpt, opSid?, opTid?, opName?, opDirs?, opAttr?, opTmpl?, opParamName?, opParam?,
      opState?, opValues?, opInter?, opNumber?, opStates?, outFor,
      call_checkStudyId, call_checkTrialId, call_getTrialPriv_trial, call_getTrialPriv_best, call_getTrial_trial, call_getTrial_best_val,
      call_checkUpdatable, call_setTrialPriv, $ts,*])

/-- `_directions = self.get_study_directions(study_id)` -/
theorem call_getStudyDirections (op : Op) (env : Env) :
    exec op (.call getStudyDirectionsM [(.sid, .sidV)] .dirs) env =
      match env.sid with
      | none => (env, .bad)
      | some s => match env.m.studies.get? s with
        | none => (env, .raised .keyError)
        | some si => ({ env with dirs := some si.directions }, .next) := by
  env_cases env
  cases sid with
  | none => ir_simp [getStudyDirectionsM]
  | some s => cases h : m.studies.get? s <;> ir_simp [getStudyDirectionsM, checkStudyIdPrivM, h]

theorem call_updateCache (op : Op) (env : Env) :
    exec op (.call updateCachePrivM [(.tid, .tidV), (.sid, .sidV)] .drop) env =
      match env.tid, env.sid with
      | some t, some s => match updateCache env.m t s with
        | .ok m' => (setM env m', .next)
        | .error e => (env, .raised e)
      | _, _ => (env, .bad) := by
  env_cases env
  cases tid with
  | none => ir_simp [updateCachePrivM]
  | some t =>
    cases sid with
    | none => ir_simp [updateCachePrivM]
    | some s =>
      rw [exec.eq_7]
      cases hg : InMemory.getTrial m t with
      | error e => irc_simp [updateCachePrivM, updateCache, hg]
      | ok f =>
        by_cases hc : f.t.state = TState.complete
        case neg =>
          have hcb : (f.t.state == TState.complete) = false := by simp [hc]
          irc_simp [updateCachePrivM, updateCache, hg, hc, hcb]
        case pos =>
          have hcb : (f.t.state == TState.complete) = true := by simp [hc]
          cases hs : m.studies.get? s with
          | none => irc_simp [updateCachePrivM, updateCache, hg, hc, hcb, hs]
          | some si =>
            cases hb : si.bestTrialId with
            | none => irc_simp [updateCachePrivM, updateCache, call_getStudyDirections, hg, hc, hcb, hs, hb]
            | some b =>
              cases hd : si.directions with
              | nil => irc_simp [updateCachePrivM, updateCache, call_getStudyDirections, hg, hc, hcb, hs, hb, hd]
              | cons d ds =>
                cases ds with
                | cons d2 ds2 => irc_simp [updateCachePrivM, updateCache, call_getStudyDirections, hg, hc, hcb, hs, hb, hd]
                | nil =>
                  cases hgb : InMemory.getTrial m b with
                  | error e => irc_simp [updateCachePrivM, updateCache, call_getStudyDirections, hg, hc, hcb, hs, hb, hd, hgb]
                  | ok fb =>
                    cases hvb : value? fb.t with
                    | error e => irc_simp [updateCachePrivM, updateCache, call_getStudyDirections, hg, hc, hcb, hs, hb, hd, hgb, hvb]
                    | ok ovb =>
                      cases ovb with
                      | none => irc_simp [updateCachePrivM, updateCache, call_getStudyDirections, hg, hc, hcb, hs, hb, hd, hgb, hvb]
                      | some vb =>
                        cases hvn : value? f.t with
                        | error e => irc_simp [updateCachePrivM, updateCache, call_getStudyDirections, hg, hc, hcb, hs, hb, hd, hgb, hvb, hvn]
                        | ok ovn =>
                          cases ovn with
                          | none => irc_simp [updateCachePrivM, updateCache, call_getStudyDirections, hg, hc, hcb, hs, hb, hd, hgb, hvb, hvn]
                          | some vn =>
                            cases h2 : (d == 2) <;> cases hf1 : flt vb vn <;> cases hf2 : flt vn vb <;>
                              irc_simp [updateCachePrivM, updateCache, call_getStudyDirections, cmpVal, hg, hc, hcb, hs, hb, hd, hgb, hvb, hvn, h2, hf1, hf2]

/-- the loop variable after a `for` over `l` (unchanged when `l` is empty) -/
def lastOr : List Tr → Option Tr → Option Tr
  | [], d => d
  | p :: r, _ => lastOr r (some p)

/-- `for trial in …: del self._trial_id_to_study_id_and_number[trial._trial_id]` -/
theorem loop_tidMapDel (op : Op) (l : List Tr) (env : Env) :
    loop (fun e => exec op (.act (.tidMapDel .trialId)) e) l env =
      ({ env with m := { env.m with tidMap := l.foldl (fun mp p => mp.erase p.1) env.m.tidMap },
                  trial := lastOr l env.trial }, .next) := by
  induction l generalizing env with
  | nil => rfl
  | cons p r ih =>
    have h1 : exec op (.act (.tidMapDel .trialId)) { env with trial := some p } =
        ({ env with trial := some p, m := { env.m with tidMap := env.m.tidMap.erase p.1 } }, .next) := by
      simp [exec, doAct, evalNum, setM, ok]
    rw [loop]
    simp only [h1]
    rw [ih]
    rfl

/-- the body of the WAITING scan of `get_all_trials` -/
def waitingBody : Stmt :=
  .ite (.trialStateIs .waiting) (.seq (.ite .trialsEmpty (.act (.prevWaitingSet .trialNumber)) .skip) (.act .trialsAppend)) .skip

def isWaiting (p : Tr) : Bool := p.2.state == .waiting

theorem loop_waiting (op : Op) (s : Nat) (l : List Tr) (env : Env) (acc : List Tr)
    (hs : env.sid = some s) (ha : env.trials = some acc) :
    loop (fun e => exec op waitingBody e) l env =
      ({ env with
          m := { env.m with prevWaiting :=
            if acc.isEmpty then (match l.filter isWaiting with
              | [] => env.m.prevWaiting
              | p :: _ => env.m.prevWaiting.set s p.2.number) else env.m.prevWaiting },
          trials := some (acc ++ l.filter isWaiting),
          trial := lastOr l env.trial }, .next) := by
  induction l generalizing env acc with
  | nil =>
    env_cases env
    simp only at hs ha
    subst hs ha
    cases acc <;> simp [loop, lastOr]
  | cons p r ih =>
    cases hw : (p.2.state == TState.waiting) with
    | false =>
      have h1 : exec op waitingBody { env with trial := some p } = ({ env with trial := some p }, .next) := by
        simp [waitingBody, block, exec, evalCond, hw]
      rw [loop]
      simp only [h1]
      rw [ih { env with trial := some p } acc hs ha]
      simp [List.filter, isWaiting, hw, lastOr]
    | true =>
      cases acc with
      | nil =>
        have h1 : exec op waitingBody { env with trial := some p } =
            ({ env with trial := some p, trials := some [p],
                        m := { env.m with prevWaiting := env.m.prevWaiting.set s p.2.number } }, .next) := by
          simp [waitingBody, block, exec, evalCond, doAct, evalNum, setM, ok, hw, hs, ha]
        rw [loop]
        simp only [h1]
        rw [ih { env with trial := some p, trials := some [p], m := { env.m with prevWaiting := env.m.prevWaiting.set s p.2.number } } [p] hs rfl]
        simp [List.filter, isWaiting, hw, lastOr]
      | cons a acc' =>
        have h1 : exec op waitingBody { env with trial := some p } =
            ({ env with trial := some p, trials := some (a :: acc' ++ [p]) }, .next) := by
          simp [waitingBody, block, exec, evalCond, doAct, evalNum, setM, ok, hw, hs, ha]
        rw [loop]
        simp only [h1]
        rw [ih { env with trial := some p, trials := some (a :: acc' ++ [p]) } (a :: acc' ++ [p]) hs rfl]
        simp [List.filter, isWaiting, hw, lastOr]


/-- `return self._get_trial(trial_id)` -/
theorem call_getTrialPriv_val (op : Op) (env : Env) :
    exec op (.call getTrialPrivM [(.tid, .tidV)] .val) env =
      match env.tid with
      | none => (env, .bad)
      | some t => match InMemory.getTrial env.m t with
        | .ok f => ({ env with val := some (.trial (f.id, f.t)) }, .next)
        | .error e => (env, .raised e) := by
  env_cases env
  cases tid with
  | none => ir_simp [getTrialPrivM]
  | some t => get_trial_cases m t []

/-- the deletion loop of `delete_study` -/
theorem exec_forTidMapDel (op : Op) (env : Env) :
    exec op (.forStudyTrials false (.act (.tidMapDel .trialId))) env =
      match env.sid with
      | none => (env, .bad)
      | some s => match env.m.studies.get? s with
        | none => (env, .raised .keyError)
        | some si =>
          ({ env with m := { env.m with tidMap := si.trials.foldl (fun mp p => mp.erase p.1) env.m.tidMap },
                      trial := lastOr si.trials env.trial }, .next) := by
  rw [exec.eq_8]
  cases h : env.sid with
  | none => simp [studyOf, h]
  | some s =>
    cases h2 : env.m.studies.get? s with
    | none => simp [studyOf, h, h2]
    | some si => simp [studyOf, h, h2, loop_tidMapDel]

/-- the WAITING scan of `get_all_trials` -/
theorem exec_forWaiting (op : Op) (s : Nat) (acc : List Tr) (env : Env) (hs : env.sid = some s) (ha : env.trials = some acc) :
    exec op (.forStudyTrials true
        (.ite (.trialStateIs .waiting) (.seq (.ite .trialsEmpty (.act (.prevWaitingSet .trialNumber)) .skip) (.act .trialsAppend)) .skip)) env =
      match env.m.studies.get? s with
      | none => (env, .raised .keyError)
      | some si =>
        let l := si.trials.drop ((env.m.prevWaiting.get? s).getD 0)
        ({ env with
            m := { env.m with prevWaiting :=
              if acc.isEmpty then (match l.filter isWaiting with
                | [] => env.m.prevWaiting
                | p :: _ => env.m.prevWaiting.set s p.2.number) else env.m.prevWaiting },
            trials := some (acc ++ l.filter isWaiting),
            trial := lastOr l env.trial }, .next) := by
  rw [exec.eq_8]
  cases h2 : env.m.studies.get? s with
  | none => simp [studyOf, hs, h2]
  | some si =>
    have := loop_waiting op s (si.trials.drop ((env.m.prevWaiting.get? s).getD 0)) env acc hs ha
    simp only [waitingBody] at this
    simp [studyOf, hs, h2, this]
    all_goals (cases acc <;> rfl)

/-- unfold the interpreter; calls of the generated helpers are rewritten by the `call_*` lemmas -/
macro "irm_simp" "[" ts:Lean.Parser.Tactic.simpLemma,* "]" : tactic =>
  `(tactic| irc_simp [call_getStudyDirections, call_updateCache, call_getTrialPriv_val, exec_forTidMapDel, $ts,*])

theorem finish_eq (op : Op) (x : Env × Flow) :
    finish op x = match x.2 with
      | .raised e => (x.1.m, .err e)
      | .ret v => (x.1.m, outFor op v)
      | .next => (x.1.m, outFor op .none)
      | .bad => (x.1.m, unrepresentable) := by
  obtain ⟨e, fl⟩ := x
  cases fl <;> rfl

theorem filter_const_true {α : Type} (l : List α) : l.filter (fun _ => true) = l := by
  induction l with
  | nil => rfl
  | cons a t ih => simp [List.filter, ih]

theorem isWaiting_eq : isWaiting = fun p => p.2.state == TState.waiting := rfl

/-- a fresh frame whose `study_id` is `s` -/
def frameSid (m : State) (s : Nat) : Env := { Env.frame m with sid := some s }

/-- the body of `get_all_trials` on a fresh frame whose `study_id` is `s` -/
theorem exec_getAllTrials (op : Op) (m : State) (s : Nat) (states : Option (List TState)) (ho : opStates? op = some states) :
    (exec op getAllTrialsM (frameSid m s)).1.m =
      (match m.studies.get? s with
        | none => m
        | some si => (allTrials m s si states).1) ∧
    (exec op getAllTrialsM (frameSid m s)).2 =
      (match m.studies.get? s with
        | none => .raised .keyError
        | some si => .ret (.trials (allTrials m s si states).2)) := by
  unfold frameSid
  cases op <;> simp only [opStates?] at ho <;> (try cases ho)
  all_goals
    cases h : m.studies.get? s with
    | none => irm_simp [getAllTrialsM, h]
    | some si =>
      cases hw : (states == some [TState.waiting]) with
      | false =>
        cases states with
        | none => irm_simp [getAllTrialsM, allTrials, stateIn, h, hw, filter_const_true]
        | some l => irm_simp [getAllTrialsM, allTrials, stateIn, h, hw]
      | true =>
        have hst : states = some [TState.waiting] := by simpa using hw
        subst hst
        irm_simp [getAllTrialsM, allTrials, h, exec_forWaiting _ s [], isWaiting_eq]
        generalize hfound : List.filter (fun p : Tr => p.snd.state == TState.waiting)
          (List.drop ((m.prevWaiting.get? s).getD 0) si.trials) = found
        cases found <;> simp


/-- `self.get_all_trials(study_id, deepcopy=False, states=state)` inside `get_n_trials` -/
theorem call_getAllTrials_val (op : Op) (env : Env) (s : Nat) (states : Option (List TState))
    (ho : opStates? op = some states) (hs : env.sid = some s) :
    exec op (.call getAllTrialsM [(.sid, .sidV)] .val) env =
      match env.m.studies.get? s with
      | none => (env, .raised .keyError)
      | some si => ({ env with m := (allTrials env.m s si states).1, val := some (.trials (allTrials env.m s si states).2) }, .next) := by
  obtain ⟨h1, h2⟩ := exec_getAllTrials op env.m s states ho
  have hb : bindArgs env [(.sid, .sidV)] (Env.frame env.m) = some (frameSid env.m s) := by
    simp [bindArgs, hs, frameSid]
  simp only [exec.eq_7, hb]
  generalize exec op getAllTrialsM (frameSid env.m s) = x at h1 h2 ⊢
  obtain ⟨c, fl⟩ := x
  simp only at h1 h2
  subst h2
  cases h : env.m.studies.get? s <;> simp [h] at h1 <;> simp [bindRes, setM, ok, h, h1]

theorem modTrial_eq (m : State) (tid : Nat) (g : TrialS → TrialS) :
    modTrial m tid g = match InMemory.getTrial m tid with
      | .error e => (m, .err e)
      | .ok f => if f.t.state.isFinished then (m, .err .updateFinished) else (setTrial m f.sid f.num (f.id, g f.t), .unit) := by
  unfold modTrial getUpdatable
  cases InMemory.getTrial m tid with
  | error e => rfl
  | ok f => cases hf : f.t.state.isFinished <;> simp [hf]

theorem getTrial_tidMap {m : State} {tid : Nat} {f : Found} (h : InMemory.getTrial m tid = .ok f) :
    m.tidMap.get? tid = some (f.sid, f.num) := by
  unfold InMemory.getTrial at h
  cases h1 : m.tidMap.get? tid with
  | none => simp [h1] at h
  | some sn =>
    obtain ⟨s, n⟩ := sn
    simp only [h1] at h
    cases h2 : m.studies.get? s with
    | none => simp [h2] at h
    | some si =>
      simp only [h2] at h
      cases h3 : si.trials[n]? with
      | none => simp [h3] at h
      | some p =>
        simp only [h3] at h
        cases h
        rfl

theorem getTrial_error_tidMap {m : State} {tid : Nat} {e : Err} (h : InMemory.getTrial m tid = .error e)
    (h1 : (m.tidMap.get? tid).isSome = false) : e = .keyError := by
  unfold InMemory.getTrial at h
  cases h2 : m.tidMap.get? tid with
  | none => simp [h2] at h; exact h.symm
  | some x => simp [h2] at h1

theorem tstate_beq (a b : TState) : (a == b) = decide (a = b) := by
  cases a <;> cases b <;> rfl
theorem isFinished_running : TState.running.isFinished = false := rfl
theorem isFinished_complete : TState.complete.isFinished = true := rfl
theorem isFinished_pruned : TState.pruned.isFinished = true := rfl
theorem isFinished_fail : TState.fail.isFinished = true := rfl
theorem isFinished_waiting : TState.waiting.isFinished = false := rfl

end OptunaVerif.InMemoryIR
