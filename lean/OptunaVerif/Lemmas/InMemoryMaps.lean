import OptunaVerif.Model.InMemory
/-! Dictionaries, lists and the value order: the small facts the in-memory refinement is built from.
Core Lean only. -/
namespace OptunaVerif.InMemory
open OptunaVerif OptunaVerif.Storage

/-! ### `NMap` -/
namespace NMap
variable {α : Type}

theorem get?_set (l : NMap α) (k k2 : Nat) (v : α) :
    get? (set l k v) k2 = if k2 = k then some v else get? l k2 := by
  induction l with
  | nil =>
    by_cases h : k2 = k
    · subst h; simp [set, get?]
    · have h' : ¬ k = k2 := fun e => h e.symm
      simp [set, get?, h, h']
  | cons hd t ih =>
    obtain ⟨k', v'⟩ := hd
    by_cases hk : k' = k
    · subst hk
      by_cases h2 : k2 = k'
      · subst h2; simp [set, get?]
      · have h' : ¬ k' = k2 := fun e => h2 e.symm
        simp [set, get?, h2, h']
    · by_cases h2 : k2 = k
      · subst h2; simp [set, get?, hk, ih]
      · simp only [set, hk, if_false, get?, ih, h2]

theorem get?_upd (l : NMap α) (k k2 : Nat) (f : α → α) :
    get? (upd l k f) k2 = if k2 = k then (get? l k2).map f else get? l k2 := by
  induction l with
  | nil => simp [upd, get?]
  | cons hd t ih =>
    obtain ⟨k', v'⟩ := hd
    by_cases hk : k' = k
    · subst hk
      by_cases h2 : k2 = k'
      · subst h2; simp [upd, get?]
      · have h' : ¬ k' = k2 := fun e => h2 e.symm
        simp [upd, get?, h2, h']
    · by_cases h2 : k2 = k
      · subst h2; simp [upd, get?, hk, ih]
      · simp only [upd, hk, if_false, get?, ih, h2]

theorem get?_erase (l : NMap α) (k k2 : Nat) :
    get? (erase l k) k2 = if k2 = k then none else get? l k2 := by
  induction l with
  | nil => simp [erase, get?]
  | cons hd t ih =>
    obtain ⟨k', v'⟩ := hd
    unfold erase at ih ⊢
    by_cases hk : k' = k
    · subst hk
      by_cases h2 : k2 = k'
      · subst h2; simpa [List.filter_cons, get?] using ih
      · have h' : ¬ k' = k2 := fun e => h2 e.symm
        simpa [List.filter_cons, get?, h2, h'] using ih
    · have hk' : (k' != k) = true := by simpa using hk
      simp only [List.filter_cons, hk', if_true, get?]
      by_cases h2 : k2 = k
      · subst h2; simp [hk]; simpa using ih
      · simp only [h2, if_false] at ih ⊢; rw [ih]

theorem keys_upd (l : NMap α) (k : Nat) (f : α → α) : (upd l k f).map (·.1) = l.map (·.1) := by
  induction l with
  | nil => rfl
  | cons hd t ih =>
    obtain ⟨k', v'⟩ := hd
    by_cases hk : k' = k <;> simp [upd, hk, ih]

/-- a key that is not there: assignment appends -/
theorem set_of_get?_none (l : NMap α) (k : Nat) (v : α) (h : get? l k = none) : set l k v = l ++ [(k, v)] := by
  induction l with
  | nil => rfl
  | cons hd t ih =>
    obtain ⟨k', v'⟩ := hd
    by_cases hk : k' = k
    · simp [get?, hk] at h
    · simp only [get?, hk, if_false] at h
      simp [set, hk, ih h]

theorem get?_some_mem (l : NMap α) (k : Nat) (v : α) (h : get? l k = some v) : (k, v) ∈ l := by
  induction l with
  | nil => simp [get?] at h
  | cons hd t ih =>
    obtain ⟨k', v'⟩ := hd
    by_cases hk : k' = k
    · simp only [get?, hk, if_true, Option.some.injEq] at h
      subst h; subst hk; simp
    · simp only [get?, hk, if_false] at h
      exact List.mem_cons_of_mem _ (ih h)

theorem get?_none_of_not_key (l : NMap α) (k : Nat) (h : ∀ p ∈ l, p.1 ≠ k) : get? l k = none := by
  induction l with
  | nil => rfl
  | cons hd t ih =>
    obtain ⟨k', v'⟩ := hd
    have hk : ¬ k' = k := h (k', v') (by simp)
    simp only [get?, hk, if_false]
    exact ih (fun p hp => h p (List.mem_cons_of_mem _ hp))

end NMap

theorem get?_eraseKey {α : Type} (l : AList α) (k k2 : String) :
    AList.get? (eraseKey l k) k2 = if k2 = k then none else AList.get? l k2 := by
  induction l with
  | nil => simp [eraseKey, AList.get?]
  | cons hd t ih =>
    obtain ⟨k', v'⟩ := hd
    unfold eraseKey at ih ⊢
    by_cases hk : k' = k
    · subst hk
      by_cases h2 : k2 = k'
      · subst h2; simpa [List.filter_cons, AList.get?] using ih
      · have h' : ¬ k' = k2 := fun e => h2 e.symm
        simpa [List.filter_cons, AList.get?, h2, h'] using ih
    · have hk' : (k' != k) = true := by simpa using hk
      simp only [List.filter_cons, hk', if_true, AList.get?]
      by_cases h2 : k2 = k
      · subst h2; simp [hk]; simpa using ih
      · simp only [h2, if_false] at ih ⊢; rw [ih]

theorem alist_get?_set {α : Type} (l : AList α) (k k2 : String) (v : α) :
    AList.get? (AList.set l k v) k2 = if k2 = k then some v else AList.get? l k2 := by
  by_cases h : k2 = k
  · subst h; simp [AList.get?_set_same]
  · simp [h, AList.get?_set_other l k k2 v h]

/-- erasing a list of keys, one after the other -/
theorem get?_foldl_erase_of_not_mem {α β : Type} (ks : List (Nat × β)) (l : NMap α) (k : Nat)
    (h : ∀ p ∈ ks, p.1 ≠ k) :
    NMap.get? (ks.foldl (fun mp p => NMap.erase mp p.1) l) k = NMap.get? l k := by
  induction ks generalizing l with
  | nil => rfl
  | cons p r ih =>
    rw [List.foldl_cons, ih _ (fun q hq => h q (List.mem_cons_of_mem _ hq)), NMap.get?_erase]
    have : ¬ k = p.1 := fun e => h p (by simp) e.symm
    simp [this]

theorem get?_foldl_erase_none {α β : Type} (ks : List (Nat × β)) (l : NMap α) (k : Nat)
    (h : NMap.get? l k = none) :
    NMap.get? (ks.foldl (fun mp p => NMap.erase mp p.1) l) k = none := by
  induction ks generalizing l with
  | nil => exact h
  | cons p r ih =>
    rw [List.foldl_cons]
    apply ih
    rw [NMap.get?_erase]
    split
    · rfl
    · exact h

theorem get?_foldl_erase_of_mem {α β : Type} (ks : List (Nat × β)) (l : NMap α) (k : Nat)
    (h : ∃ p ∈ ks, p.1 = k) :
    NMap.get? (ks.foldl (fun mp p => NMap.erase mp p.1) l) k = none := by
  induction ks generalizing l with
  | nil => obtain ⟨p, hp, _⟩ := h; cases hp
  | cons p r ih =>
    rw [List.foldl_cons]
    by_cases h1 : p.1 = k
    · apply get?_foldl_erase_none
      rw [NMap.get?_erase]; simp [h1]
    · apply ih
      obtain ⟨q, hq, e⟩ := h
      simp only [List.mem_cons] at hq
      rcases hq with hq | hq
      · subst hq; exact absurd e h1
      · exact ⟨q, hq, e⟩

/-! ### lists of (id, trial) -/

theorem map_upd_eq_set {β : Type} (l : List (Nat × β)) (num tid : Nat) (t : β) (g : β → β)
    (h : l[num]? = some (tid, t)) (huniq : ∀ j q, l[j]? = some q → q.1 = tid → j = num) :
    l.map (fun q => if q.1 = tid then (q.1, g q.2) else q) = l.set num (tid, g t) := by
  apply List.ext_getElem?
  intro j
  rw [List.getElem?_map, List.getElem?_set]
  by_cases hj : num = j
  · subst hj
    have hlt : num < l.length := by
      rcases Nat.lt_or_ge num l.length with h' | h'
      · exact h'
      · rw [List.getElem?_eq_none h'] at h; cases h
    rw [h]
    simp [hlt]
  · simp only [hj, if_false]
    cases hq : l[j]? with
    | none => rfl
    | some q =>
      have : ¬ q.1 = tid := fun e => hj (huniq j q hq e).symm
      simp [this]

theorem map_upd_eq_self {β : Type} (l : List (Nat × β)) (tid : Nat) (g : β → β)
    (h : ∀ q ∈ l, q.1 ≠ tid) :
    l.map (fun q => if q.1 = tid then (q.1, g q.2) else q) = l := by
  conv => rhs; rw [← List.map_id l]
  apply List.map_congr_left
  intro q hq
  simp [h q hq]

theorem getElem?_of_mem {β : Type} (l : List β) (x : β) (h : x ∈ l) : ∃ j : Nat, l[j]? = some x := by
  obtain ⟨j, hj, e⟩ := List.getElem_of_mem h
  exact ⟨j, by rw [List.getElem?_eq_getElem hj, e]⟩

/-! ### the order on values -/

theorem xle_refl (a : XVal) (h : a ≠ .nan) : a.le a = true := by
  cases a <;> simp [XVal.le] at h ⊢

theorem xle_trans (a b c : XVal) (h1 : a.le b = true) (h2 : b.le c = true) : a.le c = true := by
  cases a <;> cases b <;> cases c <;> simp [XVal.le] at h1 h2 ⊢
  exact Rat.le_trans h1 h2

theorem xle_total (a b : XVal) (ha : a ≠ .nan) (hb : b ≠ .nan) : a.le b = true ∨ b.le a = true := by
  cases a <;> cases b <;> simp [XVal.le] at ha hb ⊢
  exact Rat.le_total

/-- Python's `a < b` is the strict part of `≤` -/
theorem flt_true (a b : XVal) (h : flt a b = true) : a.le b = true := by
  unfold flt at h
  simp only [Bool.and_eq_true] at h
  exact h.1

theorem flt_false (a b : XVal) (ha : a ≠ .nan) (hb : b ≠ .nan) (h : flt a b = false) : b.le a = true := by
  unfold flt at h
  rcases xle_total a b ha hb with h1 | h1
  · simp [h1] at h; exact h
  · exact h1

end OptunaVerif.InMemory
