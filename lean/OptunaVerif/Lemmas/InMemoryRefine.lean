import OptunaVerif.Lemmas.InMemoryMaps
import OptunaVerif.Lemmas.Storage
import OptunaVerif.Lemmas.JournalRefine
/-!
# The in-memory storage model refines the storage contract (lemmas for `Props/C01InMem.lean`)

`Inv`  : what the redundant fields of `InMemoryStorage` (`_trial_id_to_study_id_and_number`,
         `_study_name_to_id`, `_prev_waiting_trial_number`, `best_trial_id`) promise about `_studies`.
`Rel`  : the abstraction — which contract state an in-memory state stands for.  The observable part
         of the contract state is a *function* of the in-memory state (`absStudies`, `absTrial?`, the
         per-study trial lists); what the contract model keeps of deleted studies' trials is not
         observable and not stored by the implementation, so `Rel` leaves it free.
-/
namespace OptunaVerif.InMemory
open OptunaVerif OptunaVerif.Storage

/-! ## definitions -/

/-- the studies of the contract state an in-memory state stands for: position = study id -/
def absStudies (m : State) : List (Option StudyS) :=
  (List.range m.nextStudyId).map (fun i => (m.studies.get? i).map StudyInfo.pub)

/-- the live trial behind an id, as the contract sees it -/
def absTrial? (m : State) (tid : Nat) : Option TrialS :=
  match getTrial m tid with
  | .ok f => some f.t
  | .error _ => none

/-- exactly one objective value, not NaN (what `Study.tell` / `add_trial` guarantee of a COMPLETE trial) -/
def goodVals : Option (List XVal) → Bool
  | some [v] => v != .nan
  | _ => false

/-- `StudyDirection.MINIMIZE` / `MAXIMIZE`, at least one -/
def dirsOk (dirs : List Nat) : Bool := dirs != [] && dirs.all (fun d => d == 1 || d == 2)

/-- the value of `t` is at least as good as that of every COMPLETE trial of `l`; position `ex` is
left out (the trial `_update_cache` is looking at). -/
def Dominates (d : Nat) (l : List (Nat × TrialS)) (ex : Option Nat) (t : TrialS) : Prop :=
  ∃ v : XVal, t.value0? = some v ∧
    ∀ (k : Nat) (q : Nat × TrialS) (w : XVal), some k ≠ ex → l[k]? = some q → q.2.state = .complete →
      q.2.value0? = some w → betterEq d v w = true

/-- the dictionaries agree with `_studies` -/
structure InvS (m : State) : Prop where
  sKeys : (m.studies.map (·.1)).Pairwise (· < ·)
  sBound : ∀ sid si, m.studies.get? sid = some si → sid < m.nextStudyId
  names : ∀ name sid, m.nameToId.get? name = some sid ↔ ∃ si, m.studies.get? sid = some si ∧ si.name = name
  tmap : ∀ tid sid num, m.tidMap.get? tid = some (sid, num) ↔
    ∃ si t, m.studies.get? sid = some si ∧ si.trials[num]? = some (tid, t)
  tfields : ∀ sid si (num tid : Nat) t, m.studies.get? sid = some si → si.trials[num]? = some (tid, t) →
    t.number = num ∧ t.study = sid ∧ tid < m.nextTrialId
  dirs : ∀ sid si, m.studies.get? sid = some si → dirsOk si.directions = true

/-- best-trial cache of one study, with position `ex` left out -/
structure BestOk (si : StudyInfo) (ex : Option Nat) : Prop where
  none_ : si.bestTrialId = none → ∀ (j : Nat) p, some j ≠ ex → si.trials[j]? = some p → p.2.state ≠ .complete
  some_ : ∀ b, si.bestTrialId = some b → ∃ (j : Nat) (t : TrialS), some j ≠ ex ∧ si.trials[j]? = some (b, t) ∧ t.state = .complete ∧
    ∀ d, si.directions = [d] → Dominates d si.trials ex t

/-- `_prev_waiting_trial_number[study_id]` exists, is a position of the list (or its length) and no
trial before it is WAITING -/
def PWOk (m : State) : Prop :=
  ∀ sid si, m.studies.get? sid = some si → ∃ c, m.prevWaiting.get? sid = some c ∧ c ≤ si.trials.length ∧
    ∀ (j : Nat) p, j < c → si.trials[j]? = some p → p.2.state ≠ .waiting

/-- COMPLETE trials of single-objective studies carry exactly one value, not NaN -/
def GoodOk (m : State) : Prop :=
  ∀ sid si d, m.studies.get? sid = some si → si.directions = [d] →
    ∀ (j : Nat) p, si.trials[j]? = some p → p.2.state = .complete → goodVals p.2.values = true

/-- the caches are sound -/
structure InvC (m : State) : Prop where
  pw : PWOk m
  good : GoodOk m
  best : ∀ sid si, m.studies.get? sid = some si → BestOk si none

def Inv (m : State) : Prop := InvS m ∧ InvC m

/-- The contract state `s` is one that the in-memory state `m` stands for. -/
structure Rel (m : State) (s : Spec) : Prop where
  studies : s.studies = absStudies m
  ntrials : s.trials.length = m.nextTrialId
  trialsOf : ∀ sid si, m.studies.get? sid = some si → s.trialsOf sid = si.trials
  bound : ∀ t ∈ s.trials, t.study < s.studies.length

/-! ## reading the contract state through `Rel` -/

theorem absStudies_length (m : State) : (absStudies m).length = m.nextStudyId := by
  simp [absStudies]

theorem absStudies_getElem? (m : State) (i : Nat) :
    (absStudies m)[i]? = if i < m.nextStudyId then some ((m.studies.get? i).map StudyInfo.pub) else none := by
  unfold absStudies
  rw [List.getElem?_map]
  by_cases h : i < m.nextStudyId
  · simp [h]
  · simp [h]

theorem study?_eq (m : State) (s : Spec) (hS : InvS m) (hR : Rel m s) (sid : Nat) :
    s.study? sid = (m.studies.get? sid).map StudyInfo.pub := by
  unfold Spec.study?
  rw [hR.studies, absStudies_getElem?]
  by_cases h : sid < m.nextStudyId
  · simp [h]
  · simp only [h, if_false, Option.join_none]
    cases hg : m.studies.get? sid with
    | none => rfl
    | some si => exact absurd (hS.sBound sid si hg) h

theorem study?_some (m : State) (s : Spec) (hS : InvS m) (hR : Rel m s) (sid : Nat) (si : StudyInfo)
    (h : m.studies.get? sid = some si) : s.study? sid = some si.pub := by
  rw [study?_eq m s hS hR, h]; rfl

theorem study?_none (m : State) (s : Spec) (hS : InvS m) (hR : Rel m s) (sid : Nat)
    (h : m.studies.get? sid = none) : s.study? sid = none := by
  rw [study?_eq m s hS hR, h]; rfl

theorem mem_trialsOf (s : Spec) (sid tid : Nat) (t : TrialS) :
    (tid, t) ∈ s.trialsOf sid ↔ s.trials[tid]? = some t ∧ t.study = sid := by
  unfold Spec.trialsOf
  rw [mem_trialsFrom]
  constructor
  · rintro ⟨k, hk, hg, hs⟩
    have : tid = k := by omega
    subst this; exact ⟨hg, hs⟩
  · rintro ⟨hg, hs⟩
    exact ⟨tid, by omega, hg, hs⟩

/-- What `_get_trial` finds is the contract's live trial. -/
theorem getTrial_ok (m : State) (s : Spec) (hS : InvS m) (hR : Rel m s) (tid : Nat) (f : Found)
    (h : getTrial m tid = .ok f) :
    f.id = tid ∧ (∃ si, m.studies.get? f.sid = some si ∧ si.trials[f.num]? = some (tid, f.t)) ∧
    m.tidMap.get? tid = some (f.sid, f.num) ∧
    f.t.study = f.sid ∧ f.t.number = f.num ∧ s.trials[tid]? = some f.t ∧ s.trial? tid = some f.t := by
  unfold getTrial at h
  cases hm : m.tidMap.get? tid with
  | none => simp [hm] at h
  | some p =>
    obtain ⟨sid, num⟩ := p
    simp only [hm] at h
    obtain ⟨si, t, hsi, ht⟩ := (hS.tmap tid sid num).1 hm
    simp only [hsi, ht] at h
    simp only [Except.ok.injEq] at h
    subst h
    obtain ⟨hnum, hstudy, _⟩ := hS.tfields sid si num tid t hsi ht
    have hmem : (tid, t) ∈ s.trialsOf sid := by
      rw [hR.trialsOf sid si hsi]; exact List.mem_of_getElem? ht
    obtain ⟨hget, _⟩ := (mem_trialsOf s sid tid t).1 hmem
    refine ⟨rfl, ⟨si, hsi, ht⟩, rfl, hstudy, hnum, hget, ?_⟩
    rw [trial?_some_iff]
    refine ⟨hget, ?_⟩
    rw [hstudy, study?_some m s hS hR sid si hsi]; rfl

theorem getTrial_error (m : State) (s : Spec) (hS : InvS m) (hR : Rel m s) (tid : Nat) (e : Err)
    (h : getTrial m tid = .error e) : e = .keyError ∧ m.tidMap.get? tid = none ∧ s.trial? tid = none := by
  unfold getTrial at h
  cases hm : m.tidMap.get? tid with
  | some p =>
    obtain ⟨sid, num⟩ := p
    simp only [hm] at h
    obtain ⟨si, t, hsi, ht⟩ := (hS.tmap tid sid num).1 hm
    simp [hsi, ht] at h
  | none =>
    simp only [hm, Except.error.injEq] at h
    refine ⟨h.symm, rfl, ?_⟩
    cases ht : s.trial? tid with
    | none => rfl
    | some t =>
      exfalso
      obtain ⟨hget, hlive⟩ := (trial?_some_iff s tid t).1 ht
      rw [study?_eq m s hS hR] at hlive
      cases hsi : m.studies.get? t.study with
      | none => simp [hsi] at hlive
      | some si =>
        have hmem : (tid, t) ∈ s.trialsOf t.study := (mem_trialsOf s t.study tid t).2 ⟨hget, rfl⟩
        rw [hR.trialsOf t.study si hsi] at hmem
        obtain ⟨j, hj⟩ := getElem?_of_mem _ _ hmem
        have := (hS.tmap tid t.study j).2 ⟨si, t, hsi, hj⟩
        rw [hm] at this; cases this

/-- `_get_trial` + `check_trial_is_updatable` is the contract's `writable`. -/
theorem getUpdatable_ok (m : State) (s : Spec) (hS : InvS m) (hR : Rel m s) (tid : Nat) (f : Found)
    (h : getUpdatable m tid = .ok f) :
    getTrial m tid = .ok f ∧ s.writable tid = .ok f.t ∧ f.t.state.isFinished = false := by
  unfold getUpdatable at h
  cases hg : getTrial m tid with
  | error e => simp [hg] at h
  | ok f' =>
    simp only [hg] at h
    split at h
    · cases h
    · rename_i hfin
      simp only [Except.ok.injEq] at h
      subst h
      have hfin' : f'.t.state.isFinished = false := by simpa using hfin
      refine ⟨rfl, ?_, hfin'⟩
      rw [writable_ok_iff]
      exact ⟨(getTrial_ok m s hS hR tid f' hg).2.2.2.2.2.2, hfin'⟩

theorem getUpdatable_error (m : State) (s : Spec) (hS : InvS m) (hR : Rel m s) (tid : Nat) (e : Err)
    (h : getUpdatable m tid = .error e) : s.writable tid = .error e := by
  unfold getUpdatable at h
  cases hg : getTrial m tid with
  | error e' =>
    simp only [hg, Except.error.injEq] at h
    obtain ⟨he, _, hnone⟩ := getTrial_error m s hS hR tid e' hg
    subst h; subst he
    simp [Spec.writable, hnone]
  | ok f' =>
    simp only [hg] at h
    split at h
    · rename_i hfin
      simp only [Except.error.injEq] at h
      subst h
      have := (getTrial_ok m s hS hR tid f' hg).2.2.2.2.2.2
      simp [Spec.writable, this, hfin]
    · cases h

end OptunaVerif.InMemory
