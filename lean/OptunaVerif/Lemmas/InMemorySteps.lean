import OptunaVerif.Lemmas.InMemoryFrames
/-! One public method of `InMemoryStorage` at a time: the model's step keeps `Inv`, is matched by the
contract's step on the abstract state (`Rel`), and answers what the contract allows. -/
namespace OptunaVerif.InMemory
open OptunaVerif OptunaVerif.Storage

/-! ## what is compared -/

/-- The contract state after a `create_new_study` that was rejected by the in-memory storage: the id it
had already taken is gone (it is the state after creating a study under a fresh name and deleting it,
`burn_eq_create_delete`). -/
def burn (s : Spec) : Spec := { s with studies := s.studies ++ [none] }

/-- The contract's step as realised by the in-memory storage: identical to `Storage.step` except that
a rejected `create_new_study` uses up a study id. -/
def specStep (s : Spec) : Op → Spec × Out
  | .createStudy name dirs =>
    if s.nameTaken name then (burn s, .err .duplicated) else Storage.step s (.createStudy name dirs)
  | op => Storage.step s op

/-- The call as the harness presents it to the contract model: `implRaised` := "the implementation
answered `ValueError`" (U1, the same rule as `verif/props/c01.py`). -/
def opFor (op : Op) (out : Out) : Op :=
  match op with
  | .createTrial sid tmpl _ => .createTrial sid tmpl (out == .err .valueError)
  | .setTrialParam tid name p _ => .setTrialParam tid name p (out == .err .valueError)
  | op => op

/-- Is the implementation's answer one the contract's answer allows?  Equal, or one of the equally
good best trials (U4), or `ValueError` where the contract model says `RuntimeError` for
`get_best_trial` (U3: multi-objective study without a COMPLETE trial). -/
def accepts (op : Op) (spec impl : Out) : Bool :=
  spec == impl ||
  (match spec, impl with
   | .oneOf l, .trial id t => l.contains (id, t)
   | .err .runtimeError, .err .valueError =>
     (match op with
      | .getBestTrial _ => true
      | _ => false)
   | _, _ => false)

theorem accepts_refl (op : Op) (o : Out) : accepts op o o = true := by
  simp [accepts]

/-- Client obligations the refinement relies on (what `optuna.study` guarantees of its storage
calls): a study has at least one direction, each MINIMIZE or MAXIMIZE; a trial of a
single-objective study becomes COMPLETE only with exactly one value, not NaN. -/
def Legal (s : Spec) : Op → Bool
  | .createStudy _ dirs => dirsOk dirs
  | .createTrial sid (some tm) _ =>
    (match s.study? sid with
     | some st => tm.state != .complete || st.directions.length != 1 || goodVals tm.values
     | none => true)
  | .setTrialStateValues tid st vals =>
    st != .complete ||
    (match s.writable tid with
     | .ok t =>
       (match s.study? t.study with
        | some sd => sd.directions.length != 1 || goodVals (vals.or t.values)
        | none => true)
     | .error _ => true)
  | _ => true

/-- one call: invariant kept, abstraction commutes, answer allowed -/
def Sim (m : State) (s : Spec) (op : Op) : Prop :=
  Inv (step m op).1 ∧ Rel (step m op).1 (specStep s (opFor op (step m op).2)).1 ∧
  accepts op (specStep s (opFor op (step m op).2)).2 (step m op).2 = true

/-! ## getters that do not touch the state -/

theorem sim_getStudyNameFromId (m : State) (s : Spec) (hI : Inv m) (hR : Rel m s) (sid : Nat) :
    Sim m s (.getStudyNameFromId sid) := by
  unfold Sim
  simp only [step, specStep, opFor, Storage.step, study?_eq m s hI.1 hR]
  cases h : m.studies.get? sid <;> simp [accepts_refl, hI, hR, StudyInfo.pub]

theorem sim_getStudyDirections (m : State) (s : Spec) (hI : Inv m) (hR : Rel m s) (sid : Nat) :
    Sim m s (.getStudyDirections sid) := by
  unfold Sim
  simp only [step, specStep, opFor, Storage.step, study?_eq m s hI.1 hR]
  cases h : m.studies.get? sid <;> simp [accepts_refl, hI, hR, StudyInfo.pub]

theorem sim_getStudyUserAttrs (m : State) (s : Spec) (hI : Inv m) (hR : Rel m s) (sid : Nat) :
    Sim m s (.getStudyUserAttrs sid) := by
  unfold Sim
  simp only [step, specStep, opFor, Storage.step, study?_eq m s hI.1 hR]
  cases h : m.studies.get? sid <;> simp [accepts_refl, hI, hR, StudyInfo.pub]

theorem sim_getStudySystemAttrs (m : State) (s : Spec) (hI : Inv m) (hR : Rel m s) (sid : Nat) :
    Sim m s (.getStudySystemAttrs sid) := by
  unfold Sim
  simp only [step, specStep, opFor, Storage.step, study?_eq m s hI.1 hR]
  cases h : m.studies.get? sid <;> simp [accepts_refl, hI, hR, StudyInfo.pub]

theorem sim_getTrial (m : State) (s : Spec) (hI : Inv m) (hR : Rel m s) (tid : Nat) :
    Sim m s (.getTrial tid) := by
  unfold Sim
  simp only [step, specStep, opFor, Storage.step]
  cases h : getTrial m tid with
  | error e =>
    obtain ⟨he, _, hn⟩ := getTrial_error m s hI.1 hR tid e h
    simp [hn, he, accepts_refl, hI, hR]
  | ok f =>
    obtain ⟨hid, _, _, _, _, _, ht⟩ := getTrial_ok m s hI.1 hR tid f h
    simp [ht, hid, accepts_refl, hI, hR]

theorem sim_getTrialParam (m : State) (s : Spec) (hI : Inv m) (hR : Rel m s) (tid : Nat) (name : String) :
    Sim m s (.getTrialParam tid name) := by
  unfold Sim
  simp only [step, specStep, opFor, Storage.step]
  cases h : getTrial m tid with
  | error e =>
    obtain ⟨he, _, hn⟩ := getTrial_error m s hI.1 hR tid e h
    simp [hn, he, accepts_refl, hI, hR]
  | ok f =>
    obtain ⟨hid, _, _, _, _, _, ht⟩ := getTrial_ok m s hI.1 hR tid f h
    simp only [ht]
    cases hp : f.t.params.get? name <;> simp [accepts_refl, hI, hR]

theorem sim_getTrialNumberFromId (m : State) (s : Spec) (hI : Inv m) (hR : Rel m s) (tid : Nat) :
    Sim m s (.getTrialNumberFromId tid) := by
  unfold Sim
  simp only [step, specStep, opFor, Storage.step]
  cases h : getTrial m tid with
  | error e =>
    obtain ⟨he, hmap, hn⟩ := getTrial_error m s hI.1 hR tid e h
    simp [hn, hmap, accepts_refl, hI, hR]
  | ok f =>
    obtain ⟨hid, _, hmap, _, hnum, _, ht⟩ := getTrial_ok m s hI.1 hR tid f h
    simp [ht, hmap, hnum, accepts_refl, hI, hR]

theorem sim_getTrialIdFromNumber (m : State) (s : Spec) (hI : Inv m) (hR : Rel m s) (sid number : Nat) :
    Sim m s (.getTrialIdFromNumber sid number) := by
  unfold Sim
  simp only [step, specStep, opFor, Storage.step, study?_eq m s hI.1 hR]
  cases h : m.studies.get? sid with
  | none => simp [accepts_refl, hI, hR]
  | some si =>
    simp only [Option.map_some, hR.trialsOf sid si h]
    cases hp : si.trials[number]? <;> simp [accepts_refl, hI, hR]

/-! ## study names -/

theorem findIdx_some {α : Type} (p : α → Bool) (l : List α) (i k : Nat) (h : findIdx p l i = some k) :
    i ≤ k ∧ ∃ a, l[k - i]? = some a ∧ p a = true := by
  induction l generalizing i with
  | nil => simp [findIdx] at h
  | cons a r ih =>
    simp only [findIdx] at h
    split at h
    · rename_i hp
      simp only [Option.some.injEq] at h
      subst h
      exact ⟨Nat.le_refl _, a, by simp, hp⟩
    · obtain ⟨hle, b, hb, hpb⟩ := ih (i + 1) h
      refine ⟨by omega, b, ?_, hpb⟩
      have e : k - i = (k - (i + 1)) + 1 := by omega
      rw [e]; simpa using hb

theorem findIdx_none {α : Type} (p : α → Bool) (l : List α) (i : Nat) (h : findIdx p l i = none) :
    ∀ a ∈ l, p a = false := by
  induction l generalizing i with
  | nil => intro a ha; cases ha
  | cons a r ih =>
    simp only [findIdx] at h
    split at h
    · cases h
    · rename_i hp
      intro b hb
      simp only [List.mem_cons] at hb
      rcases hb with hb | hb
      · subst hb; simpa using hp
      · exact ih (i + 1) h b hb

/-- a live study of the contract state carries a name iff the in-memory storage has it under that name -/
theorem study_named_iff (m : State) (s : Spec) (hS : InvS m) (hR : Rel m s) (name : String) (sid : Nat) :
    (∃ st, s.studies[sid]? = some (some st) ∧ st.name = name) ↔ m.nameToId.get? name = some sid := by
  rw [hS.names, hR.studies, absStudies_getElem?]
  constructor
  · rintro ⟨st, h, hn⟩
    split at h
    · simp only [Option.some.injEq] at h
      cases hg : m.studies.get? sid with
      | none => simp [hg] at h
      | some si =>
        simp only [hg, Option.map_some, Option.some.injEq] at h
        exact ⟨si, rfl, by rw [← hn, ← h]; rfl⟩
    · cases h
  · rintro ⟨si, hg, hn⟩
    have := hS.sBound sid si hg
    exact ⟨si.pub, by simp [this, hg], hn⟩

theorem nameTaken_iff (m : State) (s : Spec) (hS : InvS m) (hR : Rel m s) (name : String) :
    s.nameTaken name = (m.nameToId.get? name).isSome := by
  cases hg : m.nameToId.get? name with
  | some sid =>
    obtain ⟨st, h, hn⟩ := (study_named_iff m s hS hR name sid).2 hg
    simp only [Option.isSome_some]
    unfold Spec.nameTaken
    rw [List.any_eq_true]
    exact ⟨some st, List.mem_of_getElem? h, by simp [hn]⟩
  | none =>
    simp only [Option.isSome_none]
    cases ht : s.nameTaken name with
    | false => rfl
    | true =>
      exfalso
      unfold Spec.nameTaken at ht
      rw [List.any_eq_true] at ht
      obtain ⟨o, ho, hp⟩ := ht
      cases o with
      | none => simp at hp
      | some st =>
        obtain ⟨j, hj⟩ := getElem?_of_mem _ _ ho
        have := (study_named_iff m s hS hR name j).1 ⟨st, hj, by simpa using hp⟩
        rw [hg] at this; cases this

theorem sim_getStudyIdFromName (m : State) (s : Spec) (hI : Inv m) (hR : Rel m s) (name : String) :
    Sim m s (.getStudyIdFromName name) := by
  unfold Sim
  simp only [step, specStep, opFor, Storage.step]
  cases hf : findIdx (fun o => match o with | some st => st.name == name | none => false) s.studies 0 with
  | some k =>
    obtain ⟨_, a, ha, hp⟩ := findIdx_some _ _ _ _ hf
    simp only [Nat.sub_zero] at ha
    cases a with
    | none => simp at hp
    | some st =>
      have := (study_named_iff m s hI.1 hR name k).1 ⟨st, ha, by simpa using hp⟩
      simp [this, accepts_refl, hI, hR]
  | none =>
    cases hg : m.nameToId.get? name with
    | none => simp [accepts_refl, hI, hR]
    | some sid =>
      exfalso
      obtain ⟨st, h, hn⟩ := (study_named_iff m s hI.1 hR name sid).2 hg
      have := findIdx_none _ _ _ hf (some st) (List.mem_of_getElem? h)
      simp [hn] at this

/-! ## get_all_studies -/

theorem filterMap_congr' {α β : Type} {f g : α → Option β} {l : List α} (h : ∀ a ∈ l, f a = g a) :
    l.filterMap f = l.filterMap g := by
  induction l with
  | nil => rfl
  | cons a r ih =>
    rw [List.filterMap_cons, List.filterMap_cons, h a (by simp),
      ih (fun b hb => h b (List.mem_cons_of_mem _ hb))]

theorem get?_of_mem_key {α : Type} (l : NMap α) (p : Nat × α) (hp : p ∈ l) : ∃ v, NMap.get? l p.1 = some v := by
  induction l with
  | nil => cases hp
  | cons q r ih =>
    obtain ⟨a, v⟩ := q
    by_cases ha : a = p.1
    · exact ⟨v, by simp [NMap.get?, ha]⟩
    · simp only [List.mem_cons] at hp
      rcases hp with hp | hp
      · subst hp; exact absurd rfl ha
      · obtain ⟨si, hsi⟩ := ih hp
        exact ⟨si, by simp [NMap.get?, ha, hsi]⟩

theorem filterMap_range'_sorted {α β : Type} (g : α → β) (k : Nat) :
    ∀ (lo : Nat) (l : NMap α), (l.map (·.1)).Pairwise (· < ·) → (∀ p ∈ l, lo ≤ p.1 ∧ p.1 < lo + k) →
      (List.range' lo k).filterMap (fun i => (NMap.get? l i).map (fun v => (i, g v))) =
        l.map (fun p => (p.1, g p.2)) := by
  induction k with
  | zero =>
    intro lo l _ hb
    cases l with
    | nil => rfl
    | cons p r => have := hb p (by simp); omega
  | succ k ih =>
    intro lo l hs hb
    rw [List.range'_succ, List.filterMap_cons]
    cases l with
    | nil =>
      simp only [NMap.get?, Option.map_none, List.map_nil]
      rw [List.filterMap_eq_nil_iff]; intro a _; rfl
    | cons p r =>
      obtain ⟨a, v⟩ := p
      simp only [List.map_cons, List.pairwise_cons] at hs
      obtain ⟨hlt, hs'⟩ := hs
      have hba := hb (a, v) (by simp)
      by_cases ha : a = lo
      · subst ha
        simp only [NMap.get?, if_true, Option.map_some, List.map_cons]
        congr 1
        rw [← ih (a + 1) r hs' ?_]
        · apply filterMap_congr'
          intro i hi
          have : a + 1 ≤ i := (List.mem_range'_1.1 hi).1
          have hne : ¬ a = i := by omega
          simp [hne]
        · intro q hq
          have h1 := hlt q.1 (List.mem_map_of_mem hq)
          have h2 := hb q (List.mem_cons_of_mem _ hq)
          omega
      · have hne : ¬ a = lo := ha
        simp only [NMap.get?, hne, if_false]
        have hnone : NMap.get? r lo = none := by
          apply NMap.get?_none_of_not_key
          intro q hq
          have h1 := hlt q.1 (List.mem_map_of_mem hq)
          omega
        simp only [hnone, Option.map_none]
        rw [← ih (lo + 1) ((a, v) :: r) (by simp only [List.map_cons, List.pairwise_cons]; exact ⟨hlt, hs'⟩) ?_]
        · apply filterMap_congr'
          intro i _
          simp [NMap.get?]
        · intro q hq
          have h2 := hb q hq
          simp only [List.mem_cons] at hq
          rcases hq with hq | hq
          · subst hq; omega
          · have h1 := hlt q.1 (List.mem_map_of_mem hq)
            omega

theorem zipIdx_filterMap_range {β : Type} (f : Nat → Option β) (n : Nat) :
    (((List.range n).map f).zipIdx).filterMap (fun p => p.1.map (fun st => (p.2, st))) =
      (List.range n).filterMap (fun i => (f i).map (fun st => (i, st))) := by
  induction n with
  | zero => rfl
  | succ n ih =>
    rw [List.range_succ, List.map_append, List.zipIdx_append, List.filterMap_append, List.filterMap_append, ih]
    cases hf : f n <;> simp [hf]

theorem sim_getAllStudies (m : State) (s : Spec) (hI : Inv m) (hR : Rel m s) : Sim m s .getAllStudies := by
  unfold Sim
  simp only [step, specStep, opFor, Storage.step]
  refine ⟨hI, hR, ?_⟩
  have : s.studies.zipIdx.filterMap (fun p => p.1.map (fun st => (p.2, st))) =
      m.studies.map (fun p => (p.1, p.2.pub)) := by
    rw [hR.studies]
    unfold absStudies
    rw [zipIdx_filterMap_range, List.range_eq_range']
    have := filterMap_range'_sorted StudyInfo.pub m.nextStudyId 0 m.studies hI.1.sKeys (by
      intro p hp
      obtain ⟨si, hsi⟩ := get?_of_mem_key m.studies p hp
      have := hI.1.sBound p.1 si hsi
      omega)
    rw [← this]
    apply filterMap_congr'
    intro i _
    cases m.studies.get? i <;> rfl
  rw [this]
  exact accepts_refl _ _

/-! ## study attributes -/

theorem sim_setStudyUserAttr (m : State) (s : Spec) (hI : Inv m) (hR : Rel m s) (sid : Nat) (k v : String) :
    Sim m s (.setStudyUserAttr sid k v) := by
  unfold Sim
  simp only [step, specStep, opFor, Storage.step, study?_eq m s hI.1 hR]
  cases h : m.studies.get? sid with
  | none => simp [accepts_refl, hI, hR]
  | some si =>
    simp only [Option.map_some]
    refine ⟨⟨?_, ?_⟩, ?_, accepts_refl _ _⟩
    · exact invS_upd m sid _ hI.1 (fun _ => rfl) (fun _ => rfl) (fun _ _ _ => rfl)
    · exact invC_upd m sid _ hI.2 (fun _ => rfl) (fun _ => rfl) (fun _ _ _ => rfl)
    · exact rel_upd m s sid _ _ hR (fun _ => rfl) (fun _ => rfl)

theorem sim_setStudySystemAttr (m : State) (s : Spec) (hI : Inv m) (hR : Rel m s) (sid : Nat) (k v : String) :
    Sim m s (.setStudySystemAttr sid k v) := by
  unfold Sim
  simp only [step, specStep, opFor, Storage.step, study?_eq m s hI.1 hR]
  cases h : m.studies.get? sid with
  | none => simp [accepts_refl, hI, hR]
  | some si =>
    simp only [Option.map_some]
    refine ⟨⟨?_, ?_⟩, ?_, accepts_refl _ _⟩
    · exact invS_upd m sid _ hI.1 (fun _ => rfl) (fun _ => rfl) (fun _ _ _ => rfl)
    · exact invC_upd m sid _ hI.2 (fun _ => rfl) (fun _ => rfl) (fun _ _ _ => rfl)
    · exact rel_upd m s sid _ _ hR (fun _ => rfl) (fun _ => rfl)

/-! ## the plain trial setters -/

theorem modTrial_ok (m : State) (s : Spec) (hI : Inv m) (hR : Rel m s) (tid : Nat) (g : TrialS → TrialS)
    (f : Found) (hu : getUpdatable m tid = .ok f)
    (hg : ∀ t, (g t).study = t.study ∧ (g t).number = t.number ∧ (g t).state = t.state ∧ (g t).values = t.values) :
    Inv (setTrial m f.sid f.num (f.id, g f.t)) ∧ Rel (setTrial m f.sid f.num (f.id, g f.t)) (s.updTrial tid g) := by
  obtain ⟨hget, _, _⟩ := getUpdatable_ok m s hI.1 hR tid f hu
  obtain ⟨hid, ⟨si, hsi, ht⟩, _⟩ := getTrial_ok m s hI.1 hR tid f hget
  refine ⟨⟨?_, ?_⟩, rel_setTrial m s hI.1 hR tid f hget g (fun t => (hg t).1)⟩
  · rw [hid]; exact invS_setTrial m hI.1 f.sid f.num tid si f.t (g f.t) hsi ht (hg _).2.1 (hg _).1
  · rw [hid]; exact invC_setTrial_same m hI.2 f.sid f.num tid si f.t (g f.t) hsi ht (hg _).2.2.1 (hg _).2.2.2

theorem sim_setTrialInter (m : State) (s : Spec) (hI : Inv m) (hR : Rel m s) (tid : Nat) (stp : Int) (v : XVal) :
    Sim m s (.setTrialInter tid stp v) := by
  unfold Sim
  simp only [step, specStep, opFor, Storage.step, modTrial]
  cases hu : getUpdatable m tid with
  | error e => rw [getUpdatable_error m s hI.1 hR tid e hu]; simp [accepts_refl, hI, hR]
  | ok f =>
    obtain ⟨_, hw, _⟩ := getUpdatable_ok m s hI.1 hR tid f hu
    rw [hw]
    obtain ⟨h1, h2⟩ := modTrial_ok m s hI hR tid (fun t => { t with inter := setInter t.inter stp v }) f hu
      (fun _ => ⟨rfl, rfl, rfl, rfl⟩)
    exact ⟨h1, h2, accepts_refl _ _⟩

theorem sim_setTrialUserAttr (m : State) (s : Spec) (hI : Inv m) (hR : Rel m s) (tid : Nat) (k v : String) :
    Sim m s (.setTrialUserAttr tid k v) := by
  unfold Sim
  simp only [step, specStep, opFor, Storage.step, modTrial]
  cases hu : getUpdatable m tid with
  | error e => rw [getUpdatable_error m s hI.1 hR tid e hu]; simp [accepts_refl, hI, hR]
  | ok f =>
    obtain ⟨_, hw, _⟩ := getUpdatable_ok m s hI.1 hR tid f hu
    rw [hw]
    obtain ⟨h1, h2⟩ := modTrial_ok m s hI hR tid (fun t => { t with userAttrs := t.userAttrs.set k v }) f hu
      (fun _ => ⟨rfl, rfl, rfl, rfl⟩)
    exact ⟨h1, h2, accepts_refl _ _⟩

theorem sim_setTrialSystemAttr (m : State) (s : Spec) (hI : Inv m) (hR : Rel m s) (tid : Nat) (k v : String) :
    Sim m s (.setTrialSystemAttr tid k v) := by
  unfold Sim
  simp only [step, specStep, opFor, Storage.step, modTrial]
  cases hu : getUpdatable m tid with
  | error e => rw [getUpdatable_error m s hI.1 hR tid e hu]; simp [accepts_refl, hI, hR]
  | ok f =>
    obtain ⟨_, hw, _⟩ := getUpdatable_ok m s hI.1 hR tid f hu
    rw [hw]
    obtain ⟨h1, h2⟩ := modTrial_ok m s hI hR tid (fun t => { t with systemAttrs := t.systemAttrs.set k v }) f hu
      (fun _ => ⟨rfl, rfl, rfl, rfl⟩)
    exact ⟨h1, h2, accepts_refl _ _⟩

/-! ## set_trial_param -/

theorem getTrial_upd_same (m : State) (sid : Nat) (h : StudyInfo → StudyInfo)
    (ht : ∀ si, (h si).trials = si.trials) (tid : Nat) :
    getTrial { m with studies := m.studies.upd sid h } tid = getTrial m tid := by
  unfold getTrial
  dsimp only
  cases m.tidMap.get? tid with
  | none => rfl
  | some p =>
    obtain ⟨k, num⟩ := p
    dsimp only
    have e := NMap.get?_upd m.studies sid k h
    cases hy : m.studies.get? k with
    | none =>
      have e' : NMap.get? (NMap.upd m.studies sid h) k = none := by rw [e, hy]; split <;> rfl
      rw [e']
    | some y =>
      by_cases hk : k = sid
      · have e' : NMap.get? (NMap.upd m.studies sid h) k = some (h y) := by rw [e, hy]; simp [hk]
        rw [e']
        dsimp only
        rw [ht]
      · have e' : NMap.get? (NMap.upd m.studies sid h) k = some y := by rw [e, hy]; simp [hk]
        rw [e']

/-- the state change of an accepted `set_trial_param` -/
theorem setParam_ok (m : State) (s : Spec) (hI : Inv m) (hR : Rel m s) (tid : Nat) (name : String) (p : Param)
    (f : Found) (hu : getUpdatable m tid = .ok f) (sid' : Nat) (hsid' : sid' = f.sid) :
    Inv (setTrial { m with studies := m.studies.upd f.sid (fun si => { si with paramDist := si.paramDist.set name p.dist }) }
          f.sid f.num (f.id, { f.t with params := f.t.params.set name p })) ∧
    Rel (setTrial { m with studies := m.studies.upd f.sid (fun si => { si with paramDist := si.paramDist.set name p.dist }) }
          f.sid f.num (f.id, { f.t with params := f.t.params.set name p }))
      ((s.updTrial tid (fun t => { t with params := t.params.set name p })).updStudy sid'
        (fun st => { st with paramDist := st.paramDist.set name p.dist })) := by
  obtain ⟨hget, _, _⟩ := getUpdatable_ok m s hI.1 hR tid f hu
  obtain ⟨hid, ⟨si, hsi, ht⟩, _⟩ := getTrial_ok m s hI.1 hR tid f hget
  have hS1 := invS_upd m f.sid (fun si => { si with paramDist := si.paramDist.set name p.dist }) hI.1
    (fun _ => rfl) (fun _ => rfl) (fun _ _ _ => rfl)
  have hC1 := invC_upd m f.sid (fun si => { si with paramDist := si.paramDist.set name p.dist }) hI.2
    (fun _ => rfl) (fun _ => rfl) (fun _ _ _ => rfl)
  have hR1 := rel_upd m s f.sid (fun si => { si with paramDist := si.paramDist.set name p.dist })
    (fun st => { st with paramDist := st.paramDist.set name p.dist }) hR (fun _ => rfl) (fun _ => rfl)
  have hget1 := (getTrial_upd_same m f.sid (fun si => { si with paramDist := si.paramDist.set name p.dist })
    (fun _ => rfl) tid).trans hget
  have hsi1 := get?_upd_of_some m.studies f.sid f.sid
    (fun si => { si with paramDist := si.paramDist.set name p.dist }) si hsi
  simp only [if_true] at hsi1
  refine ⟨⟨?_, ?_⟩, ?_⟩
  · rw [hid]; exact invS_setTrial _ hS1 f.sid f.num tid _ f.t _ hsi1 ht rfl rfl
  · rw [hid]; exact invC_setTrial_same _ hC1 f.sid f.num tid _ f.t _ hsi1 ht rfl rfl
  · rw [hsid']
    exact rel_setTrial _ _ hS1 hR1 tid f hget1 (fun t => { t with params := t.params.set name p }) (fun _ => rfl)

theorem sim_setTrialParam (m : State) (s : Spec) (hI : Inv m) (hR : Rel m s) (tid : Nat) (name : String)
    (p : Param) (ir : Bool) : Sim m s (.setTrialParam tid name p ir) := by
  unfold Sim
  cases hu : getUpdatable m tid with
  | error e =>
    have hstep : step m (.setTrialParam tid name p ir) = (m, .err e) := by simp only [step, hu]
    rw [hstep]
    simp only [opFor, specStep, Storage.step, getUpdatable_error m s hI.1 hR tid e hu]
    exact ⟨hI, hR, accepts_refl _ _⟩
  | ok f =>
    obtain ⟨hget, hw, _⟩ := getUpdatable_ok m s hI.1 hR tid f hu
    obtain ⟨hid, ⟨si, hsi, ht⟩, _, hstudy, _⟩ := getTrial_ok m s hI.1 hR tid f hget
    have hst : s.study? f.t.study = some si.pub := by rw [hstudy]; exact study?_some m s hI.1 hR f.sid si hsi
    obtain ⟨hinv, hrel⟩ := setParam_ok m s hI hR tid name p f hu f.t.study hstudy
    have hb : (Out.unit == Out.err .valueError) = false := by decide
    cases hpd : si.paramDist.get? name with
    | none =>
      have hfc : si.pub.fixedConflict name p.dist = false := by
        simp [StudyS.fixedConflict, StudyInfo.pub, hpd]
      simp only [step, hu, hsi, hpd, opFor, specStep, Storage.step, hw, hst, hfc, hb]
      exact ⟨hinv, by simpa using hrel, by simp [accepts]⟩
    | some d0 =>
      by_cases hc : d0.compat p.dist = true
      · have hfc : si.pub.fixedConflict name p.dist = false := by
          simp [StudyS.fixedConflict, StudyInfo.pub, hpd, hc]
        simp only [step, hu, hsi, hpd, hc, if_true, opFor, specStep, Storage.step, hw, hst, hfc, hb]
        exact ⟨hinv, by simpa using hrel, by simp [accepts]⟩
      · have hc' : d0.compat p.dist = false := by simpa using hc
        have hfc : si.pub.fixedConflict name p.dist = true := by
          simp [StudyS.fixedConflict, StudyInfo.pub, hpd, hc']
        simp only [step, hu, hsi, hpd, hc', opFor, specStep, Storage.step, hw, hst, hfc, if_true]
        exact ⟨hI, hR, accepts_refl _ _⟩

end OptunaVerif.InMemory
