import OptunaVerif.Lemmas.InMemorySteps
/-! In-memory refinement, continued: the WAITING cursor, `create_new_study`, `delete_study`. -/
namespace OptunaVerif.InMemory
open OptunaVerif OptunaVerif.Storage

/-! ## get_all_trials / get_n_trials and the WAITING cursor -/

theorem filter_drop_of_prefix_false {α : Type} (P : α → Bool) (l : List α) (c : Nat)
    (h : ∀ (j : Nat) (a : α), j < c → l[j]? = some a → P a = false) :
    (l.drop c).filter P = l.filter P := by
  conv => rhs; rw [← List.take_append_drop c l]
  rw [List.filter_append]
  have : (l.take c).filter P = [] := by
    rw [List.filter_eq_nil_iff]
    intro a ha
    obtain ⟨j, hj⟩ := getElem?_of_mem _ _ ha
    rw [List.getElem?_take] at hj
    split at hj
    · rename_i hlt
      simp [h j a hlt hj]
    · cases hj
  rw [this, List.nil_append]

theorem filter_head_index {α : Type} (P : α → Bool) (l : List α) (p : α) (rest : List α)
    (h : l.filter P = p :: rest) :
    ∃ i : Nat, l[i]? = some p ∧ ∀ (j : Nat) (a : α), j < i → l[j]? = some a → P a = false := by
  induction l with
  | nil => simp at h
  | cons a r ih =>
    rw [List.filter_cons] at h
    split at h
    · simp only [List.cons.injEq] at h
      obtain ⟨h1, _⟩ := h
      subst h1
      exact ⟨0, by simp, by intro j b hj; omega⟩
    · rename_i hp
      obtain ⟨i, hi, hall⟩ := ih h
      refine ⟨i + 1, by simpa using hi, ?_⟩
      intro j b hj hb
      cases j with
      | zero => simp at hb; subst hb; simpa using hp
      | succ j => exact hall j b (by omega) (by simpa using hb)

theorem stateIn_waiting (st : TState) : stateIn (some [.waiting]) st = (st == .waiting) := by
  cases st <;> rfl

theorem allTrials_spec (m : State) (hI : Inv m) (sid : Nat) (si : StudyInfo)
    (hsi : m.studies.get? sid = some si) (states : Option (List TState)) :
    Inv (allTrials m sid si states).1 ∧ (∀ s, Rel m s → Rel (allTrials m sid si states).1 s) ∧
    (allTrials m sid si states).2 = si.trials.filter (fun p => stateIn states p.2.state) := by
  unfold allTrials
  split
  · rename_i hst
    have hst' : states = some [.waiting] := by simpa using hst
    subst hst'
    obtain ⟨c, hc, _, hall⟩ := hI.2.pw sid si hsi
    have hfound : (si.trials.drop ((m.prevWaiting.get? sid).getD 0)).filter (fun p => p.2.state == .waiting) =
        si.trials.filter (fun p => p.2.state == .waiting) := by
      rw [hc]
      apply filter_drop_of_prefix_false
      intro j a hj ha
      have := hall j a hj ha
      simpa using this
    dsimp only
    rw [hfound]
    refine ⟨⟨invS_prevWaiting m _ hI.1, ?_, hI.2.good, hI.2.best⟩, fun s hR => rel_prevWaiting m s _ hR, ?_⟩
    · intro k x hx
      show ∃ c', NMap.get? (NMap.set m.prevWaiting sid _) k = some c' ∧ _
      rw [NMap.get?_set]
      by_cases hk : k = sid
      · subst hk
        have hx' : m.studies.get? k = some x := hx
        rw [hsi] at hx'; cases hx'
        simp only [if_true]
        cases hf : si.trials.filter (fun p => p.2.state == .waiting) with
        | nil =>
          refine ⟨_, rfl, Nat.le_refl _, ?_⟩
          intro j p hj hp
          rw [List.filter_eq_nil_iff] at hf
          have := hf p (List.mem_of_getElem? hp)
          simpa using this
        | cons q rest =>
          obtain ⟨i, hi, hbefore⟩ := filter_head_index _ _ _ _ hf
          have hnum := (hI.1.tfields k si i q.1 q.2 hsi hi).1
          have hlt : i < si.trials.length := by
            rcases Nat.lt_or_ge i si.trials.length with h' | h'
            · exact h'
            · rw [List.getElem?_eq_none h'] at hi; cases hi
          refine ⟨_, rfl, by simp only; omega, ?_⟩
          intro j p hj hp
          have := hbefore j p (by simp only at hj; omega) hp
          simpa using this
      · simp only [hk, if_false]
        exact hI.2.pw k x hx
    · apply List.filter_congr
      intro p _
      rw [stateIn_waiting]
  · exact ⟨hI, fun s hR => hR, rfl⟩

theorem sim_getAllTrials (m : State) (s : Spec) (hI : Inv m) (hR : Rel m s) (sid : Nat)
    (states : Option (List TState)) : Sim m s (.getAllTrials sid states) := by
  unfold Sim
  simp only [step, specStep, opFor, Storage.step, study?_eq m s hI.1 hR]
  cases h : m.studies.get? sid with
  | none => simp [accepts_refl, hI, hR]
  | some si =>
    obtain ⟨h1, h2, h3⟩ := allTrials_spec m hI sid si h states
    simp only [Option.map_some, hR.trialsOf sid si h, h3]
    exact ⟨h1, h2 s hR, accepts_refl _ _⟩

theorem sim_getNTrials (m : State) (s : Spec) (hI : Inv m) (hR : Rel m s) (sid : Nat)
    (states : Option (List TState)) : Sim m s (.getNTrials sid states) := by
  unfold Sim
  simp only [step, specStep, opFor, Storage.step, study?_eq m s hI.1 hR]
  cases h : m.studies.get? sid with
  | none => simp [accepts_refl, hI, hR]
  | some si =>
    obtain ⟨h1, h2, h3⟩ := allTrials_spec m hI sid si h states
    simp only [Option.map_some, hR.trialsOf sid si h, h3]
    exact ⟨h1, h2 s hR, accepts_refl _ _⟩

/-! ## create_new_study -/

theorem get?_next_none (m : State) (hS : InvS m) : m.studies.get? m.nextStudyId = none := by
  cases h : m.studies.get? m.nextStudyId with
  | none => rfl
  | some si => exact absurd (hS.sBound _ si h) (Nat.lt_irrefl _)

theorem trialsFrom_nil (sid : Nat) (l : List TrialS) (i : Nat) (h : ∀ t ∈ l, t.study ≠ sid) :
    trialsFrom sid l i = [] := by
  induction l generalizing i with
  | nil => rfl
  | cons a r ih =>
    have ha : (a.study == sid) = false := by simpa using h a (by simp)
    simp only [trialsFrom, ha]
    exact ih (i + 1) (fun t ht => h t (List.mem_cons_of_mem _ ht))

/-- a rejected `create_new_study` has used up a study id -/
theorem createStudy_dup (m : State) (s : Spec) (hI : Inv m) (hR : Rel m s) :
    Inv { m with nextStudyId := m.nextStudyId + 1 } ∧ Rel { m with nextStudyId := m.nextStudyId + 1 } (burn s) := by
  refine ⟨⟨⟨hI.1.sKeys, fun sid si h => Nat.lt_succ_of_lt (hI.1.sBound sid si h), hI.1.names, hI.1.tmap,
    hI.1.tfields, hI.1.dirs⟩, ⟨hI.2.pw, hI.2.good, hI.2.best⟩⟩, ?_⟩
  constructor
  · show s.studies ++ [none] = absStudies { m with nextStudyId := m.nextStudyId + 1 }
    unfold absStudies
    show _ = (List.range (m.nextStudyId + 1)).map (fun i => (m.studies.get? i).map StudyInfo.pub)
    rw [List.range_succ, List.map_append, hR.studies]
    simp [absStudies, get?_next_none m hI.1]
  · exact hR.ntrials
  · exact hR.trialsOf
  · intro t ht
    show t.study < (s.studies ++ [none]).length
    have := hR.bound t ht
    simp; omega

theorem createStudy_fresh (m : State) (s : Spec) (hI : Inv m) (hR : Rel m s) (name : String) (dirs : List Nat)
    (hfree : m.nameToId.get? name = none) (hd : dirsOk dirs = true) :
    Inv { m with nextStudyId := m.nextStudyId + 1,
                 studies := m.studies.set m.nextStudyId (newStudy name dirs),
                 nameToId := m.nameToId.set name m.nextStudyId,
                 prevWaiting := m.prevWaiting.set m.nextStudyId 0 } ∧
    Rel { m with nextStudyId := m.nextStudyId + 1,
                 studies := m.studies.set m.nextStudyId (newStudy name dirs),
                 nameToId := m.nameToId.set name m.nextStudyId,
                 prevWaiting := m.prevWaiting.set m.nextStudyId 0 }
      { s with studies := s.studies ++ [some (StudyS.mk name dirs [] [] [])] } := by
  have hnone := get?_next_none m hI.1
  have hget : ∀ k, NMap.get? (NMap.set m.studies m.nextStudyId (newStudy name dirs)) k =
      if k = m.nextStudyId then some (newStudy name dirs) else m.studies.get? k := fun k => NMap.get?_set _ _ _ _
  -- a study of the new state is the new one or an old one
  have cases_ : ∀ k x, NMap.get? (NMap.set m.studies m.nextStudyId (newStudy name dirs)) k = some x →
      (k = m.nextStudyId ∧ x = newStudy name dirs) ∨ (k ≠ m.nextStudyId ∧ m.studies.get? k = some x) := by
    intro k x hx
    rw [hget] at hx
    by_cases hk : k = m.nextStudyId
    · simp only [hk, if_true, Option.some.injEq] at hx; exact .inl ⟨hk, hx.symm⟩
    · simp only [hk, if_false] at hx; exact .inr ⟨hk, hx⟩
  have old : ∀ k x, m.studies.get? k = some x →
      NMap.get? (NMap.set m.studies m.nextStudyId (newStudy name dirs)) k = some x ∧ k ≠ m.nextStudyId := by
    intro k x hx
    have hk : k ≠ m.nextStudyId := by intro e; rw [e, hnone] at hx; cases hx
    rw [hget]; simp [hk, hx]
  refine ⟨⟨?_, ?_⟩, ?_⟩
  · constructor
    · show ((NMap.set m.studies m.nextStudyId (newStudy name dirs)).map (·.1)).Pairwise (· < ·)
      rw [NMap.set_of_get?_none _ _ _ hnone, List.map_append, List.pairwise_append]
      refine ⟨hI.1.sKeys, by simp, ?_⟩
      intro a ha b hb
      simp only [List.map_cons, List.map_nil, List.mem_singleton] at hb
      subst hb
      obtain ⟨p, hp, e⟩ := List.mem_map.1 ha
      obtain ⟨v, hv⟩ := get?_of_mem_key m.studies p hp
      rw [← e]; exact hI.1.sBound p.1 v hv
    · intro k x hx
      show k < m.nextStudyId + 1
      rcases cases_ k x hx with ⟨hk, _⟩ | ⟨_, hx'⟩
      · omega
      · exact Nat.lt_succ_of_lt (hI.1.sBound k x hx')
    · intro nm k
      show AList.get? (AList.set m.nameToId name m.nextStudyId) nm = some k ↔ _
      rw [alist_get?_set]
      constructor
      · intro h
        by_cases hn : nm = name
        · simp only [hn, if_true, Option.some.injEq] at h
          subst h
          exact ⟨newStudy name dirs, by rw [hget]; simp, by rw [hn]; rfl⟩
        · simp only [hn, if_false] at h
          obtain ⟨si, hsi, hname⟩ := (hI.1.names nm k).1 h
          exact ⟨si, (old k si hsi).1, hname⟩
      · rintro ⟨x, hx, hname⟩
        rcases cases_ k x hx with ⟨hk, hx'⟩ | ⟨hk, hx'⟩
        · subst hx'
          have : nm = name := hname.symm
          simp [this, hk]
        · have hn : nm ≠ name := by
            intro e
            have := (hI.1.names nm k).2 ⟨x, hx', hname⟩
            rw [e, hfree] at this; cases this
          simp only [hn, if_false]
          exact (hI.1.names nm k).2 ⟨x, hx', hname⟩
    · intro tid k num
      show m.tidMap.get? tid = some (k, num) ↔ _
      rw [hI.1.tmap]
      constructor
      · rintro ⟨si, t, hsi, ht⟩
        exact ⟨si, t, (old k si hsi).1, ht⟩
      · rintro ⟨x, t, hx, ht⟩
        rcases cases_ k x hx with ⟨_, hx'⟩ | ⟨_, hx'⟩
        · subst hx'; simp [newStudy] at ht
        · exact ⟨x, t, hx', ht⟩
    · intro k x num tid t hx ht
      rcases cases_ k x hx with ⟨_, hx'⟩ | ⟨_, hx'⟩
      · subst hx'; simp [newStudy] at ht
      · exact hI.1.tfields k x num tid t hx' ht
    · intro k x hx
      rcases cases_ k x hx with ⟨_, hx'⟩ | ⟨_, hx'⟩
      · subst hx'; exact hd
      · exact hI.1.dirs k x hx'
  · constructor
    · intro k x hx
      show ∃ c, NMap.get? (NMap.set m.prevWaiting m.nextStudyId 0) k = some c ∧ _
      rw [NMap.get?_set]
      rcases cases_ k x hx with ⟨hk, hx'⟩ | ⟨hk, hx'⟩
      · simp only [hk, if_true]
        exact ⟨0, rfl, Nat.zero_le _, by intro j p hj; omega⟩
      · simp only [hk, if_false]
        exact hI.2.pw k x hx'
    · intro k x d hx hdir j p hp
      rcases cases_ k x hx with ⟨_, hx'⟩ | ⟨_, hx'⟩
      · subst hx'; simp [newStudy] at hp
      · exact hI.2.good k x d hx' hdir j p hp
    · intro k x hx
      rcases cases_ k x hx with ⟨_, hx'⟩ | ⟨_, hx'⟩
      · subst hx'
        exact ⟨by intro _ j p _ hp; simp [newStudy] at hp, by intro b hb; simp [newStudy] at hb⟩
      · exact hI.2.best k x hx'
  · constructor
    · show s.studies ++ [some (StudyS.mk name dirs [] [] [])] = (List.range (m.nextStudyId + 1)).map
        (fun i => (NMap.get? (NMap.set m.studies m.nextStudyId (newStudy name dirs)) i).map StudyInfo.pub)
      rw [List.range_succ, List.map_append, hR.studies]
      congr 1
      · unfold absStudies
        apply List.map_congr_left
        intro i hi
        have : i ≠ m.nextStudyId := by have := List.mem_range.1 hi; omega
        rw [hget]; simp [this]
      · rw [List.map_cons, List.map_nil, hget]; simp [newStudy, StudyInfo.pub]
    · exact hR.ntrials
    · intro k x hx
      show s.trialsOf k = x.trials
      rcases cases_ k x hx with ⟨hk, hx'⟩ | ⟨_, hx'⟩
      · subst hx'
        unfold Spec.trialsOf
        rw [trialsFrom_nil]
        · rfl
        · intro t ht e
          have := hR.bound t ht
          rw [hR.studies, absStudies_length] at this
          omega
      · exact hR.trialsOf k x hx'
    · intro t ht
      show t.study < (s.studies ++ [some (StudyS.mk name dirs [] [] [])]).length
      have := hR.bound t ht
      simp; omega

theorem sim_createStudy (m : State) (s : Spec) (hI : Inv m) (hR : Rel m s) (name : String) (dirs : List Nat)
    (hL : Legal s (.createStudy name dirs) = true) : Sim m s (.createStudy name dirs) := by
  unfold Sim
  have hnt := nameTaken_iff m s hI.1 hR name
  cases hg : m.nameToId.get? name with
  | some sid =>
    rw [hg] at hnt
    simp only [step, hg, Option.isSome_some, if_true, opFor, specStep, hnt]
    obtain ⟨h1, h2⟩ := createStudy_dup m s hI hR
    exact ⟨h1, h2, accepts_refl _ _⟩
  | none =>
    rw [hg] at hnt
    simp only [Option.isSome_none] at hnt
    simp only [step, hg, Option.isSome_none, Bool.false_eq_true, if_false, opFor, specStep, Storage.step, hnt]
    obtain ⟨h1, h2⟩ := createStudy_fresh m s hI hR name dirs hg hL
    refine ⟨h1, h2, ?_⟩
    rw [hR.studies, absStudies_length]
    exact accepts_refl _ _

/-! ## delete_study -/

theorem deleteStudy_ok (m : State) (s : Spec) (hI : Inv m) (hR : Rel m s) (sid : Nat) (si : StudyInfo)
    (hsi : m.studies.get? sid = some si) :
    Inv { m with tidMap := si.trials.foldl (fun mp p => mp.erase p.1) m.tidMap,
                 nameToId := eraseKey m.nameToId si.name,
                 studies := m.studies.erase sid,
                 prevWaiting := m.prevWaiting.erase sid } ∧
    Rel { m with tidMap := si.trials.foldl (fun mp p => mp.erase p.1) m.tidMap,
                 nameToId := eraseKey m.nameToId si.name,
                 studies := m.studies.erase sid,
                 prevWaiting := m.prevWaiting.erase sid }
      { s with studies := updAt s.studies sid (fun _ => none) } := by
  have alive : ∀ k x, NMap.get? (NMap.erase m.studies sid) k = some x → k ≠ sid ∧ m.studies.get? k = some x := by
    intro k x hx
    rw [NMap.get?_erase] at hx
    by_cases hk : k = sid
    · simp [hk] at hx
    · simp only [hk, if_false] at hx; exact ⟨hk, hx⟩
  have keep : ∀ k x, k ≠ sid → m.studies.get? k = some x → NMap.get? (NMap.erase m.studies sid) k = some x := by
    intro k x hk hx
    rw [NMap.get?_erase]; simp [hk, hx]
  refine ⟨⟨?_, ?_⟩, ?_⟩
  · constructor
    · show ((NMap.erase m.studies sid).map (·.1)).Pairwise (· < ·)
      exact List.Pairwise.sublist (List.Sublist.map _ List.filter_sublist) hI.1.sKeys
    · intro k x hx
      exact hI.1.sBound k x (alive k x hx).2
    · intro nm k
      show AList.get? (eraseKey m.nameToId si.name) nm = some k ↔ _
      rw [get?_eraseKey]
      constructor
      · intro h
        by_cases hn : nm = si.name
        · simp [hn] at h
        · simp only [hn, if_false] at h
          obtain ⟨x, hx, hname⟩ := (hI.1.names nm k).1 h
          have hk : k ≠ sid := by
            intro e; rw [e, hsi] at hx; cases hx; exact hn hname.symm
          exact ⟨x, keep k x hk hx, hname⟩
      · rintro ⟨x, hx, hname⟩
        obtain ⟨hk, hx'⟩ := alive k x hx
        have hn : nm ≠ si.name := by
          intro e
          have h1 := (hI.1.names nm k).2 ⟨x, hx', hname⟩
          have h2 := (hI.1.names nm sid).2 ⟨si, hsi, e.symm⟩
          rw [h1] at h2; cases h2; exact hk rfl
        simp only [hn, if_false]
        exact (hI.1.names nm k).2 ⟨x, hx', hname⟩
    · intro tid k num
      show NMap.get? (si.trials.foldl (fun mp p => mp.erase p.1) m.tidMap) tid = some (k, num) ↔ _
      constructor
      · intro h
        by_cases hin : ∃ p ∈ si.trials, p.1 = tid
        · rw [get?_foldl_erase_of_mem _ _ _ hin] at h; cases h
        · have hout : ∀ p ∈ si.trials, p.1 ≠ tid := fun p hp e => hin ⟨p, hp, e⟩
          rw [get?_foldl_erase_of_not_mem _ _ _ hout] at h
          obtain ⟨x, t, hx, ht⟩ := (hI.1.tmap tid k num).1 h
          have hk : k ≠ sid := by
            intro e; rw [e, hsi] at hx; cases hx
            exact hout (tid, t) (List.mem_of_getElem? ht) rfl
          exact ⟨x, t, keep k x hk hx, ht⟩
      · rintro ⟨x, t, hx, ht⟩
        obtain ⟨hk, hx'⟩ := alive k x hx
        have h1 := (hI.1.tmap tid k num).2 ⟨x, t, hx', ht⟩
        have hout : ∀ p ∈ si.trials, p.1 ≠ tid := by
          intro p hp e
          obtain ⟨j, hj⟩ := getElem?_of_mem _ _ hp
          have h2 := (hI.1.tmap tid sid j).2 ⟨si, p.2, hsi, by rw [hj]; congr 1; exact Prod.ext e rfl⟩
          rw [h1] at h2
          simp only [Option.some.injEq, Prod.mk.injEq] at h2
          exact hk h2.1
        rw [get?_foldl_erase_of_not_mem _ _ _ hout]; exact h1
    · intro k x num tid t hx ht
      exact hI.1.tfields k x num tid t (alive k x hx).2 ht
    · intro k x hx
      exact hI.1.dirs k x (alive k x hx).2
  · constructor
    · intro k x hx
      obtain ⟨hk, hx'⟩ := alive k x hx
      show ∃ c, NMap.get? (NMap.erase m.prevWaiting sid) k = some c ∧ _
      rw [NMap.get?_erase]
      simp only [hk, if_false]
      exact hI.2.pw k x hx'
    · intro k x d hx
      exact hI.2.good k x d (alive k x hx).2
    · intro k x hx
      exact hI.2.best k x (alive k x hx).2
  · constructor
    · show updAt s.studies sid (fun _ => none) = (List.range m.nextStudyId).map
        (fun i => (NMap.get? (NMap.erase m.studies sid) i).map StudyInfo.pub)
      apply List.ext_getElem?
      intro i
      rw [updAt_getElem?, hR.studies, absStudies_getElem?, List.getElem?_map]
      by_cases hlt : i < m.nextStudyId
      · simp only [hlt, if_true, List.getElem?_range hlt, Option.map_some, NMap.get?_erase]
        by_cases hi : i = sid
        · simp [hi]
        · simp [hi]
      · have : (List.range m.nextStudyId)[i]? = none := by
          apply List.getElem?_eq_none; simp; omega
        simp [hlt]
    · exact hR.ntrials
    · intro k x hx
      exact hR.trialsOf k x (alive k x hx).2
    · intro t ht
      show t.study < (updAt s.studies sid (fun _ => none)).length
      rw [updAt_length]; exact hR.bound t ht

theorem sim_deleteStudy (m : State) (s : Spec) (hI : Inv m) (hR : Rel m s) (sid : Nat) :
    Sim m s (.deleteStudy sid) := by
  unfold Sim
  simp only [step, specStep, opFor, Storage.step, study?_eq m s hI.1 hR]
  cases h : m.studies.get? sid with
  | none => simp [accepts_refl, hI, hR]
  | some si =>
    simp only [Option.map_some]
    obtain ⟨h1, h2⟩ := deleteStudy_ok m s hI hR sid si h
    exact ⟨h1, h2, accepts_refl _ _⟩

end OptunaVerif.InMemory
